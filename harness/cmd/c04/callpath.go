// Call paths: the ways a caller can hand "this transaction, this input, this spent output" to Engine.Execute.
//
// The property speaks of the transaction, the input and the spent output - not of one particular way of passing them.
// The engine's options allow several: the locking script through the previous output of WithTx, through WithScripts
// (the previous output then carries the value only), or through both; the unlocking script through the input,
// through WithScripts (the input of the object then has none), or through both; the transaction object may come off
// the wire (its inputs record no previous output), be the object the signer left behind (the inputs record what was
// signed), or record SOMETHING ELSE (a stale value and script the engine must overwrite with the previous output it
// is given); the options may come in any order, the flags as WithForkID / WithAfterGenesis or as one WithFlags word,
// on a fresh engine or on one that has already run other verifications.  Every such call is a verification of the
// same triple: a library-made signature must be accepted on all of them, a committed mutation rejected on all of
// them, an uncommitted one still accepted on all of them.
package main

import (
	"fmt"

	"github.com/libsv/go-bt/v2"
	"github.com/libsv/go-bt/v2/bscript"
	"github.com/libsv/go-bt/v2/bscript/interpreter"
	"github.com/libsv/go-bt/v2/bscript/interpreter/scriptflag"

	"verif/harness/common"
	"verif/harness/txgen"
)

type vctx struct {
	Lock      int  `json:"lock_via"`      // 0 previous output only, 1 WithScripts only (the previous output carries the value only), 2 both
	Unlock    int  `json:"unlock_via"`    // 0 the input only, 1 WithScripts only (the input of the object has no script), 2 both
	Obj       int  `json:"object"`        // checked input of the object: 0 records nothing (off the wire), 1 what the signer recorded, 2 a stale value and another script
	Others    int  `json:"other_inputs"`  // 0 as the signer left them, 1 off the wire
	Order     int  `json:"option_order"`  // 0 flags,tx,scripts  1 scripts,tx,flags  2 tx,flags,scripts
	FlagsWord bool `json:"flags_as_word"` // WithFlags(word) instead of WithForkID() / WithAfterGenesis()
	Shared    bool `json:"shared_engine"` // an engine object that has already executed other verifications
	Alias     bool `json:"aliased"`       // WithScripts and the previous output / the input share one *bscript.Script
}

func (v vctx) String() string {
	return fmt.Sprintf("lock %s, unlock %s, object %s",
		[]string{"in the previous output", "through WithScripts only (previous output with the value only)", "in both"}[v.Lock],
		[]string{"in the input", "through WithScripts only (input without script)", "in both"}[v.Unlock],
		[]string{"off the wire", "as signed", "recording another output"}[v.Obj])
}

// the nine (lock, unlock) combinations
var lockUnlock = [][2]int{{0, 0}, {0, 1}, {0, 2}, {1, 0}, {1, 1}, {1, 2}, {2, 0}, {2, 1}, {2, 2}}

// randCtx: combination n of the nine, everything else drawn
func randCtx(r *common.Rand, n int) vctx {
	lu := lockUnlock[n%9]
	return vctx{Lock: lu[0], Unlock: lu[1], Obj: r.Intn(3), Others: r.Intn(2), Order: r.Intn(3), FlagsWord: r.Bool(), Shared: r.Bool(), Alias: r.Bool()}
}

var sharedEngine = interpreter.NewEngine()

// staleScript: another P2PKH-shaped script than the one spent (what an object recycled from another verification holds)
func staleScript(lock []byte) []byte {
	o := append([]byte{}, lock...)
	if len(o) > 5 {
		o[5] ^= 0x55
	} else {
		o = append(o, 0x61)
	}
	return o
}

func staleSats(v uint64) uint64 { return v ^ 0x3c1 }

// object: the transaction object handed to WithTx for input i of s under v
func (v vctx) object(s txgen.TxSpec, i int) txgen.TxSpec {
	w := cloneSpec(s)
	for j := range w.Ins {
		if j != i && v.Others == 1 {
			w.Ins[j].Prev, w.Ins[j].PrevNil, w.Ins[j].Sats = "", true, 0
		}
	}
	switch v.Obj {
	case 0:
		w.Ins[i].Prev, w.Ins[i].PrevNil, w.Ins[i].Sats = "", true, 0
	case 2:
		w.Ins[i].Prev, w.Ins[i].PrevNil, w.Ins[i].Sats = common.Hex(staleScript(common.Unhex(s.Ins[i].Prev))), false, staleSats(s.Ins[i].Sats)
	}
	if v.Unlock == 1 {
		w.Ins[i].Unlock, w.Ins[i].UnlockNil = "", true
	}
	return w
}

// acceptsVia: the real interpreter on input i of s (which records the spent output: script s.Ins[i].Prev, value
// s.Ins[i].Sats), called the way v says
func acceptsVia(s txgen.TxSpec, i int, flags uint32, v vctx) (ok bool, msg string) {
	tx := txgen.Build(v.object(s, i))
	lock := bscript.NewFromBytes(common.Unhex(s.Ins[i].Prev))
	unlock := bscript.NewFromBytes(common.Unhex(s.Ins[i].Unlock))
	prev := &bt.Output{Satoshis: s.Ins[i].Sats}
	var lockArg, unlockArg *bscript.Script
	if v.Lock != 1 {
		prev.LockingScript = lock
	}
	if v.Lock != 0 {
		lockArg = lock
		if !v.Alias {
			lockArg = bscript.NewFromBytes(common.Unhex(s.Ins[i].Prev))
		}
	}
	if v.Unlock != 0 {
		unlockArg = unlock
		if v.Unlock == 2 && v.Alias {
			unlockArg = tx.Inputs[i].UnlockingScript
		}
	}
	var fl []interpreter.ExecutionOptionFunc
	if v.FlagsWord {
		var w scriptflag.Flag
		if flags&fForkID != 0 {
			w |= scriptflag.EnableSighashForkID
		}
		if flags&fGenesis != 0 {
			w |= scriptflag.UTXOAfterGenesis
		}
		fl = append(fl, interpreter.WithFlags(w))
	} else {
		fl = opts(flags)
	}
	withTx := []interpreter.ExecutionOptionFunc{interpreter.WithTx(tx, i, prev)}
	var withScripts []interpreter.ExecutionOptionFunc
	if lockArg != nil || unlockArg != nil {
		withScripts = append(withScripts, interpreter.WithScripts(lockArg, unlockArg))
	}
	var all []interpreter.ExecutionOptionFunc
	switch v.Order {
	case 0:
		all = append(append(append(all, fl...), withTx...), withScripts...)
	case 1:
		all = append(append(append(all, withScripts...), withTx...), fl...)
	default:
		all = append(append(append(all, withTx...), fl...), withScripts...)
	}
	eng := interpreter.NewEngine()
	if v.Shared {
		eng = sharedEngine
	}
	var err error
	panicked, pm := common.Safely(func() { err = eng.Execute(all...) })
	if panicked {
		return false, "panic: " + pm
	}
	if err != nil {
		return false, err.Error()
	}
	return true, ""
}

// ctxObs: one observation handed to the Coq side (coq/corr/C04.v, ctx_obs): the mutation it was made on (none: the
// signed transaction), how the scripts were passed, what the checked input of the object recorded beforehand,
// whether the other inputs were off the wire, and the verdict
func ctxObs(s txgen.TxSpec, i int, v vctx, mutCoq string, acc bool) string {
	obj := v.object(s, i)
	m := "None"
	if mutCoq != "" {
		m = "(Some " + mutCoq + ")"
	}
	return fmt.Sprintf("mkCtxObs %s %d %d %s %d %s %s", m, v.Lock, v.Unlock,
		common.CoqOptBytes(common.Unhex(obj.Ins[i].Prev), obj.Ins[i].PrevNil), obj.Ins[i].Sats, common.CoqBool(v.Others == 1), common.CoqBool(acc))
}
