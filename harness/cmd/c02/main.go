// c02: FORKID signature hash (CalcInputPreimage / CalcInputSignatureHash) — see harness/sighash.
package main

import "verif/harness/sighash"

func main() { sighash.Run("C02", false) }
