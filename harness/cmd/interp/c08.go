package main

import (
	"strings"

	"verif/harness/common"
	"verif/harness/interpgen"
)

type prov struct {
	name string
	// code that leaves (at least) two stack items derived from the same data x, one of them on top
	code func(x []byte) []byte
}

func cat(parts ...[]byte) []byte {
	var out []byte
	for _, p := range parts {
		out = append(out, p...)
	}
	return out
}

var filler = []byte{0x5a, 0x5b} // arbitrary other items

var provenances = []prov{
	{"DUP", func(x []byte) []byte { return cat(interpgen.Push(x), []byte{0x76}) }},
	{"2DUP", func(x []byte) []byte { return cat(interpgen.Push(filler), interpgen.Push(x), []byte{0x6e}) }},
	{"3DUP", func(x []byte) []byte {
		return cat(interpgen.Push(filler), interpgen.Push(filler), interpgen.Push(x), []byte{0x6f})
	}},
	{"OVER", func(x []byte) []byte { return cat(interpgen.Push(x), interpgen.Push(filler), []byte{0x78}) }},
	{"2OVER", func(x []byte) []byte {
		return cat(interpgen.Push(filler), interpgen.Push(x), interpgen.Push(filler), interpgen.Push(filler), []byte{0x70})
	}},
	{"PICK", func(x []byte) []byte { return cat(interpgen.Push(x), interpgen.Push(filler), []byte{0x51, 0x79}) }},
	{"TUCK", func(x []byte) []byte { return cat(interpgen.Push(filler), interpgen.Push(x), []byte{0x7d}) }},
	{"IFDUP", func(x []byte) []byte { return cat(interpgen.Push(x), []byte{0x73}) }},
	{"SPLIT-right", func(x []byte) []byte {
		return cat(interpgen.Push(cat(x, x)), interpgen.Push(interpgen.NumEnc(int64(len(x)))), []byte{0x7f})
	}},
	{"SPLIT-left", func(x []byte) []byte {
		return cat(interpgen.Push(cat(x, x)), interpgen.Push(interpgen.NumEnc(int64(len(x)))), []byte{0x7f, 0x7c})
	}},
	{"ALT-of-DUP", func(x []byte) []byte { return cat(interpgen.Push(x), []byte{0x76, 0x6b, 0x6c}) }},
	{"ALT-keeps-twin", func(x []byte) []byte { return cat(interpgen.Push(x), []byte{0x76, 0x6b}) }},
	{"script-push", func(x []byte) []byte { return interpgen.Push(x) }},
	{"script-push-twice", func(x []byte) []byte { return cat(interpgen.Push(x), interpgen.Push(x)) }},
	{"ROT-of-3DUP", func(x []byte) []byte {
		return cat(interpgen.Push(x), interpgen.Push(x), interpgen.Push(x), []byte{0x6f, 0x7b})
	}},
	{"SWAP-of-2DUP", func(x []byte) []byte { return cat(interpgen.Push(filler), interpgen.Push(x), []byte{0x6e, 0x7c, 0x7c}) }},
	{"ROLL", func(x []byte) []byte {
		return cat(interpgen.Push(x), []byte{0x76}, interpgen.Push(filler), []byte{0x52, 0x7a})
	}},
}

type xform struct {
	name string
	code []byte // applied with the twin on top (binary ones push their second operand first)
}

func bin(op byte, operand []byte) []byte { return cat(interpgen.Push(operand), []byte{op}) }

var transforms = []xform{
	{"1ADD", []byte{0x8b}}, {"1SUB", []byte{0x8c}}, {"NEGATE", []byte{0x8f}}, {"ABS", []byte{0x90}}, {"NOT", []byte{0x91}},
	{"0NOTEQUAL", []byte{0x92}}, {"INVERT", []byte{0x83}}, {"BIN2NUM", []byte{0x81}}, {"SIZE", []byte{0x82}},
	{"RIPEMD160", []byte{0xa6}}, {"SHA1", []byte{0xa7}}, {"SHA256", []byte{0xa8}}, {"HASH160", []byte{0xa9}}, {"HASH256", []byte{0xaa}},
	{"ADD", bin(0x93, []byte{0x03})}, {"SUB", bin(0x94, []byte{0x03})}, {"MUL", bin(0x95, []byte{0x03})}, {"DIV", bin(0x96, []byte{0x03})},
	{"MOD", bin(0x97, []byte{0x03})}, {"LSHIFT1", bin(0x98, []byte{0x01})}, {"LSHIFT9", bin(0x98, []byte{0x09})},
	{"RSHIFT1", bin(0x99, []byte{0x01})}, {"RSHIFT9", bin(0x99, []byte{0x09})}, {"BOOLAND", bin(0x9a, []byte{0x01})},
	{"BOOLOR", bin(0x9b, []byte{})}, {"NUMEQUAL", bin(0x9c, []byte{0x01})}, {"LESSTHAN", bin(0x9f, []byte{0x05})},
	{"MIN", bin(0xa3, []byte{0x02})}, {"MAX", bin(0xa4, []byte{0x02})}, {"CAT", bin(0x7e, []byte{0xaa, 0xbb})},
	{"NUM2BIN", bin(0x80, []byte{0x08})}, {"SPLIT", bin(0x7f, []byte{0x01})},
	{"AND-self", []byte{0x76, 0x83, 0x84}}, {"OR-self", []byte{0x76, 0x83, 0x85}}, {"XOR-self", []byte{0x76, 0x86}},
	{"WITHIN", cat(interpgen.Push([]byte{0x00}), interpgen.Push([]byte{0x7f}), []byte{0xa5})},
	{"EQUAL", bin(0x87, []byte{0x01})}, {"IF", []byte{0x63, 0x51, 0x68}}, {"VERIFY-ish", []byte{0x76, 0x69}},
	{"PICK-num", []byte{0x79}}, {"TOALT", []byte{0x6b}}, {"DROP", []byte{0x75}}, {"NIP", []byte{0x77}},
}

var twinValues = [][]byte{
	{0x01}, {0x02}, {0x81}, {0x01, 0x80}, {0x01, 0x00}, {0x80, 0x00}, {0x00, 0x80}, {0x7f}, {0xff, 0x7f}, {0x12, 0x34}, {0x01, 0x00, 0x80},
	{0x03, 0x00, 0x00}, {0xff, 0xff, 0xff, 0x7f}, {0x01, 0x02, 0x03, 0x04, 0x05, 0x06},
}

// aliasProgram: provenance, transform, then a tail that brings every remaining item back into view
// (so a corrupted twin shows in later snapshots and in the final verdict through OP_EQUAL chains).
func aliasProgram(pv prov, tf xform, x []byte, fl uint32, inUnlock bool) *interpgen.Program {
	body := cat(pv.code(x), tf.code)
	tail := []byte{0x74, 0x75, 0x6c, 0x75, 0x51} // DEPTH DROP FROMALTSTACK DROP 1 (errors here are fine)
	p := &interpgen.Program{Flags: fl, Kind: "alias/" + pv.name + "/" + tf.name}
	if inUnlock {
		p.Unlock, p.Lock = body, []byte{0x74, 0x75, 0x51}
	} else {
		p.Unlock, p.Lock = []byte{}, cat(body, tail)
	}
	return p.Fix()
}

func runC08() {
	r := common.NewRand(c.Seed)
	n := 0
	for _, pv := range provenances {
		for _, tf := range transforms {
			for vi, x := range twinValues {
				n++
				// quick: every program for three twin values, the rest sampled; thorough: everything
				if !c.Thorough() && vi >= 3 && (n*31)%7 != 0 {
					continue
				}
				for _, fl := range []uint32{0, interpgen.FGenesis} {
					emit(aliasProgram(pv, tf, x, fl, false))
				}
				if vi < 2 {
					emit(aliasProgram(pv, tf, x, interpgen.FGenesis, true))
				}
			}
		}
	}
	// BOTH copies transformed one after the other by the same opcode (x DUP op SWAP op, and with the twin parked on the
	// alt stack meanwhile): what decoding or transforming the first copy leaves behind must not reach the second
	for pi, pv := range provenances {
		for ti, tf := range transforms {
			if !c.Thorough() && (pi+ti+int(c.Seed))%3 != 0 && pi != 0 {
				continue
			}
			x := twinValues[(pi+2*ti)%len(twinValues)]
			fl := uint32(0)
			if (pi+ti)%2 == 0 {
				fl = interpgen.FGenesis
			}
			emit((&interpgen.Program{Unlock: []byte{}, Lock: cat(pv.code(x), tf.code, []byte{0x7c}, tf.code, []byte{0x74, 0x75, 0x51}), Flags: fl, Kind: "both-twins/" + pv.name + "/" + tf.name}).Fix())
			if pi == 0 {
				emit((&interpgen.Program{Unlock: []byte{}, Lock: cat(interpgen.Push(x), []byte{0x76, 0x6b}, tf.code, []byte{0x75, 0x6c}, tf.code, []byte{0x74, 0x75, 0x51}), Flags: fl, Kind: "both-twins/alt/" + tf.name}).Fix())
			}
		}
	}
	// chains of two or three transformations on shared data
	nChains := 300
	if c.Thorough() {
		nChains = 6000
	}
	for i := 0; i < nChains; i++ {
		pv := provenances[r.Intn(len(provenances))]
		x := twinValues[r.Intn(len(twinValues))]
		body := pv.code(x)
		for k := 2 + r.Intn(2); k > 0; k-- {
			body = cat(body, transforms[r.Intn(len(transforms))].code)
			if r.Chance(40) {
				body = cat(body, provenances[r.Intn(8)].code(x)[len(interpgen.Push(x)):])
			}
		}
		fl := uint32(0)
		if r.Bool() {
			fl = interpgen.FGenesis
		}
		p := &interpgen.Program{Unlock: []byte{}, Lock: cat(body, []byte{0x74, 0x75, 0x51}), Flags: fl, Kind: "alias-chain"}
		emit(p.Fix())
	}
	// a result is kept (also as a copy, also on the alt stack) while another opcode produces its own:
	// every ordered pair of value-producing snippets; whatever the second one does, the first result stays
	nPairs := 0
	for i, t1 := range transforms {
		for j, t2 := range transforms {
			nPairs++
			if !c.Thorough() && (i*len(transforms)+j)%3 != int(c.Seed%3) && !(i >= 9 && i <= 13 && j >= 9 && j <= 13) {
				continue // quick: a third of the pairs per seed, the hash x hash block always
			}
			x, y := twinValues[(i+j)%len(twinValues)], twinValues[(i*7+j*3+1)%len(twinValues)]
			keep := [][]byte{{}, {0x76}, {0x76, 0x6b}}[(i+2*j)%3]
			body := cat(interpgen.Push(x), t1.code, keep, interpgen.Push(y), t2.code)
			fl := uint32(0)
			if (i+j)%2 == 1 {
				fl = interpgen.FGenesis
			}
			p := &interpgen.Program{Unlock: []byte{}, Lock: cat(body, []byte{0x74, 0x75, 0x6c, 0x75, 0x51}), Flags: fl, Kind: "retain/" + t1.name + "/" + t2.name}
			emit(p.Fix())
		}
	}
	// one stack growing past its allocation sizes while the other holds items that are compared afterwards
	interpgen.DeepStacks(func(p *interpgen.Program) { emit(p) })
	// P2SH: the saved first stack shares data with the redeem script that is then executed
	for i := 0; i < 40; i++ {
		p := interpgen.P2SH(r)
		if p.Flags&interpgen.FGenesis == 0 {
			emit(p)
		}
	}
	// with a transaction context: the tx must keep its serialisation
	for i := 0; i < 60; i++ {
		p := aliasProgram(provenances[r.Intn(len(provenances))], transforms[r.Intn(len(transforms))], twinValues[r.Intn(len(twinValues))], 0, r.Bool())
		p.HasTx, p.HasPrev, p.TxVersion, p.InSeq = true, true, 1, 0xffffffff
		p.ScriptsApart = i%2 == 1 // an unsigned transaction checked against a candidate unlocking script
		if i%4 == 3 {
			p.HasPrev = false
		}
		emit(p.Fix())
	}
	nShapes := 800
	if c.Thorough() {
		nShapes = 20000
	}
	sigShapes(r, buffersOnly, nShapes)
	runSharing(r)
	nReach := 240
	if c.Thorough() {
		nReach = 8000
	}
	sigReach(r, buffersOnly, nReach)
	runEmptyViews(r)
	// caller-owned data through every option (c08_owned.go); generators of their own, so that the families above see the
	// random stream they saw before
	runResume(common.NewRand(c.Seed*1000003 + 8))
	runTxGraph(common.NewRand(c.Seed*1000003 + 9))
	c.Stats.Rule = "caller-owned data through every option (implementation only; every object compared, not only the serialisation): (a) frames - programs of the aliasing matrix, random chains, conditionals, P2SH, script-boundary programs and signature programs with a transaction are run with a debugger that keeps the State of every BeforeStep / BeforeExecuteOpcode / AfterStep (the frames from which a resumed run is the rest of the run); execution is resumed from each kept frame (interpreter.WithState) three times over the same caller objects: the frame reads the same after each (all stacks, conditional stacks, parsed scripts with their push data, counters), the three runs end alike and as the uninterrupted run, and show step for step the stacks of the rest of the uninterrupted run (BeforeStep frames also against the model: corr/C08.v KResume); (b) transaction graphs - 300 signature programs whose signatures reach the digest (real keys, original and replay-protected digests) plus junk-signature and signature-free programs against transactions with inputs before AND behind the checked one, the other inputs holding previous outputs (set by the caller as for an extended-format transaction, one script object shared by all, the very object of the checked output's script, recorded by Execute on those inputs), the checked input already holding one (same object, equal, another) or none, the other inputs executed before / after / both: every script object reachable from the transaction (with the spare capacity behind its length), every pointer, value, outpoint and sequence compared before / after every execution, the record being the only change; executing the same input twice ends alike; then: 800 signature-opcode shapes with a transaction context (tested input at index 0..2, 1..4 outputs, all base hash types incl. SINGLE/NONE with and without ANYONECANPAY/FORKID) (implementation only: caller buffers, tx serialisation and the prevout record compared); 240 signature-opcode programs whose signatures reach the digest (real keys; valid signatures over the specified script code and well-formed ones over another digest; CHECKSIG / P2PKH / m-of-n CHECKMULTISIG and the VERIFY forms; bare, behind executed OP_CODESEPARATORs, between the keys, in a P2SH redeem script, with a signature push inside the script; all hash types with/without the FORKID bit and flag) (implementation only: the same caller-buffer predicates - the record on the checked input is the spent output's script, not the script code); zero-length VIEWS (15 ways of making an empty item that still has an address and a capacity: left half of a split at 0, right half of a split at SIZE, OP_PUSHDATA1/2/4 of length 0, their copies, of script bytes and of results) x 65 transformations (the 42 of the matrix, OP_NUM2BIN to 0/1/2/3/4/20 bytes, the view as second operand / size / position / shift count), in the locking script, made in the unlocking and transformed in the locking script, in a P2SH redeem script, plus random chains - values against the model, sharing against the heap model, caller buffers; provenance x transformation matrix: 17 ways of obtaining two stack items backed by the same data (DUP, 2DUP, 3DUP, OVER, 2OVER, PICK, TUCK, IFDUP, both halves of SPLIT, alt-stack round trips, pushes straight from the script bytes, ROT/SWAP/ROLL of duplicates) x 42 value-transforming opcode snippets x 14 twin values x both eras, in the locking script and in the unlocking script; random chains of 2-3 transformations; every ordered pair of the 42 snippets with the first result retained (plain, duplicated, or parked on the alt stack) while the second runs (quick: a third of the pairs per seed plus all hash x hash pairs); P2SH (saved stack shared with the redeem script); runs with a transaction context. Every snapshot of every stack item after every step is compared with the model (in which values cannot alias), the frame property is stated directly on the snapshots, and the caller-held script and transaction buffers are compared byte for byte before/after. distinct = distinct program; non-trivial = at least one step completed"
	runFlagShapes() // c08_flags.go: flag- and shape-selected handler paths on shared items (round 9)
}

// emitLive: the sharing structure of the interpreter's own stacks after every step (which items lie in which
// backing array, and where) against the heap model's prediction (coq/model/Heap.v).
func emitLive(p *interpgen.Program) {
	if p.HasTx {
		return
	}
	obs, msg, trace := interpgen.RunLive(p)
	c.Tally("sharing/" + strings.SplitN(p.Kind, "/", 2)[0] + "/" + obs)
	if obs == "panic" {
		c.Violate("Engine.Execute/panic", msg, p)
	}
	c.Case(interpgen.CoqLive(p, obs, trace), map[string]interface{}{"kind": "sharing/" + p.Kind, "program": p}, "L"+key(p), len(trace) > 0)
}

func runSharing(r *common.Rand) {
	// every provenance x every transformation, one twin value each (all values in thorough), both eras
	n := 0
	for pi, pv := range provenances {
		for ti, tf := range transforms {
			for vi, x := range twinValues {
				n++
				if !c.Thorough() && vi != (pi+ti+int(c.Seed))%len(twinValues) {
					continue
				}
				fl := uint32(0)
				if n%2 == 1 {
					fl = interpgen.FGenesis
				}
				emitLive(aliasProgram(pv, tf, x, fl, n%5 == 0))
			}
		}
	}
	// BIN2NUM shares its operand exactly when the encoding is already minimal; SPLIT at every position; empty items
	for _, x := range [][]byte{{}, {0x01}, {0x80}, {0x00}, {0x01, 0x80}, {0x01, 0x00}, {0x80, 0x00}, {0x80, 0x80}, {0x00, 0x00}, {0x7f, 0x00, 0x00}, {0x01, 0x00, 0x80}, {0x01, 0x02, 0x03, 0x00, 0x80}} {
		for _, fl := range []uint32{0, interpgen.FGenesis} {
			emitLive((&interpgen.Program{Unlock: interpgen.Push(x), Lock: []byte{0x76, 0x81, 0x7c, 0x81, 0x74, 0x75, 0x51}, Flags: fl, Kind: "bin2num"}).Fix())
			for k := 0; k <= len(x); k++ {
				emitLive((&interpgen.Program{Unlock: []byte{}, Lock: cat(interpgen.Push(x), []byte{0x76}, interpgen.Push(interpgen.NumEnc(int64(k))), []byte{0x7f, 0x7e, 0x7c, 0x75, 0x51}), Flags: fl, Kind: "split"}).Fix())
			}
		}
	}
	// every ordered pair of transformations, the second applied to what the first left (directly, on a duplicate of it,
	// and on the halves of a split of it): what a handler returns is what the next one receives
	for i, t1 := range transforms {
		for j, t2 := range transforms {
			if !c.Thorough() && (i+2*j+int(c.Seed))%4 != 0 && !(t1.name == "CAT" || t2.name == "CAT") {
				continue
			}
			x := twinValues[(i+j)%len(twinValues)]
			mid := [][]byte{{}, {0x76}, {0x51, 0x7f, 0x7c}, {0x76, 0x6b}}[(i+j)%4] // nothing / DUP / 1 SPLIT SWAP / DUP TOALTSTACK
			fl := uint32(0)
			if (i+j)%2 == 0 {
				fl = interpgen.FGenesis
			}
			emitLive((&interpgen.Program{Unlock: []byte{}, Lock: cat(interpgen.Push(x), t1.code, mid, t2.code, []byte{0x74, 0x75, 0x51}), Flags: fl, Kind: "pair"}).Fix())
		}
	}
	// OP_CAT chains: a result extended again, an older copy of it extended differently, a half of it extended
	for _, body := range [][]byte{
		cat(interpgen.Push([]byte{0xaa}), interpgen.Push([]byte{0xbb}), []byte{0x7e}, interpgen.Push([]byte{0xcc}), []byte{0x7e}, interpgen.Push([]byte{0xdd}), []byte{0x7e}),
		cat(interpgen.Push([]byte{0xaa}), interpgen.Push([]byte{0xbb}), []byte{0x7e}, interpgen.Push([]byte{0xcc}), []byte{0x7e, 0x76}, interpgen.Push([]byte{0xdd}), []byte{0x7e, 0x7c}, interpgen.Push([]byte{0xee}), []byte{0x7e}),
		cat(interpgen.Push([]byte{0xaa, 0xbb}), interpgen.Push([]byte{0xcc, 0xdd}), []byte{0x7e, 0x52, 0x7f, 0x7c}, interpgen.Push([]byte{0xee}), []byte{0x7e}),
		cat(interpgen.Push([]byte{0xaa, 0xbb}), interpgen.Push([]byte{0xcc, 0xdd}), []byte{0x7e, 0x76, 0x6b}, interpgen.Push([]byte{0xee}), []byte{0x7e, 0x6c}, interpgen.Push([]byte{0xff}), []byte{0x7e}),
		cat(interpgen.Push([]byte{}), interpgen.Push([]byte{0xcc, 0xdd}), []byte{0x7e}, interpgen.Push([]byte{}), []byte{0x7e, 0x76}, interpgen.Push([]byte{0x01}), []byte{0x7e}),
	} {
		for _, fl := range []uint32{0, interpgen.FGenesis} {
			emitLive((&interpgen.Program{Unlock: []byte{}, Lock: cat(body, []byte{0x74, 0x75, 0x51}), Flags: fl, Kind: "cat-chain"}).Fix())
			emit((&interpgen.Program{Unlock: []byte{}, Lock: cat(body, []byte{0x74, 0x75, 0x51}), Flags: fl, Kind: "cat-chain"}).Fix())
		}
	}
	// chains and generated programs without signature opcodes
	nGen := 300
	if c.Thorough() {
		nGen = 8000
	}
	for i := 0; i < nGen; i++ {
		pv := provenances[r.Intn(len(provenances))]
		x := twinValues[r.Intn(len(twinValues))]
		body := pv.code(x)
		for k := 1 + r.Intn(4); k > 0; k-- {
			body = cat(body, transforms[r.Intn(len(transforms))].code)
			if r.Chance(50) {
				body = cat(body, provenances[r.Intn(len(provenances))].code(x)[len(interpgen.Push(x)):])
			}
		}
		fl := uint32(0)
		if r.Bool() {
			fl = interpgen.FGenesis
		}
		if r.Chance(30) {
			emitLive((&interpgen.Program{Unlock: body, Lock: []byte{0x74, 0x75, 0x51}, Flags: fl, Kind: "chain"}).Fix())
		} else {
			emitLive((&interpgen.Program{Unlock: []byte{}, Lock: cat(body, []byte{0x74, 0x75, 0x51}), Flags: fl, Kind: "chain"}).Fix())
		}
	}
	for i := 0; i < nGen/4; i++ {
		p := interpgen.P2SH(r)
		p.Kind = "p2sh"
		emitLive(p)
	}
	interpgen.ScriptBoundary(func(p *interpgen.Program) {
		q := *p
		q.Kind = "boundary"
		emitLive(&q)
	})
}
