package main

import (
	"bytes"
	"fmt"
	"math/big"

	"verif/harness/interpgen"
)

// Reference evaluation of straight-line post-Genesis number programs, as a Go-level search predicate for the
// "longnum" family (number operands of 11 .. 65 537 bytes): the BSV rules stated directly over math/big, without the
// Coq model and without any arithmetic on operand lengths — a number is decoded by clearing the top bit of its LAST
// byte and reading the rest little-endian, whatever its length; a result is the shortest encoding of its value.

const maxNumLenAfterGenesis = 750000

// encodeNum: the minimal script-number encoding of v.
func encodeNum(v *big.Int) []byte {
	if v.Sign() == 0 {
		return []byte{}
	}
	be := new(big.Int).Abs(v).Bytes()
	out := make([]byte, len(be), len(be)+1)
	for i, b := range be {
		out[len(be)-1-i] = b
	}
	if out[len(out)-1]&0x80 != 0 {
		out = append(out, 0x00)
	}
	if v.Sign() < 0 {
		out[len(out)-1] |= 0x80
	}
	return out
}

func isMinimalNum(b []byte) bool {
	if len(b) == 0 {
		return true
	}
	if b[len(b)-1]&0x7f != 0 {
		return true
	}
	return len(b) > 1 && b[len(b)-2]&0x80 != 0
}

func truthy(b []byte) bool {
	for i, x := range b {
		if x != 0 {
			return !(i == len(b)-1 && x == 0x80)
		}
	}
	return false
}

// refEval: the data stack after every instruction that completes and the verdict, or known=false when the program
// uses something this reference does not define (flow control, anything outside the family's alphabet).
func refEval(lock []byte, minimalData bool) (stacks [][][]byte, ok bool, known bool) {
	var st [][]byte
	fail := func() ([][][]byte, bool, bool) { return stacks, false, true }
	snap := func() {
		cp := make([][]byte, len(st))
		copy(cp, st)
		stacks = append(stacks, cp)
	}
	pop := func() []byte { x := st[len(st)-1]; st = st[:len(st)-1]; return x }
	num := func(b []byte) (*big.Int, bool) {
		if len(b) > maxNumLenAfterGenesis || minimalData && !isMinimalNum(b) {
			return nil, false
		}
		return decodeNum(b), true
	}
	b2n := func(c bool) []byte {
		if c {
			return []byte{1}
		}
		return []byte{}
	}
	for i := 0; i < len(lock); {
		op := lock[i]
		i++
		var data []byte
		isPush := true
		switch {
		case op == 0x00:
			data = []byte{}
		case op >= 1 && op <= 75:
			if i+int(op) > len(lock) {
				return nil, false, false
			}
			data, i = lock[i:i+int(op)], i+int(op)
		case op == 0x4c || op == 0x4d || op == 0x4e:
			w := map[byte]int{0x4c: 1, 0x4d: 2, 0x4e: 4}[op]
			if i+w > len(lock) {
				return nil, false, false
			}
			l := 0
			for k := w - 1; k >= 0; k-- {
				l = l<<8 | int(lock[i+k])
			}
			i += w
			if i+l > len(lock) {
				return nil, false, false
			}
			data, i = lock[i:i+l], i+l
			if minimalData && !bytes.Equal(interpgen.Push(data), lock[i-l-w-1:i]) {
				return fail()
			}
		case op == 0x4f:
			data = []byte{0x81}
		case op >= 0x51 && op <= 0x60:
			data = []byte{op - 0x50}
		default:
			isPush = false
		}
		if isPush {
			if minimalData && op >= 1 && op <= 75 && !bytes.Equal(interpgen.Push(data), lock[i-len(data)-1:i]) {
				return fail()
			}
			st = append(st, data)
			snap()
			continue
		}
		need := map[byte]int{0x8b: 1, 0x8c: 1, 0x8f: 1, 0x90: 1, 0x91: 1, 0x92: 1, 0x81: 1, 0x76: 1, 0x74: 0,
			0x93: 2, 0x94: 2, 0x95: 2, 0x96: 2, 0x97: 2, 0x9a: 2, 0x9b: 2, 0x9c: 2, 0x9e: 2, 0x9f: 2, 0xa0: 2, 0xa1: 2, 0xa2: 2, 0xa3: 2, 0xa4: 2,
			0xa5: 3, 0x80: 2, 0x79: 2, 0x7a: 2, 0x7f: 2, 0x98: 2, 0x99: 2}
		k, defined := need[op]
		if !defined {
			return nil, false, false
		}
		if len(st) < k {
			return fail()
		}
		switch op {
		case 0x74:
			st = append(st, interpgen.NumEnc(int64(len(st))))
		case 0x76:
			st = append(st, st[len(st)-1])
		case 0x8b, 0x8c, 0x8f, 0x90, 0x91, 0x92:
			x, good := num(pop())
			if !good {
				return fail()
			}
			var r []byte
			switch op {
			case 0x8b:
				r = encodeNum(new(big.Int).Add(x, big.NewInt(1)))
			case 0x8c:
				r = encodeNum(new(big.Int).Sub(x, big.NewInt(1)))
			case 0x8f:
				r = encodeNum(new(big.Int).Neg(x))
			case 0x90:
				r = encodeNum(new(big.Int).Abs(x))
			case 0x91:
				r = b2n(x.Sign() == 0)
			case 0x92:
				r = b2n(x.Sign() != 0)
			}
			st = append(st, r)
		case 0x81:
			a := pop()
			r := encodeNum(decodeNum(a))
			if len(r) > maxNumLenAfterGenesis {
				return fail()
			}
			st = append(st, r)
		case 0x93, 0x94, 0x95, 0x96, 0x97, 0x9a, 0x9b, 0x9c, 0x9e, 0x9f, 0xa0, 0xa1, 0xa2, 0xa3, 0xa4:
			bb, aa := pop(), pop()
			b, goodB := num(bb)
			a, goodA := num(aa)
			if !goodA || !goodB {
				return fail()
			}
			var r []byte
			c := a.Cmp(b)
			switch op {
			case 0x93:
				r = encodeNum(new(big.Int).Add(a, b))
			case 0x94:
				r = encodeNum(new(big.Int).Sub(a, b))
			case 0x95:
				r = encodeNum(new(big.Int).Mul(a, b))
			case 0x96, 0x97:
				if b.Sign() == 0 {
					return fail()
				}
				// truncated division: |q| = |a| / |b|, the remainder has the sign of the dividend
				q, m := new(big.Int).QuoRem(new(big.Int).Abs(a), new(big.Int).Abs(b), new(big.Int))
				if a.Sign()*b.Sign() < 0 {
					q.Neg(q)
				}
				if a.Sign() < 0 {
					m.Neg(m)
				}
				if op == 0x96 {
					r = encodeNum(q)
				} else {
					r = encodeNum(m)
				}
			case 0x9a:
				r = b2n(a.Sign() != 0 && b.Sign() != 0)
			case 0x9b:
				r = b2n(a.Sign() != 0 || b.Sign() != 0)
			case 0x9c:
				r = b2n(c == 0)
			case 0x9e:
				r = b2n(c != 0)
			case 0x9f:
				r = b2n(c < 0)
			case 0xa0:
				r = b2n(c > 0)
			case 0xa1:
				r = b2n(c <= 0)
			case 0xa2:
				r = b2n(c >= 0)
			case 0xa3:
				if c < 0 {
					r = encodeNum(a)
				} else {
					r = encodeNum(b)
				}
			case 0xa4:
				if c > 0 {
					r = encodeNum(a)
				} else {
					r = encodeNum(b)
				}
			}
			st = append(st, r)
		case 0xa5:
			mx, goodM := num(pop())
			mn, goodN := num(pop())
			x, goodX := num(pop())
			if !goodM || !goodN || !goodX {
				return fail()
			}
			st = append(st, b2n(mn.Cmp(x) <= 0 && x.Cmp(mx) < 0))
		case 0x80:
			n, good := num(pop())
			a := pop()
			if !good || n.Cmp(big.NewInt(1<<31-1)) > 0 {
				return fail()
			}
			v := encodeNum(decodeNum(a))
			if n.Cmp(big.NewInt(int64(len(v)))) < 0 {
				return fail()
			}
			size := int(n.Int64())
			if size > 1<<20 {
				return nil, false, false // memory policy, not defined here
			}
			r := make([]byte, size)
			copy(r, v)
			if len(v) > 0 && size > len(v) {
				r[size-1], r[len(v)-1] = v[len(v)-1]&0x80, v[len(v)-1]&0x7f
			}
			st = append(st, r)
		case 0x79, 0x7a:
			n, good := num(pop())
			if !good || n.Sign() < 0 || n.Cmp(big.NewInt(int64(len(st)))) >= 0 {
				return fail()
			}
			idx := len(st) - 1 - int(n.Int64())
			it := st[idx]
			if op == 0x7a {
				st = append(append([][]byte{}, st[:idx]...), st[idx+1:]...)
			}
			st = append(st, it)
		case 0x7f:
			n, good := num(pop())
			d := pop()
			if !good || n.Sign() < 0 || n.Cmp(big.NewInt(int64(len(d)))) > 0 {
				return fail()
			}
			at := int(n.Int64())
			st = append(st, d[:at], d[at:])
		case 0x98, 0x99:
			n, good := num(pop())
			if !good || n.Sign() < 0 {
				return fail()
			}
			x := pop()
			r := make([]byte, len(x))
			if n.Cmp(big.NewInt(int64(8*len(x)))) < 0 {
				r = ShiftRef(x, uint(n.Int64()), op == 0x98)
			}
			st = append(st, r)
		}
		snap()
	}
	return stacks, len(st) > 0 && truthy(st[len(st)-1]), true
}

// longNumCheck compares a run of the implementation with the reference: the verdict, the number of completed
// instructions and the data stack after each.
func longNumCheck(p *interpgen.Program, res interpgen.Result) {
	if p.Flags&interpgen.FGenesis == 0 || len(p.Unlock) != 0 || res.Obs == "panic" {
		return
	}
	want, ok, known := refEval(p.Lock, p.Flags&interpgen.FMinimalData != 0)
	if !known {
		c.Tally("longnum/no-reference")
		return
	}
	show := func(st [][]byte) string {
		s := ""
		for _, it := range st {
			if len(it) > 40 {
				s += fmt.Sprintf("[%x..%x](%d bytes) ", it[:8], it[len(it)-8:], len(it))
			} else {
				s += fmt.Sprintf("[%x] ", it)
			}
		}
		return s
	}
	for i := 0; i < len(want) && i < len(res.Snaps); i++ {
		got := res.Snaps[i].Data
		same := len(got) == len(want[i])
		for j := 0; same && j < len(got); j++ {
			same = bytes.Equal(got[j], want[i][j])
		}
		if !same {
			c.Violate("Engine.Execute/number-opcode-result-differs-from-big-number-rules",
				fmt.Sprintf("after instruction %d the data stack is %s; by the rules (sign = top bit of the last byte, value little-endian, results minimally encoded) it is %s", i, show(got), show(want[i])), p)
			return
		}
	}
	if len(want) != len(res.Snaps) || ok != (res.Obs == "ok") {
		c.Violate("Engine.Execute/number-opcode-verdict-differs-from-big-number-rules",
			fmt.Sprintf("%d instructions completed, verdict %s (%s); by the rules %d complete and the verdict is ok=%v", len(res.Snaps), res.Obs, res.Err, len(want), ok), p)
	}
}

// longNumbers runs the family. Every case is compared with the Go-level reference above; the Coq model sees the
// cases it can evaluate in a fraction of a second (its encoder is quadratic in the length of the number with a large
// constant: 5 ms at 33 bytes, 80 ms at 129, 0.3 s at 257, 1.3 s at 521, minutes at 8193): everything up to 129
// bytes, the reduced set at 255 .. 257 bytes (quick) or everything up to 257 and the reduced set up to 1024 (thorough).
func longNumbers() {
	allUpTo, coreUpTo := 129, 257
	if c.Thorough() {
		allUpTo, coreUpTo = 257, 1024
	}
	interpgen.LongNumbers(func(p *interpgen.Program, n int, core bool) {
		var res interpgen.Result
		if n <= allUpTo || core && n <= coreUpTo {
			res = emit(p)
		} else {
			res = emitNoModel(p)
		}
		longNumCheck(p, res)
	}, c.Thorough(), int(c.Seed%4))
}

// emitNoModel: the implementation-side predicates of emit without a case for the model.
func emitNoModel(p *interpgen.Program) interpgen.Result {
	res := interpgen.Run(p, false)
	c.Tally(p.Kind + "/go-reference-only/" + res.Obs)
	if res.Obs == "panic" {
		c.Violate("Engine.Execute/panic", res.Err, p)
	}
	if plain, _ := interpgen.RunPlain(p); plain != res.Obs {
		c.Violate("Engine.Execute/debugger-changes-verdict", plain+" vs "+res.Obs, p)
	}
	frameCheck(p, res)
	c.Case("", p, key(p), res.Steps > 0)
	return res
}
