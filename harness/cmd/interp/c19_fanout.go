package main

import (
	"fmt"
	"strings"

	"github.com/libsv/go-bt/v2/bscript/interpreter"
	"github.com/libsv/go-bt/v2/bscript/interpreter/debug"

	"verif/harness/common"
	"verif/harness/interpgen"
)

// The tie of model/DebugFanout.v (the library's public debugger object, debug.NewDebugger) to the code.
//
// A subset of the programs runC19 runs is run once more with a debug.NewDebugger() object carrying two or three
// recording handlers on every one of its 14 hooks. The handlers carry a label (a, b, c) and are registered in a seeded
// order (the 28..42 Attach calls shuffled); each handler writes down (its hook, its label) when called. The case
// holds the registration sequence and the log; corr/C19.v builds the model object by the same sequence of [attach]
// calls and requires the log to be the model's [dispatch] run over the observed callback sequence, whose lifecycle
// part it checks to be the model's trace. The Go-level predicates state the same directly: for every callback the
// engine makes, the handlers of that hook and no others, in registration order, each once.

// one character per hook: the lifecycle hooks as in compactTrace, the four stack hooks p P q Q
var fanHooks = []struct {
	name string // as in Recorder.Trace
	ch   byte
}{
	{"BE", 'E'}, {"AE", 'e'}, {"BS", 'S'}, {"AS", 's'}, {"BO", 'O'}, {"AO", 'o'}, {"BC", 'C'}, {"AC", 'c'}, {"OK", 'K'}, {"ER", 'R'},
	{"bp", 'p'}, {"ap", 'P'}, {"bq", 'q'}, {"aq", 'Q'},
}

type fanReg struct {
	hook  int  // index into fanHooks
	label byte // 'a', 'b', 'c'
}

// fanRegistrations: 2 or 3 labelled handlers per hook; labels in a seeded order per hook, the Attach calls of all
// hooks interleaved in a seeded order
func fanRegistrations(r *common.Rand) []fanReg {
	var regs []fanReg
	for h := range fanHooks {
		n := 2 + r.Intn(2)
		for k := 0; k < n; k++ {
			regs = append(regs, fanReg{h, byte('a' + k)})
		}
	}
	for i := len(regs) - 1; i > 0; i-- {
		j := r.Intn(i + 1)
		regs[i], regs[j] = regs[j], regs[i]
	}
	return regs
}

// fanAttach performs the Attach calls in order; every handler appends two bytes (hook, label) to *log
func fanAttach(d debug.DefaultDebugger, regs []fanReg, log *[]byte) {
	for _, g := range regs {
		ch, label := fanHooks[g.hook].ch, g.label
		ts := func(*interpreter.State) { *log = append(*log, ch, label) }
		sk := func(*interpreter.State, []byte) { *log = append(*log, ch, label) }
		switch fanHooks[g.hook].name {
		case "BE":
			d.AttachBeforeExecute(ts)
		case "AE":
			d.AttachAfterExecute(ts)
		case "BS":
			d.AttachBeforeStep(ts)
		case "AS":
			d.AttachAfterStep(ts)
		case "BO":
			d.AttachBeforeExecuteOpcode(ts)
		case "AO":
			d.AttachAfterExecuteOpcode(ts)
		case "BC":
			d.AttachBeforeScriptChange(ts)
		case "AC":
			d.AttachAfterScriptChange(ts)
		case "OK":
			d.AttachAfterSuccess(ts)
		case "ER":
			d.AttachAfterError(func(*interpreter.State, error) { *log = append(*log, ch, label) })
		case "bp":
			d.AttachBeforeStackPush(sk)
		case "ap":
			d.AttachAfterStackPush(sk)
		case "bq":
			d.AttachBeforeStackPop(ts)
		case "aq":
			d.AttachAfterStackPop(sk)
		}
	}
}

func fanRegString(regs []fanReg) string {
	var sb strings.Builder
	for _, g := range regs {
		sb.WriteByte(fanHooks[g.hook].ch)
		sb.WriteByte(g.label)
	}
	return sb.String()
}

// fanCheck states the order property on the log directly. trace: the callbacks a hand-written Debugger sees.
func fanCheck(regs []fanReg, trace []string, log []byte) (site, what string) {
	idx := map[string]int{}
	for i, h := range fanHooks {
		idx[h.name] = i
	}
	pos := 0
	for n, e := range trace {
		h, ok := idx[e]
		if !ok {
			return "debug.NewDebugger/unknown-callback", fmt.Sprintf("callback %q", e)
		}
		for _, g := range regs { // registration order
			if g.hook != h {
				continue
			}
			if pos+2 > len(log) {
				return "debug.NewDebugger/handler-not-called", fmt.Sprintf("callback %d (%s): handler %c registered for it was not called (the log ends)", n, e, g.label)
			}
			if log[pos] != fanHooks[h].ch {
				return "debug.NewDebugger/handler-of-another-hook-or-handler-skipped", fmt.Sprintf("callback %d (%s): expected handler %c%c, the log has %c%c", n, e, fanHooks[h].ch, g.label, log[pos], log[pos+1])
			}
			if log[pos+1] != g.label {
				return "debug.NewDebugger/handlers-not-in-registration-order-each-once", fmt.Sprintf("callback %d (%s): expected handler %c (registration order), handler %c ran", n, e, g.label, log[pos+1])
			}
			pos += 2
		}
	}
	if pos != len(log) {
		return "debug.NewDebugger/handler-called-without-a-callback", fmt.Sprintf("%d handler calls more than the callbacks of the run account for: %s", (len(log)-pos)/2, trunc19(string(log[pos:])))
	}
	return "", ""
}

var fanCases, fanModelCases int

func emitFan(r *common.Rand, p *interpgen.Program) {
	rec := interpgen.RunWith(p, &interpgen.Recorder{Full: true})
	regs := fanRegistrations(r)
	var log []byte
	d := debug.NewDebugger()
	if r.Chance(25) {
		d = debug.NewDebugger(debug.WithRewind()) // the option must make no difference
	}
	fanAttach(d, regs, &log)
	fan := interpgen.RunBuilt(interpgen.Build(p, d), &interpgen.Recorder{})
	c.Tally("fanout/" + p.Kind + "/" + fan.Obs)
	in := map[string]interface{}{"program": p, "registrations": fanRegString(regs)}
	if fan.Obs == "panic" {
		c.Violate("Engine.Execute/panic", "with debug.NewDebugger attached: "+fan.Err, in)
	}
	if fan.Obs != rec.Obs || fan.Err != rec.Err {
		c.Violate("debug.NewDebugger/changes-verdict-or-error", fmt.Sprintf("%s %q with a hand-written debugger, %s %q with debug.NewDebugger and recording handlers", rec.Obs, rec.Err, fan.Obs, fan.Err), in)
	}
	if site, what := fanCheck(regs, rec.Trace, log); site != "" {
		c.Violate(site, what+"; registrations "+fanRegString(regs)+"; log "+trunc19(string(log)), in)
	}
	fanCases++
	k := "fan/" + fanRegString(regs) + "/" + key(p)
	if len(rec.Trace) > 260 || rec.TraceBytes > 1<<16 {
		c.Case("", in, k, len(log) > 0)
		return
	}
	fanModelCases++
	c.Case(fmt.Sprintf("mkCase19F (mkCase19 (%s 0) %s) %s %s", interpgen.CoqCase(p, rec), common.CoqStr(compactTrace(rec.Trace)),
		common.CoqStr(fanRegString(regs)), common.CoqStr(string(log))), in, k, len(log) > 0)
}

// runC19Fanout: called at the end of runC19. The programs are regenerated from the seed by the same generator calls in
// the same order as runC19 makes them, so they are programs runC19 has run; every 3rd .. 6th of each family is used.
func runC19Fanout() {
	// the cases so far are of type case19; what follows is of type case19f, checked by check_fan: close the shard
	c.Weigh(c.ShardBytes/2 + 1)
	c.SetHeader(strings.Replace(header, "corr.C05.", "corr.C05 corr.C19.", 1) + "Definition mismatches := corr.C19.mismatches_fan.\n")
	r := common.NewRand(c.Seed)              // the program stream of runC19
	rr := common.NewRand(c.Seed ^ 0x19fa0e7) // registrations
	nRandom, nP2SH, nFlow, maxLen := 450, 80, 300, 12
	every := 5
	if c.Thorough() {
		nRandom, nP2SH, nFlow, maxLen = 9000, 1200, 8000, 40
		every = 8
	}
	n := 0
	interpgen.Matrix(func(p *interpgen.Program) {
		if n++; n%(3*every) == 0 {
			emitFan(rr, p)
		}
	}, 331)
	for i := 0; i < nRandom; i++ {
		if p := interpgen.Random(r, maxLen); i%every == 0 {
			emitFan(rr, p)
		}
	}
	for i := 0; i < nP2SH; i++ {
		if p := interpgen.P2SH(r); i%every == 0 {
			emitFan(rr, p)
		}
	}
	n = 0
	interpgen.ScriptBoundary(func(p *interpgen.Program) {
		if n++; n%(8*every) == 0 {
			emitFan(rr, p)
		}
	})
	for i := 0; i < nFlow; i++ {
		if p := interpgen.Flow(r); i%every == 0 {
			emitFan(rr, p)
		}
	}
	// one program per shape of the lifecycle grammar (as runC19), and the program of C19_fanout_example
	for _, b := range []struct {
		u, l  []byte
		flags uint32
	}{
		{[]byte{0x51}, []byte{0x51, 0x87}, 0},
		{[]byte{0x52}, []byte{0x53, 0x93}, 0},
		{[]byte{0x51}, []byte{0x00}, 0},
		{[]byte{0x51}, []byte{0x75, 0x75}, 0},
		{[]byte{0x51}, []byte{0x63}, 0},
		{[]byte{0x51}, []byte{0x6a}, interpgen.FGenesis},
		{[]byte{0x51, 0x6a}, []byte{}, interpgen.FGenesis},
		{[]byte{}, []byte{0x51}, 0},
		{[]byte{}, []byte{}, 0},
		{[]byte{0x51, 0x6b}, []byte{0x51}, 0},
	} {
		emitFan(rr, (&interpgen.Program{Unlock: b.u, Lock: b.l, Flags: b.flags, Kind: "lifecycle-shape"}).Fix())
	}
	c.Stats.Extra["fanout_programs"] = fanCases
	c.Stats.Extra["fanout_programs_evaluated_on_the_model"] = fanModelCases
	c.Stats.Rule += fmt.Sprintf(". Fan-out object (model/DebugFanout.v): every %dth program of the random / P2SH / flow families, a sample of the matrix and script-boundary programs and one program per lifecycle shape are run once more with a debug.NewDebugger() (a quarter of them WithRewind) carrying 2 or 3 labelled recording handlers on each of its 14 hooks, the 28..42 Attach calls made in a seeded order; the handler log must be, for every callback a hand-written Debugger sees, the handlers of that hook in registration order, each once (Go predicate), and must equal the model's dispatch of the same registrations over the observed callback sequence, whose lifecycle part is the model's trace (corr/C19.v check_fan); distinct = distinct (registration sequence, program)", every)
}
