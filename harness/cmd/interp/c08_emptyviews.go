package main

import (
	"bytes"
	"strings"

	"verif/harness/common"
	"verif/harness/interpgen"
)

// Zero-length items that are nevertheless VIEWS: a Go slice of length 0 still has an address and a capacity, and
// "append" to it writes into whatever lies behind it - the sibling item it was split from, the rest of the caller's
// script. The value model cannot tell such an item from OP_0's nil; the handlers can (a shortcut for the empty
// operand that hands the operand itself on, an append that starts from the operand). Every way the interpreter
// makes such an item, from data x that stays on the stack (or in the caller's script) next to it:
//   - the left half of a split at 0 (c[:0]: x's address, x's capacity),
//   - the right half of a split at SIZE (c[n:]: what follows x in its array - the script bytes behind a push,
//     the spare byte of a number result),
//   - a non-minimal empty push (OP_PUSHDATA1/2/4 with length 0: script[i:i], the rest of the script behind it),
//   - copies of those (DUP, alt-stack round trip, a further split, OP_BIN2NUM which hands an empty operand on).
//
// Each code leaves the empty view on top.
var emptyViews = []prov{
	{"SPLIT0-left", func(x []byte) []byte { return cat(interpgen.Push(x), []byte{0x00, 0x7f, 0x7c}) }},
	{"SPLITn-right", func(x []byte) []byte { return cat(interpgen.Push(x), []byte{0x82, 0x7f}) }},
	{"PUSHDATA1-00", func(x []byte) []byte { return cat(interpgen.Push(x), []byte{0x4c, 0x00}) }},
	{"PUSHDATA2-0000", func(x []byte) []byte { return cat(interpgen.Push(x), []byte{0x4d, 0x00, 0x00}) }},
	{"PUSHDATA4-00000000", func(x []byte) []byte { return cat(interpgen.Push(x), []byte{0x4e, 0x00, 0x00, 0x00, 0x00}) }},
	{"DUP-SPLIT0-left", func(x []byte) []byte { return cat(interpgen.Push(x), []byte{0x76, 0x00, 0x7f, 0x7c}) }},
	{"SPLIT0-left-of-CAT-result", func(x []byte) []byte {
		return cat(interpgen.Push(x), interpgen.Push(x), []byte{0x7e, 0x00, 0x7f, 0x7c})
	}},
	{"SPLITn-right-of-number-result", func(x []byte) []byte { return cat(interpgen.Push(x), []byte{0x82, 0x8b, 0x82, 0x7f}) }},
	{"SPLITn-right-of-DUP", func(x []byte) []byte { return cat(interpgen.Push(x), []byte{0x76, 0x82, 0x7f}) }},
	{"SPLIT0-left-alt-round-trip", func(x []byte) []byte { return cat(interpgen.Push(x), []byte{0x00, 0x7f, 0x7c, 0x6b, 0x6c}) }},
	{"SPLIT0-left-DUP", func(x []byte) []byte { return cat(interpgen.Push(x), []byte{0x00, 0x7f, 0x7c, 0x76}) }},
	{"SPLIT0-left-twin-on-alt", func(x []byte) []byte { return cat(interpgen.Push(x), []byte{0x00, 0x7f, 0x7c, 0x76, 0x6b}) }},
	{"SPLIT0-of-empty-push", func(x []byte) []byte { return cat(interpgen.Push(x), []byte{0x4c, 0x00, 0x00, 0x7f}) }},
	{"BIN2NUM-of-SPLIT0-left", func(x []byte) []byte { return cat(interpgen.Push(x), []byte{0x00, 0x7f, 0x7c, 0x81}) }},
	{"SPLIT-middle-then-SPLIT0", func(x []byte) []byte { // x x | cut between the copies, then the right copy at 0
		return cat(interpgen.Push(cat(x, x)), interpgen.Push(interpgen.NumEnc(int64(len(x)))), []byte{0x7f, 0x00, 0x7f, 0x7c})
	}},
}

// what is then done to the empty view: the 42 transformations of the aliasing matrix (the view is the first / only
// operand), and the ones in which an empty operand is a case of its own: OP_NUM2BIN to every size class (the result is
// padding only), the view as the SECOND operand, as a size, a position, a shift count
func emptyViewTransforms() []xform {
	swapIn := func(op byte, other []byte) []byte { return cat(interpgen.Push(other), []byte{0x7c, op}) } // other <view> op
	extra := []xform{
		{"NUM2BIN-0", bin(0x80, []byte{})}, {"NUM2BIN-1", bin(0x80, []byte{0x01})}, {"NUM2BIN-2", bin(0x80, []byte{0x02})},
		{"NUM2BIN-3", bin(0x80, []byte{0x03})}, {"NUM2BIN-4", bin(0x80, []byte{0x04})}, {"NUM2BIN-20", bin(0x80, []byte{0x14})},
		{"NUM2BIN-twice", cat(bin(0x80, []byte{0x01}), bin(0x80, []byte{0x03}))},
		{"CAT-as-second", swapIn(0x7e, []byte{0xaa, 0xbb})}, {"CAT-with-itself", []byte{0x76, 0x7e}},
		{"CAT-CAT", cat(bin(0x7e, []byte{0xaa}), bin(0x7e, []byte{0xbb, 0xcc}))},
		{"NUM2BIN-as-size", swapIn(0x80, []byte{})}, {"SPLIT-as-position", swapIn(0x7f, []byte{0x01, 0x02})},
		{"LSHIFT-as-count", swapIn(0x98, []byte{0x01, 0x02})}, {"RSHIFT-as-count", swapIn(0x99, []byte{0x01, 0x02})},
		{"ADD-as-second", swapIn(0x93, []byte{0x03})}, {"SUB-as-second", swapIn(0x94, []byte{0x03})},
		{"AND-empty", bin(0x84, []byte{})}, {"OR-empty", bin(0x85, []byte{})}, {"XOR-empty", bin(0x86, []byte{})},
		{"EQUAL-empty", bin(0x87, []byte{})}, {"PICK-as-index", cat(interpgen.Push([]byte{0x07}), []byte{0x7c, 0x79})},
		{"1ADD-NUM2BIN", cat([]byte{0x8b}, bin(0x80, []byte{0x02}))}, {"NOT-NOT", []byte{0x91, 0x91}},
	}
	return append(append([]xform{}, transforms...), extra...)
}

var emptyViewData = [][]byte{{0x01}, {0x12, 0x34}, {0x01, 0x00, 0x80}, {0x01, 0x02, 0x03, 0x04, 0x05, 0x06}}

// the bytes of the script behind the transformation are pushed afterwards: what was written behind the view is read
var emptyViewTail = cat(interpgen.Push([]byte{0xa1, 0xa2, 0xa3}), []byte{0x75, 0x74, 0x75, 0x51})

// ... and a twin parked on the alt stack is brought back first
func tailFor(pv prov) []byte {
	if strings.HasSuffix(pv.name, "on-alt") {
		return cat([]byte{0x6c, 0x75}, emptyViewTail)
	}
	return emptyViewTail
}

// emptyViewProgram. where: 0 = everything in the locking script; 1 = the view is made in the unlocking script and
// transformed in the locking script (it is a view of the OTHER caller buffer by then); 2 = P2SH, the data pushed by
// the unlocking script, view and transformation in the redeem script (itself a view of the unlocking script);
// 3 = P2SH, an empty push of the unlocking script transformed by the redeem script
func emptyViewProgram(pv prov, tf xform, x []byte, fl uint32, where int) *interpgen.Program {
	p := &interpgen.Program{Flags: fl, Kind: "empty-view/" + pv.name + "/" + tf.name}
	made, tail := pv.code(x), tailFor(pv)
	switch where {
	case 0:
		p.Unlock, p.Lock = []byte{}, cat(made, tf.code, tail)
	case 1:
		p.Unlock, p.Lock = made, cat(tf.code, emptyViewTail) // the alt stack does not survive the unlocking script
	case 2:
		redeem := cat(withoutFirstPush(made, x), tf.code, tail)
		p.Unlock = cat(interpgen.Push(x), interpgen.Push(redeem))
		p.Lock = cat([]byte{0xa9, 0x14}, interpgen.Hash160(redeem), []byte{0x87})
		p.Flags = fl&^interpgen.FGenesis | interpgen.FBip16
	default:
		redeem := cat(tf.code, emptyViewTail)
		p.Unlock = cat(interpgen.Push(x), []byte{0x4c, 0x00}, interpgen.Push(redeem))
		p.Lock = cat([]byte{0xa9, 0x14}, interpgen.Hash160(redeem), []byte{0x87})
		p.Flags = fl&^interpgen.FGenesis | interpgen.FBip16
	}
	return p.Fix()
}

// withoutFirstPush: the code that follows the push of x (x is on the stack already); codes that start otherwise
// are complete in themselves
func withoutFirstPush(code, x []byte) []byte {
	if px := interpgen.Push(x); bytes.HasPrefix(code, px) {
		return code[len(px):]
	}
	return code
}

// pushOnlyProv: the provenance consists of data pushes only (a P2SH unlocking script may hold nothing else)
func pushOnlyProv(pv prov) bool { return len(pv.name) > 8 && pv.name[:8] == "PUSHDATA" }

func runEmptyViews(r *common.Rand) {
	tfs := emptyViewTransforms()
	always := func(tf xform) bool { // the handlers that build their result by appending
		return len(tf.name) >= 3 && (tf.name[:3] == "NUM" || tf.name[:3] == "CAT") || tf.name == "1ADD-NUM2BIN"
	}
	seed := int(c.Seed)
	for pi, pv := range emptyViews {
		base := pi < 3 // the three ways of making such an item; the others are copies and variants of them
		for ti, tf := range tfs {
			for xi, x := range emptyViewData {
				if !c.Thorough() && xi != (pi+ti+seed)%len(emptyViewData) {
					continue
				}
				// quick: every transformation on the three basic views, the appending handlers on every view, a quarter
				// of the rest per seed
				if !c.Thorough() && !base && !always(tf) && (pi+ti+seed)%4 != 0 {
					continue
				}
				fl := uint32(0)
				if (pi+ti+xi)%2 == 0 {
					fl = interpgen.FGenesis
				}
				eras := []uint32{fl}
				if c.Thorough() || always(tf) {
					eras = []uint32{0, interpgen.FGenesis}
				}
				for _, f := range eras {
					emit(emptyViewProgram(pv, tf, x, f, 0))
				}
				if c.Thorough() || always(tf) || base || (pi+2*ti+seed)%3 == 0 {
					emitLiveZ(emptyViewProgram(pv, tf, x, fl, 0))
				}
				if c.Thorough() || always(tf) || (2*pi+ti+seed)%3 == 0 {
					emit(emptyViewProgram(pv, tf, x, fl, 1))
					if c.Thorough() || always(tf) {
						emitLiveZ(emptyViewProgram(pv, tf, x, fl^interpgen.FGenesis, 1))
					}
				}
				if c.Thorough() || (always(tf) && (base || (pi+ti+seed)%2 == 0)) || (pi+3*ti+seed)%5 == 0 {
					w := 2
					if pushOnlyProv(pv) {
						w = 3
					}
					emit(emptyViewProgram(pv, tf, x, 0, w))
					emitLiveZ(emptyViewProgram(pv, tf, x, 0, w))
				}
			}
		}
	}
	// chains: an empty view, two to four transformations, further views made from what is there in between
	n := 100
	if c.Thorough() {
		n = 6000
	}
	for i := 0; i < n; i++ {
		x := emptyViewData[r.Intn(len(emptyViewData))]
		body := emptyViews[r.Intn(len(emptyViews))].code(x)
		for k := 2 + r.Intn(3); k > 0; k-- {
			body = cat(body, tfs[r.Intn(len(tfs))].code)
			if r.Chance(50) {
				body = cat(body, withoutFirstPush(emptyViews[r.Intn(len(emptyViews))].code(x), x))
			}
		}
		fl := uint32(0)
		if r.Bool() {
			fl = interpgen.FGenesis
		}
		p := &interpgen.Program{Unlock: []byte{}, Lock: cat(body, emptyViewTail), Flags: fl, Kind: "empty-view-chain"}
		if r.Chance(30) {
			p.Unlock, p.Lock = body, emptyViewTail
		}
		emit(p.Fix())
		q := *p
		emitLiveZ(&q)
	}
}

// emitLiveZ: emitLive with the zero-length items located (which backing array a zero-length item with capacity lies
// in, and where) against model/HeapViews.v
func emitLiveZ(p *interpgen.Program) {
	if p.HasTx {
		return
	}
	obs, msg, trace := interpgen.RunLiveZ(p)
	c.Tally("sharing/" + strings.SplitN(p.Kind, "/", 2)[0] + "/" + obs)
	if interpgen.ZeroViews(trace) > 0 {
		c.Tally("sharing/" + strings.SplitN(p.Kind, "/", 2)[0] + "/zero-length-item-located-in-an-array")
	}
	if obs == "panic" {
		c.Violate("Engine.Execute/panic", msg, p)
	}
	c.Case(interpgen.CoqLiveZ(p, obs, trace), map[string]interface{}{"kind": "sharing/" + p.Kind, "program": p}, "Z"+key(p), len(trace) > 0)
}
