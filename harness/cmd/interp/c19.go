package main

import (
	"bytes"
	"fmt"
	"strings"

	"verif/harness/common"
	"verif/harness/interpgen"
)

// lifecycle automaton: the same states and transitions as coq/model/Debug.v (lstate / lstep), extended
// with the stack push/pop callbacks, which may only occur while an opcode runs (after BO), at the end of a
// script (after AO: alt stack dropped; after AC: pay-to-script-hash bookkeeping) and in the final
// CheckErrorCondition (after AE of a completed run).
//
//	BE (BS BO [AO [BC AC]] AS | BS BO BC AC AS)* (BS [BO [AO [BC AC]]])? AE (OK|ER)
type lstate int

const (
	qStart lstate = iota
	qBE
	qLoop
	qBS
	qBO
	qAO
	qBCr
	qACr
	qBCe
	qACe
	qAEok
	qAEerr
	qOk
	qErr
)

var lstep = map[lstate]map[string]lstate{
	qStart: {"BE": qBE},
	qBE:    {"BS": qBS},
	qLoop:  {"BS": qBS, "AE": qAEok},
	qBS:    {"BO": qBO, "AE": qAEerr}, // AE: invalid program counter
	qBO:    {"AO": qAO, "BC": qBCr, "AE": qAEerr},
	qAO:    {"AS": qLoop, "BC": qBCe, "AE": qAEerr},
	qBCr:   {"AC": qACr},
	qACr:   {"AS": qLoop},
	qBCe:   {"AC": qACe},
	qACe:   {"AS": qLoop, "AE": qAEerr},
	qAEok:  {"OK": qOk, "ER": qErr},
	qAEerr: {"ER": qErr},
}

var stackAllowed = map[lstate]bool{qBO: true, qAO: true, qACe: true, qAEok: true}

func lifecycleOK(tr []string) (bool, string) {
	if len(tr) == 0 {
		return true, "" // rejected before execution started: no callbacks at all
	}
	q := qStart
	for i := 0; i < len(tr); i++ {
		e := tr[i]
		switch e {
		case "bp", "ap", "bq", "aq":
			if !stackAllowed[q] {
				return false, fmt.Sprintf("stack callback %s at %d outside opcode / end-of-script / final check (state %d)", e, i, q)
			}
			nxt := ""
			if i+1 < len(tr) {
				nxt = tr[i+1]
			}
			switch {
			case e == "bp" && nxt == "ap", e == "bq" && nxt == "aq":
				i++
			case e == "bq" && q == qBO && nxt == "AE":
				// a failing pop has no after-callback: the opcode errors and the step is interrupted
			default:
				return false, fmt.Sprintf("unpaired stack callback %s at %d (next %q)", e, i, nxt)
			}
			continue
		}
		n, ok := lstep[q][e]
		if !ok {
			return false, fmt.Sprintf("callback %s at %d not allowed in state %d", e, i, q)
		}
		q = n
	}
	if q != qOk && q != qErr {
		return false, fmt.Sprintf("trace ends in state %d, not after AfterSuccess/AfterError", q)
	}
	return true, ""
}

func lifecycleOnly(tr []string) string {
	var sb strings.Builder
	for _, e := range tr {
		if e == "bp" || e == "ap" || e == "bq" || e == "aq" {
			continue
		}
		sb.WriteString(e)
		sb.WriteByte(' ')
	}
	return strings.TrimSpace(sb.String())
}

// emit19: none / recording / scribbling; verdicts, traces and snapshots must coincide.
func emit19(p *interpgen.Program) {
	plain, plainMsg := interpgen.RunPlain(p)
	rec := interpgen.RunWith(p, &interpgen.Recorder{Full: true})
	scr := interpgen.RunWith(p, &interpgen.Recorder{Full: true, Scribble: true})
	c.Tally(p.Kind + "/" + rec.Obs)
	if plain == "panic" || rec.Obs == "panic" || scr.Obs == "panic" {
		c.Violate("Engine.Execute/panic", plainMsg+rec.Err+scr.Err, p)
	}
	if plain != rec.Obs || plainMsg != rec.Err {
		c.Violate("Debugger/recording-changes-verdict-or-error", fmt.Sprintf("%s %q vs %s %q", plain, plainMsg, rec.Obs, rec.Err), p)
	}
	if plain != scr.Obs || plainMsg != scr.Err {
		c.Violate("Debugger/scribbling-changes-verdict-or-error", fmt.Sprintf("%s %q vs %s %q", plain, plainMsg, scr.Obs, scr.Err), p)
	}
	if strings.Join(rec.Trace, " ") != strings.Join(scr.Trace, " ") || rec.Hash != scr.Hash {
		c.Violate("Debugger/scribbling-changes-callbacks-or-snapshots", "traces or snapshots differ between a passive and a scribbling debugger", p)
	}
	if ok, why := lifecycleOK(rec.Trace); !ok {
		c.Violate("Debugger/callback-order", why+": "+strings.Join(rec.Trace, " "), p)
	}
	if (rec.Obs == "ok") != (len(rec.Trace) > 0 && rec.Trace[len(rec.Trace)-1] == "OK") {
		c.Violate("Debugger/final-callback-does-not-match-verdict", strings.Join(rec.Trace, " "), p)
	}
	lc := lifecycleOnly(rec.Trace)
	c.Case(fmt.Sprintf("mkCase19 (%s 0) %s", interpgen.CoqCase(p, rec), common.CoqStr(lc)), p, key(p), rec.Steps > 0)
}

func runC19() {
	c.SetHeader(strings.Replace(header, "corr.C05.", "corr.C05 corr.C19.", 1))
	r := common.NewRand(c.Seed)
	stride, nRandom, nP2SH := 331, 450, 80
	maxLen := 12
	if c.Thorough() {
		stride, nRandom, nP2SH, maxLen = 17, 9000, 1200, 40
	}
	interpgen.Matrix(emit19, stride)
	for i := 0; i < nRandom; i++ {
		emit19(interpgen.Random(r, maxLen))
	}
	for i := 0; i < nP2SH; i++ {
		emit19(interpgen.P2SH(r))
	}
	// one program per shape of the lifecycle grammar (the Examples of coq/Properties/C19.v), incl. the
	// invalid-program-counter step (BS directly followed by AE) after an early return into an empty script
	for _, b := range []struct {
		u, l  []byte
		flags uint32
	}{
		{[]byte{0x51}, []byte{0x51, 0x87}, 0},
		{[]byte{0x51}, []byte{0x00}, 0},
		{[]byte{0x51}, []byte{0x75, 0x75}, 0},
		{[]byte{0x51}, []byte{0x63}, 0},
		{[]byte{0x51}, []byte{0x6a}, interpgen.FGenesis},
		{[]byte{0x51, 0x6a}, []byte{}, interpgen.FGenesis},
		{[]byte{0x6a}, []byte{0x51}, interpgen.FGenesis},
		{[]byte{}, []byte{0x51}, 0},
		{[]byte{0x51}, []byte{}, 0},
		{[]byte{}, []byte{}, 0},
		{[]byte{0x51, 0x6b}, []byte{0x51}, 0},
	} {
		emit19((&interpgen.Program{Unlock: b.u, Lock: b.l, Flags: b.flags, Kind: "lifecycle-shape"}).Fix())
	}
	// the combined stack limit from both sides in one program (pre-genesis, 1000 items): 3 + 3*332 + 1 = 1000
	// items is accepted (the step completes), the 1001st is a stack overflow detected after AfterExecuteOpcode —
	// the one error that is raised by Step itself between two callbacks
	over := append(bytes.Repeat([]byte{0x00}, 3), bytes.Repeat([]byte{0x6f}, 332)...)
	over = append(over, 0x00, 0x00)
	emit19((&interpgen.Program{Unlock: []byte{}, Lock: over, Flags: 0, Kind: "lifecycle-stack-limit"}).Fix())
	c.Stats.Rule = "the interpreter-equivalence programs (opcode x operand matrix sample, grammar-generated programs, P2SH pairs, both eras, sampled flags), each run three ways: no debugger, a recording debugger, a debugger that overwrites every field and every stack byte of every State it is handed; verdict AND error text, callback sequence and all snapshots must coincide; the callback sequence is checked against the lifecycle grammar in Go and, projected to lifecycle events, compared with the model's trace in Coq. distinct = distinct program; one program per shape of the lifecycle grammar and one reaching the combined stack limit exactly and exceeding it by one are added. non-trivial = at least one step completed"
}
