package main

import (
	"fmt"
	"strings"

	"verif/harness/common"
	"verif/harness/interpgen"
)

// lifecycle automaton (documented order): BE (BS BO stack* [AO stack* [BC AC stack*]] [AS])* AE stack* (OK|ER)
// Early OP_RETURN: BS BO stack* BC AC AS.  Errors end the step without AS and go to AE.
func lifecycleOK(tr []string) (bool, string) {
	i := 0
	next := func() string {
		if i < len(tr) {
			return tr[i]
		}
		return ""
	}
	stack := func() {
		for i < len(tr) && (tr[i] == "bp" || tr[i] == "ap" || tr[i] == "bq" || tr[i] == "aq") {
			// push/pop callbacks come in before/after pairs
			if tr[i] == "bp" && (i+1 >= len(tr) || tr[i+1] != "ap") {
				return
			}
			if tr[i] == "bq" && i+1 < len(tr) && tr[i+1] != "aq" && tr[i+1] != "bq" && tr[i+1] != "bp" {
				// a failing pop has no after-callback; allowed only when the step then errors
			}
			i++
		}
	}
	if len(tr) == 0 {
		return true, "" // rejected before execution started: no callbacks at all
	}
	if next() != "BE" {
		return false, "does not start with BeforeExecute"
	}
	i++
	for next() == "BS" {
		i++
		if next() != "BO" {
			return false, fmt.Sprintf("BeforeStep not followed by BeforeExecuteOpcode at %d", i)
		}
		i++
		stack()
		switch next() {
		case "AO":
			i++
			stack()
			if next() == "BC" {
				i++
				if next() != "AC" {
					return false, fmt.Sprintf("BeforeScriptChange not followed by AfterScriptChange at %d", i)
				}
				i++
				stack()
			}
		case "BC": // early return
			i++
			if next() != "AC" {
				return false, fmt.Sprintf("BeforeScriptChange not followed by AfterScriptChange at %d", i)
			}
			i++
		}
		if next() == "AS" {
			i++
			continue
		}
		break // error inside the step
	}
	if next() != "AE" {
		return false, fmt.Sprintf("expected AfterExecute at %d, got %q", i, next())
	}
	i++
	stack()
	if n := next(); n != "OK" && n != "ER" {
		return false, fmt.Sprintf("expected AfterSuccess/AfterError at %d, got %q", i, n)
	}
	i++
	if i != len(tr) {
		return false, fmt.Sprintf("callbacks after the end at %d", i)
	}
	return true, ""
}

func lifecycleOnly(tr []string) string {
	var sb strings.Builder
	for _, e := range tr {
		if e == "bp" || e == "ap" || e == "bq" || e == "aq" {
			continue
		}
		sb.WriteString(e)
		sb.WriteByte(' ')
	}
	return strings.TrimSpace(sb.String())
}

// emit19: none / recording / scribbling; verdicts, traces and snapshots must coincide.
func emit19(p *interpgen.Program) {
	plain, plainMsg := interpgen.RunPlain(p)
	rec := interpgen.RunWith(p, &interpgen.Recorder{Full: true})
	scr := interpgen.RunWith(p, &interpgen.Recorder{Full: true, Scribble: true})
	c.Tally(p.Kind + "/" + rec.Obs)
	if plain == "panic" || rec.Obs == "panic" || scr.Obs == "panic" {
		c.Violate("Engine.Execute/panic", plainMsg+rec.Err+scr.Err, p)
	}
	if plain != rec.Obs || plainMsg != rec.Err {
		c.Violate("Debugger/recording-changes-verdict-or-error", fmt.Sprintf("%s %q vs %s %q", plain, plainMsg, rec.Obs, rec.Err), p)
	}
	if plain != scr.Obs || plainMsg != scr.Err {
		c.Violate("Debugger/scribbling-changes-verdict-or-error", fmt.Sprintf("%s %q vs %s %q", plain, plainMsg, scr.Obs, scr.Err), p)
	}
	if strings.Join(rec.Trace, " ") != strings.Join(scr.Trace, " ") || rec.Hash != scr.Hash {
		c.Violate("Debugger/scribbling-changes-callbacks-or-snapshots", "traces or snapshots differ between a passive and a scribbling debugger", p)
	}
	if ok, why := lifecycleOK(rec.Trace); !ok {
		c.Violate("Debugger/callback-order", why+": "+strings.Join(rec.Trace, " "), p)
	}
	if (rec.Obs == "ok") != (len(rec.Trace) > 0 && rec.Trace[len(rec.Trace)-1] == "OK") {
		c.Violate("Debugger/final-callback-does-not-match-verdict", strings.Join(rec.Trace, " "), p)
	}
	lc := lifecycleOnly(rec.Trace)
	c.Case(fmt.Sprintf("mkCase19 (%s 0) %s", interpgen.CoqCase(p, rec), common.CoqStr(lc)), p, key(p), rec.Steps > 0)
}

func runC19() {
	c.SetHeader(strings.Replace(header, "corr.C05.", "corr.C05 corr.C19.", 1))
	r := common.NewRand(c.Seed)
	stride, nRandom, nP2SH := 331, 450, 80
	maxLen := 12
	if c.Thorough() {
		stride, nRandom, nP2SH, maxLen = 17, 9000, 1200, 40
	}
	interpgen.Matrix(emit19, stride)
	for i := 0; i < nRandom; i++ {
		emit19(interpgen.Random(r, maxLen))
	}
	for i := 0; i < nP2SH; i++ {
		emit19(interpgen.P2SH(r))
	}
	c.Stats.Rule = "the interpreter-equivalence programs (opcode x operand matrix sample, grammar-generated programs, P2SH pairs, both eras, sampled flags), each run three ways: no debugger, a recording debugger, a debugger that overwrites every field and every stack byte of every State it is handed; verdict AND error text, callback sequence and all snapshots must coincide; the callback sequence is checked against the lifecycle grammar in Go and, projected to lifecycle events, compared with the model's trace in Coq. distinct = distinct program; non-trivial = at least one step completed"
}
