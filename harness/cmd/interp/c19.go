package main

import (
	"bytes"
	"fmt"
	"strings"

	"github.com/libsv/go-bt/v2/bscript/interpreter"
	"github.com/libsv/go-bt/v2/bscript/interpreter/debug"

	"verif/harness/common"
	"verif/harness/interpgen"
)

// drifter is a second scribbling debugger. interpgen.Recorder{Scribble: true} XORs every byte with 0xff, which
// is its own inverse: the engine fires an even number of callbacks between the moment an item is pushed and
// the BeforeStackPop preceding its removal, so a stack that is only ever read through pops (the alt stack)
// would be restored by the time it is read even if State() aliased it. drifter adds 1 to every byte instead
// (no fixed point, period 256), so any aliasing that survives to a read is visible.
type drifter struct {
	rec *interpgen.Recorder
	f   func(*interpreter.State)
}

// driftOpData changes only the push data of the parsed opcodes in State.Scripts (the bytes that become stack
// items when the opcode runs). State() copies the ParsedOpcode structs but not the Data slices inside them.
func driftOpData(s *interpreter.State) {
	if s == nil {
		return
	}
	for i := range s.Scripts {
		for j := range s.Scripts[i] {
			for k := range s.Scripts[i][j].Data {
				s.Scripts[i][j].Data[k]++
			}
		}
	}
}

func drift(s *interpreter.State) {
	if s == nil {
		return
	}
	for _, st := range [][][]byte{s.DataStack, s.AltStack, s.ElseStack, s.SavedFirstStack} {
		for i := range st {
			for j := range st[i] {
				st[i][j]++
			}
		}
	}
	for i := range s.CondStack {
		s.CondStack[i] += 3
	}
	for i := range s.Scripts {
		for j := range s.Scripts[i] {
			s.Scripts[i][j] = interpreter.ParsedOpcode{}
		}
	}
	s.ScriptIdx, s.OpcodeIdx, s.NumOps, s.LastCodeSeparatorIdx, s.Flags = s.ScriptIdx+1, s.OpcodeIdx+1, s.NumOps+1, s.LastCodeSeparatorIdx+1, ^s.Flags
}
func (d *drifter) BeforeExecute(s *interpreter.State)       { d.rec.BeforeExecute(s); d.f(s) }
func (d *drifter) AfterExecute(s *interpreter.State)        { d.rec.AfterExecute(s); d.f(s) }
func (d *drifter) BeforeStep(s *interpreter.State)          { d.rec.BeforeStep(s); d.f(s) }
func (d *drifter) AfterStep(s *interpreter.State)           { d.rec.AfterStep(s); d.f(s) }
func (d *drifter) BeforeExecuteOpcode(s *interpreter.State) { d.rec.BeforeExecuteOpcode(s); d.f(s) }
func (d *drifter) AfterExecuteOpcode(s *interpreter.State)  { d.rec.AfterExecuteOpcode(s); d.f(s) }
func (d *drifter) BeforeScriptChange(s *interpreter.State)  { d.rec.BeforeScriptChange(s); d.f(s) }
func (d *drifter) AfterScriptChange(s *interpreter.State)   { d.rec.AfterScriptChange(s); d.f(s) }
func (d *drifter) AfterSuccess(s *interpreter.State)        { d.rec.AfterSuccess(s); d.f(s) }
func (d *drifter) AfterError(s *interpreter.State, e error) { d.rec.AfterError(s, e); d.f(s) }
func driftData(b []byte) {
	for i := range b {
		b[i]++
	}
}
func (d *drifter) BeforeStackPush(s *interpreter.State, b []byte) {
	d.rec.BeforeStackPush(s, b)
	d.f(s)
	driftData(b)
}
func (d *drifter) AfterStackPush(s *interpreter.State, b []byte) {
	d.rec.AfterStackPush(s, b)
	d.f(s)
	driftData(b)
}
func (d *drifter) BeforeStackPop(s *interpreter.State) { d.rec.BeforeStackPop(s); d.f(s) }
func (d *drifter) AfterStackPop(s *interpreter.State, b []byte) {
	d.rec.AfterStackPop(s, b)
	d.f(s)
	driftData(b)
}

// lifecycle automaton: the same states and transitions as coq/model/Debug.v (lstate / lstep), extended
// with the stack push/pop callbacks, which may only occur while an opcode runs (after BO), at the end of a
// script (after AO, or after BO on an early return: alt stack dropped; after AC only in a pay-to-script-hash
// run: its bookkeeping) and in the final
// CheckErrorCondition (after AE of a completed run).
//
//	BE (BS BO [AO [BC AC]] AS | BS BO BC AC AS)* (BS [BO [AO [BC AC]]])? AE (OK|ER)
type lstate int

const (
	qStart lstate = iota
	qBE
	qLoop
	qBS
	qBO
	qAO
	qBCr
	qACr
	qBCe
	qACe
	qAEok
	qAEerr
	qOk
	qErr
)

var lstep = map[lstate]map[string]lstate{
	qStart: {"BE": qBE},
	qBE:    {"BS": qBS},
	qLoop:  {"BS": qBS, "AE": qAEok},
	qBS:    {"BO": qBO, "AE": qAEerr}, // AE: invalid program counter
	qBO:    {"AO": qAO, "BC": qBCr, "AE": qAEerr},
	qAO:    {"AS": qLoop, "BC": qBCe, "AE": qAEerr},
	qBCr:   {"AC": qACr},
	qACr:   {"AS": qLoop},
	qBCe:   {"AC": qACe},
	qACe:   {"AS": qLoop, "AE": qAEerr},
	qAEok:  {"OK": qOk, "ER": qErr},
	qAEerr: {"ER": qErr},
}

var stackAllowed = map[lstate]bool{qBO: true, qAO: true, qAEok: true}

// p2sh: the run is a pre-Genesis pay-to-script-hash evaluation; only then may stack callbacks follow a script
// change (the first script's result is popped and the saved stack installed after the shift to script 2).
func lifecycleOK(tr []string, p2sh bool) (bool, string) {
	if len(tr) == 0 {
		return true, "" // rejected before execution started: no callbacks at all
	}
	q := qStart
	cleaning := false // the alt stack is being dropped at the end of a script: only more pops and the script change may follow
	for i := 0; i < len(tr); i++ {
		e := tr[i]
		if cleaning && e != "bq" && e != "aq" {
			if e != "BC" {
				return false, fmt.Sprintf("callback %s at %d after the end-of-script drop of the alt stack has begun: the step can only go on to the script change (what can fail it is checked before the stacks are touched)", e, i)
			}
			cleaning = false
		}
		switch e {
		case "bp", "ap", "bq", "aq":
			if !stackAllowed[q] && !(p2sh && q == qACe) {
				return false, fmt.Sprintf("stack callback %s at %d outside opcode / end-of-script / final check (state %d)", e, i, q)
			}
			if q == qAO {
				if e == "bp" || e == "ap" {
					return false, fmt.Sprintf("push callback %s at %d between the opcode and the script change", e, i)
				}
				cleaning = true
			}
			nxt := ""
			if i+1 < len(tr) {
				nxt = tr[i+1]
			}
			switch {
			case e == "bp" && nxt == "ap", e == "bq" && nxt == "aq":
				i++
			case e == "bq" && q == qBO && nxt == "AE":
				// a failing pop has no after-callback: the opcode errors and the step is interrupted
			default:
				return false, fmt.Sprintf("unpaired stack callback %s at %d (next %q)", e, i, nxt)
			}
			continue
		}
		n, ok := lstep[q][e]
		if !ok {
			return false, fmt.Sprintf("callback %s at %d not allowed in state %d", e, i, q)
		}
		q = n
	}
	if q != qOk && q != qErr {
		return false, fmt.Sprintf("trace ends in state %d, not after AfterSuccess/AfterError", q)
	}
	return true, ""
}

func trunc19(s string) string {
	if len(s) > 300 {
		return s[:300] + "…"
	}
	return s
}

// compactTrace: the complete callback sequence, one character per event, for corr/C19.v: lifecycle callbacks
// E e S s O o C c K R; a push pair (bp ap) is 'u', a pop pair (bq aq) 'd', a pop callback without its
// after-callback 'x'; an unpaired after-callback is '?', which the Coq side refuses.
func compactTrace(tr []string) string {
	m := map[string]byte{"BE": 'E', "AE": 'e', "BS": 'S', "AS": 's', "BO": 'O', "AO": 'o', "BC": 'C', "AC": 'c', "OK": 'K', "ER": 'R'}
	var sb strings.Builder
	for i := 0; i < len(tr); i++ {
		nxt := ""
		if i+1 < len(tr) {
			nxt = tr[i+1]
		}
		switch e := tr[i]; {
		case e == "bp" && nxt == "ap":
			sb.WriteByte('u')
			i++
		case e == "bq" && nxt == "aq":
			sb.WriteByte('d')
			i++
		case e == "bq":
			sb.WriteByte('x')
		case m[e] != 0:
			sb.WriteByte(m[e])
		default:
			sb.WriteByte('?')
		}
	}
	return sb.String()
}

func lifecycleOnly(tr []string) string {
	var sb strings.Builder
	for _, e := range tr {
		if e == "bp" || e == "ap" || e == "bq" || e == "aq" {
			continue
		}
		sb.WriteString(e)
		sb.WriteByte(' ')
	}
	return strings.TrimSpace(sb.String())
}

// emit19: none / recording / scribbling (xor) / scribbling (+1) / opcode-data scribbling; verdicts, traces and snapshots must coincide.
func emit19(p *interpgen.Program) {
	plain, plainMsg := interpgen.RunPlain(p)
	rec := interpgen.RunWith(p, &interpgen.Recorder{Full: true})
	scr := interpgen.RunWith(p, &interpgen.Recorder{Full: true, Scribble: true})
	drec := &interpgen.Recorder{Full: true}
	dri := interpgen.RunBuilt(interpgen.Build(p, &drifter{drec, drift}), drec)
	orec := &interpgen.Recorder{Full: true}
	opd := interpgen.RunBuilt(interpgen.Build(p, &drifter{orec, driftOpData}), orec)
	c.Tally(p.Kind + "/" + rec.Obs)
	if plain == "panic" || rec.Obs == "panic" || scr.Obs == "panic" || dri.Obs == "panic" {
		c.Violate("Engine.Execute/panic", plainMsg+rec.Err+scr.Err+dri.Err, p)
	}
	if plain != rec.Obs || plainMsg != rec.Err {
		c.Violate("Debugger/recording-changes-verdict-or-error", fmt.Sprintf("%s %q vs %s %q", plain, plainMsg, rec.Obs, rec.Err), p)
	}
	if plain != scr.Obs || plainMsg != scr.Err {
		c.Violate("Debugger/scribbling-changes-verdict-or-error", fmt.Sprintf("%s %q vs %s %q", plain, plainMsg, scr.Obs, scr.Err), p)
	}
	if strings.Join(rec.Trace, " ") != strings.Join(scr.Trace, " ") || rec.Hash != scr.Hash {
		c.Violate("Debugger/scribbling-changes-callbacks-or-snapshots", "traces or snapshots differ between a passive and a scribbling debugger", p)
	}
	// what every callback is SHOWN (the whole State, the data argument) is the same whether or not the debugger wrote
	// into what it was shown before (a snapshot or a copy handed out twice shows the first callback's scribbling)
	if len(rec.Shown) == len(scr.Shown) {
		for i := range rec.Shown {
			if rec.Shown[i] != scr.Shown[i] {
				ev := "?"
				if i < len(rec.Trace) {
					ev = rec.Trace[i]
				}
				c.Violate("Debugger/what-a-callback-is-shown-depends-on-earlier-scribbling", fmt.Sprintf("callback %d (%s) is shown something else to a debugger that overwrote what the earlier callbacks were shown", i, ev), p)
				break
			}
		}
	}
	if plain != dri.Obs || plainMsg != dri.Err {
		c.Violate("Debugger/scribbling-changes-verdict-or-error", fmt.Sprintf("(drifting) %s %q vs %s %q", plain, plainMsg, dri.Obs, dri.Err), p)
	}
	if strings.Join(rec.Trace, " ") != strings.Join(dri.Trace, " ") || rec.Hash != dri.Hash {
		c.Violate("Debugger/scribbling-changes-callbacks-or-snapshots", "traces or snapshots differ between a passive and a drifting (+1 on every byte) debugger", p)
	}
	if opd.Obs == "panic" {
		c.Violate("Engine.Execute/panic", opd.Err, p)
	}
	if plain != opd.Obs || plainMsg != opd.Err || strings.Join(rec.Trace, " ") != strings.Join(opd.Trace, " ") || rec.Hash != opd.Hash {
		c.Violate("Debugger/snapshot-opcode-data-aliases-engine", fmt.Sprintf("changing ParsedOpcode.Data bytes inside State.Scripts changes the run: %s %q vs %s %q (or the callbacks / snapshots differ)", plain, plainMsg, opd.Obs, opd.Err), p)
	}
	// the library's own fan-out debugger (debug.NewDebugger) with one handler per hook, two handlers on some:
	// every handler is called at its own lifecycle point, in the order a hand-written Debugger sees
	{
		var log []string
		d := debug.NewDebugger()
		st := func(n string) debug.ThreadStateFunc { return func(*interpreter.State) { log = append(log, n) } }
		sk := func(n string) debug.StackFunc { return func(*interpreter.State, []byte) { log = append(log, n) } }
		d.AttachBeforeExecute(st("BE"))
		d.AttachAfterExecute(st("AE"))
		d.AttachBeforeStep(st("BS"))
		d.AttachAfterStep(st("AS"))
		d.AttachBeforeExecuteOpcode(st("BO"))
		d.AttachAfterExecuteOpcode(st("AO"))
		d.AttachBeforeScriptChange(st("BC"))
		d.AttachAfterScriptChange(st("AC"))
		d.AttachAfterSuccess(st("OK"))
		d.AttachAfterError(func(*interpreter.State, error) { log = append(log, "ER") })
		d.AttachBeforeStackPush(sk("bp"))
		d.AttachAfterStackPush(sk("ap"))
		d.AttachBeforeStackPop(st("bq"))
		d.AttachAfterStackPop(sk("aq"))
		d.AttachAfterStep(st("AS2")) // a second handler on one hook runs after the first
		d.AttachAfterStackPush(sk("ap2"))
		fan := interpgen.RunBuilt(interpgen.Build(p, d), &interpgen.Recorder{})
		var want []string
		for _, e := range rec.Trace {
			want = append(want, e)
			if e == "AS" {
				want = append(want, "AS2")
			}
			if e == "ap" {
				want = append(want, "ap2")
			}
		}
		if fan.Obs != plain || strings.Join(log, " ") != strings.Join(want, " ") {
			c.Violate("debug.NewDebugger/handlers-not-called-at-their-lifecycle-points", fmt.Sprintf("verdict %s (plain %s); handlers called: %s; a hand-written Debugger sees: %s", fan.Obs, plain, trunc19(strings.Join(log, " ")), trunc19(strings.Join(want, " "))), p)
		}
	}
	if rec.Incons != "" {
		c.Violate("Debugger/snapshot-inconsistent-with-execution", rec.Incons, p)
	}
	stackDataCheck(p, plain, plainMsg, rec) // c19_stackdata.go: what the stack callbacks are handed as their data argument
	p2sh := p.Flags&interpgen.FBip16 != 0 && p.Flags&interpgen.FGenesis == 0 && len(p.Lock) == 23 && p.Lock[0] == 0xa9 && p.Lock[1] == 0x14 && p.Lock[22] == 0x87
	if ok, why := lifecycleOK(rec.Trace, p2sh); !ok {
		c.Violate("Debugger/callback-order", why+": "+strings.Join(rec.Trace, " "), p)
	}
	if (rec.Obs == "ok") != (len(rec.Trace) > 0 && rec.Trace[len(rec.Trace)-1] == "OK") {
		c.Violate("Debugger/final-callback-does-not-match-verdict", strings.Join(rec.Trace, " "), p)
	}
	lc := lifecycleOnly(rec.Trace)
	if rec.TraceBytes > 8<<20 {
		c.Tally(p.Kind + "/trace-too-large-for-model")
		c.Case("", p, key(p), rec.Steps > 0)
		return
	}
	c.Weigh(rec.TraceBytes / 64)
	_ = lc
	c.Case(fmt.Sprintf("mkCase19 (%s 0) %s", interpgen.CoqCase(p, rec), common.CoqStr(compactTrace(rec.Trace))), p, key(p), rec.Steps > 0)
}

func runC19() {
	c.SetHeader(strings.Replace(header, "corr.C05.", "corr.C05 corr.C19.", 1))
	r := common.NewRand(c.Seed)
	stride, nRandom, nP2SH := 331, 450, 80
	maxLen := 12
	if c.Thorough() {
		stride, nRandom, nP2SH, maxLen = 17, 9000, 1200, 40
	}
	interpgen.Matrix(emit19, stride)
	for i := 0; i < nRandom; i++ {
		emit19(interpgen.Random(r, maxLen))
	}
	for i := 0; i < nP2SH; i++ {
		emit19(interpgen.P2SH(r))
	}
	interpgen.ScriptBoundary(emit19)
	nFlow := 300
	if c.Thorough() {
		nFlow = 8000
	}
	for i := 0; i < nFlow; i++ {
		emit19(interpgen.Flow(r))
	}
	// one program per shape of the lifecycle grammar (the Examples of coq/Properties/C19.v), incl. the
	// invalid-program-counter step (BS directly followed by AE) after an early return into an empty script
	for _, b := range []struct {
		u, l  []byte
		flags uint32
	}{
		{[]byte{0x51}, []byte{0x51, 0x87}, 0},
		{[]byte{0x51}, []byte{0x00}, 0},
		{[]byte{0x51}, []byte{0x75, 0x75}, 0},
		{[]byte{0x51}, []byte{0x63}, 0},
		{[]byte{0x51}, []byte{0x6a}, interpgen.FGenesis},
		{[]byte{0x51, 0x6a}, []byte{}, interpgen.FGenesis},
		{[]byte{0x6a}, []byte{0x51}, interpgen.FGenesis},
		{[]byte{}, []byte{0x51}, 0},
		{[]byte{0x51}, []byte{}, 0},
		{[]byte{}, []byte{}, 0},
		{[]byte{0x51, 0x6b}, []byte{0x51}, 0},
	} {
		emit19((&interpgen.Program{Unlock: b.u, Lock: b.l, Flags: b.flags, Kind: "lifecycle-shape"}).Fix())
	}
	// the combined stack limit from both sides in one program (pre-genesis, 1000 items): 3 + 3*332 + 1 = 1000
	// items is accepted (the step completes), the 1001st is a stack overflow detected after AfterExecuteOpcode —
	// the one error that is raised by Step itself between two callbacks
	over := append(bytes.Repeat([]byte{0x51}, 3), bytes.Repeat([]byte{0x6f}, 332)...)
	over = append(over, 0x51, 0x51)
	emit19((&interpgen.Program{Unlock: []byte{}, Lock: over, Flags: 0, Kind: "lifecycle-stack-limit"}).Fix())
	c.Stats.Rule = "the interpreter-equivalence programs (opcode x operand matrix sample, grammar-generated programs, P2SH pairs, script-boundary and flow-control programs, both eras, sampled flags), each run six ways: no debugger, a recording debugger, the library's own debug.NewDebugger with a logging handler on every hook (two on some), two debuggers that overwrite every field and every stack byte of every State they are handed (XOR 0xff, and +1 which is not self-inverse) and one that changes the push data of the parsed opcodes in State.Scripts; verdict AND error text, callback sequence and all snapshots must coincide; the complete callback sequence (stack callbacks included) is checked against the lifecycle automaton in Go and again inside Coq (model/DebugStack.v), and its lifecycle part is compared with the model's trace in Coq. distinct = distinct program; one program per shape of the lifecycle grammar and one reaching the combined stack limit exactly and exceeding it by one are added. non-trivial = at least one step completed"
	runC19StackTraffic() // c19_stackdata.go: programs moving distinct items between and within both stacks
	runC19Fanout()       // c19_fanout.go: the library's own debugger object, tie of model/DebugFanout.v
	runC19StackDataCoq() // c19_stackdata.go: the observed stack events of small runs, tie of model/DebugStackData.v
}
