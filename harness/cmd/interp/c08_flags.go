package main

import (
	"verif/harness/interpgen"
)

// Round 9: a handler may choose its code path by a FLAG and by the SHAPE of its operand (a one-byte number under
// MINIMALDATA, a one-byte truth value under MINIMALIF, ...). The aliasing matrix of c08.go runs with the two eras only,
// so a path selected by another flag was never taken on an item that shares its storage with a twin, with a copy on
// the alt stack or with the bytes of the caller's script. This family runs transformations on shared items under
// every combination of MINIMALDATA / MINIMALIF and both eras, with twin values whose shape such paths key on.

// flag words: the encoding flags alone and together, before and after Genesis
var flagWords = []uint32{
	interpgen.FMinimalData, interpgen.FMinimalIf, interpgen.FMinimalData | interpgen.FMinimalIf,
	interpgen.FGenesis | interpgen.FMinimalData, interpgen.FGenesis | interpgen.FMinimalIf, interpgen.FGenesis | interpgen.FMinimalData | interpgen.FMinimalIf,
}

// twin values by shape: minimally encoded one-byte numbers at the borders of every range a handler could key on
// (1, 2, 16 = last small-integer opcode, 17 = first byte pushed from the script, 0x7e / 0x7f = last positive bytes,
// 0x81 = -1, 0xff = -127), the empty item, one-byte NON-minimal ones (0x00, 0x80: rejected as numbers under
// MINIMALDATA - the rejection must not have written either), minimal two-byte numbers around the one-byte border
// (128, 255, -128, 256, 32767), non-minimal two-byte ones, and a three-byte number.
var flagTwins = [][]byte{
	{0x01}, {0x02}, {0x10}, {0x11}, {0x20}, {0x7e}, {0x7f}, {0x81}, {0xff}, {}, {0x00}, {0x80},
	{0x80, 0x00}, {0xff, 0x00}, {0x80, 0x80}, {0x00, 0x01}, {0xff, 0x7f}, {0x01, 0x00}, {0x7f, 0x80}, {0x00, 0x80, 0x00},
}

// swp: the twin as the SECOND operand of a binary opcode (c08.go's binary snippets have it as the first)
func swp(op byte, operand []byte) []byte { return cat(interpgen.Push(operand), []byte{0x7c, op}) }

// transformations the matrix does not have: the conditional / verify forms and the comparison opcodes (their handlers
// read flags too), and the binary arithmetic with the shared item as second operand
var flagOnlyTransforms = []xform{
	{"NOTIF", []byte{0x64, 0x51, 0x68}}, {"IF-ELSE", []byte{0x63, 0x52, 0x67, 0x53, 0x68}}, {"NOTIF-ELSE", []byte{0x64, 0x52, 0x67, 0x53, 0x68}},
	{"VERIFY", []byte{0x69}}, {"EQUALVERIFY", bin(0x88, []byte{0x02})}, {"NUMEQUALVERIFY", bin(0x9d, []byte{0x02})},
	{"NUMNOTEQUAL", bin(0x9e, []byte{0x02})}, {"GREATERTHAN", bin(0xa0, []byte{0x05})}, {"LESSTHANOREQUAL", bin(0xa1, []byte{0x7e})},
	{"GREATERTHANOREQUAL", bin(0xa2, []byte{0x7f})}, {"2MUL-ish", []byte{0x76, 0x93}}, {"1ADD-1ADD", []byte{0x8b, 0x8b}}, {"1SUB-1SUB", []byte{0x8c, 0x8c}},
	{"ADD-2nd", swp(0x93, []byte{0x03})}, {"SUB-2nd", swp(0x94, []byte{0x03})}, {"MUL-2nd", swp(0x95, []byte{0x03})}, {"DIV-2nd", swp(0x96, []byte{0x7f})},
	{"MOD-2nd", swp(0x97, []byte{0x7f})}, {"BOOLAND-2nd", swp(0x9a, []byte{0x01})}, {"BOOLOR-2nd", swp(0x9b, []byte{})}, {"NUMEQUAL-2nd", swp(0x9c, []byte{0x02})},
	{"LESSTHAN-2nd", swp(0x9f, []byte{0x05})}, {"MIN-2nd", swp(0xa3, []byte{0x02})}, {"MAX-2nd", swp(0xa4, []byte{0x02})},
	{"LSHIFT-by", swp(0x98, []byte{0x12, 0x34})}, {"RSHIFT-by", swp(0x99, []byte{0x12, 0x34})}, {"NUM2BIN-size", swp(0x80, []byte{0x05})},
	{"SPLIT-at", cat(interpgen.Push([]byte{0x01, 0x02, 0x03}), []byte{0x7c, 0x7f})}, {"PICK-idx", cat([]byte{0x00, 0x00, 0x00}, []byte{0x53, 0x7a, 0x79})},
	{"WITHIN-lo", cat(interpgen.Push([]byte{0x05}), []byte{0x7c}, interpgen.Push([]byte{0x7f}), []byte{0xa5})},
	{"WITHIN-hi", cat(interpgen.Push([]byte{0x05}), []byte{0x7c}, interpgen.Push([]byte{}), []byte{0x7c, 0xa5})},
}

func flagProgram(pv prov, tf xform, x []byte, fl uint32, inUnlock bool) *interpgen.Program {
	p := aliasProgram(pv, tf, x, fl, inUnlock)
	p.Kind = "flag-" + p.Kind
	return p
}

func runFlagShapes() {
	all := append(append([]xform{}, transforms...), flagOnlyTransforms...)
	seed := int(c.Seed % 1000003)
	for ti, tf := range all {
		for vi, x := range flagTwins {
			for fi, fl := range flagWords {
				// quick: every transformation x every twin value under one flag word, rotating so that neighbouring
				// values (same shape) run under different words, the provenance rotating with the seed; thorough: every
				// flag word and, below, every provenance
				if !c.Thorough() && fi != (ti+vi+seed)%len(flagWords) {
					continue
				}
				pv := provenances[(ti*5+vi*3+fi+seed)%len(provenances)]
				// one in three with the shared items made in the UNLOCKING script (the caller's other buffer)
				emit(flagProgram(pv, tf, x, fl, (ti+vi+fi)%3 == 0))
				if c.Thorough() {
					for pi, pv2 := range provenances {
						if pv2.name != pv.name {
							emit(flagProgram(pv2, tf, x, fl, (pi+ti+vi+fi)%3 == 0))
						}
					}
				}
				// the sharing itself (which array every live item lies in) for a rotating slice: a flag-selected path
				// that hands back its operand instead of a new array shows here even when no byte is written
				if c.Thorough() || (ti+2*vi+seed)%6 == 0 {
					emitLive(flagProgram(pv, tf, x, fl, false))
				}
			}
		}
	}
	// both copies transformed one after the other under the flags, also with the twin parked on the alt stack meanwhile
	for ti, tf := range all {
		for vi, x := range flagTwins {
			if !c.Thorough() && (ti+3*vi+seed)%8 != 0 {
				continue
			}
			fl := flagWords[(ti+2*vi+seed)%len(flagWords)]
			pv := provenances[(ti+vi)%len(provenances)]
			emit((&interpgen.Program{Unlock: []byte{}, Lock: cat(pv.code(x), tf.code, []byte{0x7c}, tf.code, []byte{0x74, 0x75, 0x51}), Flags: fl, Kind: "flag-both-twins/" + pv.name + "/" + tf.name}).Fix())
			emit((&interpgen.Program{Unlock: cat(interpgen.Push(x), []byte{0x76}), Lock: cat([]byte{0x6b}, tf.code, []byte{0x75, 0x6c}, tf.code, []byte{0x74, 0x75, 0x51}), Flags: fl, Kind: "flag-both-twins/alt/" + tf.name}).Fix())
		}
	}
	c.Stats.Rule += "; flag-selected paths on shared items: (42 + 31 transformations: the matrix's, the conditional / verify / comparison forms, the binary opcodes with the shared item as SECOND operand) x 20 twin values by shape (minimal one-byte numbers 1, 2, 16, 17, 0x20, 0x7e, 0x7f, -1, -127, empty, non-minimal 0x00 / 0x80, minimal and non-minimal two-byte numbers around the one-byte border, a three-byte one) x MINIMALDATA / MINIMALIF / both x both eras (quick: one flag word per transformation and value, rotating, the provenance rotating with the seed; thorough: every flag word x every provenance), in the locking and in the unlocking script, values against the model, a rotating sixth also for the sharing; both copies transformed in turn under the flags"
}
