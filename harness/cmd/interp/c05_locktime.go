package main

import (
	"fmt"
	"math/big"

	"verif/harness/interpgen"
)

// The lock-time opcodes under transaction contexts whose fields span the whole UNSIGNED 32-bit range, with operands
// around every width a fixed-width reading could narrow them to (C05, round 8).
//
// Reference (independent of the Coq model and of the library): BIP65 / BIP112 as adopted by Bitcoin SV before
// Genesis, stated over math/big on the decoded operand and over uint64 copies of the transaction's uint32 fields:
//
//   OP_CHECKLOCKTIMEVERIFY (flag CHECKLOCKTIMEVERIFY, pre-Genesis): fails when the stack is empty, the top item is
//   not a number of at most 5 bytes (minimal under MINIMALDATA), the number is negative, the number and tx.LockTime
//   are not on the same side of 500 000 000, the number exceeds tx.LockTime, or the input's sequence is 0xffffffff.
//
//   OP_CHECKSEQUENCEVERIFY (flag CHECKSEQUENCEVERIFY, pre-Genesis): fails when the stack is empty / not a number /
//   negative; does nothing when bit 31 of the number is set; else fails when tx.Version < 2 (an unsigned number),
//   when bit 31 of the input's sequence is set, when number and sequence masked with 0x0040ffff are not on the same
//   side of 0x00400000, or when the masked number exceeds the masked sequence.
//
//   Without the flag or after Genesis: a NOP (an error under DISCOURAGE_UPGRADABLE_NOPS). Neither opcode changes
//   the stack.

type ltVerdict int

const (
	ltContinue ltVerdict = iota
	ltFail
)

// refLockOp: what the rules say the opcode does on this stack in this context.
func refLockOp(op byte, p *interpgen.Program, stack [][]byte) ltVerdict {
	flag := uint32(interpgen.FCLTV)
	if op == 0xb2 {
		flag = interpgen.FCSV
	}
	if p.Flags&flag == 0 || p.Flags&interpgen.FGenesis != 0 {
		if p.Flags&interpgen.FDiscourageNops != 0 {
			return ltFail
		}
		return ltContinue
	}
	if !p.HasTx {
		return ltFail
	}
	if len(stack) == 0 {
		return ltFail
	}
	top := stack[len(stack)-1]
	if len(top) > 5 || p.Flags&interpgen.FMinimalData != 0 && !isMinimalNum(top) {
		return ltFail
	}
	n := decodeNum(top)
	if n.Sign() < 0 {
		return ltFail
	}
	u := func(v uint32) *big.Int { return new(big.Int).SetUint64(uint64(v)) }
	if op == 0xb1 {
		threshold := big.NewInt(500000000)
		lock := u(p.TxLock)
		if (lock.Cmp(threshold) < 0) != (n.Cmp(threshold) < 0) || n.Cmp(lock) > 0 || p.InSeq == 0xffffffff {
			return ltFail
		}
		return ltContinue
	}
	if n.Bit(31) == 1 {
		return ltContinue
	}
	if uint64(p.TxVersion) < 2 || p.InSeq&(1<<31) != 0 {
		return ltFail
	}
	mask, typeFlag := big.NewInt(0x0040ffff), big.NewInt(0x00400000)
	a, b := new(big.Int).And(u(p.InSeq), mask), new(big.Int).And(n, mask)
	if (a.Cmp(typeFlag) < 0) != (b.Cmp(typeFlag) < 0) || b.Cmp(a) > 0 {
		return ltFail
	}
	return ltContinue
}

// lockTimeRef predicts a whole run of a program of the family's shapes: pushes, the lock-time opcode, OP_DROP, OP_1.
// steps = completed instructions; ok = the verdict.
func lockTimeRef(p *interpgen.Program) (steps int, ok bool, known bool) {
	var st [][]byte
	usesCSV := false
	for _, s := range [][]byte{p.Unlock, p.Lock} {
		for _, o := range opcodesOf(s) {
			usesCSV = usesCSV || o == 0xb2
		}
	}
	if usesCSV && (!p.HasTx || !p.HasPrev) {
		return 0, false, true // the parser refuses opcodes that need a transaction when there is none / no spent output
	}
	for _, s := range [][]byte{p.Unlock, p.Lock} {
		for i := 0; i < len(s); {
			op := s[i]
			switch {
			case op == 0:
				st = append(st, []byte{})
				i++
			case op >= 1 && op <= 75:
				if i+1+int(op) > len(s) {
					return 0, false, false
				}
				d := s[i+1 : i+1+int(op)]
				if p.Flags&interpgen.FMinimalData != 0 && len(interpgen.Push(d)) != 1+len(d) {
					return steps, false, true
				}
				st = append(st, d)
				i += 1 + int(op)
			case op == 0x4f:
				st = append(st, []byte{0x81})
				i++
			case op >= 0x51 && op <= 0x60:
				st = append(st, []byte{op - 0x50})
				i++
			case op == 0x75:
				if len(st) == 0 {
					return steps, false, true
				}
				st = st[:len(st)-1]
				i++
			case op == 0xb1 || op == 0xb2:
				if refLockOp(op, p, st) == ltFail {
					return steps, false, true
				}
				i++
			default:
				return 0, false, false
			}
			steps++
		}
	}
	return steps, len(st) > 0 && truthy(st[len(st)-1]), true
}

func lockTimeCheck(p *interpgen.Program, res interpgen.Result) {
	if res.Obs == "panic" {
		return
	}
	steps, ok, known := lockTimeRef(p)
	if !known {
		c.Tally("locktime/no-reference")
		return
	}
	if ok != (res.Obs == "ok") || steps != res.Steps {
		what := "OP_CHECKLOCKTIMEVERIFY"
		for _, s := range [][]byte{p.Unlock, p.Lock} {
			for _, o := range opcodesOf(s) {
				if o == 0xb2 {
					what = "OP_CHECKSEQUENCEVERIFY"
				}
			}
		}
		c.Violate(what+"/differs-from-the-lock-time-rules",
			fmt.Sprintf("tx version %d, lock time %d, input sequence 0x%08x, flags 0x%x: %d instructions completed, verdict %s (%s); by BIP65/BIP112 over the unsigned fields and the full operand %d complete and the verdict is ok=%v",
				p.TxVersion, p.TxLock, p.InSeq, p.Flags, res.Steps, res.Obs, res.Err, steps, ok), p)
	}
}

// the field values: every width boundary of an unsigned 32-bit field and the thresholds of the two rules
var (
	ltVersions  = []uint32{0, 1, 2, 3, 1<<31 - 1, 1 << 31, 1<<31 + 2, 1<<32 - 1}
	ltLockTimes = []uint32{0, 1, 100, 499999999, 500000000, 500000001, 1<<31 - 1, 1 << 31, 1<<31 + 100, 1<<32 - 1}
	ltSequences = []uint32{0, 1, 10, 0xffff, 0x10000, 0x10005, 1 << 22, 1<<22 | 10, 1<<22 | 0xffff, 1<<23 | 10, 1<<31 - 1, 1 << 31, 1<<31 | 10, 0xfffffffe, 0xffffffff}
	// operands as numbers; encoded minimally
	ltOperands = []int64{0, 1, 5, 10, 11, 100, 101, 0xffff, 0x10000, 0x10005, 1 << 22, 1<<22 | 5, 1<<22 | 10, 1<<22 | 11, 1<<23 | 5,
		499999999, 500000000, 500000001, 1<<31 - 1, 1 << 31, 1<<31 + 5, 1<<31 + 100, 1<<32 - 1, 1 << 32, 1<<32 + 5, 1<<32 + 10, 1<<32 + 100, 1<<32 + 1<<22 + 5,
		1<<32 + 500000000, 1<<32 + 1<<31 + 5, 1<<33 + 100, 1<<39 - 1, -1, -5, -(1 << 32)}
	// operands as raw stack items: negative zero, padded (non-minimal) numbers, six bytes (not a number here)
	ltRawOperands = [][]byte{{0x80}, {0x05, 0x00}, {0x64, 0x00, 0x00, 0x00, 0x00}, {0x00, 0x00, 0x00, 0x00, 0x80}, {0x05, 0x00, 0x00, 0x00, 0x00, 0x00}, {0x64, 0x00, 0x00, 0x00, 0x00, 0x01}}
)

// lockTimePrograms runs the family. Go-level reference on every program; the Coq model evaluates the programs picked
// by `toModel` (all of them when thorough).
func lockTimePrograms() {
	n := 0
	run := func(p *interpgen.Program, always bool) {
		n++
		p.Fix()
		var res interpgen.Result
		if always || c.Thorough() || n%4 == int(c.Seed%4) {
			res = emit(p)
		} else {
			res = emitNoModel(p)
			if afterEmit != nil {
				afterEmit(p, res)
			}
		}
		lockTimeCheck(p, res)
	}
	var operands [][]byte
	for _, v := range ltOperands {
		operands = append(operands, interpgen.NumEnc(v))
	}
	nNum := len(operands)
	operands = append(operands, ltRawOperands...)
	shape := func(k int, operand []byte, op byte) (unlock, lock []byte) {
		switch k % 3 {
		case 0: // the usual form: <n> OP DROP 1 in the locking script, something in the unlocking script
			return []byte{0x51}, cat(interpgen.Push(operand), []byte{op, 0x75, 0x51})
		case 1: // the operand comes from the unlocking script and is the result
			return interpgen.Push(operand), []byte{op}
		}
		return []byte{}, cat(interpgen.Push(operand), []byte{op})
	}
	k := 0
	// OP_CHECKLOCKTIMEVERIFY: lock times x operands x {not final, almost final, final}; the version is immaterial
	cltvFlags := []uint32{interpgen.FCLTV, interpgen.FCLTV | interpgen.FMinimalData, interpgen.FCLTV | interpgen.FCSV}
	for li, lt := range ltLockTimes {
		for oi, operand := range operands {
			for si, seq := range []uint32{0, 0xfffffffe, 0xffffffff, 1 << 31} {
				if si >= 2 && (oi+li)%3 != 0 {
					continue
				}
				k++
				u, l := shape(k, operand, 0xb1)
				wide := oi < nNum && (ltOperands[oi] >= 1<<31 || lt >= 1<<31)
				run(&interpgen.Program{Unlock: u, Lock: l, Flags: cltvFlags[k%len(cltvFlags)], HasTx: true, HasPrev: true, TxLock: lt,
					TxVersion: ltVersions[k%len(ltVersions)], InSeq: seq, Kind: "locktime/cltv"}, wide && si == 0)
			}
		}
	}
	// OP_CHECKSEQUENCEVERIFY: versions x sequences x operands (all versions for every (sequence, operand) pair that
	// the rule would accept under version 2, a rotating version otherwise)
	csvFlags := []uint32{interpgen.FCSV, interpgen.FCSV | interpgen.FMinimalData, interpgen.FCLTV | interpgen.FCSV}
	for si, seq := range ltSequences {
		for oi, operand := range operands {
			probe := &interpgen.Program{Flags: interpgen.FCSV, HasTx: true, HasPrev: true, TxVersion: 2, InSeq: seq}
			satisfied := refLockOp(0xb2, probe, [][]byte{operand}) == ltContinue
			for vi, ver := range ltVersions {
				if !satisfied && vi != (si+oi)%len(ltVersions) {
					continue
				}
				k++
				u, l := shape(k, operand, 0xb2)
				run(&interpgen.Program{Unlock: u, Lock: l, Flags: csvFlags[k%len(csvFlags)], HasTx: true, HasPrev: true, TxLock: ltLockTimes[k%len(ltLockTimes)],
					TxVersion: ver, InSeq: seq, Kind: "locktime/csv"}, satisfied && ver >= 1<<31 && (si+oi)%2 == 0)
			}
		}
	}
	// the opcodes as NOPs (no flag, the other one's flag, after Genesis, discouraged), with an empty stack, without a
	// transaction / without the spent output
	for _, op := range []byte{0xb1, 0xb2} {
		for _, fl := range []uint32{0, interpgen.FCLTV, interpgen.FCSV, interpgen.FCLTV | interpgen.FCSV | interpgen.FGenesis, interpgen.FDiscourageNops,
			interpgen.FCLTV | interpgen.FCSV | interpgen.FDiscourageNops, interpgen.FCLTV | interpgen.FCSV | interpgen.FGenesis | interpgen.FDiscourageNops} {
			for _, operand := range [][]byte{interpgen.NumEnc(1<<32 + 100), interpgen.NumEnc(5), interpgen.NumEnc(-1), {1, 2, 3, 4, 5, 6}} {
				for ctx := 0; ctx < 3; ctx++ {
					k++
					u, l := shape(k, operand, op)
					p := &interpgen.Program{Unlock: u, Lock: l, Flags: fl, HasTx: ctx < 2, HasPrev: ctx == 0, TxLock: 100, TxVersion: []uint32{1, 2, 1 << 31}[k%3], InSeq: 10, Kind: "locktime/nop-or-no-context"}
					run(p, true)
				}
			}
			k++
			run(&interpgen.Program{Unlock: []byte{}, Lock: []byte{op, 0x51}, Flags: fl, HasTx: true, HasPrev: true, TxLock: 100, TxVersion: 2, InSeq: 10, Kind: "locktime/empty-stack"}, true)
		}
	}
	c.Stats.Extra["locktime_programs"] = n
}
