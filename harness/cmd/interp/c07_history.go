package main

import (
	"fmt"
	"sort"
	"strings"

	"github.com/libsv/go-bt/v2/bscript/interpreter"
	"github.com/libsv/go-bt/v2/bscript/interpreter/debug"

	"verif/harness/common"
	"verif/harness/interpgen"
)

// HISTORIES: Engine.Execute on objects that live longer than one call.
//
// Every other family of this harness runs each program on interpreter.NewEngine() made for that one call. A caller
// that validates many inputs makes ONE engine (and one debugger object, and often one set of option values) and
// calls Execute on it again and again. The property quantifies over every pair of scripts, every context and every
// flag word — not over "the first call on an engine" — and the model (model/EngineHistory.v) says that the n-th call
// of any history is the call on its own. Here a history is a sequence of calls on
//
//   - ONE interpreter.Engine,
//   - ONE hand-written Debugger object and ONE debug.NewDebugger() object (with a recording handler on every hook),
//     attached to some calls and not to others,
//   - option values (the results of WithTx / WithScripts / WithFlags / WithDebugger, with the transaction, previous
//     output and script objects they hold) passed again to later calls ("option set"),
//   - the parsed scripts handed out in State.Scripts, kept and looked at again when the history is over,
//
// and every call is compared with the same call on fresh objects: verdict class (ok / error value / panic), number of
// steps, SHA-256 of all stack snapshots, the sequence of callbacks the debug.NewDebugger handlers saw; a debugger
// object that is NOT attached to a call must not hear from it. The calls of a history alternate what the engine
// could remember of the previous one: the context (transaction + previous output / transaction only / none), the
// era, single flags, the transaction's lock time / version / sequence, the kind of script (signature opcodes with
// valid and junk signatures, multisig, CLTV / CSV, P2SH, flow control, plain), calls that are refused by the argument
// validation or by the parser, the debugger.
//
// A failing history is shrunk (calls before the failing one are dropped while it still fails) and reported as the
// list of calls up to the failing one.

type hCall struct {
	P   *interpgen.Program `json:"program,omitempty"`
	O   *optsSpec          `json:"arguments,omitempty"`
	Dbg string             `json:"debugger"`             // none | handwritten | fanout
	Set int                `json:"option_set,omitempty"` // > 0: the calls of one set pass the very same option values
	// class of the call (family | context | era | verdict and whether anything ran, on fresh objects)
	Class string `json:"class,omitempty"`
}

func (k *hCall) clone() *hCall {
	n := *k
	if k.P != nil {
		p := *k.P
		p.Unlock, p.Lock = append([]byte{}, k.P.Unlock...), append([]byte{}, k.P.Lock...)
		n.P = &p
	}
	return &n
}

type hRes struct {
	Obs   string `json:"verdict"`
	Err   string `json:"error,omitempty"`
	Steps int    `json:"steps"`
	Hash  string `json:"-"`
	Log   string `json:"-"` // hooks of the debug.NewDebugger object, one character per handler call
	Stray string `json:"callbacks_to_a_debugger_not_attached,omitempty"`
	bytes int
}

// hDbg: the hand-written debugger of a history. The harness looks at what it collected after every call and
// empties it; the object (the pointer the library is handed) stays the same.
type hDbg struct {
	n     int
	snaps []interpgen.Snapshot
	held  *[]hHeld
}

type hHeld struct {
	scripts []interpreter.ParsedScript
	sum     uint64
	call    int
}

func scriptsSum(ss []interpreter.ParsedScript) uint64 {
	h := uint64(14695981039346656037)
	mix := func(v uint64) { h ^= v; h *= 1099511628211 }
	for _, s := range ss {
		mix(uint64(len(s)) + 7)
		for _, op := range s {
			mix(uint64(op.Value()))
			mix(uint64(len(op.Data)) + 1)
			for _, b := range op.Data {
				mix(uint64(b))
			}
		}
	}
	return h
}

func (d *hDbg) ev(s *interpreter.State) { d.n++ }
func (d *hDbg) BeforeExecute(s *interpreter.State) {
	d.ev(s)
	if s != nil && d.held != nil && len(*d.held) < 64 {
		*d.held = append(*d.held, hHeld{scripts: s.Scripts, sum: scriptsSum(s.Scripts)})
	}
}
func (d *hDbg) AfterExecute(s *interpreter.State) { d.ev(s) }
func (d *hDbg) BeforeStep(s *interpreter.State)   { d.ev(s) }
func (d *hDbg) AfterStep(s *interpreter.State) {
	d.ev(s)
	if s != nil {
		d.snaps = append(d.snaps, interpgen.Snapshot{Data: cp2(s.DataStack), Alt: cp2(s.AltStack)})
	}
}
func (d *hDbg) BeforeExecuteOpcode(s *interpreter.State)       { d.ev(s) }
func (d *hDbg) AfterExecuteOpcode(s *interpreter.State)        { d.ev(s) }
func (d *hDbg) BeforeScriptChange(s *interpreter.State)        { d.ev(s) }
func (d *hDbg) AfterScriptChange(s *interpreter.State)         { d.ev(s) }
func (d *hDbg) AfterSuccess(s *interpreter.State)              { d.ev(s) }
func (d *hDbg) AfterError(s *interpreter.State, _ error)       { d.ev(s) }
func (d *hDbg) BeforeStackPush(s *interpreter.State, _ []byte) { d.ev(s) }
func (d *hDbg) AfterStackPush(s *interpreter.State, _ []byte)  { d.ev(s) }
func (d *hDbg) BeforeStackPop(s *interpreter.State)            { d.ev(s) }
func (d *hDbg) AfterStackPop(s *interpreter.State, _ []byte)   { d.ev(s) }

func cp2(x [][]byte) [][]byte {
	out := make([][]byte, len(x))
	for i := range x {
		out[i] = append([]byte{}, x[i]...)
	}
	return out
}

// hObjects: everything that outlives a call.
type hObjects struct {
	eng    interpreter.Engine
	hw     *hDbg
	fan    debug.DefaultDebugger
	fanLog []byte
	steps  int // AfterStep callbacks of the fan-out object in the current call
	sets   map[int][]interpreter.ExecutionOptionFunc
	held   []hHeld
}

func newHObjects() *hObjects {
	o := &hObjects{eng: interpreter.NewEngine(), sets: map[int][]interpreter.ExecutionOptionFunc{}}
	o.hw = &hDbg{held: &o.held}
	o.fan = debug.NewDebugger()
	regs := make([]fanReg, len(fanHooks))
	for h := range fanHooks {
		regs[h] = fanReg{h, 'a'}
	}
	fanAttach(o.fan, regs, &o.fanLog)
	return o
}

func (k *hCall) build(dbg interpreter.Debugger) []interpreter.ExecutionOptionFunc {
	if k.O != nil {
		return k.O.build(dbg)
	}
	return interpgen.Build(k.P, dbg).Opts
}

// call makes one call on the objects.
func (o *hObjects) call(k *hCall, n int) hRes {
	var dbg interpreter.Debugger
	switch k.Dbg {
	case "handwritten":
		dbg = o.hw
	case "fanout":
		dbg = o.fan
	}
	opts, again := o.sets[k.Set]
	if k.Set == 0 || !again {
		opts = k.build(dbg)
		if k.Set != 0 {
			o.sets[k.Set] = opts
		}
	}
	o.hw.n, o.hw.snaps, o.fanLog = 0, nil, o.fanLog[:0]
	heldBefore := len(o.held)
	var err error
	panicked, msg := common.Safely(func() { err = o.eng.Execute(opts...) })
	for i := heldBefore; i < len(o.held); i++ {
		o.held[i].call = n
	}
	res := hRes{Obs: "ok"}
	switch {
	case panicked:
		res.Obs, res.Err = "panic", msg
	case err != nil:
		res.Obs, res.Err = "err", err.Error()
	}
	switch k.Dbg {
	case "handwritten":
		res.Steps, res.Hash = len(o.hw.snaps), interpgen.TraceHash(o.hw.snaps)
		for _, sn := range o.hw.snaps {
			res.bytes += 8
			for _, it := range sn.Data {
				res.bytes += 4 + len(it)
			}
			for _, it := range sn.Alt {
				res.bytes += 4 + len(it)
			}
		}
		if len(o.fanLog) > 0 {
			res.Stray = fmt.Sprintf("the debug.NewDebugger object of an earlier call received %d callbacks", len(o.fanLog)/2)
		}
	case "fanout":
		var sb strings.Builder
		for i := 0; i+1 < len(o.fanLog); i += 2 {
			sb.WriteByte(o.fanLog[i])
			if o.fanLog[i] == 's' {
				res.Steps++
			}
		}
		res.Log = sb.String()
		if o.hw.n > 0 {
			res.Stray = fmt.Sprintf("the hand-written debugger of an earlier call received %d callbacks", o.hw.n)
		}
	default:
		if o.hw.n > 0 || len(o.fanLog) > 0 {
			res.Stray = fmt.Sprintf("no debugger attached to this call; the debuggers of earlier calls received %d and %d callbacks", o.hw.n, len(o.fanLog)/2)
		}
	}
	return res
}

func sameRes(a, b hRes) bool {
	return a.Obs == b.Obs && a.Steps == b.Steps && a.Hash == b.Hash && a.Log == b.Log
}

// heldIntact: the parsed scripts handed out in State.Scripts at the start of each debugged call still show what
// they showed then.
func (o *hObjects) heldIntact() (int, bool) {
	for _, h := range o.held {
		if scriptsSum(h.scripts) != h.sum {
			return h.call, false
		}
	}
	return 0, true
}

// hFailure: index of the first call of the history that differs from the same call on fresh objects (-1: none).
type hFailure struct {
	at     int
	reused []hRes
	fresh  hRes
	site   string
	what   string
}

func runHistory(calls []*hCall, fresh func(k *hCall) hRes) *hFailure {
	_, f := runHistoryRes(calls, fresh)
	return f
}

func runHistoryRes(calls []*hCall, fresh func(k *hCall) hRes) ([]hRes, *hFailure) {
	o := newHObjects()
	var got []hRes
	for n, k := range calls {
		r := o.call(k, n)
		got = append(got, r)
		f := fresh(k)
		switch {
		case r.Obs == "panic" && f.Obs != "panic":
			return got, &hFailure{n, got, f, "Engine.Execute/panic-on-an-engine-that-has-executed-before", "panic: " + r.Err}
		case !sameRes(r, f):
			return got, &hFailure{n, got, f, "Engine.Execute/result-depends-on-earlier-calls-on-the-same-objects",
				fmt.Sprintf("%s after %d steps on the objects used before; %s after %d steps on fresh ones%s", r.Obs, r.Steps, f.Obs, f.Steps, traceNote(r, f))}
		case r.Stray != "":
			return got, &hFailure{n, got, f, "Engine.Execute/calls-a-debugger-of-an-earlier-call", r.Stray}
		}
	}
	if n, ok := o.heldIntact(); !ok {
		return got, &hFailure{len(calls) - 1, got, hRes{}, "Engine.Execute/later-call-changes-parsed-scripts-handed-out-earlier",
			fmt.Sprintf("State.Scripts handed to BeforeExecute of call %d no longer shows the scripts it showed", n+1)}
	}
	return got, nil
}

func traceNote(r, f hRes) string {
	if r.Obs == f.Obs && r.Steps == f.Steps {
		return " (the stack snapshots / callback sequences differ)"
	}
	return ""
}

func freshCall(k *hCall) hRes {
	j := *k
	j.Set = 0
	return newHObjects().call(&j, 0)
}

// shrink drops calls in front of the failing one while the history still fails at its last call with the same site.
func shrink(calls []*hCall, f *hFailure) ([]*hCall, *hFailure) {
	cur := append([]*hCall{}, calls[:f.at+1]...)
	for changed := true; changed && len(cur) > 1; {
		changed = false
		for i := 0; i < len(cur)-1; i++ {
			cand := append(append([]*hCall{}, cur[:i]...), cur[i+1:]...)
			if g := runHistory(cand, freshCall); g != nil && g.at == len(cand)-1 && g.site == f.site {
				cur, f, changed = cand, g, true
				break
			}
		}
	}
	return cur, f
}

func ctxName(p *interpgen.Program) string {
	switch {
	case p.HasTx && p.HasPrev:
		return "tx+prevout"
	case p.HasTx:
		return "tx only"
	}
	return "no tx"
}

func (k *hCall) String() string {
	d := map[string]string{"none": "", "handwritten": ", hand-written debugger", "fanout": ", debug.NewDebugger object"}[k.Dbg]
	if k.Set != 0 {
		d += fmt.Sprintf(", option values of set %d", k.Set)
	}
	if k.O != nil {
		return fmt.Sprintf("Execute(arguments %s%s)", jsonOf(k.O), d)
	}
	p := k.P
	s := fmt.Sprintf("Execute(%s, flags 0x%x, unlock %s lock %s", ctxName(p), p.Flags, shortHex(p.Unlock), shortHex(p.Lock))
	if p.HasTx {
		s += fmt.Sprintf(", locktime %d version %d sequence 0x%x", p.TxLock, p.TxVersion, p.InSeq)
	}
	return s + d + ")"
}

func shortHex(b []byte) string {
	if len(b) == 0 {
		return "<empty>"
	}
	if len(b) > 40 {
		return fmt.Sprintf("%x..%x[%d bytes]", b[:16], b[len(b)-8:], len(b))
	}
	return fmt.Sprintf("%x", b)
}

func jsonOf(o *optsSpec) string {
	s := fmt.Sprintf("idx %d flags 0x%x", o.Idx, o.Flags)
	if o.NoWithTx {
		s += " no WithTx"
	} else if o.Tx == nil {
		s += " WithTx(nil)"
	} else {
		s += fmt.Sprintf(" tx with %d inputs", len(o.Tx.Ins))
		if o.Prev == nil {
			s += ", nil previous output"
		}
	}
	if o.NoWithScripts {
		s += ", no WithScripts"
	}
	return s
}

var histViolations = map[string]int{}

// report: one violation per failing history, the history shrunk for the first few of each site.
func reportHistory(kind string, calls []*hCall, f *hFailure) {
	histViolations[f.site]++
	if histViolations[f.site] > 40 {
		return
	}
	if histViolations[f.site] <= 3 {
		calls, f = shrink(calls, f)
	} else {
		calls = calls[:f.at+1]
	}
	var lines []string
	var in []map[string]interface{}
	for i, k := range calls {
		r := f.reused[i]
		line := fmt.Sprintf("[%d] %s -> %s", i+1, k.String(), r.Obs)
		e := map[string]interface{}{"call": k, "result_on_the_reused_objects": r}
		if i == f.at {
			line += fmt.Sprintf("   (the same call on fresh objects: %s)", f.fresh.Obs)
			e["result_on_fresh_objects"] = f.fresh
		}
		lines = append(lines, line)
		in = append(in, e)
	}
	c.Violate(f.site, fmt.Sprintf("call %d of a history on ONE engine: %s. History: %s", f.at+1, f.what, strings.Join(lines, "; ")),
		map[string]interface{}{"kind": "history/" + kind, "objects": "one interpreter.Engine, one hand-written Debugger, one debug.NewDebugger object; calls of one option_set pass the same option values", "calls": in})
}

// ---------------------------------------------------------------------------------------------------------------
// the pool of calls

func modelable(p *interpgen.Program) bool {
	if p.HasTx && p.HasPrev && (hasSigOp(p.Lock) || hasSigOp(p.Unlock) || p.Flags&interpgen.FBip16 != 0) {
		return false
	}
	return p.ExtraIn == 0 && p.ExtraOut == 0 && !p.ScriptsApart
}

// withCtx: the same scripts and flags in another context (0 none, 1 transaction only, 2 transaction + previous output)
func withCtx(p *interpgen.Program, ctx int) *interpgen.Program {
	q := *p
	q.HasTx, q.HasPrev = ctx >= 1, ctx == 2
	if !q.HasTx {
		q.TxLock, q.TxVersion, q.InSeq, q.ExtraIn, q.ExtraOut, q.ScriptsApart = 0, 0, 0, 0, 0, false
	} else if !p.HasTx {
		q.TxVersion, q.InSeq = 2, 0xfffffffe
	}
	return q.Fix()
}

func withFlags(p *interpgen.Program, flags uint32) *interpgen.Program {
	q := *p
	q.Flags = flags
	if flags&interpgen.FGenesis != 0 {
		q.Lock, q.Unlock = neutralise(q.Lock), neutralise(q.Unlock)
	}
	return q.Fix()
}

var histFlagBits = []uint32{interpgen.FGenesis, interpgen.FForkID, interpgen.FBip16, interpgen.FCLTV, interpgen.FCSV, interpgen.FMinimalData,
	interpgen.FCleanStack | interpgen.FBip16, interpgen.FNullFail, interpgen.FStrictEnc, interpgen.FDERSig, interpgen.FLowS, interpgen.FSigPushOnly,
	interpgen.FMinimalIf, interpgen.FDiscourageNops, interpgen.FStrictMultiSig}

// probes: programs whose verdict tells one era, one flag, one context field from another
func histProbes() []*interpgen.Program {
	g := uint32(interpgen.FGenesis)
	var out []*interpgen.Program
	add := func(kind string, unlock, lock []byte, flags uint32) {
		out = append(out, (&interpgen.Program{Unlock: unlock, Lock: lock, Flags: flags, Kind: "probe/" + kind}).Fix())
	}
	num5 := interpgen.Push([]byte{1, 2, 3, 4, 5})
	big := interpgen.Push(make([]byte, 521))
	for _, fl := range []uint32{0, g} {
		add("top-level-return", []byte{0x51}, []byte{0x51, 0x6a, 0x00}, fl)
		add("five-byte-number", []byte{}, cat(num5, []byte{0x8b, 0x75, 0x51}), fl)
		add("521-byte-item", []byte{}, cat(big, []byte{0x75, 0x51}), fl)
		add("else-else", []byte{0x51}, []byte{0x63, 0x51, 0x67, 0x51, 0x67, 0x51, 0x68}, fl)
		add("202-ops", []byte{0x51}, rep(0x61, 202), fl)
		add("alt-stack-left", []byte{0x51, 0x6b}, []byte{0x51}, fl)
		add("open-if", []byte{0x51}, []byte{0x51, 0x63}, fl)
		add("p2sh-shape", cat([]byte{0x00}, interpgen.Push([]byte{0x00})), cat([]byte{0xa9, 0x14}, interpgen.Hash160([]byte{0x00}), []byte{0x87}), fl|interpgen.FBip16)
		add("nop1", []byte{}, []byte{0xb0, 0x51}, fl|interpgen.FDiscourageNops)
		add("nop1", []byte{}, []byte{0xb0, 0x51}, fl)
		add("non-minimal-push", []byte{}, []byte{0x01, 0x01, 0x51, 0x87}, fl|interpgen.FMinimalData)
		add("non-minimal-push", []byte{}, []byte{0x01, 0x01, 0x51, 0x87}, fl)
		add("minimal-if", []byte{0x52}, []byte{0x63, 0x51, 0x67, 0x00, 0x68}, fl|interpgen.FMinimalIf)
		add("minimal-if", []byte{0x52}, []byte{0x63, 0x51, 0x67, 0x00, 0x68}, fl)
		add("sig-push-only", []byte{0x51, 0x61}, []byte{0x51, 0x87}, fl|interpgen.FSigPushOnly)
		add("clean-stack", []byte{0x51, 0x51}, []byte{0x51, 0x87, 0x51}, fl|interpgen.FCleanStack|interpgen.FBip16)
		add("clean-stack-without-p2sh", []byte{0x51}, []byte{0x51}, fl|interpgen.FCleanStack)
		add("truncated-push", []byte{0x51}, []byte{0x51, 0x05, 0x01}, fl)
		add("disabled-opcode", []byte{0x51}, []byte{0x00, 0x63, 0x8d, 0x68, 0x51}, fl)
		add("both-empty", []byte{}, []byte{}, fl)
	}
	// lock time / sequence: each of the comparisons of the two operations against a transaction that passes and one that does not
	for _, f := range []struct {
		op                 byte
		operand            int64
		lock, version, seq uint32
	}{
		{0xb1, 100, 100, 1, 0}, {0xb1, 101, 100, 1, 0}, {0xb1, 100, 100, 1, 0xffffffff}, {0xb1, 500000000, 500000001, 1, 0}, {0xb1, 100, 500000001, 1, 0}, {0xb1, -1, 0, 1, 0},
		{0xb2, 5, 0, 2, 5}, {0xb2, 6, 0, 2, 5}, {0xb2, 5, 0, 1, 5}, {0xb2, 1 << 31, 0, 1, 0}, {0xb2, 1<<22 | 5, 0, 2, 1<<22 | 6}, {0xb2, 5, 0, 2, 1<<22 | 6}, {0xb2, 5, 0, 2, 1<<31 | 6}, {0xb2, -1, 0, 2, 0},
	} {
		for _, fl := range []uint32{interpgen.FCLTV | interpgen.FCSV, 0, interpgen.FCLTV | interpgen.FCSV | g} {
			p := &interpgen.Program{Unlock: interpgen.Push(interpgen.NumEnc(f.operand)), Lock: []byte{f.op, 0x75, 0x51}, Flags: fl,
				HasTx: true, HasPrev: true, TxLock: f.lock, TxVersion: f.version, InSeq: f.seq, Kind: "probe/locktime"}
			out = append(out, p.Fix())
		}
	}
	return out
}

func rep(b byte, n int) []byte {
	out := make([]byte, n)
	for i := range out {
		out[i] = b
	}
	return out
}

type hPool struct {
	classes []string
	byClass map[string][]*hCall
	all     []*hCall
}

func family(p *interpgen.Program) string {
	k := p.Kind
	if i := strings.IndexByte(k, '/'); i >= 0 && !strings.HasPrefix(k, "probe/") {
		k = k[:i]
	}
	switch {
	case k == "sig-reach" || k == "sig-shape":
		switch {
		case p.Flags&interpgen.FBip16 != 0 && len(p.Lock) == 23 && p.Lock[0] == 0xa9:
			k += "/p2sh"
		case strings.ContainsAny(string(p.Lock), "\xae\xaf"):
			k += "/multisig"
		}
	case strings.HasPrefix(k, "probe/") && k != "probe/locktime":
		k = "probe"
	}
	return k
}

// buildPool: base programs of every family, each in the three contexts and both eras, and argument sets that are
// refused or accepted by the validation; each labelled by what it does on fresh objects.
func buildPool(r *common.Rand, scale int) *hPool {
	var base []*interpgen.Program
	collect := func(p *interpgen.Program) { base = append(base, p) }
	sigReach(r, collect, 60*scale)
	sigShapes(r, func(p *interpgen.Program) {
		if len(p.Unlock)+len(p.Lock) < 2000 {
			collect(p)
		}
	}, 40*scale)
	for i := 0; i < 60*scale; i++ {
		collect(interpgen.Random(r, 10))
	}
	for i := 0; i < 25*scale; i++ {
		collect(interpgen.P2SH(r))
	}
	for i := 0; i < 25*scale; i++ {
		collect(interpgen.Flow(r))
	}
	n := 0
	interpgen.ScriptBoundary(func(p *interpgen.Program) {
		if n++; n%37 == int(c.Seed%37) {
			collect(p)
		}
	})
	for _, p := range histProbes() {
		collect(p)
	}
	pool := &hPool{byClass: map[string][]*hCall{}}
	seen := map[string]bool{}
	add := func(k *hCall, fam string) {
		var id string
		if k.P != nil {
			id = key(k.P) + fmt.Sprint(k.P.ExtraIn, k.P.ExtraOut, k.P.ScriptsApart)
		} else {
			id = "args/" + jsonFull(k.O)
		}
		if seen[id] {
			return
		}
		seen[id] = true
		k.Dbg = "handwritten"
		f := freshCall(k)
		if f.Obs == "panic" { // a panic on fresh objects: the single-call families' subject; reported here too, once, not used in histories
			if k.P != nil {
				c.Violate("Engine.Execute/panic", f.Err, k.P)
			} else {
				c.Violate("Engine.Execute/panic-on-arguments", f.Err, k.O)
			}
			return
		}
		if f.bytes > 1<<16 {
			return
		}
		ran := "refused"
		if f.Steps > 0 {
			ran = "ran"
		}
		ctx, era := "arguments", ""
		if k.P != nil {
			ctx, era = ctxName(k.P), "pre-genesis"
			if k.P.Flags&interpgen.FGenesis != 0 {
				era = "post-genesis"
			}
		}
		k.Class = strings.Join([]string{fam, ctx, era, f.Obs, ran}, " | ")
		if _, ok := pool.byClass[k.Class]; !ok {
			pool.classes = append(pool.classes, k.Class)
		}
		pool.byClass[k.Class] = append(pool.byClass[k.Class], k)
		pool.all = append(pool.all, k)
	}
	for _, p := range base {
		fam := family(p)
		for ctx := 0; ctx <= 2; ctx++ {
			q := withCtx(p, ctx)
			add(&hCall{P: q}, fam)
			add(&hCall{P: withFlags(q, q.Flags^interpgen.FGenesis)}, fam)
		}
	}
	// argument sets: the grid of badContexts, thinned
	bs := func(b ...byte) *[]byte { x := append([]byte{}, b...); return &x }
	scripts := []*[]byte{nil, bs(), bs(0x51), bs(0x00), bs(0x51, 0xb2), bs(0x51, 0xac), bs(0x01)}
	pick := func() *[]byte { return scripts[r.Intn(len(scripts))] }
	for _, idx := range []int{-1, 0, 1, 3, 1 << 31} {
		for nin := -1; nin <= 2; nin++ {
			for prevKind := 0; prevKind < 3; prevKind++ {
				o := &optsSpec{Idx: idx, Flags: []uint32{0, interpgen.FGenesis, interpgen.FCSV}[r.Intn(3)]}
				if nin >= 0 {
					o.Tx = &txSpec{Version: 2}
					for i := 0; i < nin; i++ {
						o.Tx.Ins = append(o.Tx.Ins, inSpec{Unlock: pick(), Seq: 0xfffffffe, Nil: r.Chance(10)})
					}
				}
				switch prevKind {
				case 1:
					o.Prev = &prevSpec{}
				case 2:
					o.Prev = &prevSpec{Lock: pick()}
				}
				switch r.Intn(3) {
				case 0:
					o.NoWithScripts = true
				case 1:
					o.Lock, o.Unlock = pick(), pick()
				default:
					o.Lock, o.Unlock = pick(), pick()
					if o.Prev != nil && o.Prev.Lock != nil {
						o.Lock = o.Prev.Lock
					}
					if o.Tx != nil && idx >= 0 && idx < len(o.Tx.Ins) && o.Tx.Ins[idx].Unlock != nil && !o.Tx.Ins[idx].Nil {
						o.Unlock = o.Tx.Ins[idx].Unlock
					}
				}
				add(&hCall{O: o}, "arguments")
			}
		}
	}
	add(&hCall{O: &optsSpec{NoWithTx: true, NoWithScripts: true}}, "arguments")
	add(&hCall{O: &optsSpec{NoWithTx: true, Lock: bs(0x51, 0xac), Unlock: bs(0x51)}}, "arguments")
	sort.Strings(pool.classes)
	return pool
}

func jsonFull(o *optsSpec) string {
	return fmt.Sprintf("%+v|%+v|%+v|%v%v%v", *o, o.Tx, o.Prev, deref(o.Lock), deref(o.Unlock), o.Prev != nil && o.Prev.Lock != nil)
}
func deref(b *[]byte) string {
	if b == nil {
		return "nil"
	}
	return fmt.Sprintf("%x", *b)
}

func (pl *hPool) pick(r *common.Rand, class string) *hCall {
	l := pl.byClass[class]
	return l[r.Intn(len(l))].clone()
}

var histDbgKinds = []string{"handwritten", "handwritten", "none", "fanout"}

// vary: the call again with ONE thing changed (or nothing: the very same call, freshly built or as an option set)
func vary(r *common.Rand, k *hCall, nextSet *int) *hCall {
	n := k.clone()
	n.Set = 0
	if n.P == nil {
		n.Dbg = histDbgKinds[r.Intn(len(histDbgKinds))]
		return n
	}
	switch r.Intn(8) {
	case 0, 1, 2: // another context
		cur := 0
		if n.P.HasTx {
			cur = 1
			if n.P.HasPrev {
				cur = 2
			}
		}
		n.P = withCtx(n.P, (cur+1+r.Intn(2))%3)
	case 3: // the other era
		n.P = withFlags(n.P, n.P.Flags^interpgen.FGenesis)
	case 4: // one more / one fewer flag
		n.P = withFlags(n.P, n.P.Flags^histFlagBits[r.Intn(len(histFlagBits))])
	case 5: // another transaction around the same scripts
		if n.P.HasTx {
			q := *n.P
			switch r.Intn(3) {
			case 0:
				q.TxLock = []uint32{0, 100, 101, 500000001, 0xffffffff}[r.Intn(5)]
			case 1:
				q.TxVersion = []uint32{1, 2, 0}[r.Intn(3)]
			default:
				q.InSeq = []uint32{0, 5, 6, 0xffffffff, 0xfffffffe, 1<<22 | 6, 1<<31 | 6}[r.Intn(7)]
			}
			n.P = q.Fix()
		} else {
			n.P = withCtx(n.P, 2)
		}
	case 6: // another debugger
		n.Dbg = histDbgKinds[r.Intn(len(histDbgKinds))]
	default: // the very same call: the same option values
		if k.Set == 0 {
			*nextSet++
			k.Set = *nextSet
		}
		n.Set = k.Set
	}
	return n
}

// coqHistory renders the calls the signature-free model follows as a corr.C07.KHist term (results on the REUSED
// objects). Calls under a full transaction context that may reach a signature operation are HSkip.
func coqHistory(calls []*hCall, got []hRes) (string, int) {
	var parts []string
	w := 0
	for i, k := range calls {
		r := got[i]
		full := k.Dbg == "handwritten"
		res := interpgen.Result{Obs: r.Obs, Steps: r.Steps, Hash: r.Hash}
		switch {
		case k.P != nil && modelable(k.P):
			parts = append(parts, fmt.Sprintf("HProg %s (%s 0)", common.CoqBool(full), interpgen.CoqCase(k.P, res)))
		case k.O != nil:
			parts = append(parts, fmt.Sprintf("HOpts %s %s", common.CoqBool(full), strings.TrimPrefix(k.O.coq(res), "KOpts ")))
		default:
			parts = append(parts, "HSkip")
		}
		if full {
			w += r.bytes / 64
		}
	}
	return "KHist [" + strings.Join(parts, "; ") + "]", w
}

func emitHistory(kind string, calls []*hCall, withModel bool) {
	if !returns(func() { emitHistory1(kind, calls, withModel) }) {
		c.Violate("Engine.Execute/does-not-return", "a history of calls on one engine: no result within the limit (180 s for the first run that hangs)", map[string]interface{}{"kind": "history/" + kind, "calls": calls})
	}
}

func emitHistory1(kind string, calls []*hCall, withModel bool) {
	got, f := runHistoryRes(calls, freshCall)
	if f != nil {
		reportHistory(kind, calls, f)
		c.Tally("history/" + kind + "/differs")
		// the history up to and including the failing call still goes to the model: the implementation's result on the
		// reused objects against the model's
		calls = calls[:f.at+1]
	} else {
		c.Tally("history/" + kind + "/as-on-fresh-objects")
	}
	var ks []string
	for _, k := range calls {
		if k.P != nil {
			ks = append(ks, key(k.P)+k.Dbg+fmt.Sprint(k.Set))
		} else {
			ks = append(ks, jsonFull(k.O)+k.Dbg)
		}
	}
	twin := map[string]interface{}{"kind": "history/" + kind, "calls": calls}
	if !withModel {
		c.Case("", twin, "hist/"+strings.Join(ks, ">"), true)
		return
	}
	term, w := coqHistory(calls, got)
	c.Weigh(w)
	c.Case(term, twin, "hist/"+strings.Join(ks, ">"), true)
}

// histories: called from runC07.
func histories(r *common.Rand) {
	scale, nPairs, nLong, nModelPairs := 1, 3000, 220, 260
	if c.Thorough() {
		scale, nPairs, nLong, nModelPairs = 4, 1<<30, 6000, 4000
	}
	c.Stats.Rule += histRule
	pool := buildPool(r, scale)
	c.Stats.Extra["history_call_classes"] = len(pool.classes)
	c.Stats.Extra["history_call_pool"] = len(pool.all)
	// (1) every ordered pair of call classes on one engine (quick: a seeded sample of the pairs)
	nc := len(pool.classes)
	total := nc * nc
	pairs := 0
	for i, c1 := range pool.classes {
		for j, c2 := range pool.classes {
			if total > nPairs && r.Intn(total) >= nPairs {
				continue
			}
			a, b := pool.pick(r, c1), pool.pick(r, c2)
			a.Dbg, b.Dbg = histDbgKinds[r.Intn(len(histDbgKinds))], histDbgKinds[r.Intn(len(histDbgKinds))]
			calls := []*hCall{a, b}
			if (i+j)%3 == 0 { // ... and the first call once more: A B A
				again := a.clone()
				if r.Bool() {
					a.Set, again.Set = 1, 1
				}
				calls = append(calls, again)
			}
			pairs++
			emitHistory("class-pair", calls, pairs <= nModelPairs || pairs%16 == 0)
		}
	}
	c.Stats.Extra["history_class_pairs"] = pairs
	// (2) longer histories: each call is an earlier call of the history with one thing changed, or a new call from the pool
	for h := 0; h < nLong; h++ {
		n := 3 + r.Intn(8)
		nextSet := 0
		calls := []*hCall{pool.all[r.Intn(len(pool.all))].clone()}
		calls[0].Dbg = histDbgKinds[r.Intn(len(histDbgKinds))]
		for len(calls) < n {
			if r.Chance(60) {
				from := calls[len(calls)-1]
				if r.Chance(35) {
					from = calls[r.Intn(len(calls))]
				}
				calls = append(calls, vary(r, from, &nextSet))
			} else {
				k := pool.pick(r, pool.classes[r.Intn(nc)])
				k.Dbg = histDbgKinds[r.Intn(len(histDbgKinds))]
				calls = append(calls, k)
			}
		}
		emitHistory("walk", calls, true)
	}
	// (3) the same call many times: whatever an engine (or a debugger object, or an option set) accumulated from call
	// to call - a count of operations, a stack that is not emptied, a growing list - shows when a limit is passed:
	// 1 200 repetitions pass the pre-Genesis limits on operations (500) and stack items (1 000)
	reps := 1200
	for i, k := range []*hCall{
		{P: (&interpgen.Program{Unlock: []byte{0x51}, Lock: []byte{0x61, 0x51, 0x87}, Kind: "repeat"}).Fix()},
		{P: (&interpgen.Program{Unlock: []byte{0x51, 0x52}, Lock: []byte{0x6b, 0x51, 0x87, 0x51, 0x6b}, Kind: "repeat"}).Fix()},
		{P: (&interpgen.Program{Unlock: []byte{0x51}, Lock: []byte{0x63, 0x51, 0x67, 0x00, 0x68, 0x51, 0x63}, Flags: interpgen.FGenesis, Kind: "repeat"}).Fix()},
		{P: (&interpgen.Program{Unlock: []byte{0x51, 0x51, 0x51}, Lock: []byte{0x51, 0xb2, 0x75}, Flags: interpgen.FCSV, HasTx: true, HasPrev: true, TxVersion: 2, InSeq: 5, Kind: "repeat"}).Fix()},
		pool.all[r.Intn(len(pool.all))].clone(), pool.all[r.Intn(len(pool.all))].clone(),
	} {
		k.Dbg = []string{"handwritten", "none", "fanout"}[i%3]
		k.Set = i % 2 // every other one with the same option values each time
		o := newHObjects()
		first := freshCall(k)
		for n := 0; n < reps; n++ {
			if got := o.call(k, n); !sameRes(got, first) || got.Stray != "" {
				what := fmt.Sprintf("repetition %d of the same call on one engine: %s after %d steps; on fresh objects %s after %d steps %s", n+1, got.Obs, got.Steps, first.Obs, first.Steps, got.Stray)
				site := "Engine.Execute/result-depends-on-earlier-calls-on-the-same-objects"
				if got.Obs == "panic" {
					site, what = "Engine.Execute/panic-on-an-engine-that-has-executed-before", what+": "+got.Err
				}
				c.Violate(site, what, map[string]interface{}{"kind": "history/repeat", "call": k, "repetitions": n + 1})
				break
			}
		}
		c.Tally("history/repeat")
		c.Case("", map[string]interface{}{"kind": "history/repeat", "call": k, "repetitions": reps}, fmt.Sprintf("hist/repeat/%d/%s", i, k.String()), true)
	}
}

const histRule = ". HISTORIES (c07_history.go, model/EngineHistory.v): calls on ONE Engine, ONE hand-written Debugger, ONE debug.NewDebugger object with a handler on each hook, option values passed again, every call compared with the same call on fresh objects (verdict class incl. panic, steps, snapshot hash, handler sequence; a debugger not attached to a call must hear nothing; State.Scripts handed out earlier unchanged at the end). A pool of calls (valid / wrong / junk signatures single, multisig and in P2SH; CLTV/CSV probes against passing and failing transactions; grammar, P2SH, flow-control and script-boundary programs; era / flag probes; argument sets refused or accepted by validation), each in the three contexts (no tx / tx only / tx + previous output) and both eras, is labelled by class = family | context | era | verdict | ran-or-refused on fresh objects; (1) ordered pairs of classes A B (a third of them A B A, half of those with A's option values passed again): a seeded sample of 3 000 pairs quick, all pairs thorough; (2) walks of 3..10 calls, each an earlier call with one thing changed (context, era, one flag, lock time / version / sequence, debugger, nothing) or a new call; (3) one call 1 200 times (past the limits on operations and stack items). The walks and a part of the pairs are also evaluated on the model as KHist cases (results on the REUSED objects against model/EngineHistory.v run_history). A failing history is shrunk and reported as the calls up to the failing one"
