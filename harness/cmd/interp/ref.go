package main

import (
	"bytes"
	"fmt"
	"math/big"

	"verif/harness/interpgen"
)

// refCheck: harness-side reference for the shift opcodes, used as a Go-level search predicate:
// it states the mathematical meaning directly, without the Coq model.
func refCheck(p *interpgen.Program, res interpgen.Result) {
	if p.Kind != "shift" || res.Obs != "ok" && res.Obs != "err" || len(res.Snaps) < 3 {
		return
	}
	// program shape: push x, push n, OP_LSHIFT/OP_RSHIFT with an empty unlocking script
	before := res.Snaps[1].Data
	if len(before) != 2 || len(res.Snaps[2].Data) != 1 {
		return
	}
	x, n := before[0], decodeNum(before[1])
	if n.Sign() < 0 || !n.IsUint64() || n.Uint64() > uint64(8*len(x)+8) {
		return
	}
	left := p.Lock[len(p.Lock)-1] == 0x98
	want := ShiftRef(x, uint(n.Uint64()), left)
	if got := res.Snaps[2].Data[0]; !bytes.Equal(got, want) {
		c.Violate("OP_LSHIFT/OP_RSHIFT/wrong-result", fmt.Sprintf("x=%x n=%s left=%v got %x want %x", x, n, left, got, want), p)
	}
}

func decodeNum(b []byte) *big.Int {
	if len(b) == 0 {
		return big.NewInt(0)
	}
	le := append([]byte{}, b...)
	neg := le[len(le)-1]&0x80 != 0
	le[len(le)-1] &= 0x7f
	for i, j := 0, len(le)-1; i < j; i, j = i+1, j-1 {
		le[i], le[j] = le[j], le[i]
	}
	v := new(big.Int).SetBytes(le)
	if neg {
		v.Neg(v)
	}
	return v
}

// ShiftRef is the specification: big-endian bit string of 8*len bits shifted by n, same length.
func ShiftRef(x []byte, n uint, left bool) []byte {
	v := new(big.Int).SetBytes(x)
	if left {
		v.Lsh(v, n)
		v.And(v, new(big.Int).Sub(new(big.Int).Lsh(big.NewInt(1), uint(8*len(x))), big.NewInt(1)))
	} else {
		v.Rsh(v, n)
	}
	out := make([]byte, len(x))
	vb := v.Bytes()
	copy(out[len(out)-len(vb):], vb)
	return out
}
