package main

import (
	"encoding/json"
	"fmt"
	"runtime"
	"sync/atomic"
	"time"

	"github.com/libsv/go-bt/v2"
	"github.com/libsv/go-bt/v2/bscript"
	"github.com/libsv/go-bt/v2/bscript/interpreter"
	"github.com/libsv/go-bt/v2/bscript/interpreter/scriptflag"

	"verif/harness/common"
	"verif/harness/interpgen"
)

// hasSigOp: a signature opcode at an opcode position (the model without keys cannot follow those
// when a full transaction context is present).
func hasSigOp(s []byte) bool {
	for i := 0; i < len(s); {
		op := s[i]
		switch {
		case op >= 1 && op <= 75:
			i += 1 + int(op)
		case op == 0x4c && i+1 < len(s):
			i += 2 + int(s[i+1])
		case op == 0x4d && i+2 < len(s):
			i += 3 + (int(s[i+1]) | int(s[i+2])<<8)
		case op == 0x4e && i+4 < len(s):
			i += 5 + (int(s[i+1]) | int(s[i+2])<<8 | int(s[i+3])<<16 | int(s[i+4])<<24)
		default:
			if op >= 0xac && op <= 0xaf {
				return true
			}
			i++
		}
	}
	return false
}

// returns runs f and reports whether it came back within the (very generous) limit; a run that does
// not return is abandoned in its goroutine. Wall-clock noise under load stays far below the limit.
func returns(f func()) bool {
	if tooManyHangs() {
		// five runs have already failed to return (each reported): the remaining runs are not started - one
		// abandoned goroutine per run and minutes of waiting each would only delay the report
		c.Tally("not-run/after-five-runs-that-did-not-return")
		return true
	}
	done := make(chan struct{})
	go func() { defer close(done); f() }()
	select {
	case <-done:
		return true
	case <-time.After(hangLimit()):
		atomic.AddInt32(&hangs, 1)
		return false
	}
}

// hangs counts the runs that did not return. The first one is given the full (very generous) 180 s, so that load
// never looks like a hang; once a hang has been seen the limit drops, and after five the remaining runs are skipped.
var hangs int32

func hangLimit() time.Duration {
	switch n := atomic.LoadInt32(&hangs); {
	case n == 0:
		return 180 * time.Second
	case n < 3:
		return 60 * time.Second
	default:
		return 20 * time.Second
	}
}

func tooManyHangs() bool { return atomic.LoadInt32(&hangs) >= 5 }

// goOnly runs a program on the implementation only (no model case): no panic, returns.
func goOnly(p *interpgen.Program) {
	var obs, msg string
	var r2 interpgen.Result
	if !returns(func() { obs, msg = interpgen.RunPlain(p); r2 = interpgen.Run(p, false) }) {
		c.Violate("Engine.Execute/does-not-return", "no result within the limit (180 s for the first run that hangs)", p)
		return
	}
	c.Tally(p.Kind + "/go-only/" + obs)
	if obs == "panic" || r2.Obs == "panic" {
		c.Violate("Engine.Execute/panic", msg+r2.Err, p)
	}
	c.Case("", p, key(p), true)
}

func emitOrGoOnly(p *interpgen.Program) {
	if p.HasTx && p.HasPrev && (hasSigOp(p.Lock) || hasSigOp(p.Unlock)) {
		goOnly(p)
		return
	}
	if p.Flags&interpgen.FBip16 != 0 && p.HasTx && p.HasPrev {
		// a redeem script may contain signature opcodes only visible at run time
		goOnly(p)
		return
	}
	if !returns(func() { emit(p) }) {
		c.Violate("Engine.Execute/does-not-return", "no result within the limit (180 s for the first run that hangs)", p)
	}
}

func ctxFor(r *common.Rand, p *interpgen.Program) {
	switch r.Intn(4) {
	case 0:
		p.HasTx, p.HasPrev = true, true
	case 1:
		p.HasTx, p.HasPrev = true, false
	}
	if p.HasTx {
		p.TxLock = []uint32{0, 1, 499999999, 500000000, 0xffffffff}[r.Intn(5)]
		p.TxVersion = []uint32{1, 2, 0, 0xffffffff}[r.Intn(4)]
		p.InSeq = []uint32{0, 1, 0xffffffff, 0xfffffffe, 1 << 31, 1 << 22, 0xffff}[r.Intn(7)]
	}
}

func mutate(r *common.Rand, s []byte) []byte {
	out := append([]byte{}, s...)
	if len(out) == 0 {
		return r.Bytes(1 + r.Intn(3))
	}
	switch r.Intn(4) {
	case 0:
		out[r.Intn(len(out))] ^= 1 << uint(r.Intn(8))
	case 1:
		out = out[:r.Intn(len(out))]
	case 2:
		i := r.Intn(len(out) + 1)
		out = append(out[:i], append(r.Bytes(1+r.Intn(3)), out[i:]...)...)
	default:
		out[r.Intn(len(out))] = byte(r.U64())
	}
	return out
}

// optsSpec: Engine.Execute's arguments as data (the Coq twin is model/ExecOpts.v's exec_opts).
type inSpec struct {
	Unlock *[]byte `json:"unlock"`
	Seq    uint32  `json:"seq"`
	Nil    bool    `json:"nil,omitempty"` // a nil element of tx.Inputs
}
type txSpec struct {
	Ins     []inSpec `json:"ins"`
	Lock    uint32   `json:"lock"`
	Version uint32   `json:"version"`
}
type prevSpec struct {
	Lock *[]byte `json:"lock"`
}
type optsSpec struct {
	Lock          *[]byte   `json:"lock"`
	Unlock        *[]byte   `json:"unlock"`
	Prev          *prevSpec `json:"prev"`
	Tx            *txSpec   `json:"tx"`
	Idx           int       `json:"idx"`
	Flags         uint32    `json:"flags"`
	NoWithTx      bool      `json:"no_with_tx"`
	NoWithScripts bool      `json:"no_with_scripts"`
}

func scr(b *[]byte) *bscript.Script {
	if b == nil {
		return nil
	}
	return bscript.NewFromBytes(append([]byte{}, (*b)...))
}

func (o *optsSpec) build(dbg interpreter.Debugger) []interpreter.ExecutionOptionFunc {
	var opts []interpreter.ExecutionOptionFunc
	if !o.NoWithTx {
		var tx *bt.Tx
		if o.Tx != nil {
			tx = bt.NewTx()
			tx.Version, tx.LockTime = o.Tx.Version, o.Tx.Lock
			for _, i := range o.Tx.Ins {
				if i.Nil {
					tx.Inputs = append(tx.Inputs, nil)
					continue
				}
				in := &bt.Input{SequenceNumber: i.Seq, UnlockingScript: scr(i.Unlock)}
				_ = in.PreviousTxIDAdd(make([]byte, 32))
				tx.Inputs = append(tx.Inputs, in)
			}
			tx.Outputs = append(tx.Outputs, &bt.Output{Satoshis: 1, LockingScript: bscript.NewFromBytes([]byte{0x51})})
		}
		var prev *bt.Output
		if o.Prev != nil {
			prev = &bt.Output{Satoshis: 5, LockingScript: scr(o.Prev.Lock)}
		}
		opts = append(opts, interpreter.WithTx(tx, o.Idx, prev))
	}
	if !o.NoWithScripts {
		opts = append(opts, interpreter.WithScripts(scr(o.Lock), scr(o.Unlock)))
	}
	opts = append(opts, interpreter.WithFlags(scriptflag.Flag(o.Flags)))
	if dbg != nil {
		opts = append(opts, interpreter.WithDebugger(dbg))
	}
	return opts
}

func coqOptBytes(b *[]byte) string {
	if b == nil {
		return "None"
	}
	return "(Some " + common.CoqBytes(*b) + ")"
}

func (o *optsSpec) coq(res interpgen.Result) string {
	prev, tx := "None", "None"
	if o.Prev != nil && !o.NoWithTx {
		prev = "(Some " + coqOptBytes(o.Prev.Lock) + ")"
	}
	idx := o.Idx
	if o.NoWithTx {
		idx = 0
	}
	if o.Tx != nil && !o.NoWithTx {
		ins := "["
		for k, i := range o.Tx.Ins {
			if k > 0 {
				ins += "; "
			}
			if i.Nil {
				ins += "None"
			} else {
				ins += fmt.Sprintf("Some (mkOIn %s %d%%Z)", coqOptBytes(i.Unlock), i.Seq)
			}
		}
		tx = fmt.Sprintf("(Some (mkOTx %s] %d%%Z %d%%Z))", ins, o.Tx.Lock, o.Tx.Version)
	}
	lock, unlock := coqOptBytes(o.Lock), coqOptBytes(o.Unlock)
	if o.NoWithScripts {
		lock, unlock = "None", "None"
	}
	obs := map[string]string{"ok": "ObsOk", "err": "ObsErr", "panic": "ObsPanic"}[res.Obs]
	return fmt.Sprintf("KOpts (mkOpts %s %s %s %s (%d)%%Z %d) %s %d %s", lock, unlock, prev, tx, idx, o.Flags, obs, res.Steps, common.CoqStr(res.Hash))
}

// badContexts: argument combinations of Engine.Execute — nil / empty / mismatching scripts, nil
// transaction, transactions with 0..3 inputs with and without their own unlocking script, nil previous
// output or one without a locking script, and input indices from MinInt64 to MaxInt64. Each runs on the
// implementation under recover() with and without a debugger and on the model (validate + apply in
// model/ExecOpts.v, then the interpreter model).
func badContexts(r *common.Rand) {
	bs := func(b ...byte) *[]byte { x := append([]byte{}, b...); return &x }
	pool := []*[]byte{nil, bs(), bs(0x51), bs(0x00), bs(0x51, 0x51, 0x87), bs(0x51, 0xb1), bs(0x51, 0xb2), bs(0x01), bs(0x51, 0x75, 0x52)}
	pick := func() *[]byte { return pool[r.Intn(len(pool))] }
	idxs := []int{-1, -2147483648, -1 << 63, 0, 1, 2, 3, 1 << 31, 1<<63 - 1}
	var specs []*optsSpec
	rounds := 2
	if c.Thorough() {
		rounds = 12
	}
	for round := 0; round < rounds; round++ {
		for _, idx := range idxs {
			for nin := -1; nin <= 3; nin++ {
				for prevKind := 0; prevKind < 3; prevKind++ {
					for scriptsKind := 0; scriptsKind < 5; scriptsKind++ {
						o := &optsSpec{Idx: idx}
						if nin >= 0 {
							o.Tx = &txSpec{Lock: []uint32{0, 1, 500000000}[r.Intn(3)], Version: []uint32{1, 2}[r.Intn(2)]}
							for i := 0; i < nin; i++ {
								o.Tx.Ins = append(o.Tx.Ins, inSpec{Unlock: pick(), Seq: []uint32{0, 0xffffffff, 1 << 31}[r.Intn(3)], Nil: r.Chance(15)})
							}
						}
						switch prevKind {
						case 1:
							o.Prev = &prevSpec{}
						case 2:
							o.Prev = &prevSpec{Lock: pick()}
						}
						switch scriptsKind {
						case 0:
							o.NoWithScripts = true
						case 1:
							o.Lock, o.Unlock = pick(), pick()
						case 2:
							o.Unlock = pick()
						case 3:
							o.Lock = pick()
						case 4:
							// matching what the transaction / previous output carry, when they do
							o.Lock, o.Unlock = pick(), pick()
							if o.Prev != nil && o.Prev.Lock != nil {
								o.Lock = o.Prev.Lock
							}
							if o.Tx != nil && idx >= 0 && idx < len(o.Tx.Ins) && o.Tx.Ins[idx].Unlock != nil && !o.Tx.Ins[idx].Nil {
								o.Unlock = o.Tx.Ins[idx].Unlock
							}
						}
						specs = append(specs, o)
					}
				}
			}
		}
	}
	// mostly-valid stream: arguments that pass validation (index in range, scripts present once or
	// matching), one in three then perturbed in a single field
	nValid := 700
	if c.Thorough() {
		nValid = 6000
	}
	nonNil := func() *[]byte { return pool[1+r.Intn(len(pool)-1)] }
	for k := 0; k < nValid; k++ {
		nin := 1 + r.Intn(3)
		o := &optsSpec{Idx: r.Intn(nin), Tx: &txSpec{Lock: []uint32{0, 1, 500000000}[r.Intn(3)], Version: []uint32{1, 2}[r.Intn(2)]}}
		for i := 0; i < nin; i++ {
			o.Tx.Ins = append(o.Tx.Ins, inSpec{Unlock: nonNil(), Seq: []uint32{0, 0xffffffff, 1 << 31}[r.Intn(3)]})
		}
		o.Prev = &prevSpec{Lock: nonNil()}
		switch r.Intn(4) {
		case 0:
			o.NoWithScripts = true
		case 1:
			o.Lock, o.Unlock = o.Prev.Lock, o.Tx.Ins[o.Idx].Unlock
		case 2:
			o.Lock = o.Prev.Lock
		case 3:
			o.Unlock = o.Tx.Ins[o.Idx].Unlock
		}
		if r.Chance(20) { // scripts only, no transaction
			o.NoWithTx, o.NoWithScripts = true, false
			o.Lock, o.Unlock = nonNil(), nonNil()
		} else if r.Chance(20) { // transaction without previous output: scripts must come from WithScripts
			o.Prev, o.NoWithScripts = nil, false
			o.Lock, o.Unlock = nonNil(), o.Tx.Ins[o.Idx].Unlock
		}
		if r.Chance(33) {
			switch r.Intn(7) {
			case 6: // one element of tx.Inputs is nil: the requested one or another
				o.Tx.Ins[r.Intn(len(o.Tx.Ins))].Nil = true
			case 0:
				o.Idx = idxs[r.Intn(len(idxs))]
			case 1:
				o.Tx.Ins[r.Intn(len(o.Tx.Ins))].Unlock = pick()
			case 2:
				if o.Prev != nil {
					o.Prev.Lock = pick()
				}
			case 3:
				o.Lock = pick()
			case 4:
				o.Unlock = pick()
			case 5:
				o.Tx.Ins = o.Tx.Ins[:r.Intn(len(o.Tx.Ins))]
			}
		}
		specs = append(specs, o)
	}
	specs = append(specs, &optsSpec{NoWithTx: true, NoWithScripts: true})
	specs = append(specs, &optsSpec{NoWithTx: true})
	for _, p := range pool {
		for _, q := range pool {
			specs = append(specs, &optsSpec{NoWithTx: true, Lock: p, Unlock: q})
		}
	}
	for _, o := range specs {
		o.Flags = []uint32{0, 0xffff, interpgen.FGenesis | interpgen.FForkID, interpgen.FCLTV | interpgen.FCSV, interpgen.FBip16 | interpgen.FCleanStack}[r.Intn(5)]
		var err error
		panicked, msg := common.Safely(func() { err = interpreter.NewEngine().Execute(o.build(nil)...) })
		rec := &interpgen.Recorder{}
		res := interpgen.RunBuilt(&interpgen.Built{Opts: o.build(rec)}, rec)
		plain := "ok"
		if err != nil {
			plain = "err"
		}
		c.Tally("arguments/" + res.Obs)
		if panicked || res.Obs == "panic" {
			c.Violate("Engine.Execute/panic-on-arguments", msg+res.Err, o)
		} else if plain != res.Obs {
			c.Violate("Engine.Execute/verdict-differs-with-debugger", plain+" vs "+res.Obs, o)
		}
		bb, _ := json.Marshal(o)
		c.Case(o.coq(res), map[string]interface{}{"kind": "arguments", "opts": o}, "args/"+string(bb), true)
	}
}

// hugeCounts: script-supplied counts are not a licence to allocate: a few bytes of script whose count operand is
// far beyond what the stack holds must fail without reserving memory for that many items (an unrecoverable
// out-of-memory error is a crash). Counts are kept at 2^20..2^26 so that an implementation that does reserve
// the memory is measured (hundreds of MB) rather than killing the harness.
func hugeCounts() {
	for _, n := range []uint32{1 << 20, 1 << 24, 1 << 26} {
		cnt := interpgen.Push(interpgen.NumEnc(int64(n)))
		for _, lock := range [][]byte{
			append(append([]byte{}, cnt...), 0xae),                     // <n> CHECKMULTISIG
			append(append([]byte{}, cnt...), 0xaf),                     // <n> CHECKMULTISIGVERIFY
			append(append(append([]byte{0x51}, cnt...), cnt...), 0xae), // 1 <n> <n> CHECKMULTISIG
			append(append(append([]byte{0x00}, 0x00), cnt...), 0xae),   // 0 0 <n> CHECKMULTISIG
		} {
			p := (&interpgen.Program{Unlock: []byte{0x00}, Lock: lock, Flags: interpgen.FGenesis, HasTx: true, HasPrev: true, TxVersion: 1, InSeq: 0xffffffff, Kind: "huge-count"}).Fix()
			var m0, m1 runtime.MemStats
			runtime.GC()
			runtime.ReadMemStats(&m0)
			obs, msg := interpgen.RunPlain(p)
			runtime.ReadMemStats(&m1)
			c.Tally("huge-count/" + obs)
			if obs == "panic" {
				c.Violate("Engine.Execute/panic", msg, p)
			}
			if d := m1.TotalAlloc - m0.TotalAlloc; d > 32<<20 {
				c.Violate("Engine.Execute/allocates-from-a-script-supplied-count", fmt.Sprintf("%d MB allocated for a %d-byte script whose count operand is %d (the stack holds at most 3 items)", d>>20, len(lock), n), p)
			}
			c.Case("", p, key(p), true)
		}
	}
}

func runC07() {
	r := common.NewRand(c.Seed)
	nRand, nMut, nOp := 900, 500, 2
	if c.Thorough() {
		nRand, nMut, nOp = 60000, 30000, 40
	}
	badContexts(r)
	hugeCounts()
	interpgen.BigNumSweep(func(p *interpgen.Program) { emitOrGoOnly(p) })
	interpgen.ArithEdges(func(p *interpgen.Program) { emitOrGoOnly(p) }, false)
	interpgen.ScriptBoundary(func(p *interpgen.Program) { emitOrGoOnly(p) })
	nShapes := 1200
	if c.Thorough() {
		nShapes = 40000
	}
	sigShapes(r, goOnly, nShapes)
	// the transaction-dependent opcodes WITHOUT a transaction (scripts only) and with a transaction but no previous
	// output, each with operands that would carry it all the way to the digest (a signature that parses, a key on the
	// curve, counts that fit): the call is refused, it does not reach for the transaction
	{
		g1 := common.Unhex("0279be667ef9dcbbac55a06295ce870b07029bfcdb2dce28d959f2815b16f81798")
		sig := common.Unhex("30060201010201010101")
		for _, op := range []byte{0xac, 0xad, 0xae, 0xaf, 0xb2, 0xb1} {
			var unlock, lock []byte
			switch op {
			case 0xac, 0xad:
				unlock, lock = interpgen.Push(sig), append(interpgen.Push(g1), op, 0x51)
			case 0xae, 0xaf:
				unlock = append([]byte{0x00}, interpgen.Push(sig)...)
				lock = append(append([]byte{0x51}, interpgen.Push(g1)...), 0x51, op, 0x51)
			default:
				unlock, lock = []byte{0x51}, []byte{op, 0x51}
			}
			for _, fl := range []uint32{0, interpgen.FGenesis, interpgen.FForkID | interpgen.FGenesis, interpgen.FCLTV | interpgen.FCSV} {
				for ctxKind := 0; ctxKind < 2; ctxKind++ {
					p := &interpgen.Program{Unlock: append([]byte{}, unlock...), Lock: append([]byte{}, lock...), Flags: fl, Kind: "tx-opcode-without-context"}
					if ctxKind == 1 {
						p.HasTx, p.HasPrev, p.TxVersion, p.InSeq = true, false, 2, 0xfffffffe
					}
					emitOrGoOnly(p.Fix())
				}
			}
		}
	}
	// arbitrary byte strings as scripts
	for i := 0; i < nRand; i++ {
		p := &interpgen.Program{Unlock: r.Bytes(r.Intn(12)), Lock: r.Bytes(r.Intn(40)), Flags: uint32(r.U64() & 0xffff), Kind: "random-bytes"}
		if r.Chance(30) {
			p.Flags &= uint32(r.U64())
		}
		if p.Flags&interpgen.FGenesis != 0 {
			p.Lock, p.Unlock = neutralise(p.Lock), neutralise(p.Unlock)
		}
		ctxFor(r, p)
		emitOrGoOnly(p.Fix())
	}
	// mutated node vectors
	vecs, _, err := interpgen.LoadVectors("/repo")
	if err != nil {
		panic(err)
	}
	for i := 0; i < nMut; i++ {
		v := vecs[r.Intn(len(vecs))].Prog
		p := &interpgen.Program{Unlock: mutate(r, v.Unlock), Lock: mutate(r, v.Lock), Flags: v.Flags, Kind: "mutated-vector"}
		if r.Chance(30) {
			p.Flags ^= 1 << uint(r.Intn(16))
		}
		if p.Flags&interpgen.FGenesis != 0 {
			p.Lock, p.Unlock = neutralise(p.Lock), neutralise(p.Unlock)
		}
		ctxFor(r, p)
		emitOrGoOnly(p.Fix())
	}
	// every opcode with 0..3 arbitrary operands, both eras
	for op := 0; op < 256; op++ {
		for k := 0; k < nOp; k++ {
			for nops := 0; nops <= 3; nops++ {
				var lock []byte
				for j := 0; j < nops; j++ {
					lock = append(lock, interpgen.Push(r.Bytes(r.Intn(6)))...)
				}
				lock = append(lock, byte(op))
				if r.Bool() {
					lock = append(lock, r.Bytes(r.Intn(4))...)
				}
				p := &interpgen.Program{Unlock: []byte{}, Lock: lock, Flags: uint32(r.U64() & 0xffff), Kind: "opcode-sweep"}
				if op == 0x80 {
					p.Flags &^= interpgen.FGenesis
				}
				if p.Flags&interpgen.FGenesis != 0 {
					p.Lock = neutralise(p.Lock)
				}
				ctxFor(r, p)
				emitOrGoOnly(p.Fix())
			}
		}
	}
	c.Stats.Rule = "big-number operand sweep; OP_CHECKMULTISIG with count operands 2^20..2^26 on a near-empty stack (must fail without reserving memory: allocation measured); 1200 signature-opcode shapes with a full transaction context (junk signatures/keys, code separators in either script, early OP_RETURN in the unlocking script; implementation only); arbitrary byte strings as unlocking/locking scripts, mutations (bit flip, truncate, splice, byte replace) of the node vectors, every opcode 0..255 with 0..3 arbitrary operands and arbitrary trailing bytes; 16-bit flag words; contexts {no tx, tx + previous output, tx without previous output}; plus ~1 400 (thorough ~8 200) argument combinations of Engine.Execute (nil / empty / mismatching scripts, nil transaction, 0..3 inputs with or without their own unlocking script, nil or script-less previous output, input indices MinInt64..MaxInt64) run with and without a debugger on the implementation and through validate/apply of model/ExecOpts.v on the model. Programs with signature opcodes under a full tx context and P2SH under a full context run on the implementation only (go-only); everything else is also evaluated on the Coq model. After Genesis OP_NUM2BIN is replaced by OP_NOP (its target size is an attacker-chosen allocation up to 2^31-1 bytes: memory policy, out of scope). distinct = distinct (scripts, flags, context); non-trivial = all (every case exercises validation or execution)"
	// calls on objects that have been used before (c07_history.go); its own random stream
	histories(common.NewRand(c.Seed ^ 0xc07a11))
}

// neutralise replaces OP_NUM2BIN at opcode positions by OP_NOP.
func neutralise(s []byte) []byte {
	out := append([]byte{}, s...)
	for i := 0; i < len(out); {
		op := out[i]
		switch {
		case op >= 1 && op <= 75:
			i += 1 + int(op)
		case op == 0x4c && i+1 < len(out):
			i += 2 + int(out[i+1])
		case op == 0x4d && i+2 < len(out):
			i += 3 + (int(out[i+1]) | int(out[i+2])<<8)
		case op == 0x4e && i+4 < len(out):
			i += 5 + (int(out[i+1]) | int(out[i+2])<<8 | int(out[i+3])<<16 | int(out[i+4])<<24)
		default:
			if op == 0x80 {
				out[i] = 0x61
			}
			i++
		}
	}
	return out
}
