package main

import (
	"fmt"
	"time"

	"github.com/libsv/go-bt/v2"
	"github.com/libsv/go-bt/v2/bscript"
	"github.com/libsv/go-bt/v2/bscript/interpreter"
	"github.com/libsv/go-bt/v2/bscript/interpreter/scriptflag"

	"verif/harness/common"
	"verif/harness/interpgen"
)

// hasSigOp: a signature opcode at an opcode position (the model without keys cannot follow those
// when a full transaction context is present).
func hasSigOp(s []byte) bool {
	for i := 0; i < len(s); {
		op := s[i]
		switch {
		case op >= 1 && op <= 75:
			i += 1 + int(op)
		case op == 0x4c && i+1 < len(s):
			i += 2 + int(s[i+1])
		case op == 0x4d && i+2 < len(s):
			i += 3 + (int(s[i+1]) | int(s[i+2])<<8)
		case op == 0x4e && i+4 < len(s):
			i += 5 + (int(s[i+1]) | int(s[i+2])<<8 | int(s[i+3])<<16 | int(s[i+4])<<24)
		default:
			if op >= 0xac && op <= 0xaf {
				return true
			}
			i++
		}
	}
	return false
}

// returns runs f and reports whether it came back within the (very generous) limit; a run that does
// not return is abandoned in its goroutine. Wall-clock noise under load stays far below the limit.
func returns(f func()) bool {
	done := make(chan struct{})
	go func() { defer close(done); f() }()
	select {
	case <-done:
		return true
	case <-time.After(180 * time.Second):
		return false
	}
}

// goOnly runs a program on the implementation only (no model case): no panic, returns.
func goOnly(p *interpgen.Program) {
	var obs, msg string
	var r2 interpgen.Result
	if !returns(func() { obs, msg = interpgen.RunPlain(p); r2 = interpgen.Run(p, false) }) {
		c.Violate("Engine.Execute/does-not-return", "no result after 180 s", p)
		return
	}
	c.Tally(p.Kind + "/go-only/" + obs)
	if obs == "panic" || r2.Obs == "panic" {
		c.Violate("Engine.Execute/panic", msg+r2.Err, p)
	}
	c.Case("", p, key(p), true)
}

func emitOrGoOnly(p *interpgen.Program) {
	if p.HasTx && p.HasPrev && (hasSigOp(p.Lock) || hasSigOp(p.Unlock)) {
		goOnly(p)
		return
	}
	if p.Flags&interpgen.FBip16 != 0 && p.HasTx && p.HasPrev {
		// a redeem script may contain signature opcodes only visible at run time
		goOnly(p)
		return
	}
	if !returns(func() { emit(p) }) {
		c.Violate("Engine.Execute/does-not-return", "no result after 180 s", p)
	}
}

func ctxFor(r *common.Rand, p *interpgen.Program) {
	switch r.Intn(4) {
	case 0:
		p.HasTx, p.HasPrev = true, true
	case 1:
		p.HasTx, p.HasPrev = true, false
	}
	if p.HasTx {
		p.TxLock = []uint32{0, 1, 499999999, 500000000, 0xffffffff}[r.Intn(5)]
		p.TxVersion = []uint32{1, 2, 0, 0xffffffff}[r.Intn(4)]
		p.InSeq = []uint32{0, 1, 0xffffffff, 0xfffffffe, 1 << 31, 1 << 22, 0xffff}[r.Intn(7)]
	}
}

func mutate(r *common.Rand, s []byte) []byte {
	out := append([]byte{}, s...)
	if len(out) == 0 {
		return r.Bytes(1 + r.Intn(3))
	}
	switch r.Intn(4) {
	case 0:
		out[r.Intn(len(out))] ^= 1 << uint(r.Intn(8))
	case 1:
		out = out[:r.Intn(len(out))]
	case 2:
		i := r.Intn(len(out) + 1)
		out = append(out[:i], append(r.Bytes(1+r.Intn(3)), out[i:]...)...)
	default:
		out[r.Intn(len(out))] = byte(r.U64())
	}
	return out
}

// badContexts: argument combinations validate() must turn into errors (Go only; the model starts
// after validation).
func badContexts(r *common.Rand) {
	lock, unlock := bscript.NewFromBytes([]byte{0x51}), bscript.NewFromBytes([]byte{0x51})
	mk := func(nin int) *bt.Tx {
		tx := bt.NewTx()
		for i := 0; i < nin; i++ {
			in := &bt.Input{SequenceNumber: 0xffffffff}
			_ = in.PreviousTxIDAdd(make([]byte, 32))
			if i%2 == 0 {
				in.UnlockingScript = unlock
			}
			tx.Inputs = append(tx.Inputs, in)
		}
		tx.Outputs = append(tx.Outputs, &bt.Output{Satoshis: 1, LockingScript: lock})
		return tx
	}
	prev := &bt.Output{Satoshis: 5, LockingScript: lock}
	noScriptPrev := &bt.Output{Satoshis: 5}
	type tc struct {
		name string
		opts []interpreter.ExecutionOptionFunc
	}
	var cases []tc
	for _, idx := range []int{-1, -2147483648, 0, 1, 2, 3, 1 << 31, 1<<63 - 1} {
		for nin := 0; nin <= 2; nin++ {
			for _, po := range []*bt.Output{nil, prev, noScriptPrev} {
				for _, withScripts := range []int{0, 1, 2, 3} {
					opts := []interpreter.ExecutionOptionFunc{interpreter.WithTx(mk(nin), idx, po)}
					switch withScripts {
					case 1:
						opts = append(opts, interpreter.WithScripts(lock, unlock))
					case 2:
						opts = append(opts, interpreter.WithScripts(nil, unlock))
					case 3:
						opts = append(opts, interpreter.WithScripts(lock, nil))
					}
					cases = append(cases, tc{fmt.Sprintf("tx(%d inputs) idx=%d prev=%v scripts=%d", nin, idx, po != nil, withScripts), opts})
				}
			}
		}
		cases = append(cases, tc{fmt.Sprintf("nil tx idx=%d", idx), []interpreter.ExecutionOptionFunc{interpreter.WithTx(nil, idx, nil)}})
		cases = append(cases, tc{fmt.Sprintf("nil tx idx=%d +scripts", idx), []interpreter.ExecutionOptionFunc{interpreter.WithTx(nil, idx, nil), interpreter.WithScripts(lock, unlock)}})
		cases = append(cases, tc{fmt.Sprintf("nil tx idx=%d prev", idx), []interpreter.ExecutionOptionFunc{interpreter.WithTx(nil, idx, prev)}})
	}
	cases = append(cases, tc{"no options", nil})
	cases = append(cases, tc{"scripts nil/nil", []interpreter.ExecutionOptionFunc{interpreter.WithScripts(nil, nil)}})
	for _, k := range cases {
		for _, fl := range []uint32{0, 0xffff, interpgen.FGenesis | interpgen.FForkID, interpgen.FCLTV | interpgen.FCSV} {
			for _, dbg := range []bool{false, true} {
				opts := append(append([]interpreter.ExecutionOptionFunc{}, k.opts...), interpreter.WithFlags(scriptflag.Flag(fl)))
				if dbg {
					opts = append(opts, interpreter.WithDebugger(&interpgen.Recorder{}))
				}
				panicked, msg := common.Safely(func() { _ = interpreter.NewEngine().Execute(opts...) })
				c.Tally(fmt.Sprintf("bad-context/panic=%v", panicked))
				if panicked {
					c.Violate("Engine.Execute/panic-on-arguments", msg, k.name+fmt.Sprintf(" flags=%#x debugger=%v", fl, dbg))
				}
				c.Case("", map[string]interface{}{"kind": "bad-context", "what": k.name, "flags": fl, "debugger": dbg}, "ctx/"+k.name+fmt.Sprint(fl, dbg), true)
			}
		}
	}
}

func runC07() {
	r := common.NewRand(c.Seed)
	nRand, nMut, nOp := 900, 500, 2
	if c.Thorough() {
		nRand, nMut, nOp = 60000, 30000, 40
	}
	badContexts(r)
	interpgen.BigNumSweep(func(p *interpgen.Program) { emitOrGoOnly(p) })
	nShapes := 1200
	if c.Thorough() {
		nShapes = 40000
	}
	sigShapes(r, goOnly, nShapes)
	// arbitrary byte strings as scripts
	for i := 0; i < nRand; i++ {
		p := &interpgen.Program{Unlock: r.Bytes(r.Intn(12)), Lock: r.Bytes(r.Intn(40)), Flags: uint32(r.U64() & 0xffff), Kind: "random-bytes"}
		if r.Chance(30) {
			p.Flags &= uint32(r.U64())
		}
		if p.Flags&interpgen.FGenesis != 0 {
			p.Lock, p.Unlock = neutralise(p.Lock), neutralise(p.Unlock)
		}
		ctxFor(r, p)
		emitOrGoOnly(p.Fix())
	}
	// mutated node vectors
	vecs, _, err := interpgen.LoadVectors("/repo")
	if err != nil {
		panic(err)
	}
	for i := 0; i < nMut; i++ {
		v := vecs[r.Intn(len(vecs))].Prog
		p := &interpgen.Program{Unlock: mutate(r, v.Unlock), Lock: mutate(r, v.Lock), Flags: v.Flags, Kind: "mutated-vector"}
		if r.Chance(30) {
			p.Flags ^= 1 << uint(r.Intn(16))
		}
		if p.Flags&interpgen.FGenesis != 0 {
			p.Lock, p.Unlock = neutralise(p.Lock), neutralise(p.Unlock)
		}
		ctxFor(r, p)
		emitOrGoOnly(p.Fix())
	}
	// every opcode with 0..3 arbitrary operands, both eras
	for op := 0; op < 256; op++ {
		for k := 0; k < nOp; k++ {
			for nops := 0; nops <= 3; nops++ {
				var lock []byte
				for j := 0; j < nops; j++ {
					lock = append(lock, interpgen.Push(r.Bytes(r.Intn(6)))...)
				}
				lock = append(lock, byte(op))
				if r.Bool() {
					lock = append(lock, r.Bytes(r.Intn(4))...)
				}
				p := &interpgen.Program{Unlock: []byte{}, Lock: lock, Flags: uint32(r.U64() & 0xffff), Kind: "opcode-sweep"}
				if op == 0x80 {
					p.Flags &^= interpgen.FGenesis
				}
				if p.Flags&interpgen.FGenesis != 0 {
					p.Lock = neutralise(p.Lock)
				}
				ctxFor(r, p)
				emitOrGoOnly(p.Fix())
			}
		}
	}
	c.Stats.Rule = "big-number operand sweep; 1200 signature-opcode shapes with a full transaction context (junk signatures/keys, code separators in either script, early OP_RETURN in the unlocking script; implementation only); arbitrary byte strings as unlocking/locking scripts, mutations (bit flip, truncate, splice, byte replace) of the node vectors, every opcode 0..255 with 0..3 arbitrary operands and arbitrary trailing bytes; 16-bit flag words; contexts {no tx, tx + previous output, tx without previous output}; plus 1 700 argument combinations validate() must reject (negative / too large index, nil tx, nil scripts, missing previous output) with and without a debugger. Programs with signature opcodes under a full tx context and P2SH under a full context run on the implementation only (go-only); everything else is also evaluated on the Coq model. After Genesis OP_NUM2BIN is replaced by OP_NOP (its target size is an attacker-chosen allocation up to 2^31-1 bytes: memory policy, out of scope). distinct = distinct (scripts, flags, context); non-trivial = all (every case exercises validation or execution)"
}

// neutralise replaces OP_NUM2BIN at opcode positions by OP_NOP.
func neutralise(s []byte) []byte {
	out := append([]byte{}, s...)
	for i := 0; i < len(out); {
		op := out[i]
		switch {
		case op >= 1 && op <= 75:
			i += 1 + int(op)
		case op == 0x4c && i+1 < len(out):
			i += 2 + int(out[i+1])
		case op == 0x4d && i+2 < len(out):
			i += 3 + (int(out[i+1]) | int(out[i+2])<<8)
		case op == 0x4e && i+4 < len(out):
			i += 5 + (int(out[i+1]) | int(out[i+2])<<8 | int(out[i+3])<<16 | int(out[i+4])<<24)
		default:
			if op == 0x80 {
				out[i] = 0x61
			}
			i++
		}
	}
	return out
}
