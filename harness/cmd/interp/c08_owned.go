package main

import (
	"bytes"
	"fmt"
	"strings"

	"github.com/libsv/go-bt/v2"
	"github.com/libsv/go-bt/v2/bscript"
	"github.com/libsv/go-bt/v2/bscript/interpreter"
	"github.com/libsv/go-bt/v2/bscript/interpreter/scriptflag"

	"verif/harness/common"
	"verif/harness/interpgen"
)

// Caller-owned data handed to the engine through EVERY option (C08, first sentence), compared object by object:
//
//   - WithScripts / WithTx: the script objects and the WHOLE transaction graph the caller can reach from the
//     transaction pointer - every input (not only the checked one) with its outpoint, sequence, unlocking script,
//     and the previous output recorded on it (by an earlier Execute, or set by the caller as for an extended-format
//     transaction; script objects shared between inputs), every output, the previous output handed over -
//     each script object byte for byte including the spare capacity behind its length, each pointer by identity;
//   - WithState: the frame (interpreter.State) a debugger captured and the caller keeps - every stack, the
//     conditional stacks, the parsed scripts and their push data, the counters - before and after a run resumed
//     from it, and the run repeated from the same frame.
//
// The only thing execution records is the spent output's value and script on the checked input.

// ---------------------------------------------------------------------------------------------------------------
// script objects with a watched spare capacity

const spareFill = 0xee

// ownedScript: a caller's script object whose backing array is 8 bytes longer than the script; what lies behind the
// script's length is the caller's memory too (a sub-slice of a larger buffer, as a parser hands out)
func ownedScript(b []byte) *bscript.Script {
	buf := make([]byte, len(b)+8)
	copy(buf, b)
	for i := len(b); i < len(buf); i++ {
		buf[i] = spareFill
	}
	s := bscript.Script(buf[:len(b)])
	return &s
}

func fullCap(s *bscript.Script) []byte { return []byte(*s)[:cap(*s)] }

// ---------------------------------------------------------------------------------------------------------------
// everything reachable from what the caller handed over

type watched struct {
	name string
	obj  *bscript.Script
	n    int
	full []byte
}

type reach struct {
	label   map[interface{}]string // pointer -> stable label (identity across the two walks)
	scripts []watched              // script objects met on the FIRST walk with what they held
	frozen  bool
}

func newReach() *reach { return &reach{label: map[interface{}]string{}} }

func (w *reach) id(kind string, p interface{}) string {
	if l, ok := w.label[p]; ok {
		return l
	}
	l := fmt.Sprintf("%s#%d", kind, len(w.label))
	if w.frozen {
		l += "(new)"
	}
	w.label[p] = l
	return l
}

func (w *reach) script(name string, s *bscript.Script) string {
	if s == nil {
		return "nil"
	}
	_, seen := w.label[s]
	l := w.id("script", s)
	if !seen && !w.frozen {
		w.scripts = append(w.scripts, watched{name, s, len(*s), append([]byte{}, fullCap(s)...)})
	}
	return l + ":" + common.Hex(*s)
}

// walkTx: one line per field of everything reachable from tx; the record of the previous output on input rec is left
// out of the lines (it is the one thing a run may write; checked apart)
func (w *reach) walkTx(tx *bt.Tx, rec int) []string {
	if tx == nil {
		return []string{"tx nil"}
	}
	out := []string{fmt.Sprintf("tx version=%d locktime=%d inputs=%d outputs=%d", tx.Version, tx.LockTime, len(tx.Inputs), len(tx.Outputs))}
	for i, in := range tx.Inputs {
		if in == nil {
			out = append(out, fmt.Sprintf("input %d nil", i))
			continue
		}
		l := fmt.Sprintf("input %d %s outpoint=%x:%d sequence=%d unlocking=%s", i, w.id("input", in), in.PreviousTxID(), in.PreviousTxOutIndex, in.SequenceNumber,
			w.script(fmt.Sprintf("unlocking script of input %d", i), in.UnlockingScript))
		if i != rec {
			l += fmt.Sprintf(" previous-value=%d previous-script=%s", in.PreviousTxSatoshis, w.script(fmt.Sprintf("previous output script held by input %d", i), in.PreviousTxScript))
		} else {
			w.script(fmt.Sprintf("previous output script held by the checked input %d before the run", i), in.PreviousTxScript)
		}
		out = append(out, l)
	}
	for i, o := range tx.Outputs {
		if o == nil {
			out = append(out, fmt.Sprintf("output %d nil", i))
			continue
		}
		out = append(out, fmt.Sprintf("output %d %s value=%d locking=%s", i, w.id("output", o), o.Satoshis, w.script(fmt.Sprintf("locking script of output %d", i), o.LockingScript)))
	}
	return out
}

func (w *reach) walkPrev(o *bt.Output) []string {
	if o == nil {
		return []string{"previous output nil"}
	}
	return []string{fmt.Sprintf("previous output %s value=%d locking=%s", w.id("output", o), o.Satoshis, w.script("locking script of the previous output handed over", o.LockingScript))}
}

// changedScripts: every script object met on the first walk against what it held then
func (w *reach) changedScripts() (string, bool) {
	for _, s := range w.scripts {
		if len(*s.obj) != s.n || !bytes.Equal([]byte(*s.obj), s.full[:s.n]) {
			return fmt.Sprintf("%s: %x -> %x", s.name, s.full[:s.n], []byte(*s.obj)), true
		}
		if cap(*s.obj) != len(s.full) || !bytes.Equal(fullCap(s.obj), s.full) {
			return fmt.Sprintf("%s: the caller's buffer behind the script's %d bytes: %x -> %x", s.name, s.n, s.full[s.n:], fullCap(s.obj)[minInt(s.n, cap(*s.obj)):]), true
		}
	}
	return "", false
}

func minInt(a, b int) int {
	if a < b {
		return a
	}
	return b
}

func firstDiff(a, b []string) (string, bool) {
	for i := 0; i < len(a) || i < len(b); i++ {
		x, y := "(absent)", "(absent)"
		if i < len(a) {
			x = a[i]
		}
		if i < len(b) {
			y = b[i]
		}
		if x != y {
			return x + "  ->  " + y, true
		}
	}
	return "", false
}

// ---------------------------------------------------------------------------------------------------------------
// frames

func hexStack(st [][]byte) string {
	if st == nil {
		return "nil"
	}
	parts := make([]string, len(st))
	for i, it := range st {
		if it == nil {
			parts[i] = "nil"
		} else {
			parts[i] = "'" + common.Hex(it) + "'"
		}
	}
	return fmt.Sprintf("%d[%s]", len(st), strings.Join(parts, " "))
}

// frameLines: every field of a State, the parsed scripts opcode by opcode with their push data
func frameLines(s *interpreter.State) []string {
	out := []string{
		"DataStack " + hexStack(s.DataStack), "AltStack " + hexStack(s.AltStack), "ElseStack " + hexStack(s.ElseStack),
		fmt.Sprintf("CondStack %v", s.CondStack), "SavedFirstStack " + hexStack(s.SavedFirstStack),
		fmt.Sprintf("ScriptIdx %d OpcodeIdx %d LastCodeSeparatorIdx %d NumOps %d Flags %d IsFinished %v AfterGenesis %v EarlyReturn %v scripts %d",
			s.ScriptIdx, s.OpcodeIdx, s.LastCodeSeparatorIdx, s.NumOps, s.Flags, s.IsFinished, s.Genesis.AfterGenesis, s.Genesis.EarlyReturn, len(s.Scripts)),
	}
	for i, sc := range s.Scripts {
		var sb strings.Builder
		fmt.Fprintf(&sb, "Scripts[%d] %d:", i, len(sc))
		for _, op := range sc {
			fmt.Fprintf(&sb, " %02x", op.Value())
			if op.Data != nil {
				fmt.Fprintf(&sb, "'%x'", op.Data)
			}
		}
		out = append(out, sb.String())
	}
	return out
}

// frameKeeper: a debugger that keeps the frames it is handed (as a step-back debugger does) and records the run
type frameKeeper struct {
	interpgen.Recorder
	frames []keptFrame
}

type keptFrame struct {
	ev    string
	st    *interpreter.State
	steps int // AfterStep snapshots taken before it was handed out
}

func (k *frameKeeper) keep(ev string, s *interpreter.State) {
	if s != nil && len(k.frames) < 600 {
		k.frames = append(k.frames, keptFrame{ev, s, len(k.Snaps)})
	}
}
// Frames from which a resumed run is the REST of the run: before a step, before the opcode of a step, after a step
// that was not the last. (A frame handed out in the middle of an instruction - AfterExecuteOpcode, the stack callbacks,
// the script change inside a step - or after the end makes the engine execute an instruction again on stacks that
// already show its effect: another program than the generated one, with operands nobody chose.)
func (k *frameKeeper) BeforeStep(s *interpreter.State) { k.keep("BeforeStep", s); k.Recorder.BeforeStep(s) }
func (k *frameKeeper) AfterStep(s *interpreter.State) {
	k.Recorder.AfterStep(s)
	if s != nil && !s.IsFinished {
		k.keep("AfterStep", s)
	}
}
func (k *frameKeeper) BeforeExecuteOpcode(s *interpreter.State) {
	k.keep("BeforeExecuteOpcode", s)
	k.Recorder.BeforeExecuteOpcode(s)
}

// ---------------------------------------------------------------------------------------------------------------
// one execution with everything the caller hands over watched

type ownedRun struct {
	p            *interpgen.Program
	lock, unlock *bscript.Script
	tx           *bt.Tx
	prev         *bt.Output
	idx          int
	opts         []interpreter.ExecutionOptionFunc
}

// ownedTx: the transaction interpgen.Build makes for p (same serialisation), with script objects that have a watched
// capacity, and after more inputs behind the tested one
func ownedTx(p *interpgen.Program, unlock *bscript.Script, after int) *bt.Tx {
	tx := bt.NewTx()
	tx.Version, tx.LockTime = p.TxVersion, p.TxLock
	for k := 0; k < p.ExtraIn; k++ {
		other := &bt.Input{PreviousTxOutIndex: uint32(k + 1), SequenceNumber: 0xfffffffe, UnlockingScript: ownedScript([]byte{0x51, byte(0x52 + k)})}
		_ = other.PreviousTxIDAdd(bytes.Repeat([]byte{byte(k + 1)}, 32))
		tx.Inputs = append(tx.Inputs, other)
	}
	in := &bt.Input{PreviousTxOutIndex: 0, SequenceNumber: p.InSeq}
	_ = in.PreviousTxIDAdd(make([]byte, 32))
	if !p.ScriptsApart {
		in.UnlockingScript = unlock
	}
	tx.Inputs = append(tx.Inputs, in)
	for k := 0; k < after; k++ {
		other := &bt.Input{PreviousTxOutIndex: uint32(7 + k), SequenceNumber: []uint32{0xffffffff, 5}[k%2], UnlockingScript: ownedScript([]byte{0x51, byte(0x58 + k)})}
		_ = other.PreviousTxIDAdd(bytes.Repeat([]byte{byte(0xa1 + k)}, 32))
		tx.Inputs = append(tx.Inputs, other)
	}
	tx.Outputs = append(tx.Outputs, &bt.Output{Satoshis: 1, LockingScript: ownedScript([]byte{0x51})})
	for k := 0; k < p.ExtraOut; k++ {
		tx.Outputs = append(tx.Outputs, &bt.Output{Satoshis: uint64(1000 + k), LockingScript: ownedScript([]byte{0x76, 0xa9, byte(k)})})
	}
	return tx
}

// newOwnedRun: the option list of interpgen.Build over watched objects
func newOwnedRun(p *interpgen.Program, after int) *ownedRun {
	o := &ownedRun{p: p, lock: ownedScript(p.Lock), unlock: ownedScript(p.Unlock), idx: p.ExtraIn}
	if p.HasTx {
		o.tx = ownedTx(p, o.unlock, after)
		if p.HasPrev {
			o.prev = &bt.Output{Satoshis: 1000, LockingScript: o.lock}
		}
	}
	return o
}

func (o *ownedRun) options(dbg interpreter.Debugger, st *interpreter.State) []interpreter.ExecutionOptionFunc {
	var opts []interpreter.ExecutionOptionFunc
	switch {
	case o.tx != nil && o.prev != nil && o.p.ScriptsApart:
		opts = append(opts, interpreter.WithTx(o.tx, o.idx, o.prev), interpreter.WithScripts(o.lock, o.unlock))
	case o.tx != nil && o.prev != nil:
		opts = append(opts, interpreter.WithTx(o.tx, o.idx, o.prev))
	case o.tx != nil:
		opts = append(opts, interpreter.WithTx(o.tx, o.idx, nil), interpreter.WithScripts(o.lock, o.unlock))
	default:
		opts = append(opts, interpreter.WithScripts(o.lock, o.unlock))
	}
	opts = append(opts, interpreter.WithFlags(scriptflag.Flag(o.p.Flags)))
	if dbg != nil {
		opts = append(opts, interpreter.WithDebugger(dbg))
	}
	if st != nil {
		opts = append(opts, interpreter.WithState(st))
	}
	return opts
}

func execOpts(opts []interpreter.ExecutionOptionFunc) (string, string) {
	var err error
	panicked, m := common.Safely(func() { err = interpreter.NewEngine().Execute(opts...) })
	switch {
	case panicked:
		return "panic", m
	case err != nil:
		return "err", err.Error()
	}
	return "ok", ""
}

// watch: the state of everything the caller handed over; same() states, after any number of runs, that it is all as
// it was - except for the record of the spent output on the checked input
type watcher struct {
	o         *ownedRun
	w         *reach
	input     interface{}
	before    []string
	txBytes   []byte
	recScript *bscript.Script
	recSats   uint64
}

func (x *watcher) walk() []string {
	o, w := x.o, x.w
	l := []string{"locking=" + w.script("locking script handed over", o.lock), "unlocking=" + w.script("unlocking script handed over", o.unlock)}
	l = append(l, w.walkPrev(o.prev)...)
	if o.tx != nil {
		l = append(l, w.walkTx(o.tx, o.idx)...)
	}
	return l
}

func (o *ownedRun) watch(input interface{}) *watcher {
	x := &watcher{o: o, w: newReach(), input: input}
	if o.tx != nil {
		x.txBytes = o.tx.Bytes()
		x.recScript, x.recSats = o.tx.Inputs[o.idx].PreviousTxScript, o.tx.Inputs[o.idx].PreviousTxSatoshis
	}
	x.before = x.walk()
	x.w.frozen = true
	return x
}

// scriptsSame: every script object reachable at the start holds what it held (whatever was recorded since)
func (x *watcher) scriptsSame(when string) bool {
	if d, changed := x.w.changedScripts(); changed {
		c.Violate("Engine.Execute/caller-script-object-modified", when+": "+d, x.input)
		return false
	}
	return true
}

func (x *watcher) same(when string) bool {
	o := x.o
	ok := x.scriptsSame(when)
	if d, changed := firstDiff(x.before, x.walk()); changed {
		c.Violate("Engine.Execute/caller-data-modified", when+": "+d, x.input)
		ok = false
	}
	if o.tx != nil {
		if !bytes.Equal(o.tx.Bytes(), x.txBytes) {
			c.Violate("Engine.Execute/transaction-serialisation-modified", when+": tx bytes differ after execution", x.input)
			ok = false
		}
		// the record: either none was made (rejected before) or it is the spent output's script and value
		if in := o.tx.Inputs[o.idx]; in.PreviousTxScript != x.recScript || in.PreviousTxSatoshis != x.recSats {
			if o.prev == nil || in.PreviousTxScript == nil || !bytes.Equal(*in.PreviousTxScript, o.p.Lock) || in.PreviousTxSatoshis != o.prev.Satoshis {
				var now []byte
				if in.PreviousTxScript != nil {
					now = *in.PreviousTxScript
				}
				c.Violate("Engine.Execute/input-records-something-else-than-the-spent-output",
					fmt.Sprintf("%s: PreviousTxScript %x (spent output script %x), PreviousTxSatoshis %d", when, now, o.p.Lock, in.PreviousTxSatoshis), x.input)
				ok = false
			}
		}
	}
	return ok
}

// ---------------------------------------------------------------------------------------------------------------
// family (a): runs resumed from the frames a debugger kept

type resumeInput struct {
	Program *interpgen.Program `json:"program"`
	Frame   string             `json:"frame"`
	Number  int                `json:"frame_number"`
	Steps   int                `json:"steps_before_frame"`
}

// resumeFrames: p is run once with a debugger that keeps the frames of BeforeStep / BeforeExecuteOpcode / AfterStep
// (see frameKeeper); then, for every kept frame (all of them up to maxFrames, evenly thinned
// beyond), execution is resumed from it three times over the same caller objects - without a debugger, with a
// recording one, without again. Stated:
//   - the frame reads after every resumed run exactly as before the first (every field);
//   - the three runs end alike, as the uninterrupted run ended, and the recorded one shows, step for step, the stacks
//     the uninterrupted run showed from that point on (a resumed run is the rest of the run);
//   - scripts, transaction and previous output are as they were.
func resumeFrames(p *interpgen.Program, maxFrames int) {
	if sizeHazard(p) {
		c.Tally("resume/skipped/num2bin-size-not-a-small-literal")
		return
	}
	o := newOwnedRun(p, 0)
	fk := &frameKeeper{}
	check := o.watch(p)
	obs, msg := execOpts(o.options(fk, nil))
	fk.CheckHeld()
	c.Tally("resume/" + strings.SplitN(p.Kind, "/", 2)[0] + "/" + obs)
	if obs == "panic" {
		c.Violate("Engine.Execute/panic", msg, p)
		return
	}
	if fk.Incons != "" {
		c.Violate("Debugger/state-handed-out-is-not-the-callers-to-keep", fk.Incons, p)
	}
	check.same("the run the frames are taken from")
	orig := fk.Snaps
	stride := 1
	if len(fk.frames) > maxFrames {
		stride = (len(fk.frames) + maxFrames - 1) / maxFrames
	}
	resumed := 0
	for fi, fr := range fk.frames {
		if fi%stride != 0 && fi != len(fk.frames)-1 {
			continue
		}
		in := resumeInput{p, fr.ev, fi, fr.steps}
		before := frameLines(fr.st)
		same := func(when string) bool {
			if d, changed := firstDiff(before, frameLines(fr.st)); changed {
				c.Violate("WithState/resumed-run-changes-the-callers-frame", when+": "+d, in)
				return false
			}
			return true
		}
		obs1, msg1 := execOpts(o.options(nil, fr.st))
		ok := same("after a run resumed from the frame")
		rec := &interpgen.Recorder{}
		obs2, msg2 := execOpts(o.options(rec, fr.st))
		ok = ok && same("after a second run resumed from the frame")
		obs3, _ := execOpts(o.options(nil, fr.st))
		ok = ok && same("after a third run resumed from the frame")
		resumed++
		if obs1 != obs2 || obs1 != obs3 {
			c.Violate("WithState/runs-resumed-from-the-same-frame-end-differently", fmt.Sprintf("first %s (%s), second %s (%s), third %s", obs1, msg1, obs2, msg2, obs3), in)
			ok = false
		}
		if ok {
			if obs1 == "panic" {
				c.Violate("Engine.Execute/panic", "resumed from a "+fr.ev+" frame: "+msg1, in)
				ok = false
			} else if obs1 != obs {
				c.Violate("WithState/resumed-run-ends-differently", fmt.Sprintf("resumed %s (%s), uninterrupted %s (%s)", obs1, msg1, obs, msg), in)
				ok = false
			} else if rest := orig[minInt(fr.steps, len(orig)):]; interpgen.TraceHash(rec.Snaps) != interpgen.TraceHash(rest) {
				c.Violate("WithState/resumed-run-shows-other-stacks", fmt.Sprintf("%d steps with stacks %s; the uninterrupted run from there: %d steps with stacks %s", len(rec.Snaps), lastStacks(rec.Snaps), len(rest), lastStacks(rest)), in)
				ok = false
			}
			// ... and against the model: the resumed run is the model's run of the whole program without its first
			// fr.steps snapshots (corr/C08.v KResume); two frames per program, signature-free programs
			if fr.ev == "BeforeStep" && !p.HasTx && fr.steps > 0 && (fr.steps == (len(orig)+1)/2 || fr.steps == len(orig)-1) && obs1 != "panic" {
				res := interpgen.Result{Obs: obs2, Steps: len(rec.Snaps), Hash: interpgen.TraceHash(rec.Snaps)}
				c.Case(fmt.Sprintf("KResume (%s 0) %d%%nat", interpgen.CoqCase(p, res), fr.steps), map[string]interface{}{"kind": "resume-model/" + p.Kind, "program": p, "frame": fr.ev, "steps_before_frame": fr.steps},
					fmt.Sprintf("M%d/%s", fr.steps, key(p)), true)
			}
		}
		if !check.same("after runs resumed from a frame") || !ok {
			break // one report per program
		}
	}
	c.Stats.Extra["resumed_frames"] = asInt(c.Stats.Extra["resumed_frames"]) + resumed
	c.Case("", map[string]interface{}{"kind": "resume/" + p.Kind, "program": p}, "R"+key(p), resumed > 0)
}

// sizeHazard: after Genesis OP_NUM2BIN makes an item as long as its operand says (memory policy, not this property);
// a debugger that keeps frames copies every item several times per step. Programs in which the size is not a small
// literal right in front of the opcode are left to the families that run without keeping frames.
func sizeHazard(p *interpgen.Program) bool {
	if p.Flags&interpgen.FGenesis == 0 {
		return false
	}
	for _, sc := range [][]byte{p.Unlock, p.Lock} {
		small := false
		for i := 0; i < len(sc); {
			op := sc[i]
			n := 1
			switch {
			case op >= 1 && op <= 75:
				n = 1 + int(op)
			case op == 0x4c && i+1 < len(sc):
				n = 2 + int(sc[i+1])
			case op == 0x4d && i+2 < len(sc):
				n = 3 + (int(sc[i+1]) | int(sc[i+2])<<8)
			case op == 0x4e:
				return bytes.IndexByte(sc, 0x80) >= 0
			}
			if op == 0x80 && !small {
				return true
			}
			small = op == 0 || (op >= 0x51 && op <= 0x60) || (op == 1 && i+1 < len(sc) && sc[i+1] < 0x80) || (op == 2 && i+2 < len(sc) && sc[i+2] == 0)
			i += n
		}
	}
	return false
}

func asInt(v interface{}) int {
	if n, ok := v.(int); ok {
		return n
	}
	return 0
}

func lastStacks(sn []interpgen.Snapshot) string {
	if len(sn) == 0 {
		return "(none)"
	}
	l := sn[len(sn)-1]
	return "data " + hexStack(l.Data) + " alt " + hexStack(l.Alt)
}

func runResume(r *common.Rand) {
	maxFrames := 24
	if c.Thorough() {
		maxFrames = 200
	}
	// the aliasing matrix: a frame taken between the making of the twins and the transformation, and after it
	n := 0
	for pi, pv := range provenances {
		for ti, tf := range transforms {
			for vi, x := range twinValues {
				n++
				if !c.Thorough() && (vi != (pi+2*ti+int(c.Seed))%len(twinValues) || (pi+ti+int(c.Seed))%3 != 0) {
					continue
				}
				fl := uint32(0)
				if n%2 == 1 {
					fl = interpgen.FGenesis
				}
				resumeFrames(aliasProgram(pv, tf, x, fl, n%5 == 0), maxFrames)
			}
		}
	}
	nGen := 120
	if c.Thorough() {
		nGen = 4000
	}
	for i := 0; i < nGen; i++ {
		pv := provenances[r.Intn(len(provenances))]
		x := twinValues[r.Intn(len(twinValues))]
		body := pv.code(x)
		for k := 1 + r.Intn(4); k > 0; k-- {
			body = cat(body, transforms[r.Intn(len(transforms))].code)
			if r.Chance(50) { // more twins of whatever is on top: DUP OVER 2DUP 3DUP TUCK IFDUP, 1 PICK, DUP TOALTSTACK, FROMALTSTACK, SWAP, ROT
				body = cat(body, [][]byte{{0x76}, {0x78}, {0x6e}, {0x6f}, {0x7d}, {0x73}, {0x51, 0x79}, {0x76, 0x6b}, {0x6c}, {0x7c}, {0x7b}}[r.Intn(11)])
			}
		}
		fl := uint32(0)
		if r.Bool() {
			fl = interpgen.FGenesis
		}
		p := &interpgen.Program{Unlock: []byte{}, Lock: cat(body, []byte{0x74, 0x75, 0x51}), Flags: fl, Kind: "chain"}
		if r.Chance(30) {
			p.Unlock, p.Lock = body, []byte{0x74, 0x75, 0x51}
		}
		if r.Chance(25) {
			p.HasTx, p.HasPrev, p.TxVersion, p.InSeq = true, r.Chance(75), 1, 0xffffffff
			p.ScriptsApart = r.Bool()
			p.ExtraIn, p.ExtraOut = r.Intn(3), r.Intn(3)
		}
		resumeFrames(p.Fix(), maxFrames)
	}
	// conditionals (the frame carries the conditional and else stacks), both scripts
	for i := 0; i < nGen/2; i++ {
		resumeFrames(interpgen.Flow(r), maxFrames)
	}
	// P2SH: the frame carries the saved first stack and, in the third script, three parsed scripts
	for i := 0; i < nGen/3; i++ {
		resumeFrames(interpgen.P2SH(r), maxFrames)
	}
	k := 0
	interpgen.ScriptBoundary(func(p *interpgen.Program) {
		k++
		if c.Thorough() || (k+int(c.Seed))%12 == 0 {
			q := *p
			resumeFrames(&q, maxFrames)
		}
	})
	// signature programs with a transaction: the resumed run records the spent output again and hashes the transaction
	nSig := 40
	if c.Thorough() {
		nSig = 1500
	}
	sigReach(r, func(p *interpgen.Program) { resumeFrames(p, maxFrames) }, nSig)
	sigShapes(r, func(p *interpgen.Program) {
		if len(p.Unlock)+len(p.Lock) < 4000 {
			resumeFrames(p, maxFrames)
		}
	}, nSig)
}

// ---------------------------------------------------------------------------------------------------------------
// family (b): the transaction graph around the checked input

type graphInput struct {
	Program  *interpgen.Program `json:"program"`
	After    int                `json:"inputs_behind_the_checked_one"`
	Others   string             `json:"previous_outputs_on_the_other_inputs"`
	Own      string             `json:"previous_output_on_the_checked_input_before"`
	Order    string             `json:"order"`
	Extended string             `json:"tx_extended_before"`
}

func inputsBehind(p *interpgen.Program) int { return (len(p.Lock) + p.ExtraOut + int(p.TxVersion)) % 3 }

// otherLock: the output the other input k spends (its unlocking script pushes two small numbers)
func otherLock(k int) []byte { return [][]byte{{0x75}, {0x77}, {0x7c, 0x75}, {0x6d, 0x51}}[k%4] }

// graphRun: the program against a transaction whose OTHER inputs hold previous outputs - the way a wallet or a
// node keeps a transaction it verifies input by input:
//
//	others  "set": the caller put a script object and a value on every other input (an extended-format transaction);
//	        "shared": ONE script object on all the other inputs; "shared-with-checked": the very object that is the
//	        spent output's script of the checked input (outputs of one address spent together); "recorded": put there
//	        by Execute on those inputs; "some": every second one
//	own     the checked input already holds a previous output (the same object / an equal one / another script) or none
//	order   the other inputs are executed before, after, or before and after the checked one
//
// Everything reachable from the transaction is compared before / after every execution; each execution may record
// the output it is given on the input it checks and nothing else.
func graphRun(p *interpgen.Program, r *common.Rand) {
	after := inputsBehind(p)
	o := newOwnedRun(p, after)
	if o.tx == nil {
		return
	}
	others := []string{"set", "shared", "shared-with-checked", "recorded", "some"}[r.Intn(5)]
	own := []string{"none", "same-object", "equal", "another"}[r.Intn(4)]
	order := []string{"others-first", "checked-first", "both"}[r.Intn(3)]
	if len(o.tx.Inputs) == 1 {
		others = "none"
	}
	in := &graphInput{Program: p, After: after, Others: others, Own: own, Order: order}
	sharedObj := ownedScript([]byte{0x76, 0xa9, 0x14, 1, 2, 3, 4, 5, 6, 7, 8, 9, 10, 11, 12, 13, 14, 15, 16, 17, 18, 19, 20, 0x88, 0xac})
	otherPrev := map[int]*bt.Output{}
	for k, oi := range o.tx.Inputs {
		if k == o.idx {
			continue
		}
		otherPrev[k] = &bt.Output{Satoshis: uint64(500 + k), LockingScript: ownedScript(otherLock(k))}
		switch others {
		case "set":
			oi.PreviousTxScript, oi.PreviousTxSatoshis = ownedScript(otherLock(k)), uint64(500+k)
		case "shared":
			oi.PreviousTxScript, oi.PreviousTxSatoshis = sharedObj, 700
		case "shared-with-checked":
			oi.PreviousTxScript, oi.PreviousTxSatoshis = o.lock, 1000
		case "some":
			if k%2 == 0 {
				oi.PreviousTxScript, oi.PreviousTxSatoshis = ownedScript(otherLock(k)), uint64(500+k)
			}
		}
	}
	switch own {
	case "same-object":
		o.tx.Inputs[o.idx].PreviousTxScript, o.tx.Inputs[o.idx].PreviousTxSatoshis = o.lock, 1000
	case "equal":
		o.tx.Inputs[o.idx].PreviousTxScript, o.tx.Inputs[o.idx].PreviousTxSatoshis = ownedScript(p.Lock), 1000
	case "another":
		o.tx.Inputs[o.idx].PreviousTxScript, o.tx.Inputs[o.idx].PreviousTxSatoshis = ownedScript([]byte{0x51, 0x75, 0x52}), 31
	}
	in.Extended = common.Hex(o.tx.ExtendedBytes())
	// the other inputs, each with the output it spends: an execution of its own with everything watched
	runOthers := func(when string) bool {
		for k := range o.tx.Inputs {
			if k == o.idx {
				continue
			}
			oo := &ownedRun{p: &interpgen.Program{Lock: otherLock(k), Flags: o.p.Flags &^ (interpgen.FCleanStack | interpgen.FBip16)}, lock: otherPrev[k].LockingScript,
				unlock: o.tx.Inputs[k].UnlockingScript, tx: o.tx, prev: otherPrev[k], idx: k}
			chk := oo.watch(in)
			obs, msg := execOpts(oo.options(nil, nil))
			c.Tally("tx-graph/other-input/" + obs)
			if obs == "panic" {
				c.Violate("Engine.Execute/panic", fmt.Sprintf("%s, input %d: %s", when, k, msg), in)
				return false
			}
			if !chk.same(fmt.Sprintf("%s: execution of input %d", when, k)) {
				return false
			}
		}
		return true
	}
	whole := o.watch(in) // from before anything ran: nothing but records, ever
	sharedObjects := others == "shared" || others == "shared-with-checked" // kept until the checked input has run
	if others == "recorded" || (order != "checked-first" && !sharedObjects) {
		if !runOthers("before the checked input") {
			return
		}
	}
	check := o.watch(in)
	rec := &interpgen.Recorder{}
	obs, msg := execOpts(o.options(rec, nil))
	rec.CheckHeld()
	legacy := "fork-id-flag"
	if p.Flags&interpgen.FForkID == 0 {
		legacy = "no-fork-id-flag"
	}
	c.Tally("tx-graph/" + p.Kind + "/" + legacy + "/others-" + others + "/" + obs)
	if obs == "panic" {
		c.Violate("Engine.Execute/panic", msg, in)
		return
	}
	if !check.same("execution of the checked input") {
		return
	}
	// without a debugger, and once more: a second verification of the same input finds what the first one found
	obs2, msg2 := execOpts(o.options(nil, nil))
	if obs2 != obs {
		c.Violate("Engine.Execute/second-execution-over-the-same-objects-ends-differently", fmt.Sprintf("first %s (%s), second %s (%s)", obs, msg, obs2, msg2), in)
		return
	}
	if !check.same("second execution of the checked input") {
		return
	}
	if order == "checked-first" || order == "both" {
		if !runOthers("after the checked input") {
			return
		}
		obs3, msg3 := execOpts(o.options(nil, nil))
		if obs3 != obs {
			c.Violate("Engine.Execute/second-execution-over-the-same-objects-ends-differently", fmt.Sprintf("first %s (%s), after the other inputs were executed %s (%s)", obs, msg, obs3, msg3), in)
			return
		}
	}
	// over the whole history: every script object met at the start holds what it held; the serialisation is the same
	whole.scriptsSame("over the whole history")
	c.Case("", in, "G"+key(p)+others+own+order, rec.Snaps != nil)
}

func runTxGraph(r *common.Rand) {
	n := 300
	if c.Thorough() {
		n = 10000
	}
	build := func(p *interpgen.Program) *bt.Tx {
		if chk := interpgen.Build(p, nil).Tx.Bytes(); !bytes.Equal(chk, ownedTx(p, ownedScript(p.Unlock), 0).Bytes()) {
			panic("c08_owned: ownedTx no longer builds interpgen.Build's transaction")
		}
		return ownedTx(p, ownedScript(p.Unlock), inputsBehind(p))
	}
	sigReachWith(r, func(p *interpgen.Program) {
		q := *p
		q.Kind = "sig-reach"
		graphRun(&q, r)
	}, n, build)
	// junk signatures and signature-free programs against the same graphs (the run stops in front of the digest or
	// never asks for one: what apply and the stacks do to the graph)
	sigShapes(r, func(p *interpgen.Program) {
		if len(p.Unlock) < 4000 {
			graphRun(p, r)
		}
	}, n/4)
	for i := 0; i < n/4; i++ {
		p := aliasProgram(provenances[r.Intn(len(provenances))], transforms[r.Intn(len(transforms))], twinValues[r.Intn(len(twinValues))], []uint32{0, interpgen.FGenesis}[r.Intn(2)], r.Bool())
		p.HasTx, p.HasPrev, p.TxVersion, p.InSeq = true, r.Chance(80), 1, 0xffffffff
		p.ScriptsApart = r.Bool()
		p.ExtraIn, p.ExtraOut = r.Intn(3), r.Intn(3)
		p.Kind = "alias"
		graphRun(p.Fix(), r)
	}
}
