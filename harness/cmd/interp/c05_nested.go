package main

import (
	"bytes"
	"fmt"

	"verif/harness/interpgen"
)

// Round 9: opcodes with a rule of their own (disabled, VERIF / VERNOTIF, reserved / unknown, non-minimal pushes under
// MINIMALDATA, an oversize push, the operation count) placed where "the top conditional is true" and "the opcode is
// executed" (every enclosing branch taken, no OP_RETURN executed before it in this script) are independent of each
// other: IF / NOTIF / ELSE at depth 2 and 3 inside taken and non-taken branches, and after an executed OP_RETURN
// inside a conditional. Every program gets its verdict from the rules of the node's EvalScript written out below
// (one vector of branch values, fExec = no false value in it and no early return); a seed-rotating part is also
// evaluated by the model.

// nodeRuleVerdict: ok / err of unlock + lock under the era and MINIMALDATA, by the node's rules, for the alphabet of
// this family; known=false for anything else.
func nodeRuleVerdict(unlock, lock []byte, genesis, minimalData bool) (ok bool, divergent bool, known bool) {
	var st [][]byte
	maxElem, maxOps := 520, 500
	if genesis {
		maxElem, maxOps = 1<<31-1, 1<<31-1
	}
	for _, s := range [][]byte{unlock, lock} {
		var vfExec, vfElse []bool
		early, nOps := false, 0
	script:
		for i := 0; i < len(s); {
			op, opStart := s[i], i
			i++
			var data []byte
			switch {
			case op >= 1 && op <= 75:
				if i+int(op) > len(s) {
					return false, false, false
				}
				data, i = s[i:i+int(op)], i+int(op)
			case op == 0x4c || op == 0x4d:
				w := int(op) - 0x4b
				if i+w > len(s) {
					return false, false, false
				}
				l := int(s[i])
				if w == 2 {
					l |= int(s[i+1]) << 8
				}
				i += w
				if i+l > len(s) {
					return false, false, false
				}
				data, i = s[i:i+l], i+l
			case op == 0x4e:
				return false, false, false
			}
			fExec := !early || op == 0x6a
			for _, v := range vfExec {
				fExec = fExec && v
			}
			if (len(vfExec) == 0 || vfExec[len(vfExec)-1]) != fExec && (op < 0x63 || op > 0x68) {
				divergent = true
			}
			if len(data) > maxElem {
				return false, divergent, true
			}
			if op > 0x60 {
				if nOps++; nOps > maxOps {
					return false, divergent, true
				}
			}
			if (op == 0x8d || op == 0x8e) && (!genesis || fExec) {
				return false, divergent, true
			}
			if (op == 0x65 || op == 0x66) && !genesis {
				return false, divergent, true
			}
			if !fExec && (op < 0x63 || op > 0x68) {
				continue
			}
			switch {
			case op <= 0x4e:
				if op == 0 {
					data = []byte{}
				}
				if minimalData && !bytes.Equal(interpgen.Push(data), s[opStart:i]) {
					return false, divergent, true
				}
				st = append(st, data)
			case op == 0x4f:
				st = append(st, []byte{0x81})
			case op >= 0x51 && op <= 0x60:
				st = append(st, []byte{op - 0x50})
			case op == 0x61:
			case op == 0x63 || op == 0x64:
				v := false
				if fExec {
					if len(st) == 0 {
						return false, divergent, true
					}
					v = truthy(st[len(st)-1]) == (op == 0x63)
					st = st[:len(st)-1]
				}
				vfExec, vfElse = append(vfExec, v), append(vfElse, false)
			case op == 0x65 || op == 0x66:
				if fExec {
					return false, divergent, true
				}
			case op == 0x67:
				if len(vfExec) == 0 || vfElse[len(vfElse)-1] && genesis {
					return false, divergent, true
				}
				vfExec[len(vfExec)-1] = !vfExec[len(vfExec)-1]
				vfElse[len(vfElse)-1] = true
			case op == 0x68:
				if len(vfExec) == 0 {
					return false, divergent, true
				}
				vfExec, vfElse = vfExec[:len(vfExec)-1], vfElse[:len(vfElse)-1]
			case op == 0x6a:
				if !genesis {
					return false, divergent, true
				}
				if len(vfExec) == 0 {
					vfExec = nil
					break script
				}
				early = true
			case op == 0x75:
				if len(st) == 0 {
					return false, divergent, true
				}
				st = st[:len(st)-1]
			case op == 0x50 || op == 0x62 || op == 0x89 || op == 0x8a || op >= 0xba:
				return false, divergent, true
			default:
				return false, false, false
			}
		}
		if len(vfExec) != 0 {
			return false, divergent, true
		}
	}
	return len(st) > 0 && truthy(st[len(st)-1]), divergent, true
}

func nestedSpecials() {
	sel := int(c.Seed % 2)
	n := 0
	for _, sp := range interpgen.NestedSpecials() {
		names, locks, unlocks := interpgen.NestedShapes(sp.Code)
		for k := range locks {
			// depth 3 only for the core specials
			if names[k] == "d3" && !sp.Core && !c.Thorough() {
				continue
			}
			for _, era := range []uint32{0, interpgen.FGenesis} {
				p := (&interpgen.Program{Unlock: unlocks[k], Lock: locks[k], Flags: era | sp.Flags, Kind: "nested-special/" + sp.Name + "/" + names[k]}).Fix()
				n++
				want, divergent, known := nodeRuleVerdict(p.Unlock, p.Lock, era != 0, p.Flags&interpgen.FMinimalData != 0)
				toModel := c.Thorough() || !known || len(p.Unlock) != 0 || n%16 == 0
				if divergent && len(sp.Code) < 100 {
					// the special stands where the top conditional and "executed" differ: the model sees a seed-rotating
					// half of the depth-2 and early-return programs and a quarter of the depth-3 ones
					toModel = toModel || names[k] != "d3" && n/2%2 == sel || names[k] == "d3" && n/2%4 == sel
				}
				var res interpgen.Result
				if toModel {
					res = emit(p)
				} else {
					res = emitNoModel(p)
				}
				if !known {
					c.Tally("nested-special/no-reference")
					continue
				}
				if want != (res.Obs == "ok") {
					c.Violate("Engine.Execute/special-opcode-rule-depends-on-the-top-conditional-instead-of-execution",
						fmt.Sprintf("verdict %s (%s); by the script rules (an opcode is executed when no enclosing branch is false and no OP_RETURN ran before it in this script; disabled opcodes fail everywhere before Genesis and only when executed after it) the verdict is ok=%v", res.Obs, res.Err, want), p)
				}
			}
		}
	}
}
