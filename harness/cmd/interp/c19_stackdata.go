package main

import (
	"bytes"
	"fmt"
	"strings"

	"github.com/libsv/go-bt/v2/bscript/interpreter"
	"github.com/libsv/go-bt/v2/bscript/interpreter/debug"

	"verif/harness/common"
	"verif/harness/interpgen"
)

// The DATA ARGUMENT of the stack callbacks (round 8).
//
// BeforeStackPush(state, data), AfterStackPush(state, data) and AfterStackPop(state, data) hand a debugger, besides the
// snapshot, the item concerned. The lifecycle automaton (c19.go, model/DebugStack.v) says WHERE these callbacks may
// occur and that they come in pairs; nothing so far said WHAT they carry. A debugger that follows the stacks by the
// callbacks alone (the documented use of the hooks) relies on this:
//
//	(1) the item AfterStackPush reports is the item BeforeStackPush announced for the same push;
//	(2) between the State shown to BeforeStackPush and the State shown to AfterStackPush exactly one of the two
//	    stacks (data or alt) grew, by exactly one item, everything else on both stacks unchanged, and the item
//	    reported is the new top of THAT stack;
//	(3) between the State shown to BeforeStackPop and the State shown to AfterStackPop exactly one of the two stacks
//	    shrank, by exactly its top item, everything else unchanged, and AfterStackPop reports that item;
//	(4) a BeforeStackPop with no AfterStackPop (the pop failed) saw an empty stack and ends the execution of the
//	    opcode; every other Before callback has its After callback next, nothing in between; the counts pair up;
//	(5) both callbacks of a pair show the same position in the scripts.
//
// stackWatcher is a read-only debugger stating (1)-(5) on the fly, keeping only the open Before callback. It is run on
// every program of runC19 twice: attached directly (interpreter.WithDebugger) and as handlers of the library's own
// debug.NewDebugger object, two handlers on each of the four stack hooks (each handler of one callback must be shown the
// same State contents and the same data). The observed stack events of small runs are in addition written out as a
// Coq term and decided once more by coq/model/DebugStackData.v [data_ok] (corr/C19.v check_data), the checker that is
// proved to accept every trace of the instrumented two-stack machine.

type stackShown struct {
	ev         string
	data       []byte
	d, a       [][]byte
	sIdx, oIdx int
}

type stackWatcher struct {
	open     *stackShown // a Before callback waiting for its After callback
	last     *stackShown // what handler 0 of the current callback was shown (fan-out: compared with handler 1)
	trace    []string
	site     string // first violation
	what     string
	nbp, nap int
	nbq, naq int
	nfail    int
	pushAlt  int // pushes seen on the alt stack while the data stack was not empty
	pushData int
	popAlt   int
	popData  int
	// events: the stack events of the run for the Coq side (kept only while small)
	events   []string
	evBytes  int
	tooLarge bool
}

func sdCpStack(x [][]byte) [][]byte {
	out := make([][]byte, len(x))
	for i := range x {
		out[i] = append([]byte{}, x[i]...)
	}
	return out
}

func sdEqStack(a, b [][]byte) bool {
	if len(a) != len(b) {
		return false
	}
	for i := range a {
		if !bytes.Equal(a[i], b[i]) {
			return false
		}
	}
	return true
}

func (w *stackWatcher) flag(site, what string) {
	if w.site == "" {
		w.site, w.what = site, what
	}
}

func sdHexStack(st [][]byte) string {
	var sb strings.Builder
	sb.WriteByte('[')
	for i, it := range st {
		if i > 0 {
			sb.WriteByte(' ')
		}
		fmt.Fprintf(&sb, "%x", it)
		if len(it) == 0 {
			sb.WriteString("<>")
		}
		if sb.Len() > 160 {
			sb.WriteString(" …")
			break
		}
	}
	sb.WriteByte(']')
	return sb.String()
}

// sdCoqStack: top FIRST (model/DebugStackData.v keeps the top of a stack at the head of the list)
func sdCoqStack(st [][]byte) string {
	var sb strings.Builder
	sb.WriteByte('[')
	for i := len(st) - 1; i >= 0; i-- {
		fmt.Fprintf(&sb, "unhex \"%x\"", st[i])
		if i > 0 {
			sb.WriteByte(';')
		}
	}
	sb.WriteByte(']')
	return sb.String()
}

func (w *stackWatcher) coqEvent(cur *stackShown) {
	if w.tooLarge {
		return
	}
	var s string
	switch cur.ev {
	case "bp":
		s = fmt.Sprintf("SBeforePush (mkStacks %s %s) (unhex \"%x\")", sdCoqStack(cur.d), sdCoqStack(cur.a), cur.data)
	case "ap":
		s = fmt.Sprintf("SAfterPush (mkStacks %s %s) (unhex \"%x\")", sdCoqStack(cur.d), sdCoqStack(cur.a), cur.data)
	case "bq":
		s = fmt.Sprintf("SBeforePop (mkStacks %s %s)", sdCoqStack(cur.d), sdCoqStack(cur.a))
	case "aq":
		s = fmt.Sprintf("SAfterPop (mkStacks %s %s) (unhex \"%x\")", sdCoqStack(cur.d), sdCoqStack(cur.a), cur.data)
	default:
		// lifecycle callbacks: only that one occurred (it separates stack events); runs of them are collapsed
		if n := len(w.events); n > 0 && w.events[n-1] == "SMark" {
			return
		}
		s = "SMark"
	}
	w.events = append(w.events, s)
	w.evBytes += len(s)
	if w.evBytes > 6000 {
		w.tooLarge, w.events = true, nil
	}
}

// on: handler h (0 when attached directly; 0 and 1 through the fan-out object) of callback ev is shown s and data.
func (w *stackWatcher) on(ev string, h int, s *interpreter.State, data []byte) {
	if s == nil {
		w.flag("Debugger/nil-State", ev+": nil State")
		return
	}
	isStack := ev == "bp" || ev == "ap" || ev == "bq" || ev == "aq"
	var cur *stackShown
	if isStack {
		cur = &stackShown{ev: ev, data: append([]byte{}, data...), d: sdCpStack(s.DataStack), a: sdCpStack(s.AltStack), sIdx: s.ScriptIdx, oIdx: s.OpcodeIdx}
	} else {
		cur = &stackShown{ev: ev}
	}
	if h > 0 {
		// the second handler of one callback: shown what the first was shown (the handlers only read)
		l := w.last
		if l == nil || l.ev != ev {
			w.flag("debug.NewDebugger/second-handler-without-the-first", fmt.Sprintf("second handler of %s called, the first handler's last call was %v", ev, l))
			return
		}
		if isStack && (!bytes.Equal(l.data, cur.data) || !sdEqStack(l.d, cur.d) || !sdEqStack(l.a, cur.a) || l.sIdx != cur.sIdx || l.oIdx != cur.oIdx) {
			w.flag("debug.NewDebugger/handlers-of-one-stack-callback-shown-different-things",
				fmt.Sprintf("%s: first handler shown data %x, stacks %s %s; second handler data %x, stacks %s %s", ev, l.data, sdHexStack(l.d), sdHexStack(l.a), cur.data, sdHexStack(cur.d), sdHexStack(cur.a)))
		}
		return
	}
	w.last = cur
	w.trace = append(w.trace, ev)
	w.coqEvent(cur)
	o := w.open
	switch ev {
	case "bp", "bq":
		if o != nil {
			w.flag("Debugger/stack-callback-inside-an-open-stack-callback", fmt.Sprintf("%s while %s is waiting for its After callback", ev, o.ev))
		}
		if ev == "bp" {
			w.nbp++
		} else {
			w.nbq++
		}
		w.open = cur
	case "ap":
		w.nap++
		w.open = nil
		if o == nil || o.ev != "bp" {
			w.flag("Debugger/AfterStackPush-without-BeforeStackPush", "AfterStackPush not directly preceded by BeforeStackPush")
			return
		}
		w.checkPush(o, cur)
	case "aq":
		w.naq++
		w.open = nil
		if o == nil || o.ev != "bq" {
			w.flag("Debugger/AfterStackPop-without-BeforeStackPop", "AfterStackPop not directly preceded by BeforeStackPop")
			return
		}
		w.checkPop(o, cur)
	default:
		if o != nil {
			w.open = nil
			if o.ev == "bq" && ev == "AE" {
				// the pop failed: the opcode errors, the execution ends. Only a pop from an empty stack fails.
				w.nfail++
				if len(o.d) != 0 && len(o.a) != 0 {
					w.flag("Debugger/failed-pop-with-items-on-both-stacks", fmt.Sprintf("BeforeStackPop saw data stack %s and alt stack %s, no AfterStackPop followed", sdHexStack(o.d), sdHexStack(o.a)))
				}
			} else {
				w.flag("Debugger/stack-callback-pair-interrupted", fmt.Sprintf("%s follows %s: the After callback of the pair is missing", ev, o.ev))
			}
		}
	}
}

func (w *stackWatcher) checkPush(b, a *stackShown) {
	if b.sIdx != a.sIdx || b.oIdx != a.oIdx {
		w.flag("Debugger/stack-callback-pair-at-two-positions", fmt.Sprintf("BeforeStackPush at %d:%d, AfterStackPush at %d:%d", b.sIdx, b.oIdx, a.sIdx, a.oIdx))
	}
	if !bytes.Equal(b.data, a.data) {
		w.flag("Debugger/AfterStackPush-reports-another-item-than-BeforeStackPush-announced",
			fmt.Sprintf("push %d of the run: BeforeStackPush announced %x, AfterStackPush reports %x (stacks before: data %s alt %s; after: data %s alt %s)", w.nap, b.data, a.data, sdHexStack(b.d), sdHexStack(b.a), sdHexStack(a.d), sdHexStack(a.a)))
	}
	grewD := len(a.d) == len(b.d)+1 && sdEqStack(a.d[:len(b.d)], b.d) && sdEqStack(a.a, b.a)
	grewA := len(a.a) == len(b.a)+1 && sdEqStack(a.a[:len(b.a)], b.a) && sdEqStack(a.d, b.d)
	var top []byte
	var which string
	switch {
	case grewD:
		top, which = a.d[len(a.d)-1], "data"
		w.pushData++
	case grewA:
		top, which = a.a[len(a.a)-1], "alt"
		if len(a.d) > 0 {
			w.pushAlt++
		}
	default:
		w.flag("Debugger/push-callbacks-do-not-bracket-one-push",
			fmt.Sprintf("push %d of the run: between BeforeStackPush (data %s alt %s) and AfterStackPush (data %s alt %s) it is not the case that one stack grew by one item and nothing else changed", w.nap, sdHexStack(b.d), sdHexStack(b.a), sdHexStack(a.d), sdHexStack(a.a)))
		return
	}
	if !bytes.Equal(a.data, top) {
		w.flag("Debugger/AfterStackPush-does-not-report-the-item-pushed",
			fmt.Sprintf("push %d of the run: the %s stack grew by %x, AfterStackPush reports %x (BeforeStackPush announced %x)", w.nap, which, top, a.data, b.data))
	}
	if !bytes.Equal(b.data, top) {
		w.flag("Debugger/BeforeStackPush-does-not-announce-the-item-pushed",
			fmt.Sprintf("push %d of the run: BeforeStackPush announced %x, the %s stack grew by %x", w.nap, b.data, which, top))
	}
}

func (w *stackWatcher) checkPop(b, a *stackShown) {
	if b.sIdx != a.sIdx || b.oIdx != a.oIdx {
		w.flag("Debugger/stack-callback-pair-at-two-positions", fmt.Sprintf("BeforeStackPop at %d:%d, AfterStackPop at %d:%d", b.sIdx, b.oIdx, a.sIdx, a.oIdx))
	}
	shrankD := len(b.d) == len(a.d)+1 && sdEqStack(b.d[:len(a.d)], a.d) && sdEqStack(a.a, b.a)
	shrankA := len(b.a) == len(a.a)+1 && sdEqStack(b.a[:len(a.a)], a.a) && sdEqStack(a.d, b.d)
	var top []byte
	var which string
	switch {
	case shrankD:
		top, which = b.d[len(b.d)-1], "data"
		w.popData++
	case shrankA:
		top, which = b.a[len(b.a)-1], "alt"
		w.popAlt++
	default:
		w.flag("Debugger/pop-callbacks-do-not-bracket-one-pop",
			fmt.Sprintf("pop %d of the run: between BeforeStackPop (data %s alt %s) and AfterStackPop (data %s alt %s) it is not the case that one stack lost its top item and nothing else changed", w.naq, sdHexStack(b.d), sdHexStack(b.a), sdHexStack(a.d), sdHexStack(a.a)))
		return
	}
	if !bytes.Equal(a.data, top) {
		w.flag("Debugger/AfterStackPop-does-not-report-the-item-popped",
			fmt.Sprintf("pop %d of the run: the %s stack lost %x, AfterStackPop reports %x", w.naq, which, top, a.data))
	}
}

// finish: the counts pair up and nothing is left open
func (w *stackWatcher) finish() {
	if w.open != nil {
		w.flag("Debugger/stack-callback-pair-interrupted", "the run ends after "+w.open.ev+" with no After callback")
	}
	if w.nbp != w.nap || w.nbq != w.naq+w.nfail {
		w.flag("Debugger/stack-callback-counts-do-not-pair-up", fmt.Sprintf("BeforeStackPush %d AfterStackPush %d; BeforeStackPop %d AfterStackPop %d failed pops %d", w.nbp, w.nap, w.nbq, w.naq, w.nfail))
	}
}

// attached directly: the Debugger interface
type directWatcher struct{ w *stackWatcher }

func (d directWatcher) BeforeExecute(s *interpreter.State)       { d.w.on("BE", 0, s, nil) }
func (d directWatcher) AfterExecute(s *interpreter.State)        { d.w.on("AE", 0, s, nil) }
func (d directWatcher) BeforeStep(s *interpreter.State)          { d.w.on("BS", 0, s, nil) }
func (d directWatcher) AfterStep(s *interpreter.State)           { d.w.on("AS", 0, s, nil) }
func (d directWatcher) BeforeExecuteOpcode(s *interpreter.State) { d.w.on("BO", 0, s, nil) }
func (d directWatcher) AfterExecuteOpcode(s *interpreter.State)  { d.w.on("AO", 0, s, nil) }
func (d directWatcher) BeforeScriptChange(s *interpreter.State)  { d.w.on("BC", 0, s, nil) }
func (d directWatcher) AfterScriptChange(s *interpreter.State)   { d.w.on("AC", 0, s, nil) }
func (d directWatcher) AfterSuccess(s *interpreter.State)        { d.w.on("OK", 0, s, nil) }
func (d directWatcher) AfterError(s *interpreter.State, _ error) { d.w.on("ER", 0, s, nil) }
func (d directWatcher) BeforeStackPush(s *interpreter.State, b []byte) {
	d.w.on("bp", 0, s, b)
}
func (d directWatcher) AfterStackPush(s *interpreter.State, b []byte) { d.w.on("ap", 0, s, b) }
func (d directWatcher) BeforeStackPop(s *interpreter.State)           { d.w.on("bq", 0, s, nil) }
func (d directWatcher) AfterStackPop(s *interpreter.State, b []byte)  { d.w.on("aq", 0, s, b) }

// through the library's own debugger object: one handler on every lifecycle hook, two on each stack hook
func fanWatcher(w *stackWatcher) debug.DefaultDebugger {
	d := debug.NewDebugger()
	st := func(n string, h int) debug.ThreadStateFunc {
		return func(s *interpreter.State) { w.on(n, h, s, nil) }
	}
	sk := func(n string, h int) debug.StackFunc {
		return func(s *interpreter.State, b []byte) { w.on(n, h, s, b) }
	}
	// the stack hooks first and last, the lifecycle hooks in between, After hooks before their Before hooks: an Attach
	// call that lands in a neighbouring hook's list shows up as a handler called at the wrong callback
	d.AttachAfterStackPop(sk("aq", 0))
	d.AttachAfterStackPush(sk("ap", 0))
	d.AttachBeforeStackPop(st("bq", 0))
	d.AttachBeforeStackPush(sk("bp", 0))
	d.AttachAfterError(func(s *interpreter.State, _ error) { w.on("ER", 0, s, nil) })
	d.AttachAfterSuccess(st("OK", 0))
	d.AttachAfterScriptChange(st("AC", 0))
	d.AttachBeforeScriptChange(st("BC", 0))
	d.AttachAfterExecuteOpcode(st("AO", 0))
	d.AttachBeforeExecuteOpcode(st("BO", 0))
	d.AttachAfterStep(st("AS", 0))
	d.AttachBeforeStep(st("BS", 0))
	d.AttachAfterExecute(st("AE", 0))
	d.AttachBeforeExecute(st("BE", 0))
	d.AttachBeforeStackPush(sk("bp", 1))
	d.AttachBeforeStackPop(st("bq", 1))
	d.AttachAfterStackPush(sk("ap", 1))
	d.AttachAfterStackPop(sk("aq", 1))
	return d
}

var sdPrograms, sdPushAlt, sdPushData, sdPopAlt, sdPopData, sdFailed, sdCoq int

// stackDataCheck: called by emit19 for every program; rec is the run with the passive Recorder.
func stackDataCheck(p *interpgen.Program, plain, plainMsg string, rec interpgen.Result) *stackWatcher {
	var first *stackWatcher
	for mode, name := range []string{"interpreter.WithDebugger", "debug.NewDebugger"} {
		w := &stackWatcher{}
		var dbg interpreter.Debugger = directWatcher{w}
		if mode == 1 {
			dbg = fanWatcher(w)
		}
		res := interpgen.RunBuilt(interpgen.Build(p, dbg), &interpgen.Recorder{})
		w.finish()
		if res.Obs == "panic" {
			c.Violate("Engine.Execute/panic", "with a debugger reading the stack callbacks' data ("+name+"): "+res.Err, p)
		}
		if res.Obs != plain || res.Err != plainMsg {
			c.Violate("Debugger/recording-changes-verdict-or-error", fmt.Sprintf("(%s, reading the stack callbacks' data) %s %q vs %s %q", name, plain, plainMsg, res.Obs, res.Err), p)
		}
		if strings.Join(w.trace, " ") != strings.Join(rec.Trace, " ") {
			c.Violate("Debugger/two-passive-debuggers-see-different-callbacks", fmt.Sprintf("(%s) %s; the recording debugger saw: %s", name, trunc19(strings.Join(w.trace, " ")), trunc19(strings.Join(rec.Trace, " "))), p)
		}
		if w.site != "" {
			c.Violate(w.site, "("+name+") "+w.what, p)
		}
		if mode == 0 {
			first = w
			sdPrograms++
			sdPushAlt += w.pushAlt
			sdPushData += w.pushData
			sdPopAlt += w.popAlt
			sdPopData += w.popData
			sdFailed += w.nfail
		}
	}
	return first
}

// ---- generator: stack traffic -------------------------------------------------------------------------------------
//
// Programs whose business is moving DISTINCT items between and within the two stacks, so that at almost every push and
// pop the item concerned, the top of the data stack and the top of the alt stack are three different byte strings:
// pushes of items no two of which are equal, OP_TOALTSTACK / OP_FROMALTSTACK, the whole stack-manipulation group
// (single pushes, multi-item copies, pops followed by pushes, removals below the top), OP_CAT / OP_SPLIT / OP_SIZE /
// OP_DEPTH (results nobody pushed), ending with items left on the alt stack (dropped at the end of a script, also of
// the unlocking script, also by a top-level OP_RETURN) — in both eras, also as the redeem script of a P2SH output (the
// data stack is emptied and refilled from the saved stack through the same callbacks).

type trafficOp struct {
	op        byte
	needD     int // items needed on the data stack
	needA     int
	dD, dA    int // change of depth
	needIndex bool
}

var trafficOps = []trafficOp{
	{0x6b, 1, 0, -1, 1, false}, {0x6b, 1, 0, -1, 1, false}, {0x6b, 1, 0, -1, 1, false}, // OP_TOALTSTACK (weighted)
	{0x6c, 0, 1, 1, -1, false}, {0x6c, 0, 1, 1, -1, false}, // OP_FROMALTSTACK
	{0x76, 1, 0, 1, 0, false},  // DUP
	{0x7c, 2, 0, 0, 0, false},  // SWAP
	{0x7b, 3, 0, 0, 0, false},  // ROT
	{0x7d, 2, 0, 1, 0, false},  // TUCK
	{0x78, 2, 0, 1, 0, false},  // OVER
	{0x6e, 2, 0, 2, 0, false},  // 2DUP
	{0x6f, 3, 0, 3, 0, false},  // 3DUP
	{0x70, 4, 0, 2, 0, false},  // 2OVER
	{0x71, 6, 0, 0, 0, false},  // 2ROT
	{0x72, 4, 0, 0, 0, false},  // 2SWAP
	{0x73, 1, 0, 1, 0, false},  // IFDUP
	{0x74, 0, 0, 1, 0, false},  // DEPTH
	{0x75, 1, 0, -1, 0, false}, // DROP
	{0x6d, 2, 0, -2, 0, false}, // 2DROP
	{0x77, 2, 0, -1, 0, false}, // NIP
	{0x79, 2, 0, 0, 0, true},   // PICK
	{0x7a, 2, 0, -1, 0, true},  // ROLL
	{0x82, 1, 0, 1, 0, false},  // SIZE
	{0x7e, 2, 0, -1, 0, false}, // CAT
}

// trafficItem: the items pushed are pairwise distinct within a program (counter *next), 1..3 bytes, never a small
// number (so that no minimal-push rule gets in the way and no two of them are equal)
func trafficItem(next *int) []byte {
	*next++
	k := *next
	it := []byte{byte(0x20 + k%0x50)}
	for j := 0; j < k%3; j++ {
		it = append(it, byte(0xa0+k+j))
	}
	return it
}

// trafficBody: n operations, mostly applicable to the depths *d / *a reached so far
func trafficBody(r *common.Rand, n int, d, a *int, next *int) []byte {
	var s []byte
	item := func() []byte { return trafficItem(next) }
	for i := 0; i < n; i++ {
		if *d < 2 || r.Chance(30) {
			s = append(s, interpgen.Push(item())...)
			*d++
			continue
		}
		t := trafficOps[r.Intn(len(trafficOps))]
		if (*d < t.needD+sdB2i(t.needIndex) || *a < t.needA) && !r.Chance(6) {
			// not applicable at these depths: bring an item back from the alt stack or push one instead
			if *a > 0 && r.Chance(50) {
				s = append(s, 0x6c)
				*a--
			} else {
				s = append(s, interpgen.Push(item())...)
			}
			*d++
			continue
		}
		if t.needIndex {
			s = append(s, interpgen.Push(interpgen.NumEnc(int64(r.Intn(*d-1))))...)
		}
		s = append(s, t.op)
		*d += t.dD
		*a += t.dA
		if *d < 0 {
			*d = 0
		}
		if *a < 0 {
			*a = 0
		}
	}
	return s
}

func sdB2i(b bool) int {
	if b {
		return 1
	}
	return 0
}

func stackTraffic(r *common.Rand, maxOps int) *interpgen.Program {
	p := &interpgen.Program{Kind: "stack-traffic"}
	if r.Chance(55) {
		p.Flags |= interpgen.FGenesis
	}
	if r.Chance(12) {
		p.Flags |= interpgen.FMinimalData
	}
	next := r.Intn(40)
	d, a := 0, 0
	switch shape := r.Intn(10); {
	case shape < 2: // pay-to-script-hash: items under the redeem script, the redeem script does the traffic
		p.Kind = "stack-traffic/p2sh"
		p.Flags = interpgen.FBip16
		if r.Chance(25) {
			p.Flags |= interpgen.FCleanStack
		}
		var un []byte
		for i := 1 + r.Intn(4); i > 0; i-- {
			un = append(un, interpgen.Push(trafficItem(&next))...) // the unlocking script of a P2SH spend is push only
			d++
		}
		redeem := trafficBody(r, 2+r.Intn(maxOps), &d, &a, &next)
		if r.Chance(70) {
			redeem = append(redeem, 0x51)
		}
		p.Unlock = append(un, interpgen.Push(redeem)...)
		p.Lock = append(append([]byte{0xa9, 0x14}, interpgen.Hash160(redeem)...), 0x87)
	default:
		nu := r.Intn(maxOps)
		if shape < 5 {
			nu = r.Intn(4)
		}
		p.Unlock = trafficBody(r, nu, &d, &a, &next)
		if p.Flags&interpgen.FGenesis != 0 && r.Chance(15) {
			p.Unlock = append(p.Unlock, 0x6a) // top-level OP_RETURN ends the unlocking script: its alt stack is dropped
		}
		a = 0 // the alt stack does not survive the script
		p.Lock = trafficBody(r, 1+r.Intn(maxOps), &d, &a, &next)
		switch r.Intn(6) {
		case 0:
			p.Lock = append(p.Lock, 0x51)
		case 1:
			if p.Flags&interpgen.FGenesis != 0 {
				p.Lock = append(p.Lock, 0x51, 0x6a)
			}
		case 2:
			p.Lock = append(p.Lock, 0x6b, 0x51) // one more item for the end-of-script drop
		}
	}
	return p.Fix()
}

// emitStackData: the observed stack events of a run as a case of corr/C19.v check_data (model/DebugStackData.v)
func emitStackData(p *interpgen.Program, w *stackWatcher) {
	if w == nil || w.tooLarge || len(w.events) == 0 {
		return
	}
	sdCoq++
	c.Case("mkCase19D ["+strings.Join(w.events, "; ")+"]", p, "stackdata/"+key(p), w.nap+w.naq > 0)
}

var sdProgs []*interpgen.Program
var sdN int

// runC19StackTraffic: called by runC19 before the fan-out part (cases of type case19).
func runC19StackTraffic() {
	r := common.NewRand(c.Seed ^ 0x57ac4da7a)
	n, maxOps := 260, 10
	if c.Thorough() {
		n, maxOps = 6000, 30
	}
	var progs []*interpgen.Program
	for i := 0; i < n; i++ {
		progs = append(progs, stackTraffic(r, maxOps))
	}
	// a fixed core: each way an item gets onto / off the alt stack with other items on the data stack, in both eras
	for _, b := range []struct{ u, l []byte }{
		{[]byte{0x01, 0x21, 0x01, 0x22}, []byte{0x6b, 0x6c, 0x75}},                         // to alt and back
		{[]byte{0x01, 0x21, 0x01, 0x22, 0x01, 0x23}, []byte{0x6b, 0x6b, 0x6c, 0x6c, 0x87}}, // two down, two back
		{[]byte{0x01, 0x21, 0x01, 0x22, 0x6b}, []byte{0x01, 0x23}},                         // left on the alt stack at the end of the unlocking script
		{[]byte{0x01, 0x21}, []byte{0x01, 0x22, 0x01, 0x23, 0x6b, 0x6b}},                   // two items dropped at the end of the run
		{[]byte{0x01, 0x21}, []byte{0x01, 0x22, 0x6b, 0x6a}},                               // dropped by the early return
		{[]byte{0x01, 0x21, 0x01, 0x22}, []byte{0x7d, 0x6b, 0x7c, 0x6c, 0x7e, 0x82}},       // TUCK, SWAP, CAT, SIZE around it
		{[]byte{}, []byte{0x6c}},                 // pop from the empty alt stack
		{[]byte{0x01, 0x21}, []byte{0x6b, 0x6b}}, // pop from the empty data stack, alt stack not empty
	} {
		for _, fl := range []uint32{0, interpgen.FGenesis} {
			progs = append(progs, (&interpgen.Program{Unlock: b.u, Lock: b.l, Flags: fl, Kind: "stack-traffic/core"}).Fix())
		}
	}
	for _, p := range progs {
		emit19(p)
	}
	sdProgs, sdN = progs, n
}

// runC19StackDataCoq: called at the end of runC19 (cases of type case19d).
func runC19StackDataCoq() {
	progs, n := sdProgs, sdN
	nCoq := 120
	if c.Thorough() {
		nCoq = 1500
	}
	// the cases so far are of type case19 (or case19f); what follows is of type case19d, checked by check_data
	c.Weigh(c.ShardBytes/2 + 1)
	c.SetHeader(strings.Replace(header, "corr.C05.", "corr.C05 model.DebugStackData corr.C19.", 1) + "Definition mismatches := corr.C19.mismatches_data.\n")
	rr := common.NewRand(c.Seed) // the program stream of runC19
	maxLen := 12
	if c.Thorough() {
		maxLen = 40
	}
	emitD := func(p *interpgen.Program) {
		w := &stackWatcher{}
		interpgen.RunBuilt(interpgen.Build(p, directWatcher{w}), &interpgen.Recorder{})
		emitStackData(p, w)
	}
	for i, p := range progs {
		if i < nCoq || p.Kind == "stack-traffic/core" {
			emitD(p)
		}
	}
	for i := 0; i < nCoq/2; i++ {
		emitD(interpgen.Random(rr, maxLen))
	}
	for i := 0; i < nCoq/6; i++ {
		emitD(interpgen.P2SH(rr))
	}
	c.Stats.Extra["stack_callback_data_programs"] = sdPrograms
	c.Stats.Extra["stack_callback_data_pushes_on_data_stack"] = sdPushData
	c.Stats.Extra["stack_callback_data_pushes_on_alt_stack_with_items_on_data_stack"] = sdPushAlt
	c.Stats.Extra["stack_callback_data_pops_from_data_stack"] = sdPopData
	c.Stats.Extra["stack_callback_data_pops_from_alt_stack"] = sdPopAlt
	c.Stats.Extra["stack_callback_data_failed_pops"] = sdFailed
	c.Stats.Extra["stack_callback_data_runs_decided_in_coq"] = sdCoq
	c.Stats.Rule += fmt.Sprintf(". Data argument of the stack callbacks (round 8): every program is run twice more with a read-only debugger (attached directly, and as handlers of debug.NewDebugger with two handlers per stack hook) that compares, for every push, the item BeforeStackPush announced, the item AfterStackPush reports and the new top of the one stack (data or alt) that grew by one item between the two States, for every pop the item AfterStackPop reports with the top of the one stack that shrank, requires a failed pop to have seen an empty stack, and the Before/After counts to pair up; a stack-traffic family (%d programs + a fixed core: pairwise distinct items moved between and within both stacks by the whole stack-manipulation group, alt-stack leftovers dropped at script ends and early returns, also as P2SH redeem scripts) makes the item, the data top and the alt top differ; the stack events of %d small runs are decided again inside Coq by model/DebugStackData.v data_ok (corr/C19.v check_data)", n, sdCoq)
}
