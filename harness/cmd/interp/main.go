// interp: harness for the interpreter properties. -prop C05 (equivalence), C07 (totality),
// C08 (no side effects / aliasing), C19 (debugger non-intrusive). All run programs through the
// implementation; the Coq model (model/Interp.v) is evaluated on the same programs.
package main

import (
	"bytes"
	"fmt"
	"strings"

	"verif/harness/common"
	"verif/harness/interpgen"
)

const header = `From Coq Require Import String List NArith ZArith.
From Coq Require Import Strings.Byte.
From GoBT Require Import lib.Bytes lib.Hex model.Interp corr.C05.
Import ListNotations. Local Open Scope N_scope. Local Open Scope string_scope.
`

var c *common.Ctx

// wrapProg wraps a corr.C05.case term into the case type of the property being run.
var wrapProg = func(s string) string { return s }

func key(p *interpgen.Program) string {
	return p.UnlockHex + "/" + p.LockHex + fmt.Sprint(p.Flags, p.HasTx, p.HasPrev, p.TxLock, p.TxVersion, p.InSeq)
}

// emit runs one program with a recording debugger, states the Go-level predicates shared by all
// four properties and writes the Coq case.
func emit(p *interpgen.Program) interpgen.Result {
	rec := &interpgen.Recorder{}
	b := interpgen.Build(p, rec)
	var txBefore []byte
	if b.Tx != nil {
		txBefore = b.Tx.Bytes()
	}
	res := interpgen.RunBuilt(b, rec)
	c.Tally(p.Kind + "/" + res.Obs)
	// caller-owned buffers are untouched (C08, first sentence)
	if !bytes.Equal(*b.Lock, p.Lock) {
		c.Violate("Engine.Execute/caller-locking-script-modified", fmt.Sprintf("%x -> %x", p.Lock, []byte(*b.Lock)), p)
	}
	if !bytes.Equal(*b.Unlock, p.Unlock) {
		c.Violate("Engine.Execute/caller-unlocking-script-modified", fmt.Sprintf("%x -> %x", p.Unlock, []byte(*b.Unlock)), p)
	}
	if b.Tx != nil && !bytes.Equal(b.Tx.Bytes(), txBefore) {
		c.Violate("Engine.Execute/transaction-serialisation-modified", "tx bytes differ after execution", p)
	}
	checkPrevoutRecord(p, b)
	if res.Obs == "panic" {
		c.Violate("Engine.Execute/panic", res.Err, p)
	}
	plain, _ := interpgen.RunPlain(p)
	if plain != res.Obs {
		c.Violate("Engine.Execute/debugger-changes-verdict", plain+" vs "+res.Obs, p)
	}
	frameCheck(p, res)
	if c.Prop != "C05" && res.TraceBytes > 8<<20 {
		// the snapshots of this run add up to more than 8 MB (deep stacks of large items over hundreds of
		// steps): the Go-level predicates above have been evaluated; hashing the trace inside Coq would take
		// minutes, so the model comparison of such programs is left to C05's limit programs
		c.Tally(p.Kind + "/trace-too-large-for-model")
		c.Case("", p, key(p), res.Steps > 0)
		return res
	}
	c.Weigh(res.TraceBytes / 64)
	c.Case(wrapProg(interpgen.CoqCase(p, res)+" 0"), p, key(p), res.Steps > 0)
	if afterEmit != nil { // C05: the same flag set through other option lists (c05_options.go)
		afterEmit(p, res)
	}
	return res
}

func main() {
	c = common.Parse("C05")
	c.SetHeader(header)
	c.ShardBytes = 40000
	c.PerShard = 250
	switch c.Prop {
	case "C05":
		runC05()
	case "C07":
		c.SetHeader(strings.Replace(header, "corr.C05.", "corr.C05 model.ExecOpts corr.C07.", 1))
		wrapProg = func(s string) string { return "KProg (" + s + ")" }
		runC07()
	case "C08":
		c.SetHeader(strings.Replace(header, "corr.C05.", "corr.C05 model.Heap corr.C08.", 1))
		wrapProg = func(s string) string { return "KProg (" + s + ")" }
		runC08()
	case "C19":
		runC19()
	default:
		panic("unknown -prop " + c.Prop)
	}
	c.Finish()
}

func runC05() {
	r := common.NewRand(c.Seed)
	c.SetHeader(header + "From GoBT Require Import model.FlagOptions.\n")
	afterEmit = optionListCheck
	lockTimePrograms()
	flagOptionPrograms()
	stride, nRandom, nP2SH, nVec := 131, 400, 60, 150
	maxLen := 12
	if c.Thorough() {
		stride, nRandom, nP2SH, nVec, maxLen = 7, 8000, 1000, 100000, 40
	}
	interpgen.Matrix(func(p *interpgen.Program) { res := emit(p); refCheck(p, res) }, stride)
	interpgen.BigNumSweep(func(p *interpgen.Program) { emit(p) })
	// quick: of the "every encoding of zero x comparison / boolean opcode" block (3200 programs) the model evaluates a
	// seed-rotating half (both eras and both operand orders of the chosen (operands, opcode)); the implementation-side
	// predicates run on all of them. (Round 8: pays for the lock-time and flag-option families.)
	nCmp := 0
	interpgen.ArithEdges(func(p *interpgen.Program) {
		if n := len(p.Lock); !c.Thorough() && p.Kind == "arith-edge" && n >= 4 && p.Lock[n-4] >= 0x9a && p.Lock[n-4] <= 0xa4 {
			nCmp++
			if ((nCmp-1)/4+(nCmp-1)/40)%2 != int(c.Seed%2) {
				res := emitNoModel(p)
				optionListCheck(p, res)
				return
			}
		}
		emit(p)
	}, c.Thorough())
	longNumbers()
	nestedSpecials()
	// deep stacks: all (k, n) when thorough; quick keeps every k up to n = 65 and a reduced set of k beyond (these
	// programs cost n*(k+n) on both sides and were two thirds of the harness's running time)
	interpgen.DeepStacksSel(func(p *interpgen.Program) { emit(p) }, func(k, n int) bool {
		return c.Thorough() || n <= 65 || n <= 129 && (k == 1 || k == 33) || k == 1 && n == 257
	})
	interpgen.Limits(func(p *interpgen.Program) { emit(p) }, c.Thorough())
	interpgen.ScriptBoundary(func(p *interpgen.Program) { emit(p) })
	numberLengthBoundary()
	// two value-producing opcodes in one execution (what one leaves behind must not influence the other):
	// ordered pairs of the 42 snippets of the aliasing matrix, the same opcode twice always
	for i, t1 := range transforms {
		for j, t2 := range transforms {
			if !c.Thorough() && i != j && (i*len(transforms)+j)%4 != int(c.Seed%4) && !(i >= 9 && i <= 13 && j >= 9 && j <= 13) {
				continue
			}
			x, y := twinValues[(i+j)%len(twinValues)], twinValues[(i*5+j*3+2)%len(twinValues)]
			body := cat(interpgen.Push(x), t1.code, interpgen.Push(y), t2.code)
			fl := uint32(0)
			if (i+j)%2 == 0 {
				fl = interpgen.FGenesis
			}
			p := &interpgen.Program{Unlock: []byte{}, Lock: cat(body, []byte{0x74, 0x75, 0x51}), Flags: fl, Kind: "pair/" + t1.name + "/" + t2.name}
			if (i+j)%5 == 0 { // split over the two scripts
				p.Unlock, p.Lock = cat(interpgen.Push(x), t1.code), cat(interpgen.Push(y), t2.code, []byte{0x74, 0x75, 0x51})
			}
			emit(p.Fix())
		}
	}
	nFlow := 1500
	if c.Thorough() {
		nFlow = 40000
	}
	for i := 0; i < nFlow; i++ {
		emit(interpgen.Flow(r))
	}
	for i := 0; i < nRandom; i++ {
		emit(interpgen.Random(r, maxLen))
	}
	for i := 0; i < nP2SH; i++ {
		emit(interpgen.P2SH(r))
	}
	vecs, skipped, err := interpgen.LoadVectors("/repo")
	if err != nil {
		panic(err)
	}
	used, agree := 0, 0
	for i, v := range vecs {
		if !c.Thorough() && (i*7919)%len(vecs) >= nVec {
			continue
		}
		res := interpgen.Run(v.Prog, false)
		used++
		if (res.Obs == "ok") == v.ExpectOK {
			agree++
		} else {
			c.Violate("Engine.Execute/differs-from-node-vector", fmt.Sprintf("node expects ok=%v, go-bt: %s %s (%s)", v.ExpectOK, res.Obs, res.Err, v.Comment), v.Prog)
		}
		c.Tally("node-vector/" + res.Obs)
		exp := 2
		if v.ExpectOK {
			exp = 1
		}
		c.Case(interpgen.CoqCase(v.Prog, res)+fmt.Sprintf(" %d", exp), v.Prog, "v"+key(v.Prog), true)
	}
	c.Stats.Extra["node_vectors_total_signature_free"] = len(vecs)
	c.Stats.Extra["node_vectors_skipped_signature_ops"] = skipped
	c.Stats.Extra["node_vectors_used"] = used
	c.Stats.Extra["node_vectors_impl_agrees"] = agree
	c.Stats.Rule = "targeted families: lock-time opcodes under transaction contexts over the whole unsigned 32-bit range (versions 0 1 2 3 2^31-1 2^31 2^31+2 2^32-1; lock times and operands around 500 000 000, 2^31, 2^32, 2^32+small, 2^39-1, negative, padded, six-byte; sequences with the disable / type bits; three program shapes; as NOPs, on an empty stack, without transaction / spent output: Go-level BIP65/BIP112 reference over math/big on every program, the model on a seed-rotating quarter plus every wide-field case), flag-option lists (one probe program per non-signature flag x 55 flag sets x every way interpgen.OptionLists assembles the set from WithFlags / WithAfterGenesis / WithForkID / WithP2SH at four places among the other options: same verdict, steps and snapshots as the single WithFlags; the model computes the flag word from the option list; every eighth program of all other families is re-run under a rotating list), long number operands (16 .. 8193 bytes quick, .. 65537 thorough: the lengths at which 8*(len-1), 8*len and len pass 2^7, 2^8, 2^15, 2^16; 11 operand shapes of both signs, minimal and padded; 30 number-reading opcodes; model up to 129/257 bytes, Go-level math/big reference on all), big-number operand sweep (index/position/size/count opcodes x numbers around 2^31, 2^32, 2^63, 2^64, 2^72 and their negatives), programs sitting on every pre-Genesis limit (op count with executed and with skipped opcodes, stack depth incl. alt stack, element size via push/CAT/NUM2BIN, script size, number length) in both eras, ordered pairs of 42 value-producing snippets in one execution (same opcode twice and hash x hash always, a quarter of the rest per seed), 1120 script-boundary programs (what the unlocking script leaves on the alt stack / in conditionals when it ends normally or with a top-level OP_RETURN, zero-length scripts), 1500 flow-control programs (IF/NOTIF/ELSE/ENDIF/RETURN/VERIF/alt-stack alphabet split between unlocking and locking script); then: opcode x edge-operand matrix (31 operands; all unary opcodes and all shift counts 0..8n+1 for n in {0,1,2,3,8} always; binary/ternary combinations every 131st in quick, every 7th in thorough; 8 flag sets over both eras), grammar-generated programs over the full opcode alphabet with nested IF/NOTIF/ELSE/ENDIF, OP_RETURN placement, tx contexts for CLTV/CSV, P2SH pairs, and the signature-free node vectors of script_tests.json (evaluated on the model AND compared with the node's expected verdict). distinct = distinct (scripts, flags, context); non-trivial = at least one instruction completed"
}

// opcode arity table for the frame check: how many items of the data stack an opcode may touch
// (pop) — everything below must be identical before and after the step. -1 = not checked.
func arity(op byte) int {
	switch {
	case op <= 0x60: // pushes
		return 0
	}
	switch op {
	case 0x61, 0x74, 0xab, 0xb0, 0xb3, 0xb4, 0xb5, 0xb6, 0xb7, 0xb8, 0xb9: // NOP, DEPTH, CODESEPARATOR, NOPn
		return 0
	case 0xb1, 0xb2: // CLTV/CSV peek
		return 0
	case 0x63, 0x64, 0x69, 0x6b, 0x75, 0x76, 0x73, 0x82, 0x81, 0x83, 0x8b, 0x8c, 0x8f, 0x90, 0x91, 0x92, 0xa6, 0xa7, 0xa8, 0xa9, 0xaa:
		return 1
	case 0x6c: // FROMALTSTACK
		return 0
	case 0x6d, 0x6e, 0x77, 0x78, 0x7c, 0x7d, 0x7e, 0x7f, 0x80, 0x84, 0x85, 0x86, 0x87, 0x88, 0x93, 0x94, 0x95, 0x96, 0x97, 0x98, 0x99, 0x9a, 0x9b, 0x9c, 0x9d, 0x9e, 0x9f, 0xa0, 0xa1, 0xa2, 0xa3, 0xa4:
		return 2
	case 0x6f, 0x7b, 0xa5:
		return 3
	case 0x70, 0x72:
		return 4
	case 0x71:
		return 6
	case 0x67, 0x68:
		return 0
	}
	return -1
}

// frameCheck states C08's second sentence on the implementation directly: a step never changes any
// data-stack item below the items the executed opcode consumes (and never touches the alt stack
// unless it is TOALTSTACK/FROMALTSTACK). Only lock-script steps of programs with an empty unlocking
// script are attributed to opcodes (the matrix / aliasing programs), via the parsed opcode list.
func frameCheck(p *interpgen.Program, res interpgen.Result) {
	if len(p.Unlock) != 0 || res.Obs == "panic" {
		return
	}
	ops := opcodesOf(p.Lock)
	if ops == nil {
		return
	}
	prev := interpgen.Snapshot{}
	for i, s := range res.Snaps {
		if i >= len(ops) {
			break
		}
		k := arity(ops[i])
		if k >= 0 && i < len(ops)-1 { // the last step also clears the alt stack
			keep := len(prev.Data) - k
			if keep > 0 {
				if len(s.Data) < keep {
					// conditional skipping etc. never shrinks below; only report real differences
				} else {
					for j := 0; j < keep; j++ {
						if !bytes.Equal(prev.Data[j], s.Data[j]) {
							c.Violate("Engine.Execute/step-changes-untouched-stack-item",
								fmt.Sprintf("step %d opcode 0x%02x changed data-stack item %d: %x -> %x", i, ops[i], j, prev.Data[j], s.Data[j]), p)
							return
						}
					}
				}
			}
			if ops[i] != 0x6b && ops[i] != 0x6c {
				for j := 0; j < len(prev.Alt) && j < len(s.Alt); j++ {
					if !bytes.Equal(prev.Alt[j], s.Alt[j]) {
						c.Violate("Engine.Execute/step-changes-alt-stack-item", fmt.Sprintf("step %d opcode 0x%02x", i, ops[i]), p)
						return
					}
				}
			}
		}
		prev = s
	}
}

// opcodesOf lists opcode bytes at opcode positions (nil if a push is truncated or OP_RETURN at top level).
func opcodesOf(s []byte) []byte {
	var ops []byte
	for i := 0; i < len(s); {
		op := s[i]
		ops = append(ops, op)
		switch {
		case op >= 1 && op <= 75:
			i += 1 + int(op)
		case op == 0x4c:
			if i+1 >= len(s) {
				return nil
			}
			i += 2 + int(s[i+1])
		case op == 0x4d:
			if i+2 >= len(s) {
				return nil
			}
			i += 3 + (int(s[i+1]) | int(s[i+2])<<8)
		case op == 0x4e:
			return nil
		case op == 0x6a:
			return nil
		default:
			i++
		}
		if i > len(s) {
			return nil
		}
	}
	return ops
}

// checkPrevoutRecord: the only thing execution may record on the caller's transaction is the spent
// output's value and script on the checked input — afterwards they must be exactly those.
func checkPrevoutRecord(p *interpgen.Program, b *interpgen.Built) {
	if b.Tx == nil || !p.HasPrev || len(b.Tx.Inputs) <= p.ExtraIn {
		return
	}
	for k := 0; k < p.ExtraIn; k++ {
		if o := b.Tx.Inputs[k]; o.PreviousTxScript != nil || o.PreviousTxSatoshis != 0 {
			c.Violate("Engine.Execute/records-a-spent-output-on-another-input", fmt.Sprintf("input %d", k), p)
		}
	}
	in := b.Tx.Inputs[p.ExtraIn]
	if in.PreviousTxScript == nil {
		return // rejected before the record was made
	}
	if !bytes.Equal(*in.PreviousTxScript, p.Lock) || in.PreviousTxSatoshis != 1000 {
		c.Violate("Engine.Execute/input-records-something-else-than-the-spent-output",
			fmt.Sprintf("PreviousTxScript %x (spent output script %x), PreviousTxSatoshis %d (spent 1000)", []byte(*in.PreviousTxScript), p.Lock, in.PreviousTxSatoshis), p)
	}
}

// buffersOnly runs a program on the implementation with all caller-buffer predicates but without a
// model case (signature opcodes under a transaction context; the signature model is C06's).
func buffersOnly(p *interpgen.Program) {
	rec := &interpgen.Recorder{}
	b := interpgen.Build(p, rec)
	var txBefore []byte
	if b.Tx != nil {
		txBefore = b.Tx.Bytes()
	}
	res := interpgen.RunBuilt(b, rec)
	c.Tally(p.Kind + "/go-only/" + res.Obs)
	if res.Obs == "panic" {
		c.Violate("Engine.Execute/panic", res.Err, p)
	}
	if !bytes.Equal(*b.Lock, p.Lock) {
		c.Violate("Engine.Execute/caller-locking-script-modified", fmt.Sprintf("%x -> %x", p.Lock, []byte(*b.Lock)), p)
	}
	if !bytes.Equal(*b.Unlock, p.Unlock) {
		c.Violate("Engine.Execute/caller-unlocking-script-modified", fmt.Sprintf("%x -> %x", p.Unlock, []byte(*b.Unlock)), p)
	}
	if b.Tx != nil && !bytes.Equal(b.Tx.Bytes(), txBefore) {
		c.Violate("Engine.Execute/transaction-serialisation-modified", "tx bytes differ after execution", p)
	}
	checkPrevoutRecord(p, b)
	c.Case("", p, key(p), true)
}

// SigShapes: programs that reach the signature opcodes with a full transaction context using junk
// signatures and keys (no encoding flags): exercises script-code construction (code separators in
// either script, early OP_RETURN in the unlocking script, signature pushes inside the script) on
// the implementation. The verdict is not interesting here; panics and caller-buffer changes are.
func sigShapes(r *common.Rand, emitp func(*interpgen.Program), n int) {
	junkSig := func() []byte {
		return append(r.Bytes(8+r.Intn(64)), []byte{0x01, 0x41, 0x02, 0xc3, 0x00, 0x03, 0x83, 0x43, 0x82, 0x81, 0x23, 0xa3, 0x63, 0x1f, 0x7f, 0xe3, byte(r.U64())}[r.Intn(17)])
	}
	junkKey := func() []byte {
		k := r.Bytes(33)
		k[0] = []byte{2, 3, 4, 6}[r.Intn(4)]
		if r.Chance(20) {
			k = r.Bytes(r.Intn(70))
		}
		return k
	}
	// derish: 30 L 02 rl R.. 02 sl S.. ht with every length field at and around the values at which the next field
	// starts at, just before or just beyond the end of the signature
	derish := func() []byte {
		total := 8 + r.Intn(14)
		b := r.Bytes(total)
		b[0] = 0x30
		b[1] = byte(total - 3 + []int{0, 0, 0, 1, -1}[r.Intn(5)])
		b[2] = 0x02
		rl := []int{0, 1, 2, total - 8, total - 7, total - 6, total - 5, total - 4, total - 3, total}[r.Intn(10)]
		if rl < 0 {
			rl = 0
		}
		b[3] = byte(rl)
		if 4+rl < total {
			b[4+rl] = []byte{0x02, 0x02, 0x02, 0x03}[r.Intn(4)]
		}
		if 5+rl < total {
			rest := total - 1 - (6 + rl)
			b[5+rl] = byte([]int{rest, rest, rest + 1, rest - 1, 0, 1}[r.Intn(6)])
		}
		b[total-1] = []byte{0x01, 0x41, 0x02, 0xc3, 0x43, 0x81}[r.Intn(6)]
		return b
	}
	pushAs := func(form int, d []byte) []byte { // one data push in a chosen encoding
		switch form {
		case 1:
			return append([]byte{0x4c, byte(len(d))}, d...)
		case 2:
			return append([]byte{0x4d, byte(len(d)), byte(len(d) >> 8)}, d...)
		case 3:
			return append([]byte{0x4e, byte(len(d)), byte(len(d) >> 8), 0, 0}, d...)
		}
		return interpgen.Push(d)
	}
	for i := 0; i < n; i++ {
		sig, key := junkSig(), junkKey()
		if i%3 == 1 {
			sig = derish()
		}
		if i%11 == 5 {
			sig = []byte{} // an empty signature (OP_0): the one every NULLFAIL-aware wallet sends for a key it does not sign for
		}
		hugeSig := i%97 == 11 // a "signature" item that needs the longest push form when the script code is rebuilt
		if hugeSig {
			sig = r.Bytes([]int{65535, 65536, 70000}[r.Intn(3)])
		}
		var unlock, lock []byte
		// a data push in each of the longer encodings inside the script the signature opcode will serialise again
		if i%4 == 2 {
			lock = append(lock, pushAs(1+r.Intn(3), r.Bytes(r.Intn(4)))...)
			lock = append(lock, 0x75)
		}
		// unlocking script: pushes, optionally NOPs / CODESEPARATOR / early RETURN
		for k := r.Intn(3); k > 0; k-- {
			unlock = append(unlock, interpgen.Push(r.Bytes(1+r.Intn(3)))...)
		}
		unlock = append(unlock, interpgen.Push(sig)...)
		if r.Chance(40) {
			unlock = append(unlock, interpgen.Push(key)...)
		}
		for k := r.Intn(4); k > 0; k-- {
			unlock = append(unlock, 0x61)
		}
		if r.Chance(45) {
			unlock = append(unlock, 0xab)
		}
		if r.Chance(35) {
			unlock = append(unlock, 0x6a)
		}
		// locking script: separators at various positions, one of the four signature opcodes
		for k := r.Intn(3); k > 0; k-- {
			lock = append(lock, []byte{0x61, 0xab, 0x61}[r.Intn(3)])
		}
		if r.Chance(60) {
			lock = append(lock, interpgen.Push(key)...)
		}
		switch r.Intn(5) {
		case 0:
			lock = append(lock, 0xac)
		case 1:
			lock = append(lock, 0xad, 0x51)
		case 2: // 1-of-1 multisig around the pushed things; 1-of-2 / 1-of-3 with keys that parse (the generator point
			// and its double), so that a signature that does not parse is tried against more than one key
			g1 := common.Unhex("0279be667ef9dcbbac55a06295ce870b07029bfcdb2dce28d959f2815b16f81798")
			g2 := common.Unhex("02c6047f9441ed7d6d3045406e95c07cd85c778e4b8cef3ca7abac09b95c709ee5")
			switch r.Intn(3) {
			case 0:
				lock = append(append([]byte{0x51}, interpgen.Push(junkKey())...), 0x51, 0xae)
			case 1:
				lock = append(append(append([]byte{0x51}, interpgen.Push(g1)...), interpgen.Push(g2)...), 0x52, 0xae)
			default:
				lock = append(append(append(append([]byte{0x51}, interpgen.Push(g2)...), interpgen.Push(junkKey())...), interpgen.Push(g1)...), 0x53, 0xae)
			}
			unlock = append([]byte{0x00}, unlock...)
		case 3:
			lock = append(lock, 0x76, 0xa9, 0x75, 0xac)
		default:
			lock = append(lock, 0xab, 0xac, 0xab)
		}
		if r.Chance(30) {
			lock = append(lock, interpgen.Push(sig)...)
			lock = append(lock, 0x75)
		}
		// a top-level OP_RETURN and what the parser makes of the bytes after it (truncated pushes become
		// the data-less "Unformatted Data" opcode), which the signature opcodes then unparse / filter
		tail := func() []byte {
			t := []byte{0x6a}
			for k := r.Intn(3); k > 0; k-- {
				t = append(t, []byte{0x01, 0x02, 0x4b, 0x4c, 0x4d, 0x4e, 0x00, 0x51, 0xab, byte(r.U64())}[r.Intn(10)])
			}
			return t
		}
		if r.Chance(35) {
			lock = append(lock, tail()...)
		}
		if r.Chance(10) {
			unlock = append(unlock, tail()...)
		}
		p := &interpgen.Program{Unlock: unlock, Lock: lock, HasTx: true, HasPrev: true, TxVersion: 1, InSeq: 0xffffffff, Kind: "sig-shape"}
		// the tested input is not always the first, and there are outputs at and around its index
		// (SIGHASH_SINGLE/NONE digests rewrite the other inputs and the outputs of a copy)
		p.ExtraIn, p.ExtraOut = r.Intn(3), r.Intn(4)
		if r.Chance(55) {
			p.Flags |= interpgen.FGenesis
		}
		if r.Chance(40) {
			p.Flags |= interpgen.FForkID
		}
		if r.Chance(15) {
			p.Flags |= interpgen.FNullFail
		}
		if hugeSig { // only after Genesis can an item be that long; no encoding flags (they refuse it before it is used)
			p.Flags = interpgen.FGenesis
		}
		if i%3 == 1 && !hugeSig { // the signature-encoding flags, one or several
			p.Flags |= []uint32{interpgen.FDERSig, interpgen.FLowS, interpgen.FStrictEnc, interpgen.FDERSig | interpgen.FLowS | interpgen.FStrictEnc, 0}[r.Intn(5)]
		}
		emitp(p.Fix())
	}
}

// numberLengthBoundary: the post-Genesis limit on the length of a number operand, MAX_SCRIPT_NUM_LENGTH_AFTER_GENESIS
// = 750 * ONE_KILOBYTE = 750 000 bytes (ONE_KILOBYTE is 1000 in the node), at the boundary itself: an operand of
// exactly that length is a number, one byte more is not, for every way an opcode reads a number. Implementation only
// (decoding a 750 000-byte number inside Coq takes minutes); the model's constant is tied by the translator
// (config_methods_match).
func numberLengthBoundary() {
	const limit = 750000
	for _, n := range []int{limit, limit + 1, 768000} {
		operand := make([]byte, n)
		operand[n-1] = 0x01 // 00 .. 00 01: cheap to decode, as long as it gets
		push := append([]byte{0x4e, byte(n), byte(n >> 8), byte(n >> 16), byte(n >> 24)}, operand...)
		for _, reader := range [][]byte{{0x92}, {0x81, 0x75, 0x51}, {0x51, 0x9f, 0x75, 0x51}} { // 0NOTEQUAL / BIN2NUM DROP 1 / 1 LESSTHAN DROP 1
			p := (&interpgen.Program{Unlock: []byte{}, Lock: cat(push, reader), Flags: interpgen.FGenesis, Kind: "number-length-boundary"}).Fix()
			obs, msg := interpgen.RunPlain(p)
			c.Tally(fmt.Sprintf("number-length-boundary/%d/%s", n, obs))
			want := "ok"
			if n > limit {
				want = "err"
			}
			if obs != want {
				c.Violate("PopInt/number-length-limit-after-genesis", fmt.Sprintf("a %d-byte operand read by opcode 0x%02x: %s (%s), the limit is %d bytes", n, reader[0], obs, msg, limit), map[string]interface{}{"operand_bytes": n, "reader": common.Hex(reader), "flags": p.Flags})
			}
			c.Case("", map[string]interface{}{"kind": p.Kind, "operand_bytes": n, "reader": common.Hex(reader)}, fmt.Sprintf("nlb%d/%x", n, reader), true)
		}
	}
}
