package main

import (
	"fmt"

	"github.com/libsv/go-bt/v2/bscript/interpreter"

	"verif/harness/common"
	"verif/harness/interpgen"
)

// The way the FLAGS reach the engine (C05, round 8).
//
// The property quantifies over "all sampled subsets of the non-signature script flags, both eras"; a caller hands such
// a subset to Engine.Execute through interpreter.WithFlags(word), WithAfterGenesis(), WithForkID() and WithP2SH(), in any
// number and order, and each of them ADDS its flags (model/FlagOptions.v: the flag word is the union of the options'
// words). interpgen.Build uses one WithFlags(word). Here
//   - every program any C05 family emits is run again with its flag set assembled through other option lists
//     (interpgen.OptionLists, rotating; all of them when thorough) and must give the same verdict, the same number of
//     steps and the same stack snapshots;
//   - a family of probe programs - one per non-signature flag, whose verdict that flag decides - is run under flag
//     sets combining the probed flag with the era, ForkID, P2SH and other policy flags through EVERY list, and the
//     model evaluates the run with the flag word computed from the option list inside Coq (flags_of_options).

// afterEmit, when set, is called by emit with every program and its run (set by runC05 only).
var afterEmit func(p *interpgen.Program, res interpgen.Result)

var optRot int

func sameRun(a, b interpgen.Result) bool {
	return a.Obs == b.Obs && a.Steps == b.Steps && a.Hash == b.Hash
}

func optionViolation(p *interpgen.Program, l interpgen.OptionList, base, r interpgen.Result) {
	c.Violate("Engine.Execute/flag-options-do-not-denote-their-union",
		fmt.Sprintf("flag set 0x%x handed over as %s: verdict %s (%s), %d steps, trace %.16s; handed over as one WithFlags(0x%x): verdict %s (%s), %d steps, trace %.16s",
			p.Flags, l.Text, r.Obs, r.Err, r.Steps, r.Hash, p.Flags, base.Obs, base.Err, base.Steps, base.Hash),
		map[string]interface{}{"program": p, "options": l.Text, "place": l.Place})
}

// optionListCheck: the run of p under another option list denoting p.Flags is the run emit has just made. What the
// options do with the flag word does not depend on the program, so the bulk families are sampled (the probe family
// below goes through every list): quick - every eighth program once, long runs (limits, deep stacks) compared by
// verdict only, without a debugger; thorough - every program once.
func optionListCheck(p *interpgen.Program, res interpgen.Result) {
	if res.Obs == "panic" || res.Hash == "" {
		return
	}
	optRot++
	if !c.Thorough() && optRot%8 != 0 {
		return
	}
	lists := interpgen.OptionLists(p.Flags)
	for i := 0; i < 1; i++ {
		l := lists[1+(optRot/8+optRot%8)%(len(lists)-1)]
		if res.TraceBytes > 1<<14 {
			obs, msg := plainWithOptions(p, l)
			c.Tally("option-list/rerun-verdict-only")
			if obs != res.Obs {
				optionViolation(p, l, res, interpgen.Result{Obs: obs, Err: msg, Steps: -1})
			}
			continue
		}
		r := interpgen.RunWithOptions(p, l, &interpgen.Recorder{})
		c.Tally("option-list/rerun")
		if !sameRun(r, res) {
			optionViolation(p, l, res, r)
		}
	}
}

// plainWithOptions: the verdict without any debugger.
func plainWithOptions(p *interpgen.Program, l interpgen.OptionList) (obs, msg string) {
	b := interpgen.BuildWithOptions(p, nil, l)
	var err error
	panicked, m := common.Safely(func() { err = interpreter.NewEngine().Execute(b.Opts...) })
	switch {
	case panicked:
		return "panic", m
	case err != nil:
		return "err", err.Error()
	}
	return "ok", ""
}

// optionCoqCase: the case with its flag word written as the option list (evaluated by the model).
func optionCoqCase(p *interpgen.Program, l interpgen.OptionList, r interpgen.Result) string {
	obs := map[string]string{"ok": "ObsOk", "err": "ObsErr", "panic": "ObsPanic"}[r.Obs]
	return fmt.Sprintf("mkCase %s %s (flags_of_options %s) %s %s %d %d %d %s %d %s 0", common.CoqBytes(p.Unlock), common.CoqBytes(p.Lock), l.Coq(),
		common.CoqBool(p.HasTx), common.CoqBool(p.HasPrev), p.TxLock, p.TxVersion, p.InSeq, obs, r.Steps, common.CoqStr(r.Hash))
}

type flagProbe struct {
	name         string
	unlock, lock []byte
	tx           bool
}

// one probe per non-signature flag: a program whose verdict (other flags aside) that flag decides
func flagProbes() []flagProbe {
	redeem := []byte{0x00} // a redeem script that evaluates to false: accepted as a plain hash lock, refused as P2SH
	return []flagProbe{
		{"genesis: 1 | RETURN", []byte{0x51}, []byte{0x6a}, false},
		{"minimaldata: 01 05 | 5 EQUAL", []byte{0x01, 0x05}, []byte{0x55, 0x87}, false},
		{"discourage-nops: 1 | NOP1", []byte{0x51}, []byte{0xb0}, false},
		{"minimalif: 2 | IF 1 ELSE 0 ENDIF", []byte{0x52}, []byte{0x63, 0x51, 0x67, 0x00, 0x68}, false},
		{"cleanstack: 1 1 | NOP", []byte{0x51, 0x51}, []byte{0x61}, false},
		{"p2sh: <0> | HASH160 <h> EQUAL", interpgen.Push(redeem), cat([]byte{0xa9, 0x14}, interpgen.Hash160(redeem), []byte{0x87}), false},
		{"sigpushonly: 1 NOP | 1", []byte{0x51, 0x61}, []byte{0x51}, false},
		{"cltv: 1 | 100 CLTV (lock time 50)", []byte{0x51}, []byte{0x01, 0x64, 0xb1}, true},
		{"csv: 1 | 5 CSV (version 1)", []byte{0x51}, []byte{0x55, 0xb2}, true},
		{"second else: 1 | IF ELSE ELSE ENDIF 1", []byte{0x51}, []byte{0x63, 0x67, 0x67, 0x68, 0x51}, false},
	}
}

// flagOptionPrograms: probes x flag sets x every option list.
func flagOptionPrograms() {
	const (
		g  = interpgen.FGenesis
		fk = interpgen.FForkID
		ps = interpgen.FBip16
	)
	singles := []uint32{interpgen.FGenesis, interpgen.FMinimalData, interpgen.FDiscourageNops, interpgen.FMinimalIf, interpgen.FCleanStack, interpgen.FBip16,
		interpgen.FSigPushOnly, interpgen.FCLTV, interpgen.FCSV, interpgen.FForkID}
	var sets []uint32
	seen := map[uint32]bool{}
	addSet := func(s uint32) {
		if !seen[s] {
			seen[s] = true
			sets = append(sets, s)
		}
	}
	addSet(0)
	var all uint32
	for _, x := range singles {
		all |= x
		addSet(x)
		addSet(x | g)
		addSet(x | fk)
		addSet(x | ps)
		addSet(x | g | fk | ps)
		addSet(x | interpgen.FMinimalData | interpgen.FDiscourageNops)
	}
	addSet(all)
	addSet(all &^ g)
	addSet(all | interpgen.FStrictEnc | interpgen.FNullFail | interpgen.FDERSig | interpgen.FLowS | interpgen.FStrictMultiSig)
	probes := flagProbes()
	n, k := 0, 0
	for _, set := range sets {
		lists := interpgen.OptionLists(set)
		for pi, pr := range probes {
			// quick: each set with the probes of its own flags and a rotating half of the others
			if !c.Thorough() && !probeOf(pi, set) && (pi+n)%2 != 0 {
				continue
			}
			p := (&interpgen.Program{Unlock: pr.unlock, Lock: pr.lock, Flags: set, Kind: "flag-options/" + pr.name}).Fix()
			if pr.tx {
				p.HasTx, p.HasPrev, p.TxLock, p.TxVersion, p.InSeq = true, true, 50, 1, 10
			}
			// the single WithFlags(set): against the model with the numeric word for the probes of the set's own flags
			var base interpgen.Result
			if c.Thorough() || probeOf(pi, set) || set == 0 {
				base = emit(p)
			} else {
				base = emitNoModel(p)
			}
			for li, l := range lists[1:] {
				r := interpgen.RunWithOptions(p, l, &interpgen.Recorder{})
				c.Tally("flag-options/" + r.Obs)
				if !sameRun(r, base) {
					optionViolation(p, l, base, r)
				}
				k++
				twin := map[string]interface{}{"kind": p.Kind, "program": p, "options": l.Text, "place": l.Place}
				if c.Thorough() || (k+int(c.Seed))%8 == 0 || li == 0 && probeOf(pi, set) {
					c.Case(optionCoqCase(p, l, r), twin, key(p)+l.Text, r.Steps > 0)
				} else {
					c.Case("", twin, key(p)+l.Text, r.Steps > 0)
				}
			}
		}
		n++
	}
	c.Stats.Extra["flag_option_sets"] = len(sets)
	c.Stats.Extra["flag_option_runs"] = k
}

// probeOf: probe pi is the probe of one of the flags in the set.
func probeOf(pi int, set uint32) bool {
	flagOfProbe := []uint32{interpgen.FGenesis, interpgen.FMinimalData, interpgen.FDiscourageNops, interpgen.FMinimalIf, interpgen.FCleanStack, interpgen.FBip16,
		interpgen.FSigPushOnly, interpgen.FCLTV, interpgen.FCSV, interpgen.FGenesis}
	return set&flagOfProbe[pi] != 0
}
