package main

import (
	"github.com/libsv/go-bt/v2"

	"verif/harness/common"
	"verif/harness/interpgen"
	"verif/harness/sigspec"
)

// sigReach: the signature opcodes with a transaction context and signatures that REACH THE DIGEST - real keys,
// well-formed signatures (valid ones, made over the digest of the script code the specification prescribes, and
// ones over another digest: they parse, are hashed for and fail) - in every position in which the script code is
// NOT the spent output's script: behind executed OP_CODESEPARATORs (before the operation, between its keys, in a
// taken branch), in a P2SH redeem script, with a signature push inside the script (removed for the original
// digest). OP_CHECKSIG(VERIFY) alone and as P2PKH, OP_CHECKMULTISIG(VERIFY) m-of-n for 1 <= m <= n <= 3 with the
// signatures in order, with a wrong one among them (several key/signature pairs are hashed for), in the wrong
// order. All base hash types with and without ANYONECANPAY, with and without the FORKID bit (the bit set without
// the flag in force and the reverse included), the tested input at index 0..2, 1..4 outputs, the unlocking script
// on the transaction or handed over apart from it.
//
// sigShapes (junk signatures) stops in front of the digest on nearly every case: what the digest computation does
// to the transaction the caller handed over (the operation works on a copy; the only thing execution records on
// the caller's transaction is the spent output's value and script on the checked input) is stated here, by the
// predicates of buffersOnly: caller scripts and transaction serialisation byte for byte, the record on the checked
// input is the spent output's script and value - not the script code -, no other input carries a record.
type sop struct {
	b        []byte
	sep      bool // OP_CODESEPARATOR
	executed bool // ... that the run reaches
}

func sopBytes(ops []sop) []byte {
	var out []byte
	for _, o := range ops {
		out = append(out, o.b...)
	}
	return out
}

// scriptCode per the specification: from behind the last executed separator; the original digest sees no separators
func scriptCode(ops []sop, legacy bool) []byte {
	from := 0
	for i, o := range ops {
		if o.sep && o.executed {
			from = i + 1
		}
	}
	var out []byte
	for _, o := range ops[from:] {
		if o.sep && legacy {
			continue
		}
		out = append(out, o.b...)
	}
	return out
}

func sigReach(r *common.Rand, emitp func(*interpgen.Program), n int) {
	sigReachWith(r, emitp, n, func(p *interpgen.Program) *bt.Tx { return interpgen.Build(p, nil).Tx })
}

// sigReachWith: the same programs with the transaction the digests are made of supplied by the caller (who may
// surround the tested input with more of a transaction than interpgen.Build makes: c08_owned.go); buildTx(p) must be
// the transaction - serialisation for serialisation - that the program is then executed against.
func sigReachWith(r *common.Rand, emitp func(*interpgen.Program), n int, buildTx func(*interpgen.Program) *bt.Tx) {
	keys := []sigspec.Key{sigspec.NewKey(r), sigspec.NewKey(r), sigspec.NewKey(r)}
	op := func(b ...byte) sop { return sop{b: b} }
	push := func(d []byte) sop { return sop{b: interpgen.Push(d)} }
	sepX := sop{b: []byte{0xab}, sep: true, executed: true}
	for i := 0; i < n; i++ {
		multi := i%3 != 0
		verifyForm := r.Chance(30)
		wrap := i % 5 // 0 bare; 1 separator(s) in front; 2 P2SH; 3 P2SH with separators in the redeem script; 4 separator inside
		p2sh := wrap == 2 || wrap == 3
		// ---- flags and hash type
		p := &interpgen.Program{HasTx: true, HasPrev: true, TxVersion: uint32(1 + r.Intn(2)), InSeq: []uint32{0xffffffff, 0xfffffffe, 0}[r.Intn(3)], Kind: "sig-reach"}
		p.ExtraIn, p.ExtraOut = r.Intn(3), r.Intn(4)
		if r.Chance(50) {
			p.Flags |= interpgen.FForkID
		}
		if r.Chance(25) {
			p.Flags |= []uint32{interpgen.FDERSig, interpgen.FLowS | interpgen.FDERSig, interpgen.FStrictEnc, interpgen.FNullFail}[r.Intn(4)]
		}
		if p2sh {
			p.Flags |= interpgen.FBip16
		} else if r.Chance(50) {
			p.Flags |= interpgen.FGenesis
		}
		ht := byte(1+r.Intn(3)) | []byte{0, 0x80}[r.Intn(2)]
		forkBit := p.Flags&interpgen.FForkID != 0
		if r.Chance(20) {
			forkBit = !forkBit // the bit without the flag (hashed for when encodings are not strict), the flag without the bit
		}
		if forkBit {
			ht |= 0x40
		}
		legacy := !sigspec.UsesForkID(sigspec.Norm(p.Flags), ht)
		// ---- the script that holds the operation
		var core []sop
		switch {
		case wrap == 1 || wrap == 3:
			switch r.Intn(4) {
			case 0:
				core = append(core, op(0x61), sepX)
			case 1:
				core = append(core, sepX, op(0x61), sepX)
			case 2: // in a taken branch
				core = append(core, op(0x51), op(0x63), sepX, op(0x68))
			default: // one in a branch not taken (stays in the code, not executed) behind an executed one
				core = append(core, sepX, op(0x00), op(0x63), sop{b: []byte{0xab}, sep: true}, op(0x68))
			}
		}
		// a well-formed signature of something else pushed (and dropped) inside the script code: the original
		// digest's script code is the script without that push
		var inScript []byte
		if r.Chance(20) {
			inScript = append(sigspec.SignShape(r, keys[0].D, r.Bytes(32), sigspec.SigGood), ht)
			core = append(core, push(inScript), op(0x75))
		}
		nKeys, nSigs := 1, 1
		if multi {
			nKeys = 1 + r.Intn(3)
			nSigs = 1 + r.Intn(nKeys)
		}
		p2pkh := !multi && r.Chance(35)
		enc := func(k int) []byte {
			return keys[k].Enc([]int{sigspec.PKCompressed, sigspec.PKCompressed, sigspec.PKUncompressed}[r.Intn(3)])
		}
		var pks [][]byte
		for k := 0; k < nKeys; k++ {
			pks = append(pks, enc(k))
		}
		if multi {
			core = append(core, op(0x50+byte(nSigs)))
			for k := 0; k < nKeys; k++ {
				if wrap == 4 && k == nKeys-1 { // a separator between the keys: the code starts in the middle of the operation's operands
					core = append(core, sepX)
				}
				core = append(core, push(pks[k]))
			}
			core = append(core, op(0x50+byte(nKeys)))
			if verifyForm {
				core = append(core, op(0xaf), op(0x51))
			} else {
				core = append(core, op(0xae))
			}
		} else {
			if wrap == 4 {
				core = append(core, op(0x61), sepX)
			}
			if p2pkh {
				core = append(core, op(0x76), op(0xa9), push(interpgen.Hash160(pks[0])), op(0x88))
			} else {
				core = append(core, push(pks[0]))
			}
			if verifyForm {
				core = append(core, op(0xad), op(0x51))
			} else {
				core = append(core, op(0xac))
			}
		}
		if r.Chance(25) { // a separator behind the operation: part of the FORKID script code, removed from the original one
			core = append(core, sop{b: []byte{0xab}, sep: true}) // executed only after the operation
		}
		coreBytes := sopBytes(core)
		if p2sh {
			p.Lock = cat([]byte{0xa9, 0x14}, interpgen.Hash160(coreBytes), []byte{0x87})
		} else {
			p.Lock = coreBytes
		}
		// ---- the digest, from the transaction Build makes of p (it does not depend on the unlocking script)
		p.Unlock = []byte{0x51}
		tx := buildTx(p.Fix())
		code := scriptCode(core, legacy)
		digest, err := sigspec.Digest(p.Flags, tx, p.ExtraIn, code, 1000, ht)
		if err != nil {
			digest = r.Bytes(32)
		}
		sign := func(k int, valid bool) []byte {
			h := digest
			if !valid {
				h = r.Bytes(32)
			}
			shape := sigspec.SigGood
			if r.Chance(10) {
				shape = []int{sigspec.SigHighS, sigspec.SigPadR, sigspec.SigMinimal, sigspec.SigSeqLenBig}[r.Intn(4)]
			}
			return append(sigspec.SignShape(r, keys[k].D, h, shape), ht)
		}
		// ---- the unlocking script
		var unlock []byte
		mode := r.Intn(5) // 0,1: all valid; 2: one wrong; 3: wrong order / wrong keys; 4: the script's own signature or an empty one among them
		if multi {
			unlock = append(unlock, 0x00)
			// the keys signed for, in key order: a random subset of nSigs keys
			var chosen []int
			for k := 0; k < nKeys; k++ {
				if need, left := nSigs-len(chosen), nKeys-k; need > 0 && (need == left || r.Intn(left) < need) {
					chosen = append(chosen, k)
				}
			}
			if mode == 3 && nSigs > 1 {
				chosen[0], chosen[nSigs-1] = chosen[nSigs-1], chosen[0]
			}
			bad := -1
			if mode == 2 || (mode == 3 && nSigs == 1) {
				bad = r.Intn(nSigs)
			}
			for a, k := range chosen {
				s := sign(k, a != bad)
				if mode == 4 && a == 0 {
					s = inScript // nil: the empty signature
				}
				unlock = append(unlock, interpgen.Push(s)...)
			}
		} else {
			s := sign(0, mode != 2)
			if mode == 3 {
				s = sign(1, true) // another key's signature
			}
			if mode == 4 && inScript != nil {
				s = inScript
			}
			unlock = append(unlock, interpgen.Push(s)...)
			if p2pkh {
				unlock = append(unlock, interpgen.Push(pks[0])...)
			}
		}
		if p2sh {
			unlock = append(unlock, interpgen.Push(coreBytes)...)
		}
		p.Unlock = unlock
		p.ScriptsApart = r.Chance(30)
		emitp(p.Fix())
	}
}
