// c05: interpreter equivalence — programs run through the implementation with a recording debugger;
// the Coq model (model/Interp.v) is evaluated on the same programs.
package main

import (
	"fmt"

	"verif/harness/common"
	"verif/harness/interpgen"
)

const header = `From Coq Require Import String List NArith ZArith.
From Coq Require Import Strings.Byte.
From GoBT Require Import lib.Bytes lib.Hex model.Interp corr.C05.
Import ListNotations. Local Open Scope N_scope. Local Open Scope string_scope.
`

func main() {
	c := common.Parse("C05")
	c.SetHeader(header)
	c.ShardBytes = 40000
	c.PerShard = 250
	r := common.NewRand(c.Seed)
	emit := func(p *interpgen.Program) {
		res := interpgen.Run(p, false)
		c.Tally(p.Kind + "/" + res.Obs)
		if res.Obs == "panic" {
			c.Violate("Engine.Execute/panic", res.Err, p)
		}
		// debugger must not change the verdict (also C19)
		if plain, _ := interpgen.RunPlain(p); plain != res.Obs {
			c.Violate("Engine.Execute/debugger-changes-verdict", plain+" vs "+res.Obs, p)
		}
		refCheck(c, p, res)
		c.Case(interpgen.CoqCase(p, res)+" 0", p, p.UnlockHex+"/"+p.LockHex+fmt.Sprint(p.Flags, p.HasTx, p.HasPrev, p.TxLock, p.TxVersion, p.InSeq), res.Steps > 0)
	}
	stride, nRandom, nP2SH, nVec := 131, 400, 60, 150
	maxLen := 12
	if c.Thorough() {
		stride, nRandom, nP2SH, nVec, maxLen = 7, 8000, 1000, 100000, 40
	}
	interpgen.Matrix(emit, stride)
	for i := 0; i < nRandom; i++ {
		emit(interpgen.Random(r, maxLen))
	}
	for i := 0; i < nP2SH; i++ {
		emit(interpgen.P2SH(r))
	}
	vecs, skipped, err := interpgen.LoadVectors("/repo")
	if err != nil {
		panic(err)
	}
	used, agree := 0, 0
	for i, v := range vecs {
		if !c.Thorough() && (i*7919)%len(vecs) >= nVec {
			continue
		}
		res := interpgen.Run(v.Prog, false)
		used++
		if (res.Obs == "ok") == v.ExpectOK {
			agree++
		} else {
			c.Violate("Engine.Execute/differs-from-node-vector", fmt.Sprintf("node expects ok=%v, go-bt: %s %s (%s)", v.ExpectOK, res.Obs, res.Err, v.Comment), v.Prog)
		}
		c.Tally("node-vector/" + res.Obs)
		exp := 2
		if v.ExpectOK {
			exp = 1
		}
		c.Case(interpgen.CoqCase(v.Prog, res)+fmt.Sprintf(" %d", exp), v.Prog, "v"+v.Prog.UnlockHex+"/"+v.Prog.LockHex+fmt.Sprint(v.Prog.Flags), true)
	}
	c.Stats.Extra["node_vectors_total_signature_free"] = len(vecs)
	c.Stats.Extra["node_vectors_skipped_signature_ops"] = skipped
	c.Stats.Extra["node_vectors_used"] = used
	c.Stats.Extra["node_vectors_impl_agrees"] = agree
	c.Stats.Rule = "exhaustive opcode x edge-operand matrix (31 operands; unary/binary/ternary opcodes; shift counts 0..8n+1 for n in {0,1,2,3,8}; 8 flag sets over both eras; quick tier takes every 131st matrix program, thorough every 7th), grammar-generated programs over the full opcode alphabet with nested IF/NOTIF/ELSE/ENDIF, OP_RETURN placement, tx contexts for CLTV/CSV, P2SH pairs, and the signature-free node vectors of script_tests.json (evaluated on the model AND compared with the node's expected verdict). distinct = distinct (scripts, flags, context); non-trivial = at least one instruction completed"
	c.Finish()
}
