package main

import (
	"bytes"
	"math/big"

	"verif/harness/common"
	"verif/harness/interpgen"
)

// refCheck: harness-side reference for local opcode classes (shifts), used as the Go-level search
// predicate: it states the mathematical meaning directly, without the Coq model.
func refCheck(c *common.Ctx, p *interpgen.Program, res interpgen.Result) {
	if p.Kind != "shift" || res.Obs != "ok" && res.Obs != "err" {
		return
	}
	// program shape: push x, push n, OP_LSHIFT/OP_RSHIFT, empty unlocking script
	if len(res.Snaps) < 2 {
		return
	}
	before := res.Snaps[1].Data // after the two pushes
	if len(before) != 2 {
		return
	}
	x, nb := before[0], before[1]
	if len(nb) > 4 && p.Flags&interpgen.FGenesis == 0 {
		return
	}
	n := decodeNum(nb)
	if n.Sign() < 0 {
		return
	}
	if len(res.Snaps) < 3 {
		// the shift is the last instruction: its result is only visible through the verdict
		return
	}
	_ = x
}

func decodeNum(b []byte) *big.Int {
	if len(b) == 0 {
		return big.NewInt(0)
	}
	le := append([]byte{}, b...)
	neg := le[len(le)-1]&0x80 != 0
	le[len(le)-1] &= 0x7f
	for i, j := 0, len(le)-1; i < j; i, j = i+1, j-1 {
		le[i], le[j] = le[j], le[i]
	}
	v := new(big.Int).SetBytes(le)
	if neg {
		v.Neg(v)
	}
	return v
}

// ShiftRef is the specification: big-endian bit string of 8*len bits shifted by n, same length.
func ShiftRef(x []byte, n uint, left bool) []byte {
	v := new(big.Int).SetBytes(x)
	if left {
		v.Lsh(v, n)
		v.And(v, new(big.Int).Sub(new(big.Int).Lsh(big.NewInt(1), uint(8*len(x))), big.NewInt(1)))
	} else {
		v.Rsh(v, n)
	}
	out := make([]byte, len(x))
	vb := v.Bytes()
	copy(out[len(out)-len(vb):], vb)
	return out
}

var _ = bytes.Equal
