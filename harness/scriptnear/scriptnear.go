// Package scriptnear generates NEAR-MISSES of the standard script templates: scripts that have the shape a
// classifier looks for (the opcodes in the right places, the right number of parts) but whose parts are removed,
// emptied, shortened, lengthened, duplicated, or whose counts (the small-integer opcodes of a multisig script) do not
// agree with the items that are present. The template set is the one of harness/cmd/c14 (P2PKH, P2PK, bare multisig
// incl. the 15/16-key boundaries, both data carriers, P2PKH inscriptions built by Tx.Inscribe) plus P2SH, a
// zero-of-one multisig and the usual unlocking scripts; the mutations are token-level (harness/cmd/c14's
// remove / replace generators) plus what that harness does not have: ranges of tokens removed, every push re-cut to
// every nearby length, all pushes emptied at once and in pairs, every opcode replaced by every small-integer opcode,
// and a grid of (M, N, number of keys present).
//
// Nothing here calls the code under test except Tx.Inscribe (to obtain the inscription templates as the library
// builds them).
package scriptnear

import (
	"github.com/libsv/go-bt/v2"
	"github.com/libsv/go-bt/v2/bscript"

	"verif/harness/common"
)

// Template is a script as a list of tokens (an opcode, or a whole push: header + data).
type Template struct {
	Name   string
	Type   string // bscript.ScriptType… of the unmodified script ("" for unlocking scripts)
	Tokens [][]byte
	IsPush []bool
}

// Bytes is the script.
func (t Template) Bytes() []byte {
	var b []byte
	for _, k := range t.Tokens {
		b = append(b, k...)
	}
	return b
}

// Near is one near-miss.
type Near struct {
	Kind   string // mutation/template
	Script []byte
}

// push: shortest push of data (OP_0 for empty data; never OP_1..OP_16: the data stays a push)
func push(d []byte) []byte {
	n := len(d)
	switch {
	case n <= 75:
		return append([]byte{byte(n)}, d...)
	case n <= 0xff:
		return append([]byte{0x4c, byte(n)}, d...)
	case n <= 0xffff:
		return append([]byte{0x4d, byte(n), byte(n >> 8)}, d...)
	}
	return append([]byte{0x4e, byte(n), byte(n >> 8), byte(n >> 16), byte(n >> 24)}, d...)
}

// pushData: the data of a well-formed push token
func pushData(tok []byte) []byte {
	switch tok[0] {
	case 0x4c:
		return tok[2:]
	case 0x4d:
		return tok[3:]
	case 0x4e:
		return tok[5:]
	}
	return tok[1:]
}

// tokenise a WELL-FORMED script.
func tokenise(s []byte) (toks [][]byte, isPush []bool) {
	for i := 0; i < len(s); {
		b := s[i]
		n := 1
		p := true
		switch {
		case b >= 1 && b <= 75:
			n = 1 + int(b)
		case b == 0x4c:
			n = 2 + int(s[i+1])
		case b == 0x4d:
			n = 3 + int(s[i+1]) + int(s[i+2])<<8
		case b == 0x4e:
			n = 5 + int(s[i+1]) + int(s[i+2])<<8 + int(s[i+3])<<16 + int(s[i+4])<<24
		default:
			p = false
		}
		toks = append(toks, s[i:i+n])
		isPush = append(isPush, p)
		i += n
	}
	return
}

func mk(name, typ string, s []byte) Template {
	toks, ip := tokenise(s)
	return Template{Name: name, Type: typ, Tokens: toks, IsPush: ip}
}

// Key is a public key of 33 or 65 bytes with a valid first byte.
func Key(r *common.Rand, n int) []byte {
	k := r.Bytes(n)
	if n == 33 {
		k[0] = []byte{2, 3}[r.Intn(2)]
	} else {
		k[0] = []byte{4, 6, 7}[r.Intn(3)]
	}
	return k
}

// Inscription is the locking script Tx.Inscribe builds.
func Inscription(r *common.Rand, ct string, data []byte, opret [][]byte) []byte {
	prefix, _ := bscript.NewP2PKHFromPubKeyHash(r.Bytes(20))
	tx := bt.NewTx()
	ia := &bscript.InscriptionArgs{LockingScriptPrefix: prefix, Data: data, ContentType: ct}
	if opret != nil {
		ia.EnrichedArgs = &bscript.EnrichedInscriptionArgs{OpReturnData: opret}
	}
	if err := tx.Inscribe(ia); err != nil {
		panic(err)
	}
	return append([]byte{}, *tx.Outputs[len(tx.Outputs)-1].LockingScript...)
}

// MultiSig is OP_m <keys> OP_n OP_CHECKMULTISIG with n = len(keys).
func MultiSig(m int, keys ...[]byte) []byte {
	s := []byte{smallInt(m)}
	for _, k := range keys {
		s = append(s, push(k)...)
	}
	return append(s, smallInt(len(keys)), 0xae)
}

func smallInt(n int) byte {
	if n == 0 {
		return 0x00
	}
	return byte(0x50 + n)
}

func keys(r *common.Rand, n int) [][]byte {
	var ks [][]byte
	for i := 0; i < n; i++ {
		ks = append(ks, Key(r, 33))
	}
	return ks
}

// Templates: every locking-script template the library classifies (and P2SH, which it tests for), with fresh
// random contents; big ones (15/16 keys) included.
func Templates(r *common.Rand) []Template {
	p2pkh, _ := bscript.NewP2PKHFromPubKeyHash(r.Bytes(20))
	var ts []Template
	ts = append(ts, mk("p2pkh", bscript.ScriptTypePubKeyHash, *p2pkh))
	ts = append(ts, mk("p2pk33", bscript.ScriptTypePubKey, append(push(Key(r, 33)), 0xac)))
	ts = append(ts, mk("p2pk65", bscript.ScriptTypePubKey, append(push(Key(r, 65)), 0xac)))
	ts = append(ts, mk("p2sh", bscript.ScriptTypeNonStandard, append(append([]byte{0xa9}, push(r.Bytes(20))...), 0x87)))
	ts = append(ts, mk("multisig-1of1", bscript.ScriptTypeMultiSig, MultiSig(1, keys(r, 1)...)))
	ts = append(ts, mk("multisig-0of1", bscript.ScriptTypeMultiSig, MultiSig(0, keys(r, 1)...)))
	ts = append(ts, mk("multisig-1of2", bscript.ScriptTypeMultiSig, MultiSig(1, keys(r, 2)...)))
	ts = append(ts, mk("multisig-2of3", bscript.ScriptTypeMultiSig, MultiSig(2, Key(r, 33), Key(r, 65), Key(r, 33))))
	ts = append(ts, mk("multisig-15of15", bscript.ScriptTypeMultiSig, MultiSig(15, keys(r, 15)...)))
	ts = append(ts, mk("multisig-1of16", bscript.ScriptTypeMultiSig, MultiSig(1, keys(r, 16)...)))
	ts = append(ts, mk("multisig-16of16", bscript.ScriptTypeMultiSig, MultiSig(16, keys(r, 16)...)))
	data := func(prefix []byte, items ...[]byte) []byte {
		s := append([]byte{}, prefix...)
		for _, it := range items {
			s = append(s, push(it)...)
		}
		return s
	}
	ts = append(ts, mk("op-return", bscript.ScriptTypeNullData, data([]byte{0x6a}, []byte("hello"), r.Bytes(3))))
	ts = append(ts, mk("op-false-op-return", bscript.ScriptTypeNullData, data([]byte{0x00, 0x6a}, r.Bytes(20), []byte{0x51}, r.Bytes(2))))
	ts = append(ts, mk("inscription", bscript.ScriptTypePubKeyHashInscription, Inscription(r, "text/plain", []byte("Hello, world!"), nil)))
	ts = append(ts, mk("inscription-enriched", bscript.ScriptTypePubKeyHashInscription, Inscription(r, "image/png", r.Bytes(9), [][]byte{[]byte("MAP"), r.Bytes(4)})))
	ts = append(ts, mk("inscription-empty-fields", bscript.ScriptTypePubKeyHashInscription, Inscription(r, "", []byte{}, nil)))
	ts = append(ts, mk("inscription-one-byte-fields", bscript.ScriptTypePubKeyHashInscription, Inscription(r, "t", []byte{0x2a}, nil)))
	return ts
}

// UnlockTemplates: the usual unlocking scripts (signature + key, bare signature, OP_0 + signatures).
func UnlockTemplates(r *common.Rand) []Template {
	sig := func() []byte {
		n := 70 + r.Intn(3)
		s := r.Bytes(n + 1)
		s[0], s[1], s[n] = 0x30, byte(n-2), 0x41
		return s
	}
	var ts []Template
	ts = append(ts, mk("unlock-p2pkh", "", append(push(sig()), push(Key(r, 33))...)))
	ts = append(ts, mk("unlock-p2pk", "", push(sig())))
	ts = append(ts, mk("unlock-multisig", "", append(append([]byte{0x00}, push(sig())...), push(sig())...)))
	return ts
}

// the opcodes put in place of an opcode: every small-integer opcode with both neighbours (OP_0, OP_1NEGATE,
// OP_RESERVED, OP_1..OP_16, OP_NOP), and the opcodes the templates are made of
var opReplacements = func() []byte {
	b := []byte{0x00}
	for v := 0x4f; v <= 0x61; v++ {
		b = append(b, byte(v))
	}
	return append(b, 0x63, 0x68, 0x6a, 0x76, 0x87, 0x88, 0xa9, 0xac, 0xad, 0xae, 0xaf, 0xff, 0x4c, 0x4d, 0x4e, 0x01, 0x4b)
}()

// cutLens: the lengths a push of n bytes is re-cut to: everything up to 3, the neighbourhood of n, the
// neighbourhood of the standard lengths (20-byte hash, 33/65-byte key), the direct-push boundary
func cutLens(n int) []int {
	seen := map[int]bool{}
	var out []int
	add := func(v int) {
		if v >= 0 && v != n && v <= 80 && !seen[v] {
			seen[v] = true
			out = append(out, v)
		}
	}
	for v := 0; v <= 3; v++ {
		add(v)
	}
	for d := -2; d <= 2; d++ {
		add(n + d)
		add(20 + d)
	}
	add(n / 2)
	add(32)
	add(33)
	add(34)
	add(64)
	add(65)
	add(66)
	add(75)
	add(76)
	if n <= 22 {
		for v := 0; v <= 24; v++ {
			add(v)
		}
	}
	return out
}

// recut: data cut or extended to n bytes
func recut(r *common.Rand, d []byte, n int) []byte {
	if n <= len(d) {
		return append([]byte{}, d[:n]...)
	}
	return append(append([]byte{}, d...), r.Bytes(n-len(d))...)
}

// Mutations are the near-misses of one template. full = thorough tier (every byte position x every value, every
// truncation of the big templates, pairs over all pushes).
func Mutations(r *common.Rand, t Template, full bool) []Near {
	var out []Near
	emit := func(kind string, s []byte) { out = append(out, Near{kind + "/" + t.Name, s}) }
	build := func(f func(j int, tok []byte) []byte) []byte {
		var m []byte
		for j, k := range t.Tokens {
			m = append(m, f(j, k)...)
		}
		return m
	}
	replace := func(i int, with []byte) []byte {
		return build(func(j int, tok []byte) []byte {
			if j == i {
				return with
			}
			return tok
		})
	}
	base := t.Bytes()
	n := len(t.Tokens)
	emit("template", base)
	var pushes []int
	for i := range t.Tokens {
		if t.IsPush[i] {
			pushes = append(pushes, i)
		}
	}
	// (a) parts removed: each token, each contiguous range of tokens, each token doubled
	for i := 0; i < n; i++ {
		emit("remove-token", replace(i, nil))
		emit("double-token", replace(i, append(append([]byte{}, t.Tokens[i]...), t.Tokens[i]...)))
		for j := i + 2; j <= n; j++ {
			if j-i == n {
				continue
			}
			emit("remove-range", build(func(k int, tok []byte) []byte {
				if k >= i && k < j {
					return nil
				}
				return tok
			}))
		}
	}
	// (b) parts emptied / shortened / lengthened / re-encoded: each push
	for x, i := range pushes {
		tok := t.Tokens[i]
		d := pushData(tok)
		for _, l := range cutLens(len(d)) {
			if !full && len(pushes) > 8 && x >= 2 && x < len(pushes)-2 && l > 1 && l != len(d)-1 && l != len(d)+1 {
				continue // many-key templates in quick: the inner keys are only emptied, cut to one byte and to the neighbouring lengths
			}
			emit("push-recut", replace(i, push(recut(r, d, l))))
		}
		emit("push->4c00", replace(i, []byte{0x4c, 0x00}))
		emit("push->4d0000", replace(i, []byte{0x4d, 0x00, 0x00}))
		emit("push->4e00000000", replace(i, []byte{0x4e, 0, 0, 0, 0}))
		emit("push-minus-last-byte", replace(i, tok[:len(tok)-1]))
		emit("push-header-only", replace(i, tok[:1]))
		emit("push-pd1", replace(i, append([]byte{0x4c, byte(len(d))}, d...)))
		emit("push-pd2", replace(i, append([]byte{0x4d, byte(len(d)), byte(len(d) >> 8)}, d...)))
		emit("push-pd1-one-more", replace(i, append([]byte{0x4c, byte(len(d) + 1)}, d...)))
		emit("push-pd4-top", replace(i, append([]byte{0x4e, 0xff, 0xff, 0xff, 0xff}, d...)))
		for _, op := range []byte{0x00, 0x4f, 0x51, 0x60} {
			emit("push->opcode", replace(i, []byte{op}))
		}
	}
	// (c) counts and opcodes: each opcode replaced by every small-integer opcode and by the template opcodes
	for i := 0; i < n; i++ {
		if t.IsPush[i] {
			continue
		}
		for _, op := range opReplacements {
			if op != t.Tokens[i][0] {
				emit("op-replaced", replace(i, []byte{op}))
			}
		}
		emit("op->push", replace(i, []byte{0x01, t.Tokens[i][0]}))
	}
	// (d) all pushes at once: emptied (OP_0, PUSHDATA1 0), one, two, three bytes
	if len(pushes) > 0 {
		for _, k := range []int{0, 1, 2, 3} {
			emit("all-pushes-recut", build(func(j int, tok []byte) []byte {
				if !t.IsPush[j] {
					return tok
				}
				return push(recut(r, pushData(tok), k))
			}))
		}
		emit("all-pushes->4c00", build(func(j int, tok []byte) []byte {
			if !t.IsPush[j] {
				return tok
			}
			return []byte{0x4c, 0x00}
		}))
	}
	// (e) pairs of pushes cut to 0 / 1 bytes (a script of the right SHAPE that is much shorter than the template)
	pp := pushes
	if len(pp) > 8 && !full {
		pp = append(append([]int{}, pushes[:2]...), pushes[len(pushes)-2:]...)
	}
	for x := 0; x < len(pp); x++ {
		for y := x + 1; y < len(pp); y++ {
			for _, ab := range [][2]int{{0, 0}, {0, 1}, {1, 0}, {1, 1}} {
				emit("push-pair-recut", build(func(j int, tok []byte) []byte {
					switch j {
					case pp[x]:
						return push(recut(r, pushData(tok), ab[0]))
					case pp[y]:
						return push(recut(r, pushData(tok), ab[1]))
					}
					return tok
				}))
			}
		}
	}
	// (f) the first push cut to 0..3 bytes AND every other push to one byte (and to nothing)
	if len(pushes) > 1 {
		for k := 0; k <= 3; k++ {
			for _, rest := range []int{0, 1} {
				emit("first-push-recut-rest-short", build(func(j int, tok []byte) []byte {
					if !t.IsPush[j] {
						return tok
					}
					if j == pushes[0] {
						return push(recut(r, pushData(tok), k))
					}
					return push(recut(r, pushData(tok), rest))
				}))
			}
		}
	}
	// (g) cut anywhere
	for k := 0; k < len(base); k++ {
		if len(base) > 160 && !full && k >= 40 && k < len(base)-40 {
			continue
		}
		emit("truncate", base[:k])
	}
	emit("append-byte", append(append([]byte{}, base...), byte(r.U64())))
	// (h) single bytes. quick: xor 01, 00 and 4c at the positions that carry the structure (opcodes, push headers, the
	// first and the last byte of each push's data)
	structural := map[int]bool{}
	{
		pos := 0
		for j, tok := range t.Tokens {
			if t.IsPush[j] {
				hdr := len(tok) - len(pushData(tok))
				for k := 0; k <= hdr && k < len(tok); k++ {
					structural[pos+k] = true
				}
				structural[pos+len(tok)-1] = true
			} else {
				structural[pos] = true
			}
			pos += len(tok)
		}
	}
	for pos := range base {
		if !full && !structural[pos] {
			continue
		}
		// thorough: every value at every position of the templates of up to 160 bytes and at the structural positions
		// of the big ones (15 / 16 keys), the quick tier's three values elsewhere
		every := full && (len(base) <= 160 || structural[pos])
		for v := 0; v < 256; v++ {
			if byte(v) == base[pos] {
				continue
			}
			if every || byte(v) == base[pos]^0x01 || v == 0x00 || v == 0x4c {
				m := append([]byte{}, base...)
				m[pos] = byte(v)
				emit("mutate-byte", m)
			}
		}
	}
	return out
}

// CountGrid: OP_m <k keys> OP_n OP_CHECKMULTISIG for m in {0, 1, 2, 16}, n over every small-integer opcode and both
// neighbours (OP_0, OP_1NEGATE, OP_RESERVED, OP_1..OP_16, OP_NOP), and k = 0, 1, 2, 3, 15, 16, 17 keys present:
// the counts the script declares against the items it carries.
func CountGrid(r *common.Rand) []Near {
	var out []Near
	ns := []byte{0x00}
	for v := 0x4f; v <= 0x61; v++ {
		ns = append(ns, byte(v))
	}
	for _, m := range []byte{0x00, 0x51, 0x52, 0x60} {
		for _, nOp := range ns {
			for _, k := range []int{0, 1, 2, 3, 15, 16, 17} {
				s := []byte{m}
				for _, key := range keys(r, k) {
					s = append(s, push(key)...)
				}
				s = append(s, nOp, 0xae)
				out = append(out, Near{"count-grid", s})
			}
		}
	}
	// the same with one-byte "keys" (short scripts), and with the key pushes empty
	for _, nOp := range ns {
		for k := 0; k <= 3; k++ {
			s, e := []byte{0x51}, []byte{0x51}
			for i := 0; i < k; i++ {
				s = append(s, 0x01, byte(2+i))
				e = append(e, 0x00)
			}
			out = append(out, Near{"count-grid-short", append(s, nOp, 0xae)}, Near{"count-grid-empty-keys", append(e, nOp, 0xae)})
		}
	}
	return out
}

// All: the near-misses of every locking and unlocking template and the count grid, without duplicates, in a
// fixed order.
func All(r *common.Rand, full bool) []Near {
	seen := map[string]bool{}
	var out []Near
	add := func(ns []Near) {
		for _, n := range ns {
			if !seen[string(n.Script)] {
				seen[string(n.Script)] = true
				out = append(out, n)
			}
		}
	}
	for _, t := range Templates(r) {
		add(Mutations(r, t, full))
	}
	for _, t := range UnlockTemplates(r) {
		add(Mutations(r, t, full))
	}
	add(CountGrid(r))
	return out
}
