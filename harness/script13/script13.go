// Package script13: script generators shared by the script-level properties (C13, C14):
// token-level construction of scripts with every push form, the tiny-script enumeration, standard
// templates and their mutations.
package script13

import (
	"crypto/sha256"
	"encoding/binary"
	"fmt"
	"strings"

	"verif/harness/common"
)

// Digest is how observation texts are compared with the model: the first 8 bytes of SHA-256 as a
// big-endian number (corr/C13.v, corr/C14.v [digest]).
func Digest(text string) uint64 {
	h := sha256.Sum256([]byte(text))
	return binary.BigEndian.Uint64(h[:8])
}

// Habbr / Sabbr: long byte strings and texts are abbreviated in observation texts (length, both
// ends, byte sum) — the same functions exist in corr/C13.v.
func Habbr(b []byte) string {
	if len(b) <= 80 {
		return common.Hex(b)
	}
	var sum uint32
	for _, x := range b {
		sum += uint32(x)
	}
	return fmt.Sprintf("#%d:%s..%s:%d", len(b), common.Hex(b[:8]), common.Hex(b[len(b)-8:]), sum)
}
func Sabbr(s string) string {
	if len(s) <= 200 {
		return s
	}
	var sum uint32
	for i := 0; i < len(s); i++ {
		sum += uint32(s[i])
	}
	return fmt.Sprintf("#%d:%s..%s:%d", len(s), s[:16], s[len(s)-16:], sum)
}

// CoqBytes renders a byte string as a Gallina term of type bytes with runs of 24 or more equal
// bytes written structurally (blit_bytes (BRep n "xx")), wherever they occur.
func CoqBytes(b []byte) string {
	var parts []string
	lit := func(x []byte) {
		if len(x) > 0 {
			parts = append(parts, common.CoqBytes(x))
		}
	}
	start := 0
	for i := 0; i < len(b); {
		j := i
		for j < len(b) && b[j] == b[i] {
			j++
		}
		if j-i >= 24 {
			lit(b[start:i])
			parts = append(parts, fmt.Sprintf("blit_bytes (BRep %d \"%02x\")", j-i, b[i]))
			start = j
		}
		i = j
	}
	lit(b[start:])
	if len(parts) == 0 {
		return "[]"
	}
	if len(parts) == 1 && !strings.HasPrefix(parts[0], "blit_bytes") {
		return parts[0]
	}
	return "(" + strings.Join(parts, " ++ ") + ")%list"
}

// PushLens are the data lengths on both sides of every push-form boundary.
var PushLens = []int{1, 2, 75, 76, 255, 256, 65535, 65536}

// Push forms.
const (
	FormMinimal = iota
	FormDirect
	FormPD1
	FormPD2
	FormPD4
)

// Header returns the push header of the given form for a data length (no validity check: a
// FormDirect header for n > 75 is simply the byte n, which is not a push opcode).
func Header(form, n int) []byte {
	switch form {
	case FormDirect:
		return []byte{byte(n)}
	case FormPD1:
		return []byte{0x4c, byte(n)}
	case FormPD2:
		b := []byte{0x4d, 0, 0}
		binary.LittleEndian.PutUint16(b[1:], uint16(n))
		return b
	case FormPD4:
		b := []byte{0x4e, 0, 0, 0, 0}
		binary.LittleEndian.PutUint32(b[1:], uint32(n))
		return b
	}
	switch {
	case n <= 75:
		return Header(FormDirect, n)
	case n <= 0xff:
		return Header(FormPD1, n)
	case n <= 0xffff:
		return Header(FormPD2, n)
	}
	return Header(FormPD4, n)
}

// Push is header+data.
func Push(form int, data []byte) []byte {
	return append(Header(form, len(data)), data...)
}

// Fill returns n bytes: random when short (<= 40), one repeated byte when long (so that the Coq literal
// stays compact).
func Fill(r *common.Rand, n int) []byte {
	if n <= 40 {
		return r.Bytes(n)
	}
	b := make([]byte, n)
	v := byte(r.U64())
	for i := range b {
		b[i] = v
	}
	return b
}

// NonPushOps: opcodes that are not pushes (0x00 and everything above OP_PUSHDATA4).
func NonPushOp(r *common.Rand) byte {
	if r.Chance(10) {
		return 0
	}
	if r.Chance(40) {
		return []byte{0x51, 0x52, 0x60, 0x63, 0x64, 0x67, 0x68, 0x69, 0x6a, 0x75, 0x76, 0x87, 0x88, 0xa9, 0xac, 0xad, 0xae, 0xaf, 0xb1, 0xb2, 0x4f, 0x50, 0x61, 0xff}[r.Intn(24)]
	}
	return byte(79 + r.Intn(256-79))
}

// Token of a generated script.
type Token struct {
	Op   byte   // the first byte
	Push bool   // a push (of any form) with Data
	Data []byte // pushed data
	Raw  []byte // the token's bytes
}

// Random returns a script made of n tokens drawn from non-push opcodes and pushes of every form
// (mostly small), and its tokens. With ret, an OP_RETURN is placed at top level or inside an IF.
func Random(r *common.Rand, n int, ret int) ([]byte, []Token) {
	var toks []Token
	add := func(t Token) { toks = append(toks, t) }
	op := func(b byte) { add(Token{Op: b, Raw: []byte{b}}) }
	for i := 0; i < n; i++ {
		switch {
		case r.Chance(55):
			b := NonPushOp(r)
			if b == 0x6a && ret == 0 {
				b = 0x61
			}
			op(b)
		default:
			ln := []int{0, 1, 1, 2, 3, 4, 5, 20, 33, 75, 76, 80}[r.Intn(12)]
			form := FormMinimal
			if r.Chance(30) {
				form = []int{FormPD1, FormPD2, FormPD4}[r.Intn(3)]
			}
			if ln == 0 && form == FormMinimal {
				form = FormPD1
			}
			d := Fill(r, ln)
			raw := Push(form, d)
			add(Token{Op: raw[0], Push: true, Data: d, Raw: raw})
		}
	}
	switch ret {
	case 1: // OP_RETURN at top level somewhere
		k := r.Intn(len(toks) + 1)
		toks = append(toks[:k:k], append([]Token{{Op: 0x6a, Raw: []byte{0x6a}}}, toks[k:]...)...)
	case 2: // OP_IF ... OP_RETURN ... OP_ENDIF ...
		k := r.Intn(len(toks) + 1)
		m := k + r.Intn(len(toks)-k+1)
		var out []Token
		out = append(out, toks[:k]...)
		out = append(out, Token{Op: 0x63, Raw: []byte{0x63}})
		out = append(out, toks[k:m]...)
		out = append(out, Token{Op: 0x6a, Raw: []byte{0x6a}})
		if r.Bool() {
			out = append(out, Token{Op: 0x68, Raw: []byte{0x68}})
		}
		out = append(out, toks[m:]...)
		toks = out
	case 3: // OP_ENDIF first: the conditional depth goes negative
		toks = append([]Token{{Op: 0x68, Raw: []byte{0x68}}}, toks...)
		k := 1 + r.Intn(len(toks))
		toks = append(toks[:k:k], append([]Token{{Op: 0x6a, Raw: []byte{0x6a}}}, toks[k:]...)...)
	}
	var s []byte
	for _, t := range toks {
		s = append(s, t.Raw...)
	}
	return s, toks
}

// AsmDomain returns a script in the domain of the ASM round trip: non-push opcodes and minimal
// pushes of at least two bytes, not starting with OP_RETURN / OP_FALSE OP_RETURN.
func AsmDomain(r *common.Rand, n int) []byte {
	var s []byte
	for i := 0; i < n; i++ {
		if r.Chance(50) {
			b := NonPushOp(r)
			if b == 0x6a && len(s) <= 1 {
				b = 0x76
			}
			s = append(s, b)
		} else {
			ln := []int{2, 2, 3, 4, 5, 20, 33, 65, 75, 76, 77, 255, 256, 300}[r.Intn(14)]
			s = append(s, Push(FormMinimal, Fill(r, ln))...)
		}
	}
	return s
}

// HasOpReturn: an independent scan of the push grammar — is there an OP_RETURN opcode at a token
// boundary before the first truncated push?
func HasOpReturn(s []byte) bool {
	for i := 0; i < len(s); {
		b := s[i]
		if b == 0x6a {
			return true
		}
		var h, l int
		switch {
		case b >= 1 && b <= 75:
			h, l = 0, int(b)
		case b == 0x4c:
			h = 1
			if len(s)-i-1 < h {
				return false
			}
			l = int(s[i+1])
		case b == 0x4d:
			h = 2
			if len(s)-i-1 < h {
				return false
			}
			l = int(binary.LittleEndian.Uint16(s[i+1:]))
		case b == 0x4e:
			h = 4
			if len(s)-i-1 < h {
				return false
			}
			l = int(binary.LittleEndian.Uint32(s[i+1:]))
		default:
			i++
			continue
		}
		if len(s)-i-1-h < l {
			return false
		}
		i += 1 + h + l
	}
	return false
}

// Tiny enumerates every byte string of length <= maxLen in (length, little-endian value) order.
func Tiny(maxLen int, f func(s []byte, length int, v uint64)) {
	for ln := 0; ln <= maxLen; ln++ {
		n := uint64(1) << (8 * uint(ln))
		s := make([]byte, ln)
		for v := uint64(0); v < n; v++ {
			for k := 0; k < ln; k++ {
				s[k] = byte(v >> (8 * uint(k)))
			}
			f(s, ln, v)
		}
	}
}
