// Package jsondoc builds JSON documents for go-bt's unmarshalling entry points together with the
// struct-level value encoding/json turns them into, printed as a Gallina term of coq/model/Json.v.
// A document that encoding/json itself rejects (a mistyped field) has no struct-level value: its
// Coq term is empty and only the Go-level predicates (no panic, bounded allocation) apply to it.
package jsondoc

import (
	"fmt"
	"math"
	"strconv"
	"strings"

	"verif/harness/common"
)

type Doc struct {
	Entry string // tx | nodetx | nodetxs | txs | nodeout | out | in | utxo | nodeutxo | nodeutxos
	Class string
	JSON  string
	Coq   string
}

// how a field appears in the document
const (
	Present = iota
	Absent
	Null
	Mistyped
)

type Str struct {
	Mode int
	V    string
}

func S(v string) Str { return Str{Present, v} }

// field renders `"key":value,` (nothing when absent); mistyped strings are numbers
func (s Str) field(key string) string {
	switch s.Mode {
	case Absent:
		return ""
	case Null:
		return fmt.Sprintf("%q:null,", key)
	case Mistyped:
		return fmt.Sprintf("%q:12345,", key)
	}
	return fmt.Sprintf("%q:%s,", key, strconv.Quote(s.V))
}

// struct-level value of a string field
func (s Str) val() string {
	if s.Mode == Present {
		return s.V
	}
	return ""
}

func obj(fields ...string) string {
	return "{" + strings.TrimSuffix(strings.Join(fields, ""), ",") + "}"
}

// CoqF64 prints a float64 as the (sign, significand, exponent) literal of corr/C09.v
func CoqF64(v float64) string {
	bits := math.Float64bits(v)
	neg := bits>>63 == 1
	exp := int64(bits>>52) & 0x7ff
	frac := bits & (1<<52 - 1)
	var m uint64
	var e int64
	if exp == 0 {
		m, e = frac, -1074
	} else {
		m, e = frac|1<<52, exp-1075
	}
	return fmt.Sprintf("(f64_lit %s %d (%d)%%Z)", common.CoqBool(neg), m, e)
}

// amounts the model is compared on: inside the uint64 range after scaling (outside it Go's
// float-to-integer conversion is implementation specific)
func amountComparable(v float64) bool { return v == 0 || (v > 0 && v <= 1e11) }

// ---------- node dialect ----------

type SS struct {
	Mode int
	Asm  string
	Hex  Str
}
type Vin struct {
	Null bool
	SS   SS
	Txid Str
	Vout uint32
	Seq  uint32
}
type SPK struct {
	Mode int
	Hex  Str
}
type Vout struct {
	Null     bool
	ValueRaw string // the number as written; "" = absent; `"x"` = mistyped
	N        int
	SPK      SPK
}
type NodeTx struct {
	Hex      Str
	Version  uint32
	Lock     uint32
	Vin      []Vin
	VinMode  int
	Vout     []Vout
	VoutMode int
	// SizeRaw, TxidRaw: the informational members a node adds ("size", "txid", "hash"); the decoder has no use for them,
	// whatever they say ("" = 0 / the empty string)
	SizeRaw string
	TxidRaw string
}

func (v Vout) value() (float64, bool) {
	if v.ValueRaw == "" {
		return 0, true
	}
	f, err := strconv.ParseFloat(v.ValueRaw, 64)
	return f, err == nil
}

func (s SS) json() string {
	switch s.Mode {
	case Absent:
		return ""
	case Null:
		return `"scriptSig":null,`
	case Mistyped:
		return `"scriptSig":"483045",`
	}
	return `"scriptSig":` + obj(fmt.Sprintf(`"asm":%q,`, s.Asm), s.Hex.field("hex")) + ","
}
func (s SPK) json() string {
	switch s.Mode {
	case Absent:
		return ""
	case Null:
		return `"scriptPubKey":null,`
	case Mistyped:
		return `"scriptPubKey":["76a9"],`
	}
	return `"scriptPubKey":` + obj(`"asm":"",`, s.Hex.field("hex"), `"reqSigs":1,`, `"type":"pubkeyhash",`) + ","
}

func (v Vin) json() string {
	if v.Null {
		return "null"
	}
	return obj(v.SS.json(), v.Txid.field("txid"), fmt.Sprintf(`"vout":%d,`, v.Vout), fmt.Sprintf(`"sequence":%d,`, v.Seq))
}
func (v Vin) coq() (string, bool) {
	if v.Null {
		return "None", true
	}
	if v.SS.Mode == Mistyped || v.SS.Hex.Mode == Mistyped || v.Txid.Mode == Mistyped {
		return "", false
	}
	ss := "None"
	if v.SS.Mode == Present {
		ss = fmt.Sprintf("(Some (mkSS %s %s))", common.CoqStr(v.SS.Asm), common.CoqStr(v.SS.Hex.val()))
	}
	return fmt.Sprintf("(Some (mkNI %s %s %d %d))", ss, common.CoqStr(v.Txid.val()), v.Vout, v.Seq), true
}
func (v Vout) json() string {
	if v.Null {
		return "null"
	}
	val := ""
	if v.ValueRaw != "" {
		val = `"value":` + v.ValueRaw + ","
	}
	return obj(val, fmt.Sprintf(`"n":%d,`, v.N), v.SPK.json())
}
func (v Vout) coq() (string, bool) {
	if v.Null {
		return "None", true
	}
	f, ok := v.value()
	if !ok || !amountComparable(f) || v.SPK.Mode == Mistyped || v.SPK.Hex.Mode == Mistyped || v.N < 0 {
		return "", false // (a negative "n" is outside the model's natural-number field: Go-level predicates only)
	}
	spk := "None"
	if v.SPK.Mode == Present {
		spk = fmt.Sprintf("(Some (mkSPK \"\" %s 1 \"pubkeyhash\"))", common.CoqStr(v.SPK.Hex.val()))
	}
	return fmt.Sprintf("(Some (mkNO %s %d %s))", CoqF64(f), v.N, spk), true
}

func list(mode int, key string, items []string) string {
	switch mode {
	case Absent:
		return ""
	case Null:
		return fmt.Sprintf("%q:null,", key)
	case Mistyped:
		return fmt.Sprintf("%q:\"none\",", key)
	}
	return fmt.Sprintf("%q:[%s],", key, strings.Join(items, ","))
}

func (t NodeTx) JSON() string {
	var vin, vout []string
	for _, v := range t.Vin {
		vin = append(vin, v.json())
	}
	for _, v := range t.Vout {
		vout = append(vout, v.json())
	}
	size := t.SizeRaw
	if size == "" {
		size = "0"
	}
	return obj(fmt.Sprintf(`"version":%d,`, t.Version), fmt.Sprintf(`"locktime":%d,`, t.Lock), fmt.Sprintf(`"txid":%q,`, t.TxidRaw), fmt.Sprintf(`"hash":%q,`, t.TxidRaw), `"size":`+size+`,`,
		t.Hex.field("hex"), list(t.VinMode, "vin", vin), list(t.VoutMode, "vout", vout))
}
func (t NodeTx) Coq() string {
	if t.Hex.Mode == Mistyped || t.VinMode == Mistyped || t.VoutMode == Mistyped {
		return ""
	}
	var vin, vout []string
	if t.VinMode == Present {
		for _, v := range t.Vin {
			s, ok := v.coq()
			if !ok {
				return ""
			}
			vin = append(vin, s)
		}
	}
	if t.VoutMode == Present {
		for _, v := range t.Vout {
			s, ok := v.coq()
			if !ok {
				return ""
			}
			vout = append(vout, s)
		}
	}
	return fmt.Sprintf("(mkNT %d %d \"\" \"\" 0 %s [%s] [%s])", t.Version, t.Lock, common.CoqStr(t.Hex.val()), strings.Join(vin, "; "), strings.Join(vout, "; "))
}

// ---------- library dialect ----------

type LibIn struct {
	Null   bool
	Unlock Str
	Txid   Str
	Vout   uint32
	Seq    uint32
}
type LibOut struct {
	Null bool
	Sats uint64
	Lock Str
}
type LibTx struct {
	Hex      Str
	Ins      []LibIn
	InsMode  int
	Outs     []LibOut
	OutsMode int
	Version  uint32
	Lock     uint32
}

func (i LibIn) json() string {
	if i.Null {
		return "null"
	}
	return obj(i.Unlock.field("unlockingScript"), i.Txid.field("txid"), fmt.Sprintf(`"vout":%d,`, i.Vout), fmt.Sprintf(`"sequence":%d,`, i.Seq))
}
func (i LibIn) coq() (string, bool) {
	if i.Null {
		return "None", true
	}
	if i.Unlock.Mode == Mistyped || i.Txid.Mode == Mistyped {
		return "", false
	}
	return fmt.Sprintf("(Some (mkInputJ %s %s %d %d))", common.CoqStr(i.Unlock.val()), common.CoqStr(i.Txid.val()), i.Vout, i.Seq), true
}
func (o LibOut) json() string {
	if o.Null {
		return "null"
	}
	return obj(fmt.Sprintf(`"satoshis":%d,`, o.Sats), o.Lock.field("lockingScript"))
}
func (o LibOut) coq() (string, bool) {
	if o.Null {
		return "None", true
	}
	if o.Lock.Mode == Mistyped {
		return "", false
	}
	return fmt.Sprintf("(Some (mkOutputJ %d %s))", o.Sats, common.CoqStr(o.Lock.val())), true
}
func (t LibTx) JSON() string {
	var ins, outs []string
	for _, v := range t.Ins {
		ins = append(ins, v.json())
	}
	for _, v := range t.Outs {
		outs = append(outs, v.json())
	}
	return obj(`"txid":"",`, t.Hex.field("hex"), list(t.InsMode, "inputs", ins), list(t.OutsMode, "outputs", outs),
		fmt.Sprintf(`"version":%d,`, t.Version), fmt.Sprintf(`"lockTime":%d,`, t.Lock))
}
func (t LibTx) Coq() string {
	if t.Hex.Mode == Mistyped || t.InsMode == Mistyped || t.OutsMode == Mistyped {
		return ""
	}
	var ins, outs []string
	if t.InsMode == Present {
		for _, v := range t.Ins {
			s, ok := v.coq()
			if !ok {
				return ""
			}
			ins = append(ins, s)
		}
	}
	if t.OutsMode == Present {
		for _, v := range t.Outs {
			s, ok := v.coq()
			if !ok {
				return ""
			}
			outs = append(outs, s)
		}
	}
	return fmt.Sprintf("(mkTxJ \"\" %s [%s] [%s] %d %d)", common.CoqStr(t.Hex.val()), strings.Join(ins, "; "), strings.Join(outs, "; "), t.Version, t.Lock)
}

type Utxo struct {
	Txid      Str
	Vout      uint32
	Script    Str
	Sats      uint64 // library dialect
	AmountRaw string // node dialect ("" = absent)
}

func (u Utxo) LibJSON() string {
	return obj(u.Txid.field("txid"), fmt.Sprintf(`"vout":%d,`, u.Vout), u.Script.field("lockingScript"), fmt.Sprintf(`"satoshis":%d,`, u.Sats))
}
func (u Utxo) LibCoq() string {
	if u.Txid.Mode == Mistyped || u.Script.Mode == Mistyped {
		return ""
	}
	return fmt.Sprintf("(mkUtxoJ %s %d %s %d)", common.CoqStr(u.Txid.val()), u.Vout, common.CoqStr(u.Script.val()), u.Sats)
}
func (u Utxo) NodeJSON() string {
	am := ""
	if u.AmountRaw != "" {
		am = `"amount":` + u.AmountRaw + ","
	}
	return obj(u.Txid.field("txid"), fmt.Sprintf(`"vout":%d,`, u.Vout), u.Script.field("scriptPubKey"), am)
}
func (u Utxo) NodeCoq() string {
	if u.Txid.Mode == Mistyped || u.Script.Mode == Mistyped {
		return ""
	}
	f := 0.0
	if u.AmountRaw != "" {
		var err error
		if f, err = strconv.ParseFloat(u.AmountRaw, 64); err != nil || !amountComparable(f) {
			return ""
		}
	}
	return fmt.Sprintf("(mkUtxoN %s %d %s %s)", common.CoqStr(u.Txid.val()), u.Vout, common.CoqStr(u.Script.val()), CoqF64(f))
}

// ---------- enumeration ----------

const p2pkh = "76a914000102030405060708090a0b0c0d0e0f1011121388ac"

var goodTxid = strings.Repeat("ab", 32)

func strVariants(good string) []Str {
	return []Str{S(good), S(""), S("zz"), S("abc"), S("0g"), S(strings.ToUpper(good)), S(" " + good), {Absent, ""}, {Null, ""}, {Mistyped, ""}}
}
func txidVariants() []Str {
	return []Str{S(goodTxid), S(goodTxid[:62]), S(goodTxid + "00"), S(""), S("zz" + goodTxid[2:]), S(goodTxid[:63]), {Absent, ""}, {Null, ""}, {Mistyped, ""}}
}

var amountRaws = []string{"0", "-0", "1e-8", "0.00000001", "0.00000003", "5e-9", "0.000000005", "1.5e-8", "2.5e-8", "4.9e-9", "1", "1.5", "0.1", "0.30000000000000004",
	"20999999.99999999", "21000000", "0.12345678", "123456.78901234", "5e-324", "1e-320", "99999999999", "1e11",
	// not compared with the model (outside the uint64 range after scaling): Go-level predicates only
	"-1", "-0.00000001", "1e300", "184467440737.09551616", "1e12", `"1.0"`, "true"}

// All returns the documents of one run. validTx is a serialised transaction used for the hex field.
func All(r *common.Rand, big bool, validTx []byte) []Doc {
	var out []Doc
	add := func(entry, class, js, coq string) { out = append(out, Doc{entry, class, js, coq}) }
	validHex := common.Hex(validTx)

	goodVin := Vin{SS: SS{Present, "", S("5151")}, Txid: S(goodTxid), Vout: 1, Seq: 0xffffffff}
	goodVout := Vout{ValueRaw: "0.00000003", N: 0, SPK: SPK{Present, S(p2pkh)}}
	base := func() NodeTx {
		return NodeTx{Hex: Str{Absent, ""}, Version: 2, Lock: 9, Vin: []Vin{goodVin}, Vout: []Vout{goodVout}}
	}
	addNode := func(class string, t NodeTx) { add("nodetx", class, t.JSON(), t.Coq()) }

	// node tx: the vin/vout path with every optional object missing / null / mistyped / bad hex
	addNode("node/base", base())
	for _, m := range []int{Absent, Null, Mistyped} {
		t := base()
		t.Vin[0].SS.Mode = m
		addNode("node/scriptSig", t)
		t = base()
		t.Vout[0].SPK.Mode = m
		addNode("node/scriptPubKey", t)
		t = base()
		t.VinMode = m
		addNode("node/vin-list", t)
		t = base()
		t.VoutMode = m
		addNode("node/vout-list", t)
	}
	for _, h := range strVariants("5152") {
		t := base()
		t.Vin[0].SS.Hex = h
		addNode("node/scriptSig.hex", t)
	}
	for _, h := range strVariants(p2pkh) {
		t := base()
		t.Vout[0].SPK.Hex = h
		addNode("node/scriptPubKey.hex", t)
	}
	for _, h := range txidVariants() {
		t := base()
		t.Vin[0].Txid = h
		addNode("node/vin.txid", t)
	}
	for _, a := range amountRaws {
		t := base()
		t.Vout[0].ValueRaw = a
		addNode("node/value", t)
	}
	// the position a node reports for an output ("n") is data like any other: negative, repeated, out of range, permuted
	for _, n := range []int{-1, -2, -1 << 31, -1 << 63, 1, 7, 1 << 31, 1<<63 - 1} {
		t := base()
		t.Vout[0].N = n
		addNode("node/vout.n", t)
		t = base()
		t.Vout = append(t.Vout, goodVout, goodVout)
		t.Vout[1].N, t.Vout[2].N = n, 0
		addNode("node/vout.n", t)
	}
	{
		t := base()
		t.Vout[0].ValueRaw = ""
		addNode("node/value", t)
		t = base()
		t.Vin = []Vin{goodVin, {Null: true}}
		addNode("node/null-element", t)
		t = base()
		t.Vout = []Vout{{Null: true}, goodVout}
		addNode("node/null-element", t)
		t = base()
		t.Vin, t.Vout = nil, nil
		addNode("node/empty", t)
		// an error in the second element after a good first one; outputs are converted before inputs
		t = base()
		t.Vin = []Vin{goodVin, {SS: SS{Mode: Absent}, Txid: S(goodTxid)}}
		t.Vout = []Vout{goodVout, {ValueRaw: "1", SPK: SPK{Mode: Null}}}
		addNode("node/second-element", t)
	}
	// node tx: the hex shortcut, valid / invalid / hostile
	hostileHex := "0100000001" + strings.Repeat("aa", 36) + "ff0000000000010000" + "51"
	hexes := []Str{S(validHex), S(validHex + "00"), S(validHex[:len(validHex)-2]), S(validHex[:len(validHex)-1]), S("zz"), S(strings.ToUpper(validHex)),
		S(hostileHex), S("0100000001" + strings.Repeat("aa", 36) + "ffffffffffffffffff"), S("01000000ff00"), S("00"), {Null, ""}, {Mistyped, ""}, S(""),
		// one- and two-character strings (prefix tests index into them), prefixes other tools emit
		S("0"), S("1"), S("a"), S("z"), S("x"), S("0x"), S("0X"), S("0g"), S("000"), S("0x" + validHex), S(" " + validHex), S("\\x00")}
	for _, h := range hexes {
		t := base()
		t.Hex = h
		addNode("node/hex", t)
		// with hex present the vin/vout objects are ignored, broken or not
		t.Vin[0].SS.Mode = Absent
		t.Vout[0].SPK.Mode = Null
		addNode("node/hex+broken-objects", t)
	}

	// the informational members carry numbers and strings of the sender's choosing: nothing may be sized, indexed or
	// trusted by them, with the hex shortcut and without it
	for _, sz := range []string{"-1", "-9223372036854775808", "1", "268435456", "1099511627776", "9223372036854775807"} {
		for _, h := range []Str{S(validHex), {Absent, ""}, S(validHex[:len(validHex)-2])} {
			t := base()
			t.Hex, t.SizeRaw = h, sz
			t.TxidRaw = strings.Repeat("ab", 32)
			addNode("node/size-and-txid-members", t)
		}
	}

	// library tx
	goodIn := LibIn{Unlock: S("5151"), Txid: S(goodTxid), Vout: 3, Seq: 7}
	goodOut := LibOut{Sats: 1000, Lock: S(p2pkh)}
	lbase := func() LibTx {
		return LibTx{Hex: S(validHex), Ins: []LibIn{goodIn}, Outs: []LibOut{goodOut}, Version: 5, Lock: 6}
	}
	addLib := func(class string, t LibTx) { add("tx", class, t.JSON(), t.Coq()) }
	addLib("lib/base", lbase())
	for _, h := range hexes {
		t := lbase()
		t.Hex = h
		addLib("lib/hex", t)
	}
	{
		t := lbase()
		t.Hex = Str{Absent, ""}
		addLib("lib/hex", t)
	}
	for _, withHex := range []bool{true, false} {
		for _, h := range strVariants("5152") {
			t := lbase()
			if !withHex {
				t.Hex = Str{Absent, ""}
			}
			t.Ins[0].Unlock = h
			addLib("lib/input.unlockingScript", t)
			t = lbase()
			if !withHex {
				t.Hex = Str{Absent, ""}
			}
			t.Outs[0].Lock = h
			addLib("lib/output.lockingScript", t)
		}
		for _, h := range txidVariants() {
			t := lbase()
			if !withHex {
				t.Hex = Str{Absent, ""}
			}
			t.Ins[0].Txid = h
			addLib("lib/input.txid", t)
		}
		for _, m := range []int{Absent, Null, Mistyped} {
			t := lbase()
			if !withHex {
				t.Hex = Str{Absent, ""}
			}
			t.InsMode = m
			addLib("lib/inputs-list", t)
			t.InsMode, t.OutsMode = Present, m
			addLib("lib/outputs-list", t)
		}
		t := lbase()
		if !withHex {
			t.Hex = Str{Absent, ""}
		}
		t.Ins = []LibIn{{Null: true}, goodIn}
		t.Outs = []LibOut{goodOut, {Null: true}}
		addLib("lib/null-element", t)
	}

	// node output
	addOut := func(class string, v Vout) {
		coq, ok := v.coq()
		if !ok {
			coq = ""
		}
		add("nodeout", class, v.json(), coq)
	}
	addOut("nodeout/base", goodVout)
	addOut("nodeout/null", Vout{Null: true})
	for _, m := range []int{Absent, Null, Mistyped} {
		v := goodVout
		v.SPK.Mode = m
		addOut("nodeout/scriptPubKey", v)
	}
	for _, h := range strVariants(p2pkh) {
		v := goodVout
		v.SPK.Hex = h
		addOut("nodeout/scriptPubKey.hex", v)
	}
	for _, a := range amountRaws {
		v := goodVout
		v.ValueRaw = a
		addOut("nodeout/value", v)
	}

	// UTXOs
	ubase := Utxo{Txid: S(goodTxid), Vout: 4, Script: S(p2pkh), Sats: 1234, AmountRaw: "0.00001234"}
	addU := func(class string, u Utxo) {
		add("utxo", class, u.LibJSON(), u.LibCoq())
		add("nodeutxo", class, u.NodeJSON(), u.NodeCoq())
	}
	addU("utxo/base", ubase)
	for _, h := range txidVariants() {
		u := ubase
		u.Txid = h
		addU("utxo/txid", u)
	}
	for _, h := range strVariants(p2pkh) {
		u := ubase
		u.Script = h
		addU("utxo/script", u)
	}
	for _, a := range amountRaws {
		u := ubase
		u.AmountRaw = a
		add("nodeutxo", "utxo/amount", u.NodeJSON(), u.NodeCoq())
	}
	for _, s := range []uint64{0, 1, 1<<64 - 1} {
		u := ubase
		u.Sats = s
		add("utxo", "utxo/satoshis", u.LibJSON(), u.LibCoq())
	}

	// lists (node dialect): the first failing element aborts
	{
		good, bad := base(), base()
		bad.Vin[0].SS.Mode = Absent
		hexed := base()
		hexed.Hex = S(validHex)
		for _, l := range [][]NodeTx{{}, {good}, {good, hexed}, {good, bad, good}, {hexed, hexed, hexed}, {bad}} {
			var js, cq []string
			for _, t := range l {
				js = append(js, t.JSON())
				cq = append(cq, t.Coq())
			}
			add("nodetxs", "nodetxs/list", "["+strings.Join(js, ",")+"]", "["+strings.Join(cq, "; ")+"]")
		}
		add("nodetxs", "nodetxs/junk", `[null]`, "")
		add("nodetxs", "nodetxs/junk", `[5,"x"]`, "")
		add("nodeutxos", "nodeutxos/list", "["+ubase.NodeJSON()+","+Utxo{Txid: S("zz")}.NodeJSON()+"]", "")
		add("nodeutxos", "nodeutxos/list", "[null,"+ubase.NodeJSON()+"]", "")
		add("txs", "txs/list", "["+lbase().JSON()+",null,"+lbase().JSON()+"]", "")
	}

	// documents encoding/json has to deal with alone, into every entry point
	junk := []string{`null`, `[]`, `{}`, `"x"`, `123`, `true`, `{"hex":123}`, `{"hex":"`, `{"vin":[{}],"vout":[{}]}`, `{"vin":[[]]}`, `{"vout":{"0":{}}}`,
		`{"inputs":[5],"outputs":["x"]}`, `{"inputs":[{"txid":5}]}`, `{"scriptPubKey":{}}`, `{"scriptPubKey":{"hex":null}}`, `{"scriptSig":{}}`,
		`{"value":1e400,"scriptPubKey":{"hex":""}}`, `{"amount":1e400}`, `{"vout":4294967296}`, `{"satoshis":-1}`, `{"satoshis":18446744073709551616}`,
		`{"version":1.5}`, strings.Repeat("[", 20000), strings.Repeat(`{"vin":[`, 3000), "", " ", "\x00", `{"hex":"` + strings.Repeat("00", 5000) + `"}`}
	for _, j := range junk {
		for _, e := range []string{"tx", "nodetx", "nodetxs", "txs", "nodeout", "out", "in", "utxo", "nodeutxo", "nodeutxos"} {
			add(e, "junk", j, "")
		}
	}

	// random combinations
	n := 60
	if big {
		n = 3000
	}
	pickS := func(vs []Str) Str { return vs[r.Intn(len(vs))] }
	for i := 0; i < n; i++ {
		t := NodeTx{Hex: Str{Absent, ""}, Version: uint32(r.U64()), Lock: uint32(r.U64())}
		if r.Chance(15) {
			t.Hex = pickS(hexes)
		}
		for k := r.Intn(3); k > 0; k-- {
			v := Vin{Null: r.Chance(8), SS: SS{Mode: []int{Present, Present, Present, Absent, Null}[r.Intn(5)], Hex: S("51")}, Txid: S(goodTxid), Vout: uint32(r.U64()), Seq: uint32(r.U64())}
			if r.Chance(25) {
				v.SS.Hex = pickS(strVariants("5152"))
			}
			if r.Chance(25) {
				v.Txid = pickS(txidVariants())
			}
			t.Vin = append(t.Vin, v)
		}
		for k := r.Intn(3); k > 0; k-- {
			v := Vout{Null: r.Chance(8), ValueRaw: amountRaws[r.Intn(22)], N: r.Intn(5), SPK: SPK{Mode: []int{Present, Present, Present, Absent, Null}[r.Intn(5)], Hex: S(p2pkh)}}
			if r.Chance(25) {
				v.SPK.Hex = pickS(strVariants(p2pkh))
			}
			if r.Chance(40) {
				v.ValueRaw = strconv.FormatFloat(float64(r.U64()%2100000000000000)/1e8, 'f', -1, 64)
			}
			t.Vout = append(t.Vout, v)
		}
		addNode("node/random", t)
	}
	return out
}
