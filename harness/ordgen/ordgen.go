// Package ordgen: scenarios for the ordinals sale / bid flows (C20), the code that drives the real
// flows of github.com/libsv/go-bt/v2/ord through their public API, and the property stated
// directly in Go on every produced transaction (interpreter acceptance of every input, position of
// the seller's output, first-in-first-out routing of the ordinal satoshi, fee adequacy), each written
// independently of the library's own helpers wherever that is possible.
package ordgen

import (
	"bytes"
	"context"
	"encoding/json"
	"fmt"
	"math/big"
	"strings"

	"github.com/libsv/go-bk/bec"
	"github.com/libsv/go-bk/crypto"
	"github.com/libsv/go-bt/v2"
	"github.com/libsv/go-bt/v2/bscript"
	"github.com/libsv/go-bt/v2/bscript/interpreter"
	"github.com/libsv/go-bt/v2/ord"
	"github.com/libsv/go-bt/v2/unlocker"

	"verif/harness/common"
	"verif/harness/feegen"
)

// Key: a seeded secp256k1 key.
type Key struct {
	Seed string `json:"seed"` // 32 bytes hex
}

func (k Key) Priv() *bec.PrivateKey {
	p, _ := bec.PrivKeyFromBytes(bec.S256(), common.Unhex(k.Seed))
	return p
}
func (k Key) Hash160() []byte { return crypto.Hash160(k.Priv().PubKey().SerialiseCompressed()) }
func (k Key) P2PKH() []byte   { return feegen.P2PKH(k.Hash160()) }

// U: one previous output. Script is its full locking script (P2PKH of Key, optionally followed by an
// inscription envelope).
type U struct {
	Txid   string `json:"txid"`
	Vout   uint32 `json:"vout"`
	Sats   uint64 `json:"sats"`
	Script string `json:"script"`
	Key    Key    `json:"key"`
}

// MarshalJSON: the same fields; a script longer than 600 bytes is written run-length compressed as "script_rle"
// (hex, with every run of 32 or more equal bytes written as "[<byte hex>x<count>]") instead of "script", so that
// scenarios spending outputs with 64 KiB payloads stay small in cases.jsonl, samples and replay files.
func (u U) MarshalJSON() ([]byte, error) {
	type plain U
	raw := common.Unhex(u.Script)
	if len(raw) <= 600 {
		return json.Marshal(plain(u))
	}
	return json.Marshal(struct {
		Txid      string `json:"txid"`
		Vout      uint32 `json:"vout"`
		Sats      uint64 `json:"sats"`
		ScriptRLE string `json:"script_rle"`
		ScriptLen int    `json:"script_len"`
		Key       Key    `json:"key"`
	}{u.Txid, u.Vout, u.Sats, RLEHex(raw), len(raw), u.Key})
}

// RLEHex: hex with runs of 32 or more equal bytes written as "[<byte hex>x<count>]".
func RLEHex(b []byte) string {
	var sb strings.Builder
	for i := 0; i < len(b); {
		j := i
		for j < len(b) && b[j] == b[i] {
			j++
		}
		if j-i >= 32 {
			fmt.Fprintf(&sb, "[%02xx%d]", b[i], j-i)
		} else {
			sb.WriteString(common.Hex(b[i:j]))
		}
		i = j
	}
	return sb.String()
}

// Push: the minimal push of d as Script.AppendPushData has to encode it (direct length up to 75 bytes, then
// OP_PUSHDATA1 / 2 / 4), written here independently of the library. An empty d is the single byte OP_0.
func Push(d []byte) []byte {
	n := len(d)
	var s []byte
	switch {
	case n <= 75:
		s = []byte{byte(n)}
	case n <= 0xff:
		s = []byte{0x4c, byte(n)}
	case n <= 0xffff:
		s = []byte{0x4d, byte(n), byte(n >> 8)}
	default:
		s = []byte{0x4e, byte(n), byte(n >> 8), byte(n >> 16), byte(n >> 24)}
	}
	return append(s, d...)
}

// InscriptionScript: P2PKH(h20) OP_FALSE OP_IF "ord" OP_1 <content type> OP_0 <data> OP_ENDIF with pushes of any length
// (feegen.Inscription only writes direct pushes).
func InscriptionScript(h20, ctype, data []byte) []byte {
	s := feegen.P2PKH(h20)
	s = append(s, 0x00, 0x63, 0x03, 'o', 'r', 'd', 0x51)
	s = append(s, Push(ctype)...)
	s = append(s, 0x00)
	s = append(s, Push(data)...)
	return append(s, 0x68)
}

func (u U) Coq() string {
	return fmt.Sprintf("(mkUtxo %s %d %s %d)", feegen.CoqBytes(common.Unhex(u.Txid)), u.Vout, feegen.CoqBytes(common.Unhex(u.Script)), u.Sats)
}

func (u U) BT(withUnlocker bool) *bt.UTXO {
	ls := bscript.NewFromBytes(common.Unhex(u.Script))
	x := &bt.UTXO{TxID: common.Unhex(u.Txid), Vout: u.Vout, Satoshis: u.Sats, LockingScript: ls}
	if withUnlocker {
		var ul bt.Unlocker = &unlocker.Simple{PrivateKey: u.Key.Priv()}
		x.Unlocker = &ul
	}
	return x
}

// Scenario: everything the four flows are given.
type Scenario struct {
	Flow         string        `json:"flow"` // list | list2d | bid | bid2d
	Ord          U             `json:"ord"`
	Price        uint64        `json:"price"`
	SellerScript string        `json:"seller_script"` // where the seller wants to be paid
	Funding      []U           `json:"funding"`
	Buyer        string        `json:"buyer_script"`
	Dummy        string        `json:"dummy_script"`
	Change       string        `json:"change_script"`
	Quote        feegen.Quote  `json:"quote"`
	Expected     *feegen.Quote `json:"expected_quote,omitempty"` // bid flows: the seller's ExpectedFQ when it differs
	ListedOther  bool          `json:"listed_other,omitempty"`   // validation is given some other UTXO than the one listed / bid for
	// TamperPay (bid flow): the partially signed bid reaches the seller with this amount on the payment output instead
	// of the bid amount (no bidder signature covers that output); 0 = as made
	TamperPay uint64 `json:"tamper_pay,omitempty"`
	Note      string `json:"note,omitempty"`
}

func (s Scenario) TwoD() bool  { return s.Flow == "list2d" || s.Flow == "bid2d" }
func (s Scenario) IsBid() bool { return s.Flow == "bid" || s.Flow == "bid2d" }

// OrdIdx: the index at which the flow places the ordinal input (and, in listing flows, the seller's output).
func (s Scenario) OrdIdx() int {
	if s.TwoD() {
		return 2
	}
	return 1
}

// Result of driving a scenario through the library.
type Result struct {
	Listing  *bt.Tx // ListOrdinalForSale result (listing flows)
	ListErr  error
	PSTx     *bt.Tx // MakeBid result (bid flows), copied before acceptance touches it
	MakeErr  error
	Final    *bt.Tx
	Err      error
	Panicked bool
	PanicMsg string
	// ArgsChanged: a UTXO object the caller handed to a flow reads differently after the call ("" = none did)
	ArgsChanged string
	// the two scripts the bid flows invent (read back from the partially signed tx)
	BidOrdScript []byte
	BidPayScript []byte
}

// watch remembers what the caller's UTXO objects say; the returned function names the first that says something else later.
func watch(what string, us []*bt.UTXO) func() string {
	show := func(u *bt.UTXO) string {
		if u == nil {
			return "nil"
		}
		ls := "nil"
		if u.LockingScript != nil {
			ls = common.Hex(*u.LockingScript)
		}
		return fmt.Sprintf("%x:%d %d sats script %s seq %d", u.TxID, u.Vout, u.Satoshis, ls, u.SequenceNumber)
	}
	us = append([]*bt.UTXO{}, us...) // the objects, whatever the flow does to the order of the caller's slice
	before := make([]string, len(us))
	for i, u := range us {
		before[i] = show(u)
	}
	return func() string {
		for i, u := range us {
			if now := show(u); now != before[i] {
				return fmt.Sprintf("%s[%d] was {%s}, after the call it is {%s}", what, i, before[i], now)
			}
		}
		return ""
	}
}

func sc(h string) *bscript.Script { return bscript.NewFromBytes(common.Unhex(h)) }

func (s Scenario) fundingBT() []*bt.UTXO {
	var us []*bt.UTXO
	for _, u := range s.Funding {
		us = append(us, u.BT(true))
	}
	return us
}

func (s Scenario) expectedFQ() *bt.FeeQuote {
	if s.Expected != nil {
		return s.Expected.Build()
	}
	return s.Quote.Build()
}

// FinalQuote: the quote handed to the flow that returns the completed transaction (the buyer's in the
// listing flows, the seller's ExpectedFQ in the bid flows).
func (s Scenario) FinalQuote() feegen.Quote {
	if s.IsBid() && s.Expected != nil {
		return *s.Expected
	}
	return s.Quote
}

// listedUTXO is what the validating side believes is being sold.
func (s Scenario) listedUTXO() *bt.UTXO {
	u := s.Ord.BT(false)
	if s.ListedOther {
		id := append([]byte{}, u.TxID...)
		id[0] ^= 1
		u.TxID = id
	}
	return u
}

// Run drives the flow.
func Run(s Scenario) (res Result) {
	ctx := context.Background()
	res.Panicked, res.PanicMsg = common.Safely(func() {
		ordUnlocker := &unlocker.Simple{PrivateKey: s.Ord.Key.Priv()}
		if !s.IsBid() {
			res.Listing, res.ListErr = ord.ListOrdinalForSale(ctx, &ord.ListOrdinalArgs{
				SellerReceiveOutput: &bt.Output{Satoshis: s.Price, LockingScript: sc(s.SellerScript)},
				OrdinalUTXO:         s.Ord.BT(false),
				OrdinalUnlocker:     ordUnlocker,
			})
			if res.ListErr != nil {
				res.Err = res.ListErr
				return
			}
			// the buyer receives the listing as a transaction object; keep an untouched copy for the checks
			pstx := res.Listing
			res.Listing = cloneFull(pstx)
			vla := &ord.ValidateListingArgs{ListedOrdinalUTXO: s.listedUTXO()}
			asoa := &ord.AcceptListingArgs{PSTx: pstx, UTXOs: s.fundingBT(), BuyerReceiveOrdinalScript: sc(s.Buyer),
				DummyOutputScript: sc(s.Dummy), ChangeScript: sc(s.Change), FQ: s.Quote.Build()}
			w1, w2 := watch("AcceptListingArgs.UTXOs", asoa.UTXOs), watch("ValidateListingArgs.ListedOrdinalUTXO", []*bt.UTXO{vla.ListedOrdinalUTXO})
			defer func() { res.ArgsChanged = w1() + w2() }()
			if s.TwoD() {
				res.Final, res.Err = ord.AcceptOrdinalSaleListing2Dummies(ctx, vla, asoa)
			} else {
				res.Final, res.Err = ord.AcceptOrdinalSaleListing(ctx, vla, asoa)
			}
			return
		}
		if s.TwoD() {
			var pstx *bt.Tx
			bidder := s.fundingBT()
			w1 := watch("MakeBid2DArgs.BidderUTXOs", bidder)
			defer func() { res.ArgsChanged += w1() }()
			pstx, res.MakeErr = ord.MakeBidToBuy1SatOrdinal2Dummies(ctx, &ord.MakeBid2DArgs{BidAmount: s.Price, OrdinalTxID: s.Ord.Txid,
				OrdinalVOut: s.Ord.Vout, BidderUTXOs: bidder, BuyerReceiveOrdinalScript: sc(s.Buyer),
				DummyOutputScript: sc(s.Dummy), ChangeScript: sc(s.Change), FQ: s.Quote.Build()})
			if res.MakeErr != nil {
				res.Err = res.MakeErr
				return
			}
			res.PSTx = cloneFull(pstx)
			res.readBidScripts(pstx, 2)
			// PreviousUTXOs in input order: two dummies, the ordinal, the rest
			var prev []*bt.UTXO
			for i, u := range s.Funding {
				if i == 2 {
					prev = append(prev, s.listedUTXO())
				}
				prev = append(prev, u.BT(false))
			}
			if len(s.Funding) == 2 {
				prev = append(prev, s.listedUTXO())
			}
			w2 := watch("ValidateBid2DArgs.PreviousUTXOs", prev)
			defer func() { res.ArgsChanged += w2() }()
			res.Final, res.Err = ord.AcceptBidToBuy1SatOrdinal2Dummies(ctx,
				&ord.ValidateBid2DArgs{PreviousUTXOs: prev, BidAmount: s.Price, ExpectedFQ: s.expectedFQ()},
				&ord.AcceptBid2DArgs{PSTx: pstx, SellerReceiveOrdinalScript: sc(s.SellerScript), OrdinalUnlocker: ordUnlocker})
			return
		}
		var pstx *bt.Tx
		bidder := s.fundingBT()
		w1 := watch("MakeBidArgs.BidderUTXOs", bidder)
		defer func() { res.ArgsChanged += w1() }()
		pstx, res.MakeErr = ord.MakeBidToBuy1SatOrdinal(ctx, &ord.MakeBidArgs{BidAmount: s.Price, OrdinalTxID: s.Ord.Txid,
			OrdinalVOut: s.Ord.Vout, BidderUTXOs: bidder, BuyerReceiveOrdinalScript: sc(s.Buyer),
			DummyOutputScript: sc(s.Dummy), ChangeScript: sc(s.Change), FQ: s.Quote.Build()})
		if res.MakeErr != nil {
			res.Err = res.MakeErr
			return
		}
		res.PSTx = cloneFull(pstx)
		res.readBidScripts(pstx, 1)
		if s.TamperPay != 0 && len(pstx.Outputs) > 1 {
			pstx.Outputs[1].Satoshis = s.TamperPay
		}
		res.Final, res.Err = ord.AcceptBidToBuy1SatOrdinal(ctx,
			&ord.ValidateBidArgs{OrdinalUTXO: s.listedUTXO(), BidAmount: s.Price, ExpectedFQ: s.expectedFQ()},
			&ord.AcceptBidArgs{PSTx: pstx, SellerReceiveScript: sc(s.SellerScript), OrdinalUnlocker: ordUnlocker})
	})
	if res.Panicked {
		res.Final = nil
	}
	return
}

func (r *Result) readBidScripts(pstx *bt.Tx, k int) {
	if len(pstx.Inputs) > k && pstx.Inputs[k].PreviousTxScript != nil {
		r.BidOrdScript = append([]byte{}, *pstx.Inputs[k].PreviousTxScript...)
	}
	if len(pstx.Outputs) > k && pstx.Outputs[k].LockingScript != nil {
		r.BidPayScript = append([]byte{}, *pstx.Outputs[k].LockingScript...)
	}
}

// cloneFull: a deep copy through the extended serialisation (keeps previous scripts and values).
func cloneFull(tx *bt.Tx) *bt.Tx {
	c, err := bt.NewTxFromBytes(tx.ExtendedBytes())
	if err != nil {
		panic(err)
	}
	return c
}

// PrevOuts: the previous output of every input of the completed transaction, from the scenario
// (never from the fields of the produced transaction).
func (s Scenario) PrevOuts(res Result) []U {
	f := append([]U{}, s.Funding...)
	if !s.TwoD() {
		// the flow moves the first funding UTXO worth more than the price to the front
		for i, u := range f {
			if u.Sats > s.Price {
				f = append([]U{u}, append(append([]U{}, f[:i]...), f[i+1:]...)...)
				break
			}
		}
	}
	k := s.OrdIdx()
	var out []U
	out = append(out, f[:k]...)
	out = append(out, s.Ord)
	out = append(out, f[k:]...)
	return out
}

// FifoOutput: first-in-first-out numbering — the satoshi at offset off of the concatenated inputs
// lands in the output whose half-open range [sum before, sum up to and including) contains it.
func FifoOutput(outs []uint64, off *big.Int) int {
	acc := new(big.Int)
	for k, v := range outs {
		acc.Add(acc, new(big.Int).SetUint64(v))
		if off.Cmp(acc) < 0 {
			return k
		}
	}
	return -1
}

// Offset of the first satoshi of input k.
func InputOffset(prev []uint64, k int) *big.Int {
	acc := new(big.Int)
	for i := 0; i < k && i < len(prev); i++ {
		acc.Add(acc, new(big.Int).SetUint64(prev[i]))
	}
	return acc
}

// Verdict of the Go-level statement of the property on one completed transaction.
type Finding struct {
	Site string
	What string
}

// Execute one input of tx (a re-decoded copy) against its previous output.
func ExecInput(raw []byte, i int, prev U) error {
	cp, err := bt.NewTxFromBytes(raw)
	if err != nil {
		return err
	}
	return interpreter.NewEngine().Execute(
		interpreter.WithTx(cp, i, &bt.Output{LockingScript: sc(prev.Script), Satoshis: prev.Sats}),
		interpreter.WithForkID(), interpreter.WithAfterGenesis())
}

var apiName = map[string]string{"list": "AcceptOrdinalSaleListing", "list2d": "AcceptOrdinalSaleListing2Dummies",
	"bid": "AcceptBidToBuy1SatOrdinal", "bid2d": "AcceptBidToBuy1SatOrdinal2Dummies"}

func API(flow string) string { return apiName[flow] }

// QuotedFee: the fee the quote asks for a serialised transaction, over the integers.
func QuotedFee(q feegen.Quote, raw []byte, outs []*bt.Output) *big.Int {
	var data uint64
	for _, o := range outs {
		if feegen.IsData(*o.LockingScript) {
			data += uint64(len(*o.LockingScript))
		}
	}
	return q.Quoted(uint64(len(raw))-data, data)
}

// Check states the property on a completed transaction.
func Check(s Scenario, res Result) (fs []Finding) {
	tx := res.Final
	api := API(s.Flow)
	add := func(what, format string, a ...interface{}) {
		fs = append(fs, Finding{api + "/" + what, fmt.Sprintf(format, a...)})
	}
	prev := s.PrevOuts(res)
	raw := tx.Bytes()
	if len(prev) != len(tx.Inputs) {
		add("input-count", "%d inputs for %d previous outputs", len(tx.Inputs), len(prev))
		return
	}
	// the inputs spend the scenario's outpoints, in the flow's order
	for i, in := range tx.Inputs {
		if !bytes.Equal(in.PreviousTxID(), common.Unhex(prev[i].Txid)) || in.PreviousTxOutIndex != prev[i].Vout {
			add("input-order", "input %d spends %x:%d, expected %s:%d", i, in.PreviousTxID(), in.PreviousTxOutIndex, prev[i].Txid, prev[i].Vout)
		}
	}
	// 1. every input is accepted by the interpreter
	for i := range tx.Inputs {
		var err error
		if p, msg := common.Safely(func() { err = ExecInput(raw, i, prev[i]) }); p {
			add("input-rejected", "input %d: interpreter panicked: %s", i, msg)
		} else if err != nil {
			add("input-rejected", "input %d: %v", i, err)
		}
	}
	k := s.OrdIdx()
	// 2. the seller's payment output sits at the index of the seller's input
	if len(tx.Outputs) <= k {
		add("seller-output-moved", "only %d outputs", len(tx.Outputs))
		return
	}
	if o := tx.Outputs[k]; o.Satoshis != s.Price || !bytes.Equal(*o.LockingScript, common.Unhex(s.SellerScript)) {
		add("seller-output-moved", "output %d is (%d, %x), the seller asked for (%d, %s)", k, o.Satoshis, *o.LockingScript, s.Price, s.SellerScript)
	}
	// 3. the ordinal's first satoshi goes to the buyer's script
	var ins, outs []uint64
	for _, p := range prev {
		ins = append(ins, p.Sats)
	}
	for _, o := range tx.Outputs {
		outs = append(outs, o.Satoshis)
	}
	dst := FifoOutput(outs, InputOffset(ins, k))
	if dst < 0 {
		add("ordinal-misrouted", "the ordinal satoshi (offset %s) is paid to no output (fee)", InputOffset(ins, k))
	} else if !bytes.Equal(*tx.Outputs[dst].LockingScript, common.Unhex(s.Buyer)) {
		add("ordinal-misrouted", "the ordinal satoshi (offset %s) lands in output %d (%x), not the buyer's script", InputOffset(ins, k), dst, *tx.Outputs[dst].LockingScript)
	}
	// 4. the fee covers the quote for the transaction as it will be broadcast
	if q := s.FinalQuote(); q.Complete() {
		fee := new(big.Int).Sub(SumU64(ins), SumU64(outs))
		need := QuotedFee(q, raw, tx.Outputs)
		if fee.Cmp(need) < 0 {
			add("underpays-fee", "inputs %s, outputs %s: fee %s for %d bytes, the quote asks %s", SumU64(ins), SumU64(outs), fee, len(raw), need)
		}
	}
	return
}

// SumU64 over the integers.
func SumU64(xs []uint64) *big.Int {
	t := new(big.Int)
	for _, x := range xs {
		t.Add(t, new(big.Int).SetUint64(x))
	}
	return t
}
