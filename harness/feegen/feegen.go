// Package feegen: helpers shared by the fee / change / funding harnesses (C10, C11, C12): fee quotes,
// script templates, observation printing (Gallina terms of corr/FeeCorr.v) and an independent
// big-integer statement of the quoted fee used by the Go-level predicates.
package feegen

import (
	"bytes"
	"errors"
	"fmt"
	"math/big"

	"github.com/libsv/go-bt/v2"

	"verif/harness/common"
	"verif/harness/txgen"
)

// Rate is a FeeUnit: Sat satoshis per Bytes bytes.
type Rate struct {
	Sat   int `json:"sat"`
	Bytes int `json:"bytes"`
}

// Quote: nil = the fee type is missing from the quote.
type Quote struct {
	Std  *Rate `json:"std"`
	Data *Rate `json:"data"`
}

func Q(ss, sb, ds, db int) Quote { return Quote{Std: &Rate{ss, sb}, Data: &Rate{ds, db}} }

// builds counts Build calls: the way the quote object is put together rotates with it (what the quote SAYS is the same).
var builds int

func (q Quote) Build() *bt.FeeQuote {
	fq := bt.NewFeeQuote()
	builds++
	shape := builds % 4
	if shape == 2 && q.Std != nil && q.Data != nil && *q.Std == *q.Data {
		// one rate for everything: the caller registers ONE Fee object under both fee types
		f := &bt.Fee{FeeType: bt.FeeTypeStandard, MiningFee: bt.FeeUnit{Satoshis: q.Std.Sat, Bytes: q.Std.Bytes}, RelayFee: bt.FeeUnit{Satoshis: 2*q.Std.Sat + 3, Bytes: 3*q.Std.Bytes + 1}}
		return fq.AddQuote(bt.FeeTypeStandard, f).AddQuote(bt.FeeTypeData, f)
	}
	set := func(ft bt.FeeType, r *Rate) {
		if r == nil {
			fq.AddQuote(ft, nil)
			return
		}
		label := ft
		if shape == 1 {
			// the Fee value was derived from the other type's (copied, rate changed) and still carries that label: the
			// key it is registered under decides what it is the rate of
			label = map[bt.FeeType]bt.FeeType{bt.FeeTypeStandard: bt.FeeTypeData, bt.FeeTypeData: bt.FeeTypeStandard}[ft]
		}
		// the relay fee plays no part in any estimate: it is deliberately different from the mining fee (and different
		// for the two fee types), so that an estimate that reads it is off
		relay := bt.FeeUnit{Satoshis: 2*r.Sat + 3, Bytes: 3*r.Bytes + 1}
		if ft == bt.FeeTypeData {
			relay = bt.FeeUnit{Satoshis: 5*r.Sat + 1, Bytes: 2*r.Bytes + 7}
		}
		fq.AddQuote(ft, &bt.Fee{FeeType: label, MiningFee: bt.FeeUnit{Satoshis: r.Sat, Bytes: r.Bytes}, RelayFee: relay})
	}
	set(bt.FeeTypeStandard, q.Std)
	set(bt.FeeTypeData, q.Data)
	return fq
}

func rateCoq(r *Rate) string {
	if r == nil {
		return "None"
	}
	return fmt.Sprintf("(Some (mkRate %d %d))", r.Sat, r.Bytes)
}
func (q Quote) Coq() string { return fmt.Sprintf("(mkQuote %s %s)", rateCoq(q.Std), rateCoq(q.Data)) }
func (q Quote) Key() string { return q.Coq() }

// Complete: both fee types present with positive denominators (the property's quantifier).
func (q Quote) Complete() bool {
	return q.Std != nil && q.Data != nil && q.Std.Bytes > 0 && q.Data.Bytes > 0 && q.Std.Sat >= 0 && q.Data.Sat >= 0
}

// Quoted: floor(std*sat/bytes) + floor(data*sat/bytes) over the integers (no wrap-around).
func (q Quote) Quoted(std, data uint64) *big.Int {
	f := func(n uint64, r *Rate) *big.Int {
		x := new(big.Int).Mul(new(big.Int).SetUint64(n), big.NewInt(int64(r.Sat)))
		return x.Div(x, big.NewInt(int64(r.Bytes)))
	}
	return new(big.Int).Add(f(std, q.Std), f(data, q.Data))
}

// Standard quotes of the C10 quantifier: 1/20, 1/2, 1, 5, 50 sat/byte and unequal std/data.
var Quotes = []Quote{
	Q(5, 100, 5, 100), Q(1, 2, 1, 2), Q(1, 1, 1, 1), Q(5, 1, 5, 1), Q(50, 1, 50, 1),
	Q(1, 1, 1, 4), Q(500, 1000, 250, 1000), Q(3, 7, 11, 13), Q(5, 100, 50, 1),
}

// ---------- errors / observations ----------

// ErrName maps the errors the properties name onto the model's enum; "" = some other error.
func ErrName(err error) string {
	switch {
	case errors.Is(err, bt.ErrEmptyPreviousTxScript):
		return "ErrEmptyPreviousTxScript"
	case errors.Is(err, bt.ErrUnsupportedScript):
		return "ErrUnsupportedScript"
	case errors.Is(err, bt.ErrFeeTypeNotFound):
		return "ErrFeeTypeNotFound"
	case errors.Is(err, bt.ErrInsufficientInputs):
		return "ErrInsufficientInputs"
	case errors.Is(err, bt.ErrOutputNoExist):
		return "ErrOutputNoExist"
	case errors.Is(err, bt.ErrInvalidTxID):
		return "ErrInvalidTxID"
	case errors.Is(err, bt.ErrInsufficientFunds):
		return "ErrInsufficientFunds"
	case errors.Is(err, ErrSupplier):
		return "ErrSupplier"
	}
	return ""
}

// ErrSupplier is the harness's own "other error" a UTXO supplier may return.
var ErrSupplier = errors.New("supplier failed")

// Obs renders an observation: panic / error / ok value (already a Gallina term).
func Obs(panicked bool, err error, ok string) string {
	if panicked {
		return "OPanic"
	}
	if err != nil {
		if n := ErrName(err); n != "" {
			return "(OErr " + n + ")"
		}
		return "OErrOther"
	}
	return "(OOk " + ok + ")"
}

func N3(a, b, c uint64) string { return fmt.Sprintf("(%d, %d, %d)", a, b, c) }

// ---------- scripts ----------

func P2PKH(h20 []byte) []byte {
	s := []byte{0x76, 0xa9, 0x14}
	s = append(s, h20...)
	return append(s, 0x88, 0xac)
}

// Inscription: P2PKH prefix + OP_FALSE OP_IF "ord" OP_1 <type> OP_0 <data> OP_ENDIF
func Inscription(h20, ctype, data []byte) []byte {
	s := P2PKH(h20)
	s = append(s, 0x00, 0x63, 0x03, 'o', 'r', 'd', 0x51)
	s = append(s, byte(len(ctype)))
	s = append(s, ctype...)
	s = append(s, 0x00)
	s = append(s, byte(len(data)))
	s = append(s, data...)
	return append(s, 0x68)
}

// Data script: form 0 = OP_RETURN ..., form 1 = OP_FALSE OP_RETURN ...; payload as one push (or raw for n=0).
func Data(form int, payload []byte) []byte {
	var s []byte
	if form == 1 {
		s = append(s, 0x00)
	}
	s = append(s, 0x6a)
	n := len(payload)
	switch {
	case n == 0:
	case n <= 75:
		s = append(s, byte(n))
	case n <= 255:
		s = append(s, 0x4c, byte(n))
	default:
		s = append(s, 0x4d, byte(n), byte(n>>8))
	}
	return append(s, payload...)
}

// IsData: the harness's own reading of "data-carrier output" (OP_RETURN / OP_FALSE OP_RETURN prefix).
func IsData(s []byte) bool {
	return (len(s) > 0 && s[0] == 0x6a) || (len(s) > 1 && s[0] == 0x00 && s[1] == 0x6a)
}

// DataBytes: sum of the script lengths of the data outputs of a spec.
func DataBytes(s txgen.TxSpec) uint64 {
	var d uint64
	for _, o := range s.Outs {
		b := common.Unhex(o.Script)
		if IsData(b) {
			d += uint64(len(b))
		}
	}
	return d
}

// Sums over the spec (big, no wrap).
func SumIn(s txgen.TxSpec) *big.Int {
	t := new(big.Int)
	for _, i := range s.Ins {
		t.Add(t, new(big.Int).SetUint64(i.Sats))
	}
	return t
}
func SumOut(s txgen.TxSpec) *big.Int {
	t := new(big.Int)
	for _, o := range s.Outs {
		t.Add(t, new(big.Int).SetUint64(o.Sats))
	}
	return t
}

var Two64 = new(big.Int).Lsh(big.NewInt(1), 64)

// Unsigned P2PKH input spec with a final sequence number.
func In(r *common.Rand, sats uint64) txgen.InSpec {
	in := txgen.InSpec{Txid: common.Hex(r.Bytes(32)), Vout: uint32(r.Intn(4)), Seq: 0xffffffff, Sats: sats,
		Prev: common.Hex(P2PKH(r.Bytes(20))), UnlockNil: true}
	return outpointShapes(r, in)
}

// outpointShapes: one input in sixteen spends an all-zero transaction id (placeholder inputs do; together with a
// final sequence number or index 0xffffffff that is what Tx.IsCoinbase looks for): sizes and fees do not depend on it
func outpointShapes(r *common.Rand, in txgen.InSpec) txgen.InSpec {
	if r.Intn(16) == 0 {
		in.Txid = common.Hex(make([]byte, 32))
		in.Vout = []uint32{0, 0xffffffff, 1}[r.Intn(3)]
	}
	return in
}

func Repeat(b byte, n int) []byte { return bytes.Repeat([]byte{b}, n) }

// ---------- compact Gallina printing (Coq ingests byte literals slowly; constant runs are cheap) ----------

// CoqBytes prints runs of >= 6 equal bytes as `repeat_byte n xNN` and the rest as literals.
func CoqBytes(b []byte) string {
	if len(b) == 0 {
		return "[]"
	}
	var parts []string
	var lit []byte
	flush := func() {
		if len(lit) > 0 {
			parts = append(parts, common.CoqBytes(lit))
			lit = nil
		}
	}
	i := 0
	for i < len(b) {
		j := i
		for j < len(b) && b[j] == b[i] {
			j++
		}
		if j-i >= 6 {
			flush()
			parts = append(parts, fmt.Sprintf("repeat_byte %d x%02x", j-i, b[i]))
		} else {
			lit = append(lit, b[i:j]...)
		}
		i = j
	}
	flush()
	if len(parts) == 1 {
		return "(" + parts[0] + ")"
	}
	s := "("
	for k, p := range parts {
		if k > 0 {
			s += " ++ "
		}
		s += p
	}
	return s + ")%list"
}

func coqOptBytes(hexs string, isNil bool) string {
	if isNil {
		return "None"
	}
	return "(Some " + CoqBytes(common.Unhex(hexs)) + ")"
}

func runs(xs []string) string {
	if len(xs) == 0 {
		return "[]"
	}
	var parts []string
	i := 0
	for i < len(xs) {
		j := i
		for j < len(xs) && xs[j] == xs[i] {
			j++
		}
		if j-i >= 4 {
			parts = append(parts, fmt.Sprintf("repeat (%s) %d%%nat", xs[i], j-i))
		} else {
			s := "["
			for k := i; k < j; k++ {
				if k > i {
					s += "; "
				}
				s += xs[k]
			}
			parts = append(parts, s+"]")
		}
		i = j
	}
	s := "("
	for k, p := range parts {
		if k > 0 {
			s += " ++ "
		}
		s += p
	}
	return s + ")%list"
}

func CoqIn(in txgen.InSpec) string {
	return fmt.Sprintf("mkInput %s %d %s %d %d %s", CoqBytes(common.Unhex(in.Txid)), in.Vout,
		CoqBytes(common.Unhex(in.Unlock)), in.Seq, in.Sats, coqOptBytes(in.Prev, in.PrevNil))
}
func CoqIns(ins []txgen.InSpec) string {
	var xs []string
	for _, in := range ins {
		xs = append(xs, CoqIn(in))
	}
	return runs(xs)
}
func CoqOuts(outs []txgen.OutSpec) string {
	var xs []string
	for _, o := range outs {
		xs = append(xs, fmt.Sprintf("mkOutput %d %s", o.Sats, CoqBytes(common.Unhex(o.Script))))
	}
	return runs(xs)
}

// CoqTx: like txgen.Coq, with compact byte strings.
func CoqTx(s txgen.TxSpec) string {
	return fmt.Sprintf("(mkTx %d %s %s %d)", s.Version, CoqIns(s.Ins), CoqOuts(s.Outs), s.Lock)
}

// Fill returns n bytes: one repeated random byte (cheap to print) or, one time in eight, random bytes.
func Fill(r *common.Rand, n int) []byte {
	if r.Intn(8) == 0 {
		return r.Bytes(n)
	}
	return Repeat(byte(r.U64()), n)
}

// InCheap: like In, built from Fill.
func InCheap(r *common.Rand, sats uint64) txgen.InSpec {
	return outpointShapes(r, txgen.InSpec{Txid: common.Hex(Fill(r, 32)), Vout: uint32(r.Intn(4)), Seq: 0xffffffff, Sats: sats,
		Prev: common.Hex(P2PKH(Fill(r, 20))), UnlockNil: true})
}

func varintLen(n uint64) uint64 {
	switch {
	case n < 0xfd:
		return 1
	case n <= 0xffff:
		return 3
	case n <= 0xffffffff:
		return 5
	}
	return 9
}

// EstSize: the size the transaction will have once every unsigned input carries a P2PKH unlocking script
// (107 bytes: push of a 72-byte signature with hash type, push of a 33-byte key), split into data bytes
// (the scripts of data outputs) and the rest — computed from the plain description, not by the library.
// ok is false unless every input spends a plain 25-byte P2PKH output (the only case stated here).
func EstSize(s txgen.TxSpec) (std, data uint64, ok bool) {
	total := uint64(4 + 4)
	total += varintLen(uint64(len(s.Ins))) + varintLen(uint64(len(s.Outs)))
	for _, in := range s.Ins {
		prev := common.Unhex(in.Prev)
		if in.PrevNil || len(prev) != 25 || prev[0] != 0x76 || prev[1] != 0xa9 || prev[2] != 0x14 || prev[23] != 0x88 || prev[24] != 0xac {
			return 0, 0, false
		}
		ul := uint64(len(common.Unhex(in.Unlock)))
		if in.UnlockNil || ul == 0 {
			ul = 107
		}
		total += 32 + 4 + varintLen(ul) + ul + 4
	}
	for _, o := range s.Outs {
		sc := common.Unhex(o.Script)
		total += 8 + varintLen(uint64(len(sc))) + uint64(len(sc))
		if IsData(sc) {
			data += uint64(len(sc))
		}
	}
	return total - data, data, true
}
