package feegen

// Which outputs count as DATA outputs: a locking script is a data script when it begins with OP_RETURN or with
// OP_FALSE OP_RETURN - whatever follows.  Nothing after OP_RETURN is ever executed, so the tail need not be a
// well-formed sequence of pushes (a push announcing more bytes than follow, half a length field, arbitrary bytes,
// nothing at all), and a script that merely CONTAINS the byte 6a (as pushed data, or as an opcode further on) is not a
// data script.  The shapes below are generated, each with what the reading above says about it; `bulk` filler bytes
// make a script long enough that charging it at the wrong rate moves a fee by more than any rounding slack.

import (
	"verif/harness/common"
)

// ScriptShape: a locking script, a label for the report, and whether it is a data script.
type ScriptShape struct {
	Label  string
	Script []byte
	Data   bool
}

func cat(parts ...[]byte) []byte {
	var s []byte
	for _, p := range parts {
		s = append(s, p...)
	}
	return s
}

// push: a minimal well-formed push of b
func push(b []byte) []byte {
	n := len(b)
	switch {
	case n <= 75:
		return cat([]byte{byte(n)}, b)
	case n <= 255:
		return cat([]byte{0x4c, byte(n)}, b)
	case n <= 65535:
		return cat([]byte{0x4d, byte(n), byte(n >> 8)}, b)
	}
	return cat([]byte{0x4e, byte(n), byte(n >> 8), byte(n >> 16), byte(n >> 24)}, b)
}

// DataTails: what may follow the OP_RETURN of a data script.  The filler byte of a tail is drawn per call.
func DataTails(r *common.Rand, bulk int) []ScriptShape {
	f := func(n int) []byte { return Repeat(byte(r.U64()), n) }
	short := 1 + r.Intn(60)
	ts := []ScriptShape{
		{Label: "nothing", Script: nil},
		{Label: "one-push", Script: push(f(bulk))},
		{Label: "several-pushes", Script: cat(push(f(3)), push(f(bulk)), []byte{0x00, 0x51}, push(f(80)))},
		{Label: "direct-push-cut-short", Script: cat([]byte{byte(short + 1 + r.Intn(75-short))}, f(short))},
		{Label: "direct-push-opcode-only", Script: []byte{byte(1 + r.Intn(75))}},
		{Label: "pushdata1-without-length", Script: []byte{0x4c}},
		{Label: "pushdata1-cut-short", Script: cat([]byte{0x4c, byte(bulk%200 + 56)}, f(bulk%200+55-r.Intn(40)))},
		{Label: "pushdata2-half-length", Script: []byte{0x4d, byte(r.U64())}},
		{Label: "pushdata2-cut-short", Script: cat([]byte{0x4d, 0xff, 0xff}, f(bulk))},
		{Label: "pushdata2-one-byte-missing", Script: cat([]byte{0x4d, byte(bulk + 1), byte((bulk + 1) >> 8)}, f(bulk))},
		{Label: "pushdata4-part-length", Script: cat([]byte{0x4e}, f(1+r.Intn(3)))},
		{Label: "pushdata4-cut-short", Script: cat([]byte{0x4e, 0xff, 0xff, 0xff, 0xff}, f(bulk))},
		{Label: "pushdata4-top-bit", Script: cat([]byte{0x4e, 0x00, 0x00, 0x00, 0x80}, f(bulk))},
		{Label: "push-then-cut-short", Script: cat(push(f(bulk)), []byte{0x4c, 0x10, 0x01})},
		{Label: "random-bytes", Script: r.Bytes(1 + r.Intn(40))},
		{Label: "opcodes-no-push", Script: Repeat([]byte{0x6a, 0xff, 0x63, 0xba, 0x50}[r.Intn(5)], bulk)},
		{Label: "another-marker", Script: cat([]byte{0x6a, 0x00, 0x6a}, push(f(bulk)))},
	}
	return ts
}

// DataShapes: OP_RETURN <tail> and OP_FALSE OP_RETURN <tail> for every tail of DataTails.
func DataShapes(r *common.Rand, bulk int) []ScriptShape {
	var out []ScriptShape
	for form, marker := range [][]byte{{0x6a}, {0x00, 0x6a}} {
		for _, t := range DataTails(r, bulk) {
			out = append(out, ScriptShape{Label: []string{"return/", "false-return/"}[form] + t.Label, Script: cat(marker, t.Script), Data: true})
		}
	}
	return out
}

// LookalikeShapes: scripts that are NOT data scripts although the byte 6a stands where a parser, a search or an
// off-by-one comparison may find it.
func LookalikeShapes(r *common.Rand, bulk int) []ScriptShape {
	f := func(n int) []byte { return Repeat(byte(r.U64()), n) }
	tail := func() []byte { // what a data script would carry
		if r.Bool() {
			return push(f(bulk))
		}
		return cat([]byte{0x4d, 0xff, 0xff}, f(bulk)) // ... or a push cut short
	}
	ls := []ScriptShape{
		{Label: "push-of-6a", Script: []byte{0x01, 0x6a}},
		{Label: "push-of-6a+tail", Script: cat([]byte{0x01, 0x6a}, tail())},
		{Label: "false-push-of-6a", Script: []byte{0x00, 0x01, 0x6a}},
		{Label: "false-push-of-6a+tail", Script: cat([]byte{0x00, 0x01, 0x6a}, tail())},
		{Label: "pushdata1-of-6a", Script: cat([]byte{0x4c, 0x01, 0x6a}, tail())},
		{Label: "pushdata2-of-6a", Script: cat([]byte{0x4d, 0x01, 0x00, 0x6a}, tail())},
		{Label: "push-of-6a6a", Script: cat([]byte{0x02, 0x6a, 0x6a}, tail())},
		{Label: "push-of-006a", Script: cat([]byte{0x02, 0x00, 0x6a}, tail())},
		{Label: "push-of-00-then-return", Script: cat([]byte{0x01, 0x00, 0x6a}, tail())},
		{Label: "return-second", Script: cat([]byte{byte(0x51 + r.Intn(16)), 0x6a}, tail())},
		{Label: "false-false-return", Script: cat([]byte{0x00, 0x00, 0x6a}, tail())},
		{Label: "false-op-return", Script: cat([]byte{0x00, byte(0x51 + r.Intn(16)), 0x6a}, tail())},
		{Label: "return-third", Script: cat([]byte{0x51, 0x75, 0x6a}, tail())},
		{Label: "p2pkh-then-return", Script: cat(P2PKH(f(20)), []byte{0x6a}, tail())},
		{Label: "p2pkh-hash-of-6a", Script: P2PKH(Repeat(0x6a, 20))},
		{Label: "p2pkh-hash-006a", Script: P2PKH(cat([]byte{0x00, 0x6a}, f(18)))},
		{Label: "return-last", Script: cat(push(f(bulk)), []byte{0x6a})},
		{Label: "false-only", Script: []byte{0x00}},
		{Label: "false-then-cut-short", Script: cat([]byte{0x00, 0x4c}, nil)},
		{Label: "next-opcode-6b", Script: cat([]byte{0x6b}, tail())},
		{Label: "previous-opcode-69", Script: cat([]byte{0x69}, tail())},
		{Label: "true-return", Script: cat([]byte{0x51, 0x6a}, tail())},
	}
	for i := range ls {
		ls[i].Label = "lookalike/" + ls[i].Label
	}
	return ls
}
