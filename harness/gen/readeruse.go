package gen

// Translator part for C09: the READER DISCIPLINE of the decoders.
//
// The models of the reader-based decoders (coq/model/Tx.v, Alloc.v) are functions of the BYTES the reader supplies:
// that is sound as long as the Go code touches its io.Reader only through io.ReadFull (whose result depends on the
// bytes alone, however the reader cuts them up) or hands it on, as the reader argument, to another function of the
// library that is itself in this table. A type assertion on the reader (a fast path for *bytes.Reader /
// *io.LimitedReader / anything with Len()), a direct r.Read, a wrapper put around it (bufio.NewReader, io.Copy,
// io.ReadAll), storing it: each makes the behaviour depend on something the models do not have. For every function
// or method of the library's packages with a parameter of type io.Reader this table lists EVERY occurrence of that
// parameter in the body and what is done with it:
//   "readfull"  first argument of io.ReadFull
//   "pass"      argument i of a call f(..) / x.f(..) where every declaration named f in the same package has an
//               io.Reader as its parameter i (x is not an imported package); detail = f
//   "other"     anything else; detail = the enclosing expression or statement as written
// Purely syntactic (go/parser, go/ast; identifiers resolved by the parser's scopes, so a shadowing declaration is not
// mistaken for the parameter). Never fails: what it does not recognise is "other", and the obligation in
// coq/Properties/C09.v (model/ReaderUse.v: discipline_ok) stops checking.

import (
	"bytes"
	"fmt"
	"go/ast"
	"go/parser"
	"go/printer"
	"go/token"
	"os"
	"path/filepath"
	"sort"
	"strings"
)

func init() { Register("ReaderUse.v", genReaderUse) }

// ReaderUse is one occurrence of an io.Reader parameter.
type ReaderUse struct {
	Pkg, File, Func, Param, Kind, Detail string
}

func isIOReader(e ast.Expr) bool {
	s, ok := e.(*ast.SelectorExpr)
	if !ok {
		return false
	}
	x, ok := s.X.(*ast.Ident)
	return ok && x.Name == "io" && s.Sel.Name == "Reader"
}

func ruFuncName(fd *ast.FuncDecl) string {
	if fd.Recv == nil || len(fd.Recv.List) == 0 {
		return fd.Name.Name
	}
	t := fd.Recv.List[0].Type
	for {
		switch u := t.(type) {
		case *ast.StarExpr:
			t = u.X
			continue
		case *ast.IndexExpr:
			t = u.X
			continue
		case *ast.ParenExpr:
			t = u.X
			continue
		}
		break
	}
	if id, ok := t.(*ast.Ident); ok {
		return id.Name + "." + fd.Name.Name
	}
	return "?." + fd.Name.Name
}

// flattened parameter list: one entry per declared name (or per unnamed type)
func ruParams(ft *ast.FuncType) (idents []*ast.Ident, types []ast.Expr) {
	if ft.Params == nil {
		return
	}
	for _, f := range ft.Params.List {
		if len(f.Names) == 0 {
			idents = append(idents, nil)
			types = append(types, f.Type)
			continue
		}
		for _, n := range f.Names {
			idents = append(idents, n)
			types = append(types, f.Type)
		}
	}
	return
}

func ruRender(fset *token.FileSet, n ast.Node) string {
	var b bytes.Buffer
	if err := printer.Fprint(&b, fset, n); err != nil {
		return fmt.Sprintf("(%T)", n)
	}
	s := strings.Join(strings.Fields(b.String()), " ")
	var sb strings.Builder
	for _, r := range s {
		if r < 32 || r > 126 {
			sb.WriteByte('?')
		} else {
			sb.WriteRune(r)
		}
	}
	s = sb.String()
	if len(s) > 100 {
		s = s[:100] + "..."
	}
	return s
}

// ReaderUseTable scans the packages of the state inventory.
func ReaderUseTable(repo string) ([]ReaderUse, []string) {
	var out []ReaderUse
	var notes []string
	for _, p := range structPackages {
		dir := filepath.Join(repo, p.dir)
		ents, err := os.ReadDir(dir)
		if err != nil {
			notes = append(notes, fmt.Sprintf("cannot read %s: %v", p.dir, err))
			out = append(out, ReaderUse{p.name, p.dir, "?", "?", "other", "unreadable directory"})
			continue
		}
		var names []string
		for _, en := range ents {
			n := en.Name()
			if en.IsDir() || !strings.HasSuffix(n, ".go") || strings.HasSuffix(n, "_test.go") || strings.HasPrefix(n, "verif_") {
				continue
			}
			names = append(names, n)
		}
		sort.Strings(names)
		fset := token.NewFileSet()
		type parsed struct {
			name string
			f    *ast.File
		}
		var files []parsed
		for _, n := range names {
			f, err := parser.ParseFile(fset, filepath.Join(dir, n), nil, 0)
			if err != nil {
				out = append(out, ReaderUse{p.name, n, "?", "?", "other", "unparsable file"})
				continue
			}
			if f.Name.Name != p.name {
				continue
			}
			files = append(files, parsed{n, f})
		}
		// by bare name: for each declaration, which flattened parameter positions are io.Reader
		readerAt := map[string][]map[int]bool{}
		for _, pf := range files {
			for _, d := range pf.f.Decls {
				fd, ok := d.(*ast.FuncDecl)
				if !ok {
					continue
				}
				_, types := ruParams(fd.Type)
				pos := map[int]bool{}
				for i, t := range types {
					if isIOReader(t) {
						pos[i] = true
					}
				}
				readerAt[fd.Name.Name] = append(readerAt[fd.Name.Name], pos)
			}
		}
		passOK := func(name string, i int) bool {
			decls := readerAt[name]
			if len(decls) == 0 {
				return false
			}
			for _, pos := range decls {
				if !pos[i] {
					return false
				}
			}
			return true
		}
		for _, pf := range files {
			imports := map[string]bool{}
			for _, im := range pf.f.Imports {
				path := strings.Trim(im.Path.Value, "\"`")
				name := path[strings.LastIndex(path, "/")+1:]
				if im.Name != nil {
					name = im.Name.Name
				}
				imports[name] = true
			}
			for _, d := range pf.f.Decls {
				fd, ok := d.(*ast.FuncDecl)
				if !ok || fd.Body == nil {
					continue
				}
				idents, types := ruParams(fd.Type)
				for k, t := range types {
					if !isIOReader(t) {
						continue
					}
					fname := ruFuncName(fd)
					if idents[k] == nil || idents[k].Name == "_" || idents[k].Obj == nil {
						out = append(out, ReaderUse{p.name, pf.name, fname, "_", "unused", ""})
						continue
					}
					param := idents[k]
					n0 := len(out)
					var stack []ast.Node
					ast.Inspect(fd.Body, func(n ast.Node) bool {
						if n == nil {
							stack = stack[:len(stack)-1]
							return true
						}
						stack = append(stack, n)
						id, ok := n.(*ast.Ident)
						if !ok || id.Name != param.Name || id.Obj != param.Obj {
							return true
						}
						u := ReaderUse{Pkg: p.name, File: pf.name, Func: fname, Param: param.Name, Kind: "other"}
						var parent ast.Node
						if len(stack) >= 2 {
							parent = stack[len(stack)-2]
						}
						if parent != nil {
							u.Detail = ruRender(fset, parent)
						}
						if call, ok := parent.(*ast.CallExpr); ok {
							argIdx := -1
							for i, a := range call.Args {
								if a == ast.Expr(id) {
									argIdx = i
								}
							}
							if argIdx >= 0 && call.Ellipsis == token.NoPos {
								switch fun := call.Fun.(type) {
								case *ast.Ident:
									if fun.Obj == nil || fun.Obj.Kind == ast.Fun {
										if passOK(fun.Name, argIdx) {
											u.Kind, u.Detail = "pass", fun.Name
										}
									}
								case *ast.SelectorExpr:
									if x, ok := fun.X.(*ast.Ident); ok && x.Obj == nil && imports[x.Name] {
										if x.Name == "io" && fun.Sel.Name == "ReadFull" && argIdx == 0 {
											u.Kind, u.Detail = "readfull", ""
										}
									} else if passOK(fun.Sel.Name, argIdx) {
										u.Kind, u.Detail = "pass", fun.Sel.Name
									}
								}
							}
						}
						out = append(out, u)
						return true
					})
					if len(out) == n0 {
						out = append(out, ReaderUse{p.name, pf.name, fname, param.Name, "unused", ""})
					}
				}
			}
		}
	}
	return out, notes
}

func genReaderUse(repo string) (string, error) {
	tbl, notes := ReaderUseTable(repo)
	var sb strings.Builder
	sb.WriteString(Header)
	sb.WriteString("(* Reader discipline: every occurrence of an io.Reader parameter in the body of a function or method of the\n" +
		"   library's packages, as (package, file, function, parameter, kind, detail): kind \"readfull\" = first argument of\n" +
		"   io.ReadFull; \"pass\" = handed on as the reader argument of a function of the same package (detail = its name);\n" +
		"   \"unused\" = the parameter does not occur; \"other\" = anything else (detail = the enclosing code). Plain data. *)\n")
	for _, n := range notes {
		sb.WriteString("(* note: " + strings.ReplaceAll(strings.ReplaceAll(n, "(*", "( *"), "*)", "* )") + " *)\n")
	}
	sb.WriteString("From Coq Require Import List String.\nImport ListNotations.\nLocal Open Scope string_scope.\n\n")
	sb.WriteString("Definition reader_uses : list (string * string * string * string * string * string) := [")
	for i, u := range tbl {
		if i > 0 {
			sb.WriteString(";")
		}
		fmt.Fprintf(&sb, "\n  (\"%s\", \"%s\", \"%s\", \"%s\", \"%s\", \"%s\")", coqString(u.Pkg), coqString(u.File), coqString(u.Func), coqString(u.Param), coqString(u.Kind), coqString(u.Detail))
	}
	sb.WriteString("\n].\n")
	return sb.String(), nil
}
