package gen

// Translator part for the constants the signature-hash, address and BIP276 models use as literals: the
// sighash.Flag values (sighash/flag.go), the P2PKH version bytes (bscript/address.go) and the BIP276 version /
// network numbers and prefixes (bscript/bip276.go). Emits coq/gen/MiscConsts.v; proofs/MiscConstsProofs.v
// proves the models' constants equal them.

import (
	"fmt"
	"go/ast"
	"go/token"
	"strconv"
	"strings"
)

func init() { Register("MiscConsts.v", genMiscConsts) }

// stringConsts: top-level string constants given as a single string literal.
func stringConsts(repo, rel string) (map[string]string, error) {
	_, f, err := ParseFile(repo, rel)
	if err != nil {
		return nil, err
	}
	out := map[string]string{}
	for _, d := range f.Decls {
		gd, ok := d.(*ast.GenDecl)
		if !ok || gd.Tok != token.CONST {
			continue
		}
		for _, sp := range gd.Specs {
			vs := sp.(*ast.ValueSpec)
			for j, n := range vs.Names {
				if j >= len(vs.Values) {
					continue
				}
				if bl, ok := vs.Values[j].(*ast.BasicLit); ok && bl.Kind == token.STRING {
					s, err := strconv.Unquote(bl.Value)
					if err != nil {
						return nil, fmt.Errorf("%s: %s: %w", rel, n.Name, err)
					}
					out[n.Name] = s
				}
			}
		}
	}
	return out, nil
}

func genMiscConsts(repo string) (string, error) {
	var sb strings.Builder
	sb.WriteString(Header)
	sb.WriteString("From Coq Require Import List NArith ZArith String.\nImport ListNotations.\nLocal Open Scope string_scope.\n\n")
	emit := func(title, rel string, want []string) error {
		vals, _, err := constValues(repo, rel)
		if err != nil {
			return err
		}
		fmt.Fprintf(&sb, "(* %s *)\nDefinition %s : list (string * Z) := [\n", rel, title)
		for i, n := range want {
			v, ok := vals[n]
			if !ok {
				return fmt.Errorf("%s: constant %s not found or not an integer constant", rel, n)
			}
			sep := ";"
			if i == len(want)-1 {
				sep = ""
			}
			fmt.Fprintf(&sb, "  (\"%s\", (%s)%%Z)%s\n", n, v, sep)
		}
		sb.WriteString("].\n\n")
		return nil
	}
	if err := emit("sighash_consts", "sighash/flag.go", []string{"Old", "All", "None", "Single", "AnyOneCanPay", "AllForkID", "NoneForkID",
		"SingleForkID", "AnyOneCanPayForkID", "ForkID", "Mask"}); err != nil {
		return "", err
	}
	if err := emit("address_consts", "bscript/address.go", []string{"hashP2PKH", "hashTestNetP2PKH"}); err != nil {
		return "", err
	}
	if err := emit("bip276_consts", "bscript/bip276.go", []string{"CurrentVersion", "NetworkMainnet", "NetworkTestnet"}); err != nil {
		return "", err
	}
	ss, err := stringConsts(repo, "bscript/bip276.go")
	if err != nil {
		return "", err
	}
	sb.WriteString("(* bscript/bip276.go *)\nDefinition bip276_prefixes : list (string * string) := [\n")
	for i, n := range []string{"PrefixScript", "PrefixTemplate"} {
		v, ok := ss[n]
		if !ok {
			return "", fmt.Errorf("bscript/bip276.go: string constant %s not found", n)
		}
		for _, ch := range v {
			if ch < 0x20 || ch > 0x7e || ch == '"' {
				return "", fmt.Errorf("bscript/bip276.go: %s has a character outside printable ASCII", n)
			}
		}
		sep := ";"
		if i == 1 {
			sep = ""
		}
		fmt.Fprintf(&sb, "  (\"%s\", \"%s\")%s\n", n, v, sep)
	}
	sb.WriteString("].\n")
	return sb.String(), nil
}
