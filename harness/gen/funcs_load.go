package gen

// Loading and type-checking go-bt's packages for the function-body translator (funcs.go), fully offline:
// the files of a package directory are parsed with go/parser and checked with go/types; imports of other go-bt
// packages are checked from source the same way, every other import (standard library, go-bk, ...) is an empty
// placeholder package.  Type errors caused by the placeholders are ignored: an expression that go/types could not
// type has no entry (or an invalid one) in types.Info, and the translator then refuses the function it occurs in.

import (
	"fmt"
	"go/ast"
	"go/constant"
	"go/parser"
	"go/token"
	"go/types"
	"os"
	"path/filepath"
	"sort"
	"strings"
)

const fnModule = "github.com/libsv/go-bt/v2"

type fnPkg struct {
	fset  *token.FileSet
	files map[string]*ast.File // by path relative to the repository
	info  *types.Info
	pkg   *types.Package
}

type fnLoader struct {
	repo string
	fset *token.FileSet
	pkgs map[string]*fnPkg // by directory relative to the repository ("" = root)
	busy map[string]bool
	done map[string]*fnDone // the functions printed so far (funcs_interp.go), by fnKey
}

func newFnLoader(repo string) *fnLoader {
	return &fnLoader{repo: repo, fset: token.NewFileSet(), pkgs: map[string]*fnPkg{}, busy: map[string]bool{}, done: map[string]*fnDone{}}
}

// Import implements types.Importer.
func (l *fnLoader) Import(path string) (*types.Package, error) {
	if path == fnModule || strings.HasPrefix(path, fnModule+"/") {
		dir := strings.TrimPrefix(strings.TrimPrefix(path, fnModule), "/")
		if l.busy[dir] {
			return nil, fmt.Errorf("import cycle through %s", path)
		}
		p, err := l.load(dir)
		if err != nil {
			return nil, err
		}
		return p.pkg, nil
	}
	name := path[strings.LastIndex(path, "/")+1:]
	p := types.NewPackage(path, name)
	if path == "math" { // the integer limits, as the untyped constants they are
		for n, v := range map[string]string{"MaxInt8": "127", "MinInt8": "-128", "MaxInt16": "32767", "MinInt16": "-32768",
			"MaxInt32": "2147483647", "MinInt32": "-2147483648", "MaxInt64": "9223372036854775807", "MinInt64": "-9223372036854775808",
			"MaxInt": "9223372036854775807", "MinInt": "-9223372036854775808", "MaxUint8": "255", "MaxUint16": "65535",
			"MaxUint32": "4294967295", "MaxUint64": "18446744073709551615", "MaxUint": "18446744073709551615"} {
			p.Scope().Insert(types.NewConst(token.NoPos, p, n, types.Typ[types.UntypedInt], constant.MakeFromLiteral(v, token.INT, 0)))
		}
	}
	if path == "math/bits" {
		p.Scope().Insert(types.NewConst(token.NoPos, p, "UintSize", types.Typ[types.UntypedInt], constant.MakeInt64(64)))
	}
	p.MarkComplete()
	return p, nil
}

// load parses and checks the package in directory dir (relative to the repository): every .go file that is not a
// test and carries no build constraint.
func (l *fnLoader) load(dir string) (*fnPkg, error) {
	if p, ok := l.pkgs[dir]; ok {
		return p, nil
	}
	l.busy[dir] = true
	defer delete(l.busy, dir)
	ents, err := os.ReadDir(filepath.Join(l.repo, dir))
	if err != nil {
		return nil, err
	}
	var names []string
	for _, e := range ents {
		n := e.Name()
		if e.IsDir() || !strings.HasSuffix(n, ".go") || strings.HasSuffix(n, "_test.go") {
			continue
		}
		names = append(names, n)
	}
	sort.Strings(names)
	p := &fnPkg{fset: l.fset, files: map[string]*ast.File{}}
	var files []*ast.File
	for _, n := range names {
		src, err := os.ReadFile(filepath.Join(l.repo, dir, n))
		if err != nil {
			return nil, err
		}
		if fnHasBuildConstraint(string(src)) {
			continue
		}
		rel := filepath.Join(dir, n)
		f, err := parser.ParseFile(l.fset, rel, src, parser.ParseComments)
		if err != nil {
			return nil, fmt.Errorf("parse %s: %w", rel, err)
		}
		p.files[rel] = f
		files = append(files, f)
	}
	if len(files) == 0 {
		return nil, fmt.Errorf("no Go files in %q", dir)
	}
	p.info = &types.Info{Types: map[ast.Expr]types.TypeAndValue{}, Defs: map[*ast.Ident]types.Object{}, Uses: map[*ast.Ident]types.Object{}}
	conf := types.Config{Importer: l, Error: func(error) {}, Sizes: types.SizesFor("gc", "amd64")}
	path := fnModule
	if dir != "" {
		path += "/" + filepath.ToSlash(dir)
	}
	p.pkg, _ = conf.Check(path, l.fset, files, p.info) // errors ignored, see above
	if p.pkg == nil {
		return nil, fmt.Errorf("type-checking %q produced no package", dir)
	}
	l.pkgs[dir] = p
	return p, nil
}

// fnHasBuildConstraint: a //go:build or // +build line before the package clause.
func fnHasBuildConstraint(src string) bool {
	for _, line := range strings.Split(src, "\n") {
		t := strings.TrimSpace(line)
		if strings.HasPrefix(t, "package ") {
			return false
		}
		if strings.HasPrefix(t, "//go:build") || strings.HasPrefix(t, "// +build") {
			return true
		}
	}
	return false
}

// findFunc: the declaration of function name (recv == "") or method recv.name in file rel.
func (p *fnPkg) findFunc(rel, recv, name string) *ast.FuncDecl {
	f := p.files[rel]
	if f == nil {
		return nil
	}
	for _, d := range f.Decls {
		fd, ok := d.(*ast.FuncDecl)
		if !ok || fd.Name.Name != name {
			continue
		}
		r := ""
		if fd.Recv != nil && len(fd.Recv.List) == 1 {
			t := fd.Recv.List[0].Type
			if st, ok := t.(*ast.StarExpr); ok {
				t = st.X
			}
			if id, ok := t.(*ast.Ident); ok {
				r = id.Name
			}
		}
		if r == recv {
			return fd
		}
	}
	return nil
}
