package gen

// The signature-hash assembly (signaturehash.go: CalcInputPreimage, CalcInputSignatureHash, sigStrat,
// CalcInputPreimageLegacy, and the small accessors of tx.go / txinput.go / txoutput.go they call) under the
// function-body translator.  The pieces (PreviousOutHash, SequenceHash, OutputsHash, BytesForSigHash, Flag.Has,
// Flag.HasWithMask, VarInt.Bytes) are printed by funcs.go / funcs_tx.go; the functions here CALL those printed
// definitions.

import (
	"fmt"
	"go/ast"
	"go/constant"
	"go/token"
	"go/types"
	"strings"
)

// printed after the functions of funcs_tx.go (callees first)
var fnSigHashList = []fnSpec{
	{Coq: "Tx_InputCount", File: "txinput.go", Recv: "Tx", Name: "InputCount", Fields: []string{"tx.Inputs"}, Props: []string{"C02", "C03"}, NoProof: true},
	{Coq: "Tx_OutputCount", File: "txoutput.go", Recv: "Tx", Name: "OutputCount", Fields: []string{"tx.Outputs"}, Props: []string{"C02"}, NoProof: true},
	{Coq: "Tx_InputIdx", File: "tx.go", Recv: "Tx", Name: "InputIdx", Fields: []string{"tx.Inputs"}, Props: []string{"C02", "C03"}},
	{Coq: "Tx_CalcInputPreimage", File: "signaturehash.go", Recv: "Tx", Name: "CalcInputPreimage", Fields: fnTxF, Props: []string{"C02", "C04", "C06", "C20"}},
	{Coq: "Tx_CalcInputPreimageLegacy", File: "signaturehash.go", Recv: "Tx", Name: "CalcInputPreimageLegacy", Fields: fnTxF, Props: []string{"C03"}},
	{Coq: "Tx_sigStrat", File: "signaturehash.go", Recv: "Tx", Name: "sigStrat", Props: []string{"C02", "C03"}, NoProof: true},
	{Coq: "Tx_CalcInputSignatureHash", File: "signaturehash.go", Recv: "Tx", Name: "CalcInputSignatureHash", Fields: fnTxF, Assume: []string{"Tx_CalcInputPreimageLegacy"}, Props: []string{"C02", "C03", "C04", "C06", "C20"}},
}

// appended to fnList by the init() of funcs_tx.go, right after fnTxList (Go runs the init functions of a package in
// file-name order, and funcs_sighash.go sorts before funcs_tx.go: the callees must come first).

// ---- what CalcInputSignatureHash / sigStrat add to the translator ----
//
//   - METHOD VALUES of the function's own receiver (`tx.CalcInputPreimage` not in call position; the named func type
//     sigHashFunc): a Z tag, one per method, handed out in the order the methods are first mentioned (the generated
//     comment of every function that mentions one lists the tags).  Only the function's own receiver can be the bound
//     receiver, and a function that returns a method value can only be called on the caller's own receiver, so a tag
//     always means "that method of THIS receiver"; the functions are pure in the receiver (a function with declared
//     State cannot use method values).  A CALL through such a value, `a, b := f(x, y)`, is a dispatch over every method
//     with a tag and an identical signature: the application of the printed definition, or -- for a method that the
//     spec of the calling function names in Assume and that is not translated -- of a PARAMETER f_<Coq> of the printed
//     definition (the equivalence theorem then carries the hypothesis that the parameter is the model's function);
//     any other tag is a Panic (Go: call of a nil func value; no other value of the type can be built here).
//   - a package-level []byte VARIABLE initialised with a literal and used in the whole package only as a read-only
//     operand (an argument of bytes.Equal or len, the spread argument of append): its literal (defaultHex).

var fnMethTags = map[string]int{}      // fnKey of a method -> tag (reset per run through fnMethReset)
var fnMethObjs = map[string]*types.Func{}
var fnMethOrder []string
var fnMethRecv = map[*fnTr]ast.Expr{}  // the receiver identifier (a use) through which method values were bound
var fnMethUsed = map[*fnTr]bool{}
var fnAssumed = map[*fnTr][]string{}   // the parameters for assumed callees, in order of first use: Coq names
var fnAssumedTy = map[*fnTr][]string{}

func fnMethReset() {
	fnMethTags, fnMethObjs, fnMethOrder = map[string]int{}, map[string]*types.Func{}, nil
	fnMethRecv, fnMethUsed, fnAssumed, fnAssumedTy = map[*fnTr]ast.Expr{}, map[*fnTr]bool{}, map[*fnTr][]string{}, map[*fnTr][]string{}
}

// fnClassifySigHash: a named func type of package bt.
func fnClassifySigHash(ty types.Type) (fnType, bool) {
	n, ok := ty.(*types.Named)
	if !ok || n.Obj().Pkg() == nil || n.Obj().Pkg().Path() != fnModule {
		return fnType{}, false
	}
	if _, isSig := n.Underlying().(*types.Signature); !isSig {
		return fnType{}, false
	}
	return fnType{k: fkMeth}, true
}

// ownReceiver: e is the identifier of the function's own (pointer) receiver.
func (t *fnTr) ownReceiver(e ast.Expr) bool {
	id, ok := e.(*ast.Ident)
	if !ok {
		return false
	}
	idx, isRoot := t.rootIdx[id.Name]
	if !isRoot || idx != -1 {
		return false
	}
	v, ok := t.pkg.info.Uses[id].(*types.Var)
	return ok && !v.IsField()
}

// methodValue: `tx.M` (not called) for the function's own receiver tx and a method M of its type.
func (t *fnTr) methodValue(e ast.Expr) (fnVal, bool) {
	sel, ok := e.(*ast.SelectorExpr)
	if !ok {
		return fnVal{}, false
	}
	fn, ok := t.pkg.info.Uses[sel.Sel].(*types.Func)
	if !ok || fn.Pkg() == nil || fn.Pkg().Path() != fnModule {
		return fnVal{}, false
	}
	if !t.ownReceiver(sel.X) {
		t.fail(e, "method value of something other than the function's own receiver")
	}
	if len(t.spec.State) > 0 {
		t.fail(e, "method value in a function that writes state")
	}
	key := fnKey(fn.Pkg().Path(), fnRecvName(fn), fn.Name())
	if !fnIsListed(key) {
		t.fail(e, "method value %s, which is not on the translator's list", fn.Name())
	}
	tag, seen := fnMethTags[key]
	if !seen {
		tag = len(fnMethOrder)
		fnMethTags[key], fnMethObjs[key] = tag, fn
		fnMethOrder = append(fnMethOrder, key)
	}
	fnMethRecv[t], fnMethUsed[t] = sel.X, true
	return fnVal{s: fmt.Sprint(tag), pure: true, ty: fnType{k: fkMeth}}, true
}

// methResultCall: after `f := tx.g(...)` for a printed g that returns a method value: g must have been called on the
// function's own receiver (checked where the call is translated: here, through the hook in expr).
func (t *fnTr) methResultCheck(c *ast.CallExpr, d *fnDone, recv ast.Expr) {
	if len(d.results) == 1 && d.results[0].k == fkMeth {
		if recv == nil || !t.ownReceiver(recv) || len(t.spec.State) > 0 {
			t.fail(c, "%s returns a method value of its receiver and is called on something other than this function's own receiver", d.spec.Coq)
		}
		fnMethRecv[t], fnMethUsed[t] = recv, true
	}
}

// methValCall: `a, b := f(x, y)` / `a := f(x)` for a local variable f that holds a method value.
func (t *fnTr) methValCall(x *ast.AssignStmt, k func() string) (string, bool) {
	if len(x.Rhs) != 1 {
		return "", false
	}
	c, ok := x.Rhs[0].(*ast.CallExpr)
	if !ok {
		return "", false
	}
	fid, ok := c.Fun.(*ast.Ident)
	if !ok {
		return "", false
	}
	fobj := t.pkg.info.Uses[fid]
	fv := t.vars[fobj]
	if fobj == nil || fv == nil || fv.ty.k != fkMeth {
		return "", false
	}
	recv := fnMethRecv[t]
	if recv == nil {
		t.fail(c, "call through a method value whose receiver is not known")
	}
	named, ok := fobj.Type().(*types.Named)
	if !ok {
		t.fail(c, "call through a value of an unnamed func type")
	}
	want := named.Underlying().(*types.Signature)
	if c.Ellipsis.IsValid() || want.Variadic() {
		t.fail(c, "variadic call through a method value")
	}
	var resTys []fnType
	for i := 0; i < want.Results().Len(); i++ {
		rt, ok := fnClassify(want.Results().At(i).Type())
		if !ok || rt.k == fkNil || rt.k == fkMeth {
			t.fail(c, "call through a method value with a result of unsupported type")
		}
		resTys = append(resTys, rt)
	}
	if len(x.Lhs) != len(resTys) {
		t.fail(c, "%d targets for the %d results of the method value", len(x.Lhs), len(resTys))
	}
	// the arguments, once (left to right), as pure names
	var argVals []fnVal
	var argTys []string
	for i, a := range c.Args {
		v := t.expr(a)
		pt, ok := fnClassify(want.Params().At(i).Type())
		if !ok || (pt.k != fkInt && pt.k != fkBool) {
			t.fail(a, "call through a method value with an argument that is not an integer or a bool")
		}
		v = t.coerce(a, v, pt)
		argVals = append(argVals, v)
		argTys = append(argTys, pt.coq())
	}
	if len(c.Args) != want.Params().Len() {
		t.fail(c, "call through a method value with %d arguments for %d parameters", len(c.Args), want.Params().Len())
	}
	var rts []string
	for _, rt := range resTys {
		rts = append(rts, rt.coq())
	}
	resTy := rts[0]
	if len(rts) > 1 {
		resTy = "(" + strings.Join(rts, " * ") + ")"
	}
	// one branch per tagged method with this signature
	type branch struct {
		tag  int
		term string
	}
	var branches []branch
	for _, key := range fnMethOrder {
		fn := fnMethObjs[key]
		sig := fn.Type().(*types.Signature)
		if !types.Identical(types.NewSignatureType(nil, nil, nil, sig.Params(), sig.Results(), sig.Variadic()), want) {
			continue
		}
		selId := &ast.Ident{Name: fn.Name(), NamePos: c.Pos()}
		t.pkg.info.Uses[selId] = fn
		syn := &ast.CallExpr{Fun: &ast.SelectorExpr{X: recv, Sel: selId}, Lparen: c.Lparen, Args: c.Args, Rparen: c.Rparen}
		if d := t.ld.done[key]; d != nil {
			if len(d.state) > 0 || len(d.results) != len(resTys) {
				t.fail(c, "the method value may be %s, which writes state or has other results", d.spec.Coq)
			}
			for i := range resTys {
				if d.results[i].k != resTys[i].k {
					t.fail(c, "the method value may be %s, whose results have other types", d.spec.Coq)
				}
			}
			branches = append(branches, branch{fnMethTags[key], t.callTerm(syn, d, recv).s})
			continue
		}
		coqName := ""
		for _, sp := range fnList {
			if fnSpecKey(sp) == key {
				coqName = sp.Coq
			}
		}
		assumed := false
		for _, a := range t.spec.Assume {
			if a == coqName {
				assumed = true
			}
		}
		if !assumed {
			t.fail(c, "the method value may be %s, which is not translated (or is printed after this function)", fn.Name())
		}
		pname := "f_" + coqName
		known := false
		for _, n := range fnAssumed[t] {
			known = known || n == pname
		}
		if !known {
			fnAssumed[t] = append(fnAssumed[t], pname)
			fnAssumedTy[t] = append(fnAssumedTy[t], strings.Join(append(append([]string{}, argTys...), "M "+fnParen(resTy)), " -> "))
		}
		r := t.seq(argVals, func(ts []string) fnVal { return fnVal{s: pname + " " + strings.Join(ts, " ")} })
		branches = append(branches, branch{fnMethTags[key], r.s})
	}
	if len(branches) == 0 {
		t.fail(c, "call through a method value of a type no listed method has")
	}
	term := "Panic"
	for i := len(branches) - 1; i >= 0; i-- {
		term = "if " + fv.name + " =? " + fmt.Sprint(branches[i].tag) + " then (" + branches[i].term + ") else " + term
	}
	var names []string
	for i, l := range x.Lhs {
		names = append(names, t.defineTarget(l, resTys[i]))
	}
	pat := names[0]
	if len(names) > 1 {
		pat = "'(" + strings.Join(names, ", ") + ")"
	}
	return "bind (" + term + ") (fun " + pat + " =>" + t.nl() + k() + ")", true
}

// assumeParams: the parameters of the printed definition for the assumed callees the body used (known only after the
// body was printed).
func (t *fnTr) assumeParams() string {
	var ps []string
	for i, n := range fnAssumed[t] {
		ps = append(ps, "("+n+" : "+fnAssumedTy[t][i]+")")
		t.args = append(t.args, fnArg{goParam: -2, path: "(assumed callee " + n + ")"})
	}
	if len(ps) == 0 {
		return ""
	}
	return " " + strings.Join(ps, " ")
}

// methComment: the tags a function's definition mentions.
func (t *fnTr) methComment() string {
	if !fnMethUsed[t] {
		return ""
	}
	var ss []string
	for i, key := range fnMethOrder {
		fn := fnMethObjs[key]
		ss = append(ss, fmt.Sprintf("%d = %s.%s", i, fnRecvName(fn), fn.Name()))
	}
	s := "(* method values of the receiver (a Z tag; any other tag is a call of a nil func value): " + strings.Join(ss, ", ")
	if len(fnAssumed[t]) > 0 {
		s += "; NOT translated and taken as a parameter: " + strings.Join(fnAssumed[t], ", ")
	}
	return s + " *)\n"
}

// pkgBytesVar: a package-level []byte variable with a literal initialiser that the package only reads.
func (t *fnTr) pkgBytesVar(id *ast.Ident, obj types.Object) (fnVal, bool) {
	v, ok := obj.(*types.Var)
	if !ok || v.IsField() || v.Pkg() != t.pkg.pkg || v.Parent() != t.pkg.pkg.Scope() {
		return fnVal{}, false
	}
	ty, ok := fnClassify(v.Type())
	if !ok || ty.k != fkBytes {
		return fnVal{}, false
	}
	var lit *ast.CompositeLit
	for _, f := range t.pkg.files {
		for _, d := range f.Decls {
			gd, ok := d.(*ast.GenDecl)
			if !ok || gd.Tok != token.VAR {
				continue
			}
			for _, sp := range gd.Specs {
				vs := sp.(*ast.ValueSpec)
				for i, n := range vs.Names {
					if t.pkg.info.Defs[n] == obj && i < len(vs.Values) && len(vs.Names) == len(vs.Values) {
						lit, _ = vs.Values[i].(*ast.CompositeLit)
					}
				}
			}
		}
	}
	if lit == nil {
		t.fail(id, "package variable %s is not initialised with a []byte literal", id.Name)
	}
	// every use in the package is a read-only operand
	for _, f := range t.pkg.files {
		var stack []ast.Node
		ast.Inspect(f, func(n ast.Node) bool {
			if n == nil {
				stack = stack[:len(stack)-1]
				return true
			}
			if u, isId := n.(*ast.Ident); isId && t.pkg.info.Uses[u] == obj {
				okUse := false
				if len(stack) > 0 {
					if c, isCall := stack[len(stack)-1].(*ast.CallExpr); isCall {
						if p, ns, isSel := t.pkgSel(c.Fun); isSel && p == "bytes" && len(ns) == 1 && ns[0] == "Equal" {
							okUse = true
						}
						if b, isB := c.Fun.(*ast.Ident); isB {
							if _, isBuiltin := t.pkg.info.Uses[b].(*types.Builtin); isBuiltin {
								okUse = b.Name == "len" || (b.Name == "append" && c.Ellipsis.IsValid() && len(c.Args) == 2 && c.Args[1] == ast.Expr(u))
							}
						}
					}
				}
				if !okUse {
					t.fail(id, "package variable %s is used at line %d other than as a read-only operand (bytes.Equal, len, append(x, v...)): it may be written", id.Name, t.pkg.fset.Position(u.Pos()).Line)
				}
			}
			stack = append(stack, n)
			return true
		})
	}
	var elts []string
	for _, el := range lit.Elts {
		tv, ok := t.pkg.info.Types[el]
		if !ok || tv.Value == nil || tv.Value.Kind() != constant.Int {
			t.fail(id, "package variable %s has a non-constant element", id.Name)
		}
		elts = append(elts, fnZ(tv.Value))
	}
	return fnVal{s: "go_bytes_lit [" + strings.Join(elts, "; ") + "]", pure: true, ty: ty}, true
}
