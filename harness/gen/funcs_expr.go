package gen

// Expressions of the function-body translator.  Every Go expression becomes either a PURE Gallina term (of type
// bool / Z / bytes / list Z) or, when evaluating it can panic (index, slice, make, / % << >>, LittleEndian.UintN),
// an EFFECTFUL term of type M T; operands are bound left to right with GoSem.bind.  && and || whose right operand
// is effectful keep Go's short circuit (go_andthen / go_orelse).  Integer operations that can overflow carry the Go
// type of the result (from go/types), constants are the values go/types computed with go/constant.

import (
	"fmt"
	"go/ast"
	"go/constant"
	"go/token"
	"go/types"
	"strings"
)

type fnKind int

const (
	fkBool     fnKind = iota // bool
	fkInt                    // Z, Go integer type ity
	fkBytes                  // list byte
	fkInts                   // list Z (slice of a non-byte integer type ity)
	fkErr                    // bool: true = non-nil error
	fkNil                    // the untyped nil
	fkStack                  // list bytes: a [][]byte, in Go order (funcs_interp.go)
	fkNum                    // Z: a *scriptNumber (funcs_interp.go)
	fkCfg                    // bool: the interface config, true = afterGenesisConfig (funcs_interp.go)
	fkOptBytes               // option bytes: a *bscript.Script (funcs_tx.go)
	fkNilBytes               // option bytes: a []byte parameter that is compared with nil (funcs_tx.go)
	fkPtr                    // option go_<sname>: a pointer to a struct of package bt (funcs_tx.go)
	fkPtrs                   // list (option go_<sname>): a slice of such pointers (funcs_tx.go)
	fkString                 // bytes: a Go string, as the bytes it holds (funcs_script.go)
	fkMeth                   // Z: a method value of the function's own receiver, as a tag (funcs_sighash.go)
)

type fnType struct {
	k     fnKind
	ity   string
	sname string // fkPtr, fkPtrs: the struct
}

func (ty fnType) coq() string {
	switch ty.k {
	case fkBool, fkErr:
		return "bool"
	case fkInt:
		return "Z"
	case fkBytes, fkString:
		return "bytes"
	case fkInts:
		return "list Z"
	case fkStack:
		return "list bytes"
	case fkNum, fkMeth:
		return "Z"
	case fkCfg:
		return "bool"
	case fkOptBytes, fkNilBytes:
		return "option bytes"
	case fkPtr:
		fnStructsUsed[ty.sname] = true
		return "option go_" + ty.sname
	case fkPtrs:
		fnStructsUsed[ty.sname] = true
		return "list (option go_" + ty.sname + ")"
	}
	return "?"
}

type fnVar struct {
	name  string
	ty    fnType
	fresh bool          // a byte slice allocated in this function that no other variable can alias
	alias []interface{} // the variables (keys of fnTr.vars) whose storage this slice variable may share
	stale bool          // a [][]byte whose storage has since been overwritten through another variable (append in place)
	cells []int         // a *scriptNumber: the number objects the variable may point to (funcs_interp.go)
	guard interface{}   // a *scriptNumber result: the error variable that says whether it is nil (funcs_interp.go)
	okNum bool          // ... and that error has been tested to be nil on this path
}

type fnVal struct {
	s     string
	pure  bool
	ty    fnType
	alias []interface{} // slice variables (keys of fnTr.vars) whose storage the value may share
	fresh bool          // value is freshly allocated storage (make, literal, append onto such)
	cells []int         // a *scriptNumber value: the number objects it may point to
}

type fnTr struct {
	pkg        *fnPkg
	spec       fnSpec
	vars       map[interface{}]*fnVar // types.Object (locals, parameters) or string (declared field paths)
	ld         *fnLoader
	state      []string     // the declared field paths the function may write, in order (spec.State)
	dead       map[int]bool // *scriptNumber objects that were changed in place: a variable still pointing to one is unusable
	ncell      int
	noRes      bool                 // the Go function has no results
	erased     map[string]bool      // the debugger callbacks of the stack whose calls were left out
	args       []fnArg              // the parameters of the printed definition, in order
	rootIdx    map[string]int       // struct / pointer parameters: name -> position (-1 = receiver)
	errNil     map[interface{}]bool // error variables known to be nil on the current path
	names      map[string]int
	objs       map[types.Object]string // the Coq name of a Go variable, fixed at its first translation
	tmp        int
	results    []fnType
	inSelector int                   // > 0 while the base of a field selection is read (funcs_tx.go)
	namedRes   []types.Object        // named results, in order (funcs_tx.go)
	ret        func(s string) string // the M-term that returns the pure result term s at the current nesting level
	brk        func() string
	cont       func() string
	ind        int
}

func (t *fnTr) fail(n ast.Node, format string, a ...interface{}) {
	line := 0
	if n != nil {
		line = t.pkg.fset.Position(n.Pos()).Line
	}
	panic(fnError{fmt.Sprintf("line %d: ", line) + fmt.Sprintf(format, a...)})
}

func (t *fnTr) temp() string { t.tmp++; return fmt.Sprintf("t_%d", t.tmp) }

func (t *fnTr) newName(base string) string {
	n := t.names[base]
	t.names[base] = n + 1
	if n == 0 {
		return "v_" + base
	}
	return fmt.Sprintf("v_%s_%d", base, n)
}

// objName: one Coq name per Go variable, however often the code declaring it is printed.
func (t *fnTr) objName(obj types.Object, base string) string {
	if n, ok := t.objs[obj]; ok {
		return n
	}
	n := t.newName(base)
	t.objs[obj] = n
	return n
}

var fnBasicIty = map[types.BasicKind]string{
	types.Uint8: "U8", types.Uint16: "U16", types.Uint32: "U32", types.Uint64: "U64", types.Uint: "U64",
	types.Int8: "I8", types.Int16: "I16", types.Int32: "I32", types.Int64: "I64", types.Int: "I64",
	types.UntypedInt: "I64", types.UntypedRune: "I32",
}

func fnClassify(ty types.Type) (fnType, bool) {
	if ty == nil {
		return fnType{}, false
	}
	if ty.String() == "error" {
		return fnType{k: fkErr}, true
	}
	if k, ok := fnClassifyInterp(ty); ok {
		return k, true
	}
	if k, ok := fnClassifyTx(ty); ok {
		return k, true
	}
	if k, ok := fnClassifySigHash(ty); ok {
		return k, true
	}
	switch u := ty.Underlying().(type) {
	case *types.Basic:
		if u.Kind() == types.Bool || u.Kind() == types.UntypedBool {
			return fnType{k: fkBool}, true
		}
		if u.Kind() == types.UntypedNil {
			return fnType{k: fkNil}, true
		}
		if u.Kind() == types.String || u.Kind() == types.UntypedString {
			return fnType{k: fkString}, true
		}
		if it, ok := fnBasicIty[u.Kind()]; ok {
			return fnType{k: fkInt, ity: it}, true
		}
	case *types.Slice:
		if e, ok := fnClassify(u.Elem()); ok && e.k == fkInt {
			if b, ok := u.Elem().Underlying().(*types.Basic); ok && b.Kind() == types.Uint8 {
				return fnType{k: fkBytes, ity: "U8"}, true
			}
			return fnType{k: fkInts, ity: e.ity}, true
		}
		if e, ok := fnClassify(u.Elem()); ok && e.k == fkBytes {
			return fnType{k: fkStack}, true
		}
	}
	return fnType{}, false
}

// fnParen: s as an argument of an application.
func fnParen(s string) string {
	if !strings.ContainsAny(s, " \n") {
		return s
	}
	if strings.HasPrefix(s, "(") {
		depth := 0
		for i, c := range s {
			if c == '(' {
				depth++
			} else if c == ')' {
				depth--
				if depth == 0 {
					if i == len(s)-1 {
						return s
					}
					break
				}
			}
		}
	}
	return "(" + s + ")"
}

func fnZ(v constant.Value) string {
	s := v.ExactString()
	if strings.HasPrefix(s, "-") {
		return "(" + s + ")"
	}
	return s
}

// typeOf: the classified Go type of an expression, from go/types.
func (t *fnTr) typeOf(e ast.Expr) fnType {
	tv, ok := t.pkg.info.Types[e]
	if !ok || tv.Type == nil {
		t.fail(e, "expression has no type (unresolved import or unsupported form)")
	}
	ty, ok := fnClassify(tv.Type)
	if !ok {
		t.fail(e, "unsupported type %s", tv.Type)
	}
	return ty
}

// seq binds the effectful operands (left to right) and builds the result from the operand terms.
func (t *fnTr) seq(args []fnVal, build func(ts []string) fnVal) fnVal {
	ts := make([]string, len(args))
	all := true
	for i, a := range args {
		if a.pure {
			ts[i] = fnParen(a.s)
		} else {
			ts[i] = t.temp()
			all = false
		}
	}
	r := build(ts)
	if all {
		return r
	}
	s := r.s
	if r.pure {
		s = "Val " + fnParen(s)
	}
	for i := len(args) - 1; i >= 0; i-- {
		if !args[i].pure {
			s = "bind (" + args[i].s + ") (fun " + ts[i] + " => " + s + ")"
		}
	}
	r.s, r.pure = s, false
	return r
}

// asM: the value as a term of type M T.
func (v fnVal) asM() string {
	if v.pure {
		return "Val " + fnParen(v.s)
	}
	return v.s
}

// coerce the untyped nil to the zero value of the wanted type, and check kinds.
func (t *fnTr) coerce(n ast.Node, v fnVal, want fnType) fnVal {
	if v.ty.k == fkNil {
		switch want.k {
		case fkErr:
			return fnVal{s: "false", pure: true, ty: want}
		case fkBytes, fkInts, fkStack:
			return fnVal{s: "[]", pure: true, ty: want}
		case fkNum:
			return fnVal{s: "sn_nil", pure: true, ty: want, cells: []int{t.newCell()}}
		case fkOptBytes, fkPtr:
			return fnVal{s: "None", pure: true, ty: want}
		}
		t.fail(n, "nil used as %s", want.coq())
	}
	if v.ty.k != want.k {
		t.fail(n, "value of kind %s used as %s", v.ty.coq(), want.coq())
	}
	return v
}

// fieldPath renders a selector / dereference chain rooted at a parameter: o.op.val, *s, t.condStack.
func (t *fnTr) fieldPath(e ast.Expr) (string, bool) {
	switch x := e.(type) {
	case *ast.Ident:
		if _, isVar := t.pkg.info.Uses[x].(*types.Var); isVar {
			return x.Name, true
		}
	case *ast.SelectorExpr:
		if p, ok := t.fieldPath(x.X); ok {
			if sel, isVar := t.pkg.info.Uses[x.Sel].(*types.Var); isVar && sel.IsField() {
				return p + "." + x.Sel.Name, true
			}
		}
	case *ast.StarExpr:
		if p, ok := t.fieldPath(x.X); ok {
			return "*" + p, true
		}
	case *ast.ParenExpr:
		return t.fieldPath(x.X)
	}
	return "", false
}

func (t *fnTr) varVal(n ast.Node, v *fnVar, key interface{}) fnVal {
	r := fnVal{s: v.name, pure: true, ty: v.ty}
	if v.ty.k == fkNilBytes { // every use other than the comparison with nil (funcs_tx.go: nilTest)
		r = fnVal{s: "go_bytes_of " + v.name, pure: true, ty: fnType{k: fkBytes, ity: "U8"}}
		if key != nil {
			r.alias = []interface{}{key}
		}
		return r
	}
	if v.ty.k == fkPtr && key != nil {
		if t.inSelector == 0 {
			v.fresh = false // the pointer itself is used as a value: another name for the struct may exist from here on
		}
	}
	if v.stale {
		t.fail(n, "%s is read after the storage it shares was overwritten by an append through another variable", v.name)
	}
	if key != nil && (v.ty.k == fkBytes || v.ty.k == fkInts || v.ty.k == fkStack) {
		r.alias = []interface{}{key}
		r.fresh = v.fresh
	}
	if v.ty.k == fkNum {
		t.readNum(n, v)
		r.cells = v.cells
	}
	return r
}

func (t *fnTr) expr(e ast.Expr) fnVal {
	// constants first: whatever go/types evaluated (literals, named constants of any go-bt package, constant
	// expressions, conversions of constants)
	if tv, ok := t.pkg.info.Types[e]; ok && tv.Value != nil {
		switch tv.Value.Kind() {
		case constant.Bool:
			return fnVal{s: fmt.Sprint(constant.BoolVal(tv.Value)), pure: true, ty: fnType{k: fkBool}}
		case constant.Int:
			ty, ok := fnClassify(tv.Type)
			if !ok || ty.k != fkInt {
				t.fail(e, "integer constant of unsupported type %s", tv.Type)
			}
			return fnVal{s: fnZ(tv.Value), pure: true, ty: ty}
		case constant.String:
			return t.stringConst(e, tv.Value)
		}
		t.fail(e, "constant of unsupported kind %s", tv.Value.Kind())
	}
	switch x := e.(type) {
	case *ast.ParenExpr:
		return t.expr(x.X)
	case *ast.Ident:
		if tv, ok := t.pkg.info.Types[e]; ok && tv.IsNil() {
			return fnVal{s: "nil", pure: true, ty: fnType{k: fkNil}}
		}
		obj := t.pkg.info.Uses[x]
		if obj == nil {
			t.fail(e, "unresolved identifier %s", x.Name)
		}
		if v, ok := t.vars[obj]; ok {
			return t.varVal(e, v, obj)
		}
		if t.isSentinelError(obj) {
			return fnVal{s: "true", pure: true, ty: fnType{k: fkErr}}
		}
		if v, ok := t.pkgBytesVar(x, obj); ok {
			return v
		}
		t.fail(e, "identifier %s is not a local variable, parameter, constant or sentinel error", x.Name)
	case *ast.SelectorExpr, *ast.StarExpr:
		if v, ok := t.methodValue(e); ok {
			return v
		}
		if v, ok := t.txSelector(e); ok {
			return v
		}
		if p, ok := t.fieldPath(e); ok {
			if v, ok := t.vars[p]; ok {
				return t.varVal(e, v, nil)
			}
			t.fail(e, "reads %s, which is not in the declared interface of the function", p)
		}
		t.fail(e, "unsupported selector or dereference")
	case *ast.UnaryExpr:
		if x.Op == token.AND {
			if v, ok := t.structLiteral(x); ok {
				return v
			}
			return t.numLiteral(x)
		}
		a := t.expr(x.X)
		if x.Op == token.NOT && a.ty.k == fkBool { // also where go/types has no type for the operand (a call into a placeholder package: !bytes.Equal(..))
			return t.seq([]fnVal{a}, func(ts []string) fnVal { return fnVal{s: "negb " + ts[0], pure: true, ty: a.ty} })
		}
		ty := t.typeOf(e)
		switch x.Op {
		case token.NOT:
			return t.seq([]fnVal{a}, func(ts []string) fnVal { return fnVal{s: "negb " + ts[0], pure: true, ty: ty} })
		case token.SUB:
			return t.seq([]fnVal{a}, func(ts []string) fnVal { return fnVal{s: "go_neg " + ty.ity + " " + ts[0], pure: true, ty: ty} })
		case token.XOR:
			return t.seq([]fnVal{a}, func(ts []string) fnVal { return fnVal{s: "go_not " + ty.ity + " " + ts[0], pure: true, ty: ty} })
		case token.ADD:
			return a
		}
		t.fail(e, "unsupported unary operator %s", x.Op)
	case *ast.BinaryExpr:
		if x.Op == token.LAND || x.Op == token.LOR {
			a, b := t.expr(x.X), t.expr(x.Y)
			if a.ty.k != fkBool || b.ty.k != fkBool {
				t.fail(e, "logical operator on non-booleans")
			}
			pureOp, lazyOp := "andb", "go_andthen"
			if x.Op == token.LOR {
				pureOp, lazyOp = "orb", "go_orelse"
			}
			if b.pure {
				return t.seq([]fnVal{a, b}, func(ts []string) fnVal {
					return fnVal{s: pureOp + " " + ts[0] + " " + ts[1], pure: true, ty: fnType{k: fkBool}}
				})
			}
			return fnVal{s: lazyOp + " (" + a.asM() + ") (" + b.s + ")", ty: fnType{k: fkBool}}
		}
		if v, ok := t.nilTest(x); ok {
			return v
		}
		a, b := t.expr(x.X), t.expr(x.Y)
		switch x.Op {
		case token.EQL, token.NEQ, token.LSS, token.LEQ, token.GTR, token.GEQ:
			return t.compare(e, x.Op, a, b)
		}
		return t.arith(e, x.Op, a, b, t.typeOf(e))
	case *ast.CallExpr:
		return t.call(x)
	case *ast.IndexExpr:
		a, i := t.expr(x.X), t.expr(x.Index)
		if i.ty.k != fkInt {
			t.fail(e, "non-integer index")
		}
		switch a.ty.k {
		case fkBytes:
			return t.seq([]fnVal{a, i}, func(ts []string) fnVal {
				return fnVal{s: "go_index_b " + ts[0] + " " + ts[1], ty: fnType{k: fkInt, ity: "U8"}}
			})
		case fkInts:
			return t.seq([]fnVal{a, i}, func(ts []string) fnVal {
				return fnVal{s: "go_index " + ts[0] + " " + ts[1], ty: fnType{k: fkInt, ity: a.ty.ity}}
			})
		case fkStack: // an item of a stack is a value; it is never "allocated here", so it cannot be written in place
			return t.seq([]fnVal{a, i}, func(ts []string) fnVal {
				return fnVal{s: "go_index " + ts[0] + " " + ts[1], ty: fnType{k: fkBytes, ity: "U8"}}
			})
		case fkPtrs:
			return t.seq([]fnVal{a, i}, func(ts []string) fnVal {
				return fnVal{s: "go_index " + ts[0] + " " + ts[1], ty: fnType{k: fkPtr, sname: a.ty.sname}}
			})
		}
		t.fail(e, "index of a non-slice")
	case *ast.SliceExpr:
		if x.Slice3 {
			t.fail(e, "three-index slice")
		}
		a := t.expr(x.X)
		if a.ty.k != fkBytes && a.ty.k != fkInts && a.ty.k != fkStack {
			t.fail(e, "slice of a non-slice")
		}
		args := []fnVal{a}
		op := "go_slice"
		switch {
		case x.Low != nil && x.High != nil:
			args = append(args, t.expr(x.Low), t.expr(x.High))
		case x.Low != nil:
			op = "go_slice_from"
			args = append(args, t.expr(x.Low))
		case x.High != nil:
			op = "go_slice_to"
			args = append(args, t.expr(x.High))
		default:
			return a
		}
		r := t.seq(args, func(ts []string) fnVal { return fnVal{s: op + " " + strings.Join(ts, " "), ty: a.ty} })
		r.alias = a.alias
		return r
	case *ast.CompositeLit:
		ty := t.typeOf(e)
		if v, ok := t.scriptLiteral(x, ty); ok {
			return v
		}
		if ty.k != fkBytes {
			t.fail(e, "composite literal that is not a []byte")
		}
		var args []fnVal
		for _, el := range x.Elts {
			if _, kv := el.(*ast.KeyValueExpr); kv {
				t.fail(e, "keyed []byte literal")
			}
			v := t.expr(el)
			if v.ty.k != fkInt {
				t.fail(el, "non-integer element")
			}
			args = append(args, v)
		}
		r := t.seq(args, func(ts []string) fnVal {
			return fnVal{s: "go_bytes_lit [" + strings.Join(ts, "; ") + "]", pure: true, ty: ty}
		})
		r.fresh = true
		return r
	}
	t.fail(e, "unsupported expression %T", e)
	return fnVal{}
}

func (t *fnTr) compare(n ast.Node, op token.Token, a, b fnVal) fnVal {
	boolT := fnType{k: fkBool}
	// err == nil, err != nil
	if (a.ty.k == fkErr && b.ty.k == fkNil) || (a.ty.k == fkNil && b.ty.k == fkErr) {
		e := a
		if a.ty.k == fkNil {
			e = b
		}
		if op == token.NEQ {
			return t.seq([]fnVal{e}, func(ts []string) fnVal { return fnVal{s: ts[0], pure: true, ty: boolT} })
		}
		if op == token.EQL {
			return t.seq([]fnVal{e}, func(ts []string) fnVal { return fnVal{s: "negb " + ts[0], pure: true, ty: boolT} })
		}
	}
	if v, ok := t.ptrNilCompare(op, a, b); ok {
		return v
	}
	if a.ty.k == fkBool && b.ty.k == fkBool && (op == token.EQL || op == token.NEQ) {
		return t.seq([]fnVal{a, b}, func(ts []string) fnVal {
			s := "Bool.eqb " + ts[0] + " " + ts[1]
			if op == token.NEQ {
				s = "negb (" + s + ")"
			}
			return fnVal{s: s, pure: true, ty: boolT}
		})
	}
	if a.ty.k != fkInt || b.ty.k != fkInt {
		t.fail(n, "comparison of unsupported operands (slices cannot be compared with nil here)")
	}
	return t.seq([]fnVal{a, b}, func(ts []string) fnVal {
		var s string
		switch op {
		case token.EQL:
			s = ts[0] + " =? " + ts[1]
		case token.NEQ:
			s = "negb (" + ts[0] + " =? " + ts[1] + ")"
		case token.LSS:
			s = ts[0] + " <? " + ts[1]
		case token.LEQ:
			s = ts[0] + " <=? " + ts[1]
		case token.GTR:
			s = ts[1] + " <? " + ts[0]
		case token.GEQ:
			s = ts[1] + " <=? " + ts[0]
		}
		return fnVal{s: s, pure: true, ty: boolT}
	})
}

// arith: the integer operators; ty is the Go type of the result.
func (t *fnTr) arith(n ast.Node, op token.Token, a, b fnVal, ty fnType) fnVal {
	if a.ty.k != fkInt || b.ty.k != fkInt || ty.k != fkInt {
		t.fail(n, "operator %s on non-integers", op)
	}
	pure := func(f string) fnVal {
		return t.seq([]fnVal{a, b}, func(ts []string) fnVal { return fnVal{s: f + " " + ts[0] + " " + ts[1], pure: true, ty: ty} })
	}
	eff := func(f string) fnVal {
		return t.seq([]fnVal{a, b}, func(ts []string) fnVal { return fnVal{s: f + " " + ts[0] + " " + ts[1], ty: ty} })
	}
	switch op {
	case token.ADD:
		return pure("go_add " + ty.ity)
	case token.SUB:
		return pure("go_sub " + ty.ity)
	case token.MUL:
		return pure("go_mul " + ty.ity)
	case token.AND:
		return pure("go_and")
	case token.OR:
		return pure("go_or")
	case token.XOR:
		return pure("go_xor " + ty.ity)
	case token.AND_NOT:
		return pure("go_andnot")
	case token.QUO:
		return eff("go_div " + ty.ity)
	case token.REM:
		return eff("go_rem " + ty.ity)
	case token.SHL:
		return eff("go_shl " + ty.ity)
	case token.SHR:
		return eff("go_shr")
	}
	t.fail(n, "unsupported operator %s", op)
	return fnVal{}
}

// isPkgSel: e is <pkg>.<a>.<b>... for an imported package with the given path.
func (t *fnTr) pkgSel(e ast.Expr) (pkgPath string, names []string, ok bool) {
	switch x := e.(type) {
	case *ast.Ident:
		if pn, isPkg := t.pkg.info.Uses[x].(*types.PkgName); isPkg {
			return pn.Imported().Path(), nil, true
		}
	case *ast.SelectorExpr:
		if p, ns, ok := t.pkgSel(x.X); ok {
			return p, append(ns, x.Sel.Name), true
		}
	}
	return "", nil, false
}

var fnLEWidth = map[string]string{"16": "2", "32": "4", "64": "8"}
var fnLEIty = map[string]string{"16": "U16", "32": "U32", "64": "U64"}

// leCall recognises binary.LittleEndian.<prefix><16|32|64>.
func (t *fnTr) leCall(c *ast.CallExpr, prefix string) (bits string, ok bool) {
	p, ns, isSel := t.pkgSel(c.Fun)
	if !isSel || p != "encoding/binary" || len(ns) != 2 || ns[0] != "LittleEndian" || !strings.HasPrefix(ns[1], prefix) {
		return "", false
	}
	bits = strings.TrimPrefix(ns[1], prefix)
	_, ok = fnLEWidth[bits]
	return bits, ok
}

// errorCtor: a call that certainly returns a non-nil error.
func (t *fnTr) errorCtor(c *ast.CallExpr) bool {
	p, ns, ok := t.pkgSel(c.Fun)
	if !ok || len(ns) != 1 {
		return false
	}
	switch p + "." + ns[0] {
	case "errors.New", "fmt.Errorf", "github.com/pkg/errors.New", "github.com/pkg/errors.Errorf",
		fnModule + "/bscript/interpreter/errs.NewError":
		return true
	}
	return false
}

// isSentinelError: a package-level variable of type error initialised with an error constructor.
func (t *fnTr) isSentinelError(obj types.Object) bool {
	v, ok := obj.(*types.Var)
	if !ok || v.Pkg() != t.pkg.pkg || v.Parent() != t.pkg.pkg.Scope() {
		return false
	}
	for _, f := range t.pkg.files {
		for _, d := range f.Decls {
			gd, ok := d.(*ast.GenDecl)
			if !ok || gd.Tok != token.VAR {
				continue
			}
			for _, sp := range gd.Specs {
				vs := sp.(*ast.ValueSpec)
				for i, n := range vs.Names {
					if t.pkg.info.Defs[n] == obj && i < len(vs.Values) {
						c, ok := vs.Values[i].(*ast.CallExpr)
						return ok && t.errorCtor(c)
					}
				}
			}
		}
	}
	return false
}

func (t *fnTr) call(c *ast.CallExpr) fnVal {
	// conversions
	if tv, ok := t.pkg.info.Types[c.Fun]; ok && tv.IsType() {
		if len(c.Args) != 1 {
			t.fail(c, "conversion with %d arguments", len(c.Args))
		}
		to, ok := fnClassify(tv.Type)
		if !ok {
			t.fail(c, "conversion to unsupported type %s", tv.Type)
		}
		a := t.expr(c.Args[0])
		switch {
		case to.k == fkInt && a.ty.k == fkInt:
			return t.seq([]fnVal{a}, func(ts []string) fnVal { return fnVal{s: "go_conv " + to.ity + " " + ts[0], pure: true, ty: to} })
		case to.k == a.ty.k && (to.k == fkBytes || to.k == fkInts || to.k == fkBool):
			a.ty = to
			return a
		}
		t.fail(c, "unsupported conversion")
	}
	if id, ok := c.Fun.(*ast.Ident); ok {
		if _, isBuiltin := t.pkg.info.Uses[id].(*types.Builtin); isBuiltin {
			return t.builtin(c, id.Name)
		}
	}
	if v, ok := t.txCall(c); ok {
		return v
	}
	if v, ok := t.interpCall(c); ok {
		return v
	}
	if bits, ok := t.leCall(c, "Uint"); ok && len(c.Args) == 1 {
		a := t.expr(c.Args[0])
		if a.ty.k != fkBytes {
			t.fail(c, "LittleEndian.Uint%s of a non-[]byte", bits)
		}
		return t.seq([]fnVal{a}, func(ts []string) fnVal {
			return fnVal{s: "go_le_get " + fnLEWidth[bits] + " " + ts[0], ty: fnType{k: fkInt, ity: fnLEIty[bits]}}
		})
	}
	if t.errorCtor(c) {
		// the arguments only matter if evaluating them can panic
		var eff []fnVal
		for _, a := range c.Args {
			if _, ok := t.fieldPath(a); ok {
				continue
			}
			if tv, ok := t.pkg.info.Types[a]; ok && tv.Value != nil {
				continue
			}
			if t.isNameCall(a) || t.isTableLookup(a) {
				continue
			}
			if v := t.expr(a); !v.pure {
				eff = append(eff, v)
			}
		}
		return t.seq(eff, func(ts []string) fnVal { return fnVal{s: "true", pure: true, ty: fnType{k: fkErr}} })
	}
	t.fail(c, "unsupported call")
	return fnVal{}
}

func (t *fnTr) builtin(c *ast.CallExpr, name string) fnVal {
	switch name {
	case "len":
		a := t.expr(c.Args[0])
		if a.ty.k != fkBytes && a.ty.k != fkInts && a.ty.k != fkStack && a.ty.k != fkPtrs {
			t.fail(c, "len of a non-slice")
		}
		return t.seq([]fnVal{a}, func(ts []string) fnVal {
			return fnVal{s: "go_len " + ts[0], pure: true, ty: fnType{k: fkInt, ity: "I64"}}
		})
	case "make":
		ty := t.typeOf(c)
		if ty.k == fkStack && len(c.Args) == 2 {
			n := t.expr(c.Args[1])
			if n.ty.k != fkInt {
				t.fail(c, "non-integer size")
			}
			r := t.seq([]fnVal{n}, func(ts []string) fnVal { return fnVal{s: "go_make_stack " + ts[0], ty: ty} })
			r.fresh = true
			return r
		}
		if ty.k != fkBytes || len(c.Args) < 2 || len(c.Args) > 3 {
			t.fail(c, "make of something other than []byte")
		}
		var args []fnVal
		for _, a := range c.Args[1:] {
			v := t.expr(a)
			if v.ty.k != fkInt {
				t.fail(a, "non-integer size")
			}
			args = append(args, v)
		}
		op := "go_make_bytes"
		if len(args) == 2 {
			op = "go_make_bytes_cap"
		}
		r := t.seq(args, func(ts []string) fnVal { return fnVal{s: op + " " + strings.Join(ts, " "), ty: ty} })
		r.fresh = true
		return r
	case "append":
		a := t.expr(c.Args[0])
		a = t.coerce(c, a, t.typeOf(c))
		if a.ty.k == fkStack {
			return t.appendStack(c, a)
		}
		if a.ty.k != fkBytes {
			t.fail(c, "append to something other than []byte")
		}
		if c.Ellipsis.IsValid() {
			if len(c.Args) != 2 {
				t.fail(c, "append with ... and several arguments")
			}
			b := t.expr(c.Args[1])
			if b.ty.k != fkBytes {
				t.fail(c, "append of a non-[]byte...")
			}
			r := t.seq([]fnVal{a, b}, func(ts []string) fnVal { return fnVal{s: ts[0] + " ++ " + ts[1], pure: true, ty: a.ty} })
			r.alias, r.fresh = a.alias, a.fresh
			return r
		}
		r := a
		for _, el := range c.Args[1:] {
			v := t.expr(el)
			if v.ty.k != fkInt {
				t.fail(el, "append of a non-integer element")
			}
			prev := r
			r = t.seq([]fnVal{prev, v}, func(ts []string) fnVal { return fnVal{s: "go_append1 " + ts[0] + " " + ts[1], pure: true, ty: a.ty} })
		}
		r.alias, r.fresh = a.alias, a.fresh
		return r
	}
	t.fail(c, "unsupported builtin %s", name)
	return fnVal{}
}
