package gen

// Translator part for C18 (2/2): shared state of the script engine.
//
// For every package the engine runs code of (bscript/interpreter and the go-bt packages it calls)
// list every package-level `var` and decide syntactically whether any function other than `init`
// or a package-level initialiser can change it: assignment, ++/--, op=, element/field assignment
// through it, address taken, append/copy/delete on it, a method call on it that is not on the
// list of known read-only methods, a reference-like variable handed to unknown code or aliased.
// Also: the fields of `type engine struct` (must be none for the engine to be stateless) and
// whether Execute/createThread build their working state from fresh allocations.
// Fail closed: an unclassified use counts as a mutation (and says so in `where`).

import (
	"fmt"
	"go/ast"
	"go/parser"
	"go/token"
	"os"
	"path/filepath"
	"sort"
	"strings"
)

func init() { Register("Globals.v", genGlobals) }

// GlVar is one package-level variable.
type GlVar struct {
	Pkg, Name, Kind string
	Mutated         bool // some library function may write it after init
	Escapes         bool // a reference to it is handed out (returned / stored / aliased): code the scan cannot see could write it
	Where           string
}

var glPackages = []struct{ dir, name string }{
	{"bscript/interpreter", "interpreter"},
	{"bscript/interpreter/errs", "errs"},
	{"bscript/interpreter/scriptflag", "scriptflag"},
	{"bscript", "bscript"},
	{"sighash", "sighash"},
	{".", "bt"},
	{"unlocker", "unlocker"},
	{"ord", "ord"},
	{"bscript/interpreter/debug", "debug"},
}

// methods that do not modify their receiver (math/big, regexp, error, time, this library's flags)
var glReadOnlyMethods = map[string]bool{
	"Cmp": true, "CmpAbs": true, "Sign": true, "Bytes": true, "String": true, "Error": true, "Int64": true, "Uint64": true,
	"IsInt64": true, "IsUint64": true, "BitLen": true, "Bit": true, "Text": true,
	"FindStringSubmatch": true, "MatchString": true, "Match": true, "FindString": true,
	"HasFlag": true, "HasAny": true, "Has": true, "Is": true, "Unwrap": true,
}

// functions/methods that only read their arguments
var glReadOnlyCallees = map[string]bool{
	"len": true, "cap": true, "string": true, "print": true, "println": true, "panic": true,
	"Cmp": true, "CmpAbs": true, "Add": true, "Sub": true, "Mul": true, "Div": true, "Mod": true, "Quo": true, "Rem": true, "Set": true,
	"And": true, "Or": true, "Xor": true, "Exp": true, "GCD": true, "ModInverse": true,
	"IndexByte": true, "Index": true, "Equal": true, "Contains": true, "HasPrefix": true, "HasSuffix": true, "Compare": true,
	"Is": true, "As": true, "Errorf": true, "Sprintf": true, "Sprint": true, "Wrap": true, "Wrapf": true, "New": true, "NewError": true,
	"Fprintf": true, "Printf": true, "Println": true, "WithMessage": true, "Join": true,
}

func glKind(vs *ast.ValueSpec, i int) string {
	if vs.Type != nil {
		return glTypeKind(vs.Type)
	}
	if i >= len(vs.Values) {
		return "unknown"
	}
	switch v := vs.Values[i].(type) {
	case *ast.BasicLit:
		return "value"
	case *ast.CompositeLit:
		if v.Type == nil {
			return "unknown"
		}
		return glTypeKind(v.Type)
	case *ast.UnaryExpr:
		if v.Op == token.AND {
			return "pointer"
		}
		return "value"
	case *ast.BinaryExpr:
		return "value"
	case *ast.FuncLit:
		return "func"
	case *ast.CallExpr:
		switch f := v.Fun.(type) {
		case *ast.SelectorExpr:
			if p, ok := f.X.(*ast.Ident); ok {
				switch p.Name + "." + f.Sel.Name {
				case "errors.New", "fmt.Errorf":
					return "error"
				case "big.NewInt", "regexp.MustCompile":
					return "pointer"
				}
			}
			// new(big.Int).Rsh(...) and similar chains
			return "pointer"
		case *ast.ArrayType:
			return glTypeKind(f) // conversion []byte("...")
		case *ast.Ident:
			if f.Name == "new" || f.Name == "make" {
				return "pointer"
			}
		}
	}
	return "unknown"
}

func glTypeKind(t ast.Expr) string {
	switch x := t.(type) {
	case *ast.MapType:
		return "map"
	case *ast.ArrayType:
		if x.Len == nil {
			return "slice"
		}
		return "array"
	case *ast.StarExpr:
		return "pointer"
	case *ast.FuncType:
		return "func"
	case *ast.ChanType:
		return "chan"
	case *ast.Ident:
		switch x.Name {
		case "error":
			return "error"
		case "bool", "string", "int", "int8", "int16", "int32", "int64", "uint", "uint8", "uint16", "uint32", "uint64", "float32", "float64", "byte", "rune":
			return "value"
		}
	}
	return "unknown"
}

func glRefLike(kind string) bool {
	switch kind {
	case "value", "error", "array", "func":
		return false
	}
	return true
}

type glPkg struct {
	name   string
	dir    string
	files  []*ast.File
	fnames []string
	vars   map[string]*GlVar
	specs  map[*ast.ValueSpec]bool
	order  []string
}

// GlobalsTable extracts the table.
func GlobalsTable(repo string) (vars []GlVar, engineFields []string, fresh [][2]string, err error) {
	fset := token.NewFileSet()
	var pkgs []*glPkg
	for _, p := range glPackages {
		dir := filepath.Join(repo, p.dir)
		ents, e := os.ReadDir(dir)
		if e != nil {
			return nil, nil, nil, e
		}
		gp := &glPkg{name: p.name, dir: p.dir, vars: map[string]*GlVar{}, specs: map[*ast.ValueSpec]bool{}}
		var names []string
		for _, en := range ents {
			n := en.Name()
			if en.IsDir() || !strings.HasSuffix(n, ".go") || strings.HasSuffix(n, "_test.go") {
				continue
			}
			names = append(names, n)
		}
		sort.Strings(names)
		for _, n := range names {
			f, e := parser.ParseFile(fset, filepath.Join(dir, n), nil, 0)
			if e != nil {
				return nil, nil, nil, fmt.Errorf("parse %s/%s: %w", p.dir, n, e)
			}
			if f.Name.Name != p.name {
				return nil, nil, nil, fmt.Errorf("%s/%s: package %s, expected %s", p.dir, n, f.Name.Name, p.name)
			}
			gp.files = append(gp.files, f)
			gp.fnames = append(gp.fnames, n)
			for _, d := range f.Decls {
				gd, ok := d.(*ast.GenDecl)
				if !ok || gd.Tok != token.VAR {
					continue
				}
				for _, sp := range gd.Specs {
					vs := sp.(*ast.ValueSpec)
					gp.specs[vs] = true
					for i, nm := range vs.Names {
						if nm.Name == "_" {
							continue
						}
						kind := glKind(vs, i)
						if len(vs.Values) == 1 && len(vs.Names) > 1 {
							kind = "unknown"
						}
						gp.vars[nm.Name] = &GlVar{Pkg: p.name, Name: nm.Name, Kind: kind}
						gp.order = append(gp.order, nm.Name)
					}
				}
			}
		}
		pkgs = append(pkgs, gp)
	}
	byName := map[string]*glPkg{}
	for _, gp := range pkgs {
		byName[gp.name] = gp
	}

	pos := func(n ast.Node) string {
		p := fset.Position(n.Pos())
		rel, e := filepath.Rel(repo, p.Filename)
		if e != nil {
			rel = p.Filename
		}
		return fmt.Sprintf("%s:%d", rel, p.Line)
	}
	flag := func(v *GlVar, n ast.Node, why string) {
		if strings.HasPrefix(why, "escapes:") {
			if !v.Escapes && !v.Mutated {
				v.Where = pos(n) + ": " + why
			}
			v.Escapes = true
			return
		}
		if !v.Mutated {
			v.Mutated = true
			v.Where = pos(n) + ": " + why
		}
	}

	// every function body of every scanned package (package-level initialisers and init() excluded)
	for _, gp := range pkgs {
		for _, f := range gp.files {
			imports := map[string]string{} // local name -> scanned package name
			for _, im := range f.Imports {
				path := strings.Trim(im.Path.Value, "\"")
				for _, q := range glPackages {
					suffix := "github.com/libsv/go-bt/v2"
					if q.dir != "." {
						suffix += "/" + q.dir
					}
					if path == suffix {
						local := q.name
						if im.Name != nil {
							local = im.Name.Name
						}
						imports[local] = q.name
					}
				}
			}
			for _, d := range f.Decls {
				fd, ok := d.(*ast.FuncDecl)
				if !ok || fd.Body == nil {
					continue
				}
				if fd.Recv == nil && fd.Name.Name == "init" {
					continue
				}
				// resolve a node to a global variable (this package's identifier or otherpkg.Name)
				resolve := func(e ast.Expr) *GlVar {
					switch x := e.(type) {
					case *ast.Ident:
						v, ok := gp.vars[x.Name]
						if !ok {
							return nil
						}
						if x.Obj == nil {
							return v
						}
						if vs, ok := x.Obj.Decl.(*ast.ValueSpec); ok && gp.specs[vs] {
							return v
						}
						return nil
					case *ast.SelectorExpr:
						id, ok := x.X.(*ast.Ident)
						if !ok || id.Obj != nil {
							return nil
						}
						if pn, ok := imports[id.Name]; ok {
							if v, ok := byName[pn].vars[x.Sel.Name]; ok {
								return v
							}
						}
					}
					return nil
				}
				var stack []ast.Node
				ast.Inspect(fd.Body, func(n ast.Node) bool {
					if n == nil {
						stack = stack[:len(stack)-1]
						return true
					}
					stack = append(stack, n)
					e, isExpr := n.(ast.Expr)
					if !isExpr {
						return true
					}
					v := resolve(e)
					if v == nil {
						return true
					}
					if len(stack) >= 2 {
						switch p := stack[len(stack)-2].(type) {
						case *ast.SelectorExpr:
							if p.Sel == e {
								return true // x.name: a field or method called like a global
							}
						case *ast.KeyValueExpr:
							if p.Key == e {
								return true // struct-literal field name (or a map key: a read)
							}
						}
					}
					glClassify(v, e, stack, flag)
					if _, isSel := e.(*ast.SelectorExpr); isSel {
						// do not descend into pkg.Name (the package identifier is not a variable)
						stack = stack[:len(stack)-1]
						return false
					}
					return true
				})
			}
		}
	}

	for _, gp := range pkgs {
		for _, n := range gp.order {
			vars = append(vars, *gp.vars[n])
		}
	}

	// the engine struct and the allocation of the per-call state
	ip := byName["interpreter"]
	foundEngine := false
	pkgFuncs := map[string]*ast.FuncDecl{}
	for _, f := range ip.files {
		for _, d := range f.Decls {
			if fd, ok := d.(*ast.FuncDecl); ok && fd.Recv == nil {
				pkgFuncs[fd.Name.Name] = fd
			}
		}
	}
	for _, f := range ip.files {
		for _, d := range f.Decls {
			switch x := d.(type) {
			case *ast.GenDecl:
				if x.Tok != token.TYPE {
					continue
				}
				for _, sp := range x.Specs {
					ts := sp.(*ast.TypeSpec)
					if ts.Name.Name != "engine" {
						continue
					}
					st, ok := ts.Type.(*ast.StructType)
					if !ok {
						return nil, nil, nil, fmt.Errorf("%s: type engine is not a struct", pos(ts))
					}
					foundEngine = true
					for _, fl := range st.Fields.List {
						if len(fl.Names) == 0 {
							engineFields = append(engineFields, "(embedded)")
						}
						for _, nm := range fl.Names {
							engineFields = append(engineFields, nm.Name)
						}
					}
				}
			case *ast.FuncDecl:
				if x.Body == nil {
					continue
				}
				switch {
				case x.Recv != nil && x.Name.Name == "Execute" && glRecvIs(x, "engine"):
					ok := glFreshVia(x.Body, "execOpts", pkgFuncs) && !glUsesReceiver(x)
					fresh = append(fresh, [2]string{"Execute: opts := &execOpts{} and the receiver is not used", boolStr(ok)})
				case x.Recv == nil && x.Name.Name == "createThread":
					ok := glFreshVia(x.Body, "thread", pkgFuncs)
					fresh = append(fresh, [2]string{"createThread: th := &thread{...}", boolStr(ok)})
				}
			}
		}
	}
	if !foundEngine {
		return nil, nil, nil, fmt.Errorf("type engine not found in bscript/interpreter")
	}
	if len(fresh) != 2 {
		return nil, nil, nil, fmt.Errorf("(*engine).Execute / createThread not found in bscript/interpreter (found %d of 2)", len(fresh))
	}
	return vars, engineFields, fresh, nil
}

func boolStr(b bool) string {
	if b {
		return "true"
	}
	return "false"
}

func glRecvIs(fd *ast.FuncDecl, tn string) bool {
	if fd.Recv == nil || len(fd.Recv.List) != 1 {
		return false
	}
	t := fd.Recv.List[0].Type
	if st, ok := t.(*ast.StarExpr); ok {
		t = st.X
	}
	id, ok := t.(*ast.Ident)
	return ok && id.Name == tn
}

func glUsesReceiver(fd *ast.FuncDecl) bool {
	rf := fd.Recv.List[0]
	if len(rf.Names) == 0 || rf.Names[0].Name == "_" {
		return false
	}
	obj := rf.Names[0].Obj
	used := false
	ast.Inspect(fd.Body, func(n ast.Node) bool {
		if id, ok := n.(*ast.Ident); ok && id.Obj == obj && obj != nil {
			used = true
		}
		return true
	})
	return used
}

// first statement is `x := &T{...}`
// glFreshVia: the body starts from a fresh &tn{...}, either directly (its first statement) or through a call to a function of
// the same package (no receiver) whose first statement is that allocation and whose every return hands that variable back.
func glFreshVia(b *ast.BlockStmt, tn string, funcs map[string]*ast.FuncDecl) bool {
	if glFirstAssignIsFresh(b, tn) {
		return true
	}
	ok := false
	ast.Inspect(b, func(n ast.Node) bool {
		c, is := n.(*ast.CallExpr)
		if !is {
			return true
		}
		id, is := c.Fun.(*ast.Ident)
		if !is {
			return true
		}
		fd := funcs[id.Name]
		if fd == nil || fd.Recv != nil || fd.Body == nil || !glFirstAssignIsFresh(fd.Body, tn) {
			return true
		}
		v, is := fd.Body.List[0].(*ast.AssignStmt).Lhs[0].(*ast.Ident)
		if !is {
			return true
		}
		all, any := true, false
		ast.Inspect(fd.Body, func(m ast.Node) bool {
			if _, lit := m.(*ast.FuncLit); lit {
				return false
			}
			if r, isr := m.(*ast.ReturnStmt); isr {
				any = true
				rid, isid := ast.Expr(nil), false
				if len(r.Results) > 0 {
					rid = r.Results[0]
					_, isid = rid.(*ast.Ident)
				}
				if !isid || rid.(*ast.Ident).Name != v.Name {
					all = false
				}
			}
			return true
		})
		if all && any {
			ok = true
		}
		return true
	})
	return ok
}

func glFirstAssignIsFresh(b *ast.BlockStmt, tn string) bool {
	if len(b.List) == 0 {
		return false
	}
	as, ok := b.List[0].(*ast.AssignStmt)
	if !ok || as.Tok != token.DEFINE || len(as.Rhs) != 1 {
		return false
	}
	u, ok := as.Rhs[0].(*ast.UnaryExpr)
	if !ok || u.Op != token.AND {
		return false
	}
	cl, ok := u.X.(*ast.CompositeLit)
	if !ok {
		return false
	}
	id, ok := cl.Type.(*ast.Ident)
	return ok && id.Name == tn
}

// glClassify decides what the use `e` (a reference to global v; stack ends with e) does to v.
func glClassify(v *GlVar, e ast.Expr, stack []ast.Node, flag func(*GlVar, ast.Node, string)) {
	// climb the access path rooted at the variable: v[i], v.f, *v, (v), v[a:b]
	top := ast.Node(e)
	i := len(stack) - 2
	path := false
	for ; i >= 0; i-- {
		switch p := stack[i].(type) {
		case *ast.ParenExpr:
			top = p
			continue
		case *ast.IndexExpr:
			if p.X == top {
				top, path = p, true
				continue
			}
		case *ast.SliceExpr:
			if p.X == top {
				top, path = p, true
				continue
			}
		case *ast.StarExpr:
			top, path = p, true
			continue
		case *ast.SelectorExpr:
			if p.X == top {
				// v.f: a field (continue the path) or a method (decided by the parent being a call with Fun == p)
				if i > 0 {
					if call, ok := stack[i-1].(*ast.CallExpr); ok && call.Fun == p {
						if !glReadOnlyMethods[p.Sel.Name] {
							flag(v, p, "method "+p.Sel.Name+" called on it (not on the read-only list)")
						}
						return
					}
				}
				top, path = p, true
				continue
			}
		}
		break
	}
	if i < 0 {
		return
	}
	// v[a:b] is a view of v's own backing storage: handing it on aliases v exactly as handing on v does
	if _, isSlice := top.(*ast.SliceExpr); isSlice && glRefLike(v.Kind) {
		whole := true
		for n := ast.Node(top); n != ast.Node(e); {
			switch x := n.(type) {
			case *ast.SliceExpr:
				n = x.X
			case *ast.ParenExpr:
				n = x.X
			default:
				whole = false
				n = e
			}
		}
		if whole {
			path = false
		}
	}
	switch p := stack[i].(type) {
	case *ast.AssignStmt:
		for _, l := range p.Lhs {
			if l == top {
				if path {
					flag(v, p, "element or field assigned through it")
				} else {
					flag(v, p, "assigned")
				}
				return
			}
		}
		// right-hand side: a copy; aliasing a reference-like variable as a whole escapes the analysis
		if !path && glRefLike(v.Kind) {
			flag(v, p, "escapes: aliased by assignment (reference-like "+v.Kind+")")
		}
	case *ast.IncDecStmt:
		flag(v, p, "++/--")
	case *ast.UnaryExpr:
		if p.Op == token.AND {
			flag(v, p, "address taken")
		}
	case *ast.RangeStmt:
		if p.Key == top || p.Value == top {
			flag(v, p, "used as a range variable")
		}
	case *ast.CallExpr:
		if p.Fun == top {
			if v.Kind != "func" {
				flag(v, p, "called (function-valued variable of unknown kind)")
			}
			return
		}
		callee := ""
		switch f := p.Fun.(type) {
		case *ast.Ident:
			callee = f.Name
		case *ast.SelectorExpr:
			callee = f.Sel.Name
		}
		first := len(p.Args) > 0 && p.Args[0] == top
		switch callee {
		case "append", "copy", "delete", "clear":
			if first {
				flag(v, p, callee+" on it")
				return
			}
			// the built-in append / copy only READ their later arguments: append(dst, v...) copies v's elements
			if _, builtin := p.Fun.(*ast.Ident); builtin && (callee == "append" || callee == "copy") {
				return
			}
		}
		if glRefLike(v.Kind) && !path {
			if !glReadOnlyCallees[callee] {
				flag(v, p, "reference-like "+v.Kind+" handed to "+callee+" (not on the read-only list)")
			}
		}
	case *ast.ReturnStmt, *ast.CompositeLit, *ast.KeyValueExpr, *ast.SendStmt:
		if !path && glRefLike(v.Kind) {
			flag(v, p, "escapes: reference-like "+v.Kind+" returned or stored")
		}
	case *ast.ValueSpec:
		if !path && glRefLike(v.Kind) {
			flag(v, p, "escapes: aliased by declaration (reference-like "+v.Kind+")")
		}
	}
}

func genGlobals(repo string) (string, error) {
	vars, eng, fresh, err := GlobalsTable(repo)
	if err != nil {
		return "", err
	}
	var sb strings.Builder
	sb.WriteString(Header)
	sb.WriteString(`(* Shared state of the script engine: every package-level var of bscript/interpreter (+ errs,
   scriptflag), bscript, sighash and bt as (package, name, kind, mutated_after_init, escapes, where):
   mutated_after_init = some function other than init()/a package-level initialiser may change it
   (assignment, element/field assignment, ++/--, address taken, append/copy/delete, a method not
   known to be read-only, a reference-like variable handed to unknown code);
   escapes = a reference-like variable is returned, stored or aliased as a whole, so code this scan
   does not follow could write through it.
   engine_fields: the fields of interpreter's "type engine struct".
   fresh_allocations: Execute and createThread start from fresh allocations. Plain data. *)
From Coq Require Import List String Bool.
Import ListNotations.
Local Open Scope string_scope.

`)
	sb.WriteString("Definition globals : list (string * string * string * bool * bool * string) := [\n")
	for i, v := range vars {
		sep := ";"
		if i+1 == len(vars) {
			sep = ""
		}
		fmt.Fprintf(&sb, "  (%s, %s, %s, %s, %s, %s)%s\n", lkCoqString(v.Pkg), lkCoqString(v.Name), lkCoqString(v.Kind), boolStr(v.Mutated), boolStr(v.Escapes), lkCoqString(v.Where), sep)
	}
	sb.WriteString("].\n\nDefinition engine_fields : list string := [")
	for i, f := range eng {
		if i > 0 {
			sb.WriteString("; ")
		}
		sb.WriteString(lkCoqString(f))
	}
	sb.WriteString("].\n\nDefinition fresh_allocations : list (string * bool) := [")
	for i, f := range fresh {
		if i > 0 {
			sb.WriteString("; ")
		}
		fmt.Fprintf(&sb, "(%s, %s)", lkCoqString(f[0]), f[1])
	}
	sb.WriteString("].\n")
	return sb.String(), nil
}
