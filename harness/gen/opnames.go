package gen

// Translator part for C13/C14 (and the interpreter model): the opcode name tables of
// bscript/opcodes.go and the opcode array of bscript/interpreter/operations.go as plain Gallina
// data. Literal tables only, no semantics; any AST shape other than the ones spelled out here is
// an error (fail closed).

import (
	"fmt"
	"go/ast"
	"go/constant"
	"go/parser"
	"go/token"
	"path/filepath"
	"sort"
	"strconv"
	"strings"
)

func init() {
	Register("OpNames.v", genOpNames)
	Register("OpTable.v", genOpTable)
}

// opConsts reads the `const ( OpX byte = 0xNN ... )` blocks of bscript/opcodes.go.
func opConsts(repo string) (map[string]uint64, error) {
	fset, f, err := ParseFile(repo, "bscript/opcodes.go")
	if err != nil {
		return nil, err
	}
	consts := map[string]uint64{}
	for _, d := range f.Decls {
		gd, ok := d.(*ast.GenDecl)
		if !ok || gd.Tok != token.CONST {
			continue
		}
		for _, sp := range gd.Specs {
			vs, ok := sp.(*ast.ValueSpec)
			if !ok {
				return nil, fmt.Errorf("%s: const spec of unexpected kind", fset.Position(sp.Pos()))
			}
			if len(vs.Names) != 1 || len(vs.Values) != 1 {
				return nil, fmt.Errorf("%s: expected `Name byte = literal`", fset.Position(vs.Pos()))
			}
			name := vs.Names[0].Name
			if !strings.HasPrefix(name, "Op") {
				continue
			}
			ty, ok := vs.Type.(*ast.Ident)
			if !ok || (ty.Name != "byte" && ty.Name != "uint8") {
				return nil, fmt.Errorf("%s: opcode constant %s is not declared `byte`", fset.Position(vs.Pos()), name)
			}
			lit, ok := vs.Values[0].(*ast.BasicLit)
			if !ok || lit.Kind != token.INT {
				return nil, fmt.Errorf("%s: opcode constant %s is not an integer literal", fset.Position(vs.Pos()), name)
			}
			v, exact := constant.Uint64Val(constant.MakeFromLiteral(lit.Value, token.INT, 0))
			if !exact || v > 255 {
				return nil, fmt.Errorf("%s: opcode constant %s out of byte range", fset.Position(vs.Pos()), name)
			}
			if _, dup := consts[name]; dup {
				return nil, fmt.Errorf("%s: opcode constant %s declared twice", fset.Position(vs.Pos()), name)
			}
			consts[name] = v
		}
	}
	if len(consts) == 0 {
		return nil, fmt.Errorf("bscript/opcodes.go: no Op* constants found")
	}
	return consts, nil
}

// findVarLit returns the composite literal that initialises the package-level variable `name`.
func findVarLit(fset *token.FileSet, f *ast.File, name string) (*ast.CompositeLit, error) {
	var found *ast.CompositeLit
	for _, d := range f.Decls {
		gd, ok := d.(*ast.GenDecl)
		if !ok || gd.Tok != token.VAR {
			continue
		}
		for _, sp := range gd.Specs {
			vs := sp.(*ast.ValueSpec)
			for i, n := range vs.Names {
				if n.Name != name {
					continue
				}
				if found != nil {
					return nil, fmt.Errorf("variable %s declared twice", name)
				}
				if len(vs.Values) != len(vs.Names) {
					return nil, fmt.Errorf("%s: %s has no initialiser of its own", fset.Position(vs.Pos()), name)
				}
				cl, ok := vs.Values[i].(*ast.CompositeLit)
				if !ok {
					return nil, fmt.Errorf("%s: %s is not initialised by a composite literal", fset.Position(vs.Pos()), name)
				}
				found = cl
			}
		}
	}
	if found == nil {
		return nil, fmt.Errorf("variable %s not found", name)
	}
	return found, nil
}

// assignedElsewhere fails when a file of the package assigns to (an element of) the table:
// the literal would then not be the table's run-time content.
func assignedElsewhere(fset *token.FileSet, files []*ast.File, name string) error {
	top := map[interface{}]bool{}
	for _, f := range files {
		for _, d := range f.Decls {
			if gd, ok := d.(*ast.GenDecl); ok && gd.Tok == token.VAR {
				for _, sp := range gd.Specs {
					top[sp] = true
				}
			}
		}
	}
	var bad error
	for _, f := range files {
		ast.Inspect(f, func(n ast.Node) bool {
			check := func(e ast.Expr, pos token.Pos) {
				for {
					switch x := e.(type) {
					case *ast.IndexExpr:
						e = x.X
						continue
					case *ast.ParenExpr:
						e = x.X
						continue
					case *ast.Ident:
						// unresolved (declared in another file of the package) or resolved to a package-level var
						if x.Name == name && (x.Obj == nil || top[x.Obj.Decl]) && bad == nil {
							bad = fmt.Errorf("%s: %s is written to outside its literal", fset.Position(pos), name)
						}
					}
					return
				}
			}
			switch s := n.(type) {
			case *ast.AssignStmt:
				for _, l := range s.Lhs {
					check(l, s.Pos())
				}
			case *ast.IncDecStmt:
				check(s.X, s.Pos())
			case *ast.CallExpr:
				if id, ok := s.Fun.(*ast.Ident); ok && id.Name == "delete" && len(s.Args) > 0 {
					check(s.Args[0], s.Pos())
				}
			case *ast.UnaryExpr:
				if s.Op == token.AND { // &table or &table[i] escapes
					check(s.X, s.Pos())
				}
			}
			return true
		})
	}
	return bad
}

type dirFiles struct {
	fset  *token.FileSet
	files []*ast.File
}

// parseDir parses the non-test Go files of one package directory.
func parseDir(repo, rel string) (*dirFiles, error) {
	fset := token.NewFileSet()
	names, err := filepath.Glob(filepath.Join(repo, rel, "*.go"))
	if err != nil {
		return nil, err
	}
	sort.Strings(names)
	d := &dirFiles{fset: fset}
	for _, n := range names {
		if strings.HasSuffix(n, "_test.go") {
			continue
		}
		f, err := parser.ParseFile(fset, n, nil, parser.ParseComments)
		if err != nil {
			return nil, fmt.Errorf("parse %s: %w", n, err)
		}
		d.files = append(d.files, f)
	}
	if len(d.files) == 0 {
		return nil, fmt.Errorf("no Go files in %s", rel)
	}
	return d, nil
}

func strLit(fset *token.FileSet, e ast.Expr) (string, error) {
	lit, ok := e.(*ast.BasicLit)
	if !ok || lit.Kind != token.STRING {
		return "", fmt.Errorf("%s: expected a string literal", fset.Position(e.Pos()))
	}
	s, err := strconv.Unquote(lit.Value)
	if err != nil {
		return "", fmt.Errorf("%s: %v", fset.Position(e.Pos()), err)
	}
	for _, r := range s {
		if r < 0x20 || r > 0x7e {
			return "", fmt.Errorf("%s: non-printable character in %q", fset.Position(e.Pos()), s)
		}
	}
	return s, nil
}

func coqStr(s string) string { return "\"" + strings.ReplaceAll(s, "\"", "\"\"") + "\"" }

// opIdent resolves `OpX` (inside package bscript) or `bscript.OpX` (outside) to its byte value.
func opIdent(fset *token.FileSet, e ast.Expr, consts map[string]uint64, qualified bool) (uint64, error) {
	var name string
	switch x := e.(type) {
	case *ast.Ident:
		if qualified {
			return 0, fmt.Errorf("%s: expected bscript.OpX, found %s", fset.Position(e.Pos()), x.Name)
		}
		name = x.Name
	case *ast.SelectorExpr:
		pkg, ok := x.X.(*ast.Ident)
		if !qualified || !ok || pkg.Name != "bscript" {
			return 0, fmt.Errorf("%s: unexpected selector expression", fset.Position(e.Pos()))
		}
		name = x.Sel.Name
	default:
		return 0, fmt.Errorf("%s: expected an opcode constant", fset.Position(e.Pos()))
	}
	v, ok := consts[name]
	if !ok {
		return 0, fmt.Errorf("%s: unknown opcode constant %s", fset.Position(e.Pos()), name)
	}
	return v, nil
}

func genOpNames(repo string) (string, error) {
	consts, err := opConsts(repo)
	if err != nil {
		return "", err
	}
	fset, f, err := ParseFile(repo, "bscript/opcodes.go")
	if err != nil {
		return "", err
	}
	// the tables are only read in package bscript; make sure no file of the package writes to them
	pkgFiles, err := parseDir(repo, "bscript")
	if err != nil {
		return "", err
	}
	var sb strings.Builder
	sb.WriteString(Header)
	sb.WriteString("(* bscript/opcodes.go: opCodeStrings (name -> byte, source order) and opCodeValues (byte -> name, source order). *)\n")
	sb.WriteString("From Coq Require Import List NArith String.\nImport ListNotations.\nLocal Open Scope N_scope.\nLocal Open Scope string_scope.\n\n")

	// opCodeStrings: map[string]byte{"NAME": OpX, ...}
	cl, err := findVarLit(fset, f, "opCodeStrings")
	if err != nil {
		return "", err
	}
	if err := wantMapType(fset, cl, "string", "byte"); err != nil {
		return "", err
	}
	if err := assignedElsewhere(pkgFiles.fset, pkgFiles.files, "opCodeStrings"); err != nil {
		return "", err
	}
	seenS := map[string]bool{}
	var rows []string
	for _, el := range cl.Elts {
		kv, ok := el.(*ast.KeyValueExpr)
		if !ok {
			return "", fmt.Errorf("%s: opCodeStrings element is not key: value", fset.Position(el.Pos()))
		}
		k, err := strLit(fset, kv.Key)
		if err != nil {
			return "", err
		}
		v, err := opIdent(fset, kv.Value, consts, false)
		if err != nil {
			return "", err
		}
		if seenS[k] {
			return "", fmt.Errorf("%s: duplicate key %q", fset.Position(el.Pos()), k)
		}
		seenS[k] = true
		rows = append(rows, fmt.Sprintf("  (%s, %d)", coqStr(k), v))
	}
	sb.WriteString("Definition op_code_strings : list (string * N) := [\n" + strings.Join(rows, ";\n") + "\n].\n\n")

	// opCodeValues: map[byte]string{OpX: "NAME", ...}
	cl, err = findVarLit(fset, f, "opCodeValues")
	if err != nil {
		return "", err
	}
	if err := wantMapType(fset, cl, "byte", "string"); err != nil {
		return "", err
	}
	if err := assignedElsewhere(pkgFiles.fset, pkgFiles.files, "opCodeValues"); err != nil {
		return "", err
	}
	seenV := map[uint64]bool{}
	rows = nil
	for _, el := range cl.Elts {
		kv, ok := el.(*ast.KeyValueExpr)
		if !ok {
			return "", fmt.Errorf("%s: opCodeValues element is not key: value", fset.Position(el.Pos()))
		}
		k, err := opIdent(fset, kv.Key, consts, false)
		if err != nil {
			return "", err
		}
		v, err := strLit(fset, kv.Value)
		if err != nil {
			return "", err
		}
		if seenV[k] {
			return "", fmt.Errorf("%s: duplicate key 0x%02x", fset.Position(el.Pos()), k)
		}
		seenV[k] = true
		rows = append(rows, fmt.Sprintf("  (%d, %s)", k, coqStr(v)))
	}
	sb.WriteString("Definition op_code_values : list (N * string) := [\n" + strings.Join(rows, ";\n") + "\n].\n")
	return sb.String(), nil
}

func wantMapType(fset *token.FileSet, cl *ast.CompositeLit, key, val string) error {
	mt, ok := cl.Type.(*ast.MapType)
	if !ok {
		return fmt.Errorf("%s: expected a map literal", fset.Position(cl.Pos()))
	}
	k, ok1 := mt.Key.(*ast.Ident)
	v, ok2 := mt.Value.(*ast.Ident)
	if !ok1 || !ok2 || k.Name != key || v.Name != val {
		return fmt.Errorf("%s: expected map[%s]%s", fset.Position(cl.Pos()), key, val)
	}
	return nil
}

func genOpTable(repo string) (string, error) {
	consts, err := opConsts(repo)
	if err != nil {
		return "", err
	}
	fset, f, err := ParseFile(repo, "bscript/interpreter/operations.go")
	if err != nil {
		return "", err
	}
	pkgFiles, err := parseDir(repo, "bscript/interpreter")
	if err != nil {
		return "", err
	}
	// struct opcode { val byte; name string; length int; exec func(...) error } in this order
	if err := wantOpcodeStruct(fset, f); err != nil {
		return "", err
	}
	cl, err := findVarLit(fset, f, "opcodeArray")
	if err != nil {
		return "", err
	}
	at, ok := cl.Type.(*ast.ArrayType)
	if !ok {
		return "", fmt.Errorf("%s: opcodeArray is not an array literal", fset.Position(cl.Pos()))
	}
	if l, ok := at.Len.(*ast.BasicLit); !ok || l.Value != "256" {
		return "", fmt.Errorf("%s: opcodeArray is not [256]opcode", fset.Position(cl.Pos()))
	}
	if el, ok := at.Elt.(*ast.Ident); !ok || el.Name != "opcode" {
		return "", fmt.Errorf("%s: opcodeArray is not [256]opcode", fset.Position(cl.Pos()))
	}
	if err := assignedElsewhere(pkgFiles.fset, pkgFiles.files, "opcodeArray"); err != nil {
		return "", err
	}
	type row struct {
		val     uint64
		name    string
		length  int64
		handler string
	}
	rows := map[uint64]row{}
	for _, el := range cl.Elts {
		kv, ok := el.(*ast.KeyValueExpr)
		if !ok {
			return "", fmt.Errorf("%s: opcodeArray element is not index: {..}", fset.Position(el.Pos()))
		}
		idx, err := opIdent(fset, kv.Key, consts, true)
		if err != nil {
			return "", err
		}
		inner, ok := kv.Value.(*ast.CompositeLit)
		if !ok || inner.Type != nil || len(inner.Elts) != 4 {
			return "", fmt.Errorf("%s: expected {val, name, length, exec}", fset.Position(kv.Value.Pos()))
		}
		val, err := opIdent(fset, inner.Elts[0], consts, true)
		if err != nil {
			return "", err
		}
		if val != idx {
			return "", fmt.Errorf("%s: opcodeArray[0x%02x].val is 0x%02x: index and value differ", fset.Position(el.Pos()), idx, val)
		}
		name, err := strLit(fset, inner.Elts[1])
		if err != nil {
			return "", err
		}
		length, err := intLit(fset, inner.Elts[2])
		if err != nil {
			return "", err
		}
		h, ok := inner.Elts[3].(*ast.Ident)
		if !ok || h.Name == "nil" {
			return "", fmt.Errorf("%s: handler is not a function identifier", fset.Position(inner.Elts[3].Pos()))
		}
		if _, dup := rows[idx]; dup {
			return "", fmt.Errorf("%s: index 0x%02x given twice", fset.Position(el.Pos()), idx)
		}
		rows[idx] = row{val, name, length, h.Name}
	}
	if len(rows) != 256 {
		var missing []string
		for i := uint64(0); i < 256; i++ {
			if _, ok := rows[i]; !ok {
				missing = append(missing, fmt.Sprintf("0x%02x", i))
			}
		}
		return "", fmt.Errorf("opcodeArray: %d of 256 entries initialised, missing %s", len(rows), strings.Join(missing, " "))
	}
	keys := make([]uint64, 0, 256)
	for k := range rows {
		keys = append(keys, k)
	}
	sort.Slice(keys, func(i, j int) bool { return keys[i] < keys[j] })
	var sb strings.Builder
	sb.WriteString(Header)
	sb.WriteString("(* bscript/interpreter/operations.go: opcodeArray, in index order 0..255 (index = val, checked by the translator).\n   Plain data: (value, name, length field, handler function identifier). No semantics here. *)\n")
	sb.WriteString("From Coq Require Import List NArith ZArith String.\nImport ListNotations.\nLocal Open Scope string_scope.\n\n")
	var out []string
	for _, k := range keys {
		r := rows[k]
		l := fmt.Sprintf("%d", r.length)
		if r.length < 0 {
			l = fmt.Sprintf("(%d)", r.length)
		}
		out = append(out, fmt.Sprintf("  (%d%%N, %s, %s%%Z, %s)", r.val, coqStr(r.name), l, coqStr(r.handler)))
	}
	sb.WriteString("Definition op_table : list (N * string * Z * string) := [\n" + strings.Join(out, ";\n") + "\n].\n")
	return sb.String(), nil
}

func intLit(fset *token.FileSet, e ast.Expr) (int64, error) {
	neg := false
	if u, ok := e.(*ast.UnaryExpr); ok && u.Op == token.SUB {
		neg = true
		e = u.X
	}
	lit, ok := e.(*ast.BasicLit)
	if !ok || lit.Kind != token.INT {
		return 0, fmt.Errorf("%s: expected an integer literal", fset.Position(e.Pos()))
	}
	v, exact := constant.Int64Val(constant.MakeFromLiteral(lit.Value, token.INT, 0))
	if !exact || v > 1<<20 {
		return 0, fmt.Errorf("%s: integer literal out of range", fset.Position(e.Pos()))
	}
	if neg {
		v = -v
	}
	return v, nil
}

func wantOpcodeStruct(fset *token.FileSet, f *ast.File) error {
	for _, d := range f.Decls {
		gd, ok := d.(*ast.GenDecl)
		if !ok || gd.Tok != token.TYPE {
			continue
		}
		for _, sp := range gd.Specs {
			ts := sp.(*ast.TypeSpec)
			if ts.Name.Name != "opcode" {
				continue
			}
			st, ok := ts.Type.(*ast.StructType)
			if !ok {
				return fmt.Errorf("%s: type opcode is not a struct", fset.Position(ts.Pos()))
			}
			var names []string
			for _, fl := range st.Fields.List {
				for _, n := range fl.Names {
					names = append(names, n.Name)
				}
			}
			if strings.Join(names, ",") != "val,name,length,exec" {
				return fmt.Errorf("%s: struct opcode has fields %v, expected val,name,length,exec", fset.Position(ts.Pos()), names)
			}
			return nil
		}
	}
	return fmt.Errorf("type opcode not found in bscript/interpreter/operations.go")
}
