package gen

// The transaction package's own code (package bt: output.go, input.go, tx.go, txinput.go, txoutput.go,
// signaturehash.go) under the function-body translator.  What is added to funcs_expr.go / funcs_stmt.go /
// funcs_interp.go (the meaning of the new primitives is coq/lib/GoTx.v):
//
//   - *bscript.Script (a pointer to a named byte slice) as `option bytes`: `*p` is go_deref (Panic on nil), `p == nil`
//     is go_isnil.
//   - pointers to structs of package bt (*Input, *Output, *TxSize ...) as `option go_<Struct>`; the record
//     go_<Struct> is PRINTED from the struct declaration (fields of unsupported types are left out: reading one makes
//     the function untranslated).  `p.f` is go_field (Panic on nil), `&T{f: e}` is `Some (mk_go_T ...)`.  A parameter
//     that the function's declared interface (fnSpec.Fields / State) names is, as before, replaced by those fields.
//   - []*T as `list (option go_T)`: len, index, range.
//   - a []byte PARAMETER that is compared with nil (or handed to such a parameter of a printed function) as
//     `option bytes`; its other uses are go_bytes_of.  Only nil or such a parameter may be handed to such a parameter.
//   - calls of printed functions through such values: `out.Bytes()` hands go_field of every field the callee's
//     interface names; `d.LockingScript.IsData()` hands go_deref of the pointer (the callee's interface is `*s`).
//   - named results and the bare `return`.
//   - the trusted mappings ReverseBytes -> go_reverse_bytes, crypto.Sha256d -> go_sha256d,
//     fees.Fee(FeeTypeStandard / FeeTypeData) -> go_quote_fee of the declared pseudo-field fees.<standard|data>.

import (
	"fmt"
	"go/ast"
	"go/token"
	"go/types"
	"sort"
	"strings"
)

// The functions of package bt that are translated; printed after the functions of funcs.go (they call VarInt.Bytes and
// Script.IsData), in this order (callees first).
var fnTxList = []fnSpec{
	{Coq: "LittleEndianBytes", File: "bytemanipulation.go", Name: "LittleEndianBytes", Props: []string{"C01"}},
	{Coq: "Output_Bytes", File: "output.go", Recv: "Output", Name: "Bytes", Fields: fnOutF, Props: []string{"C01", "C11"}},
	{Coq: "Output_BytesForSigHash", File: "output.go", Recv: "Output", Name: "BytesForSigHash", Fields: fnOutF, Props: []string{"C02", "C03"}},
	{Coq: "Input_PreviousTxID", File: "input.go", Recv: "Input", Name: "PreviousTxID", Fields: []string{"i.previousTxID"}, Props: []string{"C02"}, NoProof: true},
	{Coq: "Input_Bytes", File: "input.go", Recv: "Input", Name: "Bytes", Fields: []string{"i.previousTxID", "i.PreviousTxOutIndex", "i.UnlockingScript", "i.SequenceNumber"}, Props: []string{"C01", "C11"}},
	{Coq: "Tx_toBytesHelper", File: "tx.go", Recv: "Tx", Name: "toBytesHelper", Fields: fnTxF, Props: []string{"C01", "C11"}},
	{Coq: "Tx_Bytes", File: "tx.go", Recv: "Tx", Name: "Bytes", Fields: fnTxF, Props: []string{"C01", "C02", "C11"}},
	{Coq: "Tx_ExtendedBytes", File: "tx.go", Recv: "Tx", Name: "ExtendedBytes", Fields: fnTxF, Props: []string{"C01"}},
	{Coq: "Tx_BytesWithClearedInputs", File: "tx.go", Recv: "Tx", Name: "BytesWithClearedInputs", Fields: fnTxF, Props: []string{"C01"}},
	// sizes, totals, fees
	{Coq: "Tx_Size", File: "tx.go", Recv: "Tx", Name: "Size", Fields: fnTxF, Props: []string{"C11", "C10", "C12"}},
	{Coq: "Tx_SizeWithTypes", File: "tx.go", Recv: "Tx", Name: "SizeWithTypes", Fields: fnTxF, Props: []string{"C11", "C10", "C12"}},
	{Coq: "Tx_TotalInputSatoshis", File: "txinput.go", Recv: "Tx", Name: "TotalInputSatoshis", Fields: []string{"tx.Inputs"}, Props: []string{"C11", "C10", "C12"}},
	{Coq: "Tx_TotalOutputSatoshis", File: "txoutput.go", Recv: "Tx", Name: "TotalOutputSatoshis", Fields: []string{"tx.Outputs"}, Props: []string{"C11", "C10", "C12"}},
	{Coq: "Tx_feesPaid", File: "tx.go", Recv: "Tx", Name: "feesPaid", Fields: fnQuoteF, Props: []string{"C11", "C10"}},
	{Coq: "Tx_IsFeePaidEnough", File: "tx.go", Recv: "Tx", Name: "IsFeePaidEnough", Fields: append(append([]string{}, fnTxF...), fnQuoteF...), Props: []string{"C11"}},
	// the pieces of the signature hash
	{Coq: "Tx_PreviousOutHash", File: "txinput.go", Recv: "Tx", Name: "PreviousOutHash", Fields: []string{"tx.Inputs"}, Props: []string{"C02", "C03"}},
	{Coq: "Tx_SequenceHash", File: "txinput.go", Recv: "Tx", Name: "SequenceHash", Fields: []string{"tx.Inputs"}, Props: []string{"C02", "C03"}},
	{Coq: "Tx_OutputsHash", File: "signaturehash.go", Recv: "Tx", Name: "OutputsHash", Fields: []string{"tx.Outputs"}, Props: []string{"C02", "C03"}},
}

// a *FeeQuote parameter is modelled as the two *Fee values its map holds for FeeTypeStandard and FeeTypeData
var fnQuoteF = []string{"fees.standard", "fees.data"}

var fnOutF = []string{"o.Satoshis", "o.LockingScript"}
var fnTxF = []string{"tx.Inputs", "tx.Outputs", "tx.Version", "tx.LockTime"}

func init() { fnList = append(append(fnList, fnTxList...), fnSigHashList...) }

// the structs of package bt whose records are printed, by name (reset on every run)
var fnStructs = map[string]*types.Named{}

// ... and those among them that a printed definition mentions (a struct that only occurs as a parameter which was
// replaced by its fields needs no record)
var fnStructsUsed = map[string]bool{}

func fnIsBtStruct(ty types.Type) (*types.Named, bool) {
	n, ok := ty.(*types.Named)
	if !ok || n.Obj().Pkg() == nil || n.Obj().Pkg().Path() != fnModule {
		return nil, false
	}
	if _, isStruct := n.Underlying().(*types.Struct); !isStruct {
		return nil, false
	}
	return n, true
}

// fnClassifyTx: *bscript.Script, *T and []*T for a struct T of package bt.
func fnClassifyTx(ty types.Type) (fnType, bool) {
	if pt, ok := ty.(*types.Pointer); ok {
		if n, ok := pt.Elem().(*types.Named); ok && n.Obj().Pkg() != nil && strings.HasPrefix(n.Obj().Pkg().Path(), fnModule) {
			if sl, ok := n.Underlying().(*types.Slice); ok {
				if b, ok := sl.Elem().Underlying().(*types.Basic); ok && b.Kind() == types.Uint8 {
					return fnType{k: fkOptBytes}, true
				}
			}
		}
		if n, ok := fnIsBtStruct(pt.Elem()); ok {
			fnStructs[n.Obj().Name()] = n
			return fnType{k: fkPtr, sname: n.Obj().Name()}, true
		}
	}
	if sl, ok := ty.Underlying().(*types.Slice); ok {
		if pt, ok := sl.Elem().(*types.Pointer); ok {
			if n, ok := fnIsBtStruct(pt.Elem()); ok {
				fnStructs[n.Obj().Name()] = n
				return fnType{k: fkPtrs, sname: n.Obj().Name()}, true
			}
		}
	}
	return fnType{}, false
}

// fnRecordField: the kinds a printed record can hold.
func fnRecordField(ty types.Type) (fnType, bool) {
	if _, isPtrStruct := fnIsBtStructPtr(ty); isPtrStruct {
		return fnType{}, false
	}
	c, ok := fnClassify(ty)
	if !ok {
		return fnType{}, false
	}
	switch c.k {
	case fkBool, fkInt, fkBytes, fkOptBytes:
		return c, true
	}
	return fnType{}, false
}

func fnIsBtStructPtr(ty types.Type) (*types.Named, bool) {
	if pt, ok := ty.(*types.Pointer); ok {
		return fnIsBtStruct(pt.Elem())
	}
	if sl, ok := ty.Underlying().(*types.Slice); ok {
		if pt, ok := sl.Elem().(*types.Pointer); ok {
			return fnIsBtStruct(pt.Elem())
		}
	}
	return nil, false
}

type fnFlat struct {
	name string // field names joined by _
	ty   fnType
	ok   bool
}

// fnFlatFields: the fields of a struct, a field that is itself a struct VALUE of package bt flattened into its own.
func fnFlatFields(st *types.Struct, prefix string, depth int) []fnFlat {
	var out []fnFlat
	for i := 0; i < st.NumFields(); i++ {
		f := st.Field(i)
		if n, ok := fnIsBtStruct(f.Type()); ok && depth < 4 {
			out = append(out, fnFlatFields(n.Underlying().(*types.Struct), prefix+f.Name()+"_", depth+1)...)
			continue
		}
		c, ok := fnRecordField(f.Type())
		out = append(out, fnFlat{name: prefix + f.Name(), ty: c, ok: ok})
	}
	return out
}

// fnRecords prints the records of the structs that were used, in name order.
func fnRecords() string {
	var names []string
	for n := range fnStructs {
		if fnStructsUsed[n] {
			names = append(names, n)
		}
	}
	sort.Strings(names)
	var sb strings.Builder
	for _, n := range names {
		st := fnStructs[n].Underlying().(*types.Struct)
		var fs, skipped []string
		for _, f := range fnFlatFields(st, "", 0) {
			if f.ok {
				fs = append(fs, fmt.Sprintf("%s_%s : %s", n, f.name, f.ty.coq()))
			} else {
				skipped = append(skipped, f.name)
			}
		}
		fmt.Fprintf(&sb, "(* struct %s", n)
		if len(skipped) > 0 {
			fmt.Fprintf(&sb, "; fields left out (unsupported type): %s", strings.Join(skipped, ", "))
		}
		fmt.Fprintf(&sb, " *)\nRecord go_%s : Type := mk_go_%s { %s }.\n", n, n, strings.Join(fs, "; "))
		// p.f = e on a struct allocated in the function: the record with that field replaced
		var oks []fnFlat
		for _, f := range fnFlatFields(st, "", 0) {
			if f.ok {
				oks = append(oks, f)
			}
		}
		for i, f := range oks {
			var args []string
			for j, g := range oks {
				if i == j {
					args = append(args, "v")
				} else {
					args = append(args, fmt.Sprintf("(%s_%s r)", n, g.name))
				}
			}
			fmt.Fprintf(&sb, "Definition set_%s_%s (v : %s) (r : go_%s) : go_%s := mk_go_%s %s.\n", n, f.name, f.ty.coq(), n, n, n, strings.Join(args, " "))
		}
		sb.WriteString("\n")
	}
	return sb.String()
}

// structField: the classified type of field f of struct sname, when it is in the printed record.
func (t *fnTr) structField(n ast.Node, sname, f string) fnType {
	nt := fnStructs[sname]
	if nt == nil {
		t.fail(n, "unknown struct %s", sname)
	}
	for _, ff := range fnFlatFields(nt.Underlying().(*types.Struct), "", 0) {
		if ff.name == f {
			if !ff.ok {
				t.fail(n, "field %s.%s has an unsupported type", sname, f)
			}
			return ff.ty
		}
	}
	t.fail(n, "struct %s has no field %s", sname, f)
	return fnType{}
}

// fieldOf: v.f for a value v of kind fkPtr.
func (t *fnTr) fieldOf(n ast.Node, base fnVal, f string) fnVal {
	fty := t.structField(n, base.ty.sname, f)
	fnStructsUsed[base.ty.sname] = true
	return t.seq([]fnVal{base}, func(ts []string) fnVal {
		return fnVal{s: "go_field " + base.ty.sname + "_" + f + " " + ts[0], ty: fty}
	})
}

// declared: e is a field path that is in the function's declared interface.
func (t *fnTr) declared(e ast.Expr) bool {
	p, ok := t.fieldPath(e)
	return ok && t.vars[p] != nil
}

// txSelector: p.f for a pointer-to-struct VALUE p (a local variable, an element of a []*T), and *p for a
// *bscript.Script value; declared field paths are left to the caller.
func (t *fnTr) txSelector(e ast.Expr) (fnVal, bool) {
	if t.declared(e) {
		return fnVal{}, false
	}
	switch x := e.(type) {
	case *ast.SelectorExpr:
		// p.f, or p.g.f through fields g that are struct values
		name := x.Sel.Name
		if sel, isVar := t.pkg.info.Uses[x.Sel].(*types.Var); !isVar || !sel.IsField() {
			return fnVal{}, false
		}
		bx := x.X
		for {
			tv, ok := t.pkg.info.Types[bx]
			if !ok || tv.Type == nil || tv.IsType() {
				return fnVal{}, false
			}
			if _, isVal := fnIsBtStruct(tv.Type); !isVal {
				break
			}
			inner, ok := bx.(*ast.SelectorExpr)
			if !ok {
				return fnVal{}, false
			}
			name = inner.Sel.Name + "_" + name
			bx = inner.X
		}
		tv := t.pkg.info.Types[bx]
		if c, ok := fnClassifyTx(tv.Type); !ok || c.k != fkPtr {
			return fnVal{}, false
		}
		if id, isId := bx.(*ast.Ident); isId {
			if obj := t.pkg.info.Uses[id]; obj == nil || t.vars[obj] == nil {
				return fnVal{}, false // a parameter that was replaced by its declared fields
			}
		}
		t.inSelector++
		base := t.expr(bx)
		t.inSelector--
		if base.ty.k != fkPtr {
			return fnVal{}, false
		}
		return t.fieldOf(e, base, name), true
	case *ast.StarExpr:
		if id, isId := x.X.(*ast.Ident); isId {
			if obj := t.pkg.info.Uses[id]; obj == nil || t.vars[obj] == nil {
				return fnVal{}, false
			}
		}
		tv, ok := t.pkg.info.Types[x.X]
		if !ok || tv.Type == nil {
			return fnVal{}, false
		}
		if c, ok := fnClassifyTx(tv.Type); !ok || c.k != fkOptBytes {
			return fnVal{}, false
		}
		inner := t.expr(x.X)
		if inner.ty.k != fkOptBytes {
			return fnVal{}, false
		}
		return t.seq([]fnVal{inner}, func(ts []string) fnVal {
			return fnVal{s: "go_deref " + ts[0], ty: fnType{k: fkBytes, ity: "U8"}}
		}), true
	}
	return fnVal{}, false
}

// nilTest: `x == nil` / `x != nil` for a nil-able []byte parameter x.
func (t *fnTr) nilTest(x *ast.BinaryExpr) (fnVal, bool) {
	if x.Op != token.EQL && x.Op != token.NEQ {
		return fnVal{}, false
	}
	a, b := x.X, x.Y
	if tv, ok := t.pkg.info.Types[a]; ok && tv.IsNil() {
		a, b = b, a
	}
	if tv, ok := t.pkg.info.Types[b]; !ok || !tv.IsNil() {
		return fnVal{}, false
	}
	id, ok := a.(*ast.Ident)
	if !ok {
		return fnVal{}, false
	}
	v := t.vars[t.pkg.info.Uses[id]]
	if v == nil || v.ty.k != fkNilBytes {
		return fnVal{}, false
	}
	s := "go_isnil " + v.name
	if x.Op == token.NEQ {
		s = "negb (" + s + ")"
	}
	return fnVal{s: s, pure: true, ty: fnType{k: fkBool}}, true
}

// ptrNilCompare: p == nil / p != nil for a pointer value.
func (t *fnTr) ptrNilCompare(op token.Token, a, b fnVal) (fnVal, bool) {
	isPtr := func(k fnKind) bool { return k == fkOptBytes || k == fkPtr }
	if isPtr(b.ty.k) && a.ty.k == fkNil {
		a, b = b, a
	}
	if !isPtr(a.ty.k) || b.ty.k != fkNil || (op != token.EQL && op != token.NEQ) {
		return fnVal{}, false
	}
	return t.seq([]fnVal{a}, func(ts []string) fnVal {
		s := "go_isnil " + ts[0]
		if op == token.NEQ {
			s = "negb (" + s + ")"
		}
		return fnVal{s: s, pure: true, ty: fnType{k: fkBool}}
	}), true
}

// structLiteral: &T{f: e, ...} for a struct T of package bt.
func (t *fnTr) structLiteral(x *ast.UnaryExpr) (fnVal, bool) {
	cl, ok := x.X.(*ast.CompositeLit)
	if !ok {
		return fnVal{}, false
	}
	tv, ok := t.pkg.info.Types[x]
	if !ok || tv.Type == nil {
		return fnVal{}, false
	}
	ty, ok := fnClassifyTx(tv.Type)
	if !ok || ty.k != fkPtr {
		return fnVal{}, false
	}
	st := fnStructs[ty.sname].Underlying().(*types.Struct)
	given := map[string]ast.Expr{}
	for _, el := range cl.Elts {
		kv, ok := el.(*ast.KeyValueExpr)
		if !ok {
			t.fail(el, "struct literal without field names")
		}
		given[kv.Key.(*ast.Ident).Name] = kv.Value
	}
	var args []fnVal
	zeroOf := func(fty fnType) fnVal {
		return fnVal{s: map[fnKind]string{fkBool: "false", fkInt: "0", fkBytes: "[]", fkOptBytes: "None"}[fty.k], pure: true, ty: fty}
	}
	for i := 0; i < st.NumFields(); i++ {
		f := st.Field(i)
		e, set := given[f.Name()]
		if n, nested := fnIsBtStruct(f.Type()); nested {
			if set {
				t.fail(x, "struct literal sets field %s, which is itself a struct", f.Name())
			}
			for _, ff := range fnFlatFields(n.Underlying().(*types.Struct), "", 1) {
				if ff.ok {
					args = append(args, zeroOf(ff.ty))
				}
			}
			continue
		}
		fty, ok := fnRecordField(f.Type())
		if !ok {
			if set {
				t.fail(x, "struct literal sets field %s, whose type is unsupported", f.Name())
			}
			continue
		}
		if !set {
			args = append(args, zeroOf(fty))
			continue
		}
		args = append(args, t.coerce(e, t.expr(e), fty))
	}
	for name := range given {
		if _, isField := fnFieldIndex(st, name); !isField {
			t.fail(x, "struct literal sets unknown field %s", name)
		}
	}
	r := t.seq(args, func(ts []string) fnVal {
		return fnVal{s: "Some (mk_go_" + ty.sname + " " + strings.Join(ts, " ") + ")", pure: true, ty: ty}
	})
	r.fresh = true
	fnStructsUsed[ty.sname] = true
	return r, true
}

func fnFieldIndex(st *types.Struct, name string) (int, bool) {
	for i := 0; i < st.NumFields(); i++ {
		if st.Field(i).Name() == name {
			return i, true
		}
	}
	return 0, false
}

// txCall: the trusted mappings (lib/GoTx.v).
func (t *fnTr) txCall(c *ast.CallExpr) (fnVal, bool) {
	bytesT := fnType{k: fkBytes, ity: "U8"}
	one := func(f string) (fnVal, bool) {
		if len(c.Args) != 1 {
			t.fail(c, "%s with %d arguments", f, len(c.Args))
		}
		a := t.expr(c.Args[0])
		if a.ty.k != fkBytes {
			t.fail(c, "%s of something other than a []byte", f)
		}
		r := t.seq([]fnVal{a}, func(ts []string) fnVal { return fnVal{s: f + " " + ts[0], pure: true, ty: bytesT} })
		r.fresh = true
		return r, true
	}
	if p, ns, ok := t.pkgSel(c.Fun); ok && p == "github.com/libsv/go-bk/crypto" && len(ns) == 1 && ns[0] == "Sha256d" {
		return one("go_sha256d")
	}
	if fn, recv := t.calleeFunc(c); fn != nil && recv == nil && fn.Pkg() != nil && fn.Pkg().Path() == fnModule && fn.Name() == "ReverseBytes" {
		if !fnIsListed(fnKey(fnModule, "", "ReverseBytes")) {
			return one("go_reverse_bytes")
		}
	}
	return fnVal{}, false
}

// quoteFee: `x, err := fees.Fee(FeeTypeStandard)` for a *FeeQuote parameter `fees` whose declared interface holds
// the pseudo-fields fees.standard / fees.data (the two *Fee values of the quote's map).
func (t *fnTr) quoteFee(x *ast.AssignStmt, k func() string) (string, bool) {
	if len(x.Lhs) != 2 || len(x.Rhs) != 1 {
		return "", false
	}
	c, ok := x.Rhs[0].(*ast.CallExpr)
	if !ok || len(c.Args) != 1 {
		return "", false
	}
	fn, recv := t.calleeFunc(c)
	if fn == nil || recv == nil || fn.Pkg() == nil || fn.Pkg().Path() != fnModule || fn.Name() != "Fee" || fnRecvName(fn) != "FeeQuote" {
		return "", false
	}
	rp, ok := t.fieldPath(recv)
	if !ok {
		t.fail(c, "FeeQuote.Fee on something other than a parameter")
	}
	tv, ok := t.pkg.info.Types[c.Args[0]]
	if !ok || tv.Value == nil {
		t.fail(c, "FeeQuote.Fee of a fee type that is not a constant")
	}
	name := strings.Trim(tv.Value.ExactString(), "\"")
	vr := t.vars[rp+"."+name]
	if vr == nil || vr.ty.k != fkPtr {
		t.fail(c, "FeeQuote.Fee(%q): %s.%s is not in the declared interface of the function", name, rp, name)
	}
	n1 := t.defineTarget(x.Lhs[0], vr.ty)
	n2 := t.defineTarget(x.Lhs[1], fnType{k: fkErr})
	return "let '(" + n1 + ", " + n2 + ") := go_quote_fee " + vr.name + " in" + t.nl() + k(), true
}

// defineTarget: the Coq name of an assignment target that receives a value of the given type.
func (t *fnTr) defineTarget(e ast.Expr, ty fnType) string {
	id, ok := e.(*ast.Ident)
	if !ok {
		t.fail(e, "unsupported target")
	}
	if id.Name == "_" {
		return "_"
	}
	obj := t.local(id)
	cty, ok := fnClassify(obj.Type())
	if !ok || cty.k != ty.k {
		t.fail(e, "target of another type")
	}
	vr := t.vars[obj]
	if vr == nil {
		vr = &fnVar{name: t.objName(obj, id.Name), ty: ty}
	}
	t.setVar(obj, vr, fnVal{ty: ty})
	return vr.name
}

// nilableParams: the []byte parameters that are compared with nil, or handed to a nil-able parameter of a printed
// function.
func (t *fnTr) nilableParams(fd *ast.FuncDecl) map[types.Object]bool {
	out := map[types.Object]bool{}
	params := map[types.Object]bool{}
	for _, f := range fd.Type.Params.List {
		for _, id := range f.Names {
			if obj := t.pkg.info.Defs[id]; obj != nil {
				if c, ok := fnClassify(obj.Type()); ok && c.k == fkBytes {
					params[obj] = true
				}
			}
		}
	}
	paramOf := func(e ast.Expr) types.Object {
		if id, ok := e.(*ast.Ident); ok {
			if obj := t.pkg.info.Uses[id]; obj != nil && params[obj] {
				return obj
			}
		}
		return nil
	}
	ast.Inspect(fd.Body, func(n ast.Node) bool {
		switch y := n.(type) {
		case *ast.BinaryExpr:
			if y.Op == token.EQL || y.Op == token.NEQ {
				for _, pr := range [][2]ast.Expr{{y.X, y.Y}, {y.Y, y.X}} {
					if tv, ok := t.pkg.info.Types[pr[1]]; ok && tv.IsNil() {
						if obj := paramOf(pr[0]); obj != nil {
							out[obj] = true
						}
					}
				}
			}
		case *ast.CallExpr:
			fn, _ := t.calleeFunc(y)
			if fn == nil || fn.Pkg() == nil {
				return true
			}
			d := t.ld.done[fnKey(fn.Pkg().Path(), fnRecvName(fn), fn.Name())]
			if d == nil {
				return true
			}
			for _, a := range d.args {
				if a.goParam >= 0 && a.goParam < len(y.Args) && a.ty.k == fkNilBytes {
					if obj := paramOf(y.Args[a.goParam]); obj != nil {
						out[obj] = true
					}
				}
			}
		}
		return true
	})
	return out
}

// nilableArg: the argument handed to a nil-able []byte parameter of a printed function.
func (t *fnTr) nilableArg(e ast.Expr) fnVal {
	ty := fnType{k: fkNilBytes}
	if tv, ok := t.pkg.info.Types[e]; ok && tv.IsNil() {
		return fnVal{s: "None", pure: true, ty: ty}
	}
	if id, ok := e.(*ast.Ident); ok {
		if v := t.vars[t.pkg.info.Uses[id]]; v != nil && v.ty.k == fkNilBytes {
			return fnVal{s: v.name, pure: true, ty: ty}
		}
	}
	t.fail(e, "a []byte that is not known to be nil or non-nil is handed to a parameter that is compared with nil")
	return fnVal{}
}

// pathArg: the caller's term for a field path of the callee's interface.
func (t *fnTr) pathArg(c *ast.CallExpr, d *fnDone, recv ast.Expr, a fnArg) fnVal {
	p := a.path
	deref := strings.HasPrefix(p, "*")
	p = strings.TrimPrefix(p, "*")
	root, rest := p, ""
	if i := strings.Index(p, "."); i >= 0 {
		root, rest = p[:i], p[i:]
	}
	idx, ok := d.rootIdx[root]
	if !ok {
		t.fail(c, "the callee's field path %s has no parameter", a.path)
	}
	var e ast.Expr
	if idx == -1 {
		e = recv
	} else if idx < len(c.Args) {
		e = c.Args[idx]
	}
	if e == nil {
		t.fail(c, "missing argument for %s", root)
	}
	if u, isAddr := e.(*ast.UnaryExpr); isAddr && u.Op == token.AND {
		e = u.X
	}
	if ep, ok := t.fieldPath(e); ok {
		key := ep + rest
		if deref {
			key = "*" + ep
		} else if rest != "" {
			key = strings.TrimPrefix(ep, "*") + rest
		}
		if vr := t.vars[key]; vr != nil {
			if vr.ty.k != a.ty.k {
				t.fail(c, "%s is used at another type by %s", key, d.spec.Coq)
			}
			return t.varVal(c, vr, key)
		}
		if !t.isValueExpr(e) {
			t.fail(c, "%s uses %s, which is not in the declared interface of this function", d.spec.Coq, key)
		}
	}
	v := t.expr(e)
	switch {
	case deref && rest == "" && v.ty.k == fkOptBytes && a.ty.k == fkBytes:
		return t.seq([]fnVal{v}, func(ts []string) fnVal { return fnVal{s: "go_deref " + ts[0], ty: a.ty} })
	case !deref && v.ty.k == fkPtr && strings.Count(rest, ".") == 1:
		r := t.fieldOf(c, v, rest[1:])
		if r.ty.k != a.ty.k {
			t.fail(c, "%s%s is used at another type by %s", root, rest, d.spec.Coq)
		}
		return r
	}
	t.fail(c, "the argument for %s of %s is neither a declared field path nor a pointer value", a.path, d.spec.Coq)
	return fnVal{}
}

// isValueExpr: e denotes a value the translator holds (a local variable / classified parameter, or something built
// from one), not a parameter that was replaced by its fields.
func (t *fnTr) isValueExpr(e ast.Expr) bool {
	switch x := e.(type) {
	case *ast.Ident:
		obj := t.pkg.info.Uses[x]
		return obj != nil && t.vars[obj] != nil
	case *ast.SelectorExpr:
		return t.declared(e) || t.isValueExpr(x.X)
	case *ast.ParenExpr:
		return t.isValueExpr(x.X)
	case *ast.StarExpr:
		return t.declared(e) || t.isValueExpr(x.X)
	}
	return true
}

// namedResults: `func f() (total uint64)`: the results are local variables that start at zero.
func (t *fnTr) namedResult(id *ast.Ident, ty fnType) string {
	obj := t.pkg.info.Defs[id]
	if obj == nil {
		t.fail(id, "unresolved named result")
	}
	zero, ok := map[fnKind]string{fkBool: "false", fkErr: "false", fkInt: "0", fkBytes: "[]", fkInts: "[]", fkOptBytes: "None", fkPtr: "None"}[ty.k]
	if !ok {
		t.fail(id, "named result of unsupported type")
	}
	vr := &fnVar{name: t.objName(obj, id.Name), ty: ty}
	t.vars[obj] = vr
	t.namedRes = append(t.namedRes, obj)
	return "let " + vr.name + " := " + zero + " in\n  "
}

// bareReturn: `return` in a function with named results.
func (t *fnTr) bareReturn(n ast.Node) string {
	var ns []string
	for _, obj := range t.namedRes {
		v := t.varVal(n, t.vars[obj], obj)
		ns = append(ns, v.s)
	}
	if len(ns) == 1 {
		return t.ret(t.full(ns[0]))
	}
	return t.ret(t.full("(" + strings.Join(ns, ", ") + ")"))
}

// isDeclaredRoot: the parameter is the root of a declared field path.
func (t *fnTr) isDeclaredRoot(name string) bool {
	for _, l := range [][]string{t.spec.Fields, t.spec.State} {
		for _, p := range l {
			p = strings.TrimPrefix(p, "*")
			if p == name || strings.HasPrefix(p, name+".") {
				return true
			}
		}
	}
	return false
}

// pseudoField: declared paths that are not struct fields: fees.standard / fees.data for a *FeeQuote parameter.
func fnPseudoField(roots map[string]types.Type, p string) (fnType, bool) {
	i := strings.Index(p, ".")
	if i < 0 {
		return fnType{}, false
	}
	ty, ok := roots[p[:i]]
	if !ok {
		return fnType{}, false
	}
	pt, ok := ty.(*types.Pointer)
	if !ok {
		return fnType{}, false
	}
	n, ok := fnIsBtStruct(pt.Elem())
	if !ok || n.Obj().Name() != "FeeQuote" || (p[i+1:] != "standard" && p[i+1:] != "data") {
		return fnType{}, false
	}
	// the element type of the map FeeQuote.fees
	st := n.Underlying().(*types.Struct)
	fi, ok := fnFieldIndex(st, "fees")
	if !ok {
		return fnType{}, false
	}
	m, ok := st.Field(fi).Type().Underlying().(*types.Map)
	if !ok {
		return fnType{}, false
	}
	c, ok := fnClassifyTx(m.Elem())
	if !ok || c.k != fkPtr {
		return fnType{}, false
	}
	return c, true
}

// fieldAssign: `p.f = e` for a local pointer p to a struct that was allocated in this function (&T{...}) and has not
// been copied, returned or handed on since: no alias exists, so re-binding p is exact.
func (t *fnTr) fieldAssign(x *ast.AssignStmt, k func() string) (string, bool) {
	sel, ok := x.Lhs[0].(*ast.SelectorExpr)
	if !ok || x.Tok != token.ASSIGN {
		return "", false
	}
	id, ok := sel.X.(*ast.Ident)
	if !ok {
		return "", false
	}
	obj := t.pkg.info.Uses[id]
	vr := t.vars[obj]
	if obj == nil || vr == nil || vr.ty.k != fkPtr {
		return "", false
	}
	if !vr.fresh {
		t.fail(x, "assignment to a field of %s, which is not known to be a struct allocated in this function that nothing else points to", id.Name)
	}
	fty := t.structField(x, vr.ty.sname, sel.Sel.Name)
	v := t.coerce(x, t.expr(x.Rhs[0]), fty)
	if !vr.fresh {
		t.fail(x, "the value assigned to %s.%s mentions %s itself as a value", id.Name, sel.Sel.Name, id.Name)
	}
	upd := t.seq([]fnVal{v}, func(ts []string) fnVal {
		return fnVal{s: "go_update (set_" + vr.ty.sname + "_" + sel.Sel.Name + " " + ts[0] + ") " + vr.name, ty: vr.ty}
	})
	return t.bindVar(vr.name, upd, k), true
}
