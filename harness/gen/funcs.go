package gen

// Function-body translator.  For each function of fnList it reads the Go source of /repo (go/parser + go/types,
// offline, see funcs_load.go) and prints a SHALLOW Gallina definition over coq/lib/GoSem.v into coq/gen/Funcs.v,
// on every run.  proofs/GenFuncs_<name>.v proves, for all inputs, that the printed definition equals the
// hand-written model function the property theorems are about; Properties/Gen_<name>.v exports that.
//
// The translator is syntax-directed and fails closed PER FUNCTION: an AST node, type or builtin outside the subset
// (funcs_expr.go, funcs_stmt.go) makes that one function "untranslated" — the generated file then holds
// `Definition <name>_translated : bool := false.` and a comment with the reason, and no definition — and
// coq/gen/Funcs.status.json tells the driver to skip that function's proof file (tie by correspondence only).

import (
	"encoding/json"
	"fmt"
	"go/ast"
	"go/types"
	"sort"
	"strings"
)

type fnSpec struct {
	Coq     string   // name of the Gallina definition
	File    string   // Go file, relative to the repository
	Recv    string   // receiver type name ("" for a plain function)
	Name    string   // Go function name
	Fields  []string // declared interface for struct / pointer parameters: the paths the body may read, in parameter order
	State   []string // ... and the paths it may also WRITE: parameters after Fields, and returned (as a tuple, before the results)
	Props   []string // properties whose theorems use the model counterpart
	NoProof bool     // printed (and usable by the self-test) but no equivalence proof has been written yet
	Assume  []string // callees reached through a method value that may be taken as a parameter when untranslated (funcs_sighash.go)
}

// The functions translated, in the order they are printed.
var fnList = []fnSpec{
	{Coq: "VarInt_Length", File: "varint.go", Recv: "VarInt", Name: "Length", Props: []string{"C01", "C10", "C11", "C02", "C03", "C12"}},
	{Coq: "VarInt_Bytes", File: "varint.go", Recv: "VarInt", Name: "Bytes", Props: []string{"C01", "C10", "C11", "C02", "C03", "C12", "C16"}},
	{Coq: "VarInt_UpperLimitInc", File: "varint.go", Recv: "VarInt", Name: "UpperLimitInc", Props: []string{"C10", "C11", "C12"}},
	{Coq: "PushDataPrefix", File: "bscript/oppushdata.go", Name: "PushDataPrefix", Props: []string{"C13", "C06", "C11", "C04", "C20", "C14"}},
	{Coq: "MinPushSize", File: "bscript/script.go", Name: "MinPushSize", Props: []string{"C13"}},
	{Coq: "Flag_Has", File: "sighash/flag.go", Recv: "Flag", Name: "Has", Props: []string{"C02", "C03"}},
	{Coq: "Flag_HasWithMask", File: "sighash/flag.go", Recv: "Flag", Name: "HasWithMask", Props: []string{"C02", "C03"}},
	{Coq: "Script_IsP2PKH", File: "bscript/script.go", Recv: "Script", Name: "IsP2PKH", Fields: []string{"*s"}, Props: []string{"C14", "C11", "C04", "C10", "C12", "C15", "C20"}},
	{Coq: "Script_IsP2SH", File: "bscript/script.go", Recv: "Script", Name: "IsP2SH", Fields: []string{"*s"}, Props: []string{"C14"}},
	{Coq: "Script_IsData", File: "bscript/script.go", Recv: "Script", Name: "IsData", Fields: []string{"*s"}, Props: []string{"C14", "C11", "C10", "C12", "C16"}},
	{Coq: "isSmallIntOp", File: "bscript/script.go", Name: "isSmallIntOp", Props: []string{"C14"}},
	{Coq: "ScriptFlag_HasFlag", File: "bscript/interpreter/scriptflag/scriptflag.go", Recv: "Flag", Name: "HasFlag", Props: []string{"C05"}},
	{Coq: "ScriptFlag_HasAny", File: "bscript/interpreter/scriptflag/scriptflag.go", Recv: "Flag", Name: "HasAny", Props: []string{"C05"}},
	{Coq: "ParsedOpcode_IsDisabled", File: "bscript/interpreter/opcodeparser.go", Recv: "ParsedOpcode", Name: "IsDisabled", Fields: []string{"o.op.val"}, Props: []string{"C05"}},
	{Coq: "ParsedOpcode_AlwaysIllegal", File: "bscript/interpreter/opcodeparser.go", Recv: "ParsedOpcode", Name: "AlwaysIllegal", Fields: []string{"o.op.val"}, Props: []string{"C05"}},
	{Coq: "ParsedOpcode_IsConditional", File: "bscript/interpreter/opcodeparser.go", Recv: "ParsedOpcode", Name: "IsConditional", Fields: []string{"o.op.val"}, Props: []string{"C05"}},
	{Coq: "ParsedOpcode_RequiresTx", File: "bscript/interpreter/opcodeparser.go", Recv: "ParsedOpcode", Name: "RequiresTx", Fields: []string{"o.op.val"}, Props: []string{"C05", "C13"}},
	{Coq: "ParsedOpcode_enforceMinimumDataPush", File: "bscript/interpreter/opcodeparser.go", Recv: "ParsedOpcode", Name: "enforceMinimumDataPush", Fields: []string{"o.op.val", "o.Data"}, Props: []string{"C05"}},
	{Coq: "checkMinimalDataEncoding", File: "bscript/interpreter/number.go", Name: "checkMinimalDataEncoding", Props: []string{"C05"}},
	{Coq: "minimallyEncode", File: "bscript/interpreter/number.go", Name: "minimallyEncode", Props: []string{"C05"}},
	{Coq: "asBool", File: "bscript/interpreter/stack.go", Name: "asBool", Props: []string{"C05"}},
	{Coq: "fromBool", File: "bscript/interpreter/stack.go", Name: "fromBool", Props: []string{"C05"}},
	{Coq: "thread_isBranchExecuting", File: "bscript/interpreter/thread.go", Recv: "thread", Name: "isBranchExecuting", Fields: []string{"t.condStack"}, Props: []string{"C05"}},
	{Coq: "thread_shouldExec", File: "bscript/interpreter/thread.go", Recv: "thread", Name: "shouldExec", Fields: []string{"t.afterGenesis", "t.condStack", "t.earlyReturnAfterGenesis", "pop.op.val"}, Props: []string{"C05"}},
	{Coq: "verifyLockTime", File: "bscript/interpreter/operations.go", Name: "verifyLockTime", Props: []string{"C05"}},
	// the interpreter's stack (stack.go): Fields are read, State is read and written (funcs_interp.go)
	stackFn("Depth", nil, false, "C05"),
	stackFn("PushByteArray", nil, true, "C05", "C08"),
	stackFn("PushInt", nil, true, "C05", "C08"),
	stackFn("PushBool", nil, true, "C05", "C08"),
	stackFn("nipN", nil, true, "C05", "C08"),
	stackFn("PopByteArray", nil, true, "C05", "C08"),
	stackFn("PopInt", fnNumFields, true, "C05"),
	stackFn("PopBool", nil, true, "C05"),
	stackFn("PeekByteArray", nil, false, "C05", "C08"),
	stackFn("PeekInt", fnNumFields, false, "C05"),
	stackFn("PeekBool", nil, false, "C05"),
	stackFn("NipN", nil, true, "C05", "C08"),
	stackFn("Tuck", nil, true, "C05", "C08"),
	stackFn("DropN", nil, true, "C05", "C08"),
	stackFn("DupN", nil, true, "C05", "C08"),
	stackFn("RotN", nil, true, "C05", "C08"),
	stackFn("SwapN", nil, true, "C05", "C08"),
	stackFn("OverN", nil, true, "C05", "C08"),
	stackFn("PickN", nil, true, "C05", "C08"),
	stackFn("RollN", nil, true, "C05", "C08"),
	// the opcode handlers (operations.go): the thread fields a handler reads (Fields) and writes (State)
	opFn("abstractVerify", nil, fnDS),
	opFn("opcodeDrop", nil, fnDS, "C08"), opFn("opcodeDup", nil, fnDS, "C08"), opFn("opcodeNip", nil, fnDS, "C08"),
	opFn("opcodeOver", nil, fnDS, "C08"), opFn("opcodePick", fnOpNum, fnDS, "C08"), opFn("opcodeRoll", fnOpNum, fnDS, "C08"),
	opFn("opcodeRot", nil, fnDS, "C08"), opFn("opcodeSwap", nil, fnDS, "C08"), opFn("opcodeTuck", nil, fnDS, "C08"),
	opFn("opcode2Drop", nil, fnDS, "C08"), opFn("opcode2Dup", nil, fnDS, "C08"), opFn("opcode3Dup", nil, fnDS, "C08"),
	opFn("opcode2Over", nil, fnDS, "C08"), opFn("opcode2Rot", nil, fnDS, "C08"), opFn("opcode2Swap", nil, fnDS, "C08"),
	opFn("opcodeIfDup", nil, fnDS, "C08"), opFn("opcodeDepth", nil, fnDS, "C08"),
	opFn("opcodeToAltStack", nil, fnDSAS, "C08"), opFn("opcodeFromAltStack", nil, fnDSAS, "C08"),
	opFn("opcodeSize", nil, fnDS), opFn("opcodeEqual", nil, fnDS), opFn("opcodeEqualVerify", nil, fnDS), opFn("opcodeVerify", nil, fnDS),
	opFn("opcode1Add", fnOpNum, fnDS), opFn("opcode1Sub", fnOpNum, fnDS), opFn("opcodeNegate", fnOpNum, fnDS), opFn("opcodeAbs", fnOpNum, fnDS),
	opFn("opcodeNot", fnOpNum, fnDS), opFn("opcode0NotEqual", fnOpNum, fnDS),
	opFn("opcodeAdd", fnOpNum, fnDS), opFn("opcodeSub", fnOpNum, fnDS), opFn("opcodeMul", fnOpNum, fnDS), opFn("opcodeDiv", fnOpNum, fnDS), opFn("opcodeMod", fnOpNum, fnDS),
	opFn("opcodeBoolAnd", fnOpNum, fnDS), opFn("opcodeBoolOr", fnOpNum, fnDS),
	opFn("opcodeNumEqual", fnOpNum, fnDS), opFn("opcodeNumEqualVerify", fnOpNum, fnDS), opFn("opcodeNumNotEqual", fnOpNum, fnDS),
	opFn("opcodeLessThan", fnOpNum, fnDS), opFn("opcodeGreaterThan", fnOpNum, fnDS),
	opFn("opcodeLessThanOrEqual", fnOpNum, fnDS), opFn("opcodeGreaterThanOrEqual", fnOpNum, fnDS),
	opFn("opcodeMin", fnOpNum, fnDS), opFn("opcodeMax", fnOpNum, fnDS), opFn("opcodeWithin", fnOpNum, fnDS),
	opFn("opcodeCat", []string{"t.cfg"}, fnDS), opFn("opcodeSplit", fnOpNum, fnDS),
	opFn("opcodeNum2bin", append([]string{"t.cfg", "t.afterGenesis"}, fnOpNum...), fnDS),
	opFn("opcodeBin2num", []string{"t.cfg"}, fnDS),
	opFn("opcodeInvert", nil, fnDS), opFn("opcodeAnd", nil, fnDS), opFn("opcodeOr", nil, fnDS), opFn("opcodeXor", nil, fnDS),
	opFn("shiftCount", nil, nil), opFn("opcodeLShift", fnOpNum, fnDS), opFn("opcodeRShift", fnOpNum, fnDS),
}

var fnDS = []string{"t.dstack.stk"}
var fnDSAS = []string{"t.dstack.stk", "t.astack.stk"}
var fnOpNum = []string{"t.dstack.maxNumLength", "t.dstack.verifyMinimalData", "t.dstack.afterGenesis"}

// opFn: a handler (or helper) of operations.go; C05 plus the given properties.
func opFn(name string, fields, state []string, props ...string) fnSpec {
	return fnSpec{Coq: name, File: "bscript/interpreter/operations.go", Name: name, Fields: fields, State: state,
		Props: append([]string{"C05"}, props...), NoProof: fnOpNoProof[name]}
}

// printed, but no equivalence proof has been written yet
var fnOpNoProof = map[string]bool{"opcodeNum2bin": true}

var fnNumFields = []string{"s.maxNumLength", "s.verifyMinimalData", "s.afterGenesis"}

// stackFn: a method of `stack`; writes = the method changes s.stk.
func stackFn(name string, fields []string, writes bool, props ...string) fnSpec {
	sp := fnSpec{Coq: "stack_" + name, File: "bscript/interpreter/stack.go", Recv: "stack", Name: name, Props: props}
	if writes {
		sp.Fields, sp.State = fields, []string{"s.stk"}
	} else {
		sp.Fields = append(append([]string{}, fields...), "s.stk")
	}
	return sp
}

type fnStatus struct {
	Translated bool     `json:"translated"`
	Reason     string   `json:"reason"`
	Go         string   `json:"go"`
	ProofFile  string   `json:"proof_file"`
	ExportFile string   `json:"export_file"`
	Properties []string `json:"properties"`
}

type fnResult struct {
	coq    string
	status map[string]fnStatus
}

var fnCache = map[string]*fnResult{}

func init() {
	Register("Funcs.v", func(repo string) (string, error) { return fnRun(repo).coq, nil })
	Register("Funcs.status.json", func(repo string) (string, error) {
		b, err := json.MarshalIndent(fnRun(repo).status, "", " ")
		return string(b) + "\n", err
	})
}

// fnError aborts the translation of one function.
type fnError struct{ msg string }

func fnRun(repo string) *fnResult {
	if r, ok := fnCache[repo]; ok {
		return r
	}
	ld := newFnLoader(repo)
	var sb strings.Builder
	sb.WriteString(Header)
	sb.WriteString("(* Shallow Gallina renderings of small pure Go functions, printed by harness/gen/funcs*.go over lib/GoSem.v.\n" +
		"   Go variables are prefixed v_; t_ names are temporaries.  Struct and pointer parameters are replaced by the fields\n" +
		"   the body reads (a nil receiver is outside the definitions). *)\n")
	sb.WriteString("From Coq Require Import List ZArith Bool.\nFrom Coq Require Import Strings.Byte.\nFrom GoBT Require Import lib.Bytes lib.GoSem lib.GoInterp lib.GoTx.\nImport ListNotations.\nLocal Open Scope Z_scope.\n\n")
	head := sb.String() // the records of the structs that were used (funcs_tx.go) go between the header and the functions
	sb.Reset()
	fnStructs, fnStructsUsed = map[string]*types.Named{}, map[string]bool{}
	fnMethReset()
	res := &fnResult{status: map[string]fnStatus{}}
	for _, sp := range fnList {
		st := fnStatus{ProofFile: "proofs/GenFuncs_" + sp.Coq + ".v", ExportFile: "Properties/Gen_" + sp.Coq + ".v", Properties: sp.Props, Go: sp.File}
		if sp.NoProof {
			st.ProofFile, st.ExportFile = "", ""
		}
		def, where, err := fnTranslate(ld, sp)
		if where != "" {
			st.Go = where
		}
		goName := sp.Name
		if sp.Recv != "" {
			goName = sp.Recv + "." + sp.Name
		}
		if err != "" {
			st.Reason = err
			fmt.Fprintf(&sb, "(* %s (%s): NOT translated: %s *)\nDefinition %s_translated : bool := false.\n\n", goName, st.Go, fnComment(err), sp.Coq)
		} else {
			st.Translated = true
			if sp.NoProof {
				st.Reason = "translated, but no equivalence proof has been written yet"
			}
			fmt.Fprintf(&sb, "(* %s (%s) *)\nDefinition %s_translated : bool := true.\n%s\n\n", goName, st.Go, sp.Coq, def)
		}
		res.status[sp.Coq] = st
	}
	res.coq = head + fnRecords() + sb.String()
	fnCache[repo] = res
	return res
}

func fnComment(s string) string {
	return strings.ReplaceAll(strings.ReplaceAll(s, "(*", "( *"), "*)", "* )")
}

// fnTranslate: the Gallina definition of one function, or the reason why there is none.
func fnTranslate(ld *fnLoader, sp fnSpec) (def, where, reason string) {
	defer func() {
		if r := recover(); r != nil {
			if e, ok := r.(fnError); ok {
				def, reason = "", e.msg
				return
			}
			def, reason = "", fmt.Sprintf("translator failure: %v", r)
		}
	}()
	dir := ""
	if i := strings.LastIndex(sp.File, "/"); i >= 0 {
		dir = sp.File[:i]
	}
	pkg, err := ld.load(dir)
	if err != nil {
		return "", "", "package not loadable: " + err.Error()
	}
	fd := pkg.findFunc(sp.File, sp.Recv, sp.Name)
	if fd == nil {
		return "", "", "function not found in " + sp.File
	}
	where = fmt.Sprintf("%s:%d", sp.File, pkg.fset.Position(fd.Pos()).Line)
	if fd.Body == nil {
		return "", where, "function has no body"
	}
	t := &fnTr{pkg: pkg, spec: sp, vars: map[interface{}]*fnVar{}, names: map[string]int{}, objs: map[types.Object]string{},
		ld: ld, dead: map[int]bool{}, rootIdx: map[string]int{}, errNil: map[interface{}]bool{}}
	def = t.function(fd)
	def = t.methComment() + def
	if len(t.erased) > 0 {
		def = "(* erased, being no-ops for the stack value: the debugger / state-handler callbacks " + strings.Join(fnSortedKeys(t.erased), ", ") + " *)\n" + def
	}
	ld.done[fnKey(pkg.pkg.Path(), sp.Recv, sp.Name)] = &fnDone{spec: sp, args: t.args, state: t.state, results: t.results, rootIdx: t.rootIdx}
	return def, where, ""
}

// sorted keys helper for deterministic output
func fnSortedKeys(m map[string]bool) []string {
	var ks []string
	for k := range m {
		ks = append(ks, k)
	}
	sort.Strings(ks)
	return ks
}

var _ = ast.Inspect
