package gen

// The script interpreter's own code under the function-body translator: the methods of `stack` (stack.go) and the
// opcode handlers (operations.go).  What is added to funcs_expr.go / funcs_stmt.go:
//
//   - STATE: a function may write declared fields of its pointer parameters (fnSpec.State: `s.stk`, `t.dstack.stk`).
//     Such a field is a parameter of the printed definition and is RETURNED: the result type is
//     M (state fields * results).  Inside the body a state field is a variable like any other (`s.stk = e` is a let).
//   - CALLS of functions that are on the translator's list and were printed before: the call is the application of
//     the printed definition; the callee's field paths are mapped through the receiver / argument expression
//     (`t.dstack.PopInt()`: the callee's `s.stk` is the caller's `t.dstack.stk`), and must be declared by the caller.
//     A callee that is not translated makes the caller untranslated.  A call that writes state is accepted as a
//     statement, as the right-hand side of an assignment and as the operand of `return`, not inside an expression.
//   - [][]byte (a stack) as `list bytes` in Go order; its items are values and never "allocated here", so an in-place
//     write to an item is refused (funcs_stmt.go: freshLocal).  A byte slice that is handed to a printed function
//     stops being "allocated here".  After an append in place to a stack, other views of its storage are unusable.
//   - *scriptNumber as Z with the methods of number.go as the named primitives of lib/GoInterp.v.  The methods that
//     change the receiver in place (Add ... Abs, Set, and Bytes) consume it: every variable that may point to the
//     same number is unusable afterwards, and so is a number that was handed to a printed function.  A number that
//     came back from a call together with an error is usable only where that error has been tested to be nil.
//   - the interface config as bool (true = afterGenesisConfig), its methods as lookups in gen/InterpConsts.v.
//   - the debugger callbacks of the stack (beforeStackPush ... afterStackPop, also deferred) are ERASED.

import (
	"go/ast"
	"go/token"
	"go/types"
	"strings"
)

const fnInterpPkg = fnModule + "/bscript/interpreter"

type fnArg struct {
	goParam int    // position of the Go parameter (-1 = receiver) for a value parameter; -2 for a field path
	path    string // the callee's field path
	ty      fnType
}

type fnDone struct {
	spec    fnSpec
	args    []fnArg
	state   []string
	results []fnType
	rootIdx map[string]int
}

func fnKey(pkgPath, recv, name string) string { return pkgPath + "|" + recv + "|" + name }

func fnSpecKey(sp fnSpec) string {
	dir := ""
	if i := strings.LastIndex(sp.File, "/"); i >= 0 {
		dir = "/" + sp.File[:i]
	}
	return fnKey(fnModule+dir, sp.Recv, sp.Name)
}

var fnListed = func() map[string]bool {
	m := map[string]bool{}
	return m
}()

func fnIsListed(key string) bool {
	if len(fnListed) == 0 {
		for _, sp := range fnList {
			fnListed[fnSpecKey(sp)] = true
		}
	}
	return fnListed[key]
}

// fnClassifyInterp: *scriptNumber and config.
func fnClassifyInterp(ty types.Type) (fnType, bool) {
	if pt, ok := ty.(*types.Pointer); ok {
		if n, ok := pt.Elem().(*types.Named); ok && n.Obj().Pkg() != nil && n.Obj().Pkg().Path() == fnInterpPkg && n.Obj().Name() == "scriptNumber" {
			return fnType{k: fkNum}, true
		}
	}
	if n, ok := ty.(*types.Named); ok && n.Obj().Pkg() != nil && n.Obj().Pkg().Path() == fnInterpPkg && n.Obj().Name() == "config" {
		if _, isIface := n.Underlying().(*types.Interface); isIface {
			return fnType{k: fkCfg}, true
		}
	}
	return fnType{}, false
}

// ---- *scriptNumber objects ----

func (t *fnTr) newCell() int { t.ncell++; return t.ncell }

type fnNeverKey struct{}

func (t *fnTr) readNum(n ast.Node, v *fnVar) {
	if !v.okNum {
		t.fail(n, "%s may be a nil *scriptNumber here: the error that was returned with it has not been tested", v.name)
	}
	for _, c := range v.cells {
		if t.dead[c] {
			t.fail(n, "%s is read after the number it points to was changed in place (or handed to a function that may do so)", v.name)
		}
	}
}

func (t *fnTr) consume(v fnVal) {
	for _, c := range v.cells {
		t.dead[c] = true
	}
}

// forgetErr: the error variable is re-assigned; numbers that were waiting for a test of its old value never get one.
func (t *fnTr) forgetErr(key interface{}) {
	for _, v := range t.vars {
		if v.guard == key && !v.okNum {
			v.guard = fnNeverKey{}
		}
	}
}

func (t *fnTr) markErrNil(key interface{}) {
	for _, v := range t.vars {
		if v.guard == key {
			v.okNum = true
		}
	}
}

// errTest: cond is `err != nil` (nonNil = true) or `err == nil` for a local error variable.
func (t *fnTr) errTest(cond ast.Expr) (key interface{}, nonNil, ok bool) {
	be, isBin := cond.(*ast.BinaryExpr)
	if !isBin || (be.Op != token.NEQ && be.Op != token.EQL) {
		return nil, false, false
	}
	x, y := be.X, be.Y
	if tv, has := t.pkg.info.Types[x]; has && tv.IsNil() {
		x, y = y, x
	}
	if tv, has := t.pkg.info.Types[y]; !has || !tv.IsNil() {
		return nil, false, false
	}
	id, isId := x.(*ast.Ident)
	if !isId {
		return nil, false, false
	}
	obj := t.pkg.info.Uses[id]
	if v := t.vars[obj]; obj == nil || v == nil || v.ty.k != fkErr {
		return nil, false, false
	}
	return obj, be.Op == token.NEQ, true
}

// checkLoopNums: a number that exists outside a loop must not be consumed inside it (the body is printed once).
func (t *fnTr) checkLoopNums(n ast.Node, entry fnSnap) {
	for _, v := range entry.vars {
		for _, c := range v.cells {
			if t.dead[c] && !entry.dead[c] {
				t.fail(n, "%s, a number defined outside the loop, is changed in place inside it", v.name)
			}
		}
	}
}

// escape: the value is handed to a printed function, which may keep the slice or change the number in place.
func (t *fnTr) escape(v fnVal) {
	for _, a := range v.alias {
		if av := t.vars[a]; av != nil {
			av.fresh = false
		}
	}
	t.consume(v)
}

// numLiteral: &scriptNumber{val: big.NewInt(e), afterGenesis: x}
func (t *fnTr) numLiteral(x *ast.UnaryExpr) fnVal {
	cl, ok := x.X.(*ast.CompositeLit)
	if !ok {
		t.fail(x, "address of something other than a scriptNumber literal")
	}
	if ty, ok := t.pkg.info.Types[x]; !ok || ty.Type == nil {
		t.fail(x, "untyped literal")
	} else if k, ok := fnClassify(ty.Type); !ok || k.k != fkNum {
		t.fail(x, "address of something other than a scriptNumber literal")
	}
	var val ast.Expr
	for _, el := range cl.Elts {
		kv, ok := el.(*ast.KeyValueExpr)
		if !ok {
			t.fail(el, "scriptNumber literal without field names")
		}
		switch kv.Key.(*ast.Ident).Name {
		case "val":
			val = kv.Value
		case "afterGenesis": // only the capacity of the slice that Bytes returns depends on it (lib/GoInterp.v)
			if _, isPath := t.fieldPath(kv.Value); !isPath {
				if tv, ok := t.pkg.info.Types[kv.Value]; !ok || tv.Value == nil {
					t.fail(kv.Value, "afterGenesis of a scriptNumber literal is neither a field nor a constant")
				}
			}
		default:
			t.fail(kv, "unknown field of scriptNumber")
		}
	}
	c, ok := val.(*ast.CallExpr)
	if !ok || len(c.Args) != 1 {
		t.fail(x, "scriptNumber literal whose val is not big.NewInt(e)")
	}
	if p, ns, isSel := t.pkgSel(c.Fun); !isSel || p != "math/big" || len(ns) != 1 || ns[0] != "NewInt" {
		t.fail(x, "scriptNumber literal whose val is not big.NewInt(e)")
	}
	a := t.expr(c.Args[0])
	if a.ty.k != fkInt || a.ty.ity != "I64" {
		t.fail(c, "big.NewInt of something other than an int64")
	}
	r := t.seq([]fnVal{a}, func(ts []string) fnVal { return fnVal{s: "sn_of_int64 " + ts[0], pure: true, ty: fnType{k: fkNum}} })
	r.cells = []int{t.newCell()}
	return r
}

var fnNumUnary = map[string]string{"Incr": "sn_incr", "Decr": "sn_decr", "Neg": "sn_neg", "Abs": "sn_abs"}
var fnNumBinary = map[string]string{"Add": "sn_add", "Sub": "sn_sub", "Mul": "sn_mul"}
var fnNumBinaryEff = map[string]string{"Div": "sn_div", "Mod": "sn_mod"}
var fnNumCmp = map[string]string{"LessThan": "sn_lt", "LessThanOrEqual": "sn_le", "GreaterThan": "sn_gt", "GreaterThanOrEqual": "sn_ge", "Equal": "sn_eq"}
var fnNumCmpInt = map[string]string{"LessThanInt": "sn_lt", "GreaterThanInt": "sn_gt", "EqualInt": "sn_eq"}
var fnNumConv = map[string][2]string{"Int32": {"sn_int32", "I32"}, "Int64": {"sn_int64", "I64"}, "Int": {"sn_int", "I64"}}
var fnCfgMethods = map[string]bool{"AfterGenesis": true, "MaxOps": true, "MaxStackSize": true, "MaxScriptSize": true,
	"MaxScriptElementSize": true, "MaxScriptNumberLength": true, "MaxPubKeysPerMultiSig": true}

// recvKind: the classified type of the receiver expression of a method call.
func (t *fnTr) recvKind(c *ast.CallExpr) (ast.Expr, string, fnKind, bool) {
	sel, ok := c.Fun.(*ast.SelectorExpr)
	if !ok {
		return nil, "", 0, false
	}
	tv, ok := t.pkg.info.Types[sel.X]
	if !ok || tv.Type == nil || tv.IsType() {
		return nil, "", 0, false
	}
	ty, ok := fnClassify(tv.Type)
	if !ok {
		return nil, "", 0, false
	}
	return sel.X, sel.Sel.Name, ty.k, true
}

func (t *fnTr) isNumMutator(c *ast.CallExpr) bool {
	_, name, k, ok := t.recvKind(c)
	if !ok || k != fkNum {
		return false
	}
	_, u := fnNumUnary[name]
	_, b := fnNumBinary[name]
	_, e := fnNumBinaryEff[name]
	return u || b || e || name == "Set"
}

// interpCall: the calls of the interpreter's vocabulary in an expression: scriptNumber methods, config methods,
// makeScriptNumber (not here: two results), bytes.Equal / bytes.Join, printed functions that write no state.
func (t *fnTr) interpCall(c *ast.CallExpr) (fnVal, bool) {
	boolT, numT := fnType{k: fkBool}, fnType{k: fkNum}
	if rx, name, k, ok := t.recvKind(c); ok && k == fkNum {
		intArg := func() fnVal {
			if len(c.Args) != 1 {
				t.fail(c, "%s with %d arguments", name, len(c.Args))
			}
			a := t.expr(c.Args[0])
			if a.ty.k != fkInt || a.ty.ity != "I64" {
				t.fail(c, "%s of something other than an int64", name)
			}
			return a
		}
		numArg := func() fnVal {
			if len(c.Args) != 1 {
				t.fail(c, "%s with %d arguments", name, len(c.Args))
			}
			a := t.expr(c.Args[0])
			if a.ty.k != fkNum {
				t.fail(c, "%s of something other than a *scriptNumber", name)
			}
			return a
		}
		noArg := func() {
			if len(c.Args) != 0 {
				t.fail(c, "%s with arguments", name)
			}
		}
		r := t.expr(rx)
		if f, ok := fnNumUnary[name]; ok {
			noArg()
			t.consume(r)
			v := t.seq([]fnVal{r}, func(ts []string) fnVal { return fnVal{s: f + " " + ts[0], pure: true, ty: numT} })
			v.cells = []int{t.newCell()}
			return v, true
		}
		if f, ok := fnNumBinary[name]; ok {
			a := numArg()
			t.consume(r)
			v := t.seq([]fnVal{r, a}, func(ts []string) fnVal { return fnVal{s: f + " " + ts[0] + " " + ts[1], pure: true, ty: numT} })
			v.cells = []int{t.newCell()}
			return v, true
		}
		if f, ok := fnNumBinaryEff[name]; ok {
			a := numArg()
			t.consume(r)
			v := t.seq([]fnVal{r, a}, func(ts []string) fnVal { return fnVal{s: f + " " + ts[0] + " " + ts[1], ty: numT} })
			v.cells = []int{t.newCell()}
			return v, true
		}
		if f, ok := fnNumCmp[name]; ok {
			a := numArg()
			return t.seq([]fnVal{r, a}, func(ts []string) fnVal { return fnVal{s: f + " " + ts[0] + " " + ts[1], pure: true, ty: boolT} }), true
		}
		if f, ok := fnNumCmpInt[name]; ok {
			a := intArg()
			return t.seq([]fnVal{r, a}, func(ts []string) fnVal { return fnVal{s: f + " " + ts[0] + " " + ts[1], pure: true, ty: boolT} }), true
		}
		if f, ok := fnNumConv[name]; ok {
			noArg()
			return t.seq([]fnVal{r}, func(ts []string) fnVal { return fnVal{s: f[0] + " " + ts[0], pure: true, ty: fnType{k: fkInt, ity: f[1]}} }), true
		}
		switch name {
		case "IsZero":
			noArg()
			return t.seq([]fnVal{r}, func(ts []string) fnVal { return fnVal{s: "sn_is_zero " + ts[0], pure: true, ty: boolT} }), true
		case "Set":
			a := intArg()
			t.consume(r)
			v := t.seq([]fnVal{a}, func(ts []string) fnVal { return fnVal{s: "sn_set " + ts[0], pure: true, ty: numT} })
			v.cells = []int{t.newCell()}
			return v, true
		case "Bytes": // negates a negative receiver in place; returns a slice made there
			noArg()
			t.consume(r)
			v := t.seq([]fnVal{r}, func(ts []string) fnVal { return fnVal{s: "sn_bytes " + ts[0], pure: true, ty: fnType{k: fkBytes, ity: "U8"}} })
			v.fresh = true
			return v, true
		}
		t.fail(c, "unsupported method %s of scriptNumber", name)
	}
	if rx, name, k, ok := t.recvKind(c); ok && k == fkCfg {
		if !fnCfgMethods[name] || len(c.Args) != 0 {
			t.fail(c, "unsupported method %s of config", name)
		}
		r := t.expr(rx)
		ty := boolT
		if name != "AfterGenesis" {
			ty = fnType{k: fkInt, ity: "I64"}
		}
		return t.seq([]fnVal{r}, func(ts []string) fnVal { return fnVal{s: "cfg_" + name + " " + ts[0], ty: ty} }), true
	}
	if p, ns, ok := t.pkgSel(c.Fun); ok && p == "bytes" && len(ns) == 1 {
		switch ns[0] {
		case "Equal":
			if len(c.Args) != 2 {
				break
			}
			a, b := t.expr(c.Args[0]), t.expr(c.Args[1])
			if a.ty.k != fkBytes || b.ty.k != fkBytes {
				t.fail(c, "bytes.Equal of something other than byte slices")
			}
			return t.seq([]fnVal{a, b}, func(ts []string) fnVal { return fnVal{s: "go_bytes_equal " + ts[0] + " " + ts[1], pure: true, ty: boolT} }), true
		case "Join":
			if len(c.Args) != 2 {
				break
			}
			cl, ok := c.Args[0].(*ast.CompositeLit)
			if !ok {
				t.fail(c, "bytes.Join of something other than a [][]byte literal")
			}
			var args []fnVal
			for _, el := range cl.Elts {
				v := t.expr(el)
				if v.ty.k != fkBytes {
					t.fail(el, "bytes.Join of something other than byte slices")
				}
				args = append(args, v)
			}
			sep := t.coerce(c.Args[1], t.expr(c.Args[1]), fnType{k: fkBytes, ity: "U8"})
			args = append(args, sep)
			v := t.seq(args, func(ts []string) fnVal {
				return fnVal{s: "go_bytes_join [" + strings.Join(ts[:len(ts)-1], "; ") + "] " + ts[len(ts)-1], pure: true, ty: fnType{k: fkBytes, ity: "U8"}}
			})
			v.fresh = true
			return v, true
		}
		t.fail(c, "unsupported function of package bytes")
	}
	if d, recv := t.resolveCall(c); d != nil {
		if len(d.state) > 0 {
			t.fail(c, "a call of %s, which writes state, inside an expression", d.spec.Coq)
		}
		if len(d.results) != 1 {
			t.fail(c, "a call of %s, which has %d results, inside an expression", d.spec.Coq, len(d.results))
		}
		t.methResultCheck(c, d, recv)
		v := t.callTerm(c, d, recv)
		v.ty = d.results[0]
		if v.ty.k == fkNum {
			v.cells = []int{t.newCell()}
		}
		return v, true
	}
	return fnVal{}, false
}

// snMake: makeScriptNumber(bb, n, requireMinimal, afterGenesis) as the pure pair (number, error).
func (t *fnTr) snMake(c *ast.CallExpr) (fnVal, bool) {
	id, ok := c.Fun.(*ast.Ident)
	if !ok || id.Name != "makeScriptNumber" || len(c.Args) != 4 {
		return fnVal{}, false
	}
	fn, ok := t.pkg.info.Uses[id].(*types.Func)
	if !ok || fn.Pkg() == nil || fn.Pkg().Path() != fnInterpPkg {
		return fnVal{}, false
	}
	want := []fnKind{fkBytes, fkInt, fkBool, fkBool}
	var args []fnVal
	for i, a := range c.Args {
		v := t.expr(a)
		if v.ty.k != want[i] {
			t.fail(a, "argument %d of makeScriptNumber has an unexpected type", i+1)
		}
		args = append(args, v)
	}
	return t.seq(args, func(ts []string) fnVal { return fnVal{s: "sn_make " + strings.Join(ts, " "), pure: true} }), true
}

// appendStack: append(s, x) / append(s, t...) for a [][]byte.
func (t *fnTr) appendStack(c *ast.CallExpr, a fnVal) fnVal {
	if len(c.Args) != 2 {
		t.fail(c, "append to a stack with %d arguments", len(c.Args))
	}
	b := t.expr(c.Args[1])
	var r fnVal
	if c.Ellipsis.IsValid() {
		if b.ty.k != fkStack {
			t.fail(c, "append of a non-[][]byte...")
		}
		r = t.seq([]fnVal{a, b}, func(ts []string) fnVal { return fnVal{s: ts[0] + " ++ " + ts[1], pure: true, ty: a.ty} })
	} else {
		b = t.coerce(c.Args[1], b, fnType{k: fkBytes, ity: "U8"})
		if b.ty.k != fkBytes {
			t.fail(c, "append of something other than a []byte to a stack")
		}
		t.escape(b)
		r = t.seq([]fnVal{a, b}, func(ts []string) fnVal { return fnVal{s: "go_append_item " + ts[0] + " " + ts[1], pure: true, ty: a.ty} })
	}
	r.alias, r.fresh = a.alias, a.fresh
	if !a.fresh {
		// the append may write into storage that other variables view
		own := map[interface{}]bool{}
		for _, k := range a.alias {
			own[k] = true
		}
		for key, w := range t.vars {
			if own[key] || w.ty.k != fkStack {
				continue
			}
			for _, k := range w.alias {
				if own[k] {
					w.stale = true
				}
			}
		}
	}
	return r
}

// isNameCall: op.Name() on a parameter, an argument of an error message.
func (t *fnTr) isNameCall(e ast.Expr) bool {
	c, ok := e.(*ast.CallExpr)
	if !ok || len(c.Args) != 0 {
		return false
	}
	sel, ok := c.Fun.(*ast.SelectorExpr)
	if !ok || sel.Sel.Name != "Name" {
		return false
	}
	_, isPath := t.fieldPath(sel.X)
	return isPath
}

var fnErased = map[string]bool{"beforeStackPush": true, "afterStackPush": true, "beforeStackPop": true, "afterStackPop": true}

// isErasedCall: a debugger / state-handler callback of the stack, with variables as arguments.
func (t *fnTr) isErasedCall(c *ast.CallExpr) bool {
	fn, _ := t.calleeFunc(c)
	if fn == nil || fn.Pkg() == nil || fn.Pkg().Path() != fnInterpPkg || !fnErased[fn.Name()] || fnRecvName(fn) != "stack" {
		return false
	}
	for _, a := range c.Args {
		if _, ok := a.(*ast.Ident); !ok {
			return false
		}
	}
	if t.erased == nil {
		t.erased = map[string]bool{}
	}
	t.erased[fn.Name()] = true
	return true
}

func fnRecvName(fn *types.Func) string {
	sig, ok := fn.Type().(*types.Signature)
	if !ok || sig.Recv() == nil {
		return ""
	}
	ty := sig.Recv().Type()
	if pt, ok := ty.(*types.Pointer); ok {
		ty = pt.Elem()
	}
	if n, ok := ty.(*types.Named); ok {
		return n.Obj().Name()
	}
	return "?"
}

// calleeFunc: the go-bt function or method a call expression calls, and the receiver expression of a method call.
func (t *fnTr) calleeFunc(c *ast.CallExpr) (*types.Func, ast.Expr) {
	switch f := c.Fun.(type) {
	case *ast.Ident:
		if fn, ok := t.pkg.info.Uses[f].(*types.Func); ok {
			return fn, nil
		}
	case *ast.SelectorExpr:
		if fn, ok := t.pkg.info.Uses[f.Sel].(*types.Func); ok {
			if id, isId := f.X.(*ast.Ident); isId {
				if _, isPkg := t.pkg.info.Uses[id].(*types.PkgName); isPkg {
					return fn, nil
				}
			}
			return fn, f.X
		}
	}
	return nil, nil
}

// resolveCall: the printed definition a call refers to; nil when the callee is not on the translator's list.
func (t *fnTr) resolveCall(c *ast.CallExpr) (*fnDone, ast.Expr) {
	fn, recv := t.calleeFunc(c)
	if fn == nil || fn.Pkg() == nil {
		return nil, nil
	}
	key := fnKey(fn.Pkg().Path(), fnRecvName(fn), fn.Name())
	if d := t.ld.done[key]; d != nil {
		if c.Ellipsis.IsValid() {
			t.fail(c, "call with ...")
		}
		return d, recv
	}
	if fnIsListed(key) {
		t.fail(c, "calls %s, which is not translated (or is printed after this function)", fn.Name())
	}
	return nil, nil
}

// mapPath: the caller's name for a field path of the callee.
func (t *fnTr) mapPath(c *ast.CallExpr, d *fnDone, recv ast.Expr, p string) string {
	if strings.HasPrefix(p, "*") {
		t.fail(c, "the callee's interface has a dereferenced parameter (%s)", p)
	}
	root, rest := p, ""
	if i := strings.Index(p, "."); i >= 0 {
		root, rest = p[:i], p[i:]
	}
	idx, ok := d.rootIdx[root]
	if !ok {
		t.fail(c, "the callee's field path %s has no parameter", p)
	}
	var e ast.Expr
	if idx == -1 {
		e = recv
	} else if idx < len(c.Args) {
		e = c.Args[idx]
	}
	if e == nil {
		t.fail(c, "missing argument for %s", root)
	}
	if u, isAddr := e.(*ast.UnaryExpr); isAddr && u.Op == token.AND {
		e = u.X
	}
	ep, ok := t.fieldPath(e)
	if !ok {
		t.fail(c, "the argument for %s is not a parameter or a field of one", root)
	}
	if rest != "" {
		ep = strings.TrimPrefix(ep, "*")
	}
	return ep + rest
}

// callWrites: the caller's state fields a call may write (for loops).
func (t *fnTr) callWrites(c *ast.CallExpr) (out []string) {
	defer func() {
		if r := recover(); r != nil {
			if _, ok := r.(fnError); ok {
				out = nil // the call is refused where it is translated
				return
			}
			panic(r)
		}
	}()
	fn, recv := t.calleeFunc(c)
	if fn == nil || fn.Pkg() == nil {
		return nil
	}
	d := t.ld.done[fnKey(fn.Pkg().Path(), fnRecvName(fn), fn.Name())]
	if d == nil {
		return nil
	}
	for _, p := range d.state {
		out = append(out, t.mapPath(c, d, recv, p))
	}
	return out
}

// callTerm: the application of the printed definition (an effectful term); arguments are evaluated left to right.
func (t *fnTr) callTerm(c *ast.CallExpr, d *fnDone, recv ast.Expr) fnVal {
	nparams := 0
	if fn, _ := t.calleeFunc(c); fn != nil {
		nparams = fn.Type().(*types.Signature).Params().Len()
		if fn.Type().(*types.Signature).Variadic() {
			t.fail(c, "call of a variadic function")
		}
	}
	if len(c.Args) != nparams {
		t.fail(c, "call with %d arguments for %d parameters", len(c.Args), nparams)
	}
	var vals []fnVal
	for _, a := range d.args {
		if a.goParam >= -1 {
			e := recv
			if a.goParam >= 0 {
				e = c.Args[a.goParam]
			}
			if e == nil {
				t.fail(c, "missing receiver")
			}
			if a.ty.k == fkNilBytes {
				vals = append(vals, t.nilableArg(e))
				continue
			}
			v := t.coerce(e, t.expr(e), a.ty)
			t.escape(v)
			vals = append(vals, v)
			continue
		}
		vals = append(vals, t.pathArg(c, d, recv, a))
	}
	for _, p := range d.state {
		key := t.mapPath(c, d, recv, p)
		if !t.isState(key) {
			t.fail(c, "%s writes %s, which is not in the declared state of this function", d.spec.Coq, key)
		}
	}
	return t.seq(vals, func(ts []string) fnVal { return fnVal{s: strings.TrimSpace(d.spec.Coq + " " + strings.Join(ts, " "))} })
}

// bindCall prints `bind (call) (fun pattern => rest)`: the state fields the callee writes are re-bound, the results
// are bound to the given targets (identifiers, `_`, or nil = fresh temporaries, whose names are returned).
func (t *fnTr) bindCall(c *ast.CallExpr, d *fnDone, recv ast.Expr, lhs []ast.Expr, rest func(res []string) string) string {
	call := t.callTerm(c, d, recv)
	var sts []string
	for _, p := range d.state {
		key := t.mapPath(c, d, recv, p)
		vr := t.vars[key]
		t.setVar(key, vr, fnVal{ty: vr.ty})
		sts = append(sts, vr.name)
	}
	var res []string
	var errKey interface{} = fnNeverKey{}
	hasErr := false
	var nums []*fnVar
	for i, rty := range d.results {
		if lhs == nil {
			res = append(res, t.temp())
			continue
		}
		switch l := lhs[i].(type) {
		case *ast.Ident:
			if l.Name == "_" {
				res = append(res, "_")
				if rty.k == fkErr {
					hasErr = true
				}
				continue
			}
			obj := t.local(l)
			ty, ok := fnClassify(obj.Type())
			if !ok || ty.k != rty.k {
				t.fail(l, "variable %s has type %s, which does not fit result %d of %s", l.Name, obj.Type(), i+1, d.spec.Coq)
			}
			vr := t.vars[obj]
			if vr == nil {
				vr = &fnVar{name: t.objName(obj, l.Name), ty: ty}
			}
			v := fnVal{ty: ty}
			if ty.k == fkNum {
				v.cells = []int{t.newCell()}
			}
			t.setVar(obj, vr, v)
			if ty.k == fkNum {
				nums = append(nums, vr)
			}
			if ty.k == fkErr {
				errKey, hasErr = obj, true
			}
			res = append(res, vr.name)
		default:
			p, ok := t.fieldPath(lhs[i])
			vr := t.vars[p]
			if !ok || vr == nil || !t.isState(p) || vr.ty.k != rty.k {
				t.fail(lhs[i], "unsupported target of a call result")
			}
			t.setVar(p, vr, fnVal{ty: vr.ty})
			res = append(res, vr.name)
		}
	}
	if hasErr {
		for _, vr := range nums {
			vr.guard, vr.okNum = errKey, false
		}
	}
	tup := func(ns []string) string {
		if len(ns) == 1 {
			return ns[0]
		}
		return "(" + strings.Join(ns, ", ") + ")"
	}
	var parts []string
	if len(sts) > 0 {
		parts = append(parts, tup(sts))
	}
	if len(res) > 0 {
		parts = append(parts, tup(res))
	}
	binder := "_"
	if len(parts) == 1 && !strings.HasPrefix(parts[0], "(") {
		binder = parts[0]
	} else if len(parts) > 0 {
		binder = "'" + tup(parts)
		if len(parts) == 1 {
			binder = "'" + parts[0]
		}
	}
	return "bind (" + call.s + ") (fun " + binder + " =>" + t.nl() + rest(res) + ")"
}

// stmtCall: `x := f(...)`, `x, err := f(...)`, `a.b = f(...)` for a printed function f.
func (t *fnTr) stmtCall(rhs ast.Expr, lhs []ast.Expr, tok token.Token, k func() string) (string, bool) {
	c, ok := rhs.(*ast.CallExpr)
	if !ok {
		return "", false
	}
	d, recv := t.resolveCall(c)
	if d == nil {
		return "", false
	}
	if len(d.state) == 0 && len(d.results) == 1 && len(lhs) == 1 {
		return "", false // an ordinary expression
	}
	if len(lhs) != len(d.results) {
		t.fail(rhs, "%d targets for the %d results of %s", len(lhs), len(d.results), d.spec.Coq)
	}
	return t.bindCall(c, d, recv, lhs, func([]string) string { return k() }), true
}

// assignCall: `a, b := f(...)`.
func (t *fnTr) assignCall(x *ast.AssignStmt, k func() string) string {
	if x.Tok != token.DEFINE && x.Tok != token.ASSIGN {
		t.fail(x, "unsupported assignment operator with several targets")
	}
	if out, ok := t.stmtCall(x.Rhs[0], x.Lhs, x.Tok, k); ok {
		return out
	}
	if c, ok := x.Rhs[0].(*ast.CallExpr); ok && len(x.Lhs) == 2 {
		if v, ok := t.snMake(c); ok {
			// `sn, err := makeScriptNumber(...)`: the number is never nil
			nameOf := func(e ast.Expr, ty fnType, val fnVal) string {
				id, ok := e.(*ast.Ident)
				if !ok {
					t.fail(e, "unsupported target")
				}
				if id.Name == "_" {
					return "_"
				}
				obj := t.local(id)
				cty, ok := fnClassify(obj.Type())
				if !ok || cty.k != ty.k {
					t.fail(e, "target of another type")
				}
				vr := t.vars[obj]
				if vr == nil {
					vr = &fnVar{name: t.objName(obj, id.Name), ty: cty}
				}
				t.setVar(obj, vr, val)
				return vr.name
			}
			n1 := nameOf(x.Lhs[0], fnType{k: fkNum}, fnVal{ty: fnType{k: fkNum}, cells: []int{t.newCell()}})
			n2 := nameOf(x.Lhs[1], fnType{k: fkErr}, fnVal{ty: fnType{k: fkErr}})
			if v.pure {
				return "let '(" + n1 + ", " + n2 + ") := " + v.s + " in" + t.nl() + k()
			}
			return "bind (" + v.s + ") (fun '(" + n1 + ", " + n2 + ") =>" + t.nl() + k() + ")"
		}
	}
	t.fail(x, "assignment with several targets whose right-hand side is not a call of a printed function")
	return ""
}

// parallelDefine: `a, b := e1, e2` with new variables only (so no e_i can mention a target).
func (t *fnTr) parallelDefine(x *ast.AssignStmt, k func() string) string {
	for _, l := range x.Lhs {
		id, ok := l.(*ast.Ident)
		if !ok || (id.Name != "_" && t.pkg.info.Defs[id] == nil) {
			t.fail(x, "parallel assignment to something other than new variables")
		}
	}
	var step func(i int) string
	step = func(i int) string {
		if i == len(x.Lhs) {
			return k()
		}
		return t.assign(x.Lhs[i].(*ast.Ident), t.expr(x.Rhs[i]), func() string { return step(i + 1) })
	}
	return step(0)
}

// returnCall: `return f(...)` where the call supplies all results.
func (t *fnTr) returnCall(c *ast.CallExpr) (string, bool) {
	if v, ok := t.snMake(c); ok {
		if len(t.results) != 2 || t.results[0].k != fkNum || t.results[1].k != fkErr {
			t.fail(c, "makeScriptNumber returned from a function with other results")
		}
		if v.pure {
			return t.ret(t.full(v.s)), true
		}
		tmp := t.temp()
		return "bind (" + v.s + ") (fun " + tmp + " => " + t.ret(t.full(tmp)) + ")", true
	}
	d, recv := t.resolveCall(c)
	if d == nil || (len(d.state) == 0 && len(d.results) == 1) {
		return "", false
	}
	if len(d.results) != len(t.results) {
		t.fail(c, "return of a call with %d results from a function with %d", len(d.results), len(t.results))
	}
	for i := range d.results {
		if d.results[i].k != t.results[i].k {
			t.fail(c, "result %d of %s has another type than the function's", i+1, d.spec.Coq)
		}
	}
	return t.bindCall(c, d, recv, nil, func(res []string) string {
		if len(res) == 1 {
			return t.ret(t.full(res[0]))
		}
		return t.ret(t.full("(" + strings.Join(res, ", ") + ")"))
	}), true
}

// exprStmtInterp: call statements: erased callbacks, printed functions, copy on a stack allocated here, a number
// changed in place.
func (t *fnTr) exprStmtInterp(c *ast.CallExpr, k func() string) (string, bool) {
	if t.isErasedCall(c) {
		return k(), true
	}
	if id, ok := c.Fun.(*ast.Ident); ok {
		if _, isBuiltin := t.pkg.info.Uses[id].(*types.Builtin); isBuiltin && id.Name == "copy" && len(c.Args) == 2 {
			did, ok := c.Args[0].(*ast.Ident)
			if !ok {
				t.fail(c, "copy into something other than a local variable")
			}
			obj := t.local(did)
			vr := t.vars[obj]
			if vr == nil || vr.ty.k != fkStack || !vr.fresh {
				t.fail(c, "copy into %s, which is not known to be a [][]byte allocated in this function", did.Name)
			}
			src := t.expr(c.Args[1])
			if src.ty.k != fkStack {
				t.fail(c, "copy from something other than a [][]byte")
			}
			v := t.seq([]fnVal{src}, func(ts []string) fnVal { return fnVal{s: "go_copy " + vr.name + " " + ts[0], pure: true, ty: vr.ty} })
			return t.bindVar(vr.name, v, k), true
		}
	}
	if t.isNumMutator(c) {
		sel := c.Fun.(*ast.SelectorExpr)
		id, ok := sel.X.(*ast.Ident)
		if !ok {
			t.fail(c, "a number that is not a local variable is changed in place")
		}
		v, _ := t.interpCall(c)
		return t.assign(id, v, k), true
	}
	d, recv := t.resolveCall(c)
	if d == nil {
		return "", false
	}
	lhs := make([]ast.Expr, len(d.results))
	for i := range lhs {
		lhs[i] = &ast.Ident{Name: "_"}
	}
	return t.bindCall(c, d, recv, lhs, func([]string) string { return k() }), true
}

// whileStmt: `for cond { ... }` has no syntactic bound on the number of iterations, except `for len(b) > 0 { ... }` with
// b re-sliced in the body (funcs_script.go).
func (t *fnTr) whileStmt(x *ast.ForStmt, k func() string) string {
	if out, ok := t.whileLen(x, k); ok {
		return out
	}
	t.fail(x, "for loop with only a condition (no bound for the number of iterations)")
	return ""
}

func (t *fnTr) rhsFor(e ast.Expr, p string) fnVal { return t.expr(e) }
