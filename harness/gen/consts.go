package gen

// Translator part for C10/C11/C12: the numeric constants and the dummy unlocking script the fee /
// change / funding model depends on, read from the Go source as literals (no semantics):
//
//	txchange.go  const DustLimit
//	input.go     const DefaultSequenceNumber
//	tx.go        the hex literal (*Tx).estimatedFinalTx decodes into the dummy P2PKH unlocking script (in the function, in a
//	             package-level const/var it names, or in a package function it calls)
//	fees.go      MiningFee{Satoshis,Bytes} of defaultStandardFee() / defaultDataFee()
//
// Shapes other than the ones spelled out at each extractor are an error (fail closed); the accepted shapes were widened
// after three property-preserving refactors (literal hoisted to a package-level var / const, decoded once before the loop
// and copied per input) made the first version refuse the source.

import (
	"encoding/hex"
	"fmt"
	"go/ast"
	"go/constant"
	"go/token"
	"strconv"
	"strings"
)

func init() { Register("Consts.v", genConsts) }

// constLit finds `const name [type] = <integer literal>` at package level.
func constLit(fset *token.FileSet, f *ast.File, name, wantType string) (uint64, error) {
	found := false
	var val uint64
	for _, d := range f.Decls {
		gd, ok := d.(*ast.GenDecl)
		if !ok || gd.Tok != token.CONST {
			continue
		}
		for _, sp := range gd.Specs {
			vs, ok := sp.(*ast.ValueSpec)
			if !ok {
				return 0, fmt.Errorf("%s: const spec of unexpected kind", fset.Position(sp.Pos()))
			}
			for i, n := range vs.Names {
				if n.Name != name {
					continue
				}
				if found {
					return 0, fmt.Errorf("%s: constant %s declared twice", fset.Position(vs.Pos()), name)
				}
				if len(vs.Values) != len(vs.Names) {
					return 0, fmt.Errorf("%s: constant %s has no value of its own (iota?)", fset.Position(vs.Pos()), name)
				}
				if wantType == "" {
					if vs.Type != nil {
						return 0, fmt.Errorf("%s: constant %s is expected to be untyped", fset.Position(vs.Pos()), name)
					}
				} else {
					ty, ok := vs.Type.(*ast.Ident)
					if !ok || ty.Name != wantType {
						return 0, fmt.Errorf("%s: constant %s is not declared %s", fset.Position(vs.Pos()), name, wantType)
					}
				}
				lit, ok := vs.Values[i].(*ast.BasicLit)
				if !ok || lit.Kind != token.INT {
					return 0, fmt.Errorf("%s: constant %s is not an integer literal", fset.Position(vs.Pos()), name)
				}
				v, exact := constant.Uint64Val(constant.MakeFromLiteral(lit.Value, token.INT, 0))
				if !exact {
					return 0, fmt.Errorf("%s: constant %s does not fit uint64", fset.Position(vs.Pos()), name)
				}
				val, found = v, true
			}
		}
	}
	if !found {
		return 0, fmt.Errorf("constant %s not found", name)
	}
	return val, nil
}

// funcDecl finds the (method or function) declaration called name.
func funcDecl(f *ast.File, name string) (*ast.FuncDecl, error) {
	var found *ast.FuncDecl
	for _, d := range f.Decls {
		if fd, ok := d.(*ast.FuncDecl); ok && fd.Name.Name == name {
			if found != nil {
				return nil, fmt.Errorf("function %s declared twice", name)
			}
			found = fd
		}
	}
	if found == nil || found.Body == nil {
		return nil, fmt.Errorf("function %s not found", name)
	}
	return found, nil
}

// dummyScript: the dummy P2PKH unlocking script estimatedFinalTx inserts. Accepted shapes (each met in a harmless
// refactor of tx.go): the hex literal sits inside estimatedFinalTx, or in the initialiser of a package-level const /
// var of the package that estimatedFinalTx (or a package function it calls directly) names, or inside such a called
// function. A candidate is a string literal of at least 100 characters made of hex digits only. Exactly ONE distinct
// candidate must be reachable that way (none, or two different ones, is an error: fail closed). How the decoded bytes
// reach in.UnlockingScript (directly, through a private copy, ...) is NOT analysed here: the C11 correspondence
// compares every estimate of the implementation with the model's, which uses this literal.
func dummyScript(fset *token.FileSet, f *ast.File, pkgFiles []*ast.File) ([]byte, error) {
	fd, err := funcDecl(f, "estimatedFinalTx")
	if err != nil {
		return nil, err
	}
	isHexLit := func(e ast.Expr) (string, bool) {
		bl, ok := e.(*ast.BasicLit)
		if !ok || bl.Kind != token.STRING {
			return "", false
		}
		s, err := strconv.Unquote(bl.Value)
		if err != nil || len(s) < 100 {
			return "", false
		}
		for _, c := range s {
			if !(c >= '0' && c <= '9' || c >= 'a' && c <= 'f' || c >= 'A' && c <= 'F') {
				return "", false
			}
		}
		return s, true
	}
	cands := map[string]bool{}
	collect := func(n ast.Node) {
		ast.Inspect(n, func(x ast.Node) bool {
			if e, ok := x.(ast.Expr); ok {
				if s, ok := isHexLit(e); ok {
					cands[strings.ToLower(s)] = true
				}
			}
			return true
		})
	}
	// package-level declarations by name
	pkgVals := map[string][]ast.Expr{}
	pkgFuncs := map[string]*ast.FuncDecl{}
	for _, pf := range pkgFiles {
		for _, d := range pf.Decls {
			switch x := d.(type) {
			case *ast.GenDecl:
				if x.Tok != token.CONST && x.Tok != token.VAR {
					continue
				}
				for _, sp := range x.Specs {
					vs := sp.(*ast.ValueSpec)
					for _, n := range vs.Names {
						pkgVals[n.Name] = append(pkgVals[n.Name], vs.Values...)
					}
				}
			case *ast.FuncDecl:
				if x.Recv == nil && x.Body != nil {
					pkgFuncs[x.Name.Name] = x
				}
			}
		}
	}
	visitBody := func(body *ast.BlockStmt, followCalls bool) {
		collect(body)
		ast.Inspect(body, func(x ast.Node) bool {
			switch id := x.(type) {
			case *ast.Ident:
				for _, v := range pkgVals[id.Name] {
					collect(v)
				}
			case *ast.CallExpr:
				if fn, ok := id.Fun.(*ast.Ident); ok && followCalls {
					if callee, ok := pkgFuncs[fn.Name]; ok {
						collect(callee.Body)
						ast.Inspect(callee.Body, func(y ast.Node) bool {
							if i2, ok := y.(*ast.Ident); ok {
								for _, v := range pkgVals[i2.Name] {
									collect(v)
								}
							}
							return true
						})
					}
				}
			}
			return true
		})
	}
	visitBody(fd.Body, true)
	if len(cands) != 1 {
		return nil, fmt.Errorf("estimatedFinalTx: expected exactly one dummy unlocking script (hex literal of >= 100 digits in the function, in a package-level const/var it names, or in a package function it calls), found %d", len(cands))
	}
	// the function must still install an unlocking script somewhere
	assigns := 0
	ast.Inspect(fd.Body, func(n ast.Node) bool {
		if as, ok := n.(*ast.AssignStmt); ok {
			for _, l := range as.Lhs {
				if sel, ok := l.(*ast.SelectorExpr); ok && sel.Sel.Name == "UnlockingScript" {
					assigns++
				}
			}
		}
		return true
	})
	if assigns == 0 {
		return nil, fmt.Errorf("estimatedFinalTx: no assignment to an UnlockingScript field")
	}
	var lit string
	for k := range cands {
		lit = k
	}
	b, err := hex.DecodeString(lit)
	if err != nil {
		return nil, fmt.Errorf("estimatedFinalTx: dummy unlocking script literal is not valid hex: %v", err)
	}
	return b, nil
}

func isSel(e ast.Expr, pkg, name string) bool {
	s, ok := e.(*ast.SelectorExpr)
	if !ok || s.Sel.Name != name {
		return false
	}
	id, ok := s.X.(*ast.Ident)
	return ok && id.Name == pkg
}

// miningFee reads the MiningFee{Satoshis, Bytes} of the Fee that fn returns. Accepted shapes: the function body (or the
// initialiser of a package-level var the function names) contains exactly ONE composite literal of type Fee (with or
// without &), whose MiningFee field is a FeeUnit literal with integer literals. Anything else is an error. (Whether the
// object is fresh per call is not this table's business: gen/Globals.v reports a package-level Fee that is handed out.)
func miningFee(fset *token.FileSet, f *ast.File, fn string) (sat, byts uint64, err error) {
	fd, err := funcDecl(f, fn)
	if err != nil {
		return 0, 0, err
	}
	var lits []*ast.CompositeLit
	collect := func(n ast.Node) {
		ast.Inspect(n, func(x ast.Node) bool {
			if cl, ok := x.(*ast.CompositeLit); ok {
				if id, ok := cl.Type.(*ast.Ident); ok && id.Name == "Fee" {
					lits = append(lits, cl)
				}
			}
			return true
		})
	}
	collect(fd.Body)
	pkgVals := map[string][]ast.Expr{}
	for _, d := range f.Decls {
		if gd, ok := d.(*ast.GenDecl); ok && gd.Tok == token.VAR {
			for _, sp := range gd.Specs {
				vs := sp.(*ast.ValueSpec)
				for i, n := range vs.Names {
					if i < len(vs.Values) {
						pkgVals[n.Name] = append(pkgVals[n.Name], vs.Values[i])
					}
				}
			}
		}
	}
	ast.Inspect(fd.Body, func(x ast.Node) bool {
		if id, ok := x.(*ast.Ident); ok {
			for _, v := range pkgVals[id.Name] {
				collect(v)
			}
		}
		return true
	})
	if len(lits) != 1 {
		return 0, 0, fmt.Errorf("%s: expected exactly one Fee{...} literal (in the function or in a package-level var it names), found %d", fn, len(lits))
	}
	cl := lits[0]
	seen := false
	for _, el := range cl.Elts {
		kv, ok := el.(*ast.KeyValueExpr)
		if !ok {
			return 0, 0, fmt.Errorf("%s: Fee literal without field names", fn)
		}
		k, ok := kv.Key.(*ast.Ident)
		if !ok {
			return 0, 0, fmt.Errorf("%s: unexpected key", fn)
		}
		if k.Name != "MiningFee" {
			continue
		}
		if seen {
			return 0, 0, fmt.Errorf("%s: MiningFee given twice", fn)
		}
		seen = true
		fu, ok := kv.Value.(*ast.CompositeLit)
		if !ok {
			return 0, 0, fmt.Errorf("%s: MiningFee is not a literal", fn)
		}
		if id, ok := fu.Type.(*ast.Ident); !ok || id.Name != "FeeUnit" {
			return 0, 0, fmt.Errorf("%s: MiningFee is not a FeeUnit literal", fn)
		}
		got := map[string]uint64{}
		for _, e2 := range fu.Elts {
			kv2, ok := e2.(*ast.KeyValueExpr)
			if !ok {
				return 0, 0, fmt.Errorf("%s: FeeUnit literal without field names", fn)
			}
			k2, ok := kv2.Key.(*ast.Ident)
			if !ok {
				return 0, 0, fmt.Errorf("%s: unexpected FeeUnit key", fn)
			}
			bl, ok := kv2.Value.(*ast.BasicLit)
			if !ok || bl.Kind != token.INT {
				return 0, 0, fmt.Errorf("%s: FeeUnit.%s is not an integer literal", fn, k2.Name)
			}
			v, exact := constant.Uint64Val(constant.MakeFromLiteral(bl.Value, token.INT, 0))
			if !exact {
				return 0, 0, fmt.Errorf("%s: FeeUnit.%s does not fit uint64", fn, k2.Name)
			}
			if _, dup := got[k2.Name]; dup {
				return 0, 0, fmt.Errorf("%s: FeeUnit.%s given twice", fn, k2.Name)
			}
			got[k2.Name] = v
		}
		var ok1, ok2 bool
		sat, ok1 = got["Satoshis"]
		byts, ok2 = got["Bytes"]
		if len(got) != 2 || !ok1 || !ok2 {
			return 0, 0, fmt.Errorf("%s: FeeUnit literal must give exactly Satoshis and Bytes", fn)
		}
	}
	if !seen {
		return 0, 0, fmt.Errorf("%s: no MiningFee field", fn)
	}
	return sat, byts, nil
}

func coqByteList(b []byte) string {
	var sb strings.Builder
	sb.WriteString("[")
	for i, x := range b {
		if i > 0 {
			sb.WriteString("; ")
			if i%16 == 0 {
				sb.WriteString("\n   ")
			}
		}
		fmt.Fprintf(&sb, "x%02x", x)
	}
	sb.WriteString("]")
	return sb.String()
}

func genConsts(repo string) (string, error) {
	fs1, f1, err := ParseFile(repo, "txchange.go")
	if err != nil {
		return "", err
	}
	dust, err := constLit(fs1, f1, "DustLimit", "")
	if err != nil {
		return "", err
	}
	fs2, f2, err := ParseFile(repo, "input.go")
	if err != nil {
		return "", err
	}
	seq, err := constLit(fs2, f2, "DefaultSequenceNumber", "uint32")
	if err != nil {
		return "", err
	}
	fs3, f3, err := ParseFile(repo, "tx.go")
	if err != nil {
		return "", err
	}
	var btFiles []*ast.File
	for _, rel := range []string{"tx.go", "txinput.go", "txoutput.go", "txchange.go", "input.go", "output.go", "fees.go", "bytemanipulation.go"} {
		if _, pf, e := ParseFile(repo, rel); e == nil {
			btFiles = append(btFiles, pf)
		}
	}
	dummy, err := dummyScript(fs3, f3, btFiles)
	if err != nil {
		return "", err
	}
	fs4, f4, err := ParseFile(repo, "fees.go")
	if err != nil {
		return "", err
	}
	ss, sb, err := miningFee(fs4, f4, "defaultStandardFee")
	if err != nil {
		return "", err
	}
	ds, db, err := miningFee(fs4, f4, "defaultDataFee")
	if err != nil {
		return "", err
	}
	var o strings.Builder
	o.WriteString(Header)
	o.WriteString("(* txchange.go DustLimit; input.go DefaultSequenceNumber; tx.go estimatedFinalTx dummy unlocking script;\n   fees.go defaultStandardFee / defaultDataFee mining fee units. *)\n")
	o.WriteString("From Coq Require Import List NArith.\nFrom Coq Require Import Strings.Byte.\nImport ListNotations.\nLocal Open Scope N_scope.\n\n")
	fmt.Fprintf(&o, "Definition dust_limit : N := %d.\n", dust)
	fmt.Fprintf(&o, "Definition default_sequence_number : N := %d.\n", seq)
	fmt.Fprintf(&o, "Definition dummy_unlocking_script : list byte :=\n  %s.\n", coqByteList(dummy))
	fmt.Fprintf(&o, "(* len of the literal as counted by the translator; proofs/FeesProofs.v re-derives it from the bytes *)\nDefinition dummy_unlocking_script_len : N := %d.\n", len(dummy))
	fmt.Fprintf(&o, "Definition default_std_fee_sat : N := %d.\nDefinition default_std_fee_bytes : N := %d.\n", ss, sb)
	fmt.Fprintf(&o, "Definition default_data_fee_sat : N := %d.\nDefinition default_data_fee_bytes : N := %d.\n", ds, db)
	return o.String(), nil
}
