package gen

// Translator part for C10/C11/C12: the numeric constants and the dummy unlocking script the fee /
// change / funding model depends on, read from the Go source as literals (no semantics):
//
//	txchange.go  const DustLimit
//	input.go     const DefaultSequenceNumber
//	tx.go        the hex literal decoded inside (*Tx).estimatedFinalTx (dummy P2PKH unlocking script)
//	fees.go      MiningFee{Satoshis,Bytes} of defaultStandardFee() / defaultDataFee()
//
// Any AST shape other than the ones spelled out here is an error (fail closed).

import (
	"encoding/hex"
	"fmt"
	"go/ast"
	"go/constant"
	"go/token"
	"strconv"
	"strings"
)

func init() { Register("Consts.v", genConsts) }

// constLit finds `const name [type] = <integer literal>` at package level.
func constLit(fset *token.FileSet, f *ast.File, name, wantType string) (uint64, error) {
	found := false
	var val uint64
	for _, d := range f.Decls {
		gd, ok := d.(*ast.GenDecl)
		if !ok || gd.Tok != token.CONST {
			continue
		}
		for _, sp := range gd.Specs {
			vs, ok := sp.(*ast.ValueSpec)
			if !ok {
				return 0, fmt.Errorf("%s: const spec of unexpected kind", fset.Position(sp.Pos()))
			}
			for i, n := range vs.Names {
				if n.Name != name {
					continue
				}
				if found {
					return 0, fmt.Errorf("%s: constant %s declared twice", fset.Position(vs.Pos()), name)
				}
				if len(vs.Values) != len(vs.Names) {
					return 0, fmt.Errorf("%s: constant %s has no value of its own (iota?)", fset.Position(vs.Pos()), name)
				}
				if wantType == "" {
					if vs.Type != nil {
						return 0, fmt.Errorf("%s: constant %s is expected to be untyped", fset.Position(vs.Pos()), name)
					}
				} else {
					ty, ok := vs.Type.(*ast.Ident)
					if !ok || ty.Name != wantType {
						return 0, fmt.Errorf("%s: constant %s is not declared %s", fset.Position(vs.Pos()), name, wantType)
					}
				}
				lit, ok := vs.Values[i].(*ast.BasicLit)
				if !ok || lit.Kind != token.INT {
					return 0, fmt.Errorf("%s: constant %s is not an integer literal", fset.Position(vs.Pos()), name)
				}
				v, exact := constant.Uint64Val(constant.MakeFromLiteral(lit.Value, token.INT, 0))
				if !exact {
					return 0, fmt.Errorf("%s: constant %s does not fit uint64", fset.Position(vs.Pos()), name)
				}
				val, found = v, true
			}
		}
	}
	if !found {
		return 0, fmt.Errorf("constant %s not found", name)
	}
	return val, nil
}

// funcDecl finds the (method or function) declaration called name.
func funcDecl(f *ast.File, name string) (*ast.FuncDecl, error) {
	var found *ast.FuncDecl
	for _, d := range f.Decls {
		if fd, ok := d.(*ast.FuncDecl); ok && fd.Name.Name == name {
			if found != nil {
				return nil, fmt.Errorf("function %s declared twice", name)
			}
			found = fd
		}
	}
	if found == nil || found.Body == nil {
		return nil, fmt.Errorf("function %s not found", name)
	}
	return found, nil
}

// dummyScript: inside estimatedFinalTx there must be exactly one call hex.DecodeString("<literal>"),
// it must be the right-hand side of `dummyUnlockingScript, _ := ...`, and that variable must be what
// bscript.NewFromBytes(...) is applied to when assigning in.UnlockingScript.
func dummyScript(fset *token.FileSet, f *ast.File) ([]byte, error) {
	fd, err := funcDecl(f, "estimatedFinalTx")
	if err != nil {
		return nil, err
	}
	var lits []string
	var lhs []string
	var bad error
	ast.Inspect(fd.Body, func(n ast.Node) bool {
		as, ok := n.(*ast.AssignStmt)
		if ok && len(as.Rhs) == 1 {
			if call, ok := as.Rhs[0].(*ast.CallExpr); ok && isSel(call.Fun, "hex", "DecodeString") {
				if len(call.Args) != 1 {
					bad = fmt.Errorf("%s: hex.DecodeString with %d arguments", fset.Position(call.Pos()), len(call.Args))
					return false
				}
				bl, ok := call.Args[0].(*ast.BasicLit)
				if !ok || bl.Kind != token.STRING {
					bad = fmt.Errorf("%s: the dummy unlocking script is not a string literal", fset.Position(call.Pos()))
					return false
				}
				s, err := strconv.Unquote(bl.Value)
				if err != nil {
					bad = err
					return false
				}
				lits = append(lits, s)
				if len(as.Lhs) != 2 {
					bad = fmt.Errorf("%s: expected `v, _ := hex.DecodeString(...)`", fset.Position(as.Pos()))
					return false
				}
				id, ok := as.Lhs[0].(*ast.Ident)
				if !ok {
					bad = fmt.Errorf("%s: expected an identifier on the left", fset.Position(as.Pos()))
					return false
				}
				lhs = append(lhs, id.Name)
			}
		}
		return true
	})
	if bad != nil {
		return nil, bad
	}
	if len(lits) != 1 {
		return nil, fmt.Errorf("estimatedFinalTx: expected exactly one hex.DecodeString(\"...\") literal, found %d", len(lits))
	}
	// the decoded variable is what becomes the unlocking script
	used := 0
	ast.Inspect(fd.Body, func(n ast.Node) bool {
		as, ok := n.(*ast.AssignStmt)
		if !ok || len(as.Lhs) != 1 || len(as.Rhs) != 1 {
			return true
		}
		sel, ok := as.Lhs[0].(*ast.SelectorExpr)
		if !ok || sel.Sel.Name != "UnlockingScript" {
			return true
		}
		call, ok := as.Rhs[0].(*ast.CallExpr)
		if !ok || !isSel(call.Fun, "bscript", "NewFromBytes") || len(call.Args) != 1 {
			bad = fmt.Errorf("%s: UnlockingScript is assigned something other than bscript.NewFromBytes(v)", fset.Position(as.Pos()))
			return false
		}
		id, ok := call.Args[0].(*ast.Ident)
		if !ok || id.Name != lhs[0] {
			bad = fmt.Errorf("%s: UnlockingScript is not built from the decoded dummy literal", fset.Position(as.Pos()))
			return false
		}
		used++
		return true
	})
	if bad != nil {
		return nil, bad
	}
	if used != 1 {
		return nil, fmt.Errorf("estimatedFinalTx: expected exactly one assignment to UnlockingScript, found %d", used)
	}
	b, err := hex.DecodeString(lits[0])
	if err != nil {
		return nil, fmt.Errorf("estimatedFinalTx: dummy unlocking script literal is not valid hex: %v", err)
	}
	return b, nil
}

func isSel(e ast.Expr, pkg, name string) bool {
	s, ok := e.(*ast.SelectorExpr)
	if !ok || s.Sel.Name != name {
		return false
	}
	id, ok := s.X.(*ast.Ident)
	return ok && id.Name == pkg
}

// miningFee reads `return &Fee{ ..., MiningFee: FeeUnit{Satoshis: <int>, Bytes: <int>}, ... }` of fn.
func miningFee(fset *token.FileSet, f *ast.File, fn string) (sat, byts uint64, err error) {
	fd, err := funcDecl(f, fn)
	if err != nil {
		return 0, 0, err
	}
	if len(fd.Body.List) != 1 {
		return 0, 0, fmt.Errorf("%s: expected a single return statement", fn)
	}
	rs, ok := fd.Body.List[0].(*ast.ReturnStmt)
	if !ok || len(rs.Results) != 1 {
		return 0, 0, fmt.Errorf("%s: expected `return &Fee{...}`", fn)
	}
	un, ok := rs.Results[0].(*ast.UnaryExpr)
	if !ok || un.Op != token.AND {
		return 0, 0, fmt.Errorf("%s: expected `return &Fee{...}`", fn)
	}
	cl, ok := un.X.(*ast.CompositeLit)
	if !ok {
		return 0, 0, fmt.Errorf("%s: expected a composite literal", fn)
	}
	if id, ok := cl.Type.(*ast.Ident); !ok || id.Name != "Fee" {
		return 0, 0, fmt.Errorf("%s: expected a Fee literal", fn)
	}
	seen := false
	for _, el := range cl.Elts {
		kv, ok := el.(*ast.KeyValueExpr)
		if !ok {
			return 0, 0, fmt.Errorf("%s: Fee literal without field names", fn)
		}
		k, ok := kv.Key.(*ast.Ident)
		if !ok {
			return 0, 0, fmt.Errorf("%s: unexpected key", fn)
		}
		if k.Name != "MiningFee" {
			continue
		}
		if seen {
			return 0, 0, fmt.Errorf("%s: MiningFee given twice", fn)
		}
		seen = true
		fu, ok := kv.Value.(*ast.CompositeLit)
		if !ok {
			return 0, 0, fmt.Errorf("%s: MiningFee is not a literal", fn)
		}
		if id, ok := fu.Type.(*ast.Ident); !ok || id.Name != "FeeUnit" {
			return 0, 0, fmt.Errorf("%s: MiningFee is not a FeeUnit literal", fn)
		}
		got := map[string]uint64{}
		for _, e2 := range fu.Elts {
			kv2, ok := e2.(*ast.KeyValueExpr)
			if !ok {
				return 0, 0, fmt.Errorf("%s: FeeUnit literal without field names", fn)
			}
			k2, ok := kv2.Key.(*ast.Ident)
			if !ok {
				return 0, 0, fmt.Errorf("%s: unexpected FeeUnit key", fn)
			}
			bl, ok := kv2.Value.(*ast.BasicLit)
			if !ok || bl.Kind != token.INT {
				return 0, 0, fmt.Errorf("%s: FeeUnit.%s is not an integer literal", fn, k2.Name)
			}
			v, exact := constant.Uint64Val(constant.MakeFromLiteral(bl.Value, token.INT, 0))
			if !exact {
				return 0, 0, fmt.Errorf("%s: FeeUnit.%s does not fit uint64", fn, k2.Name)
			}
			if _, dup := got[k2.Name]; dup {
				return 0, 0, fmt.Errorf("%s: FeeUnit.%s given twice", fn, k2.Name)
			}
			got[k2.Name] = v
		}
		if len(got) != 2 {
			return 0, 0, fmt.Errorf("%s: FeeUnit literal must give exactly Satoshis and Bytes", fn)
		}
		var ok1, ok2 bool
		sat, ok1 = got["Satoshis"]
		byts, ok2 = got["Bytes"]
		if !ok1 || !ok2 {
			return 0, 0, fmt.Errorf("%s: FeeUnit literal must give Satoshis and Bytes", fn)
		}
	}
	if !seen {
		return 0, 0, fmt.Errorf("%s: no MiningFee field", fn)
	}
	return sat, byts, nil
}

func coqByteList(b []byte) string {
	var sb strings.Builder
	sb.WriteString("[")
	for i, x := range b {
		if i > 0 {
			sb.WriteString("; ")
			if i%16 == 0 {
				sb.WriteString("\n   ")
			}
		}
		fmt.Fprintf(&sb, "x%02x", x)
	}
	sb.WriteString("]")
	return sb.String()
}

func genConsts(repo string) (string, error) {
	fs1, f1, err := ParseFile(repo, "txchange.go")
	if err != nil {
		return "", err
	}
	dust, err := constLit(fs1, f1, "DustLimit", "")
	if err != nil {
		return "", err
	}
	fs2, f2, err := ParseFile(repo, "input.go")
	if err != nil {
		return "", err
	}
	seq, err := constLit(fs2, f2, "DefaultSequenceNumber", "uint32")
	if err != nil {
		return "", err
	}
	fs3, f3, err := ParseFile(repo, "tx.go")
	if err != nil {
		return "", err
	}
	dummy, err := dummyScript(fs3, f3)
	if err != nil {
		return "", err
	}
	fs4, f4, err := ParseFile(repo, "fees.go")
	if err != nil {
		return "", err
	}
	ss, sb, err := miningFee(fs4, f4, "defaultStandardFee")
	if err != nil {
		return "", err
	}
	ds, db, err := miningFee(fs4, f4, "defaultDataFee")
	if err != nil {
		return "", err
	}
	var o strings.Builder
	o.WriteString(Header)
	o.WriteString("(* txchange.go DustLimit; input.go DefaultSequenceNumber; tx.go estimatedFinalTx dummy unlocking script;\n   fees.go defaultStandardFee / defaultDataFee mining fee units. *)\n")
	o.WriteString("From Coq Require Import List NArith.\nFrom Coq Require Import Strings.Byte.\nImport ListNotations.\nLocal Open Scope N_scope.\n\n")
	fmt.Fprintf(&o, "Definition dust_limit : N := %d.\n", dust)
	fmt.Fprintf(&o, "Definition default_sequence_number : N := %d.\n", seq)
	fmt.Fprintf(&o, "Definition dummy_unlocking_script : list byte :=\n  %s.\n", coqByteList(dummy))
	fmt.Fprintf(&o, "(* len of the literal as counted by the translator; proofs/FeesProofs.v re-derives it from the bytes *)\nDefinition dummy_unlocking_script_len : N := %d.\n", len(dummy))
	fmt.Fprintf(&o, "Definition default_std_fee_sat : N := %d.\nDefinition default_std_fee_bytes : N := %d.\n", ss, sb)
	fmt.Fprintf(&o, "Definition default_data_fee_sat : N := %d.\nDefinition default_data_fee_bytes : N := %d.\n", ds, db)
	return o.String(), nil
}
