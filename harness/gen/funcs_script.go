package gen

// The push-data codec (bscript/oppushdata.go) and the script classifiers (bscript/script.go) under the function-body
// translator.  What is added to funcs_expr.go / funcs_stmt.go / funcs_interp.go:
//
//   - `for len(b) > 0 { ... }` (also `len(b) != 0`, `0 < len(b)`, `len(b) >= c`) for a local slice b that the body
//     assigns only by re-slicing it (`b = b[k:]`, `b = b[i:j]`): GoSem.go_for without a post statement, with fuel
//     `S (length b)` at loop entry (every re-slicing that changes b shortens it; the equivalence proofs show that the fuel
//     suffices, NoFuel is an outcome like any other).
//   - [][]byte as a parameter, as a `var r [][]byte`, as `[][]byte{a, b}`, and in `for i, part := range parts`.
//   - `[]int{c1, ..., ck}` as a `list Z`.
//   - Go strings as the bytes they hold (kind fkString, Gallina type `bytes`): string constants are printed as explicit
//     byte lists (UTF-8, the bytes go/constant holds).  Only constants and results: conversions, comparisons and
//     concatenations of strings are refused.
//   - `*s = e` for a pointer-to-named-byte-slice receiver whose target is in the declared state (`*s`): the target is a
//     parameter of the printed definition and is returned with the results (funcs_interp.go: STATE).
//   - a lookup in a package-level map (`opCodeValues[o]`) as an argument of an error constructor is left out: the
//     message is not modelled and a map lookup cannot panic.
//
// No trusted mapping is added: everything these functions call is itself printed (PushDataPrefix, EncodeParts,
// DecodeParts, IsData, IsP2PKH, isSmallIntOp, ...).

import (
	"fmt"
	"go/ast"
	"go/constant"
	"go/token"
	"go/types"
	"strings"
)

var fnScriptFile = "bscript/script.go"

// The functions of package bscript that are translated here; printed after the functions of funcs.go (they call
// PushDataPrefix, Script.IsP2PKH, Script.IsData, isSmallIntOp), in this order (callees first).
var fnScriptList = []fnSpec{
	{Coq: "EncodeParts", File: "bscript/oppushdata.go", Name: "EncodeParts", Props: []string{"C13", "C20", "C04"}},
	{Coq: "DecodeParts", File: "bscript/oppushdata.go", Name: "DecodeParts", Props: []string{"C13", "C14", "C16", "C20", "C04", "C10", "C11", "C12", "C15"}},
	{Coq: "Script_IsP2PK", File: fnScriptFile, Recv: "Script", Name: "IsP2PK", Fields: []string{"*s"}, Props: []string{"C14"}},
	{Coq: "Script_IsMultiSigOut", File: fnScriptFile, Recv: "Script", Name: "IsMultiSigOut", Fields: []string{"*s"}, Props: []string{"C14"}},
	{Coq: "isP2PKHInscriptionHelper", File: fnScriptFile, Name: "isP2PKHInscriptionHelper", Props: []string{"C14", "C20", "C04", "C10", "C11", "C12"}},
	{Coq: "Script_IsP2PKHInscription", File: fnScriptFile, Recv: "Script", Name: "IsP2PKHInscription", Fields: []string{"*s"}, Props: []string{"C14", "C20", "C04", "C10", "C11", "C12"}},
	{Coq: "Script_ScriptType", File: fnScriptFile, Recv: "Script", Name: "ScriptType", Fields: []string{"*s"}, Props: []string{"C14", "C16", "C04"}},
	{Coq: "Script_PublicKeyHash", File: fnScriptFile, Recv: "Script", Name: "PublicKeyHash", Props: []string{"C14", "C16", "C15"}},
	// the script builders: the receiver's target is state (`*s = append(*s, ...)`)
	{Coq: "Script_AppendPushData", File: fnScriptFile, Recv: "Script", Name: "AppendPushData", State: []string{"*s"}, Props: []string{"C20"}},
	{Coq: "Script_AppendPushDataArray", File: fnScriptFile, Recv: "Script", Name: "AppendPushDataArray", State: []string{"*s"}, Props: []string{"C20"}},
	{Coq: "Script_AppendOpcodes", File: fnScriptFile, Recv: "Script", Name: "AppendOpcodes", State: []string{"*s"}, Props: []string{"C20"}},
}

func init() { fnList = append(fnList, fnScriptList...) }

// stringConst: a constant of a string type, as the list of its bytes.
func (t *fnTr) stringConst(e ast.Expr, v constant.Value) fnVal {
	s := constant.StringVal(v)
	return fnVal{s: fnByteList([]byte(s)), pure: true, ty: fnType{k: fkString}}
}

func fnByteList(b []byte) string {
	ps := make([]string, len(b))
	for i, c := range b {
		ps[i] = fmt.Sprintf("x%02x", c)
	}
	return "[" + strings.Join(ps, "; ") + "]"
}

// scriptLiteral: []int{...} and [][]byte{...}.
func (t *fnTr) scriptLiteral(x *ast.CompositeLit, ty fnType) (fnVal, bool) {
	if ty.k != fkInts && ty.k != fkStack {
		return fnVal{}, false
	}
	var args []fnVal
	for _, el := range x.Elts {
		if _, kv := el.(*ast.KeyValueExpr); kv {
			t.fail(x, "keyed slice literal")
		}
		v := t.expr(el)
		if ty.k == fkInts {
			if v.ty.k != fkInt {
				t.fail(el, "non-integer element")
			}
			if tv, ok := t.pkg.info.Types[el]; !ok || tv.Value == nil {
				t.fail(el, "element of a []int literal that is not a constant")
			}
		} else {
			v = t.coerce(el, v, fnType{k: fkBytes, ity: "U8"})
			t.escape(v)
		}
		args = append(args, v)
	}
	r := t.seq(args, func(ts []string) fnVal {
		return fnVal{s: "[" + strings.Join(ts, "; ") + "]", pure: true, ty: ty}
	})
	r.fresh = true
	return r, true
}

// lenCondVar: cond is a comparison of len(v), v a local slice variable, with a constant that bounds the length from
// below: len(v) > c, len(v) >= c, len(v) != 0, c < len(v), c <= len(v), 0 != len(v).
func (t *fnTr) lenCondVar(cond ast.Expr) *ast.Ident {
	be, ok := cond.(*ast.BinaryExpr)
	if !ok {
		return nil
	}
	x, y, op := be.X, be.Y, be.Op
	isConst := func(e ast.Expr) bool {
		tv, ok := t.pkg.info.Types[e]
		return ok && tv.Value != nil && tv.Value.Kind() == constant.Int
	}
	if isConst(x) {
		x, y = y, x
		switch op {
		case token.LSS:
			op = token.GTR
		case token.LEQ:
			op = token.GEQ
		case token.NEQ:
		default:
			return nil
		}
	}
	if !isConst(y) || (op != token.GTR && op != token.GEQ && op != token.NEQ) {
		return nil
	}
	if op == token.NEQ {
		if z, exact := constant.Int64Val(t.pkg.info.Types[y].Value); !exact || z != 0 {
			return nil
		}
	}
	c, ok := x.(*ast.CallExpr)
	if !ok || len(c.Args) != 1 {
		return nil
	}
	if id, ok := c.Fun.(*ast.Ident); !ok || id.Name != "len" || t.pkg.info.Uses[id] == nil || t.pkg.info.Uses[id].Pkg() != nil {
		return nil
	}
	v, ok := c.Args[0].(*ast.Ident)
	if !ok {
		return nil
	}
	return v
}

// whileLen: `for len(b) > 0 { ... b = b[k:] ... }`.
func (t *fnTr) whileLen(x *ast.ForStmt, k func() string) (string, bool) {
	v := t.lenCondVar(x.Cond)
	if v == nil {
		return "", false
	}
	obj := t.pkg.info.Uses[v]
	vr := t.vars[obj]
	if obj == nil || vr == nil || (vr.ty.k != fkBytes && vr.ty.k != fkInts && vr.ty.k != fkStack) {
		return "", false
	}
	// the body changes b only by re-slicing it
	assignedHere := false
	ast.Inspect(x.Body, func(n ast.Node) bool {
		switch y := n.(type) {
		case *ast.AssignStmt:
			for i, l := range y.Lhs {
				target := l
				if ix, ok := l.(*ast.IndexExpr); ok {
					target = ix.X
				}
				id, ok := target.(*ast.Ident)
				if !ok || (t.pkg.info.Uses[id] != obj && t.pkg.info.Defs[id] != obj) {
					continue
				}
				se, isSlice := (ast.Expr)(nil), false
				if len(y.Lhs) == len(y.Rhs) {
					if s, ok := y.Rhs[i].(*ast.SliceExpr); ok && !s.Slice3 {
						if sid, ok := s.X.(*ast.Ident); ok && t.pkg.info.Uses[sid] == obj {
							se, isSlice = s, true
						}
					}
				}
				_ = se
				if target != l || y.Tok != token.ASSIGN || !isSlice {
					t.fail(y, "the loop `for len(%s) ... ` assigns %s other than by re-slicing it", v.Name, v.Name)
				}
				assignedHere = true
			}
		case *ast.IncDecStmt, *ast.RangeStmt:
		}
		return true
	})
	if !assignedHere {
		t.fail(x, "the loop `for len(%s) ...` never re-slices %s (no bound for the number of iterations)", v.Name, v.Name)
	}
	fuel := t.temp()
	head := "let " + fuel + " := Datatypes.S (List.length " + vr.name + ") in" + t.nl()
	state := t.assigned(x.Body)
	value, binder, _ := t.tuple(state)
	c := t.expr(x.Cond)
	if c.ty.k != fkBool {
		t.fail(x, "non-boolean condition")
	}
	body := t.loopBody(x, x.Body, state)
	loop := "go_for " + fuel + " " + value + t.nl() + "  (fun " + binder + " => " + c.asM() + ")" + t.nl() + "  (fun " + binder + " =>" + t.nl() +
		"    " + body + ")" + t.nl() + "  (fun " + binder + " => Val " + value + ")"
	return head + t.afterLoop(loop, state, k), true
}

// isDerefTarget: `*s` as the target of an assignment, for a declared state path.
func (t *fnTr) isDerefTarget(e ast.Expr) bool {
	if _, ok := e.(*ast.StarExpr); !ok {
		return false
	}
	p, ok := t.fieldPath(e)
	return ok && t.isState(p)
}

// isTableLookup: <package-level map>[v] for a variable v, an argument of an error message: a map lookup does not panic.
func (t *fnTr) isTableLookup(e ast.Expr) bool {
	ix, ok := e.(*ast.IndexExpr)
	if !ok {
		return false
	}
	id, ok := ix.X.(*ast.Ident)
	if !ok {
		return false
	}
	v, ok := t.pkg.info.Uses[id].(*types.Var)
	if !ok || v.Parent() != t.pkg.pkg.Scope() {
		return false
	}
	if _, isMap := v.Type().Underlying().(*types.Map); !isMap {
		return false
	}
	_, isPath := t.fieldPath(ix.Index)
	return isPath
}
