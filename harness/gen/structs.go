package gen

// Translator part: the STATE INVENTORY. Every struct type declared in the library's packages is emitted with its
// fields (name, type as written) into coq/gen/Structs.v. coq/model/StateInventory.v holds, per property, the
// struct definitions the hand-written model records were written against; Properties/Cxx.v proves (by computation
// on the regenerated table) that the two agree. A field added to bt.Tx to memoise a digest, a cache in a JSON
// wrapper, a remembered number in the interpreter's stack: each is state the model does not have, and the
// theorem about the regenerated table stops checking. Plain data, no semantics; fails closed on unparsable files.

import (
	"fmt"
	"go/ast"
	"go/parser"
	"go/token"
	"go/types"
	"os"
	"path/filepath"
	"sort"
	"strings"
)

func init() { Register("Structs.v", genStructs) }

var structPackages = []struct{ dir, name string }{
	{".", "bt"},
	{"bscript", "bscript"},
	{"bscript/interpreter", "interpreter"},
	{"bscript/interpreter/debug", "debug"},
	{"bscript/interpreter/errs", "errs"},
	{"bscript/interpreter/scriptflag", "scriptflag"},
	{"sighash", "sighash"},
	{"unlocker", "unlocker"},
	{"ord", "ord"},
}

type StructDef struct {
	Pkg, Name string
	Fields    [][2]string
}

func coqString(s string) string { return strings.ReplaceAll(s, "\"", "\"\"") }

// StructTable lists every package-level struct type (source order within a file, files sorted) of the packages above.
// Files of this framework's own hooks (verif_*.go, build tag verif) are not part of the library and are skipped.
func StructTable(repo string) ([]StructDef, error) {
	var out []StructDef
	fset := token.NewFileSet()
	for _, p := range structPackages {
		dir := filepath.Join(repo, p.dir)
		ents, err := os.ReadDir(dir)
		if err != nil {
			return nil, err
		}
		var names []string
		for _, en := range ents {
			n := en.Name()
			if en.IsDir() || !strings.HasSuffix(n, ".go") || strings.HasSuffix(n, "_test.go") || strings.HasPrefix(n, "verif_") {
				continue
			}
			names = append(names, n)
		}
		sort.Strings(names)
		var defs []StructDef
		for _, n := range names {
			f, err := parser.ParseFile(fset, filepath.Join(dir, n), nil, 0)
			if err != nil {
				return nil, fmt.Errorf("parse %s/%s: %w", p.dir, n, err)
			}
			if f.Name.Name != p.name {
				continue // e.g. package main helpers
			}
			for _, d := range f.Decls {
				gd, ok := d.(*ast.GenDecl)
				if !ok || gd.Tok != token.TYPE {
					continue
				}
				for _, sp := range gd.Specs {
					ts := sp.(*ast.TypeSpec)
					st, ok := ts.Type.(*ast.StructType)
					if !ok {
						continue
					}
					sd := StructDef{Pkg: p.name, Name: ts.Name.Name}
					for _, fl := range st.Fields.List {
						ty := types.ExprString(fl.Type)
						if len(fl.Names) == 0 {
							sd.Fields = append(sd.Fields, [2]string{"(embedded)", ty})
						}
						for _, nm := range fl.Names {
							sd.Fields = append(sd.Fields, [2]string{nm.Name, ty})
						}
					}
					defs = append(defs, sd)
				}
			}
		}
		sort.SliceStable(defs, func(i, j int) bool { return defs[i].Name < defs[j].Name })
		out = append(out, defs...)
	}
	if len(out) == 0 {
		return nil, fmt.Errorf("no struct types found")
	}
	return out, nil
}

func genStructs(repo string) (string, error) {
	defs, err := StructTable(repo)
	if err != nil {
		return "", err
	}
	var sb strings.Builder
	sb.WriteString(Header)
	sb.WriteString("(* State inventory: every struct type of the library's packages as (package, type, [(field, type as written)]);\n" +
		"   embedded fields are named \"(embedded)\". Field order is the source order (it is the memory layout and the\n" +
		"   order of encoding/json); types are sorted by name within a package. Plain data. *)\n")
	sb.WriteString("From Coq Require Import List String.\nImport ListNotations.\nLocal Open Scope string_scope.\n\n")
	sb.WriteString("Definition structs : list (string * string * list (string * string)) := [\n")
	for i, d := range defs {
		fmt.Fprintf(&sb, "  (\"%s\", \"%s\", [", d.Pkg, d.Name)
		for j, f := range d.Fields {
			if j > 0 {
				sb.WriteString("; ")
			}
			fmt.Fprintf(&sb, "(\"%s\", \"%s\")", coqString(f[0]), coqString(f[1]))
		}
		sb.WriteString("])")
		if i < len(defs)-1 {
			sb.WriteString(";")
		}
		sb.WriteString("\n")
	}
	sb.WriteString("].\n")
	return sb.String(), nil
}
