package gen

// Statements of the function-body translator, in continuation-passing style: stmt(s, k) prints s followed by
// whatever k prints for "the rest of the block".  After an `if` or `switch` the rest is printed once per branch
// (no join points, so no invented tuples of variables); `x := e` and `x = e` are `let` / `bind` binders, the Coq
// name of a Go variable is fixed per declaration (v_<name>, v_<name>_1 for a second declaration of the same name).
// Loops: `for k, x := range xs` is GoSem.go_range (structural recursion on xs), a three-clause loop over an integer
// variable that is compared with a bound and stepped by ++ / -- is GoSem.go_for with fuel = the distance to the
// bound at loop entry.  The variables a loop body assigns are threaded through as a tuple.
//
// In-place writes (x[i] = v, x[i] op= v, binary.LittleEndian.PutUintN(x, v) / PutUintN(x[a:b], v)) are accepted only
// when x is a local []byte that was allocated in this function (make, literal, append onto such) and has not been
// copied into, or sliced into, another variable on the path so far — then no alias exists and re-binding x is exact.

import (
	"go/ast"
	"go/token"
	"go/types"
	"sort"
	"strings"
)

func (t *fnTr) nl() string { return "\n" + strings.Repeat("  ", t.ind+1) }

type fnSnap struct {
	vars map[interface{}]*fnVar
	dead map[int]bool
}

func (t *fnTr) snapshot() fnSnap {
	m := make(map[interface{}]*fnVar, len(t.vars))
	for k, v := range t.vars {
		c := *v
		m[k] = &c
	}
	d := make(map[int]bool, len(t.dead))
	for k, v := range t.dead {
		d[k] = v
	}
	return fnSnap{m, d}
}

func (t *fnTr) restore(s fnSnap) { t.vars, t.dead = s.vars, s.dead }

// local: the variable an identifier denotes, which must be a local variable or parameter of the function.
func (t *fnTr) local(id *ast.Ident) *types.Var {
	obj := t.pkg.info.Defs[id]
	if obj == nil {
		obj = t.pkg.info.Uses[id]
	}
	v, ok := obj.(*types.Var)
	if !ok || v.IsField() || v.Pkg() != t.pkg.pkg || v.Parent() == t.pkg.pkg.Scope() {
		t.fail(id, "%s is not a local variable", id.Name)
	}
	return v
}

func (t *fnTr) bindVar(name string, v fnVal, rest func() string) string {
	if v.pure {
		return "let " + name + " := " + v.s + " in" + t.nl() + rest()
	}
	return "bind (" + v.s + ") (fun " + name + " =>" + t.nl() + rest() + ")"
}

// assign: `id := v` or `id = v`.
func (t *fnTr) assign(id *ast.Ident, v fnVal, k func() string) string {
	if id.Name == "_" {
		return t.bindVar("_", v, k)
	}
	obj := t.local(id)
	ty, ok := fnClassify(obj.Type())
	if !ok && obj.Type() == types.Typ[types.Invalid] && (v.ty.k == fkBytes || (v.ty.k == fkInt && v.ty.ity != "")) && t.vars[obj] == nil {
		// the result of a function of a package outside go-bt (bytes.Join): go/types has no type for the variable
		ty, ok = v.ty, true
	}
	if !ok {
		t.fail(id, "variable %s has unsupported type %s", id.Name, obj.Type())
	}
	v = t.coerce(id, v, ty)
	vr := t.vars[obj]
	if vr == nil {
		vr = &fnVar{name: t.objName(obj, id.Name), ty: ty}
	}
	t.setVar(obj, vr, v)
	return t.bindVar(vr.name, v, k)
}

// setVar records that the variable with the given key now holds v: freshness and aliases of slices, number objects.
func (t *fnTr) setVar(key interface{}, vr *fnVar, v fnVal) {
	ty := vr.ty
	if ty.k == fkBytes || ty.k == fkInts || ty.k == fkStack {
		shared := false
		var al []interface{}
		for _, a := range v.alias {
			if a != key {
				if av := t.vars[a]; av != nil {
					av.fresh = false
				}
				shared = true
				al = append(al, a)
				if av := t.vars[a]; av != nil {
					al = append(al, av.alias...)
				}
			}
		}
		vr.fresh = v.fresh && !shared
		vr.alias = al
		vr.stale = false
	}
	if ty.k == fkPtr {
		vr.fresh = v.fresh
	}
	if ty.k == fkNum {
		vr.cells = v.cells
		vr.guard, vr.okNum = nil, true
	}
	if ty.k == fkErr {
		t.forgetErr(key)
	}
	t.vars[key] = vr
}

// assignPath: `a.b.c = v` for a declared state field.
func (t *fnTr) assignPath(n ast.Node, p string, v fnVal, k func() string) string {
	vr := t.vars[p]
	if vr == nil || !t.isState(p) {
		t.fail(n, "assignment to %s, which is not in the declared state of the function", p)
	}
	v = t.coerce(n, v, vr.ty)
	t.setVar(p, vr, v)
	return t.bindVar(vr.name, v, k)
}

func (t *fnTr) isState(p string) bool {
	for _, s := range t.state {
		if s == p {
			return true
		}
	}
	return false
}

// freshLocal: the unaliased, locally allocated []byte variable that an in-place write goes to.
func (t *fnTr) freshLocal(e ast.Expr) (*types.Var, *fnVar) {
	id, ok := e.(*ast.Ident)
	if !ok {
		t.fail(e, "in-place write to something other than a local variable")
	}
	obj := t.local(id)
	vr := t.vars[obj]
	if vr == nil || vr.ty.k != fkBytes || !vr.fresh {
		t.fail(e, "in-place write to %s, which is not known to be a freshly allocated, unaliased []byte", id.Name)
	}
	return obj, vr
}

func (t *fnTr) stmt(s ast.Stmt, k func() string) string {
	switch x := s.(type) {
	case *ast.EmptyStmt:
		return k()
	case *ast.BlockStmt:
		return t.block(x.List, k)
	case *ast.ReturnStmt:
		if len(x.Results) == 1 && len(t.results) >= 1 {
			if c, ok := x.Results[0].(*ast.CallExpr); ok {
				if out, ok := t.returnCall(c); ok {
					return out
				}
			}
		}
		if len(x.Results) == 0 && len(t.namedRes) > 0 {
			return t.bareReturn(s)
		}
		if len(x.Results) != len(t.results) {
			t.fail(s, "return with %d values for %d results", len(x.Results), len(t.results))
		}
		var vals []fnVal
		for i, r := range x.Results {
			vals = append(vals, t.coerce(r, t.expr(r), t.results[i]))
		}
		if len(vals) == 0 {
			return t.ret(t.full(""))
		}
		r := t.seq(vals, func(ts []string) fnVal {
			if len(ts) == 1 {
				return fnVal{s: ts[0], pure: true}
			}
			return fnVal{s: "(" + strings.Join(ts, ", ") + ")", pure: true}
		})
		if r.pure {
			return t.ret(t.full(r.s))
		}
		tmp := t.temp()
		return "bind (" + r.s + ") (fun " + tmp + " => " + t.ret(t.full(tmp)) + ")"
	case *ast.AssignStmt:
		if out, ok := t.methValCall(x, k); ok {
			return out
		}
		if len(x.Lhs) > 1 && len(x.Rhs) == 1 {
			if out, ok := t.quoteFee(x, k); ok {
				return out
			}
			return t.assignCall(x, k)
		}
		if len(x.Lhs) > 1 && len(x.Lhs) == len(x.Rhs) && x.Tok == token.DEFINE {
			return t.parallelDefine(x, k)
		}
		if len(x.Lhs) != 1 || len(x.Rhs) != 1 {
			t.fail(s, "assignment with several operands")
		}
		if out, ok := t.fieldAssign(x, k); ok {
			return out
		}
		if _, isSel := x.Lhs[0].(*ast.SelectorExpr); (isSel || t.isDerefTarget(x.Lhs[0])) && x.Tok == token.ASSIGN {
			if p, ok := t.fieldPath(x.Lhs[0]); ok {
				if out, ok := t.stmtCall(x.Rhs[0], []ast.Expr{x.Lhs[0]}, x.Tok, k); ok {
					return out
				}
				return t.assignPath(s, p, t.rhsFor(x.Rhs[0], p), k)
			}
		}
		if _, isId := x.Lhs[0].(*ast.Ident); isId && (x.Tok == token.DEFINE || x.Tok == token.ASSIGN) {
			if out, ok := t.stmtCall(x.Rhs[0], x.Lhs, x.Tok, k); ok {
				return out
			}
		}
		if ix, ok := x.Lhs[0].(*ast.IndexExpr); ok {
			_, vr := t.freshLocal(ix.X)
			i, e := t.expr(ix.Index), t.expr(x.Rhs[0])
			if x.Tok != token.ASSIGN {
				cur := t.seq([]fnVal{i}, func(ts []string) fnVal {
					return fnVal{s: "go_index_b " + vr.name + " " + ts[0], ty: fnType{k: fkInt, ity: "U8"}}
				})
				e = t.arith(s, fnAssignOp(t, s, x.Tok), cur, e, fnType{k: fkInt, ity: "U8"})
			}
			if i.ty.k != fkInt || e.ty.k != fkInt {
				t.fail(s, "indexed assignment of non-integers")
			}
			v := t.seq([]fnVal{i, e}, func(ts []string) fnVal {
				return fnVal{s: "go_set_index " + vr.name + " " + ts[0] + " " + ts[1], ty: vr.ty}
			})
			return t.bindVar(vr.name, v, k)
		}
		id, ok := x.Lhs[0].(*ast.Ident)
		if !ok {
			t.fail(s, "assignment to something other than a local variable or an element of one")
		}
		v := t.expr(x.Rhs[0])
		if x.Tok != token.DEFINE && x.Tok != token.ASSIGN {
			cur := t.expr(id)
			v = t.arith(s, fnAssignOp(t, s, x.Tok), cur, v, cur.ty)
		}
		return t.assign(id, v, k)
	case *ast.IncDecStmt:
		id, ok := x.X.(*ast.Ident)
		if !ok {
			t.fail(s, "++/-- on something other than a local variable")
		}
		cur := t.expr(id)
		op := token.ADD
		if x.Tok == token.DEC {
			op = token.SUB
		}
		return t.assign(id, t.arith(s, op, cur, fnVal{s: "1", pure: true, ty: cur.ty}, cur.ty), k)
	case *ast.DeclStmt:
		gd, ok := x.Decl.(*ast.GenDecl)
		if !ok || gd.Tok != token.VAR || len(gd.Specs) != 1 {
			t.fail(s, "unsupported declaration")
		}
		vs := gd.Specs[0].(*ast.ValueSpec)
		if len(vs.Names) != 1 || len(vs.Values) > 1 {
			t.fail(s, "declaration of several variables")
		}
		if len(vs.Values) == 1 {
			return t.assign(vs.Names[0], t.expr(vs.Values[0]), k)
		}
		ty, ok := fnClassify(t.local(vs.Names[0]).Type())
		if !ok {
			t.fail(s, "variable of unsupported type")
		}
		zero := map[fnKind]string{fkBool: "false", fkErr: "false", fkInt: "0", fkBytes: "[]", fkInts: "[]", fkStack: "[]"}[ty.k]
		return t.assign(vs.Names[0], fnVal{s: zero, pure: true, ty: ty}, k)
	case *ast.ExprStmt:
		c, ok := x.X.(*ast.CallExpr)
		if !ok {
			t.fail(s, "expression statement")
		}
		if out, ok := t.exprStmtInterp(c, k); ok {
			return out
		}
		bits, ok := t.leCall(c, "PutUint")
		if !ok || len(c.Args) != 2 {
			t.fail(s, "call statement other than binary.LittleEndian.PutUintN")
		}
		val := t.expr(c.Args[1])
		if val.ty.k != fkInt || val.ty.ity != fnLEIty[bits] {
			t.fail(s, "PutUint%s of a value of another type", bits)
		}
		if se, ok := c.Args[0].(*ast.SliceExpr); ok && se.Low != nil && se.High != nil && !se.Slice3 {
			_, vr := t.freshLocal(se.X)
			lo, hi := t.expr(se.Low), t.expr(se.High)
			v := t.seq([]fnVal{lo, hi, val}, func(ts []string) fnVal {
				return fnVal{s: "go_le_put_at " + fnLEWidth[bits] + " " + vr.name + " " + strings.Join(ts, " "), ty: vr.ty}
			})
			return t.bindVar(vr.name, v, k)
		}
		_, vr := t.freshLocal(c.Args[0])
		v := t.seq([]fnVal{val}, func(ts []string) fnVal {
			return fnVal{s: "go_le_put " + fnLEWidth[bits] + " " + vr.name + " " + ts[0], ty: vr.ty}
		})
		return t.bindVar(vr.name, v, k)
	case *ast.IfStmt:
		if x.Init != nil {
			return t.stmt(x.Init, func() string { c := *x; c.Init = nil; return t.stmt(&c, k) })
		}
		cond := t.expr(x.Cond)
		if cond.ty.k != fkBool {
			t.fail(s, "non-boolean condition")
		}
		errKey, nonNil, isErrTest := t.errTest(x.Cond)
		return t.branch(cond, func() string {
			if isErrTest && !nonNil {
				t.markErrNil(errKey)
			}
			return t.block(x.Body.List, k)
		}, func() string {
			if isErrTest && nonNil {
				t.markErrNil(errKey)
			}
			switch el := x.Else.(type) {
			case nil:
				return k()
			case *ast.BlockStmt:
				return t.block(el.List, k)
			case *ast.IfStmt:
				return t.stmt(el, k)
			}
			t.fail(s, "unsupported else")
			return ""
		})
	case *ast.SwitchStmt:
		return t.switchStmt(x, k)
	case *ast.BranchStmt:
		if x.Label != nil {
			t.fail(s, "labelled branch")
		}
		switch x.Tok {
		case token.BREAK:
			if t.brk != nil {
				return t.brk()
			}
		case token.CONTINUE:
			if t.cont != nil {
				return t.cont()
			}
		}
		t.fail(s, "unsupported %s", x.Tok)
	case *ast.RangeStmt:
		return t.rangeStmt(x, k)
	case *ast.ForStmt:
		return t.forStmt(x, k)
	case *ast.DeferStmt:
		if t.isErasedCall(x.Call) {
			return k()
		}
		t.fail(s, "defer of something other than a debugger callback of the stack")
	}
	t.fail(s, "unsupported statement %T", s)
	return ""
}

func fnAssignOp(t *fnTr, n ast.Node, tok token.Token) token.Token {
	ops := map[token.Token]token.Token{token.ADD_ASSIGN: token.ADD, token.SUB_ASSIGN: token.SUB, token.MUL_ASSIGN: token.MUL,
		token.QUO_ASSIGN: token.QUO, token.REM_ASSIGN: token.REM, token.AND_ASSIGN: token.AND, token.OR_ASSIGN: token.OR,
		token.XOR_ASSIGN: token.XOR, token.SHL_ASSIGN: token.SHL, token.SHR_ASSIGN: token.SHR, token.AND_NOT_ASSIGN: token.AND_NOT}
	op, ok := ops[tok]
	if !ok {
		t.fail(n, "unsupported assignment operator %s", tok)
	}
	return op
}

func (t *fnTr) block(list []ast.Stmt, k func() string) string {
	if len(list) == 0 {
		return k()
	}
	return t.stmt(list[0], func() string { return t.block(list[1:], k) })
}

// branch prints `if cond then a else b`; each branch starts from the same variable state.
func (t *fnTr) branch(cond fnVal, a, b func() string) string {
	snap := t.snapshot()
	t.ind++
	as := a()
	t.restore(snap)
	bs := b()
	t.ind--
	c, pre, post := cond.s, "", ""
	if !cond.pure {
		c = t.temp()
		pre, post = "bind ("+cond.s+") (fun "+c+" =>"+t.nl(), ")"
	}
	return pre + "if " + c + " then (" + t.nl() + "  " + as + ")" + t.nl() + "else (" + t.nl() + "  " + bs + ")" + post
}

func (t *fnTr) switchStmt(x *ast.SwitchStmt, k func() string) string {
	if x.Init != nil {
		return t.stmt(x.Init, func() string { c := *x; c.Init = nil; return t.switchStmt(&c, k) })
	}
	var tag fnVal
	pre := func(rest string) string { return rest }
	if x.Tag != nil {
		tv := t.expr(x.Tag)
		name := t.temp()
		tag = fnVal{s: name, pure: true, ty: tv.ty}
		pre = func(rest string) string { return t.bindVar(name, tv, func() string { return rest }) }
	}
	var clauses []*ast.CaseClause
	var def *ast.CaseClause
	for _, c := range x.Body.List {
		cc := c.(*ast.CaseClause)
		for _, st := range cc.Body {
			if b, ok := st.(*ast.BranchStmt); ok && b.Tok == token.FALLTHROUGH {
				t.fail(st, "fallthrough")
			}
		}
		if cc.List == nil {
			def = cc
		} else {
			clauses = append(clauses, cc)
		}
	}
	// inside the clauses an unlabelled break leaves the switch; the rest of the block is outside the switch again
	outerBrk := t.brk
	after := func() string {
		saved := t.brk
		t.brk = outerBrk
		defer func() { t.brk = saved }()
		return k()
	}
	t.brk = after
	defer func() { t.brk = outerBrk }()
	var chain func(i int) string
	chain = func(i int) string {
		if i == len(clauses) {
			if def != nil {
				return t.block(def.Body, after)
			}
			return after()
		}
		cc := clauses[i]
		var cond fnVal
		for j, e := range cc.List {
			c := t.expr(e)
			if x.Tag != nil {
				c = t.compare(e, token.EQL, tag, c)
			}
			if c.ty.k != fkBool {
				t.fail(e, "non-boolean case")
			}
			if j == 0 {
				cond = c
			} else if c.pure {
				l := cond
				cond = t.seq([]fnVal{l, c}, func(ts []string) fnVal {
					return fnVal{s: "orb " + ts[0] + " " + ts[1], pure: true, ty: fnType{k: fkBool}}
				})
			} else {
				cond = fnVal{s: "go_orelse (" + cond.asM() + ") (" + c.s + ")", ty: fnType{k: fkBool}}
			}
		}
		return t.branch(cond, func() string { return t.block(cc.Body, after) }, func() string { return chain(i + 1) })
	}
	return pre(chain(0))
}

// assigned: the known variables that the given nodes re-bind (assignment, ++/--, in-place write, a call of a
// printed function that writes state fields), as keys of t.vars: local variables by position, then state fields
// in their declared order.
func (t *fnTr) assigned(nodes ...ast.Node) []interface{} {
	seen := map[interface{}]bool{}
	var note func(e ast.Expr)
	note = func(e ast.Expr) {
		if se, ok := e.(*ast.SliceExpr); ok {
			e = se.X
		}
		if ix, ok := e.(*ast.IndexExpr); ok {
			e = ix.X
		}
		if id, ok := e.(*ast.Ident); ok {
			obj := t.pkg.info.Uses[id]
			if obj == nil {
				obj = t.pkg.info.Defs[id]
			}
			if obj != nil && t.vars[obj] != nil {
				seen[obj] = true
			}
			return
		}
		if p, ok := t.fieldPath(e); ok && t.vars[p] != nil {
			seen[p] = true
		}
	}
	for _, n := range nodes {
		if n == nil {
			continue
		}
		ast.Inspect(n, func(m ast.Node) bool {
			switch y := m.(type) {
			case *ast.AssignStmt:
				for _, l := range y.Lhs {
					note(l)
				}
			case *ast.IncDecStmt:
				note(y.X)
			case *ast.RangeStmt:
				if y.Tok == token.ASSIGN {
					note(y.Key)
					if y.Value != nil {
						note(y.Value)
					}
				}
			case *ast.ExprStmt:
				if c, ok := y.X.(*ast.CallExpr); ok && len(c.Args) > 0 {
					note(c.Args[0])
				}
				if c, ok := y.X.(*ast.CallExpr); ok {
					if sel, ok := c.Fun.(*ast.SelectorExpr); ok && t.isNumMutator(c) {
						note(sel.X)
					}
				}
			case *ast.CallExpr:
				for _, p := range t.callWrites(y) {
					if t.vars[p] != nil {
						seen[p] = true
					}
				}
			}
			return true
		})
	}
	var objs []types.Object
	for o := range seen {
		if ob, ok := o.(types.Object); ok {
			objs = append(objs, ob)
		}
	}
	sort.Slice(objs, func(i, j int) bool { return objs[i].Pos() < objs[j].Pos() })
	var out []interface{}
	for _, o := range objs {
		out = append(out, o)
	}
	for _, p := range t.state {
		if seen[p] {
			out = append(out, p)
		}
	}
	return out
}

func (t *fnTr) tuple(objs []interface{}) (value, binder, pattern string) {
	var ns []string
	for _, o := range objs {
		ns = append(ns, t.vars[o].name)
	}
	switch len(ns) {
	case 0:
		return "tt", "_", "_"
	case 1:
		return ns[0], ns[0], ns[0]
	}
	s := "(" + strings.Join(ns, ", ") + ")"
	return s, "'" + s, s
}

// loopBody prints the body of a loop as a function result of type M (ctl S R) and restores the translator state.
func (t *fnTr) loopBody(n ast.Node, body *ast.BlockStmt, state []interface{}) string {
	value, _, _ := t.tuple(state)
	entry := map[interface{}]bool{}
	for key, v := range t.vars {
		entry[key] = v.fresh
	}
	check := func() {
		for key, f := range entry {
			if v := t.vars[key]; v != nil && v.fresh != f {
				t.fail(n, "a slice variable changes between allocated-here and possibly-shared inside the loop")
			}
		}
	}
	ret, brk, cont, snap := t.ret, t.brk, t.cont, t.snapshot()
	t.ret = func(s string) string { return "Val (Return " + fnParen(s) + ")" }
	t.cont = func() string { check(); return "Val (Next " + value + ")" }
	t.brk = func() string { check(); return "Val (Break " + value + ")" }
	t.ind += 2
	s := t.block(body.List, t.cont)
	t.ind -= 2
	t.checkLoopNums(n, snap)
	t.ret, t.brk, t.cont = ret, brk, cont
	t.restore(snap)
	return s
}

func (t *fnTr) afterLoop(loop string, state []interface{}, k func() string) string {
	_, _, pat := t.tuple(state)
	a, r := t.temp(), t.temp()
	t.ind++
	rest := k()
	t.ind--
	return "bind (" + loop + ") (fun " + a + " =>" + t.nl() + "match " + a + " with" + t.nl() + "| Fall " + pat + " =>" + t.nl() + "  " + rest +
		t.nl() + "| Returned " + r + " => " + t.ret(r) + t.nl() + "end)"
}

func (t *fnTr) rangeStmt(x *ast.RangeStmt, k func() string) string {
	if x.Tok != token.DEFINE {
		t.fail(x, "range without := ")
	}
	xs := t.expr(x.X)
	if xs.ty.k != fkBytes && xs.ty.k != fkInts && xs.ty.k != fkPtrs && xs.ty.k != fkStack {
		t.fail(x, "range over something other than a slice")
	}
	state := t.assigned(x.Body)
	for _, o := range state {
		for _, a := range xs.alias {
			if a == o {
				t.fail(x, "the loop body writes to the slice it ranges over")
			}
		}
	}
	if !xs.pure {
		tmp := t.temp()
		return "bind (" + xs.s + ") (fun " + tmp + " =>" + t.nl() + t.rangeOver(x, fnVal{s: tmp, pure: true, ty: xs.ty}, state, k) + ")"
	}
	return t.rangeOver(x, xs, state, k)
}

func (t *fnTr) rangeOver(x *ast.RangeStmt, xs fnVal, state []interface{}, k func() string) string {
	value, binder, _ := t.tuple(state)
	snap := t.snapshot()
	keyName, rawName, intro := "_", "_", ""
	if id, ok := x.Key.(*ast.Ident); ok && id.Name != "_" {
		keyName = t.objName(t.local(id), id.Name)
		t.vars[t.local(id)] = &fnVar{name: keyName, ty: fnType{k: fkInt, ity: "I64"}}
	} else if !ok && x.Key != nil {
		t.fail(x, "range key is not an identifier")
	}
	if x.Value != nil {
		id, ok := x.Value.(*ast.Ident)
		if !ok {
			t.fail(x, "range value is not an identifier")
		}
		if id.Name != "_" {
			name := t.objName(t.local(id), id.Name)
			t.vars[t.local(id)] = &fnVar{name: name, ty: fnType{k: fkInt, ity: xs.ty.ity}}
			if xs.ty.k == fkPtrs {
				t.vars[t.local(id)].ty = fnType{k: fkPtr, sname: xs.ty.sname}
			}
			if xs.ty.k == fkStack { // the items of a [][]byte (funcs_script.go)
				t.vars[t.local(id)].ty = fnType{k: fkBytes, ity: "U8"}
			}
			if xs.ty.k == fkBytes {
				rawName = t.temp()
				intro = "let " + name + " := b2z " + rawName + " in "
			} else {
				rawName = name
			}
		}
	}
	body := t.loopBody(x, x.Body, state)
	t.restore(snap)
	loop := "go_range (" + xs.s + ") 0 " + value + " (fun " + keyName + " " + rawName + " " + binder + " =>" + t.nl() + "    " + intro + body + ")"
	return t.afterLoop(loop, state, k)
}

// forStmt: for i := a; i < e; i++ { ... } and the variants with <=, >, >= and --; without an init statement the
// loop variable is an existing variable (`for ; n > 0; n--`).  `for cond { ... }` is whileStmt (funcs_interp.go).
func (t *fnTr) forStmt(x *ast.ForStmt, k func() string) string {
	if x.Init == nil && x.Post == nil && x.Cond != nil {
		return t.whileStmt(x, k)
	}
	cond, ok2 := x.Cond.(*ast.BinaryExpr)
	post, ok3 := x.Post.(*ast.IncDecStmt)
	if !ok2 || !ok3 {
		t.fail(x, "for loop that is not of the form `for i := a; i <op> e; i++/i--`")
	}
	var iv *ast.Ident
	var ivObj types.Object
	var initRhs ast.Expr
	if x.Init == nil {
		ci, ok := cond.X.(*ast.Ident)
		if !ok || t.pkg.info.Uses[ci] == nil || t.vars[t.pkg.info.Uses[ci]] == nil {
			t.fail(x, "for loop without init whose condition is not about a local variable")
		}
		iv, ivObj = ci, t.pkg.info.Uses[ci]
	} else {
		init, ok := x.Init.(*ast.AssignStmt)
		if !ok || init.Tok != token.DEFINE || len(init.Lhs) != 1 || len(init.Rhs) != 1 {
			t.fail(x, "for loop whose init is not `i := e`")
		}
		iv, ok = init.Lhs[0].(*ast.Ident)
		if !ok {
			t.fail(x, "for loop that is not of the form `for i := a; i <op> e; i++/i--`")
		}
		ivObj, initRhs = t.pkg.info.Defs[iv], init.Rhs[0]
	}
	// the loop variable alone, or the loop variable plus a loop-invariant offset: i < e, i+c < e, i-c >= e
	var off ast.Expr
	offSign := ""
	ci, ok := cond.X.(*ast.Ident)
	if !ok {
		if be, isBin := cond.X.(*ast.BinaryExpr); isBin && (be.Op == token.ADD || be.Op == token.SUB) {
			if id, isId := be.X.(*ast.Ident); isId {
				ci, ok, off = id, true, be.Y
				offSign = " + "
				if be.Op == token.SUB {
					offSign = " - "
				}
			}
		}
	}
	pi, ok2 := post.X.(*ast.Ident)
	if !ok || !ok2 || t.pkg.info.Uses[ci] != ivObj || t.pkg.info.Uses[pi] != ivObj {
		t.fail(x, "for loop whose condition and post statement are not about the loop variable")
	}
	var a fnVal
	if initRhs != nil {
		a = t.expr(initRhs)
	} else {
		a = t.expr(iv)
	}
	e := t.expr(cond.Y)
	if !a.pure || !e.pure || a.ty.k != fkInt || e.ty.k != fkInt {
		t.fail(x, "for loop bounds that are not pure integer expressions")
	}
	as := "(" + a.s + ")"
	if off != nil {
		o := t.expr(off)
		if !o.pure || o.ty.k != fkInt {
			t.fail(x, "for loop whose condition adds something other than a pure integer to the loop variable")
		}
		for _, w := range t.assigned(x.Body) {
			if t.mentions(off, w) {
				t.fail(x, "the offset in the loop condition is assigned in the loop")
			}
		}
		as = "(" + a.s + offSign + "(" + o.s + "))"
	}
	var dist string
	switch {
	case cond.Op == token.LSS && post.Tok == token.INC:
		dist = "(" + e.s + ") - " + as
	case cond.Op == token.LEQ && post.Tok == token.INC:
		dist = "(" + e.s + ") - " + as + " + 1"
	case cond.Op == token.GTR && post.Tok == token.DEC:
		dist = as + " - (" + e.s + ")"
	case cond.Op == token.GEQ && post.Tok == token.DEC:
		dist = as + " - (" + e.s + ") + 1"
	default:
		t.fail(x, "for loop whose condition and step do not move towards each other")
	}
	fuel := t.temp()
	head := "let " + fuel + " := Z.to_nat (" + dist + ") in" + t.nl()
	rest := func() string {
		iobj := ivObj
		state := []interface{}{iobj}
		for _, o := range t.assigned(x.Body) {
			if o != iobj {
				state = append(state, o)
			}
		}
		value, binder, _ := t.tuple(state)
		c := t.expr(x.Cond)
		body := t.loopBody(x, x.Body, state)
		snap := t.snapshot()
		ret, brk, cont := t.ret, t.brk, t.cont
		t.brk, t.cont = nil, nil
		ps := t.stmt(x.Post, func() string { v, _, _ := t.tuple(state); return "Val " + v })
		t.ret, t.brk, t.cont = ret, brk, cont
		t.restore(snap)
		loop := "go_for " + fuel + " " + value + t.nl() + "  (fun " + binder + " => " + c.asM() + ")" + t.nl() + "  (fun " + binder + " =>" + t.nl() +
			"    " + body + ")" + t.nl() + "  (fun " + binder + " => " + ps + ")"
		return t.afterLoop(loop, state, k)
	}
	if initRhs == nil {
		return head + rest()
	}
	return head + t.assign(iv, a, rest)
}

// mentions: the expression reads the variable with the given key.
func (t *fnTr) mentions(e ast.Expr, key interface{}) bool {
	found := false
	ast.Inspect(e, func(m ast.Node) bool {
		switch y := m.(type) {
		case *ast.Ident:
			if obj := t.pkg.info.Uses[y]; obj != nil && obj == key {
				found = true
			}
		case *ast.SelectorExpr:
			if p, ok := t.fieldPath(y); ok && p == key {
				found = true
			}
		}
		return true
	})
	return found
}

// function prints the whole definition.
func (t *fnTr) function(fd *ast.FuncDecl) string {
	var params []string
	roots := map[string]types.Type{}
	goIdx := 0
	nilable := t.nilableParams(fd)
	addParam := func(id *ast.Ident, idx int) {
		obj := t.pkg.info.Defs[id]
		if obj == nil {
			t.fail(id, "unnamed or unresolved parameter")
		}
		// a parameter named in the declared interface is replaced by those fields; so is a receiver that points to a struct
		// of package bt (a nil receiver is outside the definitions)
		if ty, ok := fnClassify(obj.Type()); ok && ty.k != fkErr && ty.k != fkNil && !t.isDeclaredRoot(id.Name) && !(idx == -1 && ty.k == fkPtr) {
			if nilable[obj] {
				ty = fnType{k: fkNilBytes}
			}
			v := &fnVar{name: t.newName(id.Name), ty: ty}
			if ty.k == fkNum {
				v.cells, v.okNum = []int{t.newCell()}, true
			}
			t.vars[obj] = v
			params = append(params, "("+v.name+" : "+ty.coq()+")")
			t.args = append(t.args, fnArg{goParam: idx, ty: ty})
			return
		}
		roots[id.Name] = obj.Type()
		t.rootIdx[id.Name] = idx
	}
	if fd.Recv != nil {
		for _, f := range fd.Recv.List {
			for _, id := range f.Names {
				addParam(id, -1)
			}
		}
	}
	for _, f := range fd.Type.Params.List {
		if len(f.Names) == 0 {
			t.fail(f, "unnamed parameter")
		}
		for _, id := range f.Names {
			addParam(id, goIdx)
			goIdx++
		}
	}
	for _, p := range t.spec.Fields {
		var cty fnType
		if pty, isPseudo := fnPseudoField(roots, p); isPseudo {
			cty = pty
		} else {
			ty, ok := fnResolvePath(roots, p)
			if !ok {
				continue // the declared field is not there (any more): a body that still reads it is refused at the read
			}
			cty, ok = fnClassify(ty)
			if !ok || cty.k == fkErr || cty.k == fkNil {
				continue
			}
		}
		name := "v_" + strings.NewReplacer(".", "_", "*", "deref_").Replace(p)
		t.names[name[2:]]++
		t.vars[p] = &fnVar{name: name, ty: cty}
		params = append(params, "("+name+" : "+cty.coq()+")")
		t.args = append(t.args, fnArg{goParam: -2, path: p, ty: cty})
	}
	for _, p := range t.spec.State {
		ty, ok := fnResolvePath(roots, p)
		if !ok {
			t.fail(fd, "the declared state field %s does not exist", p)
		}
		cty, ok := fnClassify(ty)
		if !ok || cty.k == fkErr || cty.k == fkNil {
			t.fail(fd, "the declared state field %s has unsupported type %s", p, ty)
		}
		name := "v_" + strings.NewReplacer(".", "_", "*", "deref_").Replace(p)
		t.names[name[2:]]++
		t.vars[p] = &fnVar{name: name, ty: cty}
		t.state = append(t.state, p)
		params = append(params, "("+name+" : "+cty.coq()+")")
		t.args = append(t.args, fnArg{goParam: -2, path: p, ty: cty})
	}
	var rts []string
	namedInit := ""
	if fd.Type.Results != nil {
		for _, f := range fd.Type.Results.List {
			tv, ok := t.pkg.info.Types[f.Type]
			if !ok {
				t.fail(f, "untyped result")
			}
			ty, ok := fnClassify(tv.Type)
			if !ok || ty.k == fkNil {
				t.fail(f, "result of unsupported type %s", tv.Type)
			}
			n := 1
			if len(f.Names) != 0 {
				n = len(f.Names)
				for _, id := range f.Names {
					namedInit += t.namedResult(id, ty)
				}
			}
			for ; n > 0; n-- {
				t.results = append(t.results, ty)
				rts = append(rts, ty.coq())
			}
		}
	}
	if len(rts) == 0 && len(t.state) == 0 {
		t.fail(fd, "function without results")
	}
	rt := ""
	if len(rts) == 1 {
		rt = rts[0]
	} else if len(rts) > 1 {
		rt = "(" + strings.Join(rts, " * ") + ")"
	}
	if len(t.state) > 0 {
		var sts []string
		for _, p := range t.state {
			sts = append(sts, t.vars[p].ty.coq())
		}
		st := strings.Join(sts, " * ")
		if len(sts) > 1 {
			st = "(" + st + ")"
		}
		if rt == "" {
			rt = st
		} else {
			rt = "(" + st + " * " + rt + ")"
		}
	}
	t.noRes = len(rts) == 0
	t.ret = func(s string) string { return "Val " + fnParen(s) }
	body := t.block(fd.Body.List, func() string {
		if t.noRes {
			return t.ret(t.full(""))
		}
		t.fail(fd, "control can reach the end of the function without a return")
		return ""
	})
	if len(body) > 200000 {
		t.fail(fd, "the translation is too large (%d characters)", len(body))
	}
	return "Definition " + t.spec.Coq + " " + strings.Join(params, " ") + t.assumeParams() + " : M " + fnParen(rt) + " :=" + "\n  " + namedInit + body + "."
}

// full: the value a return statement yields: the current values of the state fields, then the results.
func (t *fnTr) full(res string) string {
	if len(t.state) == 0 {
		return res
	}
	var ns []string
	for _, p := range t.state {
		ns = append(ns, t.vars[p].name)
	}
	st := strings.Join(ns, ", ")
	if len(ns) > 1 {
		st = "(" + st + ")"
	}
	if res == "" {
		return st
	}
	return "(" + st + ", " + res + ")"
}

// fnResolvePath: the Go type of a declared field path: "*s" (s a pointer parameter) or "a.b.c".
func fnResolvePath(roots map[string]types.Type, p string) (types.Type, bool) {
	if strings.HasPrefix(p, "*") {
		ty, ok := roots[p[1:]]
		if !ok {
			return nil, false
		}
		pt, ok := ty.Underlying().(*types.Pointer)
		if !ok {
			return nil, false
		}
		return pt.Elem(), true
	}
	parts := strings.Split(p, ".")
	ty, ok := roots[parts[0]]
	if !ok {
		return nil, false
	}
	for _, f := range parts[1:] {
		if pt, ok := ty.Underlying().(*types.Pointer); ok {
			ty = pt.Elem()
		}
		st, ok := ty.Underlying().(*types.Struct)
		if !ok {
			return nil, false
		}
		found := false
		for i := 0; i < st.NumFields(); i++ {
			if st.Field(i).Name() == f {
				ty, found = st.Field(i).Type(), true
				break
			}
		}
		if !found {
			return nil, false
		}
	}
	return ty, true
}
