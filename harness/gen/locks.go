package gen

// Translator part for C18 (1/2): the lock discipline of the "thread safe" fee-quote types.
//
//	fees.go   type FeeQuote / FeeQuotes: the sync.RWMutex field and the fields it guards (all others);
//	          for every method, in source order, every control-flow path as the list of atomic actions
//	            acquire <obj> R|W   release <obj> R|W   read <obj> <field>   write <obj> <field>   call <obj> <method>
//	          <obj> is "self" (the receiver) or "elem" (a *FeeQuote fetched out of the receiver's map);
//	          `defer x.mu.Unlock()` becomes a release at every return (LIFO), after the return operands.
//
// No semantics here: coq/model/Locks.v decides what a well-locked table is. The translator fails
// closed: every syntactic occurrence of a guarded field or of the mutex — anywhere in package bt —
// has to be one of the shapes spelled out below, anything else is an error (a broken tie).

import (
	"fmt"
	"go/ast"
	"go/parser"
	"go/token"
	"os"
	"path/filepath"
	"sort"
	"strings"
)

func init() { Register("Locks.v", genLocks) }

// LkAction is one atomic action of a method path.
type LkAction struct {
	Kind string // acquire | release | read | write | call
	Obj  string // self | elem
	Arg  string // R | W | field name | method name
	Line int
}

// LkMethod is one method with all its control-flow paths.
type LkMethod struct {
	Type, Name string
	Line       int
	Paths      [][]LkAction
	// Fails[k]: some control-flow path with the actions Paths[k] ends in a return whose last operand is an error that is
	// not the literal nil (`return err`, `return nil, ErrX`, `return m.Fee(t)`): the call may report failure after
	// exactly these actions. Always false for methods whose last result is not `error`. (Additive: the table printed
	// as fee_methods does not change; fee_method_fails is printed next to it.)
	Fails []bool
}

// LkTable is everything Locks.v contains.
type LkTable struct {
	Guarded [][2]string // (type, field)
	Mutex   [][2]string // (type, mutex field)
	Elems   [][3]string // (type, field, element type)
	Methods []LkMethod
}

var lkTypes = []string{"FeeQuotes", "FeeQuote"}

const lkFile = "fees.go"

type lkStruct struct {
	mutex   string
	fields  map[string]ast.Expr // guarded field -> type expression
	elemOf  map[string]string   // guarded field -> tracked element type
	methods map[string]bool
	results map[string][]bool // method -> per result: is it a (pointer to a) tracked type
}

type lkCtx struct {
	fset    *token.FileSet
	structs map[string]*lkStruct
	names   map[string]bool // every guarded / mutex field name
}

func (c *lkCtx) pos(n ast.Node) string {
	p := c.fset.Position(n.Pos())
	return fmt.Sprintf("%s:%d", filepath.Base(p.Filename), p.Line)
}
func (c *lkCtx) line(n ast.Node) int { return c.fset.Position(n.Pos()).Line }

func lkIsRWMutex(e ast.Expr) bool {
	s, ok := e.(*ast.SelectorExpr)
	if !ok {
		return false
	}
	x, ok := s.X.(*ast.Ident)
	return ok && x.Name == "sync" && s.Sel.Name == "RWMutex"
}

// mentionsType: does the type expression mention the named type (as T or *T, inside maps/slices)?
func lkMentionsType(e ast.Expr, name string) bool {
	found := false
	ast.Inspect(e, func(n ast.Node) bool {
		if id, ok := n.(*ast.Ident); ok && id.Name == name {
			found = true
		}
		return true
	})
	return found
}

// reference-like types alias their contents when copied
func lkIsRefType(e ast.Expr) bool {
	switch t := e.(type) {
	case *ast.MapType, *ast.StarExpr, *ast.ChanType, *ast.FuncType, *ast.InterfaceType:
		return true
	case *ast.ArrayType:
		return t.Len == nil
	case *ast.SelectorExpr: // time.Time and friends: plain values
		return false
	case *ast.Ident:
		switch t.Name {
		case "bool", "string", "int", "int8", "int16", "int32", "int64", "uint", "uint8", "uint16", "uint32", "uint64", "float32", "float64", "byte", "rune":
			return false
		}
		return true
	}
	return true
}

// LockTable extracts the table from a go-bt checkout.
func LockTable(repo string) (*LkTable, error) {
	fset := token.NewFileSet()
	ents, err := os.ReadDir(repo)
	if err != nil {
		return nil, err
	}
	files := map[string]*ast.File{}
	var names []string
	for _, e := range ents {
		n := e.Name()
		if e.IsDir() || !strings.HasSuffix(n, ".go") || strings.HasSuffix(n, "_test.go") {
			continue
		}
		f, err := parser.ParseFile(fset, filepath.Join(repo, n), nil, parser.ParseComments)
		if err != nil {
			return nil, fmt.Errorf("parse %s: %w", n, err)
		}
		files[n] = f
		names = append(names, n)
	}
	sort.Strings(names)
	ff, ok := files[lkFile]
	if !ok {
		return nil, fmt.Errorf("%s not found", lkFile)
	}
	c := &lkCtx{fset: fset, structs: map[string]*lkStruct{}, names: map[string]bool{}}
	tbl := &LkTable{}

	// 1. the two structs
	for _, tn := range lkTypes {
		var st *ast.StructType
		for _, d := range ff.Decls {
			gd, ok := d.(*ast.GenDecl)
			if !ok || gd.Tok != token.TYPE {
				continue
			}
			for _, sp := range gd.Specs {
				ts := sp.(*ast.TypeSpec)
				if ts.Name.Name == tn {
					s, ok := ts.Type.(*ast.StructType)
					if !ok {
						return nil, fmt.Errorf("%s: type %s is not a struct", c.pos(ts), tn)
					}
					st = s
				}
			}
		}
		if st == nil {
			return nil, fmt.Errorf("type %s not found in %s", tn, lkFile)
		}
		ls := &lkStruct{fields: map[string]ast.Expr{}, elemOf: map[string]string{}, methods: map[string]bool{}, results: map[string][]bool{}}
		for _, fl := range st.Fields.List {
			if len(fl.Names) == 0 {
				return nil, fmt.Errorf("%s: embedded field in %s (methods would be promoted): not handled", c.pos(fl), tn)
			}
			for _, nm := range fl.Names {
				if lkIsRWMutex(fl.Type) {
					if ls.mutex != "" {
						return nil, fmt.Errorf("%s: %s has two mutexes", c.pos(fl), tn)
					}
					ls.mutex = nm.Name
					continue
				}
				if lkMentionsType2(fl.Type, "sync") {
					return nil, fmt.Errorf("%s: %s.%s: synchronisation primitive other than sync.RWMutex", c.pos(fl), tn, nm.Name)
				}
				ls.fields[nm.Name] = fl.Type
				for _, other := range lkTypes {
					if lkMentionsType(fl.Type, other) {
						if other != "FeeQuote" || tn != "FeeQuotes" {
							return nil, fmt.Errorf("%s: %s.%s holds %s objects: nesting other than FeeQuotes -> FeeQuote is not handled", c.pos(fl), tn, nm.Name, other)
						}
						ls.elemOf[nm.Name] = other
					}
				}
			}
		}
		if ls.mutex == "" {
			return nil, fmt.Errorf("type %s has no sync.RWMutex field", tn)
		}
		c.structs[tn] = ls
	}
	for _, tn := range lkTypes {
		ls := c.structs[tn]
		c.names[ls.mutex] = true
		tbl.Mutex = append(tbl.Mutex, [2]string{tn, ls.mutex})
		var fs []string
		for f := range ls.fields {
			c.names[f] = true
			fs = append(fs, f)
		}
		sort.Strings(fs)
		for _, f := range fs {
			tbl.Guarded = append(tbl.Guarded, [2]string{tn, f})
			if e, ok := ls.elemOf[f]; ok {
				tbl.Elems = append(tbl.Elems, [3]string{tn, f, e})
			}
		}
	}

	// 2. no other struct of the package may use one of these field names (selectors are resolved by name)
	for _, n := range names {
		for _, d := range files[n].Decls {
			gd, ok := d.(*ast.GenDecl)
			if !ok || gd.Tok != token.TYPE {
				continue
			}
			for _, sp := range gd.Specs {
				ts := sp.(*ast.TypeSpec)
				if _, tracked := c.structs[ts.Name.Name]; tracked && n == lkFile {
					continue
				}
				var bad error
				ast.Inspect(ts.Type, func(x ast.Node) bool {
					if st, ok := x.(*ast.StructType); ok {
						for _, fl := range st.Fields.List {
							for _, nm := range fl.Names {
								if c.names[nm.Name] {
									bad = fmt.Errorf("%s: type %s also has a field %q: selectors cannot be attributed by name", c.pos(nm), ts.Name.Name, nm.Name)
								}
							}
						}
					}
					return true
				})
				if bad != nil {
					return nil, bad
				}
			}
		}
	}

	// 3. method sets (any file of the package)
	type mdecl struct {
		fd   *ast.FuncDecl
		tn   string
		file string
	}
	var methods []mdecl
	for _, n := range names {
		for _, d := range files[n].Decls {
			fd, ok := d.(*ast.FuncDecl)
			if !ok {
				continue
			}
			tn, ptr := "", false
			if fd.Recv != nil && len(fd.Recv.List) == 1 {
				t := fd.Recv.List[0].Type
				if st, ok := t.(*ast.StarExpr); ok {
					t, ptr = st.X, true
				}
				if id, ok := t.(*ast.Ident); ok {
					tn = id.Name
				}
			}
			if _, tracked := c.structs[tn]; tracked {
				if !ptr {
					return nil, fmt.Errorf("%s: method %s.%s has a value receiver (copies the mutex)", c.pos(fd), tn, fd.Name.Name)
				}
				if n != lkFile {
					return nil, fmt.Errorf("%s: method %s.%s is declared outside %s", c.pos(fd), tn, fd.Name.Name, lkFile)
				}
				if fd.Body == nil {
					return nil, fmt.Errorf("%s: method %s.%s has no body", c.pos(fd), tn, fd.Name.Name)
				}
				c.structs[tn].methods[fd.Name.Name] = true
				var res []bool
				if fd.Type.Results != nil {
					for _, rf := range fd.Type.Results.List {
						n := len(rf.Names)
						if n == 0 {
							n = 1
						}
						for k := 0; k < n; k++ {
							res = append(res, lkMentionsType(rf.Type, "FeeQuote") || lkMentionsType(rf.Type, "FeeQuotes"))
						}
					}
				}
				c.structs[tn].results[fd.Name.Name] = res
				methods = append(methods, mdecl{fd, tn, n})
				continue
			}
			// any other function: must not touch a guarded field or a mutex at all
			if fd.Body != nil {
				var bad error
				ast.Inspect(fd.Body, func(x ast.Node) bool {
					if se, ok := x.(*ast.SelectorExpr); ok && c.names[se.Sel.Name] && bad == nil {
						bad = fmt.Errorf("%s: %s.%s used in %s, which is not a method of a guarded type", c.pos(se), "<expr>", se.Sel.Name, fd.Name.Name)
					}
					return true
				})
				if bad != nil {
					return nil, bad
				}
			}
		}
		// package-level variable initialisers
		for _, d := range files[n].Decls {
			if gd, ok := d.(*ast.GenDecl); ok && gd.Tok == token.VAR {
				var bad error
				ast.Inspect(gd, func(x ast.Node) bool {
					if se, ok := x.(*ast.SelectorExpr); ok && c.names[se.Sel.Name] && bad == nil {
						bad = fmt.Errorf("%s: guarded field %s used in a package-level initialiser", c.pos(se), se.Sel.Name)
					}
					return true
				})
				if bad != nil {
					return nil, bad
				}
			}
		}
	}

	// 4. the methods, in source order
	sort.SliceStable(methods, func(i, j int) bool { return methods[i].fd.Pos() < methods[j].fd.Pos() })
	for _, m := range methods {
		w := &lkWalker{c: c, tn: m.tn, elemVars: map[*ast.Object]bool{}, method: m.fd.Name.Name}
		rf := m.fd.Recv.List[0]
		if len(rf.Names) == 1 && rf.Names[0].Name != "_" {
			w.recv = rf.Names[0].Obj
		}
		if rs := m.fd.Type.Results; rs != nil && len(rs.List) > 0 {
			if id, ok := rs.List[len(rs.List)-1].Type.(*ast.Ident); ok && id.Name == "error" {
				w.errLast = true
			}
		}
		paths, err := w.walkBody(m.fd.Body)
		if err != nil {
			return nil, err
		}
		tbl.Methods = append(tbl.Methods, LkMethod{Type: m.tn, Name: m.fd.Name.Name, Line: c.line(m.fd), Paths: paths, Fails: w.pathFails(paths)})
	}
	if len(tbl.Methods) == 0 {
		return nil, fmt.Errorf("no methods found")
	}
	return tbl, nil
}

func lkMentionsType2(e ast.Expr, pkg string) bool {
	found := false
	ast.Inspect(e, func(n ast.Node) bool {
		if se, ok := n.(*ast.SelectorExpr); ok {
			if id, ok := se.X.(*ast.Ident); ok && id.Name == pkg {
				found = true
			}
		}
		return true
	})
	return found
}

// ---------------------------------------------------------------------------------------------
// path enumeration

type lkPath struct {
	acts     []LkAction
	deferred []LkAction // releases to run at return, in registration order
}

func (p lkPath) clone() lkPath {
	return lkPath{acts: append([]LkAction{}, p.acts...), deferred: append([]LkAction{}, p.deferred...)}
}

type lkWalker struct {
	c        *lkCtx
	tn       string
	method   string
	recv     *ast.Object
	elemVars map[*ast.Object]bool
	done     [][]LkAction
	// doneFail[i]: finished path i ends in a return of a possibly non-nil error; errLast: the method's last result is `error`
	doneFail []bool
	errLast  bool
}

const lkMaxPaths = 256

func (w *lkWalker) errf(n ast.Node, format string, a ...interface{}) error {
	return fmt.Errorf("%s: %s.%s: %s", w.c.pos(n), w.tn, w.method, fmt.Sprintf(format, a...))
}

// ref classifies an expression as the receiver ("self"), an element variable ("elem") or neither.
func (w *lkWalker) ref(e ast.Expr) string {
	for {
		p, ok := e.(*ast.ParenExpr)
		if !ok {
			break
		}
		e = p.X
	}
	id, ok := e.(*ast.Ident)
	if !ok || id.Obj == nil {
		return ""
	}
	if id.Obj == w.recv {
		return "self"
	}
	if w.elemVars[id.Obj] {
		return "elem"
	}
	return ""
}

func (w *lkWalker) typeOf(ref string) string {
	if ref == "self" {
		return w.tn
	}
	return "FeeQuote"
}

// guardedSel: X.f with X a tracked object and f one of its guarded fields.
func (w *lkWalker) guardedSel(e ast.Expr) (ref, field string, ok bool) {
	se, isSel := e.(*ast.SelectorExpr)
	if !isSel {
		return
	}
	r := w.ref(se.X)
	if r == "" {
		return
	}
	if _, g := w.c.structs[w.typeOf(r)].fields[se.Sel.Name]; g {
		return r, se.Sel.Name, true
	}
	return
}

// lockCall: X.mu.Lock() and friends.
func (w *lkWalker) lockCall(call *ast.CallExpr) (act LkAction, ok bool, err error) {
	fn, isSel := call.Fun.(*ast.SelectorExpr)
	if !isSel {
		return
	}
	mu, isSel := fn.X.(*ast.SelectorExpr)
	if !isSel {
		return
	}
	r := w.ref(mu.X)
	if r == "" || mu.Sel.Name != w.c.structs[w.typeOf(r)].mutex {
		return
	}
	if len(call.Args) != 0 {
		return act, false, w.errf(call, "mutex call with arguments")
	}
	act = LkAction{Obj: r, Line: w.c.line(call)}
	switch fn.Sel.Name {
	case "Lock":
		act.Kind, act.Arg = "acquire", "W"
	case "RLock":
		act.Kind, act.Arg = "acquire", "R"
	case "Unlock":
		act.Kind, act.Arg = "release", "W"
	case "RUnlock":
		act.Kind, act.Arg = "release", "R"
	default:
		return act, false, w.errf(call, "mutex method %s is not handled (TryLock, RLocker, ...)", fn.Sel.Name)
	}
	return act, true, nil
}

// exprs collects the actions of evaluating e (left to right, operands before the call).
func (w *lkWalker) expr(e ast.Expr, out *[]LkAction) error {
	if e == nil {
		return nil
	}
	switch x := e.(type) {
	case *ast.Ident:
		if w.c.names[x.Name] && x.Obj == nil {
			// an unresolved identifier with a guarded name is not a field access; nothing to do
		}
		return nil
	case *ast.BasicLit:
		return nil
	case *ast.ParenExpr:
		return w.expr(x.X, out)
	case *ast.FuncLit:
		if w.touches(x) {
			return w.errf(x, "function literal touching a guarded object")
		}
		return nil
	case *ast.CompositeLit:
		for _, el := range x.Elts {
			if kv, ok := el.(*ast.KeyValueExpr); ok {
				if _, isId := kv.Key.(*ast.Ident); !isId {
					if err := w.expr(kv.Key, out); err != nil {
						return err
					}
				}
				if err := w.value(kv.Value, out); err != nil {
					return err
				}
				continue
			}
			if err := w.value(el, out); err != nil {
				return err
			}
		}
		return nil
	case *ast.SelectorExpr:
		if r, f, ok := w.guardedSel(x); ok {
			// bare use of a guarded field as a value
			if lkIsRefType(w.c.structs[w.typeOf(r)].fields[f]) {
				return w.errf(x, "guarded %s.%s (a reference type) is used as a value: the alias escapes the lock", r, f)
			}
			*out = append(*out, LkAction{Kind: "read", Obj: r, Arg: f, Line: w.c.line(x)})
			return nil
		}
		if w.c.names[x.Sel.Name] {
			return w.errf(x, "selector .%s on an expression that is neither the receiver nor an element fetched from it", x.Sel.Name)
		}
		if w.ref(x.X) != "" {
			return w.errf(x, "method value or unknown field %s of a guarded object", x.Sel.Name)
		}
		return w.expr(x.X, out)
	case *ast.IndexExpr:
		if r, f, ok := w.guardedSel(x.X); ok {
			if err := w.expr(x.Index, out); err != nil {
				return err
			}
			*out = append(*out, LkAction{Kind: "read", Obj: r, Arg: f, Line: w.c.line(x)})
			return nil
		}
		if err := w.expr(x.X, out); err != nil {
			return err
		}
		return w.expr(x.Index, out)
	case *ast.SliceExpr:
		if _, _, ok := w.guardedSel(x.X); ok {
			return w.errf(x, "slice of a guarded field")
		}
		for _, s := range []ast.Expr{x.X, x.Low, x.High, x.Max} {
			if err := w.expr(s, out); err != nil {
				return err
			}
		}
		return nil
	case *ast.StarExpr:
		return w.expr(x.X, out)
	case *ast.UnaryExpr:
		if x.Op == token.AND && w.touches(x.X) {
			return w.errf(x, "address of (part of) a guarded object")
		}
		return w.expr(x.X, out)
	case *ast.BinaryExpr:
		// `f == nil`
		if (x.Op == token.EQL || x.Op == token.NEQ) && (w.ref(x.X) != "" || w.ref(x.Y) != "") {
			if w.ref(x.X) == "" {
				return w.expr(x.X, out)
			}
			if w.ref(x.Y) == "" {
				return w.expr(x.Y, out)
			}
			return nil
		}
		if err := w.value(x.X, out); err != nil {
			return err
		}
		return w.value(x.Y, out)
	case *ast.KeyValueExpr:
		if err := w.expr(x.Key, out); err != nil {
			return err
		}
		return w.expr(x.Value, out)
	case *ast.TypeAssertExpr:
		return w.expr(x.X, out)
	case *ast.CallExpr:
		return w.call(x, out)
	case *ast.ArrayType, *ast.MapType, *ast.StructType, *ast.FuncType, *ast.InterfaceType, *ast.ChanType:
		return nil
	}
	if w.touches(e) {
		return w.errf(e, "expression shape %T touching a guarded object is not handled", e)
	}
	return nil
}

// value: an operand whose value is copied somewhere; a bare tracked object may be compared or
// returned but not handed to other code.
func (w *lkWalker) value(e ast.Expr, out *[]LkAction) error {
	if w.ref(e) != "" {
		return w.errf(e, "the receiver or an element is copied into another place (escapes the tracking)")
	}
	return w.expr(e, out)
}

func (w *lkWalker) call(x *ast.CallExpr, out *[]LkAction) error {
	if act, ok, err := w.lockCall(x); err != nil {
		return err
	} else if ok {
		*out = append(*out, act)
		return nil
	}
	// builtins and whitelisted readers applied directly to a guarded field
	if id, ok := x.Fun.(*ast.Ident); ok && id.Obj == nil {
		switch id.Name {
		case "len":
			if len(x.Args) == 1 {
				if r, f, ok := w.guardedSel(x.Args[0]); ok {
					*out = append(*out, LkAction{Kind: "read", Obj: r, Arg: f, Line: w.c.line(x)})
					return nil
				}
			}
		case "delete":
			if len(x.Args) == 2 {
				if r, f, ok := w.guardedSel(x.Args[0]); ok {
					if err := w.expr(x.Args[1], out); err != nil {
						return err
					}
					*out = append(*out, LkAction{Kind: "write", Obj: r, Arg: f, Line: w.c.line(x)})
					return nil
				}
			}
		}
	}
	if fn, ok := x.Fun.(*ast.SelectorExpr); ok {
		// json.Marshal(f.fees): reads the field for the duration of the call and keeps no reference
		if pk, ok := fn.X.(*ast.Ident); ok && pk.Obj == nil && pk.Name == "json" && fn.Sel.Name == "Marshal" && len(x.Args) == 1 {
			if r, f, ok := w.guardedSel(x.Args[0]); ok {
				*out = append(*out, LkAction{Kind: "read", Obj: r, Arg: f, Line: w.c.line(x)})
				return nil
			}
		}
		// f.expiryTime.Before(...): value-receiver method of a plain value field
		if r, f, ok := w.guardedSel(fn.X); ok {
			if lkIsRefType(w.c.structs[w.typeOf(r)].fields[f]) {
				return w.errf(x, "method call on guarded reference field %s.%s", r, f)
			}
			for _, a := range x.Args {
				if err := w.arg(a, out); err != nil {
					return err
				}
			}
			*out = append(*out, LkAction{Kind: "read", Obj: r, Arg: f, Line: w.c.line(x)})
			return nil
		}
		// a method of a tracked object
		if r := w.ref(fn.X); r != "" {
			if !w.c.structs[w.typeOf(r)].methods[fn.Sel.Name] {
				return w.errf(x, "call of %s.%s, which is not a declared method of %s", r, fn.Sel.Name, w.typeOf(r))
			}
			for _, a := range x.Args {
				if err := w.arg(a, out); err != nil {
					return err
				}
			}
			*out = append(*out, LkAction{Kind: "call", Obj: r, Arg: fn.Sel.Name, Line: w.c.line(x)})
			return nil
		}
	}
	if fn, ok := x.Fun.(*ast.SelectorExpr); ok {
		pkg := false
		if id, isId := fn.X.(*ast.Ident); isId && id.Obj == nil {
			pkg = true // package-qualified function
		}
		if !pkg {
			for tn, st := range w.c.structs {
				if st.methods[fn.Sel.Name] {
					return w.errf(x, "call of %s (a method of %s) on an expression that is neither the receiver nor a tracked element", fn.Sel.Name, tn)
				}
			}
		}
	}
	if err := w.expr(x.Fun, out); err != nil {
		return err
	}
	for _, a := range x.Args {
		if err := w.arg(a, out); err != nil {
			return err
		}
	}
	return nil
}

// arg: an argument handed to other code: must not be a tracked object or (part of) a reference field.
func (w *lkWalker) arg(a ast.Expr, out *[]LkAction) error {
	if w.ref(a) != "" {
		return w.errf(a, "guarded object passed as an argument (the callee could lock it or touch its fields)")
	}
	return w.expr(a, out)
}

// touches: does the subtree mention a tracked object, a guarded field name or a mutex?
func (w *lkWalker) touches(n ast.Node) bool {
	found := false
	ast.Inspect(n, func(x ast.Node) bool {
		switch y := x.(type) {
		case *ast.Ident:
			if y.Obj != nil && (y.Obj == w.recv || w.elemVars[y.Obj]) {
				found = true
			}
		case *ast.SelectorExpr:
			if w.c.names[y.Sel.Name] {
				found = true
			}
		}
		return !found
	})
	return found
}

func lkHasReturn(n ast.Node) bool {
	found := false
	ast.Inspect(n, func(x ast.Node) bool {
		switch x.(type) {
		case *ast.FuncLit:
			return false
		case *ast.ReturnStmt:
			found = true
		}
		return !found
	})
	return found
}

func (w *lkWalker) finish(p lkPath) { w.finishFail(p, false) }

func (w *lkWalker) finishFail(p lkPath, fails bool) {
	acts := append([]LkAction{}, p.acts...)
	for i := len(p.deferred) - 1; i >= 0; i-- {
		acts = append(acts, p.deferred[i])
	}
	w.done = append(w.done, acts)
	w.doneFail = append(w.doneFail, fails)
}

// returnsFailure: a return statement of a method whose last result is `error` reports failure unless its last operand is
// the identifier nil. A return without operands (named results) and a return of a call's results count as failure too
// (it cannot be told syntactically; erring on this side asks more of the path, never less).
func (w *lkWalker) returnsFailure(x *ast.ReturnStmt) bool {
	if !w.errLast {
		return false
	}
	if len(x.Results) == 0 {
		return true
	}
	if id, ok := x.Results[len(x.Results)-1].(*ast.Ident); ok && id.Name == "nil" {
		return false
	}
	return true
}

// lkPathFails: per listed path (identical action sequences are listed once), whether any of the finished paths with
// these actions reports failure.
func (w *lkWalker) pathFails(paths [][]LkAction) []bool {
	key := func(p []LkAction) string {
		k := ""
		for _, a := range p {
			k += a.Kind + " " + a.Obj + " " + a.Arg + ";"
		}
		return k
	}
	failing := map[string]bool{}
	for i, p := range w.done {
		if i < len(w.doneFail) && w.doneFail[i] {
			failing[key(p)] = true
		}
	}
	out := make([]bool, len(paths))
	for i, p := range paths {
		out[i] = failing[key(p)]
	}
	return out
}

func (w *lkWalker) walkBody(b *ast.BlockStmt) ([][]LkAction, error) {
	live, err := w.stmts(b.List, []lkPath{{}})
	if err != nil {
		return nil, err
	}
	for _, p := range live {
		w.finish(p)
	}
	if len(w.done) > lkMaxPaths {
		return nil, w.errf(b, "more than %d control-flow paths", lkMaxPaths)
	}
	// identical paths are listed once (order of first occurrence)
	var out [][]LkAction
	seen := map[string]bool{}
	for _, p := range w.done {
		k := ""
		for _, a := range p {
			k += a.Kind + " " + a.Obj + " " + a.Arg + ";"
		}
		if !seen[k] {
			seen[k] = true
			out = append(out, p)
		}
	}
	return out, nil
}

func (w *lkWalker) stmts(list []ast.Stmt, live []lkPath) ([]lkPath, error) {
	var err error
	for _, s := range list {
		if len(live) == 0 {
			break // unreachable code after return on every path
		}
		live, err = w.stmt(s, live)
		if err != nil {
			return nil, err
		}
		if len(live)+len(w.done) > lkMaxPaths {
			return nil, w.errf(s, "more than %d control-flow paths", lkMaxPaths)
		}
	}
	return live, nil
}

func lkAppendAll(live []lkPath, acts []LkAction) []lkPath {
	if len(acts) == 0 {
		return live
	}
	out := make([]lkPath, len(live))
	for i, p := range live {
		q := p.clone()
		q.acts = append(q.acts, acts...)
		out[i] = q
	}
	return out
}

// markElems: `v := f.quotes[k]` / `v, ok := f.quotes[k]` make v an element variable.
func (w *lkWalker) markElems(s *ast.AssignStmt) error {
	if len(s.Rhs) != 1 {
		return nil
	}
	if call, ok := s.Rhs[0].(*ast.CallExpr); ok {
		// `q, err := f.Quote(name)`: a guarded object handed back by a method of the receiver
		fn, ok := call.Fun.(*ast.SelectorExpr)
		if !ok {
			return nil
		}
		r := w.ref(fn.X)
		if r == "" {
			return nil
		}
		for i, tracked := range w.c.structs[w.typeOf(r)].results[fn.Sel.Name] {
			if !tracked || i >= len(s.Lhs) {
				continue
			}
			id, ok := s.Lhs[i].(*ast.Ident)
			if !ok {
				return w.errf(s, "guarded object returned by %s stored into something that is not a local variable", fn.Sel.Name)
			}
			if id.Name == "_" {
				continue
			}
			if r != "self" || w.tn != "FeeQuotes" || id.Obj == nil {
				return w.errf(s, "guarded object returned by %s.%s: only FeeQuotes methods fetching a FeeQuote into a local are handled", r, fn.Sel.Name)
			}
			w.elemVars[id.Obj] = true
		}
		return nil
	}
	ix, ok := s.Rhs[0].(*ast.IndexExpr)
	if !ok {
		return nil
	}
	r, f, ok := w.guardedSel(ix.X)
	if !ok {
		return nil
	}
	if _, isElem := w.c.structs[w.typeOf(r)].elemOf[f]; !isElem {
		return nil
	}
	if r != "self" {
		return w.errf(s, "element of an element")
	}
	id, ok := s.Lhs[0].(*ast.Ident)
	if !ok {
		return w.errf(s, "element of %s.%s stored into something that is not a local variable", r, f)
	}
	if id.Name == "_" {
		return nil
	}
	if id.Obj == nil {
		return w.errf(s, "element variable %s is not a local", id.Name)
	}
	w.elemVars[id.Obj] = true
	return nil
}

func (w *lkWalker) stmt(s ast.Stmt, live []lkPath) ([]lkPath, error) {
	switch x := s.(type) {
	case nil:
		return live, nil
	case *ast.EmptyStmt:
		return live, nil
	case *ast.BlockStmt:
		return w.stmts(x.List, live)
	case *ast.ExprStmt:
		var acts []LkAction
		if err := w.expr(x.X, &acts); err != nil {
			return nil, err
		}
		return lkAppendAll(live, acts), nil
	case *ast.DeferStmt:
		act, ok, err := w.lockCall(x.Call)
		if err != nil {
			return nil, err
		}
		if !ok {
			if w.touches(x.Call) {
				return nil, w.errf(x, "deferred call touching a guarded object that is not a plain mutex release")
			}
			return live, nil
		}
		if act.Kind != "release" {
			return nil, w.errf(x, "deferred acquire")
		}
		out := make([]lkPath, len(live))
		for i, p := range live {
			q := p.clone()
			q.deferred = append(q.deferred, act)
			out[i] = q
		}
		return out, nil
	case *ast.ReturnStmt:
		var acts []LkAction
		for _, r := range x.Results {
			if w.ref(r) != "" {
				continue // returning the object itself: no field access
			}
			if err := w.expr(r, &acts); err != nil {
				return nil, err
			}
		}
		fails := w.returnsFailure(x)
		for _, p := range lkAppendAll(live, acts) {
			w.finishFail(p, fails)
		}
		return nil, nil
	case *ast.AssignStmt:
		var acts []LkAction
		for _, r := range x.Rhs {
			if err := w.value(r, &acts); err != nil {
				return nil, err
			}
		}
		for _, l := range x.Lhs {
			if r, f, ok := w.guardedSel(l); ok {
				if x.Tok != token.ASSIGN {
					acts = append(acts, LkAction{Kind: "read", Obj: r, Arg: f, Line: w.c.line(l)})
				}
				acts = append(acts, LkAction{Kind: "write", Obj: r, Arg: f, Line: w.c.line(l)})
				continue
			}
			if ix, isIx := l.(*ast.IndexExpr); isIx {
				if r, f, ok := w.guardedSel(ix.X); ok {
					if err := w.expr(ix.Index, &acts); err != nil {
						return nil, err
					}
					if x.Tok != token.ASSIGN {
						acts = append(acts, LkAction{Kind: "read", Obj: r, Arg: f, Line: w.c.line(l)})
					}
					acts = append(acts, LkAction{Kind: "write", Obj: r, Arg: f, Line: w.c.line(l)})
					continue
				}
			}
			if id, isId := l.(*ast.Ident); isId {
				if id.Obj != nil && (id.Obj == w.recv || w.elemVars[id.Obj]) {
					return nil, w.errf(l, "the receiver or an element variable is re-assigned")
				}
				continue
			}
			if w.touches(l) {
				return nil, w.errf(l, "assignment through a guarded object that is not `x.field = v` or `x.field[k] = v`")
			}
			if err := w.expr(l, &acts); err != nil {
				return nil, err
			}
		}
		if err := w.markElems(x); err != nil {
			return nil, err
		}
		// an alias of a tracked object in a new variable would escape the tracking
		for _, r := range x.Rhs {
			if w.ref(r) != "" {
				return nil, w.errf(r, "the receiver or an element is copied into another variable")
			}
		}
		return lkAppendAll(live, acts), nil
	case *ast.IncDecStmt:
		var acts []LkAction
		if r, f, ok := w.guardedSel(x.X); ok {
			acts = append(acts, LkAction{Kind: "read", Obj: r, Arg: f, Line: w.c.line(x)}, LkAction{Kind: "write", Obj: r, Arg: f, Line: w.c.line(x)})
			return lkAppendAll(live, acts), nil
		}
		if ix, isIx := x.X.(*ast.IndexExpr); isIx {
			if r, f, ok := w.guardedSel(ix.X); ok {
				if err := w.expr(ix.Index, &acts); err != nil {
					return nil, err
				}
				acts = append(acts, LkAction{Kind: "read", Obj: r, Arg: f, Line: w.c.line(x)}, LkAction{Kind: "write", Obj: r, Arg: f, Line: w.c.line(x)})
				return lkAppendAll(live, acts), nil
			}
		}
		if w.touches(x.X) {
			return nil, w.errf(x, "++/-- through a guarded object")
		}
		return live, nil
	case *ast.DeclStmt:
		gd, ok := x.Decl.(*ast.GenDecl)
		if !ok {
			return nil, w.errf(x, "declaration statement")
		}
		var acts []LkAction
		for _, sp := range gd.Specs {
			if vs, ok := sp.(*ast.ValueSpec); ok {
				for _, v := range vs.Values {
					if w.ref(v) != "" {
						return nil, w.errf(v, "the receiver or an element is copied into another variable")
					}
					if err := w.value(v, &acts); err != nil {
						return nil, err
					}
				}
			}
		}
		return lkAppendAll(live, acts), nil
	case *ast.IfStmt:
		var err error
		live, err = w.stmt(x.Init, live)
		if err != nil {
			return nil, err
		}
		var acts []LkAction
		if err := w.expr(x.Cond, &acts); err != nil {
			return nil, err
		}
		live = lkAppendAll(live, acts)
		thenLive, err := w.stmts(x.Body.List, clonePaths(live))
		if err != nil {
			return nil, err
		}
		elseLive := clonePaths(live)
		if x.Else != nil {
			elseLive, err = w.stmt(x.Else, elseLive)
			if err != nil {
				return nil, err
			}
		}
		return append(thenLive, elseLive...), nil
	case *ast.ForStmt, *ast.RangeStmt, *ast.SwitchStmt, *ast.TypeSwitchStmt, *ast.SelectStmt, *ast.LabeledStmt:
		// opaque control flow: allowed only when the body does not touch a guarded object; the
		// header of a range/for may read a guarded field once before the loop.
		var acts []LkAction
		var body ast.Node = x
		if rs, ok := x.(*ast.RangeStmt); ok {
			if r, f, ok := w.guardedSel(rs.X); ok {
				return nil, w.errf(rs, "range over guarded %s.%s: the iteration is not one atomic read", r, f)
			}
			if err := w.expr(rs.X, &acts); err != nil {
				return nil, err
			}
			body = rs.Body
			for _, kv := range []ast.Expr{rs.Key, rs.Value} {
				if kv != nil && w.touches(kv) {
					return nil, w.errf(rs, "range variable is a guarded object")
				}
			}
		}
		if w.touches(body) {
			return nil, w.errf(x, "loop/switch/select whose body touches a guarded object is not handled")
		}
		live = lkAppendAll(live, acts)
		if lkHasReturn(body) {
			for _, p := range live {
				w.finish(p) // a return somewhere inside: deferred releases run, nothing else to record
			}
		}
		return live, nil
	case *ast.GoStmt:
		if w.touches(x) {
			return nil, w.errf(x, "go statement touching a guarded object")
		}
		return live, nil
	case *ast.BranchStmt, *ast.SendStmt:
		if w.touches(x) {
			return nil, w.errf(x, "statement touching a guarded object")
		}
		return live, nil
	}
	return nil, w.errf(s, "statement shape %T is not handled", s)
}

func clonePaths(ps []lkPath) []lkPath {
	out := make([]lkPath, len(ps))
	for i, p := range ps {
		out[i] = p.clone()
	}
	return out
}

// ---------------------------------------------------------------------------------------------
// Coq output (plain data: strings only, decoded and judged by coq/model/Locks.v)

func lkCoqString(s string) string { return "\"" + strings.ReplaceAll(s, "\"", "\"\"") + "\"" }

// LocksCoqTerm renders the method table as a Gallina term (used by the generated file and by the
// run-time harness, which re-extracts the table from the checkout it was built against).
func LocksCoqTerm(t *LkTable, comments bool) string {
	var sb strings.Builder
	sb.WriteString("[\n")
	for i, m := range t.Methods {
		if comments {
			fmt.Fprintf(&sb, "  (* %s:%d *)\n", lkFile, m.Line)
		}
		fmt.Fprintf(&sb, "  (%s, %s, [", lkCoqString(m.Type), lkCoqString(m.Name))
		for j, p := range m.Paths {
			if j > 0 {
				sb.WriteString(";")
			}
			sb.WriteString("\n     [")
			for k, a := range p {
				if k > 0 {
					sb.WriteString("; ")
				}
				fmt.Fprintf(&sb, "(%s, %s, %s)", lkCoqString(a.Kind), lkCoqString(a.Obj), lkCoqString(a.Arg))
			}
			sb.WriteString("]")
		}
		sb.WriteString("])")
		if i+1 < len(t.Methods) {
			sb.WriteString(";")
		}
		sb.WriteString("\n")
	}
	sb.WriteString("]")
	return sb.String()
}

// LockFailsCoqTerm renders, per method, which of its listed paths may report failure (a term of type
// list (string * string * list bool), aligned with LocksCoqTerm's paths).
func LockFailsCoqTerm(t *LkTable) string {
	var sb strings.Builder
	sb.WriteString("[")
	for i, m := range t.Methods {
		if i > 0 {
			sb.WriteString(";")
		}
		fmt.Fprintf(&sb, "\n  (%s, %s, [", lkCoqString(m.Type), lkCoqString(m.Name))
		for k := range m.Paths {
			if k > 0 {
				sb.WriteString("; ")
			}
			if k < len(m.Fails) && m.Fails[k] {
				sb.WriteString("true")
			} else {
				sb.WriteString("false")
			}
		}
		sb.WriteString("])")
	}
	sb.WriteString("\n]")
	return sb.String()
}

func genLocks(repo string) (string, error) {
	t, err := LockTable(repo)
	if err != nil {
		return "", err
	}
	var sb strings.Builder
	sb.WriteString(Header)
	sb.WriteString(`(* fees.go: lock discipline of FeeQuotes / FeeQuote. For every method, in source order, every
   control-flow path as a list of atomic actions (kind, object, argument):
     ("acquire"|"release", "self"|"elem", "R"|"W")   RLock/Lock, RUnlock/Unlock of that object's RWMutex
     ("read"|"write",      "self"|"elem", field)     access to a guarded field of that object
     ("call",              "self"|"elem", method)    call of another method of a guarded type on that object
   "elem" is a *FeeQuote fetched out of the receiver's map. Deferred unlocks appear at every return,
   after the return operands. Plain data; coq/model/Locks.v decodes and judges it. *)
From Coq Require Import List String.
Import ListNotations.
Local Open Scope string_scope.

`)
	sb.WriteString("Definition mutex_fields : list (string * string) := [")
	for i, g := range t.Mutex {
		if i > 0 {
			sb.WriteString("; ")
		}
		fmt.Fprintf(&sb, "(%s, %s)", lkCoqString(g[0]), lkCoqString(g[1]))
	}
	sb.WriteString("].\n")
	sb.WriteString("Definition guarded_fields : list (string * string) := [")
	for i, g := range t.Guarded {
		if i > 0 {
			sb.WriteString("; ")
		}
		fmt.Fprintf(&sb, "(%s, %s)", lkCoqString(g[0]), lkCoqString(g[1]))
	}
	sb.WriteString("].\n")
	sb.WriteString("Definition elem_fields : list (string * string * string) := [")
	for i, g := range t.Elems {
		if i > 0 {
			sb.WriteString("; ")
		}
		fmt.Fprintf(&sb, "(%s, %s, %s)", lkCoqString(g[0]), lkCoqString(g[1]), lkCoqString(g[2]))
	}
	sb.WriteString("].\n\n")
	sb.WriteString("Definition fee_methods : list (string * string * list (list (string * string * string))) :=\n")
	sb.WriteString(LocksCoqTerm(t, true))
	sb.WriteString(".\n\n")
	sb.WriteString(`(* Per method, per path listed above (same order): may a call report FAILURE after exactly these actions - does some
   control-flow path with these actions end in a return whose last operand (of type error) is not the literal nil.
   coq/model/FailedWrites.v judges: such a path stores nothing (no write, calls inlined). *)
`)
	sb.WriteString("Definition fee_method_fails : list (string * string * list bool) :=\n")
	sb.WriteString(LockFailsCoqTerm(t))
	sb.WriteString(".\n")
	return sb.String(), nil
}
