package gen

// Translator part for the interpreter model: the era limits of bscript/interpreter/config.go, the bit
// positions of scriptflag.Flag (an iota block), LockTimeThreshold and the sequence constants of consts.go.
// Emits coq/gen/InterpConsts.v; proofs/DispatchProofs.v proves the model's constants equal them.

import (
	"fmt"
	"go/ast"
	"go/constant"
	"go/token"
	"strings"
)

func init() { Register("InterpConsts.v", genInterpConsts) }

// constValues evaluates the integer constants of one file: literals (decimal, hex, float such as 5e8),
// the operators << | + - *, iota, and implicit repetition inside a const block. Anything else is skipped
// (and reported as "not found" if asked for): fail closed.
func constValues(repo, rel string) (map[string]string, []string, error) {
	_, f, err := ParseFile(repo, rel)
	if err != nil {
		return nil, nil, err
	}
	vals := map[string]string{}
	known := map[string]constant.Value{}
	var order []string
	var eval func(e ast.Expr, iota int64) (constant.Value, bool)
	eval = func(e ast.Expr, iota int64) (constant.Value, bool) {
		switch x := e.(type) {
		case *ast.BasicLit:
			if x.Kind == token.INT || x.Kind == token.FLOAT {
				v := constant.MakeFromLiteral(x.Value, x.Kind, 0)
				return constant.ToInt(v), constant.ToInt(v).Kind() == constant.Int
			}
		case *ast.Ident:
			if x.Name == "iota" {
				return constant.MakeInt64(iota), true
			}
			v, ok := known[x.Name]
			return v, ok
		case *ast.ParenExpr:
			return eval(x.X, iota)
		case *ast.CallExpr: // conversions like uint32(…)
			if len(x.Args) == 1 {
				return eval(x.Args[0], iota)
			}
		case *ast.BinaryExpr:
			l, ok1 := eval(x.X, iota)
			r, ok2 := eval(x.Y, iota)
			if !ok1 || !ok2 {
				return nil, false
			}
			switch x.Op {
			case token.SHL:
				n, ok := constant.Uint64Val(r)
				if !ok {
					return nil, false
				}
				return constant.Shift(l, token.SHL, uint(n)), true
			case token.OR, token.ADD, token.SUB, token.MUL:
				return constant.BinaryOp(l, x.Op, r), true
			}
		}
		return nil, false
	}
	for _, d := range f.Decls {
		gd, ok := d.(*ast.GenDecl)
		if !ok || gd.Tok != token.CONST {
			continue
		}
		var last []ast.Expr
		for i, sp := range gd.Specs {
			vs := sp.(*ast.ValueSpec)
			exprs := vs.Values
			if len(exprs) == 0 {
				exprs = last
			} else {
				last = exprs
			}
			for j, n := range vs.Names {
				order = append(order, n.Name)
				if j >= len(exprs) {
					continue
				}
				if v, ok := eval(exprs[j], int64(i)); ok {
					known[n.Name] = v
					vals[n.Name] = v.ExactString()
				}
			}
		}
	}
	return vals, order, nil
}

func genInterpConsts(repo string) (string, error) {
	var sb strings.Builder
	sb.WriteString(Header)
	sb.WriteString("From Coq Require Import List NArith ZArith String.\nImport ListNotations.\nLocal Open Scope string_scope.\n\n")
	emit := func(title, rel string, want []string) error {
		vals, _, err := constValues(repo, rel)
		if err != nil {
			return err
		}
		fmt.Fprintf(&sb, "(* %s *)\n", rel)
		fmt.Fprintf(&sb, "Definition %s : list (string * Z) := [\n", title)
		for i, n := range want {
			v, ok := vals[n]
			if !ok {
				return fmt.Errorf("%s: constant %s not found or not an integer constant", rel, n)
			}
			sep := ";"
			if i == len(want)-1 {
				sep = ""
			}
			fmt.Fprintf(&sb, "  (\"%s\", (%s)%%Z)%s\n", n, v, sep)
		}
		sb.WriteString("].\n\n")
		return nil
	}
	if err := emit("config_consts", "bscript/interpreter/config.go", []string{"MaxOpsBeforeGenesis", "MaxStackSizeBeforeGenesis",
		"MaxScriptSizeBeforeGenesis", "MaxScriptElementSizeBeforeGenesis", "MaxScriptNumberLengthBeforeGenesis", "MaxPubKeysPerMultiSigBeforeGenesis"}); err != nil {
		return "", err
	}
	if err := emit("flag_consts", "bscript/interpreter/scriptflag/scriptflag.go", []string{"Bip16", "StrictMultiSig", "DiscourageUpgradableNops",
		"VerifyCheckLockTimeVerify", "VerifyCheckSequenceVerify", "VerifyCleanStack", "VerifyDERSignatures", "VerifyLowS", "VerifyMinimalData",
		"VerifyNullFail", "VerifySigPushOnly", "EnableSighashForkID", "VerifyStrictEncoding", "VerifyBip143SigHash", "UTXOAfterGenesis", "VerifyMinimalIf"}); err != nil {
		return "", err
	}
	if err := emit("consensus_consts", "bscript/interpreter/consensus.go", []string{"LockTimeThreshold"}); err != nil {
		return "", err
	}
	if err := emit("sequence_consts", "consts.go", []string{"MaxTxInSequenceNum", "SequenceLockTimeDisabled", "SequenceLockTimeIsSeconds", "SequenceLockTimeMask"}); err != nil {
		return "", err
	}
	return sb.String(), nil
}
