package gen

// Translator part for the interpreter model: the era limits of bscript/interpreter/config.go, the bit
// positions of scriptflag.Flag (an iota block), LockTimeThreshold and the sequence constants of consts.go.
// Emits coq/gen/InterpConsts.v; proofs/DispatchProofs.v proves the model's constants equal them.

import (
	"fmt"
	"go/ast"
	"go/constant"
	"go/token"
	"sort"
	"strings"
)

func init() { Register("InterpConsts.v", genInterpConsts) }

// constValues evaluates the integer constants of one file: literals (decimal, hex, float such as 5e8),
// the operators << | + - *, iota, and implicit repetition inside a const block. Anything else is skipped
// (and reported as "not found" if asked for): fail closed.
func constValues(repo, rel string) (map[string]string, []string, error) {
	_, f, err := ParseFile(repo, rel)
	if err != nil {
		return nil, nil, err
	}
	vals := map[string]string{}
	known := map[string]constant.Value{}
	var order []string
	var eval func(e ast.Expr, iota int64) (constant.Value, bool)
	eval = func(e ast.Expr, iota int64) (constant.Value, bool) {
		switch x := e.(type) {
		case *ast.BasicLit:
			if x.Kind == token.INT || x.Kind == token.FLOAT {
				v := constant.MakeFromLiteral(x.Value, x.Kind, 0)
				return constant.ToInt(v), constant.ToInt(v).Kind() == constant.Int
			}
		case *ast.Ident:
			if x.Name == "iota" {
				return constant.MakeInt64(iota), true
			}
			v, ok := known[x.Name]
			return v, ok
		case *ast.ParenExpr:
			return eval(x.X, iota)
		case *ast.CallExpr: // conversions like uint32(…)
			if len(x.Args) == 1 {
				return eval(x.Args[0], iota)
			}
		case *ast.BinaryExpr:
			l, ok1 := eval(x.X, iota)
			r, ok2 := eval(x.Y, iota)
			if !ok1 || !ok2 {
				return nil, false
			}
			switch x.Op {
			case token.SHL:
				n, ok := constant.Uint64Val(r)
				if !ok {
					return nil, false
				}
				return constant.Shift(l, token.SHL, uint(n)), true
			case token.OR, token.ADD, token.SUB, token.MUL:
				return constant.BinaryOp(l, x.Op, r), true
			}
		}
		return nil, false
	}
	for _, d := range f.Decls {
		gd, ok := d.(*ast.GenDecl)
		if !ok || gd.Tok != token.CONST {
			continue
		}
		var last []ast.Expr
		for i, sp := range gd.Specs {
			vs := sp.(*ast.ValueSpec)
			exprs := vs.Values
			if len(exprs) == 0 {
				exprs = last
			} else {
				last = exprs
			}
			for j, n := range vs.Names {
				order = append(order, n.Name)
				if j >= len(exprs) {
					continue
				}
				if v, ok := eval(exprs[j], int64(i)); ok {
					known[n.Name] = v
					vals[n.Name] = v.ExactString()
				}
			}
		}
	}
	return vals, order, nil
}

// configMethods: what every method of beforeGenesisConfig / afterGenesisConfig returns. Each body must be a single
// `return <constant expression>` over literals, the file's constants, math.MaxInt32 / math.MaxInt64, * + - and
// true / false (rendered 1 / 0); anything else fails closed.
func configMethods(repo, rel string) ([][2]string, error) {
	_, f, err := ParseFile(repo, rel)
	if err != nil {
		return nil, err
	}
	vals, _, err := constValues(repo, rel)
	if err != nil {
		return nil, err
	}
	var eval func(e ast.Expr) (constant.Value, bool)
	eval = func(e ast.Expr) (constant.Value, bool) {
		switch x := e.(type) {
		case *ast.BasicLit:
			if x.Kind == token.INT {
				return constant.MakeFromLiteral(x.Value, x.Kind, 0), true
			}
		case *ast.Ident:
			switch x.Name {
			case "true":
				return constant.MakeInt64(1), true
			case "false":
				return constant.MakeInt64(0), true
			}
			if v, ok := vals[x.Name]; ok {
				return constant.MakeFromLiteral(v, token.INT, 0), true
			}
		case *ast.SelectorExpr:
			if id, ok := x.X.(*ast.Ident); ok && id.Name == "math" {
				switch x.Sel.Name {
				case "MaxInt32":
					return constant.MakeInt64(2147483647), true
				case "MaxInt64":
					return constant.MakeInt64(9223372036854775807), true
				}
			}
		case *ast.ParenExpr:
			return eval(x.X)
		case *ast.BinaryExpr:
			l, ok1 := eval(x.X)
			r, ok2 := eval(x.Y)
			if ok1 && ok2 && (x.Op == token.MUL || x.Op == token.ADD || x.Op == token.SUB) {
				return constant.BinaryOp(l, x.Op, r), true
			}
		}
		return nil, false
	}
	var out [][2]string
	for _, d := range f.Decls {
		fd, ok := d.(*ast.FuncDecl)
		if !ok || fd.Recv == nil || len(fd.Recv.List) != 1 {
			continue
		}
		recv := ""
		if st, ok := fd.Recv.List[0].Type.(*ast.StarExpr); ok {
			if id, ok := st.X.(*ast.Ident); ok {
				recv = id.Name
			}
		}
		if recv != "beforeGenesisConfig" && recv != "afterGenesisConfig" {
			continue
		}
		if fd.Body == nil || len(fd.Body.List) != 1 {
			return nil, fmt.Errorf("%s: method %s.%s is not a single return statement", rel, recv, fd.Name.Name)
		}
		ret, ok := fd.Body.List[0].(*ast.ReturnStmt)
		if !ok || len(ret.Results) != 1 {
			return nil, fmt.Errorf("%s: method %s.%s is not a single return statement", rel, recv, fd.Name.Name)
		}
		v, ok := eval(ret.Results[0])
		if !ok {
			return nil, fmt.Errorf("%s: method %s.%s returns an expression the translator cannot evaluate", rel, recv, fd.Name.Name)
		}
		out = append(out, [2]string{recv + "." + fd.Name.Name, v.ExactString()})
	}
	sort.Slice(out, func(i, j int) bool { return out[i][0] < out[j][0] })
	if len(out) != 14 {
		return nil, fmt.Errorf("%s: expected 14 config methods (7 per era), found %d", rel, len(out))
	}
	return out, nil
}

func genInterpConsts(repo string) (string, error) {
	var sb strings.Builder
	sb.WriteString(Header)
	sb.WriteString("From Coq Require Import List NArith ZArith String.\nImport ListNotations.\nLocal Open Scope string_scope.\n\n")
	emit := func(title, rel string, want []string) error {
		vals, _, err := constValues(repo, rel)
		if err != nil {
			return err
		}
		fmt.Fprintf(&sb, "(* %s *)\n", rel)
		fmt.Fprintf(&sb, "Definition %s : list (string * Z) := [\n", title)
		for i, n := range want {
			v, ok := vals[n]
			if !ok {
				return fmt.Errorf("%s: constant %s not found or not an integer constant", rel, n)
			}
			sep := ";"
			if i == len(want)-1 {
				sep = ""
			}
			fmt.Fprintf(&sb, "  (\"%s\", (%s)%%Z)%s\n", n, v, sep)
		}
		sb.WriteString("].\n\n")
		return nil
	}
	if err := emit("config_consts", "bscript/interpreter/config.go", []string{"MaxOpsBeforeGenesis", "MaxStackSizeBeforeGenesis",
		"MaxScriptSizeBeforeGenesis", "MaxScriptElementSizeBeforeGenesis", "MaxScriptNumberLengthBeforeGenesis", "MaxPubKeysPerMultiSigBeforeGenesis"}); err != nil {
		return "", err
	}
	cm, err := configMethods(repo, "bscript/interpreter/config.go")
	if err != nil {
		return "", err
	}
	sb.WriteString("(* bscript/interpreter/config.go: what the methods of the two era configurations return *)\nDefinition config_methods : list (string * Z) := [\n")
	for i, kv := range cm {
		sep := ";"
		if i == len(cm)-1 {
			sep = ""
		}
		fmt.Fprintf(&sb, "  (\"%s\", (%s)%%Z)%s\n", kv[0], kv[1], sep)
	}
	sb.WriteString("].\n\n")
	if err := emit("flag_consts", "bscript/interpreter/scriptflag/scriptflag.go", []string{"Bip16", "StrictMultiSig", "DiscourageUpgradableNops",
		"VerifyCheckLockTimeVerify", "VerifyCheckSequenceVerify", "VerifyCleanStack", "VerifyDERSignatures", "VerifyLowS", "VerifyMinimalData",
		"VerifyNullFail", "VerifySigPushOnly", "EnableSighashForkID", "VerifyStrictEncoding", "VerifyBip143SigHash", "UTXOAfterGenesis", "VerifyMinimalIf"}); err != nil {
		return "", err
	}
	if err := emit("consensus_consts", "bscript/interpreter/consensus.go", []string{"LockTimeThreshold"}); err != nil {
		return "", err
	}
	if err := emit("sequence_consts", "consts.go", []string{"MaxTxInSequenceNum", "SequenceLockTimeDisabled", "SequenceLockTimeIsSeconds", "SequenceLockTimeMask"}); err != nil {
		return "", err
	}
	return sb.String(), nil
}
