package sigspec

// Signatures whose stack item is longer than a strict-DER one (additions for C06; nothing here changes
// the older functions of the package).
//
// Without DERSIG / STRICTENC / LOW_S a signature is read with the lax parser, which accepts any number of
// zero bytes in front of R or S. Such a signature, with its hash-type byte, can be 76 bytes or longer: its
// push is then OP_PUSHDATA1 <len> <sig> and no longer a length byte, and THAT is the push the original
// digest removes from the script code (FindAndDelete of CScript() << sig).

import (
	"bytes"
	"math/big"

	"verif/harness/common"
)

// where the zero bytes of SignPadded go
const (
	PadInR = iota
	PadInS
	PadInBoth
)

// SignPadded signs hash with d and renders the signature body (no hash-type byte) as 30 LL 02 rl R 02 sl S
// with correct one-byte lengths and exactly bodyLen bytes: R (where = PadInS: S; PadInBoth: half each) gets as
// many leading zero bytes as that takes. S is the low one of the twins. bodyLen must be between 73 and 129 (so
// that every length byte stays below 0x80, where go-bk's ParseSignature and the node's lax parser read lengths alike).
func SignPadded(r *common.Rand, d *big.Int, hash []byte, bodyLen int, where int) []byte {
	if bodyLen < 73 || bodyLen > 129 {
		panic("sigspec: SignPadded: body length out of range")
	}
	for {
		k := new(big.Int).SetBytes(r.Bytes(32))
		k.Mod(k, curve.N)
		if k.Sign() == 0 {
			continue
		}
		R, S, ok := signK(d, hash, k)
		if !ok {
			continue
		}
		if S.Cmp(halfN) > 0 {
			S.Sub(curve.N, S)
		}
		rb, sb := derInt(R), derInt(S)
		pad := bodyLen - 6 - len(rb) - len(sb)
		if pad < 0 {
			continue
		}
		switch where {
		case PadInS:
			sb = append(make([]byte, pad), sb...)
		case PadInBoth:
			rb = append(make([]byte, pad/2), rb...)
			sb = append(make([]byte, pad-pad/2), sb...)
		default:
			rb = append(make([]byte, pad), rb...)
		}
		out := derSeq(rb, sb)
		if len(out) != bodyLen {
			panic("sigspec: SignPadded: length")
		}
		return out
	}
}

// SpecCodeSized is SpecCode for scripts that carry signatures of a known, not necessarily DER-sized, length:
// sizeOf(slot) is the length (hash-type byte included) of the signature of a slot that is not signed yet;
// the stand-in used for its push has that length, so that the push form (length byte below 76 bytes,
// OP_PUSHDATA1 from 76 on, ...) is the one the finished signature will have. Everything else is SpecCode's
// rule: the opcodes after the most recently executed OP_CODESEPARATOR before at, minus every opcode whose
// serialisation is byte for byte NodePush of a signature in strip, minus (legacy) every OP_CODESEPARATOR.
func SpecCodeSized(script []Op, at int, legacy bool, strip map[int]bool, sigs [][]byte, omitUnknown bool, sizeOf func(slot int) int) []byte {
	start := 0
	for i := 0; i < at; i++ {
		if script[i].Code == 0xab && script[i].SepExec == 1 {
			start = i + 1
		}
	}
	known := func(slot int) bool { return sigs != nil && slot < len(sigs) && sigs[slot] != nil }
	standIn := func(slot int) []byte {
		n := sizeOf(slot)
		if n <= 0 {
			n = 72
		}
		b := make([]byte, n)
		// not all zero and unlike any real signature: it only ever compares equal to itself
		for i := range b {
			b[i] = 0xa5
		}
		b[0] = byte(slot)
		return b
	}
	var out []byte
	for _, o := range script[start:] {
		if legacy && o.Code == 0xab && o.Slot < 0 {
			continue
		}
		probe := sigs
		unknown := o.Slot >= 0 && !known(o.Slot)
		if unknown {
			probe = make([][]byte, o.Slot+1)
			probe[o.Slot] = standIn(o.Slot)
		}
		r, _ := o.resolve(probe)
		ser := r.Bytes()
		removed := false
		for sl := range strip {
			var pat []byte
			switch {
			case known(sl):
				pat = NodePush(sigs[sl])
			case sl == o.Slot:
				pat = NodePush(standIn(sl))
			default:
				continue
			}
			if bytes.Equal(ser, pat) {
				removed = true
			}
		}
		if removed {
			continue
		}
		if unknown {
			if omitUnknown {
				continue
			}
			panic("sigspec: script code depends on a signature that is not known yet")
		}
		out = append(out, ser...)
	}
	return out
}
