// Package sigspec: the INDEPENDENT side of the C06 harness. Nothing here calls the interpreter.
//
//   - seeded keys and an ECDSA signer with a chosen nonce (so that R/S shapes can be selected),
//     public-key and DER encodings including the malformed ones;
//   - the specification of the script code (walk the opcodes: the code starts after the most
//     recently executed OP_CODESEPARATOR; legacy: minus the pushes containing the signature(s) of
//     the operation and minus all separators; FORKID flag + FORKID bit: untouched);
//   - the signature digest via the library's CalcInputSignatureHash on a copy (verified separately
//     by C02/C03);
//   - the flag table (BIP62 strict encoding / BIP66 / low-S / BIP147 null dummy / BIP146 null fail /
//     FORKID) as a predictor of the verdict class.
package sigspec

import (
	"bytes"
	"math/big"

	"github.com/libsv/go-bk/bec"
	"github.com/libsv/go-bk/crypto"
	"github.com/libsv/go-bt/v2"
	"github.com/libsv/go-bt/v2/bscript"
	"github.com/libsv/go-bt/v2/sighash"

	"verif/harness/common"
)

// ---------- flags (bit values of scriptflag.Flag) ----------
const (
	FBip16          = 1 << 0
	FStrictMultiSig = 1 << 1 // NULLDUMMY
	FDERSig         = 1 << 6
	FLowS           = 1 << 7
	FNullFail       = 1 << 9
	FForkID         = 1 << 11
	FStrictEnc      = 1 << 12
	FBip143         = 1 << 13
	FGenesis        = 1 << 14
)

// SixFlags in the order of the property text.
var SixFlags = []uint32{FStrictEnc, FDERSig, FLowS, FStrictMultiSig, FNullFail, FForkID}

// FlagSet builds the flag word from a 6-bit subset index and the era.
func FlagSet(subset int, genesis bool) uint32 {
	var f uint32
	for i, b := range SixFlags {
		if subset>>i&1 == 1 {
			f |= b
		}
	}
	if genesis {
		f |= FGenesis
	}
	return f
}

// Norm is apply's normalisation: FORKID implies STRICTENC.
func Norm(f uint32) uint32 {
	if f&FForkID != 0 {
		f |= FStrictEnc
	}
	return f
}

// ---------- keys ----------
type Key struct {
	D   *big.Int
	Pub *bec.PublicKey
}

var curve = bec.S256()

// NewKey derives a private scalar in [1, N-1] from PRNG bytes.
func NewKey(r *common.Rand) Key {
	for {
		d := new(big.Int).SetBytes(r.Bytes(32))
		if d.Sign() == 0 || d.Cmp(curve.N) >= 0 {
			continue
		}
		_, pub := bec.PrivKeyFromBytes(curve, d.Bytes())
		return Key{D: d, Pub: pub}
	}
}

// public-key encodings
const (
	PKCompressed = iota
	PKUncompressed
	PKHybrid     // 0x06/0x07 + X + Y: go-bk parses it, STRICTENC forbids it
	PKShort      // compressed minus its last byte
	PKLong       // compressed plus one byte
	PKBadPrefix  // 0x05 + X
	PKNotOnCurve // 0x02 + an X that is not on the curve: well-encoded, unparsable
	PKEmpty
	NumPK
)

var PKNames = []string{"compressed", "uncompressed", "hybrid", "short", "long", "badprefix", "notoncurve", "empty"}

func (k Key) Enc(kind int) []byte {
	switch kind {
	case PKCompressed:
		return k.Pub.SerialiseCompressed()
	case PKUncompressed:
		return k.Pub.SerialiseUncompressed()
	case PKHybrid:
		return k.Pub.SerialiseHybrid()
	case PKShort:
		b := k.Pub.SerialiseCompressed()
		return b[:32]
	case PKLong:
		return append(k.Pub.SerialiseCompressed(), 0x00)
	case PKBadPrefix:
		b := k.Pub.SerialiseCompressed()
		b[0] = 0x05
		return b
	case PKNotOnCurve:
		b := k.Pub.SerialiseCompressed()
		for {
			if _, err := bec.ParsePubKey(b, curve); err != nil {
				return b
			}
			b[32]++
		}
	}
	return []byte{}
}

// PKWellEncoded: compressed or uncompressed by length and prefix (BIP62 rule for STRICTENC).
func PKWellEncoded(pk []byte) bool {
	return (len(pk) == 33 && (pk[0] == 2 || pk[0] == 3)) || (len(pk) == 65 && pk[0] == 4)
}

// ---------- ECDSA with a chosen nonce ----------
var halfN = new(big.Int).Rsh(curve.N, 1)

// HalfOrderHex is compared with the constant in the Coq model by the harness self-test.
func HalfOrder() *big.Int { return new(big.Int).Set(halfN) }

func signK(d *big.Int, hash []byte, k *big.Int) (r, s *big.Int, ok bool) {
	x, _ := curve.ScalarBaseMult(k.Bytes())
	r = new(big.Int).Mod(x, curve.N)
	if r.Sign() == 0 {
		return nil, nil, false
	}
	z := new(big.Int).SetBytes(hash)
	kinv := new(big.Int).ModInverse(k, curve.N)
	s = new(big.Int).Mul(r, d)
	s.Add(s, z)
	s.Mul(s, kinv)
	s.Mod(s, curve.N)
	if s.Sign() == 0 {
		return nil, nil, false
	}
	return r, s, true
}

// signature body shapes (the bytes before the hash-type byte)
const (
	SigGood       = iota // strict DER, low S
	SigHighS             // strict DER, S > N/2 (the twin N-S of a good signature: still verifies)
	SigPadR              // R with an unnecessary leading zero byte
	SigPadS              // S with an unnecessary leading zero byte
	SigNegR              // R has its top bit set and no padding byte
	SigNegS              // S has its top bit set and no padding byte
	SigBadLen            // total-length byte one too large
	SigTrailing          // one byte of trailing garbage after S, lengths unchanged
	SigTrailingIn        // trailing garbage counted in the total length
	SigBadSeqTag         // 0x31 instead of 0x30
	SigBadIntTag         // R tagged 0x03
	SigZeroLenR          // R of length 0
	SigTooLong           // 73 bytes (R padded with zeros)
	SigTooShort          // 7 bytes
	SigMinimal           // 3006020101020101: strict DER, R = S = 1 (never verifies)
	SigHalfS             // strict DER with S exactly half the group order (the low-S boundary; does not verify)
	SigHalfSPlus1        // strict DER with S = half the group order + 1
	NumSigShapes
)

var SigNames = []string{"good", "highS", "padR", "padS", "negR", "negS", "badlen", "trailing", "trailing-in", "badseqtag", "badinttag", "zerolenR", "toolong", "tooshort", "minimal", "S=n/2", "S=n/2+1"}

func derInt(v *big.Int) []byte {
	b := v.Bytes()
	if len(b) == 0 {
		return []byte{0}
	}
	if b[0]&0x80 != 0 {
		return append([]byte{0}, b...)
	}
	return b
}
func derSeq(rb, sb []byte) []byte {
	out := []byte{0x30, byte(4 + len(rb) + len(sb)), 0x02, byte(len(rb))}
	out = append(out, rb...)
	out = append(out, 0x02, byte(len(sb)))
	return append(out, sb...)
}

// SignShape signs hash with d and renders the signature body in the requested shape. The nonce is
// drawn from the PRNG until R/S have the form the shape needs.
func SignShape(r *common.Rand, d *big.Int, hash []byte, shape int) []byte {
	for try := 0; ; try++ {
		k := new(big.Int).SetBytes(r.Bytes(32))
		k.Mod(k, curve.N)
		if k.Sign() == 0 {
			continue
		}
		R, S, ok := signK(d, hash, k)
		if !ok {
			continue
		}
		if S.Cmp(halfN) > 0 {
			S.Sub(curve.N, S)
		}
		rTop := R.Bytes()[0]&0x80 != 0 && len(R.Bytes()) == 32
		sTopOfHigh := func() bool { h := new(big.Int).Sub(curve.N, S); return len(h.Bytes()) == 32 && h.Bytes()[0]&0x80 != 0 }
		rb, sb := derInt(R), derInt(S)
		switch shape {
		case SigGood:
			return derSeq(rb, sb)
		case SigHighS:
			return derSeq(rb, derInt(new(big.Int).Sub(curve.N, S)))
		case SigPadR:
			if rb[0] == 0 {
				continue // already padded: one more zero would still be "too much padding", but keep it simple
			}
			return derSeq(append([]byte{0}, rb...), sb)
		case SigPadS:
			if sb[0] == 0 {
				continue
			}
			return derSeq(rb, append([]byte{0}, sb...))
		case SigNegR:
			if !rTop {
				continue
			}
			return derSeq(R.Bytes(), sb)
		case SigNegS:
			if !sTopOfHigh() {
				continue
			}
			return derSeq(rb, new(big.Int).Sub(curve.N, S).Bytes())
		case SigBadLen:
			b := derSeq(rb, sb)
			b[1]++
			return b
		case SigTrailing:
			return append(derSeq(rb, sb), 0x5a)
		case SigTrailingIn:
			b := append(derSeq(rb, sb), 0x5a)
			b[1]++
			return b
		case SigBadSeqTag:
			b := derSeq(rb, sb)
			b[0] = 0x31
			return b
		case SigBadIntTag:
			b := derSeq(rb, sb)
			b[2] = 0x03
			return b
		case SigZeroLenR:
			return derSeq([]byte{}, sb)
		case SigTooLong:
			pad := make([]byte, 73-len(derSeq(rb, sb)))
			return derSeq(append(pad, rb...), sb)
		case SigTooShort:
			return []byte{0x30, 0x05, 0x02, 0x01, 0x01, 0x02, 0x00}
		case SigMinimal:
			return []byte{0x30, 0x06, 0x02, 0x01, 0x01, 0x02, 0x01, 0x01}
		case SigHalfS:
			return derSeq(rb, derInt(halfN))
		case SigHalfSPlus1:
			return derSeq(rb, derInt(new(big.Int).Add(halfN, big.NewInt(1))))
		}
		panic("shape")
	}
}

// StrictDER is the BIP66 grammar on a signature body (without the hash-type byte), written from the
// BIP text (IsValidSignatureEncoding with every offset shifted by the missing hash-type byte).
func StrictDER(sig []byte) bool {
	if len(sig) < 8 || len(sig) > 72 {
		return false
	}
	if sig[0] != 0x30 || int(sig[1]) != len(sig)-2 {
		return false
	}
	lenR := int(sig[3])
	if 5+lenR >= len(sig) {
		return false
	}
	lenS := int(sig[5+lenR])
	if lenR+lenS+6 != len(sig) {
		return false
	}
	if sig[2] != 0x02 || lenR == 0 || sig[4]&0x80 != 0 {
		return false
	}
	if lenR > 1 && sig[4] == 0 && sig[5]&0x80 == 0 {
		return false
	}
	if sig[lenR+4] != 0x02 || lenS == 0 || sig[lenR+6]&0x80 != 0 {
		return false
	}
	if lenS > 1 && sig[lenR+6] == 0 && sig[lenR+7]&0x80 == 0 {
		return false
	}
	return true
}

// LowS on a strict-DER body: S <= N/2.
func LowS(sig []byte) bool {
	lenR := int(sig[3])
	lenS := int(sig[5+lenR])
	s := new(big.Int).SetBytes(sig[6+lenR : 6+lenR+lenS])
	return s.Cmp(halfN) <= 0
}

// ---------- go-bk oracle (direct calls) ----------
func ParsePub(pk []byte) (p *bec.PublicKey, ok bool) {
	common.Safely(func() {
		q, err := bec.ParsePubKey(pk, curve)
		if err == nil {
			p, ok = q, true
		}
	})
	return
}
func ParseSig(body []byte, der bool) (s *bec.Signature, ok bool) {
	common.Safely(func() {
		var q *bec.Signature
		var err error
		if der {
			q, err = bec.ParseDERSignature(body, curve)
		} else {
			q, err = bec.ParseSignature(body, curve)
		}
		if err == nil {
			s, ok = q, true
		}
	})
	return
}

// Verify: ParsePubKey, Parse(DER)Signature, Signature.Verify.
func Verify(pk, hash, body []byte, der bool) bool {
	p, ok1 := ParsePub(pk)
	s, ok2 := ParseSig(body, der)
	if !ok1 || !ok2 {
		return false
	}
	res := false
	common.Safely(func() { res = s.Verify(hash, p) })
	return res
}

// ---------- the digest ----------

// Digest: signature hash of input idx of tx for the given script code, spent value and hash type:
// the replay-protected digest when the FORKID flag is in force AND the hash type has the FORKID bit,
// the original digest (with the full hash-type byte) otherwise. The two preimage functions of the
// library are verified separately (C02, C03); the selection between them is made HERE, from the flags.
func Digest(flags uint32, tx *bt.Tx, idx int, code []byte, sats uint64, ht byte) ([]byte, error) {
	cp := tx.Clone()
	cp.Inputs[idx].PreviousTxScript = bscript.NewFromBytes(append([]byte{}, code...))
	cp.Inputs[idx].PreviousTxSatoshis = sats
	if UsesForkID(Norm(flags), ht) {
		pre, err := cp.CalcInputPreimage(uint32(idx), sighash.Flag(ht))
		if err != nil {
			return nil, err
		}
		return crypto.Sha256d(pre), nil
	}
	pre, err := cp.CalcInputPreimageLegacy(uint32(idx), sighash.Flag(ht))
	if err != nil {
		return nil, err
	}
	one := make([]byte, 32)
	one[0] = 1
	if bytes.Equal(pre, one) { // SIGHASH_SINGLE without a matching output: the digest is the number one
		return pre, nil
	}
	return crypto.Sha256d(pre), nil
}

// ---------- scripts as opcode lists, and the script code per the specification ----------

// Op is one opcode of a script under construction.
type Op struct {
	Code    byte   // opcode byte
	Data    []byte // pushed data (push opcodes); for a signature slot: filled in after signing
	LenForm int    // 0: direct / single-byte opcode; 1, 2, 4: OP_PUSHDATA1/2/4
	SepExec int    // OP_CODESEPARATOR only: 1 = will be executed, 2 = will not (non-taken branch)
	Slot    int    // >= 0: Data is Pre ++ <signature slot> ++ Post; -1 otherwise
	Pre     []byte
	Post    []byte
}

// Plain opcode.
func O(code byte) Op { return Op{Code: code, Slot: -1} }

// Sep is an OP_CODESEPARATOR; executed says whether the walk reaches it.
func Sep(executed bool) Op {
	e := 2
	if executed {
		e = 1
	}
	return Op{Code: 0xab, SepExec: e, Slot: -1}
}

// P is the minimal push of d.
func P(d []byte) Op {
	switch {
	case len(d) == 0:
		return Op{Code: 0x00, Slot: -1}
	case len(d) == 1 && d[0] >= 1 && d[0] <= 16:
		return Op{Code: 0x50 + d[0], Slot: -1}
	case len(d) == 1 && d[0] == 0x81:
		return Op{Code: 0x4f, Slot: -1}
	case len(d) <= 75:
		return Op{Code: byte(len(d)), Data: d, Slot: -1}
	case len(d) <= 255:
		return Op{Code: 0x4c, Data: d, LenForm: 1, Slot: -1}
	}
	return Op{Code: 0x4d, Data: d, LenForm: 2, Slot: -1}
}

// PForm pushes d with OP_PUSHDATA<form> even when a shorter form exists.
func PForm(d []byte, form int) Op {
	return Op{Code: map[int]byte{1: 0x4c, 2: 0x4d, 4: 0x4e}[form], Data: d, LenForm: form, Slot: -1}
}

// Num pushes a small integer.
func Num(n int) Op {
	switch {
	case n == 0:
		return O(0x00)
	case n >= 1 && n <= 16:
		return O(byte(0x50 + n))
	case n == -1:
		return O(0x4f)
	}
	neg := n < 0
	if neg {
		n = -n
	}
	var b []byte
	for n > 0 {
		b = append(b, byte(n))
		n >>= 8
	}
	if b[len(b)-1]&0x80 != 0 {
		if neg {
			b = append(b, 0x80)
		} else {
			b = append(b, 0)
		}
	} else if neg {
		b[len(b)-1] |= 0x80
	}
	return Op{Code: byte(len(b)), Data: b, Slot: -1}
}

// SigSlot is the push of signature number slot (optionally inside pre/post bytes, optionally in a
// non-minimal push form).
func SigSlot(slot int, pre, post []byte, form int) Op {
	return Op{Slot: slot, Pre: pre, Post: post, LenForm: form}
}

func isPush(code byte) bool { return code <= 0x4e }

// resolve fills the data of signature-slot pushes from sigs (nil entry: not known yet).
func (o Op) resolve(sigs [][]byte) (Op, bool) {
	if o.Slot < 0 {
		return o, true
	}
	if o.Slot >= len(sigs) || sigs[o.Slot] == nil {
		return o, false
	}
	d := append(append(append([]byte{}, o.Pre...), sigs[o.Slot]...), o.Post...)
	var r Op
	if o.LenForm == 0 {
		r = P(d)
	} else {
		r = PForm(d, o.LenForm)
	}
	r.Slot, r.Pre, r.Post = o.Slot, o.Pre, o.Post
	return r, true
}

// Bytes serialises one opcode.
func (o Op) Bytes() []byte {
	switch {
	case !isPush(o.Code) || o.Code == 0:
		return []byte{o.Code}
	case o.Code <= 75:
		return append([]byte{o.Code}, o.Data...)
	case o.Code == 0x4c:
		return append([]byte{o.Code, byte(len(o.Data))}, o.Data...)
	case o.Code == 0x4d:
		return append([]byte{o.Code, byte(len(o.Data)), byte(len(o.Data) >> 8)}, o.Data...)
	}
	l := len(o.Data)
	return append([]byte{o.Code, byte(l), byte(l >> 8), byte(l >> 16), byte(l >> 24)}, o.Data...)
}

// Serialise a script whose signature slots are all known.
func Serialise(ops []Op, sigs [][]byte) []byte {
	var out []byte
	for _, o := range ops {
		r, ok := o.resolve(sigs)
		if !ok {
			panic("sigspec: unresolved signature slot")
		}
		out = append(out, r.Bytes()...)
	}
	return out
}

// smallest push form (the form FindAndDelete / canonicalPush talk about)
func canonicalForm(o Op) bool {
	if !isPush(o.Code) {
		return true
	}
	l := len(o.Data)
	switch {
	case o.Code >= 1 && o.Code <= 75:
		return !(l == 1 && o.Data[0] <= 16)
	case o.Code == 0x4c:
		return l >= 76
	case o.Code == 0x4d:
		return l > 0xff
	case o.Code == 0x4e:
		return l > 0xffff
	}
	return true
}

// SpecCode is the script code of the signature operation at index at of script, per the
// specification: the opcodes after the most recently executed OP_CODESEPARATOR before at, to the
// end of the script; when legacy, minus every smallest-form push whose data contains one of the
// signatures in strip (slot numbers; or, once known, their bytes) and minus every OP_CODESEPARATOR.
// sigs holds the signatures known so far (needed when an un-stripped push carries one).
// stripAnyForm is NOT the specification: it also removes non-minimal pushes (used to make signatures
// that must be rejected).
func SpecCode(script []Op, at int, legacy bool, strip map[int]bool, sigs [][]byte, stripAnyForm bool) []byte {
	start := 0
	for i := 0; i < at; i++ {
		if script[i].Code == 0xab && script[i].SepExec == 1 {
			start = i + 1
		}
	}
	var out []byte
	for _, o := range script[start:] {
		if legacy {
			if o.Code == 0xab {
				continue
			}
			if o.Slot >= 0 && strip[o.Slot] {
				// the push carries a signature that is being removed; its form decides
				probe := make([][]byte, o.Slot+1)
				probe[o.Slot] = make([]byte, 72) // any signature-sized placeholder: only the form matters
				if sigs != nil && o.Slot < len(sigs) && sigs[o.Slot] != nil {
					probe[o.Slot] = sigs[o.Slot]
				}
				r, _ := o.resolve(probe)
				if canonicalForm(r) || stripAnyForm {
					continue
				}
			}
		}
		r, ok := o.resolve(sigs)
		if !ok {
			panic("sigspec: script code depends on a signature that is not known yet")
		}
		// a fixed push may also happen to contain a known signature that is being stripped
		if legacy && isPush(r.Code) && canonicalForm(r) && o.Slot < 0 {
			hit := false
			for s := range strip {
				if s < len(sigs) && sigs[s] != nil && bytes.Contains(r.Data, sigs[s]) {
					hit = true
				}
			}
			if hit {
				continue
			}
		}
		out = append(out, r.Bytes()...)
	}
	return out
}

// UsesForkID: the signature is hashed with the replay-protected digest and nothing is stripped.
func UsesForkID(flags uint32, ht byte) bool { return flags&FForkID != 0 && ht&0x40 != 0 }

// ---------- the flag table (specification side) ----------

// HashTypeOK is the STRICTENC rule on the hash-type byte (defined base type; FORKID bit iff the
// FORKID flag). Only meaningful when STRICTENC is in force and BIP143 is not.
func HashTypeOK(flags uint32, ht byte) bool {
	base := ht &^ (0x80 | 0x40)
	if base < 1 || base > 3 {
		return false
	}
	return (flags&FForkID != 0) == (ht&0x40 != 0)
}

// SigEncodingError: does the (non-empty) full signature (body + hash type) violate an encoding rule
// that is a HARD error under flags (already normalised)?
func SigEncodingError(flags uint32, full []byte) bool {
	if len(full) == 0 {
		return false
	}
	body, ht := full[:len(full)-1], full[len(full)-1]
	if flags&FStrictEnc != 0 && !HashTypeOK(flags, ht) {
		return true
	}
	if flags&(FDERSig|FLowS|FStrictEnc) != 0 && !StrictDER(body) {
		return true
	}
	if flags&FLowS != 0 && !LowS(body) {
		return true
	}
	return false
}

// SigEncodingWhy names the violated rule ("" = none): hashtype, der, low-s.
func SigEncodingWhy(flags uint32, full []byte) string {
	if len(full) == 0 {
		return ""
	}
	body, ht := full[:len(full)-1], full[len(full)-1]
	switch {
	case flags&(FDERSig|FLowS|FStrictEnc) != 0 && !StrictDER(body):
		return "der"
	case flags&FLowS != 0 && !LowS(body):
		return "low-s"
	case flags&FStrictEnc != 0 && !HashTypeOK(flags, ht):
		return "hashtype"
	}
	return ""
}

// PubKeyEncodingError: STRICTENC and not compressed/uncompressed.
func PubKeyEncodingError(flags uint32, pk []byte) bool {
	return flags&FStrictEnc != 0 && !PKWellEncoded(pk)
}

// verdict classes
const (
	ClsTrue  = "true"
	ClsFalse = "false"
	ClsError = "error"
)

// MonotoneMatch: is there a strictly increasing assignment of signatures to keys with every pair
// verifying? (dynamic programme, not the greedy loop)
func MonotoneMatch(nsig, nkey int, ok func(i, j int) bool) bool {
	// can[i][j]: signatures i.. can be matched into keys j..
	can := make([][]bool, nsig+1)
	for i := range can {
		can[i] = make([]bool, nkey+2)
	}
	for j := 0; j <= nkey; j++ {
		can[nsig][j] = true
	}
	for i := nsig - 1; i >= 0; i-- {
		for j := nkey - 1; j >= 0; j-- {
			can[i][j] = can[i][j+1] || (ok(i, j) && can[i+1][j+1])
		}
	}
	return can[0][0]
}
