// Package sigspec: the INDEPENDENT side of the C06 harness. Nothing here calls the interpreter.
//
//   - seeded keys and an ECDSA signer with a chosen nonce (so that R/S shapes can be selected),
//     public-key and DER encodings including the malformed ones;
//   - the specification of the script code (walk the opcodes: the code starts after the most
//     recently executed OP_CODESEPARATOR; every opcode that is byte for byte the push of one of the
//     operation's signatures that are not (FORKID flag + FORKID bit) is removed - FindAndDelete of
//     CScript() << sig, OP_0 for an empty signature -; for the original digest all separators are
//     removed as well; the FORKID digest sees them);
//   - the node's signature check (CPubKey::Verify: key validity by prefix and length, the lax DER
//     parser, ECDSA) and its LOW_S rule (a signature out of range is not high S);
//   - the signature digest via the library's CalcInputSignatureHash on a copy (verified separately
//     by C02/C03);
//   - the flag table (BIP62 strict encoding / BIP66 / low-S / BIP147 null dummy / BIP146 null fail /
//     FORKID) as a predictor of the verdict class.
package sigspec

import (
	"bytes"
	"math/big"

	"github.com/libsv/go-bk/bec"
	"github.com/libsv/go-bk/crypto"
	"github.com/libsv/go-bt/v2"
	"github.com/libsv/go-bt/v2/bscript"
	"github.com/libsv/go-bt/v2/sighash"

	"verif/harness/common"
)

// ---------- flags (bit values of scriptflag.Flag) ----------
const (
	FBip16          = 1 << 0
	FStrictMultiSig = 1 << 1 // NULLDUMMY
	FDERSig         = 1 << 6
	FLowS           = 1 << 7
	FMinimalData    = 1 << 8
	FNullFail       = 1 << 9
	FForkID         = 1 << 11
	FStrictEnc      = 1 << 12
	FBip143         = 1 << 13
	FGenesis        = 1 << 14
)

// SixFlags in the order of the property text.
var SixFlags = []uint32{FStrictEnc, FDERSig, FLowS, FStrictMultiSig, FNullFail, FForkID}

// FlagSet builds the flag word from a 6-bit subset index and the era.
func FlagSet(subset int, genesis bool) uint32 {
	var f uint32
	for i, b := range SixFlags {
		if subset>>i&1 == 1 {
			f |= b
		}
	}
	if genesis {
		f |= FGenesis
	}
	return f
}

// Norm is apply's normalisation: FORKID implies STRICTENC.
func Norm(f uint32) uint32 {
	if f&FForkID != 0 {
		f |= FStrictEnc
	}
	return f
}

// ---------- keys ----------
type Key struct {
	D   *big.Int
	Pub *bec.PublicKey
}

var curve = bec.S256()

// NewKey derives a private scalar in [1, N-1] from PRNG bytes.
func NewKey(r *common.Rand) Key {
	for {
		d := new(big.Int).SetBytes(r.Bytes(32))
		if d.Sign() == 0 || d.Cmp(curve.N) >= 0 {
			continue
		}
		_, pub := bec.PrivKeyFromBytes(curve, d.Bytes())
		return Key{D: d, Pub: pub}
	}
}

// public-key encodings
const (
	PKCompressed = iota
	PKUncompressed
	PKHybrid     // 0x06/0x07 + X + Y: go-bk parses it, STRICTENC forbids it
	PKShort      // compressed minus its last byte
	PKLong       // compressed plus one byte
	PKBadPrefix  // 0x05 + X
	PKNotOnCurve // 0x02 + an X that is not on the curve: well-encoded, unparsable
	PKEmpty
	NumPK
)

// beyond the rotation of the older families
const (
	PKPrefix05Long      = NumPK     // 0x05 + X + Y (65 bytes): go-bk parses it as uncompressed, the node does not know the prefix
	PKHybridWrongParity = NumPK + 1 // 0x06/0x07 with the parity bit flipped: nobody parses it
	PKOneZeroByte       = NumPK + 2 // the single byte 00
)

var PKNames = []string{"compressed", "uncompressed", "hybrid", "short", "long", "badprefix", "notoncurve", "empty", "prefix05-65bytes", "hybrid-wrong-parity", "one-zero-byte"}

func (k Key) Enc(kind int) []byte {
	switch kind {
	case PKCompressed:
		return k.Pub.SerialiseCompressed()
	case PKUncompressed:
		return k.Pub.SerialiseUncompressed()
	case PKHybrid:
		return k.Pub.SerialiseHybrid()
	case PKShort:
		b := k.Pub.SerialiseCompressed()
		return b[:32]
	case PKLong:
		return append(k.Pub.SerialiseCompressed(), 0x00)
	case PKBadPrefix:
		b := k.Pub.SerialiseCompressed()
		b[0] = 0x05
		return b
	case PKPrefix05Long:
		b := k.Pub.SerialiseUncompressed()
		b[0] = 0x05
		return b
	case PKOneZeroByte:
		return []byte{0x00}
	case PKHybridWrongParity:
		b := k.Pub.SerialiseHybrid()
		b[0] ^= 1
		return b
	case PKNotOnCurve:
		b := k.Pub.SerialiseCompressed()
		for {
			if _, err := bec.ParsePubKey(b, curve); err != nil {
				return b
			}
			b[32]++
		}
	}
	return []byte{}
}

// PKWellEncoded: compressed or uncompressed by length and prefix (BIP62 rule for STRICTENC).
func PKWellEncoded(pk []byte) bool {
	return (len(pk) == 33 && (pk[0] == 2 || pk[0] == 3)) || (len(pk) == 65 && pk[0] == 4)
}

// ---------- ECDSA with a chosen nonce ----------
var halfN = new(big.Int).Rsh(curve.N, 1)

// HalfOrderHex is compared with the constant in the Coq model by the harness self-test.
func HalfOrder() *big.Int { return new(big.Int).Set(halfN) }

func signK(d *big.Int, hash []byte, k *big.Int) (r, s *big.Int, ok bool) {
	x, _ := curve.ScalarBaseMult(k.Bytes())
	r = new(big.Int).Mod(x, curve.N)
	if r.Sign() == 0 {
		return nil, nil, false
	}
	z := new(big.Int).SetBytes(hash)
	kinv := new(big.Int).ModInverse(k, curve.N)
	s = new(big.Int).Mul(r, d)
	s.Add(s, z)
	s.Mul(s, kinv)
	s.Mod(s, curve.N)
	if s.Sign() == 0 {
		return nil, nil, false
	}
	return r, s, true
}

// signature body shapes (the bytes before the hash-type byte)
const (
	SigGood       = iota // strict DER, low S
	SigHighS             // strict DER, S > N/2 (the twin N-S of a good signature: still verifies)
	SigPadR              // R with an unnecessary leading zero byte
	SigPadS              // S with an unnecessary leading zero byte
	SigNegR              // R has its top bit set and no padding byte
	SigNegS              // S has its top bit set and no padding byte
	SigBadLen            // total-length byte one too large
	SigTrailing          // one byte of trailing garbage after S, lengths unchanged
	SigTrailingIn        // trailing garbage counted in the total length
	SigBadSeqTag         // 0x31 instead of 0x30
	SigBadIntTag         // R tagged 0x03
	SigZeroLenR          // R of length 0
	SigTooLong           // 73 bytes (R padded with zeros)
	SigTooShort          // 7 bytes
	SigMinimal           // 3006020101020101: strict DER, R = S = 1 (never verifies)
	SigHalfS             // strict DER with S exactly half the group order (the low-S boundary; does not verify)
	SigHalfSPlus1        // strict DER with S = half the group order + 1
	NumSigShapes
)

// beyond the rotation of the older families (all strict DER unless said otherwise; none verifies
// except the lax ones)
const (
	SigSNm1        = NumSigShapes + iota // S = n-1: the highest high S
	SigSN                                // S = n: out of range, not high S
	SigSNp1                              // S = n+1
	SigSNp5                              // S = n+5
	SigRNm1SNm1                          // R = n-1 (in range), S = n-1: high S
	SigRNSNm1                            // R = n, S = n-1: out of range, not high S
	SigRNp1SNm1                          // R = n+1, S = n-1
	SigRNp5SNm1                          // R = n+5, S = n-1
	SigLongRShortS                       // R of 40 bytes, S = 1: strict DER, out of range
	SigZeroR                             // 3006020100020101: strict DER, go-bk refuses R = 0
	SigSeqLenBig                         // a valid signature whose sequence length byte is 0x50 (lax DER only)
	SigSeqLenSmall                       // ... is 0x10
	SigLongFormLen                       // ... whose sequence and R lengths use the long form 81 xx
	NumSigShapesAll
)

var SigNames = []string{"good", "highS", "padR", "padS", "negR", "negS", "badlen", "trailing", "trailing-in", "badseqtag", "badinttag", "zerolenR", "toolong", "tooshort", "minimal", "S=n/2", "S=n/2+1",
	"S=n-1", "S=n", "S=n+1", "S=n+5", "R=n-1,S=n-1", "R=n,S=n-1", "R=n+1,S=n-1", "R=n+5,S=n-1", "R-40-bytes", "R=0", "seqlen-big", "seqlen-small", "long-form-lengths"}

func derInt(v *big.Int) []byte {
	b := v.Bytes()
	if len(b) == 0 {
		return []byte{0}
	}
	if b[0]&0x80 != 0 {
		return append([]byte{0}, b...)
	}
	return b
}
func derSeq(rb, sb []byte) []byte {
	out := []byte{0x30, byte(4 + len(rb) + len(sb)), 0x02, byte(len(rb))}
	out = append(out, rb...)
	out = append(out, 0x02, byte(len(sb)))
	return append(out, sb...)
}

// SignShape signs hash with d and renders the signature body in the requested shape. The nonce is
// drawn from the PRNG until R/S have the form the shape needs.
func SignShape(r *common.Rand, d *big.Int, hash []byte, shape int) []byte {
	for try := 0; ; try++ {
		k := new(big.Int).SetBytes(r.Bytes(32))
		k.Mod(k, curve.N)
		if k.Sign() == 0 {
			continue
		}
		R, S, ok := signK(d, hash, k)
		if !ok {
			continue
		}
		if S.Cmp(halfN) > 0 {
			S.Sub(curve.N, S)
		}
		rTop := R.Bytes()[0]&0x80 != 0 && len(R.Bytes()) == 32
		sTopOfHigh := func() bool { h := new(big.Int).Sub(curve.N, S); return len(h.Bytes()) == 32 && h.Bytes()[0]&0x80 != 0 }
		rb, sb := derInt(R), derInt(S)
		switch shape {
		case SigGood:
			return derSeq(rb, sb)
		case SigHighS:
			return derSeq(rb, derInt(new(big.Int).Sub(curve.N, S)))
		case SigPadR:
			if rb[0] == 0 {
				continue // already padded: one more zero would still be "too much padding", but keep it simple
			}
			return derSeq(append([]byte{0}, rb...), sb)
		case SigPadS:
			if sb[0] == 0 {
				continue
			}
			return derSeq(rb, append([]byte{0}, sb...))
		case SigNegR:
			if !rTop {
				continue
			}
			return derSeq(R.Bytes(), sb)
		case SigNegS:
			if !sTopOfHigh() {
				continue
			}
			return derSeq(rb, new(big.Int).Sub(curve.N, S).Bytes())
		case SigBadLen:
			b := derSeq(rb, sb)
			b[1]++
			return b
		case SigTrailing:
			return append(derSeq(rb, sb), 0x5a)
		case SigTrailingIn:
			b := append(derSeq(rb, sb), 0x5a)
			b[1]++
			return b
		case SigBadSeqTag:
			b := derSeq(rb, sb)
			b[0] = 0x31
			return b
		case SigBadIntTag:
			b := derSeq(rb, sb)
			b[2] = 0x03
			return b
		case SigZeroLenR:
			return derSeq([]byte{}, sb)
		case SigTooLong:
			pad := make([]byte, 73-len(derSeq(rb, sb)))
			return derSeq(append(pad, rb...), sb)
		case SigTooShort:
			return []byte{0x30, 0x05, 0x02, 0x01, 0x01, 0x02, 0x00}
		case SigMinimal:
			return []byte{0x30, 0x06, 0x02, 0x01, 0x01, 0x02, 0x01, 0x01}
		case SigHalfS:
			return derSeq(rb, derInt(halfN))
		case SigHalfSPlus1:
			return derSeq(rb, derInt(new(big.Int).Add(halfN, big.NewInt(1))))
		case SigSNm1, SigSN, SigSNp1, SigSNp5:
			off := map[int]int64{SigSNm1: -1, SigSN: 0, SigSNp1: 1, SigSNp5: 5}[shape]
			return derSeq(rb, derInt(new(big.Int).Add(curve.N, big.NewInt(off))))
		case SigRNm1SNm1, SigRNSNm1, SigRNp1SNm1, SigRNp5SNm1:
			off := map[int]int64{SigRNm1SNm1: -1, SigRNSNm1: 0, SigRNp1SNm1: 1, SigRNp5SNm1: 5}[shape]
			return derSeq(derInt(new(big.Int).Add(curve.N, big.NewInt(off))), derInt(new(big.Int).Sub(curve.N, big.NewInt(1))))
		case SigLongRShortS:
			long := append([]byte{0x01}, make([]byte, 39)...)
			return derSeq(long, []byte{0x01})
		case SigZeroR:
			return []byte{0x30, 0x06, 0x02, 0x01, 0x00, 0x02, 0x01, 0x01}
		case SigSeqLenBig:
			b := derSeq(rb, sb)
			b[1] = 0x50
			return b
		case SigSeqLenSmall:
			b := derSeq(rb, sb)
			b[1] = 0x10
			return b
		case SigLongFormLen:
			out := []byte{0x30, 0x81, byte(5 + len(rb) + len(sb)), 0x02, 0x81, byte(len(rb))}
			out = append(out, rb...)
			out = append(out, 0x02, byte(len(sb)))
			return append(out, sb...)
		}
		panic("shape")
	}
}

// StrictDER is the BIP66 grammar on a signature body (without the hash-type byte), written from the
// BIP text (IsValidSignatureEncoding with every offset shifted by the missing hash-type byte).
func StrictDER(sig []byte) bool {
	if len(sig) < 8 || len(sig) > 72 {
		return false
	}
	if sig[0] != 0x30 || int(sig[1]) != len(sig)-2 {
		return false
	}
	lenR := int(sig[3])
	if 5+lenR >= len(sig) {
		return false
	}
	lenS := int(sig[5+lenR])
	if lenR+lenS+6 != len(sig) {
		return false
	}
	if sig[2] != 0x02 || lenR == 0 || sig[4]&0x80 != 0 {
		return false
	}
	if lenR > 1 && sig[4] == 0 && sig[5]&0x80 == 0 {
		return false
	}
	if sig[lenR+4] != 0x02 || lenS == 0 || sig[lenR+6]&0x80 != 0 {
		return false
	}
	if lenS > 1 && sig[lenR+6] == 0 && sig[lenR+7]&0x80 == 0 {
		return false
	}
	return true
}

// LowS on a strict-DER body: the node's IsLowDERSignature. The signature is read with the lax parser;
// when R or S is not below the group order it is read as the null signature, which is not high. So:
// high S means R and S in range and S > N/2.
func LowS(sig []byte) bool {
	lenR := int(sig[3])
	lenS := int(sig[5+lenR])
	r := new(big.Int).SetBytes(sig[4 : 4+lenR])
	s := new(big.Int).SetBytes(sig[6+lenR : 6+lenR+lenS])
	if r.Cmp(curve.N) >= 0 || s.Cmp(curve.N) >= 0 {
		return true
	}
	return s.Cmp(halfN) <= 0
}

// ---------- the node's signature check ----------

// NodePubKeyValid is CPubKey::IsValid after construction from the bytes: the length announced by the
// prefix (02/03: 33, 04/06/07: 65) must be the length of the key.
func NodePubKeyValid(pk []byte) bool {
	if len(pk) == 0 {
		return false
	}
	switch pk[0] {
	case 2, 3:
		return len(pk) == 33
	case 4, 6, 7:
		return len(pk) == 65
	}
	return false
}

// LaxDER is ecdsa_signature_parse_der_lax: ok = the parser returns 1; r, s are the scalars it hands to
// the verification (both zero when a component is 33 significant bytes or more, or not below the group order).
func LaxDER(in []byte) (r, s *big.Int, ok bool) {
	zero := func() (*big.Int, *big.Int, bool) { return new(big.Int), new(big.Int), true }
	pos := 0
	n := len(in)
	if pos == n || in[pos] != 0x30 {
		return nil, nil, false
	}
	pos++
	if pos == n {
		return nil, nil, false
	}
	lenbyte := int(in[pos])
	pos++
	if lenbyte&0x80 != 0 {
		lenbyte -= 0x80
		if lenbyte > n-pos {
			return nil, nil, false
		}
		pos += lenbyte
	}
	integer := func() (start, length int, ok bool) {
		if pos == n || in[pos] != 0x02 {
			return 0, 0, false
		}
		pos++
		if pos == n {
			return 0, 0, false
		}
		lb := int(in[pos])
		pos++
		l := 0
		if lb&0x80 != 0 {
			lb -= 0x80
			if lb > n-pos {
				return 0, 0, false
			}
			for lb > 0 && in[pos] == 0 {
				pos++
				lb--
			}
			if lb >= 4 {
				return 0, 0, false
			}
			for lb > 0 {
				l = l<<8 + int(in[pos])
				pos++
				lb--
			}
		} else {
			l = lb
		}
		if l > n-pos {
			return 0, 0, false
		}
		return pos, l, true
	}
	rpos, rlen, ok1 := integer()
	if !ok1 {
		return nil, nil, false
	}
	pos += rlen
	spos, slen, ok2 := integer()
	if !ok2 {
		return nil, nil, false
	}
	for rlen > 0 && in[rpos] == 0 {
		rlen--
		rpos++
	}
	for slen > 0 && in[spos] == 0 {
		slen--
		spos++
	}
	if rlen > 32 || slen > 32 {
		return zero()
	}
	r = new(big.Int).SetBytes(in[rpos : rpos+rlen])
	s = new(big.Int).SetBytes(in[spos : spos+slen])
	if r.Cmp(curve.N) >= 0 || s.Cmp(curve.N) >= 0 {
		return zero()
	}
	return r, s, true
}

// NodeVerify is CPubKey::Verify: a valid key (prefix and length, on the curve, hybrid keys with the
// right parity), the lax DER parser, then ECDSA on (r, s) - a high S verifies like its low twin.
// The curve arithmetic is go-bk's (ParsePubKey for the point, Signature.Verify on the parsed scalars).
func NodeVerify(pk, hash, body []byte) bool {
	if !NodePubKeyValid(pk) {
		return false
	}
	p, ok := ParsePub(pk)
	if !ok {
		return false
	}
	r, s, ok := LaxDER(body)
	if !ok || r.Sign() == 0 || s.Sign() == 0 {
		return false
	}
	res := false
	common.Safely(func() { res = (&bec.Signature{R: r, S: s}).Verify(hash, p) })
	return res
}

// ---------- go-bk oracle (direct calls) ----------
func ParsePub(pk []byte) (p *bec.PublicKey, ok bool) {
	common.Safely(func() {
		q, err := bec.ParsePubKey(pk, curve)
		if err == nil {
			p, ok = q, true
		}
	})
	return
}
func ParseSig(body []byte, der bool) (s *bec.Signature, ok bool) {
	common.Safely(func() {
		var q *bec.Signature
		var err error
		if der {
			q, err = bec.ParseDERSignature(body, curve)
		} else {
			q, err = bec.ParseSignature(body, curve)
		}
		if err == nil {
			s, ok = q, true
		}
	})
	return
}

// Verify: ParsePubKey, Parse(DER)Signature, Signature.Verify.
func Verify(pk, hash, body []byte, der bool) bool {
	p, ok1 := ParsePub(pk)
	s, ok2 := ParseSig(body, der)
	if !ok1 || !ok2 {
		return false
	}
	res := false
	common.Safely(func() { res = s.Verify(hash, p) })
	return res
}

// ---------- the digest ----------

// Digest: signature hash of input idx of tx for the given script code, spent value and hash type:
// the replay-protected digest when the FORKID flag is in force AND the hash type has the FORKID bit,
// the original digest (with the full hash-type byte) otherwise. The two preimage functions of the
// library are verified separately (C02, C03); the selection between them is made HERE, from the flags.
func Digest(flags uint32, tx *bt.Tx, idx int, code []byte, sats uint64, ht byte) ([]byte, error) {
	cp := tx.Clone()
	cp.Inputs[idx].PreviousTxScript = bscript.NewFromBytes(append([]byte{}, code...))
	cp.Inputs[idx].PreviousTxSatoshis = sats
	if UsesForkID(Norm(flags), ht) {
		pre, err := cp.CalcInputPreimage(uint32(idx), sighash.Flag(ht))
		if err != nil {
			return nil, err
		}
		return crypto.Sha256d(pre), nil
	}
	pre, err := cp.CalcInputPreimageLegacy(uint32(idx), sighash.Flag(ht))
	if err != nil {
		return nil, err
	}
	one := make([]byte, 32)
	one[0] = 1
	if bytes.Equal(pre, one) { // SIGHASH_SINGLE without a matching output: the digest is the number one
		return pre, nil
	}
	return crypto.Sha256d(pre), nil
}

// ---------- scripts as opcode lists, and the script code per the specification ----------

// Op is one opcode of a script under construction.
type Op struct {
	Code    byte   // opcode byte
	Data    []byte // pushed data (push opcodes); for a signature slot: filled in after signing
	LenForm int    // 0: direct / single-byte opcode; 1, 2, 4: OP_PUSHDATA1/2/4
	SepExec int    // OP_CODESEPARATOR only: 1 = will be executed, 2 = will not (non-taken branch)
	Slot    int    // >= 0: Data is Pre ++ <signature slot> ++ Post; -1 otherwise
	Pre     []byte
	Post    []byte
}

// Plain opcode.
func O(code byte) Op { return Op{Code: code, Slot: -1} }

// Sep is an OP_CODESEPARATOR; executed says whether the walk reaches it.
func Sep(executed bool) Op {
	e := 2
	if executed {
		e = 1
	}
	return Op{Code: 0xab, SepExec: e, Slot: -1}
}

// P is the minimal push of d.
func P(d []byte) Op {
	switch {
	case len(d) == 0:
		return Op{Code: 0x00, Slot: -1}
	case len(d) == 1 && d[0] >= 1 && d[0] <= 16:
		return Op{Code: 0x50 + d[0], Slot: -1}
	case len(d) == 1 && d[0] == 0x81:
		return Op{Code: 0x4f, Slot: -1}
	case len(d) <= 75:
		return Op{Code: byte(len(d)), Data: d, Slot: -1}
	case len(d) <= 255:
		return Op{Code: 0x4c, Data: d, LenForm: 1, Slot: -1}
	}
	return Op{Code: 0x4d, Data: d, LenForm: 2, Slot: -1}
}

// FormDirect as the form of PForm / SigSlot: a length-byte push (01..4b) even where a one-byte opcode
// (OP_1..OP_16, OP_1NEGATE) exists; empty data stays OP_0.
const FormDirect = 9

// PForm pushes d with OP_PUSHDATA<form> (or, FormDirect, a length byte) even when a shorter form exists.
func PForm(d []byte, form int) Op {
	if form == FormDirect {
		if len(d) == 0 || len(d) > 75 {
			return P(d)
		}
		return Op{Code: byte(len(d)), Data: d, Slot: -1}
	}
	return Op{Code: map[int]byte{1: 0x4c, 2: 0x4d, 4: 0x4e}[form], Data: d, LenForm: form, Slot: -1}
}

// NodePush is the node's CScript() << d: the pattern FindAndDelete looks for. A length byte below 76
// bytes (so 00 for the empty vector and 01 xx for one byte - never OP_1..OP_16 / OP_1NEGATE),
// OP_PUSHDATA1/2/4 above.
func NodePush(d []byte) []byte {
	l := len(d)
	var out []byte
	switch {
	case l < 0x4c:
		out = []byte{byte(l)}
	case l <= 0xff:
		out = []byte{0x4c, byte(l)}
	case l <= 0xffff:
		out = []byte{0x4d, byte(l), byte(l >> 8)}
	default:
		out = []byte{0x4e, byte(l), byte(l >> 8), byte(l >> 16), byte(l >> 24)}
	}
	return append(out, d...)
}

// Num pushes a small integer.
func Num(n int) Op {
	switch {
	case n == 0:
		return O(0x00)
	case n >= 1 && n <= 16:
		return O(byte(0x50 + n))
	case n == -1:
		return O(0x4f)
	}
	neg := n < 0
	if neg {
		n = -n
	}
	var b []byte
	for n > 0 {
		b = append(b, byte(n))
		n >>= 8
	}
	if b[len(b)-1]&0x80 != 0 {
		if neg {
			b = append(b, 0x80)
		} else {
			b = append(b, 0)
		}
	} else if neg {
		b[len(b)-1] |= 0x80
	}
	return Op{Code: byte(len(b)), Data: b, Slot: -1}
}

// SigSlot is the push of signature number slot (optionally inside pre/post bytes, optionally in a
// non-minimal push form).
func SigSlot(slot int, pre, post []byte, form int) Op {
	return Op{Slot: slot, Pre: pre, Post: post, LenForm: form}
}

func isPush(code byte) bool { return code <= 0x4e }

// resolve fills the data of signature-slot pushes from sigs (nil entry: not known yet).
func (o Op) resolve(sigs [][]byte) (Op, bool) {
	if o.Slot < 0 {
		return o, true
	}
	if o.Slot >= len(sigs) || sigs[o.Slot] == nil {
		return o, false
	}
	d := append(append(append([]byte{}, o.Pre...), sigs[o.Slot]...), o.Post...)
	var r Op
	if o.LenForm == 0 {
		r = P(d)
	} else {
		r = PForm(d, o.LenForm)
	}
	r.Slot, r.Pre, r.Post = o.Slot, o.Pre, o.Post
	return r, true // r.LenForm is the form actually used
}

// Bytes serialises one opcode.
func (o Op) Bytes() []byte {
	switch {
	case !isPush(o.Code) || o.Code == 0:
		return []byte{o.Code}
	case o.Code <= 75:
		return append([]byte{o.Code}, o.Data...)
	case o.Code == 0x4c:
		return append([]byte{o.Code, byte(len(o.Data))}, o.Data...)
	case o.Code == 0x4d:
		return append([]byte{o.Code, byte(len(o.Data)), byte(len(o.Data) >> 8)}, o.Data...)
	}
	l := len(o.Data)
	return append([]byte{o.Code, byte(l), byte(l >> 8), byte(l >> 16), byte(l >> 24)}, o.Data...)
}

// Serialise a script whose signature slots are all known.
func Serialise(ops []Op, sigs [][]byte) []byte {
	var out []byte
	for _, o := range ops {
		r, ok := o.resolve(sigs)
		if !ok {
			panic("sigspec: unresolved signature slot")
		}
		out = append(out, r.Bytes()...)
	}
	return out
}

// SpecCode is the script code of the signature operation at index at of script, per the node:
// the opcodes after the most recently executed OP_CODESEPARATOR before at, to the end of the script,
// minus every opcode whose serialisation is byte for byte the push (NodePush) of one of the
// signatures in strip (FindAndDelete; strip = the operation's signatures that are not hashed with the
// FORKID digest, empty ones included: their push is OP_0), and - legacy, i.e. for the original digest
// of the signature being hashed - minus every OP_CODESEPARATOR.
// sigs holds the signatures known so far; a signature not known yet is a fresh DER signature, so its
// own smallest-form push is removed and nothing else can equal its push.
// omitUnknown is NOT the specification: opcodes that stay but carry a signature not known yet are
// left out (used to make signatures that must be rejected: no signature can cover its own copy).
func SpecCode(script []Op, at int, legacy bool, strip map[int]bool, sigs [][]byte, omitUnknown bool) []byte {
	start := 0
	for i := 0; i < at; i++ {
		if script[i].Code == 0xab && script[i].SepExec == 1 {
			start = i + 1
		}
	}
	known := func(slot int) bool { return sigs != nil && slot < len(sigs) && sigs[slot] != nil }
	placeholder := make([]byte, 72) // a signature-sized stand-in: same push form as any DER signature
	var out []byte
	for _, o := range script[start:] {
		if legacy && o.Code == 0xab && o.Slot < 0 {
			continue
		}
		probe := sigs
		unknown := o.Slot >= 0 && !known(o.Slot)
		if unknown {
			probe = make([][]byte, o.Slot+1)
			probe[o.Slot] = placeholder
		}
		r, _ := o.resolve(probe)
		ser := r.Bytes()
		removed := false
		for sl := range strip {
			var pat []byte
			switch {
			case known(sl):
				pat = NodePush(sigs[sl])
			case sl == o.Slot:
				pat = NodePush(placeholder)
			default:
				continue
			}
			if bytes.Equal(ser, pat) {
				removed = true
			}
		}
		if removed {
			continue
		}
		if unknown {
			if omitUnknown {
				continue
			}
			panic("sigspec: script code depends on a signature that is not known yet")
		}
		out = append(out, ser...)
	}
	return out
}

// UsesForkID: the signature is hashed with the replay-protected digest and nothing is stripped.
func UsesForkID(flags uint32, ht byte) bool { return flags&FForkID != 0 && ht&0x40 != 0 }

// ---------- the flag table (specification side) ----------

// HashTypeOK is the STRICTENC rule on the hash-type byte (defined base type; FORKID bit iff the
// FORKID flag). Only meaningful when STRICTENC is in force and BIP143 is not.
func HashTypeOK(flags uint32, ht byte) bool {
	base := ht &^ (0x80 | 0x40)
	if base < 1 || base > 3 {
		return false
	}
	return (flags&FForkID != 0) == (ht&0x40 != 0)
}

// SigEncodingError: does the (non-empty) full signature (body + hash type) violate an encoding rule
// that is a HARD error under flags (already normalised)?
func SigEncodingError(flags uint32, full []byte) bool {
	if len(full) == 0 {
		return false
	}
	body, ht := full[:len(full)-1], full[len(full)-1]
	if flags&FStrictEnc != 0 && !HashTypeOK(flags, ht) {
		return true
	}
	if flags&(FDERSig|FLowS|FStrictEnc) != 0 && !StrictDER(body) {
		return true
	}
	if flags&FLowS != 0 && !LowS(body) {
		return true
	}
	return false
}

// SigEncodingWhy names the violated rule ("" = none): hashtype, der, low-s.
func SigEncodingWhy(flags uint32, full []byte) string {
	if len(full) == 0 {
		return ""
	}
	body, ht := full[:len(full)-1], full[len(full)-1]
	switch {
	case flags&(FDERSig|FLowS|FStrictEnc) != 0 && !StrictDER(body):
		return "der"
	case flags&FLowS != 0 && !LowS(body):
		return "low-s"
	case flags&FStrictEnc != 0 && !HashTypeOK(flags, ht):
		return "hashtype"
	}
	return ""
}

// PubKeyEncodingError: STRICTENC and not compressed/uncompressed.
func PubKeyEncodingError(flags uint32, pk []byte) bool {
	return flags&FStrictEnc != 0 && !PKWellEncoded(pk)
}

// verdict classes
const (
	ClsTrue  = "true"
	ClsFalse = "false"
	ClsError = "error"
)

// MonotoneMatch: is there a strictly increasing assignment of signatures to keys with every pair
// verifying? (dynamic programme, not the greedy loop)
func MonotoneMatch(nsig, nkey int, ok func(i, j int) bool) bool {
	// can[i][j]: signatures i.. can be matched into keys j..
	can := make([][]bool, nsig+1)
	for i := range can {
		can[i] = make([]bool, nkey+2)
	}
	for j := 0; j <= nkey; j++ {
		can[nsig][j] = true
	}
	for i := nsig - 1; i >= 0; i-- {
		for j := nkey - 1; j >= 0; j-- {
			can[i][j] = can[i][j+1] || (ok(i, j) && can[i+1][j+1])
		}
	}
	return can[0][0]
}
