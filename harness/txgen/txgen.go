// Package txgen: structured transaction generator shared by the tx-level properties, and the
// printer that turns a spec into a Gallina `tx` term.
package txgen

import (
	"fmt"
	"strings"

	"github.com/libsv/go-bt/v2"
	"github.com/libsv/go-bt/v2/bscript"

	"verif/harness/common"
)

type InSpec struct {
	Txid      string `json:"txid"` // display order hex, 32 bytes
	Vout      uint32 `json:"vout"`
	Unlock    string `json:"unlock"`
	UnlockNil bool   `json:"unlock_nil,omitempty"`
	Seq       uint32 `json:"seq"`
	Sats      uint64 `json:"sats"`
	Prev      string `json:"prev"`
	PrevNil   bool   `json:"prev_nil,omitempty"`
}
type OutSpec struct {
	Sats   uint64 `json:"sats"`
	Script string `json:"script"`
}
type TxSpec struct {
	Version uint32    `json:"version"`
	Ins     []InSpec  `json:"ins"`
	Outs    []OutSpec `json:"outs"`
	Lock    uint32    `json:"lock"`
}

var U32Edges = []uint64{0, 1, 2, 0x7f, 0x80, 0xff, 0x100, 0xfffe, 0xffff, 0x10000, 0x7fffffff, 0x80000000, 0xfffffffe, 0xffffffff, 0xef000000, 0xef}
var U64Edges = []uint64{0, 1, 545, 546, 0xff, 0xffff, 0xffffffff, 0x100000000, 2100000000000000, 1 << 63, 1<<64 - 1}
var LenEdges = []int{0, 0, 1, 1, 2, 3, 25, 75, 76, 107, 252, 253, 254, 300}

func U32(r *common.Rand) uint32 {
	if r.Chance(60) {
		return uint32(r.PickU64(U32Edges))
	}
	return uint32(r.U64())
}
func U64(r *common.Rand) uint64 {
	if r.Chance(60) {
		return r.PickU64(U64Edges)
	}
	return r.U64()
}
func Script(r *common.Rand, allowBig bool) []byte {
	if allowBig && r.Chance(3) {
		n := []int{65535, 65536, 70000}[r.Intn(3)]
		b := make([]byte, n)
		v := byte(r.U64())
		for i := range b {
			b[i] = v
		}
		return b
	}
	return r.Bytes(r.Pick(LenEdges))
}

// Gen makes a mostly small transaction; counts sit on varint boundaries now and then.
func Gen(r *common.Rand, big bool) TxSpec {
	t := TxSpec{Version: U32(r), Lock: U32(r)}
	nin, nout := r.Intn(4), r.Intn(4)
	if big && r.Chance(8) {
		nin = []int{252, 253, 254}[r.Intn(3)]
	}
	if big && r.Chance(8) {
		nout = []int{252, 253, 254, 300}[r.Intn(4)]
	}
	var proto *InSpec
	for i := 0; i < nin; i++ {
		if nin > 10 && proto != nil && i < nin-1 {
			t.Ins = append(t.Ins, *proto)
			continue
		}
		in := InSpec{Txid: common.Hex(r.Bytes(32)), Vout: U32(r), Seq: U32(r), Sats: U64(r)}
		small := nin > 10
		if small {
			in.Unlock = common.Hex(r.Bytes(r.Intn(3)))
		} else {
			in.Unlock = common.Hex(Script(r, big))
		}
		if r.Chance(15) && in.Unlock == "" {
			in.UnlockNil = true
		}
		switch r.Intn(4) {
		case 0:
			in.PrevNil = true // the spent script is not known; its value may be (the extended format carries it)
			if r.Bool() {
				in.Sats = 0
			}
		case 1:
			in.Prev = ""
		default:
			if small {
				in.Prev = common.Hex(r.Bytes(r.Intn(3)))
			} else {
				in.Prev = common.Hex(Script(r, false))
			}
		}
		t.Ins = append(t.Ins, in)
		if proto == nil {
			cp := in
			proto = &cp
		}
	}
	var oproto *OutSpec
	for i := 0; i < nout; i++ {
		if nout > 10 && oproto != nil && i < nout-1 {
			t.Outs = append(t.Outs, *oproto)
			continue
		}
		o := OutSpec{Sats: U64(r)}
		if nout > 10 {
			o.Script = common.Hex(r.Bytes(r.Intn(3)))
		} else {
			o.Script = common.Hex(Script(r, big))
		}
		t.Outs = append(t.Outs, o)
		if oproto == nil {
			cp := o
			oproto = &cp
		}
	}
	return t
}

// Build constructs the *bt.Tx through the public API.
func Build(s TxSpec) *bt.Tx {
	tx := &bt.Tx{Version: s.Version, LockTime: s.Lock}
	for _, in := range s.Ins {
		i := &bt.Input{PreviousTxOutIndex: in.Vout, SequenceNumber: in.Seq, PreviousTxSatoshis: in.Sats}
		if err := i.PreviousTxIDAdd(common.Unhex(in.Txid)); err != nil {
			panic(err)
		}
		if !in.UnlockNil {
			i.UnlockingScript = bscript.NewFromBytes(common.Unhex(in.Unlock))
		}
		if !in.PrevNil {
			i.PreviousTxScript = bscript.NewFromBytes(common.Unhex(in.Prev))
		}
		tx.Inputs = append(tx.Inputs, i)
	}
	for _, o := range s.Outs {
		tx.Outputs = append(tx.Outputs, &bt.Output{Satoshis: o.Sats, LockingScript: bscript.NewFromBytes(common.Unhex(o.Script))})
	}
	return tx
}

// Coq renders the spec as a Gallina term of type GoBT.model.Tx.tx.
func Coq(s TxSpec) string {
	var ins, outs []string
	for _, in := range s.Ins {
		ins = append(ins, fmt.Sprintf("mkInput %s %d %s %d %d %s", common.CoqBytes(common.Unhex(in.Txid)), in.Vout,
			common.CoqBytes(common.Unhex(in.Unlock)), in.Seq, in.Sats, common.CoqOptBytes(common.Unhex(in.Prev), in.PrevNil)))
	}
	for _, o := range s.Outs {
		outs = append(outs, fmt.Sprintf("mkOutput %d %s", o.Sats, common.CoqBytes(common.Unhex(o.Script))))
	}
	return fmt.Sprintf("(mkTx %d %s %s %d)", s.Version, runs(ins), runs(outs), s.Lock)
}

// FromTx reads a decoded *bt.Tx back into a spec (for comparing fields).
func FromTx(tx *bt.Tx) TxSpec {
	s := TxSpec{Version: tx.Version, Lock: tx.LockTime}
	for _, in := range tx.Inputs {
		i := InSpec{Txid: common.Hex(in.PreviousTxID()), Vout: in.PreviousTxOutIndex, Seq: in.SequenceNumber, Sats: in.PreviousTxSatoshis}
		if in.UnlockingScript == nil {
			i.UnlockNil = true
		} else {
			i.Unlock = common.Hex(*in.UnlockingScript)
		}
		if in.PreviousTxScript == nil {
			i.PrevNil = true
		} else {
			i.Prev = common.Hex(*in.PreviousTxScript)
		}
		s.Ins = append(s.Ins, i)
	}
	for _, o := range tx.Outputs {
		s.Outs = append(s.Outs, OutSpec{Sats: o.Satoshis, Script: common.Hex(*o.LockingScript)})
	}
	return s
}

// runs prints a list, collapsing runs of identical elements into `repeat x n` so transactions
// with hundreds of identical inputs/outputs stay small.
func runs(xs []string) string {
	if len(xs) == 0 {
		return "[]"
	}
	var parts []string
	i := 0
	for i < len(xs) {
		j := i
		for j < len(xs) && xs[j] == xs[i] {
			j++
		}
		if j-i >= 4 {
			parts = append(parts, fmt.Sprintf("repeat (%s) %d%%nat", xs[i], j-i))
		} else {
			parts = append(parts, "["+strings.Join(xs[i:j], "; ")+"]")
		}
		i = j
	}
	if len(parts) == 1 {
		return "(" + parts[0] + ")"
	}
	return "(" + strings.Join(parts, " ++ ") + ")%list"
}
