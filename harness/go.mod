module verif/harness

go 1.21

require (
	github.com/libsv/go-bk v0.1.6
	github.com/libsv/go-bt/v2 v2.0.0
	golang.org/x/crypto v0.14.0
)

require github.com/pkg/errors v0.9.1 // indirect

replace github.com/libsv/go-bt/v2 => /repo
