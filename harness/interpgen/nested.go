package interpgen

import "bytes"

// NestedSpecial is one opcode (or run of opcodes) with a rule of its own in thread.executeOpcode: the rule applies
// "wherever the opcode stands" or "only when it is executed", depending on the rule and the era.
type NestedSpecial struct {
	Name  string
	Code  []byte
	Flags uint32 // flags the rule needs in addition to the era
	Core  bool
}

// NestedSpecials: disabled opcodes, the always-illegal conditionals, a reserved and an unknown opcode, a non-minimal
// push under MINIMALDATA, a push one byte above the pre-Genesis element size, and enough NOPs to pass the pre-Genesis
// operation count together with the conditionals around them.
func NestedSpecials() []NestedSpecial {
	return []NestedSpecial{
		{"2MUL", []byte{0x8d}, 0, true},
		{"2DIV", []byte{0x8e}, 0, true},
		{"VERIF", []byte{0x65}, 0, true},
		{"VERNOTIF", []byte{0x66}, 0, true},
		{"RESERVED", []byte{0x50}, 0, false},
		{"unknown-ba", []byte{0xba}, 0, false},
		{"nonminimal-push", []byte{0x01, 0x05}, FMinimalData, true},
		{"nonminimal-pushdata1", []byte{0x4c, 0x01, 0x21}, FMinimalData, false},
		{"push-521", RawPush(bytes.Repeat([]byte{0x11}, 521), 2), 0, true},
		{"nop-x498", bytes.Repeat([]byte{0x61}, 498), 0, false},
	}
}

func condPush(v int) []byte {
	if v == 0 {
		return []byte{0x00}
	}
	return []byte{0x51}
}

// nestedBlock: v C [ifPart] ELSE [elsePart] ENDIF
func nestedBlock(v int, notif bool, ifPart, elsePart []byte) []byte {
	op := byte(0x63)
	if notif {
		op = 0x64
	}
	return catb(condPush(v), []byte{op}, ifPart, []byte{0x67}, elsePart, []byte{0x68})
}

// NestedShapes: the lock scripts in which the special x is placed where "the top conditional is true" and "every
// enclosing branch is taken and no OP_RETURN has been executed" are independent of each other:
//   - depth 2: an IF/NOTIF with either condition value in the IF part or the ELSE part of an outer IF/NOTIF with either
//     condition value; x in the inner IF part, the inner ELSE part, or after the inner ENDIF (96 shapes);
//   - depth 3: the same one level deeper, x in the innermost IF or ELSE part (IF / NOTIF alternating; 64 shapes);
//   - after an executed OP_RETURN inside a conditional: x in the same branch, in the other branch, after the ENDIF,
//     inside a conditional opened after the OP_RETURN, with the OP_RETURN one level deeper; and with the OP_RETURN in
//     a branch not taken (x then executes).
//
// Every script ends in OP_1 (when execution gets there the verdict is ok).
func NestedShapes(x []byte) (names []string, locks [][]byte, unlocks [][]byte) {
	add := func(n string, unlock, lock []byte) {
		names, locks, unlocks = append(names, n), append(locks, lock), append(unlocks, unlock)
	}
	at := func(pos, want int) []byte {
		if pos == want {
			return x
		}
		return nil
	}
	part := func(inElse bool, inner []byte) (a, b []byte) {
		if inElse {
			return nil, inner
		}
		return inner, nil
	}
	bit := func(i, k int) int { return i >> k & 1 }
	for i := 0; i < 32; i++ {
		for pos := 0; pos < 3; pos++ {
			inner := catb(nestedBlock(bit(i, 0), bit(i, 1) == 1, at(pos, 0), at(pos, 1)), at(pos, 2))
			a, b := part(bit(i, 2) == 1, inner)
			add("d2", nil, catb(nestedBlock(bit(i, 3), bit(i, 4) == 1, a, b), []byte{0x51}))
		}
	}
	for i := 0; i < 32; i++ {
		for pos := 0; pos < 2; pos++ {
			inner := nestedBlock(bit(i, 0), (i+pos)%2 == 1, at(pos, 0), at(pos, 1))
			a, b := part(bit(i, 1) == 1, inner)
			mid := nestedBlock(bit(i, 2), (i/4+pos)%2 == 0, a, b)
			a, b = part(bit(i, 3) == 1, mid)
			add("d3", nil, catb(nestedBlock(bit(i, 4), i%3 == 0, a, b), []byte{0x51}))
		}
	}
	ret := []byte{0x6a}
	one := []byte{0x51}
	add("ret/after-endif", nil, catb(nestedBlock(1, false, ret, nil), x, one))
	add("ret/same-branch", nil, catb(nestedBlock(1, false, catb(ret, x), nil), one))
	add("ret/other-branch", nil, catb(nestedBlock(1, false, ret, x), one))
	add("ret/else-branch-then-after", nil, catb(nestedBlock(0, false, nil, ret), x, one))
	add("ret/notif-then-after", nil, catb(nestedBlock(0, true, ret, nil), x, one))
	add("ret/not-taken-then-after", nil, catb(nestedBlock(0, false, ret, nil), x, one))
	add("ret/not-taken-nested-then-after", nil, catb(nestedBlock(0, false, nestedBlock(1, false, nil, ret), nil), x, one))
	add("ret/if-opened-after/if-part", nil, catb(nestedBlock(1, false, catb(ret, nestedBlock(1, false, x, nil)), nil), one))
	add("ret/if-opened-after/else-part", nil, catb(nestedBlock(1, false, catb(ret, nestedBlock(1, false, nil, x)), nil), one))
	add("ret/if-opened-after-endif/else-part", nil, catb(nestedBlock(1, false, ret, nil), nestedBlock(0, false, nil, x), one))
	add("ret/deeper-then-outer-branch", nil, catb(nestedBlock(1, false, catb(nestedBlock(1, false, ret, nil), x), nil), one))
	add("ret/deeper-then-after", nil, catb(nestedBlock(1, false, nestedBlock(0, true, ret, nil), nil), x, one))
	// the early-return flag belongs to one script
	add("ret/in-unlock-then-lock", catb(one, nestedBlock(1, false, ret, nil)), catb(x, one))
	add("ret/in-unlock-then-lock-nested", catb(one, nestedBlock(1, false, ret, nil)), catb(nestedBlock(0, false, nestedBlock(0, false, nil, x), nil), one))
	return
}
