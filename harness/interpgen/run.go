// Package interpgen: program generators and the execution/recording helpers shared by the
// interpreter properties (C05, C07, C08, C19). (Owned by the interpreter checks; do not reuse the name.)
package interpgen

import (
	"bytes"
	"crypto/sha256"
	"encoding/binary"
	"encoding/hex"
	"fmt"

	"github.com/libsv/go-bt/v2"
	"github.com/libsv/go-bt/v2/bscript"
	"github.com/libsv/go-bt/v2/bscript/interpreter"
	"github.com/libsv/go-bt/v2/bscript/interpreter/scriptflag"

	"verif/harness/common"
)

// Program is one interpreter run.
type Program struct {
	Unlock    []byte `json:"-"`
	Lock      []byte `json:"-"`
	UnlockHex string `json:"unlock"`
	LockHex   string `json:"lock"`
	Flags     uint32 `json:"flags"`
	HasTx     bool   `json:"has_tx"`
	HasPrev   bool   `json:"has_prev"`
	TxLock    uint32 `json:"tx_lock"`
	TxVersion uint32 `json:"tx_version"`
	InSeq     uint32 `json:"in_seq"`
	Kind      string `json:"kind"`
	// go-only contexts: ExtraIn inputs before and ExtraOut outputs around the tested input/output (the
	// model's engine_execute only sees lock time, version and the tested input's sequence)
	ExtraIn  int `json:"extra_in,omitempty"`
	ExtraOut int `json:"extra_out,omitempty"`
	// ScriptsApart: the unlocking script is handed over with WithScripts only; the tested input of the transaction
	// carries none (an unsigned transaction checked against a candidate script)
	ScriptsApart bool `json:"scripts_apart,omitempty"`
}

func (p *Program) Fix() *Program {
	if p.Unlock == nil {
		p.Unlock = []byte{}
	}
	if p.Lock == nil {
		p.Lock = []byte{}
	}
	p.UnlockHex, p.LockHex = hex.EncodeToString(p.Unlock), hex.EncodeToString(p.Lock)
	return p
}

// Push is the minimal push of data.
func Push(d []byte) []byte {
	switch {
	case len(d) == 0:
		return []byte{0x00}
	case len(d) == 1 && d[0] >= 1 && d[0] <= 16:
		return []byte{0x50 + d[0]}
	case len(d) == 1 && d[0] == 0x81:
		return []byte{0x4f}
	case len(d) <= 75:
		return append([]byte{byte(len(d))}, d...)
	case len(d) <= 255:
		return append([]byte{0x4c, byte(len(d))}, d...)
	case len(d) <= 65535:
		return append([]byte{0x4d, byte(len(d)), byte(len(d) >> 8)}, d...)
	default:
		b := []byte{0x4e, 0, 0, 0, 0}
		binary.LittleEndian.PutUint32(b[1:], uint32(len(d)))
		return append(b, d...)
	}
}

// RawPush pushes with a chosen form even when a shorter one exists (non-minimal on purpose):
// 0 = direct length byte (<= 75), 1/2/4 = OP_PUSHDATA1/2/4, -1 = shortest length-based form.
func RawPush(d []byte, form int) []byte {
	switch form {
	case 1:
		return append([]byte{0x4c, byte(len(d))}, d...)
	case 2:
		return append([]byte{0x4d, byte(len(d)), byte(len(d) >> 8)}, d...)
	case 4:
		b := []byte{0x4e, 0, 0, 0, 0}
		binary.LittleEndian.PutUint32(b[1:], uint32(len(d)))
		return append(b, d...)
	}
	switch {
	case len(d) <= 75:
		return append([]byte{byte(len(d))}, d...)
	case len(d) <= 255:
		return RawPush(d, 1)
	case len(d) <= 65535:
		return RawPush(d, 2)
	}
	return RawPush(d, 4)
}

// Snapshot of both stacks (bottom first) as handed to Debugger.AfterStep.
type Snapshot struct {
	Data [][]byte
	Alt  [][]byte
}

// Recorder is a Debugger recording AfterStep snapshots and (Full) the callback order.
type Recorder struct {
	Snaps    []Snapshot
	Trace    []string
	Full     bool
	Scribble bool // overwrite every byte of every State it is handed (C19)
	// Incons is the first inconsistency seen in a State handed to a callback: every snapshot must
	// show the running execution (its scripts, the program counter of the instruction in progress,
	// the item just pushed on top of one of the stacks).
	Incons     string
	inOp       bool
	opS, opIdx int
	// held: the State values handed to the callbacks, kept as a step-back debugger keeps them, with a checksum of
	// what their stacks held at that moment; CheckHeld looks at them again after the run
	held []heldState
	// the else stack (one entry per open conditional after Genesis: has its OP_ELSE been seen) as the snapshot
	// before the instruction showed it, and the instruction
	elseAtBO [][]byte
	opAtBO   byte
	// Shown: a checksum of everything each callback was shown (the whole State and the data argument), taken before
	// the recorder touches any of it: what a debugger is shown does not depend on what it did with what it was shown before
	Shown []uint64
}

type heldState struct {
	st  *interpreter.State
	ev  string
	n   int
	sum uint64
}

// shownSum: every field of a State and the callback's data argument.
func shownSum(s *interpreter.State, data []byte) uint64 {
	h := stateSum(s)
	mix := func(v uint64) { h ^= v; h *= 1099511628211 }
	for _, st := range [][][]byte{s.ElseStack} {
		mix(uint64(len(st)))
		for _, it := range st {
			mix(uint64(len(it)))
			for _, b := range it {
				mix(uint64(b))
			}
		}
	}
	for _, v := range s.CondStack {
		mix(uint64(v) + 3)
	}
	mix(uint64(s.ScriptIdx))
	mix(uint64(s.OpcodeIdx))
	mix(uint64(s.NumOps))
	mix(uint64(s.LastCodeSeparatorIdx))
	mix(uint64(s.Flags))
	for _, sc := range s.Scripts {
		mix(uint64(len(sc)))
		for _, op := range sc {
			mix(uint64(op.Value()))
			for _, b := range op.Data {
				mix(uint64(b))
			}
		}
	}
	mix(uint64(len(data)) + 1)
	for _, b := range data {
		mix(uint64(b))
	}
	return h
}

func stateSum(s *interpreter.State) uint64 {
	h := uint64(14695981039346656037)
	mix := func(b byte) { h ^= uint64(b); h *= 1099511628211 }
	for _, st := range [][][]byte{s.DataStack, s.AltStack, s.SavedFirstStack} {
		mix(byte(len(st)))
		for _, it := range st {
			mix(byte(len(it)))
			mix(byte(len(it) >> 8))
			for _, b := range it {
				mix(b)
			}
		}
	}
	return h
}

// CheckHeld: a State handed to a callback is the debugger's to keep: what it showed then it shows for ever,
// whatever the engine does afterwards (and whatever later snapshots are taken).
func (r *Recorder) CheckHeld() {
	for _, h := range r.held {
		if stateSum(h.st) != h.sum {
			r.flag(fmt.Sprintf("the State handed to callback %s (number %d of the run) no longer shows the stacks it showed then: data stack now %x", h.ev, h.n, h.st.DataStack))
			break
		}
	}
	r.held = nil
}

func cp(x [][]byte) [][]byte {
	out := make([][]byte, len(x))
	for i := range x {
		out[i] = append([]byte{}, x[i]...)
	}
	return out
}
func (r *Recorder) flag(msg string) {
	if r.Incons == "" {
		r.Incons = msg
	}
}

func (r *Recorder) ev(n string, s *interpreter.State) { r.evData(n, s, nil) }

func (r *Recorder) evData(n string, s *interpreter.State, data []byte) {
	if r.Full {
		r.Trace = append(r.Trace, n)
		if s != nil && len(r.Shown) < 4000 {
			r.Shown = append(r.Shown, shownSum(s, data))
		}
	}
	if s == nil {
		r.flag(n + ": nil State")
	} else {
		if len(s.Scripts) < 2 {
			r.flag(fmt.Sprintf("%s: State has %d scripts (the execution has at least two)", n, len(s.Scripts)))
		}
		// the accessors a debugger typically calls on a snapshot (a panic here is a panic of Execute)
		_ = s.Opcode()
		_ = s.RemainingScript()
		// every snapshot locates itself inside the scripts it carries (State.Opcode() indexes them)
		if s.ScriptIdx < 0 || (s.ScriptIdx >= len(s.Scripts) && n != "AC" && n != "OK" && n != "ER" && n != "AE" && n != "AS") {
			r.flag(fmt.Sprintf("%s: State is at script %d but carries %d scripts", n, s.ScriptIdx, len(s.Scripts)))
		} else if (n == "BO" || n == "AO" || n == "bp" || n == "ap" || n == "bq" || n == "aq") && r.inOpOrBO(n) &&
			(s.ScriptIdx >= len(s.Scripts) || s.OpcodeIdx < 0 || s.OpcodeIdx >= len(s.Scripts[s.ScriptIdx])) {
			r.flag(fmt.Sprintf("%s: State is at %d:%d but script %d has %d opcodes in the snapshot", n, s.ScriptIdx, s.OpcodeIdx, s.ScriptIdx, scriptLen(s)))
		}
		switch n {
		case "AO":
			// consecutive snapshots are consistent with the instruction between them, the else stack included:
			// OP_IF / OP_NOTIF open an entry (false), OP_ELSE marks the innermost one, OP_ENDIF closes it, bottom first
			// like every other stack of a snapshot; before Genesis there is none
			if r.inOp {
				want := r.elseAtBO
				if s.Genesis.AfterGenesis {
					switch r.opAtBO {
					case 0x63, 0x64:
						want = append(cp(want), []byte{})
					case 0x67:
						if len(want) > 0 {
							want = append(cp(want[:len(want)-1]), []byte{1})
						}
					case 0x68:
						if len(want) > 0 {
							want = cp(want[:len(want)-1])
						}
					}
				}
				same := len(want) == len(s.ElseStack)
				for i := 0; same && i < len(want); i++ {
					same = bytes.Equal(want[i], s.ElseStack[i])
				}
				if !same {
					r.flag(fmt.Sprintf("AO: else stack %x before opcode 0x%02x, %x after it; the instruction makes it %x", r.elseAtBO, r.opAtBO, s.ElseStack, want))
				}
			}
		}
		switch n {
		case "BO":
			r.elseAtBO, r.opAtBO = cp(s.ElseStack), s.Opcode().Value()
			r.inOp, r.opS, r.opIdx = true, s.ScriptIdx, s.OpcodeIdx
		case "AO", "AS", "BC", "AE":
			r.inOp = false
		case "bp", "ap", "bq", "aq":
			if r.inOp && (s.ScriptIdx != r.opS || s.OpcodeIdx != r.opIdx) {
				r.flag(fmt.Sprintf("%s: State is at %d:%d while instruction %d:%d is executing", n, s.ScriptIdx, s.OpcodeIdx, r.opS, r.opIdx))
			}
		}
	}
	if s != nil && !r.Scribble && len(r.held) < 400 {
		r.held = append(r.held, heldState{s, n, len(r.held), stateSum(s)})
	}
	if r.Scribble && s != nil {
		scribble(s)
	}
}
func (r *Recorder) inOpOrBO(n string) bool { return n == "BO" || r.inOp }
func scriptLen(s *interpreter.State) int {
	if s.ScriptIdx >= 0 && s.ScriptIdx < len(s.Scripts) {
		return len(s.Scripts[s.ScriptIdx])
	}
	return -1
}
func scribble(s *interpreter.State) {
	for _, st := range [][][]byte{s.DataStack, s.AltStack, s.ElseStack, s.SavedFirstStack} {
		for i := range st {
			for j := range st[i] {
				st[i][j] += 0x5b // not self-inverse: an even number of callbacks must not restore the bytes
			}
		}
	}
	for i := range s.CondStack {
		s.CondStack[i] = 7
	}
	for i := range s.Scripts {
		for j := range s.Scripts[i] {
			for k := range s.Scripts[i][j].Data {
				s.Scripts[i][j].Data[k] += 0x5b // push data is future stack data
			}
			s.Scripts[i][j] = interpreter.ParsedOpcode{}
		}
	}
	s.ScriptIdx, s.OpcodeIdx, s.NumOps, s.LastCodeSeparatorIdx, s.Flags = 99, 99, 99999, 99, 0xffffffff
}
func (r *Recorder) BeforeExecute(s *interpreter.State) { r.ev("BE", s) }
func (r *Recorder) AfterExecute(s *interpreter.State)  { r.ev("AE", s) }
func (r *Recorder) BeforeStep(s *interpreter.State)    { r.ev("BS", s) }
func (r *Recorder) AfterStep(s *interpreter.State) {
	r.Snaps = append(r.Snaps, Snapshot{cp(s.DataStack), cp(s.AltStack)})
	r.ev("AS", s)
}
func (r *Recorder) BeforeExecuteOpcode(s *interpreter.State) { r.ev("BO", s) }
func (r *Recorder) AfterExecuteOpcode(s *interpreter.State)  { r.ev("AO", s) }
func (r *Recorder) BeforeScriptChange(s *interpreter.State)  { r.ev("BC", s) }
func (r *Recorder) AfterScriptChange(s *interpreter.State)   { r.ev("AC", s) }
func (r *Recorder) AfterSuccess(s *interpreter.State)        { r.ev("OK", s) }
func (r *Recorder) AfterError(s *interpreter.State, _ error) { r.ev("ER", s) }

// scribbleData: the byte slices handed to the stack callbacks are stack data handed to a debugger too
func (r *Recorder) scribbleData(bb []byte) {
	if r.Scribble {
		for i := range bb {
			bb[i] += 0x5b
		}
	}
}
func (r *Recorder) BeforeStackPush(s *interpreter.State, bb []byte) {
	r.evData("bp", s, bb)
	r.scribbleData(bb)
}
func (r *Recorder) AfterStackPush(s *interpreter.State, bb []byte) {
	if s != nil {
		top := func(st [][]byte) bool { return len(st) > 0 && bytes.Equal(st[len(st)-1], bb) }
		if !top(s.DataStack) && !top(s.AltStack) {
			r.flag(fmt.Sprintf("ap: pushed item %x is on top of neither stack in the State handed to AfterStackPush", bb))
		}
	}
	r.evData("ap", s, bb)
	r.scribbleData(bb)
}
func (r *Recorder) BeforeStackPop(s *interpreter.State) { r.ev("bq", s) }
func (r *Recorder) AfterStackPop(s *interpreter.State, bb []byte) {
	r.evData("aq", s, bb)
	r.scribbleData(bb)
}

func u32(n int) []byte {
	b := make([]byte, 4)
	binary.LittleEndian.PutUint32(b, uint32(n))
	return b
}
func serStack(st [][]byte) []byte {
	out := u32(len(st))
	for _, it := range st {
		out = append(out, u32(len(it))...)
		out = append(out, it...)
	}
	return out
}

// TraceHash is SHA-256 of the canonical serialisation of all snapshots (the Coq side computes the same).
func TraceHash(snaps []Snapshot) string {
	h := sha256.New()
	for _, s := range snaps {
		h.Write(serStack(s.Data))
		h.Write(serStack(s.Alt))
	}
	return hex.EncodeToString(h.Sum(nil))
}

// Result of running a program against the implementation.
type Result struct {
	TraceBytes int    // size of the canonical serialisation of all snapshots (cost of the model-side hash)
	Obs        string // ok | err | panic
	Err        string
	Steps      int
	Hash       string
	Snaps      []Snapshot
	Trace      []string
	Incons     string
	Shown      []uint64
}

// Built holds the caller-owned objects handed to the engine (C08 compares them before/after).
type Built struct {
	Lock, Unlock *bscript.Script
	Tx           *bt.Tx
	Opts         []interpreter.ExecutionOptionFunc
}

// Build creates the engine options for a program; dbg may be nil.
func Build(p *Program, dbg interpreter.Debugger) *Built {
	b := &Built{Lock: bscript.NewFromBytes(append([]byte{}, p.Lock...)), Unlock: bscript.NewFromBytes(append([]byte{}, p.Unlock...))}
	if p.HasTx {
		tx := bt.NewTx()
		tx.Version, tx.LockTime = p.TxVersion, p.TxLock
		for k := 0; k < p.ExtraIn; k++ {
			other := &bt.Input{PreviousTxOutIndex: uint32(k + 1), SequenceNumber: 0xfffffffe, UnlockingScript: bscript.NewFromBytes([]byte{0x51, byte(0x52 + k)})}
			_ = other.PreviousTxIDAdd(bytes.Repeat([]byte{byte(k + 1)}, 32))
			tx.Inputs = append(tx.Inputs, other)
		}
		in := &bt.Input{PreviousTxOutIndex: 0, SequenceNumber: p.InSeq}
		_ = in.PreviousTxIDAdd(make([]byte, 32))
		if !p.ScriptsApart {
			in.UnlockingScript = b.Unlock
		}
		tx.Inputs = append(tx.Inputs, in)
		tx.Outputs = append(tx.Outputs, &bt.Output{Satoshis: 1, LockingScript: bscript.NewFromBytes([]byte{0x51})})
		for k := 0; k < p.ExtraOut; k++ {
			tx.Outputs = append(tx.Outputs, &bt.Output{Satoshis: uint64(1000 + k), LockingScript: bscript.NewFromBytes([]byte{0x76, 0xa9, byte(k)})})
		}
		b.Tx = tx
		if p.HasPrev && p.ScriptsApart {
			b.Opts = append(b.Opts, interpreter.WithTx(tx, p.ExtraIn, &bt.Output{Satoshis: 1000, LockingScript: b.Lock}), interpreter.WithScripts(b.Lock, b.Unlock))
		} else if p.HasPrev {
			b.Opts = append(b.Opts, interpreter.WithTx(tx, p.ExtraIn, &bt.Output{Satoshis: 1000, LockingScript: b.Lock}))
		} else {
			b.Opts = append(b.Opts, interpreter.WithTx(tx, p.ExtraIn, nil), interpreter.WithScripts(b.Lock, b.Unlock))
		}
	} else {
		b.Opts = append(b.Opts, interpreter.WithScripts(b.Lock, b.Unlock))
	}
	b.Opts = append(b.Opts, interpreter.WithFlags(scriptflag.Flag(p.Flags)))
	if dbg != nil {
		b.Opts = append(b.Opts, interpreter.WithDebugger(dbg))
	}
	return b
}

func exec(b *Built) (string, string) {
	var err error
	panicked, m := common.Safely(func() { err = interpreter.NewEngine().Execute(b.Opts...) })
	switch {
	case panicked:
		return "panic", m
	case err != nil:
		return "err", err.Error()
	}
	return "ok", ""
}

// RunWith executes p with the given recorder.
func RunWith(p *Program, rec *Recorder) Result { return RunBuilt(Build(p, rec), rec) }

// RunBuilt executes already built options (the caller keeps b to inspect its buffers afterwards).
func RunBuilt(b *Built, rec *Recorder) Result {
	obs, msg := exec(b)
	rec.CheckHeld()
	tb := 0
	for _, sn := range rec.Snaps {
		tb += 8
		for _, it := range sn.Data {
			tb += 4 + len(it)
		}
		for _, it := range sn.Alt {
			tb += 4 + len(it)
		}
	}
	return Result{Obs: obs, Err: msg, Steps: len(rec.Snaps), Hash: TraceHash(rec.Snaps), Snaps: rec.Snaps, Trace: rec.Trace, Incons: rec.Incons, TraceBytes: tb, Shown: rec.Shown}
}

// Run executes p with a recording debugger.
func Run(p *Program, full bool) Result { return RunWith(p, &Recorder{Full: full}) }

// RunPlain executes p without any debugger.
func RunPlain(p *Program) (obs string, msg string) { return exec(Build(p, nil)) }

// CoqCase renders the program and the observation as a GoBT.corr.C05.case term (without k_node).
func CoqCase(p *Program, r Result) string {
	obs := map[string]string{"ok": "ObsOk", "err": "ObsErr", "panic": "ObsPanic"}[r.Obs]
	return fmt.Sprintf("mkCase %s %s %d %s %s %d %d %d %s %d %s", common.CoqBytes(p.Unlock), common.CoqBytes(p.Lock), p.Flags,
		common.CoqBool(p.HasTx), common.CoqBool(p.HasPrev), p.TxLock, p.TxVersion, p.InSeq, obs, r.Steps, common.CoqStr(r.Hash))
}

const (
	FBip16 = 1 << iota
	FStrictMultiSig
	FDiscourageNops
	FCLTV
	FCSV
	FCleanStack
	FDERSig
	FLowS
	FMinimalData
	FNullFail
	FSigPushOnly
	FForkID
	FStrictEnc
	FBip143
	FGenesis
	FMinimalIf
)
