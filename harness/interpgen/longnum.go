package interpgen

// LongNumbers: number operands at the LENGTHS no other family produces (the longest number elsewhere is 10 bytes):
// after Genesis a number may be up to 750 000 bytes long, and everything the decoder / encoder computes from the
// length of an operand (the position of the sign bit 8*(len-1), the size of the result, a length byte) passes the
// widths of the machine integers at lengths 16/17 (8*(len-1) = 128: int8), 32/33 (256: uint8), 128/129, 255/256/257,
// 4096/4097 (8*len = 32768: int16) and 8192/8193 (65536: uint16). For every such length: every SHAPE of operand
// (positive / negative with the sign in the top magnitude byte, positive / negative with a separate sign byte,
// padded small values of both signs, long zero and long negative zero, all bits set) read by every KIND of opcode
// that reads a number (unary and binary arithmetic, comparison, OP_WITHIN, OP_BIN2NUM, OP_NUM2BIN as value and as
// size, OP_PICK / OP_ROLL / OP_SPLIT / shifts as index, OP_IF / OP_NOT as truth value), in the era with big
// numbers (with and without MINIMALDATA) and, for a sample, before Genesis (where all of them are too long).
//
// deep = false: at 16 .. 257 bytes all shapes x (the core readers + a quarter of the others, which quarter rotates with
// salt); a reduced set of shapes and the core readers at 521 .. 8193 bytes.
// deep = true: more lengths; every shape and reader up to 1024 bytes, every shape x (core + a quarter of the other
// readers) up to 8194, and the reduced set at 16 385 .. 65 537 bytes (len = 2^16).
//
// emit is told the operand's length and whether shape and reader belong to the reduced set: the cost of evaluating a
// case on the Coq model grows with the square of the length (0.3 s at 257 bytes, minutes at 8193), so the caller
// decides which cases the model sees and which are compared with a Go-level reference only.
func LongNumbers(emit func(p *Program, operandLen int, core bool), deep bool, salt int) {
	fill := func(n int, salt byte) []byte { // n pseudo-random non-zero bytes, the same for the same (n, salt)
		out := make([]byte, n)
		s := uint32(n)*2654435761 + uint32(salt)*40503 + 1
		for i := range out {
			s = s*1664525 + 1013904223
			out[i] = byte(s>>24) | 1
		}
		return out
	}
	type shape struct {
		name string
		mk   func(n int) []byte
		core bool // part of the reduced set used for the long lengths of the quick tier
	}
	shapes := []shape{
		{"neg-top", func(n int) []byte { b := fill(n, 1); b[n-1] = 0x80 | (b[n-1]&0x7f | 1); return b }, true},
		{"pos-top", func(n int) []byte { b := fill(n, 2); b[n-1] = b[n-1]&0x7f | 1; return b }, true},
		{"neg-signbyte", func(n int) []byte { b := fill(n, 3); b[n-2] |= 0x80; b[n-1] = 0x80; return b }, true},
		{"pos-signbyte", func(n int) []byte { b := fill(n, 4); b[n-2] |= 0x80; b[n-1] = 0x00; return b }, false},
		{"neg-pow2", func(n int) []byte { b := make([]byte, n); b[n-2], b[n-1] = 0x80, 0x80; return b }, false}, // -2^(8(n-1)-1)
		{"padded-minus-1", func(n int) []byte { b := make([]byte, n); b[0], b[n-1] = 0x01, 0x80; return b }, true},
		{"padded-2", func(n int) []byte { b := make([]byte, n); b[0] = 0x02; return b }, false},
		{"padded-minus-2", func(n int) []byte { b := make([]byte, n); b[0], b[n-1] = 0x02, 0x80; return b }, false},
		{"zero", func(n int) []byte { return make([]byte, n) }, false},
		{"neg-zero", func(n int) []byte { b := make([]byte, n); b[n-1] = 0x80; return b }, false},
		{"all-ones", func(n int) []byte {
			b := make([]byte, n)
			for i := range b {
				b[i] = 0xff
			}
			return b
		}, false},
	}
	type reader struct {
		name string
		mk   func(x []byte) []byte // the locking script around the operand
		core bool
	}
	item := []byte{0x61, 0x62, 0x63, 0x64}
	three := catb(Push([]byte{5}), Push([]byte{6}), Push([]byte{7}))
	readers := []reader{
		{"1ADD", func(x []byte) []byte { return catb(Push(x), []byte{0x8b}) }, true},
		{"1SUB", func(x []byte) []byte { return catb(Push(x), []byte{0x8c}) }, false},
		{"NEGATE", func(x []byte) []byte { return catb(Push(x), []byte{0x8f}) }, false},
		{"ABS", func(x []byte) []byte { return catb(Push(x), []byte{0x90}) }, true},
		{"NOT", func(x []byte) []byte { return catb(Push(x), []byte{0x91, 0x74}) }, false},
		{"0NOTEQUAL", func(x []byte) []byte { return catb(Push(x), []byte{0x92}) }, false},
		{"BIN2NUM", func(x []byte) []byte { return catb(Push(x), []byte{0x81}) }, true},
		{"x+3", func(x []byte) []byte { return catb(Push(x), Push([]byte{3}), []byte{0x93}) }, false},
		{"3-x", func(x []byte) []byte { return catb(Push([]byte{3}), Push(x), []byte{0x94}) }, true},
		{"x*-2", func(x []byte) []byte { return catb(Push(x), Push([]byte{0x82}), []byte{0x95}) }, false},
		{"x/7", func(x []byte) []byte { return catb(Push(x), Push([]byte{7}), []byte{0x96}) }, false},
		{"x%-7", func(x []byte) []byte { return catb(Push(x), Push([]byte{0x87}), []byte{0x97, 0x74}) }, false},
		{"7/x", func(x []byte) []byte { return catb(Push([]byte{7}), Push(x), []byte{0x96, 0x74}) }, false},
		{"x-x", func(x []byte) []byte { return catb(Push(x), []byte{0x76, 0x94, 0x74}) }, false},
		{"x<0", func(x []byte) []byte { return catb(Push(x), Push([]byte{}), []byte{0x9f, 0x74}) }, true},
		{"1>=x", func(x []byte) []byte { return catb(Push([]byte{1}), Push(x), []byte{0xa2, 0x74}) }, false},
		{"x==x", func(x []byte) []byte { return catb(Push(x), []byte{0x76, 0x9c}) }, false},
		{"x!=-1", func(x []byte) []byte { return catb(Push(x), []byte{0x4f, 0x9e, 0x74}) }, false},
		{"MIN(x,0)", func(x []byte) []byte { return catb(Push(x), Push([]byte{}), []byte{0xa3, 0x74}) }, false},
		{"MAX(0,x)", func(x []byte) []byte { return catb(Push([]byte{}), Push(x), []byte{0xa4, 0x74}) }, false},
		{"BOOLAND", func(x []byte) []byte { return catb(Push(x), Push([]byte{1}), []byte{0x9a, 0x74}) }, false},
		{"WITHIN(0,x,9)", func(x []byte) []byte { return catb(Push([]byte{}), Push(x), Push([]byte{9}), []byte{0xa5, 0x74}) }, false},
		{"WITHIN(x,-9,9)", func(x []byte) []byte { return catb(Push(x), Push([]byte{0x89}), Push([]byte{9}), []byte{0xa5, 0x74}) }, false},
		{"NUM2BIN-size", func(x []byte) []byte { return catb(Push([]byte{0x85}), Push(x), []byte{0x80}) }, false},
		{"PICK", func(x []byte) []byte { return catb(three, Push(x), []byte{0x79}) }, true},
		{"ROLL", func(x []byte) []byte { return catb(three, Push(x), []byte{0x7a}) }, false},
		{"SPLIT", func(x []byte) []byte { return catb(Push(item), Push(x), []byte{0x7f}) }, false},
		{"LSHIFT", func(x []byte) []byte { return catb(Push(item), Push(x), []byte{0x98}) }, false},
		{"RSHIFT", func(x []byte) []byte { return catb(Push(item), Push(x), []byte{0x99}) }, false},
		{"IF", func(x []byte) []byte { return catb(Push(x), []byte{0x63, 0x51, 0x67, 0x00, 0x68}) }, false},
	}
	// OP_NUM2BIN with the operand as the VALUE: the requested size is the operand's length, one less, one more
	num2bin := func(x []byte, d int) []byte {
		return catb(Push(x), Push(NumEnc(int64(len(x)+d))), []byte{0x80})
	}
	lengths := []int{16, 17, 32, 33, 34, 65, 129, 255, 256, 257, 521, 4097, 8192, 8193}
	if deep {
		lengths = []int{11, 15, 16, 17, 18, 31, 32, 33, 34, 63, 64, 65, 127, 128, 129, 255, 256, 257, 520, 521, 1024, 4096, 4097, 8192, 8193, 8194,
			16385, 32769, 65535, 65536, 65537}
	}
	curLen, curCore := 0, false
	one := func(lock []byte, fl uint32, kind string) {
		emit((&Program{Unlock: []byte{}, Lock: lock, Flags: fl, Kind: kind}).Fix(), curLen, curCore && fl == FGenesis)
	}
	for li, n := range lengths {
		long := n > 257
		huge := n > 8194
		for si, sh := range shapes {
			if (long && !deep || huge) && !sh.core {
				continue
			}
			x := sh.mk(n)
			kind := "longnum/" + sh.name
			curLen = n
			for ri, rd := range readers {
				if (long && !deep || huge) && !rd.core {
					continue
				}
				if (!deep || n > 1024) && !rd.core && (li+si+ri+salt)%4 != 0 {
					continue
				}
				lock := rd.mk(x)
				curCore = sh.core && rd.core
				one(lock, FGenesis, kind)
				if !long && (si+ri)%3 == 0 || rd.name == "BIN2NUM" && !huge {
					one(lock, FGenesis|FMinimalData, kind)
				}
				if n <= 34 && (si+ri)%7 == 0 {
					one(lock, 0, kind) // before Genesis: longer than 4 bytes, not a number
				}
			}
			curCore = false
			if !huge {
				for d := -1; d <= 1; d++ {
					if !deep && d != 0 && (long || (li+si+salt)%3 != d+1) {
						continue
					}
					one(num2bin(x, d), FGenesis, kind)
				}
			}
		}
	}
}
