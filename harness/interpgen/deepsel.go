package interpgen

import "bytes"

// DeepStacksSel: the programs of DeepStacks (same shapes, same kinds) for the (k, n) pairs the selector accepts —
// k marked items parked on one stack, n items pushed on and dropped from the other. A program of this family costs
// time proportional to n*(k+n) on both sides (every step is a snapshot of both stacks), so a quick tier keeps every k
// at the small reallocation sizes and a reduced set of k at the large ones.
func DeepStacksSel(emit func(*Program), sel func(k, n int) bool) {
	rep := func(b []byte, n int) []byte { return bytes.Repeat(b, n) }
	for _, k := range []int{1, 2, 31, 32, 33} {
		for _, n := range []int{3, 31, 32, 33, 34, 63, 64, 65, 127, 128, 129, 255, 257} {
			for _, fl := range []uint32{0, FGenesis} {
				if (k > 2 && n > 129) || (fl == 0 && k+n > 900) || !sel(k, n) {
					continue
				}
				var park, check []byte
				for i := 0; i < k; i++ {
					park = append(park, Push([]byte{0xa0, byte(i)})...)
					park = append(park, 0x6b)
				}
				for i := k - 1; i >= 0; i-- {
					check = append(check, 0x6c)
					check = append(check, Push([]byte{0xa0, byte(i)})...)
					check = append(check, 0x88)
				}
				emit((&Program{Unlock: []byte{}, Lock: catb(park, rep([]byte{0x57}, n), rep([]byte{0x75}, n), check, []byte{0x51}), Flags: fl, Kind: "deep-stacks/data-over-alt"}).Fix())
				var keep, check2 []byte
				for i := 0; i < k; i++ {
					keep = append(keep, Push([]byte{0xb0, byte(i)})...)
				}
				for i := k - 1; i >= 0; i-- {
					check2 = append(check2, Push([]byte{0xb0, byte(i)})...)
					check2 = append(check2, 0x88)
				}
				emit((&Program{Unlock: []byte{}, Lock: catb(keep, rep([]byte{0x57, 0x6b}, n), rep([]byte{0x6c, 0x75}, n), check2, []byte{0x51}), Flags: fl, Kind: "deep-stacks/alt-over-data"}).Fix())
			}
		}
	}
}
