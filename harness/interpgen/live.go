//go:build verif

package interpgen

import (
	"fmt"
	"strings"
	"unsafe"

	"github.com/libsv/go-bt/v2/bscript/interpreter"

	"verif/harness/common"
)

// Where a stack item lies: the number of its backing array (1-based, in order of first appearance in the run: the
// unlocking script, the locking script, then every snapshot, data stack before alt stack, bottom first), its start
// relative to the first slice seen of that array, and its length. Empty items have no storage: {0,0,0}.
type Where struct{ Arr, Off, Len int }

// LiveSnap is the sharing after one step.
type LiveSnap struct{ Data, Alt []Where }

type arrays struct {
	num  map[uintptr]int     // end address of a backing array -> its number
	base map[uintptr]uintptr // ... -> start address of the first slice seen of it
	keep [][]byte            // every slice seen is kept alive, so that no address is ever reused during the run
}

func (a *arrays) where(s []byte) Where {
	if len(s) == 0 {
		return Where{}
	}
	start := uintptr(unsafe.Pointer(unsafe.SliceData(s)))
	end := start + uintptr(cap(s)) // the array's end identifies it: objects do not overlap
	if _, ok := a.num[end]; !ok {
		a.num[end] = len(a.num) + 1
		a.base[end] = start
		a.keep = append(a.keep, s)
	}
	return Where{a.num[end], int(int64(start) - int64(a.base[end])), len(s)}
}

// RunLive executes p through the verif hook interpreter.VerifExecuteLive (the code path of Engine.Execute) and
// returns the verdict and the sharing structure of the interpreter's own stacks after every step.
func RunLive(p *Program) (obs string, msg string, trace []LiveSnap) {
	b := Build(p, nil)
	a := &arrays{num: map[uintptr]int{}, base: map[uintptr]uintptr{}}
	a.where(*b.Unlock)
	a.where(*b.Lock)
	var err error
	panicked, m := common.Safely(func() {
		err = interpreter.VerifExecuteLive(func(ds, as [][]byte) {
			var sn LiveSnap
			for _, it := range ds {
				sn.Data = append(sn.Data, a.where(it))
			}
			for _, it := range as {
				sn.Alt = append(sn.Alt, a.where(it))
			}
			trace = append(trace, sn)
		}, b.Opts...)
	})
	switch {
	case panicked:
		return "panic", m, trace
	case err != nil:
		return "err", err.Error(), trace
	}
	return "ok", "", trace
}

func coqWheres(ws []Where) string {
	ss := make([]string, len(ws))
	for i, w := range ws {
		ss[i] = fmt.Sprintf("(%d,%d,%d)", w.Arr, w.Off, w.Len)
	}
	return "[" + strings.Join(ss, ";") + "]"
}

// CoqLive renders a GoBT.corr.C08.KLive term.
func CoqLive(p *Program, obs string, trace []LiveSnap) string {
	ss := make([]string, len(trace))
	for i, sn := range trace {
		ss[i] = "(" + coqWheres(sn.Data) + "," + coqWheres(sn.Alt) + ")"
	}
	o := map[string]string{"ok": "ObsOk", "err": "ObsErr", "panic": "ObsPanic"}[obs]
	return fmt.Sprintf("KLive %s %s %d %s [%s]%%Z", common.CoqBytes(p.Unlock), common.CoqBytes(p.Lock), p.Flags, o, strings.Join(ss, ";"))
}
