package interpgen

// The ways a FLAG SET reaches the engine.
//
// Build hands the flags of a program over in one way: a single interpreter.WithFlags(word) after the transaction /
// script options. A caller of the library assembles the same set from WithFlags(word), WithAfterGenesis(), WithForkID()
// and WithP2SH(), in any number and any order, before, between or after the other options. Each of these options ADDS
// its flags to the execution: an option list denotes the UNION of its words, whatever the order, however the set is
// cut into words, however often a flag is named. OptionLists(flags) enumerates lists that all denote `flags`;
// BuildWithOptions / RunWithOptions execute a program under one of them. (Additive helper; Build is unchanged.)

import (
	"fmt"
	"strings"

	"github.com/libsv/go-bt/v2/bscript/interpreter"
	"github.com/libsv/go-bt/v2/bscript/interpreter/scriptflag"
)

// FlagOpt is one flag-carrying option: WithFlags(Word) when Named is empty, otherwise the named option
// ("WithAfterGenesis", "WithForkID", "WithP2SH"; Word is then the flag it stands for).
type FlagOpt struct {
	Named string
	Word  uint32
}

// NamedFlagOpts: the three options that stand for one flag each.
var NamedFlagOpts = []FlagOpt{{"WithAfterGenesis", FGenesis}, {"WithForkID", FForkID}, {"WithP2SH", FBip16}}

func WF(word uint32) FlagOpt { return FlagOpt{"", word} }

func (o FlagOpt) String() string {
	if o.Named != "" {
		return o.Named + "()"
	}
	return fmt.Sprintf("WithFlags(0x%x)", o.Word)
}

// Option is the library option.
func (o FlagOpt) Option() interpreter.ExecutionOptionFunc {
	switch o.Named {
	case "WithAfterGenesis":
		return interpreter.WithAfterGenesis()
	case "WithForkID":
		return interpreter.WithForkID()
	case "WithP2SH":
		return interpreter.WithP2SH()
	case "":
		return interpreter.WithFlags(scriptflag.Flag(o.Word))
	}
	panic("interpgen: unknown flag option " + o.Named)
}

// Coq renders the option as a term of GoBT.model.FlagOptions.flag_option.
func (o FlagOpt) Coq() string {
	switch o.Named {
	case "WithAfterGenesis":
		return "OptAfterGenesis"
	case "WithForkID":
		return "OptForkID"
	case "WithP2SH":
		return "OptP2SH"
	}
	return fmt.Sprintf("OptFlags %d", o.Word)
}

// OptionList: flag options in the order they are handed to Execute, and where they stand among the other options.
// Place 0: context (WithTx / WithScripts), flags, WithDebugger (Build's own layout)
//
//	1: flags, context, WithDebugger
//	2: context, WithDebugger, flags
//	3: first flag option, context, the other flag options, WithDebugger
type OptionList struct {
	Opts  []FlagOpt `json:"-"`
	Place int       `json:"place"`
	Text  string    `json:"options"`
}

// Union is the flag word the list denotes.
func (l OptionList) Union() uint32 {
	var u uint32
	for _, o := range l.Opts {
		u |= o.Word
	}
	return u
}

func (l OptionList) String() string {
	var s []string
	for _, o := range l.Opts {
		s = append(s, o.String())
	}
	fl := strings.Join(s, ", ")
	if fl == "" {
		fl = "(no flag option)"
	}
	switch l.Place {
	case 1:
		return "[" + fl + " | context | debugger]"
	case 2:
		return "[context | debugger | " + fl + "]"
	case 3:
		if len(s) > 1 {
			return "[" + s[0] + " | context | " + strings.Join(s[1:], ", ") + " | debugger]"
		}
		return "[" + fl + " | context | debugger]"
	}
	return "[context | " + fl + " | debugger]"
}

// Coq renders the flag options (in order) as a list of GoBT.model.FlagOptions.flag_option.
func (l OptionList) Coq() string {
	var s []string
	for _, o := range l.Opts {
		s = append(s, o.Coq())
	}
	return "[" + strings.Join(s, "; ") + "]"
}

func bitsOf(w uint32) []uint32 {
	var out []uint32
	for b := uint32(1); b != 0; b <<= 1 {
		if w&b != 0 {
			out = append(out, b)
		}
	}
	return out
}

// OptionLists enumerates option lists whose union is exactly `flags`: the single word (at every place), each named
// option whose flag is in the set before and after the rest / the whole word / alone, all applicable named options
// before and after the rest, the set cut in two words (alternate bits, lowest bit | rest, highest bit | rest) in both
// orders, one word per flag ascending and descending, the word twice, and the word next to an empty word on either
// side. No list is returned twice. The first list is always the single WithFlags(flags) at place 0.
func OptionLists(flags uint32) []OptionList {
	var out []OptionList
	seen := map[string]bool{}
	n := 0
	add := func(place int, opts ...FlagOpt) {
		l := OptionList{Opts: append([]FlagOpt{}, opts...), Place: place}
		if len(opts) <= 1 && place == 3 {
			l.Place = 1
		}
		if l.Union() != flags {
			panic("interpgen.OptionLists: list does not denote the flag set")
		}
		l.Text = l.String()
		if !seen[l.Text] {
			seen[l.Text] = true
			out = append(out, l)
		}
	}
	next := func() int { n++; return n % 4 } // places rotate over the lists
	add(0, WF(flags))
	add(1, WF(flags))
	add(2, WF(flags))
	var named []FlagOpt
	rest := flags
	for _, o := range NamedFlagOpts {
		if flags&o.Word != 0 {
			named = append(named, o)
			rest &^= o.Word
		}
	}
	for _, o := range named {
		r := flags &^ o.Word
		add(next(), o, WF(r))
		add(next(), WF(r), o)
		add(next(), o, WF(flags))
		add(next(), WF(flags), o)
		if r == 0 {
			add(next(), o)
			add(next(), o, o)
		}
	}
	if len(named) > 1 {
		add(next(), append(append([]FlagOpt{}, named...), WF(rest))...)
		add(next(), append([]FlagOpt{WF(rest)}, named...)...)
		if rest == 0 {
			add(next(), named...)
			rev := []FlagOpt{}
			for i := len(named) - 1; i >= 0; i-- {
				rev = append(rev, named[i])
			}
			add(next(), rev...)
		}
	}
	bits := bitsOf(flags)
	if len(bits) > 1 {
		var a, b uint32
		for i, x := range bits {
			if i%2 == 0 {
				a |= x
			} else {
				b |= x
			}
		}
		add(next(), WF(a), WF(b))
		add(next(), WF(b), WF(a))
		lo, hi := bits[0], bits[len(bits)-1]
		add(next(), WF(lo), WF(flags&^lo))
		add(next(), WF(flags&^lo), WF(lo))
		add(next(), WF(hi), WF(flags&^hi))
		add(next(), WF(flags&^hi), WF(hi))
		var asc, desc []FlagOpt
		for i := range bits {
			asc = append(asc, WF(bits[i]))
			desc = append(desc, WF(bits[len(bits)-1-i]))
		}
		add(next(), asc...)
		add(next(), desc...)
	}
	add(next(), WF(flags), WF(flags))
	add(next(), WF(0), WF(flags))
	add(next(), WF(flags), WF(0))
	if flags == 0 {
		add(0) // no flag option at all
	}
	return out
}

// BuildWithOptions is Build with the program's flags handed over through the option list l (whose union must be
// p.Flags) instead of Build's single WithFlags.
func BuildWithOptions(p *Program, dbg interpreter.Debugger, l OptionList) *Built {
	if l.Union() != p.Flags {
		panic("interpgen.BuildWithOptions: the option list does not denote the program's flags")
	}
	b := Build(p, dbg)
	// Build's layout: context options, one WithFlags, then WithDebugger when there is a debugger
	nCtx := len(b.Opts) - 1
	if dbg != nil {
		nCtx--
	}
	ctx := append([]interpreter.ExecutionOptionFunc{}, b.Opts[:nCtx]...)
	dbgOpt := append([]interpreter.ExecutionOptionFunc{}, b.Opts[nCtx+1:]...)
	var fl []interpreter.ExecutionOptionFunc
	for _, o := range l.Opts {
		fl = append(fl, o.Option())
	}
	var opts []interpreter.ExecutionOptionFunc
	switch {
	case l.Place == 1:
		opts = append(append(append(opts, fl...), ctx...), dbgOpt...)
	case l.Place == 2:
		opts = append(append(append(opts, ctx...), dbgOpt...), fl...)
	case l.Place == 3 && len(fl) > 1:
		opts = append(append(append(append(opts, fl[0]), ctx...), fl[1:]...), dbgOpt...)
	default:
		opts = append(append(append(opts, ctx...), fl...), dbgOpt...)
	}
	b.Opts = opts
	return b
}

// RunWithOptions executes p with a recording debugger, the flags handed over through l.
func RunWithOptions(p *Program, l OptionList, rec *Recorder) Result {
	return RunBuilt(BuildWithOptions(p, rec, l), rec)
}
