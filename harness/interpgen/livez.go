//go:build verif

package interpgen

import (
	"fmt"
	"strings"
	"unsafe"

	"github.com/libsv/go-bt/v2/bscript/interpreter"

	"verif/harness/common"
)

// whereZ: like where, but a zero-length item is not "nothing" when it has capacity left: it is a view of a backing
// array (c[:0] of an item, c[len(c):] of an item cut out of a longer array, a push of length 0 cut out of a script) and
// append to it writes there. It is reported as {array, offset, 0} when that array has been seen before (by its end
// address, like every other slice; a zero-length item never introduces an array, so the numbering is that of where),
// as {0,0,0} when it has no capacity (nil, []byte{}, the end of an exactly sized array) or lies in an array not seen.
func (a *arrays) whereZ(s []byte) Where {
	if len(s) > 0 {
		return a.where(s)
	}
	if cap(s) == 0 {
		return Where{}
	}
	start := uintptr(unsafe.Pointer(unsafe.SliceData(s)))
	end := start + uintptr(cap(s))
	if n, ok := a.num[end]; ok {
		a.keep = append(a.keep, s)
		return Where{n, int(int64(start) - int64(a.base[end])), 0}
	}
	return Where{}
}

// RunLiveZ is RunLive with zero-length items located (whereZ).
func RunLiveZ(p *Program) (obs string, msg string, trace []LiveSnap) {
	b := Build(p, nil)
	a := &arrays{num: map[uintptr]int{}, base: map[uintptr]uintptr{}}
	a.where(*b.Unlock)
	a.where(*b.Lock)
	var err error
	panicked, m := common.Safely(func() {
		err = interpreter.VerifExecuteLive(func(ds, as [][]byte) {
			var sn LiveSnap
			for _, it := range ds {
				sn.Data = append(sn.Data, a.whereZ(it))
			}
			for _, it := range as {
				sn.Alt = append(sn.Alt, a.whereZ(it))
			}
			trace = append(trace, sn)
		}, b.Opts...)
	})
	switch {
	case panicked:
		return "panic", m, trace
	case err != nil:
		return "err", err.Error(), trace
	}
	return "ok", "", trace
}

// CoqLiveZ renders a GoBT.corr.C08.KLiveZ term.
func CoqLiveZ(p *Program, obs string, trace []LiveSnap) string {
	ss := make([]string, len(trace))
	for i, sn := range trace {
		ss[i] = "(" + coqWheres(sn.Data) + "," + coqWheres(sn.Alt) + ")"
	}
	o := map[string]string{"ok": "ObsOk", "err": "ObsErr", "panic": "ObsPanic"}[obs]
	return fmt.Sprintf("KLiveZ %s %s %d %s [%s]%%Z", common.CoqBytes(p.Unlock), common.CoqBytes(p.Lock), p.Flags, o, strings.Join(ss, ";"))
}

// ZeroViews counts the zero-length items of a trace that were located in a backing array.
func ZeroViews(trace []LiveSnap) int {
	n := 0
	for _, sn := range trace {
		for _, w := range append(append([]Where{}, sn.Data...), sn.Alt...) {
			if w.Len == 0 && w.Arr != 0 {
				n++
			}
		}
	}
	return n
}
