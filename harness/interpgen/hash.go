package interpgen

import "github.com/libsv/go-bk/crypto"

func Hash160(b []byte) []byte { return crypto.Hash160(b) }
