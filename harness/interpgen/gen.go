package interpgen

import (
	"bytes"
	"verif/harness/common"
)

// Edge operands (DESIGN C05): empty, negative zero, zero bytes, non-minimal, 4/5/9-byte numbers…
var EdgeOperands = [][]byte{
	{}, {0x00}, {0x80}, {0x01}, {0x02}, {0x07}, {0x08}, {0x09}, {0x10}, {0x11}, {0x7f}, {0x81}, {0xff},
	{0x00, 0x80}, {0x80, 0x00}, {0x01, 0x00}, {0x01, 0x80}, {0xff, 0x7f}, {0xff, 0xff}, {0x00, 0x01},
	{0x12, 0x34, 0x56}, {0xff, 0xff, 0xff, 0x7f}, {0xff, 0xff, 0xff, 0xff}, {0x00, 0x00, 0x00, 0x80},
	{0x00, 0x00, 0x00, 0x80, 0x00}, {0x01, 0x02, 0x03, 0x04, 0x05}, {0xff, 0xff, 0xff, 0xff, 0x7f},
	{0x00, 0x00, 0x00, 0x00, 0x00, 0x00, 0x00, 0x00, 0x01}, {0x00, 0x00, 0x00, 0x00, 0x00, 0x00, 0x00, 0x80, 0x80},
	{0x01, 0x00, 0x00, 0x00, 0x00, 0x00, 0x00, 0x00, 0x01}, {0xaa, 0x55, 0xaa, 0x55, 0xaa, 0x55, 0xaa, 0x55},
}

var unaryOps = []byte{0x82, 0x83, 0x8b, 0x8c, 0x8d, 0x8e, 0x8f, 0x90, 0x91, 0x92, 0x81, 0xa6, 0xa7, 0xa8, 0xa9, 0xaa, 0x73, 0x76, 0x69, 0x75, 0x6b}
var binaryOps = []byte{0x7e, 0x7f, 0x80, 0x84, 0x85, 0x86, 0x87, 0x88, 0x93, 0x94, 0x95, 0x96, 0x97, 0x98, 0x99, 0x9a, 0x9b, 0x9c, 0x9d, 0x9e,
	0x9f, 0xa0, 0xa1, 0xa2, 0xa3, 0xa4, 0x79, 0x7a, 0x7c, 0x78, 0x77, 0x7d, 0x6e, 0x6d}
var ternaryOps = []byte{0xa5, 0x7b, 0x6f}

var FlagSets = []uint32{0, FMinimalData, FMinimalIf, FMinimalData | FMinimalIf | FDiscourageNops, FGenesis, FGenesis | FMinimalData,
	FGenesis | FMinimalIf, FGenesis | FMinimalData | FMinimalIf | FDiscourageNops}

// Matrix enumerates opcode x edge-operand programs; quick tier samples by stride.
func Matrix(emit func(*Program), stride int) {
	n := 0
	hazard := false // post-genesis OP_NUM2BIN with a multi-megabyte target: memory policy, not semantics
	add := func(lock []byte, kind string) {
		n++
		if stride > 1 && n%stride != 0 && kind != "shift" && kind != "shift-big" && kind != "matrix1" {
			return
		}
		for fi, fl := range FlagSets {
			if hazard && fl&FGenesis != 0 {
				continue
			}
			if stride > 100 && fi%2 == 1 && (kind == "shift" || kind == "matrix1") {
				continue // quick tier: the always-included families run under four of the eight flag sets
			}
			emit((&Program{Unlock: []byte{}, Lock: append([]byte{}, lock...), Flags: fl, Kind: kind}).Fix())
		}
	}
	for _, op := range unaryOps {
		for _, a := range EdgeOperands {
			add(append(Push(a), op), "matrix1")
		}
	}
	for _, op := range binaryOps {
		for _, a := range EdgeOperands {
			for _, b := range EdgeOperands {
				hazard = op == 0x80 && len(b) >= 3
				add(append(append(Push(a), Push(b)...), op), "matrix2")
				hazard = false
			}
		}
	}
	small := EdgeOperands[:14]
	for _, op := range ternaryOps {
		for _, a := range small {
			for _, b := range small {
				for _, c := range small {
					add(append(append(append(Push(a), Push(b)...), Push(c)...), op), "matrix3")
				}
			}
		}
	}
	// shifts: counts 0..8n+1 for n in {0,1,2,3,8}
	for _, ln := range []int{0, 1, 2, 3, 8} {
		x := make([]byte, ln)
		for i := range x {
			x[i] = byte(0x81 + 0x1d*i)
		}
		for k := 0; k <= 8*ln+1; k++ {
			for _, op := range []byte{0x98, 0x99} {
				add(append(append(Push(x), Push(NumEnc(int64(k)))...), op), "shift")
			}
		}
		for _, big := range [][]byte{{0x00, 0x00, 0x00, 0x00, 0x00, 0x00, 0x00, 0x00, 0x01}, {0xff, 0xff, 0xff, 0xff, 0x7f}, {0x81}} {
			for _, op := range []byte{0x98, 0x99} {
				add(append(append(Push(x), Push(big)...), op), "shift-big")
			}
		}
	}
}

// NumEnc is the minimal script-number encoding of v.
func NumEnc(v int64) []byte {
	if v == 0 {
		return []byte{}
	}
	neg := v < 0
	if neg {
		v = -v
	}
	var out []byte
	for v > 0 {
		out = append(out, byte(v&0xff))
		v >>= 8
	}
	if out[len(out)-1]&0x80 != 0 {
		if neg {
			out = append(out, 0x80)
		} else {
			out = append(out, 0x00)
		}
	} else if neg {
		out[len(out)-1] |= 0x80
	}
	return out
}

var plainOps = []byte{0x61, 0x69, 0x6b, 0x6c, 0x6d, 0x6e, 0x6f, 0x70, 0x71, 0x72, 0x73, 0x74, 0x75, 0x76, 0x77, 0x78, 0x79, 0x7a, 0x7b, 0x7c, 0x7d,
	0x7e, 0x7f, 0x80, 0x81, 0x82, 0x83, 0x84, 0x85, 0x86, 0x87, 0x88, 0x8b, 0x8c, 0x8f, 0x90, 0x91, 0x92, 0x93, 0x94, 0x95, 0x96, 0x97, 0x98, 0x99,
	0x9a, 0x9b, 0x9c, 0x9d, 0x9e, 0x9f, 0xa0, 0xa1, 0xa2, 0xa3, 0xa4, 0xa5, 0xa6, 0xa7, 0xa8, 0xa9, 0xaa, 0xab, 0xb0, 0xb1, 0xb2, 0xb3, 0xb9}
var rareOps = []byte{0x50, 0x62, 0x65, 0x66, 0x89, 0x8a, 0x8d, 0x8e, 0x6a, 0xba, 0xff, 0xac, 0xad, 0xae, 0xaf, 0x4f}

func genOperand(r *common.Rand) []byte {
	switch r.Intn(10) {
	case 0, 1, 2:
		return EdgeOperands[r.Intn(len(EdgeOperands))]
	case 3, 4, 5:
		return NumEnc(int64(r.Intn(20)) - 3)
	case 6:
		return r.Bytes(r.Intn(6))
	case 7:
		return NumEnc(int64(r.U64()>>uint(r.Intn(60))) * int64(1-2*r.Intn(2)))
	default:
		return []byte{byte(r.Intn(3))}
	}
}

// genBody emits a random opcode sequence with nested conditionals.
func genBody(r *common.Rand, n int, depth int) []byte {
	var s []byte
	for i := 0; i < n; i++ {
		switch k := r.Intn(100); {
		case k < 40:
			if r.Chance(6) {
				s = append(s, RawPush(genOperand(r), []int{0, 1, 2, 4}[r.Intn(4)])...)
			} else {
				s = append(s, Push(genOperand(r))...)
			}
		case k < 82:
			s = append(s, plainOps[r.Intn(len(plainOps))])
		case k < 86:
			s = append(s, rareOps[r.Intn(len(rareOps))])
		case k < 96 && depth < 3:
			s = append(s, Push(genOperand(r))...)
			s = append(s, []byte{0x63, 0x64}[r.Intn(2)])
			s = append(s, genBody(r, r.Intn(4), depth+1)...)
			for e := r.Intn(3); e > 0; e-- {
				s = append(s, 0x67)
				s = append(s, genBody(r, r.Intn(3), depth+1)...)
			}
			if !r.Chance(8) {
				s = append(s, 0x68)
			}
		default:
			s = append(s, []byte{0x67, 0x68, 0x6a}[r.Intn(3)])
		}
	}
	return s
}

var allFlags = []uint32{FBip16, FDiscourageNops, FCLTV, FCSV, FCleanStack, FMinimalData, FSigPushOnly, FGenesis, FMinimalIf, FStrictMultiSig, FNullFail}

func genFlags(r *common.Rand) uint32 {
	var f uint32
	for _, b := range allFlags {
		if r.Chance(22) {
			f |= b
		}
	}
	if r.Chance(35) {
		f |= FGenesis
	}
	if f&FCleanStack != 0 && r.Chance(85) {
		f |= FBip16
	}
	return f
}

// Random is one grammar-generated program.
func Random(r *common.Rand, maxLen int) *Program {
	p := &Program{Flags: genFlags(r), Kind: "random"}
	nu := r.Intn(5)
	if r.Chance(70) {
		// push-only unlocking script
		for i := 0; i < nu; i++ {
			p.Unlock = append(p.Unlock, Push(genOperand(r))...)
		}
	} else {
		p.Unlock = genBody(r, nu, 0)
	}
	p.Lock = genBody(r, 1+r.Intn(maxLen), 0)
	if r.Chance(40) {
		p.Lock = append(p.Lock, 0x51)
	}
	if p.Flags&FGenesis != 0 {
		// OP_NUM2BIN sizes are attacker-chosen up to 2^31-1 after Genesis (memory policy): keep it pre-Genesis
		p.Lock = replaceOpcode(p.Lock, 0x80, 0x61)
		p.Unlock = replaceOpcode(p.Unlock, 0x80, 0x61)
	}
	if r.Chance(25) {
		p.HasTx, p.HasPrev = true, r.Chance(80)
		p.TxLock = []uint32{0, 1, 499999999, 500000000, 500000001, 0xffffffff}[r.Intn(6)]
		p.TxVersion = []uint32{1, 2, 0}[r.Intn(3)]
		p.InSeq = []uint32{0, 1, 0xffffffff, 0xfffffffe, 1 << 31, 1 << 22, 1<<22 | 5, 0xffff}[r.Intn(8)]
		p.Kind = "random-tx"
		if p.HasPrev {
			// with a full transaction context the signature opcodes are live; they are C06's subject and not
			// part of the signature-free model these programs are compared with
			for _, op := range []byte{0xac, 0xad, 0xae, 0xaf} {
				p.Lock = replaceOpcode(p.Lock, op, 0x61)
				p.Unlock = replaceOpcode(p.Unlock, op, 0x61)
			}
		}
	}
	return p.Fix()
}

// P2SH builds a pay-to-script-hash pair around a redeem script.
func P2SH(r *common.Rand) *Program {
	redeem := genBody(r, 1+r.Intn(5), 0)
	if r.Chance(60) {
		redeem = append(redeem, 0x51)
	}
	h := Hash160(redeem)
	if r.Chance(10) {
		h[0] ^= 1
	}
	p := &Program{Kind: "p2sh", Flags: FBip16}
	if r.Chance(30) {
		p.Flags |= FCleanStack
	}
	if r.Chance(15) {
		p.Flags |= FGenesis
	}
	if r.Chance(20) {
		p.Flags |= FMinimalData
	}
	for i := r.Intn(3); i > 0; i-- {
		p.Unlock = append(p.Unlock, Push(genOperand(r))...)
	}
	switch r.Intn(12) {
	case 0: // empty unlocking script
		p.Unlock = []byte{}
	case 1: // non push-only
		p.Unlock = append(p.Unlock, 0x61)
		p.Unlock = append(p.Unlock, Push(redeem)...)
	default:
		p.Unlock = append(p.Unlock, Push(redeem)...)
	}
	p.Lock = append(append([]byte{0xa9, 0x14}, h...), 0x87)
	return p.Fix()
}

// replaceOpcode rewrites opcode from -> to at opcode positions (push data is skipped).
func replaceOpcode(s []byte, from, to byte) []byte {
	out := append([]byte{}, s...)
	for i := 0; i < len(out); {
		op := out[i]
		switch {
		case op >= 1 && op <= 75:
			i += 1 + int(op)
		case op == 0x4c && i+1 < len(out):
			i += 2 + int(out[i+1])
		case op == 0x4d && i+2 < len(out):
			i += 3 + int(out[i+1]) | int(out[i+2])<<8
		case op == 0x4e && i+4 < len(out):
			i += 5 + int(out[i+1]) | int(out[i+2])<<8 | int(out[i+3])<<16 | int(out[i+4])<<24
		default:
			if op == from {
				out[i] = to
			}
			i++
		}
	}
	return out
}

// ---------- targeted families (added after seeded changes showed what random generation misses) ----------

// BigNums: numeric operands around every integer-width boundary (post-Genesis big numbers).
var BigNums = [][]byte{
	NumEnc(0x7fffffff), NumEnc(0x80000000), NumEnc(0xffffffff), NumEnc(0x100000000), NumEnc(-0x80000000), NumEnc(-0x80000001),
	NumEnc(0x7fffffffffffffff), NumEnc(-0x7fffffffffffffff),
	{0, 0, 0, 0, 0, 0, 0, 0x80, 0x00},                      // 2^63
	{1, 0, 0, 0, 0, 0, 0, 0x80, 0x00},                      // 2^63+1
	{0xff, 0xff, 0xff, 0xff, 0xff, 0xff, 0xff, 0xff, 0x00}, // 2^64-1
	{0, 0, 0, 0, 0, 0, 0, 0, 0x01},                         // 2^64
	{1, 0, 0, 0, 0, 0, 0, 0, 0x01},                         // 2^64+1
	{2, 0, 0, 0, 0, 0, 0, 0, 0x01},                         // 2^64+2
	{0, 0, 0, 0, 0, 0, 0, 0x80, 0x01},                      // 2^64+2^63
	{2, 0, 0, 0, 0, 0, 0, 0, 0, 0x01},                      // 2^72+2
	{0, 0, 0, 0, 0, 0, 0, 0x80, 0x80},                      // -2^63
	{0, 0, 0, 0, 0, 0, 0, 0, 0x81},                         // -2^64
	{1, 0, 0, 0, 0, 0, 0, 0, 0x81},                         // -(2^64+1)
}

// BigNumSweep: every opcode whose numeric operand is an index, a position, a size or a count,
// with operands that only differ from small ones beyond 32 / 63 / 64 bits.
func BigNumSweep(emit func(*Program)) {
	item := []byte{0x61, 0x62, 0x63}
	for _, n := range BigNums {
		progs := [][]byte{
			catb(Push(item), Push(n), []byte{0x7f}),                                                        // SPLIT
			catb(Push([]byte{5}), Push([]byte{6}), Push([]byte{7}), Push(n), []byte{0x79}),                 // PICK
			catb(Push([]byte{5}), Push([]byte{6}), Push([]byte{7}), Push(n), []byte{0x7a}),                 // ROLL
			catb(Push(item), Push(n), []byte{0x98}),                                                        // LSHIFT
			catb(Push(item), Push(n), []byte{0x99}),                                                        // RSHIFT
			catb(Push(n), []byte{0x8b}), catb(Push(n), []byte{0x8f}), catb(Push(n), Push(n), []byte{0x95}), // 1ADD NEGATE MUL
			catb(Push(n), Push([]byte{3}), []byte{0x96}), catb(Push(n), Push([]byte{3}), []byte{0x97}), // DIV MOD
			catb(Push(n), Push(n), []byte{0x9c}), catb(Push([]byte{1}), Push([]byte{0}), Push(n), []byte{0xa5}), // NUMEQUAL WITHIN
			catb(Push(n), []byte{0x63, 0x51, 0x67, 0x52, 0x68}), // IF
		}
		for _, lock := range progs {
			for _, fl := range []uint32{FGenesis, FGenesis | FMinimalData, 0} {
				emit((&Program{Unlock: []byte{}, Lock: catb(lock, []byte{0x74, 0x75, 0x51}), Flags: fl, Kind: "bignum"}).Fix())
			}
		}
	}
}

// ArithEdges: the arithmetic opcodes on operands at the edges of the machine integer widths, paired with the
// small operands for which a fixed-width implementation overflows or changes sign (x / -1, x * -1, x - 1, ...),
// in both operand orders; all pairs of wide operands when deep. And OP_NUM2BIN / OP_BIN2NUM on every encoding of
// zero, negative zero and padded numbers with the requested size equal to, one below and one above the operand's.
func ArithEdges(emit func(*Program), deep bool) {
	small := [][]byte{{0x81}, {0x01}, {0x82}, {0x02}, {0x03}, {}}
	ops := []byte{0x93, 0x94, 0x95, 0x96, 0x97}
	all := []byte{0x93, 0x94, 0x95, 0x96, 0x97, 0x9a, 0x9b, 0x9c, 0x9e, 0x9f, 0xa0, 0xa1, 0xa2, 0xa3, 0xa4}
	one := func(a, b []byte, op byte) {
		for _, fl := range []uint32{FGenesis, 0} {
			emit((&Program{Unlock: []byte{}, Lock: catb(Push(a), Push(b), []byte{op, 0x74, 0x75, 0x51}), Flags: fl, Kind: "arith-edge"}).Fix())
		}
	}
	for _, n := range BigNums {
		for _, m := range small {
			for _, op := range ops {
				one(n, m, op)
				one(m, n, op)
			}
		}
		for _, op := range []byte{0x8b, 0x8c, 0x8f, 0x90, 0x91, 0x92} {
			emit((&Program{Unlock: []byte{}, Lock: catb(Push(n), []byte{op, 0x74, 0x75, 0x51}), Flags: FGenesis, Kind: "arith-edge"}).Fix())
		}
	}
	if deep {
		for _, n := range BigNums {
			for _, m := range BigNums {
				for _, op := range all {
					one(n, m, op)
				}
			}
		}
	}
	encs := [][]byte{{}, {0x00}, {0x80}, {0x00, 0x00}, {0x00, 0x80}, {0x80, 0x00}, {0x00, 0x00, 0x80}, {0x00, 0x00, 0x00, 0x80}, {0x00, 0x00, 0x00, 0x00, 0x80},
		{0x01, 0x00}, {0x01, 0x80}, {0x01, 0x00, 0x80}, {0x01, 0x00, 0x00}, {0x7f, 0x00}, {0x80, 0x00, 0x00}, {0x80, 0x80}, {0xff, 0x00, 0x80}, {0x2a, 0x80}, {0x81}, {0xff, 0xff, 0xff, 0xff, 0x00}}
	// every encoding of zero (and of small numbers) as either operand of every binary arithmetic opcode: what counts
	// is the NUMBER an operand decodes to, not how it is spelled (a divisor 80 or 0000 is zero)
	for _, x := range encs {
		for _, y := range [][]byte{{0x07}, {}, {0x80}, {0x81}} {
			for _, op := range all {
				one(x, y, op)
				one(y, x, op)
			}
		}
	}
	for _, x := range encs {
		for d := -1; d <= 1; d++ {
			sz := len(x) + d
			if sz < 0 {
				continue
			}
			for _, fl := range []uint32{FGenesis, 0, FGenesis | FMinimalData} {
				emit((&Program{Unlock: []byte{}, Lock: catb(Push(x), Push(NumEnc(int64(sz))), []byte{0x80, 0x76, 0x81, 0x74, 0x75, 0x51}), Flags: fl, Kind: "num2bin-size"}).Fix())
			}
		}
	}
}

// DeepStacks: one stack grows past the sizes at which a Go slice of items is reallocated (or runs into whatever
// lies behind it) while the other stack holds items that are inspected afterwards: k marked items parked on the alt
// stack, n items pushed on and dropped from the data stack (and the other way round), then every parked item compared.
func DeepStacks(emit func(*Program)) {
	rep := func(b []byte, n int) []byte { return bytes.Repeat(b, n) }
	for _, k := range []int{1, 2, 31, 32, 33} {
		for _, n := range []int{3, 31, 32, 33, 34, 63, 64, 65, 127, 128, 129, 255, 257} {
			for _, fl := range []uint32{0, FGenesis} {
				if (k > 2 && n > 129) || (fl == 0 && k+n > 900) {
					continue
				}
				var park, check []byte
				for i := 0; i < k; i++ {
					park = append(park, Push([]byte{0xa0, byte(i)})...)
					park = append(park, 0x6b)
				}
				for i := k - 1; i >= 0; i-- {
					check = append(check, 0x6c)
					check = append(check, Push([]byte{0xa0, byte(i)})...)
					check = append(check, 0x88)
				}
				// data stack grows over parked alt items
				emit((&Program{Unlock: []byte{}, Lock: catb(park, rep([]byte{0x57}, n), rep([]byte{0x75}, n), check, []byte{0x51}), Flags: fl, Kind: "deep-stacks/data-over-alt"}).Fix())
				// alt stack grows over data items: the k marked items stay on the data stack, n items go to the alt stack and come back
				var keep, check2 []byte
				for i := 0; i < k; i++ {
					keep = append(keep, Push([]byte{0xb0, byte(i)})...)
				}
				for i := k - 1; i >= 0; i-- {
					check2 = append(check2, Push([]byte{0xb0, byte(i)})...)
					check2 = append(check2, 0x88)
				}
				emit((&Program{Unlock: []byte{}, Lock: catb(keep, rep([]byte{0x57, 0x6b}, n), rep([]byte{0x6c, 0x75}, n), check2, []byte{0x51}), Flags: fl, Kind: "deep-stacks/alt-over-data"}).Fix())
			}
		}
	}
}

func catb(parts ...[]byte) []byte {
	var out []byte
	for _, p := range parts {
		out = append(out, p...)
	}
	return out
}

// flow-control alphabet
var flowSyms = [][]byte{{0x00}, {0x51}, {0x52}, {0x63}, {0x64}, {0x67}, {0x68}, {0x6a}, {0x61}, {0x65}, {0x66}, {0x75}, {0x76}, {0x8d}, {0xba}, {0x69}, {0x6b}, {0x6c}, {0x6b}, {0x6c}, {0x01, 0x05}, {0x4c, 0x01, 0x07}, {0x01, 0x00}}

// Flow: programs over the flow-control alphabet only (IF/NOTIF/ELSE/ENDIF/RETURN/VERIF/VERNOTIF,
// small pushes, a few harmless and a few illegal opcodes), split between unlocking and locking script
// at a random point, both eras: conditional state must not leak between scripts or branches.
func Flow(r *common.Rand) *Program {
	n := 2 + r.Intn(9)
	var ops [][]byte
	depth := 0
	for i := 0; i < n; i++ {
		switch k := r.Intn(100); {
		case k < 22:
			ops = append(ops, flowSyms[r.Intn(3)])
		case k < 40:
			ops = append(ops, flowSyms[3+r.Intn(2)])
			depth++
		case k < 50 && depth > 0:
			ops = append(ops, flowSyms[5])
		case k < 66 && depth > 0:
			ops = append(ops, flowSyms[6])
			depth--
		case k < 80:
			ops = append(ops, flowSyms[7])
		default:
			ops = append(ops, flowSyms[r.Intn(len(flowSyms))])
		}
	}
	for ; depth > 0 && r.Chance(85); depth-- {
		ops = append(ops, flowSyms[6])
	}
	cut := r.Intn(len(ops) + 1)
	p := &Program{Kind: "flow"}
	for i, o := range ops {
		if i < cut {
			p.Unlock = append(p.Unlock, o...)
		} else {
			p.Lock = append(p.Lock, o...)
		}
	}
	if r.Chance(50) {
		p.Lock = append(p.Lock, [][]byte{{0x51}, {0x75, 0x00}, {0x75, 0x51}, {0xba}, {0x00}}[r.Intn(5)]...)
	}
	if r.Chance(65) {
		p.Flags |= FGenesis
	}
	if r.Chance(30) { // non-minimal pushes in the alphabet: only executed ones are subject to the rule
		p.Flags |= FMinimalData
	}
	if r.Chance(15) {
		p.Flags |= FMinimalIf
	}
	if r.Chance(10) {
		p.Flags |= FCleanStack | FBip16
	}
	return p.Fix()
}

// Limits: programs sitting on each pre-Genesis limit (op count with executed and skipped opcodes,
// stack depth, element size, script size, number length) and the same shapes after Genesis.
func Limits(emit func(*Program), deep bool) {
	rep := func(b byte, n int) []byte {
		out := make([]byte, n)
		for i := range out {
			out[i] = b
		}
		return out
	}
	for _, fl := range []uint32{0, FGenesis} {
		for _, n := range []int{498, 499, 500, 501, 700} {
			// n NOPs executed, then 1
			emit((&Program{Unlock: []byte{}, Lock: catb(rep(0x61, n), []byte{0x51}), Flags: fl, Kind: "limit-ops"}).Fix())
			// n NOPs in a skipped branch: 0 IF NOP*n ENDIF 1  (IF and ENDIF count too)
			emit((&Program{Unlock: []byte{0x00}, Lock: catb([]byte{0x63}, rep(0x61, n), []byte{0x68, 0x51}), Flags: fl, Kind: "limit-ops-skipped"}).Fix())
			// in the ELSE branch not taken
			emit((&Program{Unlock: []byte{0x51}, Lock: catb([]byte{0x63, 0x51, 0x67}, rep(0x61, n), []byte{0x68}), Flags: fl, Kind: "limit-ops-skipped"}).Fix())
		}
		for _, n := range []int{998, 999, 1000, 1001} {
			if !deep {
				break // 1000-deep stacks make megabytes of snapshots: thorough tier only
			}
			// stack depth: n pushes of 1, then drop everything but one via 2DROP pairs is long: just leave them
			emit((&Program{Unlock: []byte{}, Lock: rep(0x51, n), Flags: fl, Kind: "limit-stack"}).Fix())
			// data + alt stack combined
			emit((&Program{Unlock: []byte{}, Lock: catb(rep(0x51, n-500), rep2([]byte{0x51, 0x6b}, 499), []byte{0x51}), Flags: fl, Kind: "limit-stack-alt"}).Fix())
		}
		for _, n := range []int{519, 520, 521} {
			emit((&Program{Unlock: []byte{}, Lock: catb(Push(rep(0x11, n)), []byte{0x82, 0x75, 0x75, 0x51}), Flags: fl, Kind: "limit-element"}).Fix())
			emit((&Program{Unlock: []byte{}, Lock: catb(Push(rep(0x11, n-300)), Push(rep(0x22, 300)), []byte{0x7e, 0x75, 0x51}), Flags: fl, Kind: "limit-element-cat"}).Fix())
			emit((&Program{Unlock: []byte{}, Lock: catb(Push([]byte{0x05}), Push(NumEnc(int64(n))), []byte{0x80, 0x75, 0x51}), Flags: fl &^ FGenesis, Kind: "limit-element-num2bin"}).Fix())
		}
		for _, n := range []int{9999, 10000, 10001} {
			// script size: 0 IF <520-byte pushes> <one shorter push> ENDIF 1, exactly n bytes, ~25 opcodes
			body := []byte{0x00, 0x63}
			for len(body)+523+3+2 <= n {
				body = append(body, RawPush(rep(0x33, 520), 2)...)
			}
			pad := n - len(body) - 2 - 3
			body = append(body, RawPush(rep(0x44, pad), 2)...)
			body = append(body, 0x68, 0x51)
			emit((&Program{Unlock: []byte{}, Lock: body, Flags: fl, Kind: "limit-script-size"}).Fix())
			emit((&Program{Unlock: catb(RawPush(rep(0x55, 520), 2), body[2:len(body)-2]), Lock: []byte{0x51}, Flags: fl, Kind: "limit-script-size"}).Fix())
		}
		for _, num := range [][]byte{{0xff, 0xff, 0xff, 0x7f}, {0x00, 0x00, 0x00, 0x80, 0x00}, {0xff, 0xff, 0xff, 0xff, 0x7f}} {
			emit((&Program{Unlock: []byte{}, Lock: catb(Push(num), []byte{0x8b, 0x8b, 0x75, 0x51}), Flags: fl, Kind: "limit-number"}).Fix())
			emit((&Program{Unlock: []byte{}, Lock: catb(Push(num), Push(num), []byte{0x93, 0x8b, 0x75, 0x51}), Flags: fl, Kind: "limit-number"}).Fix())
		}
	}
}

func rep2(pat []byte, n int) []byte {
	var out []byte
	for i := 0; i < n; i++ {
		out = append(out, pat...)
	}
	return out
}

// ScriptBoundary: what one script may leave behind for the next. Each script is evaluated on the shared data
// stack with its own alt stack, conditional state and opcode count, whether it ends normally or with a
// top-level OP_RETURN (after Genesis); a zero-length script is skipped either way.
func ScriptBoundary(emit func(*Program)) {
	// the upgradable NOPs and the two that were given a meaning before Genesis (OP_CLTV, OP_CSV): executed and in a
	// branch not taken, in both eras, under every combination of the flags that speak about them
	for _, op := range []byte{0xb0, 0xb1, 0xb2, 0xb3, 0xb9} {
		for _, fl := range []uint32{0, FDiscourageNops, FCLTV | FCSV, FDiscourageNops | FCLTV | FCSV} {
			for _, era := range []uint32{0, FGenesis} {
				for _, lock := range [][]byte{{0x51, op}, {op, 0x51}, {0x00, 0x63, op, 0x68, 0x51}, {0x51, 0x63, op, 0x68, 0x51}, {0x00, op, 0x51}} {
					emit((&Program{Unlock: []byte{}, Lock: lock, Flags: fl | era, Kind: "script-boundary/nops"}).Fix())
				}
			}
		}
	}
	ends := [][]byte{{}, {0x6a}, {0x6a, 0x01}, {0x6a, 0x6c}}
	firsts := [][]byte{{0x51, 0x6b}, {0x51, 0x52, 0x6b}, {0x51, 0x6b, 0x52}, {0x51, 0x76, 0x6b}, {0x51}, {0x00, 0x6b, 0x51}, {0x51, 0x6b, 0x52, 0x6b}}
	seconds := [][]byte{{0x6c}, {}, {0x51}, {0x6c, 0x6c}, {0x74}, {0x6c, 0x51}, {0x51, 0x6b, 0x6c}, {0x6a}, {0x6a, 0x6c}, {0x6b}}
	// what counts as "top level" for OP_RETURN: OP_VERIF / OP_VERNOTIF (skipped after Genesis, an error when
	// executed or before Genesis) open nothing; whatever follows a top-level OP_RETURN is not decoded
	for _, lock := range [][]byte{
		{0x00, 0x63, 0x65, 0x68, 0x51, 0x6a, 0x4c}, {0x00, 0x63, 0x66, 0x68, 0x51, 0x6a, 0x02}, {0x00, 0x63, 0x63, 0x68, 0x51, 0x6a, 0x4c},
		{0x51, 0x63, 0x6a, 0x65, 0x68, 0x51, 0x6a, 0x4c}, {0x00, 0x63, 0x65, 0x67, 0x51, 0x68, 0x6a, 0x4e, 0x01}, {0x65, 0x6a, 0x4c}, {0x00, 0x63, 0x65, 0x65, 0x68, 0x68, 0x51},
		{0x00, 0x63, 0x65, 0x68, 0x68, 0x51}, {0x00, 0x64, 0x66, 0x68, 0x6a}, {0x51, 0x64, 0x66, 0x68, 0x51, 0x6a, 0x05},
	} {
		for _, fl := range []uint32{FGenesis, 0, FGenesis | FMinimalData} {
			emit((&Program{Unlock: []byte{0x51}, Lock: append([]byte{}, lock...), Flags: fl, Kind: "script-boundary"}).Fix())
			emit((&Program{Unlock: append([]byte{}, lock...), Lock: []byte{0x51}, Flags: fl, Kind: "script-boundary"}).Fix())
		}
	}
	// MINIMALDATA applies to executed pushes only: a non-minimal push in a branch whose own condition is true
	// but an outer one false, after an executed OP_RETURN inside IF..ENDIF, in a plainly skipped branch
	for _, lock := range [][]byte{
		{0x00, 0x63, 0x00, 0x63, 0x67, 0x01, 0x05, 0x68, 0x68, 0x51}, {0x51, 0x63, 0x6a, 0x01, 0x05, 0x68}, {0x00, 0x63, 0x01, 0x05, 0x68, 0x51},
		{0x00, 0x63, 0x51, 0x63, 0x4c, 0x01, 0x07, 0x68, 0x68, 0x51}, {0x51, 0x63, 0x01, 0x05, 0x68}, {0x00, 0x64, 0x67, 0x01, 0x05, 0x75, 0x68, 0x51},
		{0x51, 0x63, 0x6a, 0x67, 0x01, 0x05, 0x68}, {0x00, 0x63, 0x63, 0x01, 0x05, 0x67, 0x01, 0x06, 0x68, 0x68, 0x51},
	} {
		for _, fl := range []uint32{FGenesis | FMinimalData, FMinimalData, FGenesis} {
			emit((&Program{Unlock: []byte{0x51}, Lock: append([]byte{}, lock...), Flags: fl, Kind: "script-boundary"}).Fix())
		}
	}
	// a P2SH-shaped output after Genesis is a plain hash comparison: no push-only rule, no redeem script
	for _, redeem := range [][]byte{{0x51}, {0x00}, {0x51, 0x51, 0x87}, {}} {
		lock := append(append([]byte{0xa9, 0x14}, Hash160(redeem)...), 0x87)
		for _, un := range [][]byte{Push(redeem), append([]byte{0x61}, Push(redeem)...), append([]byte{0x51, 0x75}, Push(redeem)...), append(Push(redeem), 0x61),
			// items pushed under the redeem script: they are what is left when the redeem script (an empty one too) has run
			append([]byte{0x51}, Push(redeem)...), append([]byte{0x00}, Push(redeem)...), append([]byte{0x51, 0x52}, Push(redeem)...), append([]byte{0x00, 0x51}, Push(redeem)...)} {
			for _, fl := range []uint32{FBip16 | FGenesis, FBip16, FGenesis, FBip16 | FGenesis | FCleanStack, FBip16 | FCleanStack, FBip16 | FGenesis | FSigPushOnly} {
				emit((&Program{Unlock: append([]byte{}, un...), Lock: append([]byte{}, lock...), Flags: fl, Kind: "script-boundary"}).Fix())
			}
		}
	}
	for _, f := range firsts {
		for _, e := range ends {
			for _, sec := range seconds {
				for _, fl := range []uint32{FGenesis, 0, FGenesis | FCleanStack | FBip16, FGenesis | FSigPushOnly} {
					p := &Program{Unlock: append(append([]byte{}, f...), e...), Lock: append([]byte{}, sec...), Flags: fl, Kind: "script-boundary"}
					emit(p.Fix())
				}
			}
		}
	}
}
