package interpgen

import (
	"encoding/hex"
	"encoding/json"
	"fmt"
	"os"
	"strconv"
	"strings"

	"github.com/libsv/go-bt/v2/bscript"
)

// Vector is one entry of the node's script_tests.json (signature-free subset usable without keys).
type Vector struct {
	Prog     *Program
	ExpectOK bool
	Comment  string
}

func shortForm(s string) ([]byte, error) {
	s = strings.NewReplacer("\n", " ", "\t", " ").Replace(s)
	var out []byte
	for _, tok := range strings.Split(s, " ") {
		if tok == "" {
			continue
		}
		if num, err := strconv.ParseInt(tok, 10, 64); err == nil {
			switch {
			case num == 0:
				out = append(out, 0x00)
			case num == -1 || (1 <= num && num <= 16):
				out = append(out, byte(0x50+num))
			default:
				out = append(out, plainPush(NumEnc(num))...)
			}
			continue
		}
		if strings.HasPrefix(tok, "0x") {
			b, err := hex.DecodeString(tok[2:])
			if err != nil {
				return nil, err
			}
			out = append(out, b...)
			continue
		}
		if len(tok) >= 2 && tok[0] == '\'' && tok[len(tok)-1] == '\'' {
			out = append(out, plainPush([]byte(tok[1:len(tok)-1]))...)
			continue
		}
		name := tok
		if !strings.HasPrefix(name, "OP_") {
			name = "OP_" + name
		}
		switch name {
		case "OP_NOP2":
			name = "OP_CHECKLOCKTIMEVERIFY"
		case "OP_NOP3":
			name = "OP_CHECKSEQUENCEVERIFY"
		}
		sc, err := bscript.NewFromASM(name)
		if err != nil || len(*sc) != 1 {
			return nil, fmt.Errorf("bad token %q", tok)
		}
		out = append(out, (*sc)[0])
	}
	return out, nil
}

// plainPush mirrors Script.AppendPushData (length-based form, no OP_n shortcuts).
func plainPush(d []byte) []byte {
	if len(d) == 0 {
		return []byte{0x00}
	}
	return RawPush(d, map[bool]int{true: 0, false: -1}[len(d) <= 75])
}

var flagNames = map[string]uint32{"": 0, "NONE": 0, "CHECKLOCKTIMEVERIFY": FCLTV, "CHECKSEQUENCEVERIFY": FCSV, "CLEANSTACK": FCleanStack,
	"DERSIG": FDERSig, "DISCOURAGE_UPGRADABLE_NOPS": FDiscourageNops, "LOW_S": FLowS, "MINIMALDATA": FMinimalData, "NULLDUMMY": FStrictMultiSig,
	"NULLFAIL": FNullFail, "P2SH": FBip16, "SIGPUSHONLY": FSigPushOnly, "STRICTENC": FStrictEnc, "UTXO_AFTER_GENESIS": FGenesis,
	"MINIMALIF": FMinimalIf, "SIGHASH_FORKID": FForkID}

// LoadVectors reads the node vectors that involve no signature opcode.
func LoadVectors(repo string) ([]Vector, int, error) {
	raw, err := os.ReadFile(repo + "/bscript/interpreter/data/script_tests.json")
	if err != nil {
		return nil, 0, err
	}
	var tests [][]interface{}
	if err := json.Unmarshal(raw, &tests); err != nil {
		return nil, 0, err
	}
	var out []Vector
	skipped := 0
	for _, t := range tests {
		if len(t) < 4 {
			continue
		}
		if _, ok := t[0].([]interface{}); ok {
			t = t[1:]
		}
		sig, _ := t[0].(string)
		pk, _ := t[1].(string)
		fl, _ := t[2].(string)
		res, _ := t[3].(string)
		if strings.Contains(sig+pk, "CHECKSIG") || strings.Contains(sig+pk, "CHECKMULTISIG") {
			skipped++
			continue
		}
		u, err1 := shortForm(sig)
		l, err2 := shortForm(pk)
		if err1 != nil || err2 != nil {
			skipped++
			continue
		}
		var flags uint32
		bad := false
		for _, f := range strings.Split(fl, ",") {
			v, ok := flagNames[f]
			if !ok {
				bad = true
			}
			flags |= v
		}
		if bad || hasSigOpByte(u) || hasSigOpByte(l) {
			skipped++
			continue
		}
		c := ""
		if len(t) > 4 {
			c, _ = t[4].(string)
		}
		p := &Program{Unlock: u, Lock: l, Flags: flags, HasTx: true, HasPrev: true, TxLock: 0, TxVersion: 1, InSeq: 0xffffffff, Kind: "node-vector"}
		out = append(out, Vector{Prog: p.Fix(), ExpectOK: res == "OK", Comment: c})
	}
	return out, skipped, nil
}

// conservative: any 0xac..0xaf byte (even inside push data) excludes the vector
func hasSigOpByte(b []byte) bool {
	for _, x := range b {
		if x >= 0xac && x <= 0xaf {
			return true
		}
	}
	return false
}
