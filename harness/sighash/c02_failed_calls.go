package sighash

// C02 only: what a transaction object is left with when a call on it FAILS.
//
// The property speaks of "every transaction": the transaction a caller has is the one its SUCCESSFUL calls made.
// A setter or builder call that returns an error has, for the caller, not happened: every digest computed after
// it must be the digest computed before it, and a field the caller never managed to set (a previous txid that
// was refused) must still be reported as missing.  A library that writes first and validates afterwards breaks
// this, and it cannot be seen by a harness that (a) only ever makes calls that succeed, or (b) learns what the
// transaction is by reading it back through the library's getters after the call (it then faithfully recomputes
// the digest of the damaged object).
//
// So here the harness keeps its OWN record (a txgen.TxSpec it edits itself: on `nil` the documented effect of
// the call, on an error nothing) next to ONE long-lived *bt.Tx object, walks both through a history of calls
// from the public setter / builder API in which calls with unacceptable arguments are interleaved with good
// ones, and between the calls computes the digests:
//
//   - right before and right after a call that returned an error: every (index, type) of a fixed grid must give
//     the same class / preimage / signature hash          -> site "<API>/failed-call-changes-digest";
//   - after every call: class, preimage and hash against the independent reference (ref.go) evaluated on the
//     RECORD, and the object's ExtendedBytes against a serialisation of the record written here
//                                                         -> sites "CalcInputPreimage/history-…",
//                                                            "CalcInputSignatureHash/history-…", "Tx/history-…";
//   - the history, with the verdict of every call and the digests observed, is a Coq case (CHist of
//     corr/C02.v): the model of the setters (model/SigBuild.v, in the shape of input.go / txinput.go) decides
//     itself whether PreviousTxIDAdd / PreviousTxIDAddStr / From / FromUTXOs fail, must agree with the verdict
//     observed, and the digests are evaluated on the model's transaction after the same history.
//
// Calls made (each both with acceptable and with unacceptable arguments where the API can refuse):
// Input.PreviousTxIDAdd (0, 1, 20, 31, 33, 64 bytes, nil / 32), Input.PreviousTxIDAddStr (short, long, odd length,
// non-hex, empty / 64 hex digits of either case), Tx.From (bad txid hex, short txid, bad script hex / good),
// Tx.FromUTXOs (bad txid first / good, also with a nil locking script), Tx.AddP2PKHInputsFromTx (first output not
// P2PKH), Tx.Fund (getter error, getter returning an unusable UTXO), Tx.AddP2PKHOutputFromAddress / PayToAddress /
// ChangeToAddress (not base58, wrong length, P2SH version / good), AddP2PKHOutputFromPubKeyHashStr / PubKeyStr /
// PubKeyBytes (bad hex, wrong length / good hash), AddP2PKHOutputFromScript / PayTo (not P2PKH / P2PKH),
// AddHashPuzzleOutput (bad hex), Change (outputs exceed inputs), ChangeToExistingOutput (no such output),
// FillInput (no unlocker, an unlocker that returns a script AND an error, unlocker.Simple on a non-P2PKH script /
// an unlocker that succeeds), FillAllInputs (getter error), Input/Output/Tx.UnmarshalJSON and the node dialect
// (malformed, bad hex).  Calls that the unchanged library completes only partly before failing (FromUTXOs with a
// bad UTXO after a good one, Fund running out of funds, FillAllInputs failing on a later input) are not made: the
// property does not say what the transaction is then.

import (
	"bytes"
	"context"
	"crypto/sha256"
	"encoding/json"
	"errors"
	"fmt"
	"math/big"
	"strings"

	"github.com/libsv/go-bt/v2"
	"github.com/libsv/go-bt/v2/bscript"
	bsh "github.com/libsv/go-bt/v2/sighash"
	"github.com/libsv/go-bt/v2/unlocker"

	"verif/harness/common"
	"verif/harness/txgen"
)

func init() { Extra["C02"] = append(Extra["C02"], c02FailedCalls) }

// ---------- helpers that do not touch go-bt ----------

const c02B58 = "123456789ABCDEFGHJKLMNPQRSTUVWXYZabcdefghijkmnopqrstuvwxyz"

// c02Address: Base58Check of version byte + 20-byte hash (written here: the record must not depend on the
// library's own address code).
func c02Address(version byte, hash []byte) string {
	payload := append([]byte{version}, hash...)
	a := sha256.Sum256(payload)
	b := sha256.Sum256(a[:])
	payload = append(payload, b[:4]...)
	n := new(big.Int).SetBytes(payload)
	var out []byte
	base, mod := big.NewInt(58), new(big.Int)
	for n.Sign() > 0 {
		n.DivMod(n, base, mod)
		out = append(out, c02B58[mod.Int64()])
	}
	for _, v := range payload {
		if v != 0 {
			break
		}
		out = append(out, '1')
	}
	for i, j := 0, len(out)-1; i < j; i, j = i+1, j-1 {
		out[i], out[j] = out[j], out[i]
	}
	return string(out)
}

func c02P2PKH(hash []byte) []byte {
	s := append([]byte{0x76, 0xa9, byte(len(hash))}, hash...)
	return append(s, 0x88, 0xac)
}

// c02RefExt: the extended serialisation of the RECORD (format of the library's ExtendedBytes: marker 0000000000ef,
// per input the spent value and script, a nil script as a zero length), assembled from the spec only.
func c02RefExt(s txgen.TxSpec) []byte {
	b := le32(s.Version)
	b = append(b, 0, 0, 0, 0, 0, 0xef)
	b = append(b, compact(uint64(len(s.Ins)))...)
	for _, in := range s.Ins {
		b = append(b, outpoint(in)...)
		b = append(b, withLen(unhex(in.Unlock))...)
		b = append(b, le32(in.Seq)...)
		b = append(b, le64(in.Sats)...)
		if in.PrevNil {
			b = append(b, 0)
		} else {
			b = append(b, withLen(unhex(in.Prev))...)
		}
	}
	b = append(b, compact(uint64(len(s.Outs)))...)
	for _, o := range s.Outs {
		b = append(b, txout(o)...)
	}
	return append(b, le32(s.Lock)...)
}

// ---------- the history ----------

type c02Step struct {
	Call     string      `json:"call"`
	Args     interface{} `json:"args"`
	Returned string      `json:"returned"`
}

type c02Hist struct {
	r      *Runner
	rnd    *common.Rand
	start  txgen.TxSpec // the transaction the history began with
	rec    txgen.TxSpec // the harness's own record of what the caller has set so far
	tx     *bt.Tx       // the one library object all calls are made on
	steps  []c02Step
	coq    []string // hsteps of the Coq case ("" history: Go only)
	withCoq bool
	dead   bool // nothing further is asked of this object: a call that had to be refused was accepted or a builder panicked (the record cannot follow), or a violation was reported
	reported bool // one report per history, not one per grid point
	failed, succeeded int
	okDigests         int
	rot               int
}

var c02Grid = []uint8{0x41, 0x42, 0x43, 0xc1, 0xc2, 0xc3}

func (h *c02Hist) input(extra map[string]interface{}) map[string]interface{} {
	in := map[string]interface{}{
		"started_from":          h.start,
		"history":               append([]c02Step{}, h.steps...),
		"tx":                    cloneSpec(h.rec),
		"how_to_read":           "started_from is built as a struct literal (Version/LockTime/Inputs/Outputs; PreviousTxIDAdd for inputs with a txid), then the calls of history are made in order on that one object; tx is the caller's record: started_from plus the documented effect of every call that returned nil",
	}
	for k, v := range extra {
		in[k] = v
	}
	return in
}

// digests: class + preimage and class + hash for every index 0..n (n: first out-of-range) x the grid of types;
// key: everything (compared), show: the same with the preimage abbreviated to its length and SHA-256 (reported).
func (h *c02Hist) digests() (key, show []string) {
	n := len(h.rec.Ins)
	for idx := 0; idx <= n; idx++ {
		for _, ht := range c02Grid {
			var pre, hash []byte
			var err, herr error
			p1, _ := common.Safely(func() { pre, err = h.tx.CalcInputPreimage(uint32(idx), bsh.Flag(ht)) })
			p2, _ := common.Safely(func() { hash, herr = h.tx.CalcInputSignatureHash(uint32(idx), bsh.Flag(ht)) })
			key = append(key, fmt.Sprintf("%d %x %d %x", classify(err, p1), pre, classify(herr, p2), hash))
			show = append(show, fmt.Sprintf("index %d type %#x: CalcInputPreimage class %d, %d bytes with SHA-256 %s; CalcInputSignatureHash class %d, hash %x",
				idx, ht, classify(err, p1), len(pre), common.Sha256Hex(pre), classify(herr, p2), hash))
		}
	}
	return
}

// violate: report, and ask nothing further of this object (one report per history, not one per grid point)
func (h *c02Hist) violate(site, what string, in map[string]interface{}) {
	if !h.reported {
		h.r.C.Violate(site, what, in)
	}
	h.reported, h.dead = true, true
}

// observe: one (index, type) on the object, against the reference evaluated on the record.
func (h *c02Hist) observe(idx uint32, ht uint8) call {
	c := h.r.C
	k := call{Idx: idx, HT: ht}
	in := func() map[string]interface{} { return h.input(map[string]interface{}{"index": idx, "hash_type": ht}) }
	before := snap(h.tx)
	var pre, hash []byte
	var err, herr error
	panicked, msg := common.Safely(func() { pre, err = h.tx.CalcInputPreimage(idx, bsh.Flag(ht)) })
	k.PreCls = classify(err, panicked)
	if panicked {
		h.violate("CalcInputPreimage/panic", msg, in())
	}
	if k.PreCls == ClsOK {
		k.PreLen, k.PreSha = len(pre), common.Sha256Hex(pre)
		h.okDigests++
	}
	pre = append([]byte{}, pre...)
	panicked, msg = common.Safely(func() { hash, herr = h.tx.CalcInputSignatureHash(idx, bsh.Flag(ht)) })
	k.HashCls = classify(herr, panicked)
	if panicked {
		h.violate("CalcInputSignatureHash/panic", msg, in())
	}
	if k.HashCls == ClsOK {
		k.Hash = common.Hex(hash)
	}
	if !before.equal(snap(h.tx)) {
		h.violate("CalcInputPreimage/mutates-tx", "transaction differs after the digest calls (in a history of setter / builder calls)", in())
	}
	want, wantCls := RefForkID(h.rec, idx, uint32(ht))
	if k.PreCls != wantCls {
		h.violate("CalcInputPreimage/history-error-class-differs-from-callers-record",
			fmt.Sprintf("class %d; the transaction the caller's successful calls made gives %d (0 ok, 1 no such input, 2 previous txid missing, 3 previous script missing)", k.PreCls, wantCls), in())
	} else if wantCls == ClsOK && !bytes.Equal(pre, want) {
		h.violate("CalcInputPreimage/history-preimage-differs-from-callers-record", "library "+c02Diff(pre, want)+" (second: specification on the record)", in())
	}
	if k.HashCls != wantCls {
		h.violate("CalcInputSignatureHash/history-error-class-differs-from-callers-record",
			fmt.Sprintf("class %d; the transaction the caller's successful calls made gives %d", k.HashCls, wantCls), in())
	} else if wantCls == ClsOK && !bytes.Equal(hash, dsha(want)) {
		h.violate("CalcInputSignatureHash/history-hash-differs-from-callers-record", fmt.Sprintf("library %x, specification on the record %x", hash, dsha(want)), in())
	}
	c.Tally(fmt.Sprintf("c02-history/digest-class=%d", k.PreCls))
	return k
}

// probe: after a call — the whole grid against the record (Go), a few of those calls into the Coq case.
func (h *c02Hist) probe(touched int) {
	n := len(h.rec.Ins)
	pick := map[int]bool{n: true}
	if touched >= 0 && touched < n {
		pick[touched] = true
	}
	if n > 0 {
		pick[h.rot%n] = true
	}
	t1, t2 := c02Grid[h.rot%len(c02Grid)], c02Grid[(h.rot+3)%len(c02Grid)]
	extra := h.r.family()[h.rnd.Intn(128)]
	h.rot++
	var forCoq []string
	for idx := 0; idx <= n; idx++ {
		for _, ht := range c02Grid {
			k := h.observe(uint32(idx), ht)
			if pick[idx] && (ht == t1 || ht == t2) {
				forCoq = append(forCoq, k.coq())
			}
		}
		if pick[idx] && idx < n {
			forCoq = append(forCoq, h.observe(uint32(idx), extra).coq())
		}
	}
	var ext []byte
	if panicked, msg := common.Safely(func() { ext = h.tx.ExtendedBytes() }); panicked {
		h.violate("Tx.ExtendedBytes/panic", msg, h.input(nil))
		return
	}
	if want := c02RefExt(h.rec); !bytes.Equal(ext, want) {
		h.violate("Tx/history-transaction-differs-from-callers-record", "ExtendedBytes of the object "+c02Diff(ext, want)+" (second: the record serialised)", h.input(nil))
	}
	h.coq = append(h.coq, fmt.Sprintf("HCalls %s [%s]", common.CoqStr(common.Sha256Hex(ext)), strings.Join(forCoq, ";\n  ")))
}

// do: one setter / builder call.  coqOp: the op of model/SigBuild.v; wantFail: the arguments are unacceptable by
// construction; effect: what the call does to the record when it returns nil; touched: input to look at first.
func (h *c02Hist) do(api string, args interface{}, coqOp string, wantFail bool, touched int, f func() error, effect func(s *txgen.TxSpec)) {
	if h.dead {
		return
	}
	c := h.r.C
	step := c02Step{Call: api, Args: args}
	c.InFlight(api+"/process-abort", h.input(map[string]interface{}{"call_in_progress": step}))
	before, beforeShow := h.digests()
	var err error
	panicked, msg := common.Safely(func() { err = f() })
	if panicked {
		// not this property's business (it speaks of the digest functions); the history ends here
		step.Returned = "panic: " + msg
		h.steps = append(h.steps, step)
		c.Tally("c02-history/builder-panicked/" + api)
		h.dead = true
		return
	}
	if err != nil {
		step.Returned = "error: " + err.Error()
		h.steps = append(h.steps, step)
		h.failed++
		c.Tally("c02-history/failed/" + api)
		after, afterShow := h.digests()
		for i := range before {
			if before[i] != after[i] {
				h.violate(api+"/failed-call-changes-digest",
					"the last call of history returned an error, yet a digest of the transaction is no longer what it was right before that call (classes: 0 ok, 1 no such input, 2 previous txid missing, 3 previous script missing); before: "+beforeShow[i]+"; after: "+afterShow[i],
					h.input(map[string]interface{}{"failed_call": step}))
				break // (the digests observed now still go into the Coq case; then nothing further is asked of the object)
			}
		}
	} else {
		step.Returned = "nil"
		h.steps = append(h.steps, step)
		if wantFail {
			c.Tally("c02-history/unacceptable-argument-accepted/" + api)
			h.dead = true
			return
		}
		h.succeeded++
		c.Tally("c02-history/succeeded/" + api)
		effect(&h.rec)
	}
	h.coq = append(h.coq, fmt.Sprintf("HOp (%s) %s", coqOp, common.CoqBool(err != nil)))
	h.probe(touched)
}

// ---------- unlockers of the harness ----------

type c02Unlocker struct {
	script []byte
	err    error
}

func (u *c02Unlocker) UnlockingScript(ctx context.Context, tx *bt.Tx, p bt.UnlockerParams) (*bscript.Script, error) {
	return bscript.NewFromBytes(append([]byte{}, u.script...)), u.err // with err != nil: a script AND an error
}

type c02Getter struct{ err error }

func (g *c02Getter) Unlocker(ctx context.Context, s *bscript.Script) (bt.Unlocker, error) {
	if g.err != nil {
		return &c02Unlocker{script: []byte{0x51}}, g.err
	}
	return &c02Unlocker{script: []byte{0x51}}, nil
}

var errC02 = errors.New("harness: refused")

// ---------- the calls ----------

func c02CoqOut(sats uint64, script []byte) string {
	return fmt.Sprintf("OBuilder (EAddOutput (mkOutput %d %s))", sats, common.CoqBytes(script))
}

func c02BadHex(rnd *common.Rand, n int) string {
	good := common.Hex(rnd.Bytes(n))
	switch rnd.Intn(4) {
	case 0:
		return good[:len(good)-1] // odd length
	case 1:
		return "g" + good[1:] // not a hex digit
	case 2:
		return good[:len(good)-2] + "zz"
	}
	return good + "0"
}

func c02BadAddress(rnd *common.Rand) string {
	h := rnd.Bytes(20)
	switch rnd.Intn(6) {
	case 0:
		return ""
	case 1:
		return "not an address"
	case 2:
		return c02Address(0x05, h) // P2SH: unsupported
	case 3:
		return c02Address(0x00, h)[:20] // too short
	case 4:
		return c02Address(0x00, h) + "1111" // too long once decoded... leading position irrelevant: 29 bytes
	}
	return c02Address(0x00, append(h, 7)) // 21-byte hash
}

// step makes one call chosen at random; bad: with arguments the call has to refuse.
func (h *c02Hist) step(bad bool) {
	rnd := h.rnd
	n := len(h.rec.Ins)
	ctx := context.Background()
	for try := 0; try < 8; try++ {
		switch rnd.Intn(15) {
		case 0, 1: // Input.PreviousTxIDAdd
			if n == 0 {
				continue
			}
			j := rnd.Intn(n)
			id := rnd.Bytes(32)
			if bad {
				id = rnd.Bytes(rnd.Pick([]int{0, 1, 20, 31, 33, 64}))
				if len(id) == 0 && rnd.Bool() {
					id = nil
				}
			}
			arg := append([]byte{}, id...) // the library keeps the slice it is given
			h.do("Input.PreviousTxIDAdd", map[string]interface{}{"input": j, "txid": common.Hex(id)},
				fmt.Sprintf("OTxidAdd %d %s", j, common.CoqBytes(id)), bad, j,
				func() error { return h.tx.Inputs[j].PreviousTxIDAdd(arg) },
				func(s *txgen.TxSpec) { s.Ins[j].Txid = common.Hex(id) })
			return
		case 2, 3: // Input.PreviousTxIDAddStr
			if n == 0 {
				continue
			}
			j := rnd.Intn(n)
			id := rnd.Bytes(32)
			str := common.Hex(id)
			if rnd.Bool() {
				str = strings.ToUpper(str)
			}
			if bad {
				switch rnd.Intn(4) {
				case 0:
					str = common.Hex(rnd.Bytes(rnd.Pick([]int{0, 2, 16, 31, 33}))) // hex, wrong length
				case 1:
					str = c02BadHex(rnd, 32)
				case 2:
					str = str[:63]
				case 3:
					str = " " + str[1:]
				}
			}
			h.do("Input.PreviousTxIDAddStr", map[string]interface{}{"input": j, "txid": str},
				fmt.Sprintf("OTxidAddStr %d %s", j, common.CoqStr(str)), bad, j,
				func() error { return h.tx.Inputs[j].PreviousTxIDAddStr(str) },
				func(s *txgen.TxSpec) { s.Ins[j].Txid = common.Hex(id) })
			return
		case 4, 5: // Tx.From
			if n >= 6 && !bad {
				continue
			}
			id, sc := common.Hex(rnd.Bytes(32)), script(rnd, false)
			vout, sats := txgen.U32(rnd), txgen.U64(rnd)
			if bad {
				switch rnd.Intn(4) {
				case 0:
					id = c02BadHex(rnd, 32)
				case 1:
					id = common.Hex(rnd.Bytes(rnd.Pick([]int{0, 16, 31, 33})))
				case 2:
					sc = c02BadHex(rnd, 25)
				case 3:
					id, sc = common.Hex(rnd.Bytes(31)), c02BadHex(rnd, 3)
				}
			}
			h.do("Tx.From", map[string]interface{}{"txid": id, "vout": vout, "script": sc, "satoshis": sats},
				fmt.Sprintf("OFrom %s %d %s %d", common.CoqStr(id), vout, common.CoqStr(sc), sats), bad, n,
				func() error { return h.tx.From(id, vout, sc, sats) },
				func(s *txgen.TxSpec) {
					s.Ins = append(s.Ins, txgen.InSpec{Txid: id, Vout: vout, UnlockNil: true, Seq: 0xffffffff, Sats: sats, Prev: sc})
				})
			return
		case 6: // Tx.FromUTXOs: one UTXO, or a bad one followed by a good one
			if n >= 6 && !bad {
				continue
			}
			id, sc := rnd.Bytes(32), common.Unhex(script(rnd, false))
			nilScript := rnd.Chance(25)
			vout, sats := txgen.U32(rnd), txgen.U64(rnd)
			mk := func(id []byte) *bt.UTXO {
				u := &bt.UTXO{TxID: append([]byte{}, id...), Vout: vout, Satoshis: sats, SequenceNumber: 5}
				if !nilScript {
					u.LockingScript = bscript.NewFromBytes(append([]byte{}, sc...))
				}
				return u
			}
			us := []*bt.UTXO{mk(id)}
			coqU := func(id []byte) string {
				return fmt.Sprintf("mkUtxo %s %d %s %d", common.CoqBytes(id), vout, common.CoqOptBytes(sc, nilScript), sats)
			}
			coq := "OFromUTXOs [" + coqU(id) + "]"
			args := map[string]interface{}{"utxos": []interface{}{map[string]interface{}{"txid": common.Hex(id), "vout": vout, "script": common.Hex(sc), "script_nil": nilScript, "satoshis": sats}}}
			if bad {
				short := rnd.Bytes(rnd.Pick([]int{0, 31, 33}))
				us = []*bt.UTXO{mk(short)}
				coq = "OFromUTXOs [" + coqU(short) + "]"
				args = map[string]interface{}{"utxos": "first: txid " + common.Hex(short) + " (same vout / script / satoshis as below)", "then": args["utxos"]}
				if rnd.Bool() {
					us = append(us, mk(id))
					coq = "OFromUTXOs [" + coqU(short) + "; " + coqU(id) + "]"
				} else {
					args["then"] = nil
				}
			}
			h.do("Tx.FromUTXOs", args, coq, bad, n,
				func() error { return h.tx.FromUTXOs(us...) },
				func(s *txgen.TxSpec) {
					s.Ins = append(s.Ins, txgen.InSpec{Txid: common.Hex(id), Vout: vout, UnlockNil: true, Seq: 0xffffffff, Sats: sats, Prev: common.Hex(sc), PrevNil: nilScript})
					if nilScript {
						s.Ins[len(s.Ins)-1].Prev = ""
					}
				})
			return
		case 7: // address-taking output builders
			hash := rnd.Bytes(20)
			addr := c02Address([]byte{0x00, 0x6f}[rnd.Intn(2)], hash)
			if bad {
				addr = c02BadAddress(rnd)
			}
			sats := txgen.U64(rnd)
			which := rnd.Intn(3)
			if which == 2 && !bad {
				which = 0 // ChangeToAddress only in its failing form (its success is a fee computation: C11 / C12)
			}
			api := []string{"Tx.AddP2PKHOutputFromAddress", "Tx.PayToAddress", "Tx.ChangeToAddress"}[which]
			h.do(api, map[string]interface{}{"address": addr, "satoshis": sats}, c02CoqOut(sats, c02P2PKH(hash)), bad, -1,
				func() error {
					switch which {
					case 0:
						return h.tx.AddP2PKHOutputFromAddress(addr, sats)
					case 1:
						return h.tx.PayToAddress(addr, sats)
					}
					return h.tx.ChangeToAddress(addr, bt.NewFeeQuote())
				},
				func(s *txgen.TxSpec) { s.Outs = append(s.Outs, txgen.OutSpec{Sats: sats, Script: common.Hex(c02P2PKH(hash))}) })
			return
		case 8: // hex / key taking output builders
			hash := rnd.Bytes(20)
			sats := txgen.U64(rnd)
			which := rnd.Intn(4)
			if !bad {
				which = 0 // the others hash a public key (RIPEMD-160 of go-bk): only their refusals are used
			}
			arg := common.Hex(hash)
			switch {
			case bad && which == 0:
				arg = c02BadHex(rnd, 20)
			case which == 1:
				arg = c02BadHex(rnd, 33)
			case which == 2:
				arg = common.Hex(rnd.Bytes(rnd.Pick([]int{0, 20, 32, 34, 65}))) // public key of a wrong length
			case which == 3:
				arg = c02BadHex(rnd, 20)
			}
			api := []string{"Tx.AddP2PKHOutputFromPubKeyHashStr", "Tx.AddP2PKHOutputFromPubKeyStr", "Tx.AddP2PKHOutputFromPubKeyBytes", "Tx.AddHashPuzzleOutput"}[which]
			h.do(api, map[string]interface{}{"argument": arg, "satoshis": sats}, c02CoqOut(sats, c02P2PKH(hash)), bad, -1,
				func() error {
					switch which {
					case 0:
						return h.tx.AddP2PKHOutputFromPubKeyHashStr(arg, sats)
					case 1:
						return h.tx.AddP2PKHOutputFromPubKeyStr(arg, sats)
					case 2:
						return h.tx.AddP2PKHOutputFromPubKeyBytes(common.Unhex(arg), sats)
					}
					return h.tx.AddHashPuzzleOutput("secret", arg, sats)
				},
				func(s *txgen.TxSpec) { s.Outs = append(s.Outs, txgen.OutSpec{Sats: sats, Script: common.Hex(c02P2PKH(hash))}) })
			return
		case 9: // script-taking output builders
			sc := c02P2PKH(rnd.Bytes(20))
			if bad {
				switch rnd.Intn(3) {
				case 0:
					sc = common.Unhex(script(rnd, false))
					if bscript.NewFromBytes(sc).IsP2PKH() {
						continue
					}
				case 1:
					sc = sc[:24]
				case 2:
					sc = append([]byte{0xa9, 0x14}, append(rnd.Bytes(20), 0x87)...) // P2SH
				}
			}
			sats := txgen.U64(rnd)
			which := rnd.Intn(2)
			api := []string{"Tx.AddP2PKHOutputFromScript", "Tx.PayTo"}[which]
			h.do(api, map[string]interface{}{"script": common.Hex(sc), "satoshis": sats}, c02CoqOut(sats, sc), bad, -1,
				func() error {
					s := bscript.NewFromBytes(append([]byte{}, sc...))
					if which == 0 {
						return h.tx.AddP2PKHOutputFromScript(s, sats)
					}
					return h.tx.PayTo(s, sats)
				},
				func(s *txgen.TxSpec) { s.Outs = append(s.Outs, txgen.OutSpec{Sats: sats, Script: common.Hex(sc)}) })
			return
		case 10: // change: only calls that have to be refused
			if !bad {
				continue
			}
			var inSum, outSum uint64 // as the library adds them up (wrapping)
			for _, in := range h.rec.Ins {
				inSum += in.Sats
			}
			for _, o := range h.rec.Outs {
				outSum += o.Sats
			}
			if rnd.Bool() {
				idx := uint(len(h.rec.Outs) + rnd.Intn(3))
				h.do("Tx.ChangeToExistingOutput", map[string]interface{}{"index": idx}, "OBuilder ENothing", true, -1,
					func() error { return h.tx.ChangeToExistingOutput(idx, bt.NewFeeQuote()) }, nil)
				return
			}
			if inSum >= outSum {
				continue
			}
			sc := c02P2PKH(rnd.Bytes(20))
			h.do("Tx.Change", map[string]interface{}{"script": common.Hex(sc), "inputs_total": inSum, "outputs_total": outSum}, "OBuilder ENothing", true, -1,
				func() error { return h.tx.Change(bscript.NewFromBytes(sc), bt.NewFeeQuote()) }, nil)
			return
		case 11: // FillInput / FillAllInputs
			if n == 0 {
				continue
			}
			j := rnd.Intn(n)
			us := rnd.Bytes(rnd.Pick([]int{0, 1, 5, 34, 107}))
			if !bad {
				h.do("Tx.FillInput", map[string]interface{}{"input": j, "unlocker": "returns the script " + common.Hex(us) + " and nil"},
					fmt.Sprintf("OBuilder (ESetUnlock %d %s)", j, common.CoqBytes(us)), false, j,
					func() error { return h.tx.FillInput(ctx, &c02Unlocker{script: us}, bt.UnlockerParams{InputIdx: uint32(j)}) },
					func(s *txgen.TxSpec) { s.Ins[j].Unlock, s.Ins[j].UnlockNil = common.Hex(us), false })
				return
			}
			which := rnd.Intn(4)
			if which == 2 && (h.rec.Ins[j].PrevNil || bscript.NewFromBytes(common.Unhex(h.rec.Ins[j].Prev)).IsP2PKH()) {
				which = 1
			}
			what := []string{"none (nil)", "returns the script " + common.Hex(us) + " AND an error", "unlocker.Simple without a key on a script that is not P2PKH", "FillAllInputs with a getter that returns an unlocker AND an error"}[which]
			api := "Tx.FillInput"
			if which == 3 {
				api = "Tx.FillAllInputs"
			}
			h.do(api, map[string]interface{}{"input": j, "unlocker": what}, "OBuilder ENothing", true, j,
				func() error {
					p := bt.UnlockerParams{InputIdx: uint32(j), SigHashFlags: bsh.Flag(c02Grid[rnd.Intn(len(c02Grid))])}
					switch which {
					case 0:
						return h.tx.FillInput(ctx, nil, p)
					case 1:
						return h.tx.FillInput(ctx, &c02Unlocker{script: us, err: errC02}, p)
					case 2:
						return h.tx.FillInput(ctx, &unlocker.Simple{}, p)
					}
					return h.tx.FillAllInputs(ctx, &c02Getter{err: errC02})
				}, nil)
			return
		case 12: // JSON onto the existing objects: only documents that have to be refused
			if !bad {
				continue
			}
			doc := []string{
				`{"txid":"` + c02BadHex(rnd, 32) + `","vout":1,"unlockingScript":"51","sequence":7}`,
				`{"txid":"` + common.Hex(rnd.Bytes(32)) + `","vout":2,"unlockingScript":"` + c02BadHex(rnd, 4) + `","sequence":9}`,
				`{"txid":"` + common.Hex(rnd.Bytes(32)) + `","vout":"x"}`,
				`{"satoshis":5,"lockingScript":"` + c02BadHex(rnd, 25) + `"}`,
				`{"satoshis":"5","lockingScript":"51"}`,
				`{"version":2,"locktime":3,"hex":"` + c02BadHex(rnd, 40) + `"}`,
				`{"version":2,"locktime":3,"hex":"0100000001"}`,
				`{"version":2,"locktime":"x"}`,
				`{"version":2,"locktime":3,"vin":[{"txid":"` + common.Hex(rnd.Bytes(32)) + `","vout":0,"scriptSig":{"hex":"` + c02BadHex(rnd, 3) + `"},"sequence":1}],"vout":[{"value":0.5,"n":0,"scriptPubKey":{"hex":"51"}}]}`,
				`{"version":2,"locktime":3,"vin":[],"vout":[{"value":0.5,"n":0,"scriptPubKey":{"hex":"` + c02BadHex(rnd, 3) + `"}}]}`,
			}
			k := rnd.Intn(len(doc))
			var api string
			var f func() error
			touched := -1
			switch {
			case k < 3:
				if n == 0 {
					continue
				}
				j := rnd.Intn(n)
				touched = j
				api, f = "Input.UnmarshalJSON", func() error { return h.tx.Inputs[j].UnmarshalJSON([]byte(doc[k])) }
			case k < 5:
				if len(h.rec.Outs) == 0 {
					continue
				}
				j := rnd.Intn(len(h.rec.Outs))
				api, f = "Output.UnmarshalJSON", func() error { return json.Unmarshal([]byte(doc[k]), h.tx.Outputs[j]) }
			case k < 8:
				api, f = "Tx.UnmarshalJSON", func() error { return h.tx.UnmarshalJSON([]byte(doc[k])) }
			default:
				api, f = "Tx.NodeJSON/UnmarshalJSON", func() error { return json.Unmarshal([]byte(doc[k]), h.tx.NodeJSON()) }
			}
			h.do(api, map[string]interface{}{"document": doc[k], "on": touched}, "OBuilder ENothing", true, touched, f, nil)
			return
		case 13: // Fund / AddP2PKHInputsFromTx: only calls that add nothing
			if !bad {
				continue
			}
			if rnd.Bool() {
				// previous transaction whose FIRST output is not P2PKH: refused before anything is added
				pvs := &bt.Tx{Version: 1}
				pvs.Outputs = append(pvs.Outputs, &bt.Output{Satoshis: 9, LockingScript: bscript.NewFromBytes([]byte{0x51})},
					&bt.Output{Satoshis: 8, LockingScript: bscript.NewFromBytes(c02P2PKH(rnd.Bytes(20)))})
				h.do("Tx.AddP2PKHInputsFromTx", map[string]interface{}{"previous_tx_outputs": []string{"51", "p2pkh"}}, "OBuilder ENothing", true, n,
					func() error { return h.tx.AddP2PKHInputsFromTx(pvs, rnd.Bytes(33)) }, nil)
				return
			}
			// (Fund estimates the size on a Clone, which ends the process when the transaction's own bytes do not
			// re-parse: no inputs, or an input without a 32-byte txid)
			cloneable := n > 0
			for _, in := range h.rec.Ins {
				cloneable = cloneable && in.Txid != ""
			}
			if !cloneable {
				continue
			}
			which := rnd.Intn(2)
			what := []string{"returns an error", "returns one UTXO with a 31-byte txid"}[which]
			h.do("Tx.Fund", map[string]interface{}{"getter": what}, "OBuilder ENothing", false, n,
				func() error {
					// (nil when the transaction needs no funds: the getter is not asked then; nothing is added either way)
					return h.tx.Fund(ctx, bt.NewFeeQuote(), func(ctx context.Context, deficit uint64) ([]*bt.UTXO, error) {
						if which == 0 {
							return []*bt.UTXO{{TxID: make([]byte, 32), LockingScript: bscript.NewFromBytes([]byte{0x51}), Satoshis: 1 << 40}}, errC02
						}
						return []*bt.UTXO{{TxID: make([]byte, 31), LockingScript: bscript.NewFromBytes([]byte{0x51}), Satoshis: 1 << 40}}, nil
					})
				}, func(s *txgen.TxSpec) {})
			return
		case 14: // plain field writes of the caller between the calls (always succeed)
			if bad || n == 0 {
				continue
			}
			j := rnd.Intn(n)
			seq, vout := txgen.U32(rnd), txgen.U32(rnd)
			h.do("Inputs[j].SequenceNumber / PreviousTxOutIndex assigned", map[string]interface{}{"input": j, "sequence": seq, "vout": vout},
				fmt.Sprintf("OBuilder (ESetSeqVout %d %d %d)", j, seq, vout), false, j,
				func() error { h.tx.Inputs[j].SequenceNumber, h.tx.Inputs[j].PreviousTxOutIndex = seq, vout; return nil },
				func(s *txgen.TxSpec) { s.Ins[j].Seq, s.Ins[j].Vout = seq, vout })
			return
		}
	}
}

// c02History: one history; returns the number of calls that returned an error.
func (r *Runner) c02History(rnd *common.Rand, start txgen.TxSpec, fresh bool, length int, withCoq bool, kind string) *c02Hist {
	c := r.C
	h := &c02Hist{r: r, rnd: rnd, start: cloneSpec(start), rec: cloneSpec(start), withCoq: withCoq}
	if fresh {
		h.tx = bt.NewTx() // start must be {Version 1, no inputs, no outputs, LockTime 0}
	} else {
		h.tx = Build(start)
	}
	h.probe(0)
	// the two shapes every history has when it can: a refused txid on an input that has none yet, and on one that has
	for j, in := range h.rec.Ins {
		j := j
		if in.Txid == "" {
			id := rnd.Bytes(rnd.Pick([]int{31, 33, 1}))
			h.do("Input.PreviousTxIDAdd", map[string]interface{}{"input": j, "txid": common.Hex(id)},
				fmt.Sprintf("OTxidAdd %d %s", j, common.CoqBytes(id)), true, j,
				func() error { return h.tx.Inputs[j].PreviousTxIDAdd(id) }, nil)
			break
		}
	}
	for i := 0; i < length && !h.dead; i++ {
		h.step(i%2 == 0)
	}
	if len(h.steps) == 0 {
		return h
	}
	twin := map[string]interface{}{"kind": kind, "started_from": h.start, "history": h.steps, "tx": h.rec}
	key := fmt.Sprintf("%s|%x|%v", kind, c02RefExt(h.rec), h.steps)
	coq := ""
	if withCoq {
		coq = fmt.Sprintf("CHist %s [%s]", txgen.Coq(h.start), strings.Join(h.coq, ";\n "))
	}
	c.Case(coq, twin, key, h.failed > 0 && h.okDigests > 0)
	c.Tally("case/" + kind)
	return h
}

func c02FailedCalls(r *Runner, rnd *common.Rand) {
	c := r.C
	nCoq, nGo, length := 10, 60, 10
	if c.Thorough() {
		nCoq, nGo, length = 60, 900, 14
	}
	if c.Mode == "search" {
		nGo += 200
	}
	failed, succeeded, hists := 0, 0, 0
	for i := 0; i < nCoq+nGo; i++ {
		var start txgen.TxSpec
		fresh := i%4 == 3
		if fresh {
			start = txgen.TxSpec{Version: 1}
		} else {
			start = gen(rnd, 1+rnd.Intn(3), rnd.Intn(3), false)
			if i%2 == 0 {
				start.Ins[rnd.Intn(len(start.Ins))].Txid = "" // an input whose txid the caller has still to set
			}
			if i%5 == 1 {
				k := rnd.Intn(len(start.Ins))
				start.Ins[k].PrevNil, start.Ins[k].Prev = true, ""
			}
		}
		kind := "failed-calls-history"
		if i >= nCoq {
			kind = "failed-calls-history/go-only"
		}
		h := r.c02History(rnd, start, fresh, length, i < nCoq, kind)
		failed, succeeded, hists = failed+h.failed, succeeded+h.succeeded, hists+1
	}
	c.Stats.Extra["c02_failed_call_histories"] = map[string]int{"histories": hists, "with_coq_case": nCoq, "calls_that_returned_an_error": failed, "calls_that_returned_nil": succeeded}
	c.Stats.Rule += fmt.Sprintf(" C02 failed calls: %d histories of ~%d setter / builder calls on one long-lived transaction object (started from a generated struct-literal transaction — half of them with an input without txid — or from NewTx()), calls with unacceptable arguments (PreviousTxIDAdd / PreviousTxIDAddStr / From / FromUTXOs / address, hex, key and script taking output builders / Change* / FillInput / FillAllInputs / Fund / UnmarshalJSON of input, output, transaction, node dialect) alternating with acceptable ones; the harness keeps its own record (effect of a call only when it returned nil) and compares, after every call, all digests of indices 0..n x {0x41,0x42,0x43,0xc1,0xc2,0xc3} and ExtendedBytes with the reference evaluated on the record, and the digests right before with those right after every call that returned an error; %d of the histories are Coq cases (CHist: model/SigBuild.v decides the verdict of the txid setters / From / FromUTXOs itself and the digests are evaluated on the model's transaction after the history). distinct = distinct (final record, history); non-trivial = at least one call returned an error and at least one digest was returned.", hists, length, nCoq)
}
