package sighash

// C03 only: LENGTHS and COUNTS of the legacy preimage in the ranges the shared families never produce.
//
// The legacy preimage is the transaction's own serialisation, so every variable-size part of it is preceded by a
// CompactSize: the number of inputs, the script of the signed input (the recorded previous script, verbatim), the
// number of outputs, every output script.  Each of the four CompactSize forms is a separate branch of the code that
// writes it; the shared families stop at scripts of 300 bytes (3-byte form, second length byte 0 or 1) and at four
// inputs / outputs (1-byte form).  Here:
//   - the recorded previous script of the signed input has 65535, 65536, 65537, 0x1ff01, 0x20000 ... bytes (last
//     length of the 3-byte form, first ones of the 5-byte form, lengths whose third length byte is not zero), alone
//     and together with another input's previous script of such a length (that one is blanked);
//   - an output script and an unlocking script of such a length (they travel through Tx.Clone's serialise / parse
//     round trip inside the digest - the previous scripts do not);
//   - 253 and more inputs / outputs (the counts take the 3-byte form; under SINGLE on the last input the nulled
//     outputs before the signed index are that many), up to 65536 and more (5-byte form, Go reference only);
//   - the function the library writes those prefixes with, on every form boundary up to 2^64-1.
// Long scripts are c02Long's (PUSHDATA4 of one repeated byte + OP_DROP + P2PKH: the Coq term is `repeat_byte n x`),
// many inputs / outputs are copies of one (txgen prints them as `repeat x n`), so a case costs the model hashing
// and nothing else; each is a shard of its own and carries a few calls.  Lengths from 2^24 on and counts from 2^16
// on are stated in Go only (the independent reference of ref.go).
//
// Tx.Clone ends the process (log.Fatal) when the transaction's own bytes do not parse back.  Before any digest is
// asked for, the harness makes that round trip itself (NewTxFromBytes(tx.Bytes())): a well-formed transaction whose
// serialisation the library's own parser rejects is reported with the transaction, and the digest calls - which
// would end the run - are not made on it.

import (
	"bytes"
	"fmt"
	"strings"

	"github.com/libsv/go-bt/v2"
	bsh "github.com/libsv/go-bt/v2/sighash"

	"verif/harness/common"
	"verif/harness/txgen"
)

func init() {
	Extra["C03"] = append(Extra["C03"], c03LongScripts, c03ManyInputsOutputs, c03CompactSize)
}

// c03Rand: the C03 families added in round 8 draw from a stream of their own (a function of the seed), so that
// the families that ran before them see the random stream they always saw.
func c03Rand(r *Runner, salt uint64) *common.Rand {
	return common.NewRand(r.C.Seed*0x9e3779b97f4a7c15 + salt)
}

// c03One: what Runner.one does for one (index, hash type) on the legacy path, with the transaction described by
// `desc` in reports and differences located rather than printed in full.
func (r *Runner) c03One(s txgen.TxSpec, desc interface{}, tx *bt.Tx, idx uint32, ht uint8) call {
	c := r.C
	k := call{Idx: idx, HT: ht}
	in := map[string]interface{}{"tx": desc, "index": idx, "hash_type": ht}
	c.InFlight("CalcInputPreimageLegacy/process-abort", in)
	before := snap(tx)

	var pre, hash []byte
	var err error
	panicked, msg := common.Safely(func() { pre, err = tx.CalcInputPreimageLegacy(idx, bsh.Flag(ht)) })
	k.PreCls = classify(err, panicked)
	if panicked {
		c.Violate("CalcInputPreimageLegacy/panic", msg, in)
	}
	if k.PreCls == ClsOK {
		k.PreLen, k.PreSha = len(pre), common.Sha256Hex(pre)
	}
	if !before.equal(snap(tx)) {
		c.Violate("CalcInputPreimageLegacy/mutates-tx", "transaction differs after the call", in)
	}
	var herr error
	panicked, msg = common.Safely(func() { hash, herr = tx.CalcInputSignatureHash(idx, bsh.Flag(ht)) })
	k.HashCls = classify(herr, panicked)
	if panicked {
		c.Violate("CalcInputSignatureHash/panic", msg, in)
	}
	if k.HashCls == ClsOK {
		k.Hash = common.Hex(hash)
	}
	if !before.equal(snap(tx)) {
		c.Violate("CalcInputSignatureHash/mutates-tx", "transaction differs after the call", in)
	}
	if k.PreCls == ClsOK && common.Sha256Hex(pre) != k.PreSha {
		c.Violate("CalcInputPreimageLegacy/returned-preimage-changes-after-later-calls", "the preimage returned no longer hashes to what it did after CalcInputSignatureHash ran on the same transaction", in)
	}

	want, one, wantCls := RefLegacy(s, idx, uint32(ht))
	if one {
		want = append([]byte{1}, make([]byte, 31)...)
	}
	if k.PreCls != wantCls {
		c.Violate("CalcInputPreimageLegacy/error-class", fmt.Sprintf("class %d, specification says %d", k.PreCls, wantCls), in)
	} else if wantCls == ClsOK && !bytes.Equal(pre, want) {
		c.Violate("CalcInputPreimageLegacy/preimage-differs-from-specification", c02Diff(pre, want), in)
	}
	if k.HashCls != wantCls {
		c.Violate("CalcInputSignatureHash/error-class", fmt.Sprintf("class %d, specification says %d", k.HashCls, wantCls), in)
	} else if wantCls == ClsOK {
		wantHash := dsha(want)
		if one {
			wantHash = want
		}
		if !bytes.Equal(hash, wantHash) {
			c.Violate("CalcInputSignatureHash/hash-differs-from-specification", fmt.Sprintf("library %x, specification %x", hash, wantHash), in)
		}
	}
	c.Tally(fmt.Sprintf("call/class=%d", k.PreCls))
	if one {
		c.Tally("call/single-without-output")
	}
	return k
}

// c03Reparses: the round trip Tx.Clone makes, made by the harness first.
func (r *Runner) c03Reparses(tx *bt.Tx, desc interface{}) bool {
	c := r.C
	in := map[string]interface{}{"tx": desc, "call": "bt.NewTxFromBytes(tx.Bytes()) - the round trip Tx.Clone makes inside CalcInputPreimageLegacy"}
	c.InFlight("Tx.Clone/process-abort", in)
	var back *bt.Tx
	var err error
	var ser []byte
	panicked, msg := common.Safely(func() {
		ser = tx.Bytes()
		back, err = bt.NewTxFromBytes(ser)
	})
	switch {
	case panicked:
		c.Violate("CalcInputPreimageLegacy/own-serialisation-does-not-parse-back", "panic: "+msg, in)
	case err != nil:
		c.Violate("CalcInputPreimageLegacy/own-serialisation-does-not-parse-back",
			fmt.Sprintf("the library's parser rejects the %d bytes the library serialised this transaction to (%v): Tx.Clone inside the legacy digest ends the process on it (log.Fatal)", len(ser), err), in)
	case back == nil || len(back.Inputs) != len(tx.Inputs) || len(back.Outputs) != len(tx.Outputs) || !bytes.Equal(back.Bytes(), ser):
		c.Violate("CalcInputPreimageLegacy/own-serialisation-does-not-parse-back", "the transaction parsed back from its own serialisation is another one: the digest would be computed on it", in)
	default:
		return true
	}
	return false
}

type c03Pair struct {
	idx uint32
	ht  uint8
}

// c03LongCase runs the pairs on one transaction object; model=true also emits the observations as a case.
func (r *Runner) c03LongCase(s txgen.TxSpec, desc interface{}, pairs []c03Pair, what string, model bool) {
	c := r.C
	tx := Build(s)
	if !r.c03Reparses(tx, desc) {
		c.Tally("case/long/" + what + "/not-run")
		return
	}
	var calls []call
	var cs []string
	ok := 0
	for _, p := range pairs {
		k := r.c03One(s, desc, tx, p.idx, p.ht)
		if k.PreCls == ClsOK {
			ok++
		}
		calls = append(calls, k)
		cs = append(cs, k.coq())
	}
	c.Tally("case/long/" + what)
	if !model {
		c.Tally("go-only/long/" + what)
		return
	}
	ext := tx.ExtendedBytes()
	coq := fmt.Sprintf("CCalls true %s%%list %s [%s]", txgen.Coq(s), common.CoqStr(common.Sha256Hex(ext)), strings.Join(cs, ";\n "))
	twin := map[string]interface{}{"kind": "long/" + what, "tx": desc, "calls": len(calls), "first": calls[0]}
	c.Weigh(c.ShardBytes) // hashing some 10^5 bytes several times on the model: a shard of its own
	c.Case(coq, twin, fmt.Sprintf("c03long|%s|%d", common.Sha256Hex(ext), len(calls)), ok > 0)
}

// c03LongTx: 2 inputs, 2 outputs with boundary field values.  prev0 / prev1 = length of the recorded previous script
// of input 0 / 1, out = length of the locking script of output 1, unlock = length of the unlocking script of input 1
// (0: a short one).
func c03LongTx(rnd *common.Rand, prev0, prev1, out, unlock int) txgen.TxSpec {
	s := gen(rnd, 2, 2, false)
	for i := range s.Ins {
		s.Ins[i].PrevNil = false
		if s.Ins[i].Prev == "" {
			s.Ins[i].Prev = "51"
		}
	}
	fill := func() byte { return byte(0x11 + rnd.Intn(0xe0)) }
	if prev0 > 0 {
		s.Ins[0].Prev = common.Hex(c02Long(prev0, fill()))
	}
	if prev1 > 0 {
		s.Ins[1].Prev = common.Hex(c02Long(prev1, fill()))
	}
	if out > 0 {
		s.Outs[1].Script = common.Hex(c02Long(out, fill()))
	}
	if unlock > 0 {
		s.Ins[1].Unlock, s.Ins[1].UnlockNil = common.Hex(c02Long(unlock, fill())), false
	}
	return s
}

func c03LongScripts(r *Runner, _ *common.Rand) {
	c := r.C
	rnd := c03Rand(r, 0xc0301)
	const (
		old, all, none, single = 0x00, 0x01, 0x02, 0x03
		acp                    = 0x80
	)
	run := func(prev0, prev1, out, unlock int, pairs []c03Pair, what string, model bool) {
		s := c03LongTx(rnd, prev0, prev1, out, unlock)
		r.c03LongCase(s, c02Compact(s), pairs, what, model)
	}
	// the script code of the signed input: input 0 carries the long one; signing input 1 blanks it
	code := []c03Pair{{0, all}, {0, single | acp}, {1, none}, {0, old}}
	// both inputs carry one: whichever is signed, its length is written and the other's is not
	two := []c03Pair{{0, all}, {1, all}, {1, single | acp}, {0, none | acp}}
	// output script (output 1: under ALL on any input, under SINGLE on input 1) and unlocking script (input 1; never in the preimage)
	outs := []c03Pair{{0, all}, {1, single}, {1, all | acp}, {0, single}}

	run(65536, 0, 0, 0, code, "script-code=65536", true)
	run(65535, 65537, 0, 0, two, "script-code=65535 (input 0), 65537 (input 1)", true)
	run(0x1ff01, 0, 0, 0, code[:3], "script-code=130817", true)
	run(0, 0, 65536, 65537, outs, "output-script=65536,unlocking-script=65537", true)
	if c.Thorough() {
		for _, n := range []int{70000, 0x1ffff, 0x20000, 0x30201, 0x7ff80} {
			run(n, 0, 0, 0, code, fmt.Sprintf("script-code=%d", n), true)
			run(0, n+1, n, 0, two, fmt.Sprintf("script-code=%d (input 1),output-script=%d", n+1, n), true)
		}
	}
	// Go reference only: 2^17, and all four length bytes in use (2^24 + 2^9 + 3 and a neighbour in the other fields)
	run(0x20000, 0x20001, 0x1ffff, 0, two, "script-code=131072 / 131073,output-script=131071 (go reference only)", false)
	run(0x01000203, 0, 0x01000302, 0, code[:2], "script-code=16777731,output-script=16777986 (go reference only)", false)
	if c.Thorough() || c.Mode == "search" {
		for k := 0; k < 6; k++ {
			n := 65536 + rnd.Intn(1<<uint(16+rnd.Intn(9)))
			m := 65536 + rnd.Intn(1<<uint(16+rnd.Intn(9)))
			run(n, 0, m, 0, two, "random lengths of 65536 bytes and more (go reference only)", false)
		}
	}
	c.Stats.Rule += " C03 long scripts (c03_long.go): the recorded previous script of the signed input of 65535, 65536, 65537, 0x1ff01 bytes (last length of the 3-byte CompactSize form, first ones of the 5-byte form, a length with three non-zero bytes; thorough also 70000, 0x1ffff, 0x20000, 0x30201, 0x7ff80 and their successors), alone and next to another input's of such a length, an output script of 65536 and an unlocking script of 65537 bytes (they pass through Tx.Clone's serialise / parse round trip), built as PUSHDATA4 of one repeated byte + OP_DROP + P2PKH so that the Coq term stays small, each x ALL / NONE / SINGLE / type 0 with and without ANYONECANPAY on both inputs (3-4 calls per case, one shard per case); 2^17 and 2^24-range lengths against the Go reference only. Before the digests the harness makes Tx.Clone's round trip itself (NewTxFromBytes(tx.Bytes()))."
}

// c03ManyTx: nin inputs and nout outputs: two distinct ones, copies of a third in between, a distinct last one.
func c03ManyTx(rnd *common.Rand, nin, nout int) txgen.TxSpec {
	base := gen(rnd, 4, 4, false)
	for i := range base.Ins {
		base.Ins[i].PrevNil = false
		if base.Ins[i].Prev == "" {
			base.Ins[i].Prev = "51"
		}
	}
	s := txgen.TxSpec{Version: base.Version, Lock: base.Lock}
	s.Ins = append(s.Ins, base.Ins[0], base.Ins[1])
	for len(s.Ins) < nin-1 {
		s.Ins = append(s.Ins, base.Ins[2])
	}
	s.Ins = append(s.Ins, base.Ins[3])
	s.Outs = append(s.Outs, base.Outs[0], base.Outs[1])
	for len(s.Outs) < nout-1 {
		s.Outs = append(s.Outs, base.Outs[2])
	}
	s.Outs = append(s.Outs, base.Outs[3])
	return s
}

// c03ManyDesc: the transaction of a report / case twin with the run of copies abbreviated.
func c03ManyDesc(s txgen.TxSpec) interface{} {
	ni, no := len(s.Ins), len(s.Outs)
	return map[string]interface{}{"version": s.Version, "lock": s.Lock,
		"inputs":  fmt.Sprintf("%d: ins[0], ins[1], %d copies of ins[2], ins[3]", ni, ni-3),
		"outputs": fmt.Sprintf("%d: outs[0], outs[1], %d copies of outs[2], outs[3]", no, no-3),
		"ins":     []txgen.InSpec{s.Ins[0], s.Ins[1], s.Ins[2], s.Ins[ni-1]},
		"outs":    []txgen.OutSpec{s.Outs[0], s.Outs[1], s.Outs[2], s.Outs[no-1]}}
}

// c03ManyInputsOutputs: the two COUNTS of the preimage beyond the 1-byte form.
func c03ManyInputsOutputs(r *Runner, _ *common.Rand) {
	c := r.C
	rnd := c03Rand(r, 0xc0302)
	const (
		all, none, single = 0x01, 0x02, 0x03
		acp               = 0x80
	)
	run := func(nin, nout int, model bool) {
		s := c03ManyTx(rnd, nin, nout)
		last := uint32(nin - 1)
		pairs := []c03Pair{{0, all}, {last, single}, {1, none}, {last, all | acp}, {2, single | acp}}
		if nin >= 1<<16 && !c.Thorough() { // (the harness's own before / after comparison of 2^16 inputs is what costs here)
			pairs = pairs[:2]
		} else if model && !c.Thorough() { // (some 20 kB cloned, serialised and hashed per call on the model)
			pairs = []c03Pair{pairs[0], pairs[1], pairs[3]}
		}
		r.c03LongCase(s, c03ManyDesc(s), pairs, fmt.Sprintf("inputs=%d,outputs=%d", nin, nout), model)
	}
	run(253, 254, true)         // SINGLE on the last input: 253 outputs (252 nulled ones), 253 inputs
	run(252, 300, c.Thorough()) // last 1-byte count of inputs; SINGLE on the last input: 252 outputs
	run(300, 253, false)        // more inputs than outputs: SINGLE on the last input is the constant
	if c.Thorough() {
		run(254, 253, true)
		run(1000, 1001, true)
	}
	run(65536, 65537, false)
	c.Stats.Rule += " C03 counts (c03_long.go): 253/254, 252/300, 300/253 and 65536/65537 inputs/outputs (copies of one input / output between distinct first and last ones; the counts of the preimage in the 3-byte and 5-byte CompactSize form, under SINGLE on the last input as many nulled outputs) x ALL on the first, SINGLE and ALL|ANYONECANPAY on the last, NONE and SINGLE|ANYONECANPAY on inner inputs; 253/254 (thorough: 252/300, 254/253, 1000/1001 too) also on the model."
}

// c03CompactSize: the function the library writes its length prefixes with, on the lengths and counts no
// transaction of the harness can have (up to 2^64-1), against the CompactSize encoding of ref.go: every boundary of
// the four forms and random values of every bit length.
func c03CompactSize(r *Runner, _ *common.Rand) {
	c := r.C
	rnd := c03Rand(r, 0xc0303)
	vals := []uint64{0, 1, 0xfc, 0xfd, 0xfe, 0xff, 0x100, 0xfffe, 0xffff, 0x10000, 0x10001, 0x01020304, 0xffffff, 0x1000000,
		0xfffffffe, 0xffffffff, 0x100000000, 0x100000001, 0x0102030405060708, 1 << 40, 1 << 56, 1<<63 - 1, 1 << 63, 1<<64 - 2, 1<<64 - 1}
	n := 400
	if c.Thorough() {
		n = 20000
	}
	for i := 0; i < n; i++ {
		vals = append(vals, rnd.U64()>>uint(rnd.Intn(64)))
	}
	bad := 0
	for _, v := range vals {
		var got []byte
		var length int
		panicked, msg := common.Safely(func() { got = bt.VarInt(v).Bytes(); length = bt.VarInt(v).Length() })
		want := compact(v)
		if panicked || !bytes.Equal(got, want) || length != len(want) {
			if bad == 0 {
				what := fmt.Sprintf("value %d (0x%x): library writes %x (Length() = %d), CompactSize is %x", v, v, got, length, want)
				if panicked {
					what = fmt.Sprintf("value %d (0x%x): panic %s", v, v, msg)
				}
				c.Violate("CalcInputPreimageLegacy/length-prefix-differs-from-compact-size", what+" (VarInt.Bytes, the encoder of the input count, the output count and every script length of the legacy preimage)",
					map[string]interface{}{"value": v, "call": "bt.VarInt(value).Bytes()"})
			}
			bad++
		}
	}
	c.Tally("go-only/compact-size-values")
	c.Stats.Extra["c03_compact_size_values_checked"] = len(vals)
	c.Stats.Rule += " C03 length prefix: VarInt.Bytes against CompactSize on all form boundaries up to 2^64-1 and random values of every bit length (Go predicate)."
}
