package sighash

// C02 only: script code and output scripts whose LENGTH lies in the ranges the shared families never produce —
// the 5-byte CompactSize form (65536 bytes and more; four length bytes, so lengths with a non-zero third and
// fourth byte too), next to the last lengths of the 3-byte form.  The length prefix is the only part of the
// preimage whose encoding changes shape with the size of a field, and each of its forms is a separate branch
// of the code that writes it.
//
// Cost: a long script is one PUSHDATA4 of ONE repeated filler byte followed by a short tail, so that the Coq
// term is `repeat_byte n xNN` (a few tokens; literals are ingested at ~25 us per byte) and what the model has
// to do is hashing; each such case is a shard of its own and carries only a few calls.  Lengths from 2^24 on
// are stated in Go only (the independent reference of ref.go), not evaluated on the model.

import (
	"bytes"
	"encoding/binary"
	"fmt"
	"strings"

	"github.com/libsv/go-bt/v2"
	bsh "github.com/libsv/go-bt/v2/sighash"

	"verif/harness/common"
	"verif/harness/txgen"
)

func init() { Extra["C02"] = append(Extra["C02"], c02LongScripts, c02CompactSize) }

var c02Tail = []byte{0x75, 0x76, 0xa9, 0x14, 0xc0, 0xa3, 0xc1, 0x67, 0xa2, 0x8c, 0xab, 0xb9, 0xfb, 0xb4, 0x95, 0xaf, 0xfa, 0x07, 0x61, 0xe6, 0xe7, 0x4a, 0xc6, 0x0d, 0x88, 0xac}

// c02Long: a well-formed script of exactly n bytes (n >= 32): OP_PUSHDATA4 <n-31 bytes of fill> OP_DROP <P2PKH>.
func c02Long(n int, fill byte) []byte {
	payload := n - 5 - len(c02Tail)
	if payload < 0 {
		panic("c02Long: too short")
	}
	s := make([]byte, 0, n)
	s = append(s, 0x4e, 0, 0, 0, 0)
	binary.LittleEndian.PutUint32(s[1:5], uint32(payload))
	s = append(s, bytes.Repeat([]byte{fill}, payload)...)
	return append(s, c02Tail...)
}

// c02Abbrev: a script in hex as it is, when short; otherwise the recipe that reproduces it (c02Long) or, for a
// script of another make, its length, SHA-256 and both ends.
func c02Abbrev(h string) interface{} {
	if len(h) <= 400 {
		return h
	}
	b := common.Unhex(h)
	if len(b) >= 32 && b[0] == 0x4e && bytes.Equal(b, c02Long(len(b), b[5])) {
		return map[string]interface{}{"length": len(b), "script": fmt.Sprintf("4e %x (PUSHDATA4 of %d bytes) ++ %d x %02x ++ %x", b[1:5], len(b)-31, len(b)-31, b[5], c02Tail)}
	}
	return map[string]interface{}{"length": len(b), "sha256": common.Sha256Hex(b), "first_32": common.Hex(b[:32]), "last_32": common.Hex(b[len(b)-32:])}
}

// c02Compact: the transaction of a violation report / case twin with long scripts abbreviated.
func c02Compact(s txgen.TxSpec) interface{} {
	var ins, outs []interface{}
	for _, in := range s.Ins {
		ins = append(ins, map[string]interface{}{"txid": in.Txid, "vout": in.Vout, "seq": in.Seq, "sats": in.Sats,
			"unlock": c02Abbrev(in.Unlock), "unlock_nil": in.UnlockNil, "prev": c02Abbrev(in.Prev), "prev_nil": in.PrevNil})
	}
	for _, o := range s.Outs {
		outs = append(outs, map[string]interface{}{"sats": o.Sats, "script": c02Abbrev(o.Script)})
	}
	return map[string]interface{}{"version": s.Version, "lock": s.Lock, "ins": ins, "outs": outs}
}

// c02Diff: where two byte strings first differ (instead of printing megabytes).
func c02Diff(got, want []byte) string {
	i := 0
	for i < len(got) && i < len(want) && got[i] == want[i] {
		i++
	}
	win := func(b []byte) []byte {
		lo, hi := i-4, i+12
		if lo < 0 {
			lo = 0
		}
		if hi > len(b) {
			hi = len(b)
		}
		if lo > hi {
			lo = hi
		}
		return b[lo:hi]
	}
	return fmt.Sprintf("lengths %d (library) / %d (specification); first difference at byte %d: library ..%x.., specification ..%x..", len(got), len(want), i, win(got), win(want))
}

// c02One: what Runner.one does for one (index, hash type) on the FORKID path, with the transaction described by
// `desc` in reports and differences located rather than printed in full.
func (r *Runner) c02One(s txgen.TxSpec, desc interface{}, tx *bt.Tx, idx uint32, ht uint8) call {
	c := r.C
	k := call{Idx: idx, HT: ht}
	in := map[string]interface{}{"tx": desc, "index": idx, "hash_type": ht}
	c.InFlight("CalcInputPreimage/process-abort", in)
	before := snap(tx)

	var pre, hash []byte
	var err error
	panicked, msg := common.Safely(func() { pre, err = tx.CalcInputPreimage(idx, bsh.Flag(ht)) })
	k.PreCls = classify(err, panicked)
	if panicked {
		c.Violate("CalcInputPreimage/panic", msg, in)
	}
	if k.PreCls == ClsOK {
		k.PreLen, k.PreSha = len(pre), common.Sha256Hex(pre)
	}
	if !before.equal(snap(tx)) {
		c.Violate("CalcInputPreimage/mutates-tx", "transaction differs after the call", in)
	}
	var herr error
	panicked, msg = common.Safely(func() { hash, herr = tx.CalcInputSignatureHash(idx, bsh.Flag(ht)) })
	k.HashCls = classify(herr, panicked)
	if panicked {
		c.Violate("CalcInputSignatureHash/panic", msg, in)
	}
	if k.HashCls == ClsOK {
		k.Hash = common.Hex(hash)
	}
	if !before.equal(snap(tx)) {
		c.Violate("CalcInputSignatureHash/mutates-tx", "transaction differs after the call", in)
	}
	if k.PreCls == ClsOK && common.Sha256Hex(pre) != k.PreSha {
		c.Violate("CalcInputPreimage/returned-preimage-changes-after-later-calls", "the preimage returned no longer hashes to what it did after CalcInputSignatureHash ran on the same transaction", in)
	}

	want, wantCls := RefForkID(s, idx, uint32(ht))
	if k.PreCls != wantCls {
		c.Violate("CalcInputPreimage/error-class", fmt.Sprintf("class %d, specification says %d", k.PreCls, wantCls), in)
	} else if wantCls == ClsOK && !bytes.Equal(pre, want) {
		c.Violate("CalcInputPreimage/preimage-differs-from-specification", c02Diff(pre, want), in)
	}
	if k.HashCls != wantCls {
		c.Violate("CalcInputSignatureHash/error-class", fmt.Sprintf("class %d, specification says %d", k.HashCls, wantCls), in)
	} else if wantCls == ClsOK {
		if wantHash := dsha(want); !bytes.Equal(hash, wantHash) {
			c.Violate("CalcInputSignatureHash/hash-differs-from-specification", fmt.Sprintf("library %x, specification %x", hash, wantHash), in)
		}
	}
	c.Tally(fmt.Sprintf("call/class=%d", k.PreCls))
	return k
}

type c02Pair struct {
	idx uint32
	ht  uint8
}

// c02LongTx: 2 inputs, 2 outputs with boundary field values; code = length of the script code of input 0 (0: a
// short one), out = length of the locking script of output 1 (0: a short one).
func c02LongTx(rnd *common.Rand, code, out int) txgen.TxSpec {
	s := gen(rnd, 2, 2, false)
	for i := range s.Ins {
		s.Ins[i].PrevNil = false
		if s.Ins[i].Prev == "" {
			s.Ins[i].Prev = "51"
		}
	}
	if code > 0 {
		s.Ins[0].Prev = common.Hex(c02Long(code, byte(0x11+rnd.Intn(0xe0))))
	}
	if out > 0 {
		s.Outs[1].Script = common.Hex(c02Long(out, byte(0x11+rnd.Intn(0xe0))))
	}
	return s
}

// c02LongCase runs the pairs on one transaction object; model=true also emits the observations as a case.
func (r *Runner) c02LongCase(s txgen.TxSpec, pairs []c02Pair, what string, model bool) {
	c := r.C
	tx := Build(s)
	desc := c02Compact(s)
	var calls []call
	var cs []string
	for _, p := range pairs {
		k := r.c02One(s, desc, tx, p.idx, p.ht)
		calls = append(calls, k)
		cs = append(cs, k.coq())
	}
	c.Tally("case/long-scripts/" + what)
	if !model {
		c.Tally("go-only/long-scripts/" + what)
		return
	}
	ext := tx.ExtendedBytes()
	coq := fmt.Sprintf("CCalls false %s%%list %s [%s]", txgen.Coq(s), common.CoqStr(common.Sha256Hex(ext)), strings.Join(cs, ";\n "))
	twin := map[string]interface{}{"kind": "long-scripts/" + what, "tx": desc, "calls": len(calls), "first": calls[0]}
	c.Weigh(c.ShardBytes) // hashing some 10^5 bytes several times on the model: a shard of its own
	c.Case(coq, twin, fmt.Sprintf("long|%s|%d", common.Sha256Hex(ext), len(calls)), true)
}

func c02LongScripts(r *Runner, rnd *common.Rand) {
	c := r.C
	const (
		all, none, single = 0x41, 0x42, 0x43
		acp               = 0x80
	)
	// script code of the signed input: its length prefix is field 5 of the preimage
	codePairs := []c02Pair{{0, all}, {0, none}, {0, single | acp}, {0, 0x40 | acp}, {1, all}, {1, none | acp}}
	// output script: its length prefix goes into hashOutputs (every output under ALL, output 1 alone under SINGLE on input 1)
	outPairs := []c02Pair{{0, all}, {1, single}, {0, single}, {1, all | acp}, {1, single | acp}, {0, none}}
	both := []c02Pair{{0, all}, {1, single | acp}, {0, single}, {1, all | acp}}

	r.c02LongCase(c02LongTx(rnd, 65536, 0), codePairs, "script-code=65536", true)
	r.c02LongCase(c02LongTx(rnd, 0, 65536), outPairs, "output-script=65536", true)
	r.c02LongCase(c02LongTx(rnd, 65535, 65537), both, "script-code=65535,output-script=65537", true)
	r.c02LongCase(c02LongTx(rnd, 65537, 65535), both, "script-code=65537,output-script=65535", true)
	r.c02LongCase(c02LongTx(rnd, 0x1ff01, 0x20000), both, "script-code=130817,output-script=131072", true)
	if c.Thorough() {
		for _, n := range []int{70000, 0x1ffff, 0x20000, 0x30201, 0x7ff80} {
			r.c02LongCase(c02LongTx(rnd, n, 0), codePairs, fmt.Sprintf("script-code=%d", n), true)
			r.c02LongCase(c02LongTx(rnd, 0, n+1), outPairs, fmt.Sprintf("output-script=%d", n+1), true)
		}
	}
	// all four length bytes in use (Go reference only): 2^24 + 2^9 + 3 and its neighbours in the two fields
	r.c02LongCase(c02LongTx(rnd, 0x01000203, 0x01000302), both, "script-code=16777731,output-script=16777986 (go reference only)", false)
	if c.Thorough() || c.Mode == "search" {
		for k := 0; k < 6; k++ {
			n := 65536 + rnd.Intn(1<<uint(16+rnd.Intn(9)))
			m := 65536 + rnd.Intn(1<<uint(16+rnd.Intn(9)))
			r.c02LongCase(c02LongTx(rnd, n, m), both, "random lengths of 65536 bytes and more (go reference only)", false)
		}
	}
	c.Stats.Rule += " C02 long scripts: script code (input 0) and output script (output 1) of 65535, 65536, 65537, 0x1ff01, 0x20000 bytes (last length of the 3-byte CompactSize form, first ones of the 5-byte form, a length with three non-zero bytes; thorough also 70000, 0x1ffff, 0x30201, 0x7ff80 and their successors), built as PUSHDATA4 of one repeated byte + OP_DROP + P2PKH so that the Coq term stays small, each x ALL / NONE / SINGLE / base type 0 with and without ANYONECANPAY on both inputs (4-6 calls per case, one shard per case); 2^24-range lengths (all four length bytes non-zero in one field or the other) against the Go reference only."
}

// c02CompactSize: the function the library writes its length prefixes with, on the lengths no script of the
// harness can have (up to 2^64-1), against the CompactSize encoding of ref.go: every boundary of the four forms
// and random values of every bit length.
func c02CompactSize(r *Runner, rnd *common.Rand) {
	c := r.C
	vals := []uint64{0, 1, 0xfc, 0xfd, 0xfe, 0xff, 0x100, 0xfffe, 0xffff, 0x10000, 0x10001, 0x01020304, 0xffffff, 0x1000000,
		0xfffffffe, 0xffffffff, 0x100000000, 0x100000001, 0x0102030405060708, 1 << 40, 1 << 56, 1<<63 - 1, 1 << 63, 1<<64 - 2, 1<<64 - 1}
	n := 400
	if c.Thorough() {
		n = 20000
	}
	for i := 0; i < n; i++ {
		vals = append(vals, rnd.U64()>>uint(rnd.Intn(64)))
	}
	bad := 0
	for _, v := range vals {
		var got []byte
		panicked, msg := common.Safely(func() { got = bt.VarInt(v).Bytes() })
		want := compact(v)
		if panicked || !bytes.Equal(got, want) {
			if bad == 0 {
				what := fmt.Sprintf("length %d (0x%x): library writes %x, CompactSize is %x", v, v, got, want)
				if panicked {
					what = fmt.Sprintf("length %d (0x%x): panic %s", v, v, msg)
				}
				c.Violate("CalcInputPreimage/length-prefix-differs-from-compact-size", what+" (VarInt.Bytes, the encoder of the length of the script code and of every output script in the preimage)",
					map[string]interface{}{"length": v, "call": "bt.VarInt(length).Bytes()"})
			}
			bad++
		}
	}
	c.Tally("go-only/compact-size-values")
	c.Stats.Extra["c02_compact_size_values_checked"] = len(vals)
	c.Stats.Rule += " C02 length prefix: VarInt.Bytes against CompactSize on all form boundaries up to 2^64-1 and random values of every bit length (Go predicate)."
}
