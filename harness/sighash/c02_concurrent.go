package sighash

// C02 only: digests computed AT THE SAME TIME.  The property quantifies over every transaction, index and type;
// nothing in it lets the answer for one transaction depend on what else the process is computing.  State that
// outlives a call — a package-level scratch buffer, a cache, a field written and put back — cannot be seen by
// calls made one after the other when each call leaves it consistent; it shows as soon as two computations overlap.
//
//   A. unrelated transactions: each goroutine owns its transaction object (nothing is shared between them) and
//      computes preimages and signature hashes for a fixed list of (index, type); every result must be the
//      one the independent reference gives for THAT transaction;
//   B. one transaction, its inputs signed in parallel: the goroutines share one object and each works on its own
//      input index (read-only use: "computing the hash leaves the transaction unchanged").
//
// The calls are first made sequentially (Runner.one: the usual predicates; these observations are the Coq cases,
// so the case files do not depend on scheduling), then concurrently.  Transactions of 1..100 inputs: the longer
// the serialisation of outpoints and sequence numbers, the wider the window in which two computations overlap.

import (
	"bytes"
	"fmt"
	"runtime"
	"strings"
	"sync"
	"sync/atomic"

	"github.com/libsv/go-bt/v2"
	bsh "github.com/libsv/go-bt/v2/sighash"

	"verif/harness/common"
	"verif/harness/txgen"
)

func init() { Extra["C02"] = append(Extra["C02"], c02Concurrent) }

type c02Job struct {
	spec  txgen.TxSpec
	tx    *bt.Tx
	pairs []c02Pair
	pre   [][]byte // reference preimage per pair
	hash  [][]byte // reference signature hash per pair
}

type c02Miss struct {
	worker, round int
	pair          c02Pair
	api, what     string
}

// c02Race runs the jobs concurrently, `rounds` passes over each job's pairs; returns the first deviation of
// the lowest-numbered worker that saw one (all workers stop at the first deviation anywhere).
func c02Race(jobs []*c02Job, rounds int) (*c02Miss, int) {
	var stop int32
	var calls int64
	miss := make([]*c02Miss, len(jobs))
	var wg sync.WaitGroup
	start := make(chan struct{})
	for w := range jobs {
		wg.Add(1)
		go func(w int) {
			defer wg.Done()
			j := jobs[w]
			<-start
			n := 0
			defer func() { atomic.AddInt64(&calls, int64(n)) }()
			for rd := 0; rd < rounds && atomic.LoadInt32(&stop) == 0; rd++ {
				for pi, p := range j.pairs {
					var pre, hash []byte
					var err, herr error
					panicked, msg := common.Safely(func() {
						pre, err = j.tx.CalcInputPreimage(p.idx, bsh.Flag(p.ht))
						hash, herr = j.tx.CalcInputSignatureHash(p.idx, bsh.Flag(p.ht))
					})
					n += 2
					var m *c02Miss
					switch {
					case panicked:
						m = &c02Miss{w, rd, p, "CalcInputPreimage", "panic: " + msg}
					case err != nil:
						m = &c02Miss{w, rd, p, "CalcInputPreimage", "error " + err.Error()}
					case !bytes.Equal(pre, j.pre[pi]):
						m = &c02Miss{w, rd, p, "CalcInputPreimage", c02Diff(pre, j.pre[pi])}
					case herr != nil:
						m = &c02Miss{w, rd, p, "CalcInputSignatureHash", "error " + herr.Error()}
					case !bytes.Equal(hash, j.hash[pi]):
						m = &c02Miss{w, rd, p, "CalcInputSignatureHash", fmt.Sprintf("library %x, specification %x", hash, j.hash[pi])}
					}
					if m != nil {
						miss[w] = m
						atomic.StoreInt32(&stop, 1)
						return
					}
				}
			}
		}(w)
	}
	close(start)
	wg.Wait()
	for _, m := range miss {
		if m != nil {
			return m, int(calls)
		}
	}
	return nil, int(calls)
}

func c02Concurrent(r *Runner, rnd *common.Rand) {
	c := r.C
	if prev := runtime.GOMAXPROCS(0); prev < 4 {
		runtime.GOMAXPROCS(4) // overlap needs threads; on a small machine the scheduler's preemption has to do
		defer runtime.GOMAXPROCS(prev)
	}
	types := []uint8{0x41, 0x42, 0x43, 0xc1, 0xc3, 0x40, 0x5f, 0xc2}
	sizes := [][2]int{{1, 1}, {2, 2}, {3, 1}, {5, 3}, {8, 8}, {13, 2}, {40, 3}, {100, 4}}
	rounds := 300
	if c.Thorough() {
		rounds = 3000
	}
	mk := func(nin, nout int) txgen.TxSpec {
		s := gen(rnd, nin, nout, false)
		for i := range s.Ins {
			s.Ins[i].PrevNil = false
		}
		return s
	}
	// prepare: sequential calls through Runner.one (predicates + Coq case), references from ref.go
	prepare := func(s txgen.TxSpec, tx *bt.Tx, pairs []c02Pair, kind string) *c02Job {
		j := &c02Job{spec: s, tx: tx, pairs: pairs}
		var cs []string
		var first call
		for i, p := range pairs {
			k := r.one(s, tx, p.idx, p.ht)
			if i == 0 {
				first = k
			}
			cs = append(cs, k.coq())
			want, cls := RefForkID(s, p.idx, uint32(p.ht))
			if cls != ClsOK {
				panic("c02Concurrent: a pair that the reference refuses")
			}
			j.pre = append(j.pre, want)
			j.hash = append(j.hash, dsha(want))
		}
		r.checkKept()
		ext := tx.ExtendedBytes()
		coq := fmt.Sprintf("CCalls false %s%%list %s [%s]", txgen.Coq(s), common.CoqStr(common.Sha256Hex(ext)), strings.Join(cs, ";\n "))
		c.Case(coq, map[string]interface{}{"kind": kind, "tx": s, "calls": len(pairs), "first": first}, fmt.Sprintf("%s|%x|%d|%d", kind, ext, pairs[0].idx, len(pairs)), true)
		c.Tally(fmt.Sprintf("case/%s/in=%d/out=%d", kind, len(s.Ins), len(s.Outs)))
		return j
	}
	report := func(site, how string, jobs []*c02Job, m *c02Miss) {
		j := jobs[m.worker]
		var others []interface{}
		for w, o := range jobs {
			if w != m.worker && o.tx != j.tx {
				others = append(others, o.spec)
			}
		}
		c.Violate("CalcInputPreimage/"+site, fmt.Sprintf("%s; pass %d of goroutine %d, %s: %s (the same call made alone gives the specification's result)", how, m.round, m.worker, m.api, m.what),
			map[string]interface{}{"tx": j.spec, "index": m.pair.idx, "hash_type": m.pair.ht, "concurrently": how, "goroutines": len(jobs),
				"transactions_of_the_other_goroutines": others})
	}

	// A. unrelated transactions
	var jobs []*c02Job
	for _, sz := range sizes {
		s := mk(sz[0], sz[1])
		var pairs []c02Pair
		for i, ht := range types {
			idx := uint32(0)
			if i%2 == 1 {
				idx = uint32(sz[0] - 1)
			}
			pairs = append(pairs, c02Pair{idx, ht})
		}
		jobs = append(jobs, prepare(s, Build(s), pairs, "concurrent/own-transaction"))
	}
	snaps := make([]snapshot, len(jobs))
	for i, j := range jobs {
		snaps[i] = snap(j.tx)
	}
	m, n := c02Race(jobs, rounds)
	c.Stats.Extra["c02_concurrent_calls_unrelated_transactions"] = n
	if m != nil {
		report("concurrent-calls-on-unrelated-transactions-differ", "every goroutine computes digests of its own transaction object at the same time", jobs, m)
	}
	for i, j := range jobs {
		if !snaps[i].equal(snap(j.tx)) {
			c.Violate("CalcInputPreimage/mutates-tx", "transaction differs after concurrent calls on other transactions", map[string]interface{}{"tx": j.spec})
		}
	}

	// B. one transaction object, every goroutine on its own input index
	s := mk(8, 8)
	tx := Build(s)
	before := snap(tx)
	jobs = nil
	for w := 0; w < 8; w++ {
		var pairs []c02Pair
		for _, ht := range types {
			pairs = append(pairs, c02Pair{uint32(w), ht})
		}
		kind := "concurrent/shared-transaction"
		jobs = append(jobs, prepare(s, tx, pairs, kind))
	}
	m, n = c02Race(jobs, rounds)
	c.Stats.Extra["c02_concurrent_calls_one_transaction"] = n
	if m != nil {
		report("concurrent-calls-on-one-transaction-differ", "the inputs of one transaction object are hashed in parallel, one goroutine per input index", jobs, m)
	}
	if !before.equal(snap(tx)) {
		c.Violate("CalcInputPreimage/mutates-tx", "transaction differs after its inputs were hashed in parallel", map[string]interface{}{"tx": s})
	}
	c.Tally("go-only/concurrent-phases")
	c.Stats.Rule += fmt.Sprintf(" C02 concurrency: 8 goroutines x %d passes x 8 (index, type) pairs x {CalcInputPreimage, CalcInputSignatureHash}, (A) each on its own transaction (1, 2, 3, 5, 8, 13, 40, 100 inputs), (B) all on one 8-input transaction, one input index each; every result compared with the Go reference; the same calls made sequentially beforehand are the Coq cases.", rounds)
}
