package sighash

// C03 only: script codes whose BYTES matter as bytes.
//
// The property: the signed input carries "arbitrary script codes taken verbatim from the input's recorded previous
// script (code-separator stripping is the caller's job)".  The original algorithm has steps that DO look into the
// script code - OP_CODESEPARATOR removal, FindAndDelete of the signature - and a digest function that "helpfully"
// performs one of them (or stops at OP_RETURN, or at a push that does not fit, or re-encodes pushes minimally) agrees
// with the property on every script that does not contain the bytes concerned.  The shared families draw their
// scripts uniformly at random, 0..34 bytes: a given opcode value at an OPCODE position of a previous script is a
// matter of luck there (a third of the random bytes are push opcodes that swallow what follows).
//
// Here the scripts are built opcode by opcode:
//   - for a byte value b of interest (0xab OP_CODESEPARATOR, 0x6a OP_RETURN, 0x00, the PUSHDATA opcodes, OP_IF /
//     OP_ENDIF, the CHECKSIG family, 0x50, 0x4f, 0xff ...): b as the only opcode, first, last, in the middle, repeated,
//     between the parts of a P2PKH whose pushed hash contains b; b inside the data of a direct push / PUSHDATA1 /
//     PUSHDATA2 / PUSHDATA4 (at the start, the end, everywhere) with and without b as an opcode next to it; b behind a
//     push whose data does not fit (so that "opcode position" is a matter of how the walker treats the misfit);
//   - every opcode value 0x00..0xff once, at an opcode position (three scripts: the non-push opcodes in order, every
//     direct push 1..75 with data made of 0xab, the three PUSHDATA forms);
//   - the unlocking script's pushes (a signature, a key) occurring in the script code (FindAndDelete);
//   - random scripts over an alphabet in which those bytes and short pushes are frequent.
// They are recorded as previous scripts of every input (so each is the script code once and a blanked script
// otherwise), and also stand as output scripts and unlocking scripts (which are serialised verbatim, resp. blanked).
// Every in-range index x all 128 legacy types goes through Runner.one (independent reference, takes the script
// verbatim); one more predicate names the fault: the recorded script, behind its length, occurs in the preimage.
// Coq: one value-level case per transaction (7 types per index) on the model, which takes the script verbatim too.

import (
	"bytes"
	"encoding/binary"
	"fmt"
	"strings"

	bsh "github.com/libsv/go-bt/v2/sighash"

	"verif/harness/common"
	"verif/harness/txgen"
)

func init() { Extra["C03"] = append(Extra["C03"], c03ScriptCodeBytes) }

type c03Script struct {
	what string
	b    []byte
}

func c03Cat(parts ...[]byte) []byte {
	var o []byte
	for _, p := range parts {
		o = append(o, p...)
	}
	return o
}

// c03Push: data behind the push opcode of the given form (0: direct, 1/2/4: PUSHDATA1/2/4)
func c03Push(form int, data []byte) []byte {
	switch form {
	case 1:
		return c03Cat([]byte{0x4c, byte(len(data))}, data)
	case 2:
		l := make([]byte, 2)
		binary.LittleEndian.PutUint16(l, uint16(len(data)))
		return c03Cat([]byte{0x4d}, l, data)
	case 4:
		l := make([]byte, 4)
		binary.LittleEndian.PutUint32(l, uint32(len(data)))
		return c03Cat([]byte{0x4e}, l, data)
	}
	if len(data) == 0 || len(data) > 75 {
		panic("c03Push: direct push of 1..75 bytes")
	}
	return c03Cat([]byte{byte(len(data))}, data)
}

// c03P2PKH: a P2PKH whose 20-byte hash contains b at its start, in the middle (twice) and at its end
func c03P2PKH(b byte, rnd *common.Rand) []byte {
	h := rnd.Bytes(20)
	h[0], h[9], h[10], h[19] = b, b, b, b
	return c03Cat([]byte{0x76, 0xa9, 0x14}, h, []byte{0x88, 0xac})
}

// c03Patterns: the scripts built around the byte value b
func c03Patterns(b byte, rnd *common.Rand) []c03Script {
	n := fmt.Sprintf("%02x", b)
	data := func(k int, pos string) []byte { // k bytes of data, none of them b except where pos says
		d := rnd.Bytes(k)
		if k == 0 {
			return d
		}
		for i := range d {
			if d[i] == b {
				d[i] ^= 0x11
			}
		}
		switch pos {
		case "start":
			d[0] = b
		case "end":
			d[k-1] = b
		case "middle":
			d[k/2] = b
		case "all":
			for i := range d {
				d[i] = b
			}
		}
		return d
	}
	pk := c03P2PKH(b, rnd)
	return []c03Script{
		{n + " alone", []byte{b}},
		{n + " first", []byte{b, 0x51}},
		{n + " last", []byte{0x51, b}},
		{n + " three times", []byte{b, b, b}},
		{n + " as an opcode before, between and after OP_1 OP_DROP <P2PKH with " + n + " in the hash> OP_1", c03Cat([]byte{0x51, b, 0x75}, pk, []byte{b, 0x51})},
		{n + " only inside the hash of a P2PKH", pk},
		{n + " at the start of direct push data", c03Cat(c03Push(0, data(5, "start")), []byte{0x87})},
		{n + " at the end of direct push data, and as the next opcode", c03Cat(c03Push(0, data(7, "end")), []byte{b, 0x51})},
		{n + " all of a direct push, between two opcodes " + n, c03Cat([]byte{b}, c03Push(0, data(3, "all")), []byte{b})},
		{n + " inside PUSHDATA1 data", c03Cat([]byte{0x51}, c03Push(1, data(9, "middle")), []byte{0x75})},
		{n + " inside PUSHDATA2 data, then as an opcode", c03Cat(c03Push(2, data(6, "all")), []byte{b})},
		{n + " inside PUSHDATA4 data, after the opcode", c03Cat([]byte{b}, c03Push(4, data(4, "start")))},
		{n + " behind a direct push that does not fit", []byte{0x05, b, b}},
		{n + " behind a PUSHDATA1 whose data does not fit", []byte{b, 0x4c, 0x09, b, 0x51, b}},
		{n + " behind a PUSHDATA2 without its length", []byte{0x51, b, 0x4d, b}},
		{n + " behind a PUSHDATA4 of 2^32-1 bytes", []byte{b, 0x4e, 0xff, 0xff, 0xff, 0xff, b, 0x51, b}},
		{n + " in the length byte of a PUSHDATA1", c03Cat([]byte{0x4c, b}, data(int(b), "end"), []byte{b})},
	}
}

// c03EveryOpcode: three scripts in which every opcode value stands once at an opcode position
func c03EveryOpcode() []c03Script {
	var plain, direct []byte
	for op := 0; op < 256; op++ {
		if op == 0 || op > 0x4e {
			plain = append(plain, byte(op))
		}
	}
	for op := 1; op <= 75; op++ {
		direct = append(direct, c03Push(0, bytes.Repeat([]byte{0xab}, op))...)
		direct = append(direct, 0xab) // and the opcode itself behind every push
	}
	forms := c03Cat(c03Push(1, bytes.Repeat([]byte{0xab}, 76)), []byte{0xab}, c03Push(2, bytes.Repeat([]byte{0xab}, 256)), []byte{0xab},
		c03Push(4, bytes.Repeat([]byte{0xab}, 3)), []byte{0xab, 0x6a, 0xab}, c03Push(1, nil), c03Push(2, nil), c03Push(4, nil), []byte{0xab})
	return []c03Script{
		{"every non-push opcode 0x00, 0x4f..0xff in order", plain},
		{"every direct push 1..75 of bytes ab, each followed by the opcode ab", direct},
		{"PUSHDATA1 / PUSHDATA2 / PUSHDATA4 of bytes ab (and empty ones), the opcodes ab and OP_RETURN around them", forms},
	}
}

// c03RandomOpcodes: 1..40 bytes over an alphabet in which the bytes of interest and short pushes are frequent
func c03RandomOpcodes(rnd *common.Rand) []byte {
	n := 1 + rnd.Intn(40)
	o := make([]byte, 0, n)
	for len(o) < n {
		switch x := rnd.Intn(100); {
		case x < 25:
			o = append(o, 0xab)
		case x < 35:
			o = append(o, 0x6a)
		case x < 55:
			o = append(o, byte(rnd.Pick([]int{0x00, 0x01, 0x02, 0x03, 0x04, 0x4c, 0x4d, 0x4e, 0x4f})))
		case x < 65:
			o = append(o, byte(rnd.Pick([]int{0x63, 0x67, 0x68, 0xac, 0xad, 0xae, 0xaf, 0x87, 0x88})))
		default:
			o = append(o, byte(rnd.Intn(256)))
		}
	}
	return o
}

// the types whose observations go to the model: every base type, each with ANYONECANPAY (what is done with the
// script code does not depend on the type; all 128 are compared with the reference in Go)
var c03ScCoqTypes = map[uint8]bool{0x00: true, 0x01: true, 0x02: true, 0x03: true, 0x81: true, 0x82: true, 0x83: true}

var c03ScStat struct{ Txs, Scripts, Calls, WithAB, NotVerbatim int }

// c03BytesCase: the scripts as previous scripts of the inputs of one transaction (and as output / unlocking scripts)
func (r *Runner) c03BytesCase(rnd *common.Rand, prev []c03Script, others []c03Script, kind string) {
	defer r.checkKept()
	c := r.C
	nout := 1 + rnd.Intn(3)
	if rnd.Chance(20) {
		nout = len(prev) + 1 // SINGLE has its output on every input
	}
	s := gen(rnd, len(prev), nout, false)
	var names []string
	for i := range s.Ins {
		s.Ins[i].Prev, s.Ins[i].PrevNil = common.Hex(prev[i].b), false
		names = append(names, prev[i].what)
		if len(others) > 0 && rnd.Chance(50) { // an unlocking script of the same make (blanked, or replaced by the script code)
			s.Ins[i].Unlock, s.Ins[i].UnlockNil = common.Hex(others[rnd.Intn(len(others))].b), false
		}
	}
	for j := range s.Outs {
		if len(others) > 0 && (j == 0 || rnd.Chance(50)) { // output scripts of the same make (serialised verbatim)
			s.Outs[j].Script = common.Hex(others[rnd.Intn(len(others))].b)
		}
	}
	tx := Build(s)
	fam := r.family()
	var coqCalls []string
	var first call
	okAny := false
	for i := range s.Ins {
		code := prev[i].b
		for _, ht := range fam {
			k := r.one(s, tx, uint32(i), ht)
			c03ScStat.Calls++
			if k.PreCls == ClsOK {
				okAny = true
				single := ht&0x1f == 3 && i >= len(s.Outs)
				if !single {
					// the predicate that names the fault: the recorded script is in the preimage as it is
					var pre []byte
					var err error
					common.Safely(func() { pre, err = tx.CalcInputPreimageLegacy(uint32(i), bsh.Flag(ht)) })
					if err == nil && !bytes.Contains(pre, withLen(code)) && c03ScStat.NotVerbatim < 5 { // (the first few; Runner.one has reported every one of them as a difference from the reference)
						c03ScStat.NotVerbatim++
						c.Violate("CalcInputPreimageLegacy/script-code-not-verbatim",
							fmt.Sprintf("the recorded previous script of the signed input (%d bytes: %x; %s), preceded by its length, does not occur in the preimage %x", len(code), code, prev[i].what, pre),
							map[string]interface{}{"tx": s, "index": i, "hash_type": ht})
					}
				}
			}
			if c03ScCoqTypes[ht] {
				if len(coqCalls) == 0 {
					first = k
				}
				coqCalls = append(coqCalls, k.coq())
			}
		}
		c03ScStat.Scripts++
		if bytes.IndexByte(code, 0xab) >= 0 {
			c03ScStat.WithAB++
		}
	}
	after := common.Sha256Hex(tx.ExtendedBytes())
	twin := map[string]interface{}{"kind": "script-code-bytes/" + kind, "tx": s, "previous_scripts": names, "calls": len(coqCalls), "first": first}
	key := fmt.Sprintf("scb|%x", tx.ExtendedBytes())
	c.Case(fmt.Sprintf("CCalls true %s%%list %s [%s]", txgen.Coq(s), common.CoqStr(after), strings.Join(coqCalls, ";\n ")), twin, key, okAny)
	c.Tally("case/script-code-bytes/" + kind)
	c03ScStat.Txs++
}

func c03ScriptCodeBytes(r *Runner, _ *common.Rand) {
	c := r.C
	rnd := c03Rand(r, 0xc0304)
	primary := []byte{0xab, 0x6a}
	secondary := []byte{0x00, 0x4c, 0x4d, 0x4e, 0x4f, 0x50, 0x61, 0x63, 0x68, 0x87, 0xac, 0xad, 0xae, 0xaf, 0xba, 0xff}
	var scripts []c03Script
	for _, b := range primary {
		scripts = append(scripts, c03Patterns(b, rnd)...)
	}
	for k, b := range secondary {
		ps := c03Patterns(b, rnd)
		if c.Thorough() {
			scripts = append(scripts, ps...)
			continue
		}
		for j := 0; j < 3; j++ { // quick: three of the patterns, another three for the next byte value
			scripts = append(scripts, ps[(3*k+5*j)%len(ps)])
		}
	}
	group := func(all []c03Script, kind string) {
		for i := 0; i < len(all); i += 3 {
			j := i + 3
			if j > len(all) {
				j = len(all)
			}
			r.c03BytesCase(rnd, all[i:j], scripts, kind)
		}
	}
	group(scripts, "opcode-value-by-position")
	group(c03EveryOpcode(), "every-opcode-value")

	// the pushes of the unlocking script occur in the script code (what FindAndDelete would remove)
	{
		sig := c03Cat(rnd.Bytes(70), []byte{0x01})
		sig[0], sig[1] = 0x30, 0x44
		key := c03Cat([]byte{0x02}, rnd.Bytes(32))
		unlock := c03Cat(c03Push(0, sig), c03Push(0, key))
		prev := []c03Script{
			{"<sig> OP_CHECKSIG, the unlocking script pushes the same <sig>", c03Cat(c03Push(0, sig), []byte{0xac})},
			{"<sig> <key> OP_CODESEPARATOR <key> OP_CHECKSIG <sig>: the unlocking script's pushes, twice", c03Cat(unlock, []byte{0xab}, c03Push(0, key), []byte{0xac}, c03Push(0, sig))},
			{"the script code IS the unlocking script", unlock},
		}
		r.c03BytesCase(rnd, prev, []c03Script{{"<sig> <key>", unlock}}, "unlocking-pushes-in-script-code")
	}
	nRandom := 4
	if c.Thorough() {
		nRandom = 300
	}
	if c.Mode == "search" {
		nRandom += 60
	}
	for k := 0; k < nRandom; k++ {
		var prev []c03Script
		for i := 1 + rnd.Intn(3); i > 0; i-- {
			prev = append(prev, c03Script{"random over the opcode alphabet", c03RandomOpcodes(rnd)})
		}
		r.c03BytesCase(rnd, prev, append([]c03Script{{"random", c03RandomOpcodes(rnd)}}, scripts[:8]...), "random-opcodes")
	}
	c.Stats.Extra["c03_script_code_bytes"] = map[string]int{"transactions": c03ScStat.Txs, "script_codes": c03ScStat.Scripts,
		"script_codes_containing_0xab": c03ScStat.WithAB, "calls": c03ScStat.Calls}
	c.Stats.Rule += " C03 script-code bytes (c03_scriptcode.go): previous scripts built opcode by opcode - for 0xab (OP_CODESEPARATOR), 0x6a (OP_RETURN) and 16 more byte values (0x00, PUSHDATA1/2/4, 0x4f, 0x50, OP_NOP, OP_IF / OP_ENDIF, OP_EQUAL, the CHECKSIG family, 0xba, 0xff): the value as the only opcode, first, last, in the middle, repeated, around a P2PKH whose hash contains it, inside direct / PUSHDATA1 / PUSHDATA2 / PUSHDATA4 data at the start, the end and throughout with and without the opcode next to it, behind pushes whose data does not fit (17 patterns; quick: all for 0xab and 0x6a, three per other value);" +
		" every opcode value 0x00..0xff once at an opcode position (three scripts); the unlocking script's pushes inside the script code; random scripts over an alphabet rich in those values - three per transaction as previous scripts of its inputs, also as output and unlocking scripts, x every in-range index x all 128 types against the reference (which takes the script verbatim), plus the predicate `the recorded script behind its length occurs in the preimage`; one value-level case per transaction (7 types per index) on the model."
}
