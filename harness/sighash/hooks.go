package sighash

import "verif/harness/common"

// Extra: families of cases that belong to ONE of the properties served by Run (key: the property id, "C02" / "C03").
// They are registered from an init() of a file named after the property (c02_*.go, c03_*.go) and run after Run's
// shared families, on the same Runner and the same random stream, before the statistics are written; a family may
// append to r.C.Stats.Rule.  Nothing registered for a property: Run behaves as before.
var Extra = map[string][]func(r *Runner, rnd *common.Rand){}
