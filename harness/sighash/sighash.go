// Package sighash: shared body of the C02 (FORKID) and C03 (legacy) harness commands.
//
//   - runs go-bt's CalcInputPreimage / CalcInputPreimageLegacy / CalcInputSignatureHash on generated
//     transactions x all 128 hash types of the family x every input index (in range, first
//     out-of-range ones, and the values that turn negative as int32), and writes what was observed
//     as Gallina cases for coq/corr/SigHashCorr.v;
//   - states the property directly in Go on every call: the library's preimage is compared with
//     an independent field-by-field re-assembly (ref.go, built from the generator's spec, not from
//     go-bt types), the hash with its double SHA-256, the error class with the expected one, and
//     the transaction (fields and ExtendedBytes) before with after;
//   - turns the node's sighash vectors into cases evaluated against the Coq SPECIFICATION.
package sighash

import (
	"bytes"
	"crypto/sha256"
	"encoding/json"
	"errors"
	"fmt"
	"os"
	"reflect"
	"strings"
	"unsafe"

	"github.com/libsv/go-bt/v2"
	"github.com/libsv/go-bt/v2/bscript"
	bsh "github.com/libsv/go-bt/v2/sighash"

	"verif/harness/common"
	"verif/harness/txgen"
)

const Header = `From Coq Require Import List NArith String.
From Coq Require Import Strings.Byte.
From GoBT Require Import lib.Bytes lib.Hex model.Tx corr.%s.
Import ListNotations. Local Open Scope N_scope. Local Open Scope string_scope.
`

// classes of outcome (the only distinction between errors the properties make)
const (
	ClsOK            = 0
	ClsInputMissing  = 1
	ClsTxidMissing   = 2
	ClsScriptMissing = 3
	ClsOtherErr      = 8
	ClsPanic         = 9
)

func classify(err error, panicked bool) int {
	switch {
	case panicked:
		return ClsPanic
	case err == nil:
		return ClsOK
	case errors.Is(err, bt.ErrInputNoExist):
		return ClsInputMissing
	case errors.Is(err, bt.ErrEmptyPreviousTxID):
		return ClsTxidMissing
	case errors.Is(err, bt.ErrEmptyPreviousTxScript):
		return ClsScriptMissing
	}
	return ClsOtherErr
}

// Build constructs the *bt.Tx through the public API; an input whose Txid is "" has no previous
// txid recorded (txgen.Build insists on 32 bytes).
// arena: every script of a built transaction is a window on ONE buffer, laid out one after the other in the order
// outputs' scripts, previous scripts, unlocking scripts (as when they are sliced, without copying, out of raw
// transactions): each has spare capacity, and what lies in that capacity is the next script. An append onto a
// script, or a write past its end, shows as a change of the transaction.
type arena struct{ buf []byte }

func (a *arena) put(b []byte) []byte {
	n := len(a.buf)
	a.buf = append(a.buf, b...)
	return a.buf[n:len(a.buf)]
}

// Build makes the transaction of a spec; every other call lays its scripts out in one arena.
var buildCount int

func Build(s txgen.TxSpec) *bt.Tx {
	tx := build(s)
	buildCount++
	if buildCount%2 == 0 {
		total := 0
		for _, in := range tx.Inputs {
			if in.UnlockingScript != nil {
				total += len(*in.UnlockingScript)
			}
			if in.PreviousTxScript != nil {
				total += len(*in.PreviousTxScript)
			}
		}
		for _, o := range tx.Outputs {
			total += len(*o.LockingScript)
		}
		a := &arena{buf: make([]byte, 0, total+64)}
		for _, o := range tx.Outputs {
			o.LockingScript = bscript.NewFromBytes(a.put(*o.LockingScript))
		}
		for _, in := range tx.Inputs {
			if in.PreviousTxScript != nil {
				in.PreviousTxScript = bscript.NewFromBytes(a.put(*in.PreviousTxScript))
			}
		}
		for _, in := range tx.Inputs {
			if in.UnlockingScript != nil {
				in.UnlockingScript = bscript.NewFromBytes(a.put(*in.UnlockingScript))
			}
		}
		a.put(make([]byte, 64)) // the last script has something after it too
	}
	return tx
}

func build(s txgen.TxSpec) *bt.Tx {
	tx := &bt.Tx{Version: s.Version, LockTime: s.Lock}
	for _, in := range s.Ins {
		i := &bt.Input{PreviousTxOutIndex: in.Vout, SequenceNumber: in.Seq, PreviousTxSatoshis: in.Sats}
		if in.Txid != "" {
			if err := i.PreviousTxIDAdd(common.Unhex(in.Txid)); err != nil {
				panic(err)
			}
		}
		if !in.UnlockNil {
			i.UnlockingScript = bscript.NewFromBytes(common.Unhex(in.Unlock))
		}
		if !in.PrevNil {
			i.PreviousTxScript = bscript.NewFromBytes(common.Unhex(in.Prev))
		}
		tx.Inputs = append(tx.Inputs, i)
	}
	for _, o := range s.Outs {
		tx.Outputs = append(tx.Outputs, &bt.Output{Satoshis: o.Sats, LockingScript: bscript.NewFromBytes(common.Unhex(o.Script))})
	}
	return tx
}

type call struct {
	Idx     uint32 `json:"idx"`
	HT      uint8  `json:"ht"`
	PreCls  int    `json:"pre_cls"`
	PreLen  int    `json:"pre_len"`
	PreSha  string `json:"pre_sha"`
	HashCls int    `json:"hash_cls"`
	Hash    string `json:"hash"`
}

func (k call) coq() string {
	return fmt.Sprintf("mkCall %d %d %d %d %s %d %s", k.Idx, k.HT, k.PreCls, k.PreLen, common.CoqStr(k.PreSha), k.HashCls, common.CoqStr(k.Hash))
}

type Runner struct {
	C      *common.Ctx
	Legacy bool
	api    string
	kept   []keptPre
	share  shareStats
}

// shareStats: what Tx.Clone's result shares with the original, by pointer identity (the premise of the
// pointer-level frame theorem, coq/model/SigHeap.v clone_deep / proofs/SigHeapProofs.v fresh_clone: the Tx
// struct, every *Input, every *Output and the UnlockingScript / LockingScript cells of the clone are new;
// the PreviousTxScript pointers are the original's - tx.go copies the pointer)
type shareStats struct {
	Clones, Objects              int // clones examined; *Input + *Output + Unlocking/LockingScript pointers and byte arrays compared
	SharedStruct                 int // clone == original, or a slice of pointers with the original's backing array
	SharedInput, SharedOutput    int // *Input / *Output of the clone that is one of the original's
	SharedUnlock, SharedLock     int // *bscript.Script (or its byte array) of the clone that is one of the original's
	PrevScriptSame, PrevScriptNew int // PreviousTxScript pointer of input j: the original's input j's / any other non-nil pointer
}

func dataPtr(s *bscript.Script) unsafe.Pointer {
	if s == nil || len(*s) == 0 {
		return nil
	}
	return unsafe.Pointer(&(*s)[0])
}

// observeClone: pointer identities of tx.Clone() against tx.  Reads only; the clone is dropped.
func (r *Runner) observeClone(s txgen.TxSpec, tx *bt.Tx) {
	// Clone ends the process (log.Fatal) when the transaction's own bytes do not re-parse: no inputs (the
	// extended-format marker ambiguity) or a previous txid that is not 32 bytes; and Bytes() dereferences
	// every LockingScript.  Only transactions outside those shapes are cloned here.
	if len(tx.Inputs) == 0 {
		return
	}
	for _, i := range tx.Inputs {
		if i == nil || len(i.PreviousTxID()) != 32 {
			return
		}
	}
	for _, o := range tx.Outputs {
		if o == nil || o.LockingScript == nil {
			return
		}
	}
	in := map[string]interface{}{"tx": s, "what": "Tx.Clone pointer identities"}
	r.C.InFlight("Tx.Clone/process-abort", in)
	var cl *bt.Tx
	if panicked, _ := common.Safely(func() { cl = tx.Clone() }); panicked || cl == nil {
		return
	}
	st := &r.share
	st.Clones++
	orig := map[unsafe.Pointer]bool{}
	add := func(p unsafe.Pointer) {
		if p != nil {
			orig[p] = true
		}
	}
	for _, i := range tx.Inputs {
		add(unsafe.Pointer(i))
		if i != nil {
			add(unsafe.Pointer(i.UnlockingScript))
			add(unsafe.Pointer(i.PreviousTxScript))
			add(dataPtr(i.UnlockingScript))
			add(dataPtr(i.PreviousTxScript))
		}
	}
	for _, o := range tx.Outputs {
		add(unsafe.Pointer(o))
		if o != nil {
			add(unsafe.Pointer(o.LockingScript))
			add(dataPtr(o.LockingScript))
		}
	}
	if cl == tx || (len(cl.Inputs) > 0 && &cl.Inputs[0] == &tx.Inputs[0]) ||
		(len(cl.Outputs) > 0 && len(tx.Outputs) > 0 && &cl.Outputs[0] == &tx.Outputs[0]) {
		st.SharedStruct++
	}
	for j, i := range cl.Inputs {
		if i == nil {
			continue
		}
		st.Objects += 3
		if orig[unsafe.Pointer(i)] {
			st.SharedInput++
		}
		if i.UnlockingScript != nil && (orig[unsafe.Pointer(i.UnlockingScript)] || orig[dataPtr(i.UnlockingScript)]) {
			st.SharedUnlock++
		}
		if j < len(tx.Inputs) && tx.Inputs[j] != nil && i.PreviousTxScript != nil {
			if i.PreviousTxScript == tx.Inputs[j].PreviousTxScript {
				st.PrevScriptSame++
			} else {
				st.PrevScriptNew++
			}
		}
	}
	for _, o := range cl.Outputs {
		if o == nil {
			continue
		}
		st.Objects += 3
		if orig[unsafe.Pointer(o)] {
			st.SharedOutput++
		}
		if o.LockingScript != nil && (orig[unsafe.Pointer(o.LockingScript)] || orig[dataPtr(o.LockingScript)]) {
			st.SharedLock++
		}
	}
}

func dsha(b []byte) []byte {
	a := sha256.Sum256(b)
	c := sha256.Sum256(a[:])
	return c[:]
}

type snapshot struct {
	spec txgen.TxSpec
	ext  []byte
}

func snap(tx *bt.Tx) snapshot { return snapshot{txgen.FromTx(tx), tx.ExtendedBytes()} }
func (a snapshot) equal(b snapshot) bool {
	return bytes.Equal(a.ext, b.ext) && reflect.DeepEqual(a.spec, b.spec)
}

// one observes one (index, hash type) on the shared tx object and states the property in Go.
type keptPre struct {
	b   []byte
	sha string
	in  map[string]interface{}
}

// checkKept: every preimage returned so far still has the bytes it had when it was returned
func (r *Runner) checkKept() {
	for _, k := range r.kept {
		if common.Sha256Hex(k.b) != k.sha {
			r.C.Violate(r.api+"/returned-preimage-changes-after-later-calls", "a preimage returned earlier no longer hashes to what it did (the slice is reused by later computations)", k.in)
			break
		}
	}
	r.kept = nil
}

func (r *Runner) one(s txgen.TxSpec, tx *bt.Tx, idx uint32, ht uint8) call {
	c := r.C
	k := call{Idx: idx, HT: ht}
	in := map[string]interface{}{"tx": s, "index": idx, "hash_type": ht}
	c.InFlight(r.api+"/process-abort", in) // (Tx.Clone inside the legacy digest ends the process when its own bytes do not parse)
	before := snap(tx)

	var pre, hash []byte
	var err error
	panicked, msg := common.Safely(func() {
		if r.Legacy {
			pre, err = tx.CalcInputPreimageLegacy(idx, bsh.Flag(ht))
		} else {
			pre, err = tx.CalcInputPreimage(idx, bsh.Flag(ht))
		}
	})
	k.PreCls = classify(err, panicked)
	if panicked {
		c.Violate(r.api+"/panic", msg, in)
	}
	if k.PreCls == ClsOK {
		k.PreLen, k.PreSha = len(pre), common.Sha256Hex(pre)
		// the slice handed out stays what it was when later computations run on the same transaction
		if len(r.kept) < 4096 {
			r.kept = append(r.kept, keptPre{pre, k.PreSha, in})
		}
	}
	if !before.equal(snap(tx)) {
		c.Violate(r.api+"/mutates-tx", "transaction differs after the call", in)
	}
	pre = append([]byte{}, pre...)

	var herr error
	panicked, msg = common.Safely(func() { hash, herr = tx.CalcInputSignatureHash(idx, bsh.Flag(ht)) })
	k.HashCls = classify(herr, panicked)
	if panicked {
		c.Violate("CalcInputSignatureHash/panic", msg, in)
	}
	if k.HashCls == ClsOK {
		k.Hash = common.Hex(hash)
	}
	if !before.equal(snap(tx)) {
		c.Violate("CalcInputSignatureHash/mutates-tx", "transaction differs after the call", in)
	}

	// the property, stated on the implementation: independent re-assembly from the spec
	var want []byte
	wantCls, one := ClsOK, false
	if r.Legacy {
		want, one, wantCls = RefLegacy(s, idx, uint32(ht))
	} else {
		want, wantCls = RefForkID(s, idx, uint32(ht))
	}
	if k.PreCls != wantCls {
		c.Violate(r.api+"/error-class", fmt.Sprintf("class %d, specification says %d", k.PreCls, wantCls), in)
	} else if wantCls == ClsOK {
		if one {
			want = append([]byte{1}, make([]byte, 31)...)
		}
		if !bytes.Equal(pre, want) {
			c.Violate(r.api+"/preimage-differs-from-specification", fmt.Sprintf("library %x, specification %x", pre, want), in)
		}
	}
	if k.HashCls != wantCls {
		c.Violate("CalcInputSignatureHash/error-class", fmt.Sprintf("class %d, specification says %d", k.HashCls, wantCls), in)
	} else if wantCls == ClsOK {
		wantHash := dsha(want)
		if one {
			wantHash = want
		}
		if !bytes.Equal(hash, wantHash) {
			c.Violate("CalcInputSignatureHash/hash-differs-from-specification", fmt.Sprintf("library %x, specification %x", hash, wantHash), in)
		}
	}
	// the returned hash is the caller's to do with as it likes (reverse it in place for display, reuse the
	// buffer): whatever it does must not show in any later result
	for i := range hash {
		hash[i] ^= 0xa5
	}
	c.Tally(fmt.Sprintf("call/class=%d", k.PreCls))
	if one {
		c.Tally("call/single-without-output")
	}
	return k
}

func (r *Runner) family() []uint8 {
	var hts []uint8
	for h := 0; h < 256; h++ {
		if (h&0x40 != 0) != r.Legacy {
			hts = append(hts, uint8(h))
		}
	}
	return hts
}

// txCases: one case per in-range index (all 128 types), one for the out-of-range / negative-safe
// indices (a few types each).  only >= 0 restricts the in-range indices to that one.
func (r *Runner) txCases(s txgen.TxSpec, only int, kind string) {
	defer r.checkKept()
	c := r.C
	tx := Build(s)
	fam := r.family()
	r.observeClone(s, tx)
	emit := func(calls []call, what string, nontrivial bool) {
		var cs []string
		for _, k := range calls {
			cs = append(cs, k.coq())
		}
		after := common.Sha256Hex(tx.ExtendedBytes())
		coq := fmt.Sprintf("CCalls %s %s %s [%s]", common.CoqBool(r.Legacy), txgen.Coq(s), common.CoqStr(after), strings.Join(cs, ";\n "))
		twin := map[string]interface{}{"kind": kind + "/" + what, "tx": s, "calls": len(calls), "first": calls[0]}
		key := fmt.Sprintf("%s|%x|%d|%d", what, tx.ExtendedBytes(), calls[0].Idx, len(calls))
		c.Case(coq, twin, key, nontrivial)
		c.Tally(fmt.Sprintf("case/%s/in=%d/out=%d", what, len(s.Ins), len(s.Outs)))
	}
	for i := range s.Ins {
		if only >= 0 && i != only {
			continue
		}
		var calls []call
		ok := 0
		for _, ht := range fam {
			k := r.one(s, tx, uint32(i), ht)
			if k.PreCls == ClsOK {
				ok++
			}
			calls = append(calls, k)
		}
		emit(calls, "in-range", ok > 0)
	}
	var calls []call
	n := uint32(len(s.Ins))
	for _, idx := range []uint32{n, n + 1, 0x7fffffff, 0x80000000, 0xfffffffe, 0xffffffff} {
		for _, ht := range []uint8{fam[0], fam[1], fam[2], fam[3], fam[65], fam[66], fam[67], fam[127]} {
			calls = append(calls, r.one(s, tx, idx, ht))
		}
	}
	emit(calls, "out-of-range", false)

	// history: the same *bt.Tx object is edited in place after digests were computed on it (outpoints,
	// sequence, outputs, locktime, version); every digest must then be that of the edited transaction —
	// hidden state left behind by an earlier computation (caches) would show here.
	if len(s.Ins) > 0 && only < 0 {
		s2 := cloneSpec(s)
		j := len(s2.Ins) - 1
		tx.Inputs[j].PreviousTxOutIndex ^= 1
		s2.Ins[j].Vout ^= 1
		newID := make([]byte, 32)
		for i := range newID {
			newID[i] = byte(0xc0 + i)
		}
		_ = tx.Inputs[0].PreviousTxIDAdd(newID)
		s2.Ins[0].Txid = common.Hex(newID)
		tx.Inputs[0].SequenceNumber ^= 0x10
		s2.Ins[0].Seq ^= 0x10
		if len(s2.Outs) > 0 {
			tx.Outputs[0].Satoshis ^= 3
			s2.Outs[0].Sats ^= 3
		}
		tx.LockTime ^= 5
		s2.Lock ^= 5
		tx.Version ^= 2
		s2.Version ^= 2
		s = s2
		var hcalls []call
		okc := 0
		for i := range s2.Ins {
			for _, ht := range []uint8{fam[1], fam[2], fam[3], fam[65], fam[67], fam[6]} {
				k := r.one(s2, tx, uint32(i), ht)
				if k.PreCls == ClsOK {
					okc++
				}
				hcalls = append(hcalls, k)
			}
		}
		emit(hcalls, "after-in-place-edits", okc > 0)
	}
}

func cloneSpec(s txgen.TxSpec) txgen.TxSpec {
	o := s
	o.Ins = append([]txgen.InSpec{}, s.Ins...)
	o.Outs = append([]txgen.OutSpec{}, s.Outs...)
	return o
}

func script(r *common.Rand, thorough bool) string {
	n := r.Pick([]int{0, 1, 2, 3, 5, 9, 25, 25, 34})
	if r.Chance(5) || (thorough && r.Chance(6)) { // lengths where a script push prefix and a compact-size prefix differ (76..), varint boundaries
		n = r.Pick([]int{75, 76, 77, 252, 253, 254, 255, 256, 300})
	}
	return common.Hex(r.Bytes(n))
}

// gen: a small transaction with nin inputs and nout outputs; boundary field values from txgen.
func gen(r *common.Rand, nin, nout int, thorough bool) txgen.TxSpec {
	t := txgen.TxSpec{Version: txgen.U32(r), Lock: txgen.U32(r)}
	for i := 0; i < nin; i++ {
		in := txgen.InSpec{Txid: common.Hex(r.Bytes(32)), Vout: txgen.U32(r), Seq: txgen.U32(r), Sats: txgen.U64(r)}
		switch r.Intn(4) {
		case 0:
			in.UnlockNil = true
		case 1:
			in.Unlock = ""
		default:
			in.Unlock = script(r, thorough)
		}
		if r.Chance(12) {
			in.Prev = ""
		} else {
			in.Prev = script(r, thorough)
		}
		t.Ins = append(t.Ins, in)
	}
	for i := 0; i < nout; i++ {
		t.Outs = append(t.Outs, txgen.OutSpec{Sats: txgen.U64(r), Script: script(r, thorough)})
	}
	return t
}

// Run is the whole harness command.
func Run(prop string, legacy bool) {
	c := common.Parse(prop)
	r := &Runner{C: c, Legacy: legacy, api: "CalcInputPreimage"}
	if legacy {
		r.api = "CalcInputPreimageLegacy"
	}
	c.SetHeader(fmt.Sprintf(Header, prop))
	c.PerShard = 1000
	c.ShardBytes = 42000
	rnd := common.NewRand(c.Seed)

	// node vectors against the Coq specification (and against ref.go, which must agree with them)
	nvec := 96
	if c.Thorough() {
		nvec = 1 << 30
	}
	used, skipped := r.vectors(nvec)
	c.Stats.Extra["node_vectors_used"] = used
	c.Stats.Extra["node_vectors_skipped_codeseparator"] = skipped

	// shapes: more inputs than outputs (SINGLE without matching output), equal, fewer, no outputs
	shapes := [][2]int{{1, 0}, {1, 1}, {2, 1}, {3, 3}, {2, 3}, {4, 2}, {1, 3}, {3, 0}}
	nRandom := 2
	if c.Thorough() {
		nRandom = 300
	}
	if c.Mode == "search" {
		nRandom += 30
	}
	for i := 0; i < len(shapes)+nRandom; i++ {
		var nin, nout int
		if i < len(shapes) {
			nin, nout = shapes[i][0], shapes[i][1]
		} else {
			nin, nout = 1+rnd.Intn(4), rnd.Intn(5)
		}
		r.txCases(gen(rnd, nin, nout, c.Thorough()), -1, "generated")
	}
	// output scripts, previous scripts and unlocking scripts of 76, 255, 256 and 300 bytes (where a script push prefix
	// and the compact-size length prefix of the preimage differ; 252..254: the compact-size boundary itself), on every input
	longs := []int{76, 252, 253, 254, 255, 256, 300}
	if c.Thorough() {
		longs = append(longs, 65535, 65536)
	}
	for _, n := range longs {
		s := gen(rnd, 2, 3, false)
		s.Outs[0].Script, s.Outs[2].Script = common.Hex(rnd.Bytes(n)), common.Hex(rnd.Bytes(n+1))
		s.Ins[1].Prev, s.Ins[0].Unlock, s.Ins[0].UnlockNil = common.Hex(rnd.Bytes(n)), common.Hex(rnd.Bytes(n)), false
		r.txCases(s, -1, "long-scripts")
	}
	// the null previous txid is a txid like any other (32 bytes): on the signed input, on another input, and in the shape of a
	// coinbase transaction (one input, null txid, outpoint index or sequence number 0xffffffff)
	{
		zero := common.Hex(make([]byte, 32))
		s := gen(rnd, 2, 2, false)
		s.Ins[1].Txid = zero
		r.txCases(s, -1, "null-txid")
		for k := 0; k < 3; k++ {
			s = gen(rnd, 1, 1+k%2, false)
			s.Ins[0].Txid = zero
			s.Ins[0].Vout, s.Ins[0].Seq = []uint32{0xffffffff, 0, 0xffffffff}[k], []uint32{0, 0xffffffff, 0xffffffff}[k]
			if s.Ins[0].Prev == "" {
				s.Ins[0].Prev = "51"
			}
			s.Ins[0].PrevNil = false
			r.txCases(s, -1, "coinbase-shaped")
		}
	}
	// missing previous script on the signed input / on another input; empty (non-nil) script
	{
		s := gen(rnd, 3, 2, false)
		s.Ins[1].PrevNil, s.Ins[1].Prev = true, ""
		s.Ins[2].Prev = ""
		r.txCases(s, -1, "nil-prev-script")
	}
	// missing previous txid: on the signed input; FORKID only: on another input as well (the legacy
	// path clones the transaction through its serialisation, which the property restricts to
	// 32-byte txids, so there only the input without txid is asked for)
	{
		s := gen(rnd, 2, 2, false)
		s.Ins[1].Txid = ""
		if legacy {
			r.txCases(s, 1, "missing-txid")
		} else {
			r.txCases(s, -1, "missing-txid")
		}
		s = gen(rnd, 1, 1, false)
		s.Ins[0].Txid = ""
		s.Ins[0].PrevNil, s.Ins[0].Prev = true, "" // both missing: the txid is reported first
		r.txCases(s, 0, "missing-txid-and-script")
	}
	if legacy {
		// same transaction with and without unlocking scripts filled in: identical preimages
		s := gen(rnd, 3, 3, false)
		filled, blank := s, s
		filled.Ins = append([]txgen.InSpec{}, s.Ins...)
		blank.Ins = append([]txgen.InSpec{}, s.Ins...)
		for i := range s.Ins {
			filled.Ins[i].Unlock, filled.Ins[i].UnlockNil = common.Hex(rnd.Bytes(20)), false
			blank.Ins[i].Unlock, blank.Ins[i].UnlockNil = "", i%2 == 0
		}
		r.txCases(filled, -1, "unlocking-filled")
		r.txCases(blank, -1, "unlocking-blank")
		a, b := Build(filled), Build(blank)
		for i := range s.Ins {
			for _, ht := range r.family() {
				pa, ea := a.CalcInputPreimageLegacy(uint32(i), bsh.Flag(ht))
				pb, eb := b.CalcInputPreimageLegacy(uint32(i), bsh.Flag(ht))
				if ea != nil || eb != nil || !bytes.Equal(pa, pb) {
					c.Violate("CalcInputPreimageLegacy/depends-on-unlocking-scripts", "preimage changes with the unlocking scripts", map[string]interface{}{"tx": filled, "index": i, "hash_type": ht})
				}
			}
		}
	}
	fam := "128 hash types with bit 0x40 (CalcInputPreimage)"
	if legacy {
		fam = "128 hash types without bit 0x40 (CalcInputPreimageLegacy)"
	}
	c.Stats.Rule = "generated transactions (fixed shapes {1,0},{1,1},{2,1},{3,3},{2,3},{4,2},{1,3},{3,0} inputs/outputs + random 1..4 x 0..4; boundary field values; scripts of 0..34 bytes, thorough also 75/76/252/253/254/300; nil/empty unlocking scripts; empty and nil previous scripts; missing previous txid) x all " + fam +
		" x every in-range input index, plus indices n, n+1, 0x7fffffff, 0x80000000, 0xfffffffe, 0xffffffff x 8 types; every call also through CalcInputSignatureHash. A case = one transaction object and the sequence of calls made on it (one in-range index x 128 types, or the out-of-range indices); observables: error class, preimage length and SHA-256, signature hash, ExtendedBytes after all calls. distinct = distinct (transaction bytes, index); non-trivial = at least one call returned a preimage. Node vectors (bscript/interpreter/data/sighash_*.json) are evaluated against the Coq specification and against the harness's Go reference."
	c.Stats.Extra["clone_pointer_identity"] = map[string]int{
		"clones_examined": r.share.Clones, "pointers_and_arrays_compared": r.share.Objects,
		"tx_struct_or_pointer_slice_shared": r.share.SharedStruct,
		"input_objects_shared": r.share.SharedInput, "output_objects_shared": r.share.SharedOutput,
		"unlocking_scripts_shared": r.share.SharedUnlock, "locking_scripts_shared": r.share.SharedLock,
		"previous_script_pointer_is_the_originals": r.share.PrevScriptSame, "previous_script_pointer_new": r.share.PrevScriptNew,
	}
	for _, f := range Extra[prop] { // per-property families (hooks.go)
		f(r, rnd)
	}
	c.Finish()
}

// ---------- node vectors ----------

type vector struct {
	raw, script []byte
	idx         uint32
	ht          uint32
	expected    string
}

func loadVectors(name string) []vector {
	repo := os.Getenv("VERIF_VECTORS")
	if repo == "" {
		repo = "/repo/bscript/interpreter/data"
	}
	bb, err := os.ReadFile(repo + "/" + name)
	if err != nil {
		panic(err)
	}
	var rows [][]interface{}
	dec := json.NewDecoder(bytes.NewReader(bb))
	dec.UseNumber()
	if err := dec.Decode(&rows); err != nil {
		panic(err)
	}
	var out []vector
	for _, row := range rows {
		if len(row) != 5 {
			continue
		}
		idx, _ := row[2].(json.Number).Int64()
		ht, _ := row[3].(json.Number).Int64()
		out = append(out, vector{common.Unhex(row[0].(string)), common.Unhex(row[1].(string)), uint32(idx), uint32(int32(ht)), row[4].(string)})
	}
	return out
}

func reverse(b []byte) []byte {
	o := make([]byte, len(b))
	for i := range b {
		o[len(b)-1-i] = b[i]
	}
	return o
}

// vectors emits up to max node vectors as spec cases (evenly spread over the file).
func (r *Runner) vectors(max int) (used, skipped int) {
	c := r.C
	name, ctor := "sighash_bip143.json", "CVecForkid"
	if r.Legacy {
		name, ctor = "sighash_legacy.json", "CVecLegacy"
	}
	var usable []vector
	for _, v := range loadVectors(name) {
		s, err := parseRaw(v.raw)
		if err != nil {
			panic(fmt.Sprintf("node vector does not parse: %v", err))
		}
		var want []byte
		if r.Legacy {
			pre, one, cls := RefLegacyScript(s, v.idx, v.ht, v.script)
			if cls != ClsOK {
				panic("node vector with an input index out of range")
			}
			if one {
				want = append([]byte{1}, make([]byte, 31)...)
			} else if hasCodeSeparator(v.script) {
				skipped++ // stripping OP_CODESEPARATOR is the caller's job (property text)
				continue
			} else {
				want = dsha(pre)
			}
		} else {
			pre, cls := RefForkIDScript(s, v.idx, v.ht, v.script, 0)
			if cls != ClsOK {
				panic("node vector with an input index out of range")
			}
			want = dsha(pre)
		}
		if common.Hex(reverse(want)) != v.expected {
			// the harness's own reference disagrees with the node: a harness defect, not a go-bt one
			panic(fmt.Sprintf("harness reference disagrees with node vector %x idx %d type %d", v.raw, v.idx, v.ht))
		}
		usable = append(usable, v)
	}
	step := 1
	if len(usable) > max {
		step = len(usable) / max
	}
	for i := 0; i < len(usable) && used < max; i += step {
		v := usable[i]
		coq := fmt.Sprintf("%s %s %s %d %d %s", ctor, common.CoqBytes(v.raw), common.CoqBytes(v.script), v.idx, v.ht, common.CoqStr(v.expected))
		c.Case(coq, map[string]interface{}{"kind": "node-vector", "raw": common.Hex(v.raw), "script": common.Hex(v.script), "index": v.idx, "hash_type": v.ht, "expected": v.expected},
			"v"+common.Hex(v.raw)+fmt.Sprint(v.idx, v.ht), true)
		c.Tally("case/node-vector")
		used++
	}
	return
}
