package sighash

// Independent reference for the two digest algorithms, assembled field by field from the
// generator's TxSpec (hex strings and integers) — no go-bt type or function is used here.
// It is kept honest by the node's vectors: vectors() panics if it disagrees with any of them.

import (
	"crypto/sha256"
	"encoding/binary"
	"encoding/hex"
	"errors"

	"verif/harness/txgen"
)

func le32(v uint32) []byte { b := make([]byte, 4); binary.LittleEndian.PutUint32(b, v); return b }
func le64(v uint64) []byte { b := make([]byte, 8); binary.LittleEndian.PutUint64(b, v); return b }
func compact(n uint64) []byte {
	switch {
	case n < 253:
		return []byte{byte(n)}
	case n <= 0xffff:
		return []byte{0xfd, byte(n), byte(n >> 8)}
	case n <= 0xffffffff:
		return append([]byte{0xfe}, le32(uint32(n))...)
	}
	return append([]byte{0xff}, le64(n)...)
}
func unhex(s string) []byte {
	b, err := hex.DecodeString(s)
	if err != nil {
		panic(err)
	}
	return b
}
func withLen(s []byte) []byte { return append(compact(uint64(len(s))), s...) }
func hash256(b []byte) []byte {
	a := sha256.Sum256(b)
	c := sha256.Sum256(a[:])
	return c[:]
}
func outpoint(in txgen.InSpec) []byte {
	id := unhex(in.Txid) // display order; the wire carries it reversed
	var w []byte
	for i := len(id) - 1; i >= 0; i-- {
		w = append(w, id[i])
	}
	return append(w, le32(in.Vout)...)
}
func txout(o txgen.OutSpec) []byte { return append(le64(o.Sats), withLen(unhex(o.Script))...) }

// guards: which error the property demands before any digest is computed
func guards(s txgen.TxSpec, idx uint32) int {
	if uint64(idx) >= uint64(len(s.Ins)) {
		return ClsInputMissing
	}
	if s.Ins[idx].Txid == "" {
		return ClsTxidMissing
	}
	if s.Ins[idx].PrevNil {
		return ClsScriptMissing
	}
	return ClsOK
}

// RefForkID: script code and amount are the signed input's recorded previous script and value.
func RefForkID(s txgen.TxSpec, idx uint32, ht uint32) ([]byte, int) {
	if cls := guards(s, idx); cls != ClsOK {
		return nil, cls
	}
	return RefForkIDScript(s, idx, ht, unhex(s.Ins[idx].Prev), s.Ins[idx].Sats)
}

func RefForkIDScript(s txgen.TxSpec, idx uint32, ht uint32, scriptCode []byte, amount uint64) ([]byte, int) {
	if uint64(idx) >= uint64(len(s.Ins)) {
		return nil, ClsInputMissing
	}
	base, acp := ht&0x1f, ht&0x80 != 0
	zero := make([]byte, 32)
	hashPrevouts, hashSequence, hashOutputs := zero, zero, zero
	if !acp {
		var b []byte
		for _, in := range s.Ins {
			b = append(b, outpoint(in)...)
		}
		hashPrevouts = hash256(b)
	}
	if !acp && base != 2 && base != 3 {
		var b []byte
		for _, in := range s.Ins {
			b = append(b, le32(in.Seq)...)
		}
		hashSequence = hash256(b)
	}
	if base != 2 && base != 3 {
		var b []byte
		for _, o := range s.Outs {
			b = append(b, txout(o)...)
		}
		hashOutputs = hash256(b)
	} else if base == 3 && uint64(idx) < uint64(len(s.Outs)) {
		hashOutputs = hash256(txout(s.Outs[idx]))
	}
	in := s.Ins[idx]
	var p []byte
	p = append(p, le32(s.Version)...)     // 1
	p = append(p, hashPrevouts...)        // 2
	p = append(p, hashSequence...)        // 3
	p = append(p, outpoint(in)...)        // 4
	p = append(p, withLen(scriptCode)...) // 5
	p = append(p, le64(amount)...)        // 6
	p = append(p, le32(in.Seq)...)        // 7
	p = append(p, hashOutputs...)         // 8
	p = append(p, le32(s.Lock)...)        // 9
	p = append(p, le32(ht)...)            // 10
	return p, ClsOK
}

// RefLegacy: original SignatureHash; one=true is the "return 1" exit for SINGLE without a matching output.
func RefLegacy(s txgen.TxSpec, idx uint32, ht uint32) (pre []byte, one bool, cls int) {
	if cls := guards(s, idx); cls != ClsOK {
		return nil, false, cls
	}
	return RefLegacyScript(s, idx, ht, unhex(s.Ins[idx].Prev))
}

func RefLegacyScript(s txgen.TxSpec, idx uint32, ht uint32, scriptCode []byte) (pre []byte, one bool, cls int) {
	if uint64(idx) >= uint64(len(s.Ins)) {
		return nil, false, ClsInputMissing
	}
	base, acp := ht&0x1f, ht&0x80 != 0
	if base == 3 && uint64(idx) >= uint64(len(s.Outs)) {
		return nil, true, ClsOK
	}
	type rin struct {
		op, script []byte
		seq        uint32
	}
	var ins []rin
	for j, in := range s.Ins {
		x := rin{op: outpoint(in), seq: in.Seq}
		if uint32(j) == idx {
			x.script = scriptCode
		} else if base == 2 || base == 3 {
			x.seq = 0
		}
		ins = append(ins, x)
	}
	if acp {
		ins = []rin{ins[idx]}
	}
	var outs [][]byte
	switch base {
	case 2:
	case 3:
		for j := uint32(0); j < idx; j++ {
			outs = append(outs, append(le64(^uint64(0)), 0))
		}
		outs = append(outs, txout(s.Outs[idx]))
	default:
		for _, o := range s.Outs {
			outs = append(outs, txout(o))
		}
	}
	var p []byte
	p = append(p, le32(s.Version)...)
	p = append(p, compact(uint64(len(ins)))...)
	for _, x := range ins {
		p = append(p, x.op...)
		p = append(p, withLen(x.script)...)
		p = append(p, le32(x.seq)...)
	}
	p = append(p, compact(uint64(len(outs)))...)
	for _, o := range outs {
		p = append(p, o...)
	}
	p = append(p, le32(s.Lock)...)
	p = append(p, le32(ht)...)
	return p, false, ClsOK
}

// parseRaw: standard-format transaction bytes -> TxSpec (own decoder, for the node vectors only).
func parseRaw(b []byte) (txgen.TxSpec, error) {
	var s txgen.TxSpec
	p := 0
	need := func(n int) error {
		if n < 0 || p+n > len(b) {
			return errors.New("short")
		}
		return nil
	}
	rvi := func() (uint64, error) {
		if err := need(1); err != nil {
			return 0, err
		}
		t := b[p]
		p++
		w := 0
		switch t {
		case 0xfd:
			w = 2
		case 0xfe:
			w = 4
		case 0xff:
			w = 8
		default:
			return uint64(t), nil
		}
		if err := need(w); err != nil {
			return 0, err
		}
		var v uint64
		for i := w - 1; i >= 0; i-- {
			v = v<<8 | uint64(b[p+i])
		}
		p += w
		return v, nil
	}
	take := func(n int) ([]byte, error) {
		if err := need(n); err != nil {
			return nil, err
		}
		x := b[p : p+n]
		p += n
		return x, nil
	}
	v, err := take(4)
	if err != nil {
		return s, err
	}
	s.Version = binary.LittleEndian.Uint32(v)
	n, err := rvi()
	if err != nil {
		return s, err
	}
	for i := uint64(0); i < n; i++ {
		h, err := take(32)
		if err != nil {
			return s, err
		}
		var disp []byte
		for k := 31; k >= 0; k-- {
			disp = append(disp, h[k])
		}
		vo, err := take(4)
		if err != nil {
			return s, err
		}
		l, err := rvi()
		if err != nil {
			return s, err
		}
		sc, err := take(int(l))
		if err != nil {
			return s, err
		}
		sq, err := take(4)
		if err != nil {
			return s, err
		}
		s.Ins = append(s.Ins, txgen.InSpec{Txid: hex.EncodeToString(disp), Vout: binary.LittleEndian.Uint32(vo), Unlock: hex.EncodeToString(sc), Seq: binary.LittleEndian.Uint32(sq), PrevNil: true})
	}
	n, err = rvi()
	if err != nil {
		return s, err
	}
	for i := uint64(0); i < n; i++ {
		sat, err := take(8)
		if err != nil {
			return s, err
		}
		l, err := rvi()
		if err != nil {
			return s, err
		}
		sc, err := take(int(l))
		if err != nil {
			return s, err
		}
		s.Outs = append(s.Outs, txgen.OutSpec{Sats: binary.LittleEndian.Uint64(sat), Script: hex.EncodeToString(sc)})
	}
	lt, err := take(4)
	if err != nil {
		return s, err
	}
	s.Lock = binary.LittleEndian.Uint32(lt)
	if p != len(b) {
		return s, errors.New("trailing bytes")
	}
	return s, nil
}

// hasCodeSeparator: is there an OP_CODESEPARATOR (0xab) at an opcode position, walking the script
// the way the node's serializer does (it stops at the first push that does not fit).
func hasCodeSeparator(s []byte) bool {
	p := 0
	for p < len(s) {
		op := s[p]
		p++
		if op == 0xab {
			return true
		}
		n := 0
		switch {
		case op >= 1 && op <= 75:
			n = int(op)
		case op == 76:
			if p+1 > len(s) {
				return false
			}
			n = int(s[p])
			p++
		case op == 77:
			if p+2 > len(s) {
				return false
			}
			n = int(s[p]) | int(s[p+1])<<8
			p += 2
		case op == 78:
			if p+4 > len(s) {
				return false
			}
			n = int(binary.LittleEndian.Uint32(s[p:]))
			p += 4
		}
		if n < 0 || p+n > len(s) {
			return false
		}
		p += n
	}
	return false
}
