package sighash

// C03 only: SHARING inside the caller's own transaction, and components that are EQUAL.
//
// The property says which input is the signed one by its POSITION (the input index).  Every other family of this
// harness builds the transaction so that each pointer-valued field has an object of its own and (random scripts,
// random outpoints) no two components are equal, so an implementation that finds "the signed input" some other way
// - by the identity of the *bscript.Script it records, by the bytes of that script, by its outpoint, by the *bt.Input
// object - agrees with the property on all of them.  Real callers do produce the other graphs: a wallet spending
// several outputs of one address attaches the ONE locking script it built for the address to all of them; the same
// script object is recorded on an input and paid to by the change output; a coin is listed twice; a batch of
// identical outputs is made from one *bt.Output.
//
// A wiring is a list of groups; a group names fields ("slots") of the transaction and how they are tied:
//   same-pointer  the fields hold the SAME *bscript.Script
//   same-array    distinct *bscript.Script headers over the same backing array
//   equal-bytes   distinct objects, equal bytes
//   same-object   (inputs / outputs) the same *bt.Input / *bt.Output stands at several positions
//   equal-fields  (inputs / outputs) distinct objects, every field equal; "outpoint": txid and index equal only
// The transaction is built, wired, and then READ BACK field by field (txgen.FromTx) into the spec the independent
// reference works from - so whatever the wiring did, the reference is asked about the values the library sees.
// Every in-range index x all 128 legacy types goes through Runner.one (preimage and hash against the reference,
// error classes, value-level "transaction unchanged"); in addition the POINTER-level shape of the caller's graph
// (which object stands where, every slice header) is compared before and after each call.
// Coq: the value-level case (CCalls) and, read off the wired *bt.Tx by pointer identity, the graph itself as a heap
// of model/SigHeap.v cells (CHeap, corr/C03.v), on which the pointer-level program of CalcInputPreimageLegacy is
// evaluated - the program C03_heap_model_refines_value_model / C03_sharing_in_callers_graph_is_unobservable are about.

import (
	"fmt"
	"reflect"
	"strings"
	"unsafe"

	"github.com/libsv/go-bt/v2"
	"github.com/libsv/go-bt/v2/bscript"

	"verif/harness/common"
	"verif/harness/txgen"
)

func init() { Extra["C03"] = append(Extra["C03"], c03Sharing) }

type c03Slot struct {
	Kind string `json:"field"` // prev | unlock | lock (script fields) ; input | output | outpoint (whole components)
	I    int    `json:"index"`
}
type c03Group struct {
	Mode  string    `json:"tie"`
	Slots []c03Slot `json:"fields"`
}
type c03Wiring struct {
	Name   string     `json:"pattern"`
	Groups []c03Group `json:"groups"`
}

func (g c03Group) isScript() bool {
	k := g.Slots[0].Kind
	return k == "prev" || k == "unlock" || k == "lock"
}

// ---- spec level: impose the equalities (so that equal-bytes / equal-fields groups mean something) ----

func c03SpecGet(s *txgen.TxSpec, sl c03Slot) string {
	switch sl.Kind {
	case "prev":
		return s.Ins[sl.I].Prev
	case "unlock":
		return s.Ins[sl.I].Unlock
	}
	return s.Outs[sl.I].Script
}
func c03SpecSet(s *txgen.TxSpec, sl c03Slot, v string) {
	switch sl.Kind {
	case "prev":
		s.Ins[sl.I].Prev, s.Ins[sl.I].PrevNil = v, false
	case "unlock":
		s.Ins[sl.I].Unlock, s.Ins[sl.I].UnlockNil = v, false
	default:
		s.Outs[sl.I].Script = v
	}
}

func c03ApplySpec(s *txgen.TxSpec, w c03Wiring, rnd *common.Rand) {
	var ordered []c03Group // whole components first, as c03Wire does
	for _, g := range w.Groups {
		if !g.isScript() {
			ordered = append(ordered, g)
		}
	}
	for _, g := range w.Groups {
		if g.isScript() {
			ordered = append(ordered, g)
		}
	}
	for _, g := range ordered {
		a := g.Slots[0]
		switch {
		case g.isScript():
			v := c03SpecGet(s, a)
			if v == "" { // an empty script has no backing array to share and blanking it shows nothing
				v = common.Hex(append([]byte{0x76, 0xa9}, rnd.Bytes(1+rnd.Intn(24))...))
			}
			for _, sl := range g.Slots {
				c03SpecSet(s, sl, v)
			}
		case a.Kind == "input":
			for _, sl := range g.Slots[1:] {
				s.Ins[sl.I] = s.Ins[a.I]
			}
		case a.Kind == "outpoint":
			for _, sl := range g.Slots[1:] {
				s.Ins[sl.I].Txid, s.Ins[sl.I].Vout = s.Ins[a.I].Txid, s.Ins[a.I].Vout
			}
		case a.Kind == "output":
			for _, sl := range g.Slots[1:] {
				s.Outs[sl.I] = s.Outs[a.I]
			}
		}
	}
}

// ---- object level ----

func c03Field(tx *bt.Tx, sl c03Slot) **bscript.Script {
	switch sl.Kind {
	case "prev":
		return &tx.Inputs[sl.I].PreviousTxScript
	case "unlock":
		return &tx.Inputs[sl.I].UnlockingScript
	}
	return &tx.Outputs[sl.I].LockingScript
}

func c03Wire(tx *bt.Tx, w c03Wiring) {
	for _, g := range w.Groups { // whole objects first: a script field tied afterwards is tied on the shared object
		a := g.Slots[0]
		if g.Mode != "same-object" {
			continue
		}
		for _, sl := range g.Slots[1:] {
			if a.Kind == "input" {
				tx.Inputs[sl.I] = tx.Inputs[a.I]
			} else {
				tx.Outputs[sl.I] = tx.Outputs[a.I]
			}
		}
	}
	for _, g := range w.Groups {
		if !g.isScript() {
			continue
		}
		p := *c03Field(tx, g.Slots[0])
		if p == nil { // (the field sits on an object that a same-object group replaced by one without this script)
			p = bscript.NewFromBytes([]byte{0x76, 0xa9, 0x88, 0xac})
			*c03Field(tx, g.Slots[0]) = p
		}
		for _, sl := range g.Slots[1:] {
			switch g.Mode {
			case "same-pointer":
				*c03Field(tx, sl) = p
			case "same-array":
				v := *p // a new slice header over the same bytes
				*c03Field(tx, sl) = &v
			}
		}
	}
}

// c03Graph: the pointer-level shape of the caller's transaction - the two slice headers, which object stands at
// which position, which script object (and which backing array, with length and capacity) each field holds.
func c03Graph(tx *bt.Tx) []uintptr {
	var g []uintptr
	hdr := func(p unsafe.Pointer, l, c int) { g = append(g, uintptr(p), uintptr(l), uintptr(c)) }
	scr := func(s *bscript.Script) {
		g = append(g, uintptr(unsafe.Pointer(s)))
		if s != nil {
			hdr(unsafe.Pointer(unsafe.SliceData([]byte(*s))), len(*s), cap(*s))
		}
	}
	hdr(unsafe.Pointer(unsafe.SliceData(tx.Inputs)), len(tx.Inputs), cap(tx.Inputs))
	hdr(unsafe.Pointer(unsafe.SliceData(tx.Outputs)), len(tx.Outputs), cap(tx.Outputs))
	for _, in := range tx.Inputs {
		g = append(g, uintptr(unsafe.Pointer(in)))
		if in != nil {
			scr(in.PreviousTxScript)
			scr(in.UnlockingScript)
		}
	}
	for _, o := range tx.Outputs {
		g = append(g, uintptr(unsafe.Pointer(o)))
		if o != nil {
			scr(o.LockingScript)
		}
	}
	return g
}

// c03Heap writes the object graph down as a heap of model/SigHeap.v: one cell per distinct Go pointer (scripts in
// order of first appearance, then inputs, outputs, the transaction), fields that hold the same pointer hold the same
// address.  Returns the Gallina heap literal, the address of the transaction cell and how many fields reach a cell
// that an earlier field reached already.
func c03Heap(tx *bt.Tx) (string, int, int) {
	var cells []string
	shared := 0
	scripts := map[*bscript.Script]int{}
	addr := func(s *bscript.Script) string {
		if s == nil {
			return "None"
		}
		a, ok := scripts[s]
		if ok {
			shared++
		} else {
			a = len(cells)
			scripts[s] = a
			cells = append(cells, "CScript "+common.CoqBytes(*s))
		}
		return fmt.Sprintf("(Some %d%%nat)", a)
	}
	type inF struct{ prev, unlock string }
	inFields := map[*bt.Input]inF{}
	outFields := map[*bt.Output]string{}
	for _, in := range tx.Inputs {
		if _, ok := inFields[in]; !ok {
			inFields[in] = inF{addr(in.PreviousTxScript), addr(in.UnlockingScript)}
		}
	}
	for _, o := range tx.Outputs {
		if _, ok := outFields[o]; !ok {
			outFields[o] = addr(o.LockingScript)
		}
	}
	inAddr := map[*bt.Input]int{}
	var ia, oa []string
	for _, in := range tx.Inputs {
		a, ok := inAddr[in]
		if ok {
			shared++
		} else {
			a = len(cells)
			inAddr[in] = a
			f := inFields[in]
			cells = append(cells, fmt.Sprintf("CInput (mkIR %s %d %s %s %d %d)", common.CoqBytes(in.PreviousTxID()), in.PreviousTxSatoshis,
				f.prev, f.unlock, in.PreviousTxOutIndex, in.SequenceNumber))
		}
		ia = append(ia, fmt.Sprintf("%d%%nat", a))
	}
	outAddr := map[*bt.Output]int{}
	for _, o := range tx.Outputs {
		a, ok := outAddr[o]
		if ok {
			shared++
		} else {
			a = len(cells)
			outAddr[o] = a
			cells = append(cells, fmt.Sprintf("COutput (mkOR %d %s)", o.Satoshis, outFields[o]))
		}
		oa = append(oa, fmt.Sprintf("%d%%nat", a))
	}
	p := len(cells)
	cells = append(cells, fmt.Sprintf("CTx (mkTR [%s] [%s] %d %d)", strings.Join(ia, "; "), strings.Join(oa, "; "), tx.Version, tx.LockTime))
	return "[" + strings.Join(cells, ";\n  ") + "]", p, shared
}

// the types whose observations go to Coq (both kinds of case): every base type with and without ANYONECANPAY,
// undefined base types, unused bits set
var c03CoqTypes = map[uint8]bool{0x00: true, 0x01: true, 0x02: true, 0x03: true, 0x04: true, 0x1f: true, 0x22: true, 0x23: true,
	0x80: true, 0x81: true, 0x82: true, 0x83: true, 0xa1: true, 0xbf: true}

// c03SharedCase: one wiring on one generated transaction.
func (r *Runner) c03SharedCase(s txgen.TxSpec, w c03Wiring, rnd *common.Rand) {
	defer r.checkKept()
	c := r.C
	c03ApplySpec(&s, w, rnd)
	tx := build(s)
	c03Wire(tx, w)
	s = txgen.FromTx(tx) // what the fields hold now, read one by one: the reference is asked about THESE values
	if !reflect.DeepEqual(txgen.FromTx(build(s)), s) {
		panic("c03 sharing: the spec read back from the wired transaction does not rebuild to itself (harness defect)")
	}
	heap, ptr, shared := c03Heap(tx)
	graph := map[string]interface{}{"pattern": w.Name, "groups": w.Groups,
		"note": "the fields of a group are tied as its `tie` says (same *bscript.Script / same backing array / same *bt.Input or *bt.Output at several positions / equal values in distinct objects); `tx` lists the field values read back from that object graph"}
	fam := r.family()
	var coqCalls []string
	var first call
	okAny := false
	for i := range s.Ins {
		for _, ht := range fam {
			n0 := len(c.Stats.Violations)
			g0 := c03Graph(tx)
			k := r.one(s, tx, uint32(i), ht)
			if !reflect.DeepEqual(g0, c03Graph(tx)) {
				c.Violate(r.api+"/callers-object-graph-rewired", "after the call a field of the caller's transaction holds another object (or a slice of it another header) than before",
					map[string]interface{}{"tx": s, "index": i, "hash_type": ht})
			}
			for j := n0; j < len(c.Stats.Violations); j++ { // say how the transaction was wired in whatever was just reported
				if m, ok := c.Stats.Violations[j].Input.(map[string]interface{}); ok {
					m["object_graph"] = graph
				}
			}
			if k.PreCls == ClsOK {
				okAny = true
			}
			if c03CoqTypes[ht] {
				if len(coqCalls) == 0 {
					first = k
				}
				coqCalls = append(coqCalls, k.coq())
			}
		}
	}
	after := common.Sha256Hex(tx.ExtendedBytes())
	calls := strings.Join(coqCalls, ";\n ")
	twin := func(kind string) map[string]interface{} {
		return map[string]interface{}{"kind": kind, "tx": s, "object_graph": graph, "calls": len(coqCalls), "first": first}
	}
	key := fmt.Sprintf("%s|%x|%v", w.Name, tx.ExtendedBytes(), w.Groups)
	c.Case(fmt.Sprintf("CCalls true %s %s [%s]", txgen.Coq(s), common.CoqStr(after), calls), twin("shared-graph/value-level"), "v|"+key, okAny)
	c.Case(fmt.Sprintf("CHeap %s %d%%nat %s [%s]", heap, ptr, common.CoqStr(after), calls), twin("shared-graph/heap"), "h|"+key, okAny)
	c.Tally("case/shared-graph/" + strings.SplitN(w.Name, "#", 2)[0])
	c03Stat.Wirings++
	c03Stat.Calls += len(s.Ins) * len(fam)
	c03Stat.FieldsReachingASharedCell += shared
}

type c03Stats struct{ Wirings, Calls, FieldsReachingASharedCell int }

var c03Stat c03Stats

func c03Slots(kind string, idx ...int) []c03Slot {
	var o []c03Slot
	for _, i := range idx {
		o = append(o, c03Slot{kind, i})
	}
	return o
}

// the fixed wirings: {inputs, outputs, wiring}
func c03Fixed() []struct {
	nin, nout int
	w         c03Wiring
} {
	sp, sa, eb, so, ef := "same-pointer", "same-array", "equal-bytes", "same-object", "equal-fields"
	g := func(mode string, slots ...[]c03Slot) c03Group {
		var all []c03Slot
		for _, s := range slots {
			all = append(all, s...)
		}
		return c03Group{mode, all}
	}
	type T = struct {
		nin, nout int
		w         c03Wiring
	}
	return []T{
		{3, 1, c03Wiring{"one-script-object-on-two-inputs", []c03Group{g(sp, c03Slots("prev", 0, 1)), g(eb, c03Slots("prev", 0, 2))}}},
		{3, 3, c03Wiring{"one-script-object-on-all-inputs", []c03Group{g(sp, c03Slots("prev", 0, 1, 2))}}},
		{3, 2, c03Wiring{"one-script-object-on-last-two-inputs", []c03Group{g(sp, c03Slots("prev", 2, 1))}}},
		{2, 2, c03Wiring{"previous-script-is-the-other-inputs-unlocking-script", []c03Group{g(sp, c03Slots("prev", 0), c03Slots("unlock", 1)), g(sp, c03Slots("prev", 1), c03Slots("unlock", 0))}}},
		{2, 2, c03Wiring{"previous-script-is-the-inputs-own-unlocking-script", []c03Group{g(sp, c03Slots("prev", 0), c03Slots("unlock", 0))}}},
		{3, 3, c03Wiring{"previous-script-is-an-outputs-locking-script", []c03Group{g(sp, c03Slots("prev", 1), c03Slots("lock", 0, 2))}}},
		{2, 3, c03Wiring{"one-script-object-on-all-outputs", []c03Group{g(sp, c03Slots("lock", 0, 1, 2))}}},
		{3, 2, c03Wiring{"one-input-object-at-two-positions", []c03Group{g(so, c03Slots("input", 0, 2))}}},
		{2, 3, c03Wiring{"one-output-object-at-two-positions", []c03Group{g(so, c03Slots("output", 0, 2))}}},
		{3, 2, c03Wiring{"one-backing-array-on-two-inputs", []c03Group{g(sa, c03Slots("prev", 0, 2))}}},
		{3, 2, c03Wiring{"equal-previous-scripts", []c03Group{g(eb, c03Slots("prev", 1, 2))}}},
		{3, 2, c03Wiring{"equal-outpoints", []c03Group{g(ef, c03Slots("outpoint", 0, 1))}}},
		{3, 3, c03Wiring{"equal-inputs", []c03Group{g(ef, c03Slots("input", 0, 1))}}},
		{2, 3, c03Wiring{"equal-outputs", []c03Group{g(ef, c03Slots("output", 0, 1, 2))}}},
		{4, 2, c03Wiring{"several-ties-at-once", []c03Group{g(so, c03Slots("input", 1, 3)), g(sp, c03Slots("prev", 0, 1), c03Slots("lock", 1)), g(sa, c03Slots("unlock", 0, 2))}}},
	}
}

// c03RandomWiring: 1..3 groups over disjoint fields of a transaction with nin inputs and nout outputs
func c03RandomWiring(rnd *common.Rand, nin, nout, n int) c03Wiring {
	w := c03Wiring{Name: fmt.Sprintf("random#%d", n)}
	var pool []c03Slot // script fields not yet in a group
	for i := 0; i < nin; i++ {
		pool = append(pool, c03Slot{"prev", i}, c03Slot{"unlock", i})
	}
	for i := 0; i < nout; i++ {
		pool = append(pool, c03Slot{"lock", i})
	}
	take := func() c03Slot {
		k := rnd.Intn(len(pool))
		sl := pool[k]
		pool = append(pool[:k], pool[k+1:]...)
		return sl
	}
	two := func(n int) (int, int) {
		a := rnd.Intn(n)
		b := rnd.Intn(n - 1)
		if b >= a {
			b++
		}
		return a, b
	}
	objIn, objOut := false, false
	for k := 1 + rnd.Intn(3); k > 0; k-- {
		switch x := rnd.Intn(10); {
		case x < 6 && len(pool) >= 2:
			g := c03Group{Mode: []string{"same-pointer", "same-pointer", "same-array", "equal-bytes"}[rnd.Intn(4)]}
			if rnd.Chance(60) { // previous scripts of two inputs first: the field the signed input is told by
				var prevs []int
				for j, sl := range pool {
					if sl.Kind == "prev" {
						prevs = append(prevs, j)
					}
				}
				if len(prevs) >= 2 {
					a, b := two(len(prevs))
					sa, sb := pool[prevs[a]], pool[prevs[b]]
					var rest []c03Slot
					for _, sl := range pool {
						if sl != sa && sl != sb {
							rest = append(rest, sl)
						}
					}
					pool = rest
					g.Slots = []c03Slot{sa, sb}
				}
			}
			for m := 2 + rnd.Intn(2); len(g.Slots) < m && len(pool) > 0; {
				g.Slots = append(g.Slots, take())
			}
			w.Groups = append(w.Groups, g)
		case x < 8 && nin >= 2 && !objIn:
			objIn = true
			a, b := two(nin)
			kind, mode := "input", []string{"same-object", "equal-fields"}[rnd.Intn(2)]
			if rnd.Chance(30) {
				kind, mode = "outpoint", "equal-fields"
			}
			w.Groups = append(w.Groups, c03Group{mode, c03Slots(kind, a, b)})
		case nout >= 2 && !objOut:
			objOut = true
			a, b := two(nout)
			w.Groups = append(w.Groups, c03Group{[]string{"same-object", "equal-fields"}[rnd.Intn(2)], c03Slots("output", a, b)})
		}
	}
	if len(w.Groups) == 0 {
		w.Groups = []c03Group{{"same-pointer", c03Slots("prev", 0, nin-1)}}
	}
	return w
}

func c03Sharing(r *Runner, rnd *common.Rand) {
	c := r.C
	for _, f := range c03Fixed() {
		r.c03SharedCase(gen(rnd, f.nin, f.nout, false), f.w, rnd)
	}
	nRandom := 3
	if c.Thorough() {
		nRandom = 200
	}
	if c.Mode == "search" {
		nRandom += 40
	}
	for n := 0; n < nRandom; n++ {
		nin, nout := 2+rnd.Intn(3), 1+rnd.Intn(3)
		r.c03SharedCase(gen(rnd, nin, nout, c.Thorough()), c03RandomWiring(rnd, nin, nout, n), rnd)
	}
	c.Stats.Extra["c03_shared_graphs"] = map[string]int{"wirings": c03Stat.Wirings, "calls": c03Stat.Calls,
		"fields_reaching_a_cell_another_field_reaches": c03Stat.FieldsReachingASharedCell}
	c.Stats.Rule += " C03 sharing (c03_sharing.go): transactions whose object graph has SHARING or whose components are EQUAL - one *bscript.Script recorded as the previous script of several inputs," +
		" as previous script and unlocking / locking script at once, on all outputs; distinct script headers over one backing array; one *bt.Input / *bt.Output at several positions; and," +
		" in distinct objects, equal previous scripts, equal outpoints, wholly equal inputs / outputs (15 fixed wirings + random ones of 1..3 groups) x every in-range index x all 128 types," +
		" field values read back from the wired object; additionally the pointer-level shape of the caller's graph is compared before and after every call. Each wiring is two cases:" +
		" the value-level one, and the graph itself as a heap of model/SigHeap.v cells (one per distinct Go pointer) on which the pointer-level program is evaluated (14 types per index)."
}
