(** Counterexample search for bscript.EncodeParts (bscript/oppushdata.go) (printed as [EncodeParts] in gen/Funcs.v) against [encode_parts] of model/Push.v.
    NOT a proof and independent of proofs/GenFuncs_EncodeParts.v: it compiles whether or not the two sides agree and
    prints one line, "AGREE EncodeParts <candidates>" or "DISAGREE EncodeParts <input>" (see search/GenFuncsSearchLib.v,
    tools/gen_search.py).  Domain searched: the empty list, every one- and two-element list and some three-element lists of parts of the lengths 0, 1, 2, 75, 76, 77, 255, 256, 257, 65535, 65536, 65537 and the one-byte parts 00, 51, 81, 4c. *)
From Coq Require Import List ZArith NArith Bool String.
From Coq Require Import Strings.Byte.
From GoBT Require Import lib.Bytes lib.GoSem gen.Funcs search.GenFuncsSearchLib.
From GoBT Require model.Push.
Import ListNotations.
Local Open Scope Z_scope.
Set Printing Width 1000000.

Definition of_option (o : option bytes) : bytes * bool :=
  match o with Some p => (p, false) | None => ([], true) end.
Definition agree_EncodeParts (parts : list bytes) : bool :=
  M_eq (pair_eqb bytes_eqb Bool.eqb) (EncodeParts parts) (Val (of_option (Push.encode_parts parts))).
Definition candidates_EncodeParts : list (list bytes) := part_lists.
Definition show_EncodeParts := show_parts.

Definition first_disagreement_EncodeParts := find (fun x => negb (agree_EncodeParts x)) candidates_EncodeParts.

Eval vm_compute in (verdict "EncodeParts" show_EncodeParts agree_EncodeParts candidates_EncodeParts).
