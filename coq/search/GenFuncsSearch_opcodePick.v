(** Counterexample search for opcodePick (bscript/interpreter/operations.go) (printed as [opcodePick] in gen/Funcs.v) against the branch of [exec_handler] (model/Interp.v) for OP_PICK.
    NOT a proof and independent of proofs/GenFuncs_opcodePick.v: it compiles whether or not the two sides agree and
    prints one line, "AGREE opcodePick <candidates>" or "DISAGREE opcodePick <input>" (see search/GenFuncsSearchLib.v,
    search/GenFuncsSearchInterp.v -- loaded textually below --, tools/gen_search.py).  Domain searched: the small interpreter states of search/GenFuncsSearchInterp.v (354 data stacks of 0..6 items over a 12-item alphabet x both eras x MINIMALDATA off / on). *)
From Coq Require Import List ZArith NArith Bool String.
From Coq Require Import Strings.Byte.
From GoBT Require Import lib.Bytes lib.GoSem lib.GoInterp gen.Funcs search.GenFuncsSearchLib.
From GoBT Require model.Interp model.ScriptNum.
Import ListNotations.
Local Open Scope Z_scope.
Set Printing Width 1000000.
Load GenFuncsSearchInterp.

Definition agree_opcodePick : si_state -> bool :=
  si_agree_handler Interp.OP_PICK (fun c s => h_view s (opcodePick (Interp.max_numlen c) (Interp.has_flag c Interp.F_MINIMALDATA) (Interp.after_genesis c) (rev (Interp.ds s)))).
Definition candidates_opcodePick : list si_state := si_states.
Definition show_opcodePick := si_show_state.

Definition first_disagreement_opcodePick := find (fun x => negb (agree_opcodePick x)) candidates_opcodePick.

Eval vm_compute in (verdict "opcodePick" show_opcodePick agree_opcodePick candidates_opcodePick).
