(** Counterexample search for ParsedOpcode.enforceMinimumDataPush (bscript/interpreter/opcodeparser.go) (printed as [ParsedOpcode_enforceMinimumDataPush] in gen/Funcs.v) against the negation of [minimal_push_ok] of model/Interp.v.
    NOT a proof and independent of proofs/GenFuncs_ParsedOpcode_enforceMinimumDataPush.v: it compiles whether or not the two sides agree and
    prints one line, "AGREE ParsedOpcode_enforceMinimumDataPush <candidates>" or "DISAGREE ParsedOpcode_enforceMinimumDataPush <input>" (see search/GenFuncsSearchLib.v,
    tools/gen_search.py).  Domain searched: opcode values 0..78 (the domain of the theorem: the engine calls the function only up to OP_PUSHDATA4) x data: empty, all 256 one-byte strings, two-byte strings, lengths 2..80, 252..258, 65534..65538. *)
From Coq Require Import List ZArith NArith Bool String.
From Coq Require Import Strings.Byte.
From GoBT Require Import lib.Bytes lib.GoSem gen.Funcs search.GenFuncsSearchLib.
From GoBT Require model.Interp.
Import ListNotations.
Local Open Scope Z_scope.
Set Printing Width 1000000.

Definition agree_ParsedOpcode_enforceMinimumDataPush (x : N * bdesc * bytes) : bool :=
  let '(v, _, b) := x in
  M_eq Bool.eqb (ParsedOpcode_enforceMinimumDataPush (Z.of_N v) b) (Val (negb (Interp.minimal_push_ok (Interp.mkPop v 1 b true)))).
Definition datas : list bdesc :=
  Lit [] :: map (fun b => Lit [b]) all_bytes
  ++ strings_of (lens_small ++ lens_mid) [x01] [x00] [x01].
Definition candidates_ParsedOpcode_enforceMinimumDataPush : list (N * bdesc * bytes) :=
  flat_map (fun d => let b := expand d in map (fun v => (v, d, b)) (upto 79)) datas
  ++ flat_map (fun d => let b := expand d in map (fun v => (v, d, b)) [0; 1; 75; 76; 77; 78]%N) (strings_of lens_big [x00] [x00] [x00]).
Definition show_ParsedOpcode_enforceMinimumDataPush (x : N * bdesc * bytes) : string :=
  let '(v, d, _) := x in ("op=" ++ dec_N v ++ ",data=" ++ show_bdesc d)%string.

Definition first_disagreement_ParsedOpcode_enforceMinimumDataPush := find (fun x => negb (agree_ParsedOpcode_enforceMinimumDataPush x)) candidates_ParsedOpcode_enforceMinimumDataPush.

Eval vm_compute in (verdict "ParsedOpcode_enforceMinimumDataPush" show_ParsedOpcode_enforceMinimumDataPush agree_ParsedOpcode_enforceMinimumDataPush candidates_ParsedOpcode_enforceMinimumDataPush).
