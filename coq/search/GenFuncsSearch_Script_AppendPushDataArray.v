(** Counterexample search for Script.AppendPushDataArray (bscript/script.go) (printed as [Script_AppendPushDataArray] in gen/Funcs.v) against [append_push_data_array] of model/Inscription.v.
    NOT a proof and independent of proofs/GenFuncs_Script_AppendPushDataArray.v: it compiles whether or not the two sides agree and
    prints one line, "AGREE Script_AppendPushDataArray <candidates>" or "DISAGREE Script_AppendPushDataArray <input>" (see search/GenFuncsSearchLib.v,
    tools/gen_search.py).  Domain searched: three scripts x the part lists of boundary lengths (0, 1, 2, 75, 76, 77, 255, 256, 257, 65535, 65536, 65537; one, two and some three parts). *)
From Coq Require Import List ZArith NArith Bool String.
From Coq Require Import Strings.Byte.
From GoBT Require Import lib.Bytes lib.GoSem gen.Funcs search.GenFuncsSearchLib.
From GoBT Require model.Push model.Inscription.
Import ListNotations.
Local Open Scope Z_scope.
Set Printing Width 1000000.

Definition of_append (s : bytes) (o : option bytes) : bytes * bool :=
  match o with Some s' => (s', false) | None => (s, true) end.
Definition scripts_before : list bytes := [[]; [x51]; [x76; xa9]].
Definition agree_Script_AppendPushDataArray (x : bytes * list bytes) : bool :=
  M_eq (pair_eqb bytes_eqb Bool.eqb) (Script_AppendPushDataArray (snd x) (fst x)) (Val (of_append (fst x) (Inscription.append_push_data_array (fst x) (snd x)))).
Definition candidates_Script_AppendPushDataArray : list (bytes * list bytes) := flat_map (fun s => map (fun dd => (s, dd)) part_lists) scripts_before.
Definition show_Script_AppendPushDataArray (x : bytes * list bytes) : string := ("script=" ++ hex_bytes (fst x) ++ "," ++ show_parts (snd x))%string.

Definition first_disagreement_Script_AppendPushDataArray := find (fun x => negb (agree_Script_AppendPushDataArray x)) candidates_Script_AppendPushDataArray.

Eval vm_compute in (verdict "Script_AppendPushDataArray" show_Script_AppendPushDataArray agree_Script_AppendPushDataArray candidates_Script_AppendPushDataArray).
