(** Counterexample search for the function-body translator: shared candidate generators and renderers.

    search/GenFuncsSearch_<fn>.v compares the Gallina printed from the Go source of <fn> (gen/Funcs.v) with the
    model function on a finite candidate list, by computation, and prints ONE line
        "AGREE <fn> <number of candidates>"      or      "DISAGREE <fn> <input>"
    (tools/gen_search.py parses it).  Nothing here is a proof and nothing depends on the equivalence proofs:
    the files compile whether or not the two sides agree.  This directory is NOT part of the Coq project built by
    [make]: the files are compiled on demand, one function at a time. *)
From Coq Require Import List ZArith NArith Bool String Ascii.
From Coq Require Import Strings.Byte.
From GoBT Require Import lib.Bytes lib.GoSem.
Import ListNotations.
Local Open Scope Z_scope.

(** ** comparing outcomes structurally *)
Definition M_eq {A} (eqb : A -> A -> bool) (x y : M A) : bool :=
  match x, y with Val a, Val b => eqb a b | Panic, Panic => true | NoFuel, NoFuel => true | _, _ => false end.
Definition pair_eqb {A B} (ea : A -> A -> bool) (eb : B -> B -> bool) (x y : A * B) : bool :=
  ea (fst x) (fst y) && eb (snd x) (snd y).

(** ** rendering *)
Definition digit (n : N) : string :=
  String (Ascii.ascii_of_N (48 + n)) EmptyString.
Fixpoint dec_fuel (fuel : nat) (n : N) (acc : string) : string :=
  match fuel with
  | O => acc
  | S k => let acc' := (digit (n mod 10) ++ acc)%string in
           if (n / 10 =? 0)%N then acc' else dec_fuel k (n / 10)%N acc'
  end.
Definition dec_N (n : N) : string := dec_fuel 40 n EmptyString.
Definition dec_Z (z : Z) : string :=
  if z <? 0 then ("-" ++ dec_N (Z.to_N (- z)))%string else dec_N (Z.to_N z).
Definition hexdigit (n : N) : string :=
  String (Ascii.ascii_of_N (if (n <? 10)%N then 48 + n else 87 + n)) EmptyString.
Definition hex_byte (b : byte) : string := (hexdigit (b2n b / 16) ++ hexdigit (b2n b mod 16))%string.
Fixpoint hex_bytes (l : bytes) : string :=
  match l with [] => EmptyString | b :: r => (hex_byte b ++ hex_bytes r)%string end.
Definition show_bool (b : bool) : string := if b then "true"%string else "false"%string.
Fixpoint join (sep : string) (l : list string) : string :=
  match l with [] => EmptyString | [x] => x | x :: r => (x ++ sep ++ join sep r)%string end.
Definition show_Zs (l : list Z) : string := ("[" ++ join "," (map dec_Z l) ++ "]")%string.

(** ** byte strings as descriptors, so that long inputs are built (and printed) compactly:
    [Lit l] is the list [l]; [Rep first fill n last] is [first :: fill^n ++ [last]] (n + 2 bytes) *)
Inductive bdesc := Lit (l : bytes) | Rep (first fill : byte) (n : nat) (last : byte).
Definition expand (d : bdesc) : bytes :=
  match d with Lit l => l | Rep f m n l => f :: repeat m n ++ [l] end.
Definition show_bdesc (d : bdesc) : string :=
  match d with
  | Lit l => ("hex:" ++ hex_bytes l)%string
  | Rep f m n l =>
      if Nat.leb n 98 then ("hex:" ++ hex_bytes (expand d))%string
      else ("len=" ++ dec_N (N.of_nat n + 2) ++ ",first=" ++ hex_byte f ++ ",fill=" ++ hex_byte m ++ "(x" ++ dec_N (N.of_nat n) ++ "),last=" ++ hex_byte l)%string
  end.

(** ** candidates *)
Definition upto (n : nat) : list N := map N.of_nat (seq 0 n).
Definition all_bytes : bytes := map n2b (upto 256).
Definition all_ops : list N := upto 256.

(** the bytes that matter to script-number, push and template code *)
Definition alphabet : bytes :=
  [x00; x01; x02; x0f; x10; x11; x14; x4b; x4c; x4d; x4e; x4f; x50; x51; x60; x61; x6a; x76; x7f; x80; x81; x87; x88; xa9; xac; xfe; xff].
Definition small_alphabet : bytes := [x00; x01; x10; x11; x7f; x80; x81; xff].

(** every boundary +-2 of every power of two up to 2^64 and of the constants of the varint / push / flag code *)
Definition int_constants : list Z :=
  [0; 16; 17; 75; 76; 77; 78; 79; 80; 81; 96; 106; 129; 252; 253; 254; 255; 256; 520; 65535; 65536;
   4194304; 4259839; 500000000; 2147483647; 4294967295; 4294967296; 281474976710656;
   9223372036854775807; 18446744073709551615].
Definition around (z : Z) : list Z := [z - 2; z - 1; z; z + 1; z + 2].
Definition pow2s : list Z := map (fun k => 2 ^ Z.of_nat k) (seq 0 65).
Definition boundaries : list Z := flat_map around (pow2s ++ int_constants).
Definition boundaries_in (lo hi : Z) : list Z := filter (fun z => (lo <=? z) && (z <=? hi)) boundaries.
Fixpoint count_up (n : nat) (from : Z) : list Z :=
  match n with O => [] | S k => from :: count_up k (from + 1) end.
Definition range_Z (n : N) : list Z := count_up (N.to_nat n) 0.

(** a fixed linear congruential generator (Numerical Recipes), 32-bit words *)
Fixpoint lcg (n : nat) (x : N) : list N :=
  match n with O => [] | S k => let y := ((1664525 * x + 1013904223) mod 4294967296)%N in y :: lcg k y end.

(** all one- and two-bit masks of a 32-bit word *)
Definition one_bit : list N := map (fun k => 2 ^ N.of_nat k)%N (seq 0 32).
Definition two_bit : list N := flat_map (fun a => map (fun b => N.lor a b) one_bit) one_bit.

(** byte strings: every length 0..80 and 252..258 with first / last byte over a small alphabet, the lengths around
    2^16 with a few, one- and two-byte strings over the larger alphabet *)
Definition lens_small : list nat := seq 0 79.                         (* n + 2 = 2..80 *)
Definition lens_mid : list nat := seq 250 7.                          (* n + 2 = 252..258 *)
Definition lens_big : list nat := seq (N.to_nat 65532) 5.             (* n + 2 = 65534..65538 *)
Definition strings_of (lens : list nat) (firsts fills lasts : bytes) : list bdesc :=
  flat_map (fun n => flat_map (fun f => flat_map (fun m => map (fun l => Rep f m n l) lasts) fills) firsts) lens.
(** without the lengths around 2^16 (for functions that walk the whole string) *)
Definition byte_strings_short : list bdesc :=
  Lit [] :: map (fun b => Lit [b]) all_bytes
  ++ flat_map (fun a => map (fun b => Lit [a; b]) alphabet) alphabet
  ++ strings_of lens_small small_alphabet [x00; x80; x01] small_alphabet
  ++ strings_of lens_mid [x00; x81; xff] [x00; x80; x01] [x00; x01; x7f; x80; x81].
Definition byte_strings : list bdesc :=
  byte_strings_short ++ strings_of lens_big [x00; x81] [x00] [x00; x80; x01].

(** a template with every byte position mutated through a few values, every prefix of it, and it with a byte
    appended *)
Fixpoint mutate_each (pre l : bytes) (vals : bytes) : list bytes :=
  match l with
  | [] => []
  | b :: r => map (fun v => rev pre ++ v :: r) vals ++ mutate_each (b :: pre) r vals
  end.
Fixpoint prefixes (l : bytes) : list bytes :=
  match l with [] => [[]] | b :: r => [] :: map (cons b) (prefixes r) end.
Definition script_mutants (templates : list bytes) : list bytes :=
  flat_map (fun t => t :: mutate_each [] t alphabet ++ prefixes t ++ map (fun v => t ++ [v]) small_alphabet) templates.

(** ** the verdict line *)
Definition verdict {A} (fn : string) (show : A -> string) (agree : A -> bool) (cands : list A) : string :=
  match find (fun x => negb (agree x)) cands with
  | Some x => ("DISAGREE " ++ fn ++ " " ++ show x)%string
  | None => ("AGREE " ++ fn ++ " " ++ dec_N (N.of_nat (List.length cands)))%string
  end.

(** ** scripts: candidates for the push-data codec and the script classifiers (search/GenFuncsSearch_DecodeParts.v,
    _Script_IsP2PK.v, ...): every script of at most 2 bytes; the standard templates with every byte position mutated,
    every prefix of them, a byte appended; truncated and exact pushes in all four forms, with lengths whose little- and
    big-endian readings differ; pushes of the boundary lengths 0, 1, 75, 76, 255, 256 *)
Definition all_scripts_le2 : list bytes :=
  [] :: map (fun b => [b]) all_bytes ++ flat_map (fun a => map (fun b => [a; b]) all_bytes) all_bytes.
Definition push_of (d : bytes) : bytes :=
  let n := N.of_nat (List.length d) in
  if (n <=? 75)%N then n2b n :: d else if (n <=? 255)%N then x4c :: n2b n :: d
  else if (n <=? 65535)%N then x4d :: le_enc 2 n ++ d else x4e :: le_enc 4 n ++ d.
Definition tpl_p2pkh : bytes := [x76; xa9; x14] ++ repeat x11 20 ++ [x88; xac].
Definition tpl_p2pk33 : bytes := x21 :: x02 :: repeat x11 32 ++ [xac].
Definition tpl_p2pk65 : bytes := x41 :: x04 :: repeat x11 64 ++ [xac].
Definition tpl_p2sh : bytes := [xa9; x14] ++ repeat x11 20 ++ [x87].
Definition tpl_multisig : bytes := [x51] ++ (x21 :: x02 :: repeat x11 32) ++ (x21 :: x03 :: repeat x22 32) ++ [x52; xae].
Definition tpl_multisig_short : bytes := [x51; x01; x02; x51; xae].
Definition tpl_inscription : bytes :=
  tpl_p2pkh ++ [x00; x63; x03; x6f; x72; x64; x51; x04; x74; x65; x78; x74; x00; x02; x68; x69; x68].
Definition script_templates : list bytes :=
  [ tpl_p2pkh; tpl_p2pk33; tpl_p2pk65; tpl_p2sh; tpl_multisig; tpl_multisig_short; [x51; x51; xae]; [x00; x00; xae];
    tpl_inscription; tpl_inscription ++ [x6a; x01; x02]; tpl_inscription ++ [x4c; x00];
    [x6a; x02; x01; x02]; [x00; x6a; x01; xff]; [x6a]; [x00; x6a];
    [x76; xa9; x4c; x14] ++ repeat x11 20 ++ [x88; xac]; [x76; xa9; x00; x88; xac]; [x76; xa9; x4c; x00] ].
Definition push_cases : list bytes :=
  (* direct pushes: short by 1, exact, one more *)
  [ [x05; x01; x02; x03; x04]; [x05; x01; x02; x03; x04; x05]; [x05; x01; x02; x03; x04; x05; x06]; [x4b]; x4b :: repeat x07 74; x4b :: repeat x07 75;
    (* OP_PUSHDATA1 *)
    [x4c]; [x4c; x00]; [x4c; x00; x51]; [x4c; x03; x01; x02]; [x4c; x03; x01; x02; x03]; [x4c; x03; x01; x02; x03; x04]; [x4c; xff];
    x4c :: xff :: repeat x07 254; x4c :: xff :: repeat x07 255; x4c :: x4c :: repeat x07 76;
    (* OP_PUSHDATA2: 0x0100 is 256 little-endian, 1 big-endian; 0x0001 is 1 little-endian, 256 big-endian *)
    [x4d]; [x4d; x02]; [x4d; x00; x00]; [x4d; x02; x00; x01]; [x4d; x02; x00; x01; x02]; [x4d; x02; x00; x01; x02; x03];
    [x4d; x01; x00; x09]; [x4d; x01; x00; x09; x0a]; [x4d; x00; x01; x09]; x4d :: x00 :: x01 :: repeat x07 255; x4d :: x00 :: x01 :: repeat x07 256;
    x4d :: x00 :: x01 :: repeat x07 257; [x4d; xff; xff; x01];
    (* OP_PUSHDATA4 *)
    [x4e]; [x4e; x01]; [x4e; x01; x00; x00]; [x4e; x00; x00; x00; x00]; [x4e; x01; x00; x00; x00]; [x4e; x01; x00; x00; x00; x09];
    [x4e; x01; x00; x00; x00; x09; x0a]; [x4e; x00; x00; x00; x01; x09]; [x4e; x00; x01; x00; x00; x09]; x4e :: x00 :: x01 :: x00 :: x00 :: repeat x07 256;
    [x4e; xff; xff; xff; xff; x01]; [x4e; x00; x00; x00; x80; x01] ]
  ++ flat_map (fun n => let p := push_of (repeat x07 n) in [p; p ++ [x51]; x51 :: p; p ++ p; removelast p])
       [0; 1; 2; 75; 76; 77; 255; 256; 257]%nat.
(** public keys of every version byte 2..8 and the lengths around 33 and 65, followed by OP_CHECKSIG; multisig scripts with
    an empty part (an OP_PUSHDATA1 of no bytes) in each position *)
Definition p2pk_cases : list bytes :=
  flat_map (fun v => map (fun n => push_of (v :: repeat x11 (n - 1)) ++ [xac]) [32; 33; 34; 64; 65; 66]%nat) [x02; x03; x04; x05; x06; x07; x08].
Definition multisig_cases : list bytes :=
  [ [x51; x4c; x00; x51; xae]; [x51; x01; x02; x4c; x00; x52; xae]; [x51; x4c; x00; x01; x02; x52; xae]; [x51; x01; x02; x01; x03; x4c; x00; x52; xae];
    [x4c; x00; x01; x02; x51; xae]; [x51; x01; x02; x4c; x00; xae]; [x51; x01; x02; x51; x4c; x00]; [x51; x01; x02; x51; xaf]; [x60; x01; x02; x60; xae];
    [x61; x01; x02; x51; xae]; [x51; x01; x02; x61; xae]; [x50; x01; x02; x51; xae]; [x51; x51; x51; x51; xae] ].
Definition script_candidates : list bytes := script_mutants script_templates ++ push_cases ++ p2pk_cases ++ multisig_cases ++ all_scripts_le2.
Definition show_script (b : bytes) : string := ("hex:" ++ hex_bytes b)%string.

(** part lists (the input of EncodeParts, the output of DecodeParts) with the boundary lengths *)
Definition boundary_part_lens : list nat := [0; 1; 2; 75; 76; 77; 255; 256; 257; 65535; 65536; 65537]%nat.
Definition part_lists : list (list bytes) :=
  let ps := map (fun n => repeat x07 n) boundary_part_lens ++ [[x00]; [x51]; [x81]; [x4c]] in
  [] :: map (fun p => [p]) ps ++ flat_map (fun p => map (fun q => [p; q]) ps) ps
  ++ map (fun p => [p; [x01]; p]) ps.
Definition show_parts (l : list bytes) : string :=
  ("parts:[" ++ join "," (map (fun p => if Nat.eqb (List.length p) 0 then "empty"%string else if Nat.leb (List.length p) 40 then hex_bytes p
                                       else (dec_N (N.of_nat (List.length p)) ++ "x" ++ match p with b :: _ => hex_byte b | [] => "" end)%string) l) ++ "]")%string.
Fixpoint list_eqb {A} (eqb : A -> A -> bool) (x y : list A) : bool :=
  match x, y with
  | [], [] => true
  | a :: r, b :: s => eqb a b && list_eqb eqb r s
  | _, _ => false
  end.
