(** Counterexample search for VarInt.UpperLimitInc (varint.go) (printed as [VarInt_UpperLimitInc] in gen/Funcs.v) against [upper_limit_inc] of lib/VarInt.v.
    NOT a proof and independent of proofs/GenFuncs_VarInt_UpperLimitInc.v: it compiles whether or not the two sides agree and
    prints one line, "AGREE VarInt_UpperLimitInc <candidates>" or "DISAGREE VarInt_UpperLimitInc <input>" (see search/GenFuncsSearchLib.v,
    tools/gen_search.py).  Domain searched: 0..69999 and every boundary of a power of two / code constant below 2^64. *)
From Coq Require Import List ZArith NArith Bool String.
From Coq Require Import Strings.Byte.
From GoBT Require Import lib.Bytes lib.GoSem gen.Funcs search.GenFuncsSearchLib.
From GoBT Require Import lib.VarInt.
Import ListNotations.
Local Open Scope Z_scope.
Set Printing Width 1000000.

Definition agree_VarInt_UpperLimitInc (v : N) : bool :=
  M_eq Z.eqb (VarInt_UpperLimitInc (Z.of_N v)) (Val (upper_limit_inc v)).
Definition candidates_VarInt_UpperLimitInc : list N :=
  map Z.to_N (range_Z 70000%N ++ boundaries_in 0 18446744073709551615).
Definition show_VarInt_UpperLimitInc (v : N) : string := dec_N v.

Definition first_disagreement_VarInt_UpperLimitInc := find (fun x => negb (agree_VarInt_UpperLimitInc x)) candidates_VarInt_UpperLimitInc.

Eval vm_compute in (verdict "VarInt_UpperLimitInc" show_VarInt_UpperLimitInc agree_VarInt_UpperLimitInc candidates_VarInt_UpperLimitInc).
