(** Counterexample search for LittleEndianBytes (bytemanipulation.go) (printed as [LittleEndianBytes] in gen/Funcs.v) against
    [le_enc 4] of lib/Bytes.v with the length 4 (and Go's panic for a shorter length).
    NOT a proof and independent of proofs/GenFuncs_LittleEndianBytes.v: it compiles whether or not the two sides agree and
    prints one line, "AGREE LittleEndianBytes <candidates>" or "DISAGREE LittleEndianBytes <input>".
    Domain searched: every boundary value below 2^32 x lengths 0..4. *)
From Coq Require Import List ZArith NArith Bool String.
From Coq Require Import Strings.Byte.
From GoBT Require Import lib.Bytes lib.GoSem lib.GoTx gen.Funcs search.GenFuncsSearchLib.
Import ListNotations.
Local Open Scope Z_scope.
Set Printing Width 1000000.

Definition agree_LittleEndianBytes (vl : Z * Z) : bool :=
  let (v, l) := vl in
  M_eq bytes_eqb (LittleEndianBytes v l) (if l <? 4 then Panic else Val (le_enc 4 (Z.to_N v))).
Definition candidates_LittleEndianBytes : list (Z * Z) :=
  flat_map (fun v => map (fun l => (v, l)) [0; 1; 2; 3; 4]) (boundaries_in 0 4294967295).
Definition show_LittleEndianBytes (vl : Z * Z) : string := ("v=" ++ dec_Z (fst vl) ++ ",l=" ++ dec_Z (snd vl))%string.

Eval vm_compute in (verdict "LittleEndianBytes" show_LittleEndianBytes agree_LittleEndianBytes candidates_LittleEndianBytes).
