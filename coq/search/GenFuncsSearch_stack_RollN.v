(** Counterexample search for stack.RollN (bscript/interpreter/stack.go) (printed as [stack_RollN] in gen/Funcs.v) against its meaning in the model's order (the right-hand side of C05_go_source_stack_RollN_is_model, Properties/Gen_stack_RollN.v).
    NOT a proof and independent of proofs/GenFuncs_stack_RollN.v: it compiles whether or not the two sides agree and
    prints one line, "AGREE stack_RollN <candidates>" or "DISAGREE stack_RollN <input>" (see search/GenFuncsSearchLib.v,
    search/GenFuncsSearchInterp.v -- loaded textually below --, tools/gen_search.py).  Domain searched: the 354 data stacks of search/GenFuncsSearchInterp.v (0..6 items over a 12-item alphabet) x the arguments -1..7. *)
From Coq Require Import List ZArith NArith Bool String.
From Coq Require Import Strings.Byte.
From GoBT Require Import lib.Bytes lib.GoSem lib.GoInterp gen.Funcs search.GenFuncsSearchLib.
From GoBT Require model.Interp model.ScriptNum.
Import ListNotations.
Local Open Scope Z_scope.
Set Printing Width 1000000.
Load GenFuncsSearchInterp.

Definition agree_stack_RollN (x : list bytes * Z) : bool := let '(d, n) := x in (M_eq (si_option_eqb si_stack_eqb)) (st_view (stack_RollN n (rev d))) (Val (Interp.roll_n n d)).
Definition candidates_stack_RollN : list (list bytes * Z) := si_stacks_idx.
Definition show_stack_RollN := si_show_stack_idx.

Definition first_disagreement_stack_RollN := find (fun x => negb (agree_stack_RollN x)) candidates_stack_RollN.

Eval vm_compute in (verdict "stack_RollN" show_stack_RollN agree_stack_RollN candidates_stack_RollN).
