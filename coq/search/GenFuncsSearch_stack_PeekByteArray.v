(** Counterexample search for stack.PeekByteArray (bscript/interpreter/stack.go) (printed as [stack_PeekByteArray] in gen/Funcs.v) against its meaning in the model's order (the right-hand side of C05_go_source_stack_PeekByteArray_is_model, Properties/Gen_stack_PeekByteArray.v).
    NOT a proof and independent of proofs/GenFuncs_stack_PeekByteArray.v: it compiles whether or not the two sides agree and
    prints one line, "AGREE stack_PeekByteArray <candidates>" or "DISAGREE stack_PeekByteArray <input>" (see search/GenFuncsSearchLib.v,
    search/GenFuncsSearchInterp.v -- loaded textually below --, tools/gen_search.py).  Domain searched: the 354 data stacks of search/GenFuncsSearchInterp.v (0..6 items over a 12-item alphabet) x the arguments -1..7. *)
From Coq Require Import List ZArith NArith Bool String.
From Coq Require Import Strings.Byte.
From GoBT Require Import lib.Bytes lib.GoSem lib.GoInterp gen.Funcs search.GenFuncsSearchLib.
From GoBT Require model.Interp model.ScriptNum.
Import ListNotations.
Local Open Scope Z_scope.
Set Printing Width 1000000.
Load GenFuncsSearchInterp.

Definition agree_stack_PeekByteArray (x : list bytes * Z) : bool := let '(d, n) := x in (M_eq (pair_eqb si_bytes_eqb Bool.eqb)) (stack_PeekByteArray n (rev d)) (Val (peek_model n d)).
Definition candidates_stack_PeekByteArray : list (list bytes * Z) := si_stacks_idx.
Definition show_stack_PeekByteArray := si_show_stack_idx.

Definition first_disagreement_stack_PeekByteArray := find (fun x => negb (agree_stack_PeekByteArray x)) candidates_stack_PeekByteArray.

Eval vm_compute in (verdict "stack_PeekByteArray" show_stack_PeekByteArray agree_stack_PeekByteArray candidates_stack_PeekByteArray).
