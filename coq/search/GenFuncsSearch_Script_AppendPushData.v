(** Counterexample search for Script.AppendPushData (bscript/script.go) (printed as [Script_AppendPushData] in gen/Funcs.v) against [append_push_data] of model/Inscription.v.
    NOT a proof and independent of proofs/GenFuncs_Script_AppendPushData.v: it compiles whether or not the two sides agree and
    prints one line, "AGREE Script_AppendPushData <candidates>" or "DISAGREE Script_AppendPushData <input>" (see search/GenFuncsSearchLib.v,
    tools/gen_search.py).  Domain searched: three scripts x data of the boundary lengths and the short byte strings (every length 0..80, 252..258). *)
From Coq Require Import List ZArith NArith Bool String.
From Coq Require Import Strings.Byte.
From GoBT Require Import lib.Bytes lib.GoSem gen.Funcs search.GenFuncsSearchLib.
From GoBT Require model.Push model.Inscription.
Import ListNotations.
Local Open Scope Z_scope.
Set Printing Width 1000000.

Definition of_append (s : bytes) (o : option bytes) : bytes * bool :=
  match o with Some s' => (s', false) | None => (s, true) end.
Definition scripts_before : list bytes := [[]; [x51]; [x76; xa9]].
Definition agree_Script_AppendPushData (x : bytes * bytes) : bool :=
  M_eq (pair_eqb bytes_eqb Bool.eqb) (Script_AppendPushData (snd x) (fst x)) (Val (of_append (fst x) (Inscription.append_push_data (fst x) (snd x)))).
Definition candidates_Script_AppendPushData : list (bytes * bytes) :=
  flat_map (fun s => map (fun d => (s, d)) (map (fun n => repeat x07 n) boundary_part_lens ++ map expand byte_strings_short)) scripts_before.
Definition show_Script_AppendPushData (x : bytes * bytes) : string := ("script=" ++ hex_bytes (fst x) ++ "," ++ show_parts [snd x])%string.

Definition first_disagreement_Script_AppendPushData := find (fun x => negb (agree_Script_AppendPushData x)) candidates_Script_AppendPushData.

Eval vm_compute in (verdict "Script_AppendPushData" show_Script_AppendPushData agree_Script_AppendPushData candidates_Script_AppendPushData).
