(** Counterexample search for opcodeSize (bscript/interpreter/operations.go) (printed as [opcodeSize] in gen/Funcs.v) against the branch of [exec_handler] (model/Interp.v) for OP_SIZE.
    NOT a proof and independent of proofs/GenFuncs_opcodeSize.v: it compiles whether or not the two sides agree and
    prints one line, "AGREE opcodeSize <candidates>" or "DISAGREE opcodeSize <input>" (see search/GenFuncsSearchLib.v,
    search/GenFuncsSearchInterp.v -- loaded textually below --, tools/gen_search.py).  Domain searched: the small interpreter states of search/GenFuncsSearchInterp.v (354 data stacks of 0..6 items over a 12-item alphabet x both eras x MINIMALDATA off / on). *)
From Coq Require Import List ZArith NArith Bool String.
From Coq Require Import Strings.Byte.
From GoBT Require Import lib.Bytes lib.GoSem lib.GoInterp gen.Funcs search.GenFuncsSearchLib.
From GoBT Require model.Interp model.ScriptNum.
Import ListNotations.
Local Open Scope Z_scope.
Set Printing Width 1000000.
Load GenFuncsSearchInterp.

Definition agree_opcodeSize : si_state -> bool :=
  si_agree_handler Interp.OP_SIZE (fun c s => h_view s (opcodeSize (rev (Interp.ds s)))).
Definition candidates_opcodeSize : list si_state := si_states.
Definition show_opcodeSize := si_show_state.

Definition first_disagreement_opcodeSize := find (fun x => negb (agree_opcodeSize x)) candidates_opcodeSize.

Eval vm_compute in (verdict "opcodeSize" show_opcodeSize agree_opcodeSize candidates_opcodeSize).
