(** Counterexample search for VarInt.Bytes (varint.go) (printed as [VarInt_Bytes] in gen/Funcs.v) against [varint_bytes] of lib/VarInt.v.
    NOT a proof and independent of proofs/GenFuncs_VarInt_Bytes.v: it compiles whether or not the two sides agree and
    prints one line, "AGREE VarInt_Bytes <candidates>" or "DISAGREE VarInt_Bytes <input>" (see search/GenFuncsSearchLib.v,
    tools/gen_search.py).  Domain searched: 0..69999 and every boundary of a power of two / code constant below 2^64. *)
From Coq Require Import List ZArith NArith Bool String.
From Coq Require Import Strings.Byte.
From GoBT Require Import lib.Bytes lib.GoSem gen.Funcs search.GenFuncsSearchLib.
From GoBT Require Import lib.VarInt.
Import ListNotations.
Local Open Scope Z_scope.
Set Printing Width 1000000.

Definition agree_VarInt_Bytes (v : N) : bool :=
  M_eq bytes_eqb (VarInt_Bytes (Z.of_N v)) (Val (varint_bytes v)).
Definition candidates_VarInt_Bytes : list N :=
  map Z.to_N (range_Z 70000%N ++ boundaries_in 0 18446744073709551615).
Definition show_VarInt_Bytes (v : N) : string := dec_N v.

Definition first_disagreement_VarInt_Bytes := find (fun x => negb (agree_VarInt_Bytes x)) candidates_VarInt_Bytes.

Eval vm_compute in (verdict "VarInt_Bytes" show_VarInt_Bytes agree_VarInt_Bytes candidates_VarInt_Bytes).
