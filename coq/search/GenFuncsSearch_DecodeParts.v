(** Counterexample search for bscript.DecodeParts (bscript/oppushdata.go) (printed as [DecodeParts] in gen/Funcs.v) against [decode_parts] of model/Push.v (panic and fuel outcomes included).
    NOT a proof and independent of proofs/GenFuncs_DecodeParts.v: it compiles whether or not the two sides agree and
    prints one line, "AGREE DecodeParts <candidates>" or "DISAGREE DecodeParts <input>" (see search/GenFuncsSearchLib.v,
    tools/gen_search.py).  Domain searched: every script of at most 2 bytes; the standard templates (P2PKH, P2PK, P2SH, multisig, inscription, data) with every byte position mutated through 27 values, every prefix of them, one byte appended; truncated, exact and over-long pushes in all four forms, lengths whose little- and big-endian readings differ; pushes of 0, 1, 2, 75, 76, 77, 255, 256, 257 bytes alone, doubled, truncated, before and after an opcode. *)
From Coq Require Import List ZArith NArith Bool String.
From Coq Require Import Strings.Byte.
From GoBT Require Import lib.Bytes lib.GoSem gen.Funcs search.GenFuncsSearchLib.
From GoBT Require model.Push.
Import ListNotations.
Local Open Scope Z_scope.
Set Printing Width 1000000.

Definition of_dres (r : Push.dres) : M (list bytes * bool) :=
  match r with
  | Push.DOk l => Val (l, false) | Push.DErr l => Val (l, true) | Push.DPanic => Panic | Push.DFuel => NoFuel
  end.
Definition agree_DecodeParts (b : bytes) : bool :=
  M_eq (pair_eqb (list_eqb bytes_eqb) Bool.eqb) (DecodeParts b) (of_dres (Push.decode_parts b)).
Definition candidates_DecodeParts : list bytes := script_candidates.
Definition show_DecodeParts := show_script.

Definition first_disagreement_DecodeParts := find (fun x => negb (agree_DecodeParts x)) candidates_DecodeParts.

Eval vm_compute in (verdict "DecodeParts" show_DecodeParts agree_DecodeParts candidates_DecodeParts).
