(** Counterexample search for bscript.PushDataPrefix (bscript/oppushdata.go) (printed as [PushDataPrefix] in gen/Funcs.v) against [push_data_prefix] of model/Push.v, [push_prefix] of model/CheckSig.v and model/Fees.v.
    NOT a proof and independent of proofs/GenFuncs_PushDataPrefix.v: it compiles whether or not the two sides agree and
    prints one line, "AGREE PushDataPrefix <candidates>" or "DISAGREE PushDataPrefix <input>" (see search/GenFuncsSearchLib.v,
    tools/gen_search.py).  Domain searched: byte strings of every length 0..80, 252..258, 65534..65538. *)
From Coq Require Import List ZArith NArith Bool String.
From Coq Require Import Strings.Byte.
From GoBT Require Import lib.Bytes lib.GoSem gen.Funcs search.GenFuncsSearchLib.
From GoBT Require model.Push model.CheckSig model.Fees.
Import ListNotations.
Local Open Scope Z_scope.
Set Printing Width 1000000.

Definition of_option (o : option bytes) : bytes * bool :=
  match o with Some p => (p, false) | None => ([], true) end.
Definition agree_PushDataPrefix (d : bdesc) : bool :=
  let b := expand d in
  let r := PushDataPrefix b in
  M_eq (pair_eqb bytes_eqb Bool.eqb) r (Val (of_option (Push.push_data_prefix b)))
  && M_eq (pair_eqb bytes_eqb Bool.eqb) r (Val (of_option (CheckSig.push_prefix b)))
  && M_eq (pair_eqb bytes_eqb Bool.eqb) r (Val (Fees.push_prefix b, false)).
Definition candidates_PushDataPrefix : list bdesc := byte_strings.
Definition show_PushDataPrefix (d : bdesc) : string := show_bdesc d.

Definition first_disagreement_PushDataPrefix := find (fun x => negb (agree_PushDataPrefix x)) candidates_PushDataPrefix.

Eval vm_compute in (verdict "PushDataPrefix" show_PushDataPrefix agree_PushDataPrefix candidates_PushDataPrefix).
