(** Counterexample search for opcode2Swap (bscript/interpreter/operations.go) (printed as [opcode2Swap] in gen/Funcs.v) against the branch of [exec_handler] (model/Interp.v) for OP_2SWAP.
    NOT a proof and independent of proofs/GenFuncs_opcode2Swap.v: it compiles whether or not the two sides agree and
    prints one line, "AGREE opcode2Swap <candidates>" or "DISAGREE opcode2Swap <input>" (see search/GenFuncsSearchLib.v,
    search/GenFuncsSearchInterp.v -- loaded textually below --, tools/gen_search.py).  Domain searched: the small interpreter states of search/GenFuncsSearchInterp.v (354 data stacks of 0..6 items over a 12-item alphabet x both eras x MINIMALDATA off / on). *)
From Coq Require Import List ZArith NArith Bool String.
From Coq Require Import Strings.Byte.
From GoBT Require Import lib.Bytes lib.GoSem lib.GoInterp gen.Funcs search.GenFuncsSearchLib.
From GoBT Require model.Interp model.ScriptNum.
Import ListNotations.
Local Open Scope Z_scope.
Set Printing Width 1000000.
Load GenFuncsSearchInterp.

Definition agree_opcode2Swap : si_state -> bool :=
  si_agree_handler Interp.OP_2SWAP (fun c s => h_view s (opcode2Swap (rev (Interp.ds s)))).
Definition candidates_opcode2Swap : list si_state := si_states.
Definition show_opcode2Swap := si_show_state.

Definition first_disagreement_opcode2Swap := find (fun x => negb (agree_opcode2Swap x)) candidates_opcode2Swap.

Eval vm_compute in (verdict "opcode2Swap" show_opcode2Swap agree_opcode2Swap candidates_opcode2Swap).
