(** Counterexample search for sighash.Flag.HasWithMask (sighash/flag.go) (printed as [Flag_HasWithMask] in gen/Funcs.v) against [flag_has_with_mask] of model/SigHash.v.
    NOT a proof and independent of proofs/GenFuncs_Flag_HasWithMask.v: it compiles whether or not the two sides agree and
    prints one line, "AGREE Flag_HasWithMask <candidates>" or "DISAGREE Flag_HasWithMask <input>" (see search/GenFuncsSearchLib.v,
    tools/gen_search.py).  Domain searched: all 65536 pairs of byte values. *)
From Coq Require Import List ZArith NArith Bool String.
From Coq Require Import Strings.Byte.
From GoBT Require Import lib.Bytes lib.GoSem gen.Funcs search.GenFuncsSearchLib.
From GoBT Require model.SigHash.
Import ListNotations.
Local Open Scope Z_scope.
Set Printing Width 1000000.

Definition agree_Flag_HasWithMask (x : N * N) : bool :=
  M_eq Bool.eqb (Flag_HasWithMask (Z.of_N (fst x)) (Z.of_N (snd x))) (Val (SigHash.flag_has_with_mask (fst x) (snd x))).
Definition candidates_Flag_HasWithMask : list (N * N) := flat_map (fun f => map (fun shf => (f, shf)) all_ops) all_ops.
Definition show_Flag_HasWithMask (x : N * N) : string := ("f=" ++ dec_N (fst x) ++ ",shf=" ++ dec_N (snd x))%string.

Definition first_disagreement_Flag_HasWithMask := find (fun x => negb (agree_Flag_HasWithMask x)) candidates_Flag_HasWithMask.

Eval vm_compute in (verdict "Flag_HasWithMask" show_Flag_HasWithMask agree_Flag_HasWithMask candidates_Flag_HasWithMask).
