(** Counterexample search for thread.shouldExec (bscript/interpreter/thread.go) (printed as [thread_shouldExec] in gen/Funcs.v) against [should_exec] of model/Interp.v.
    NOT a proof and independent of proofs/GenFuncs_thread_shouldExec.v: it compiles whether or not the two sides agree and
    prints one line, "AGREE thread_shouldExec <candidates>" or "DISAGREE thread_shouldExec <input>" (see search/GenFuncsSearchLib.v,
    tools/gen_search.py).  Domain searched: afterGenesis x earlyReturnAfterGenesis x every condition stack over 0..2 up to length 5 (printed as the Go slice, top last) x opcode values 0, 105, 106, 107, 255. *)
From Coq Require Import List ZArith NArith Bool String.
From Coq Require Import Strings.Byte.
From GoBT Require Import lib.Bytes lib.GoSem gen.Funcs search.GenFuncsSearchLib.
From GoBT Require model.Interp.
Import ListNotations.
Local Open Scope Z_scope.
Set Printing Width 1000000.

(** every condition stack (in the MODEL's order, top first) over the values [vals] up to length [n] *)
Fixpoint stacks (vals : list N) (n : nat) : list (list N) :=
  match n with
  | O => [[]]
  | S k => [] :: flat_map (fun v => map (cons v) (stacks vals k)) vals
  end.
Definition go_cond_stack (cs : list N) : list Z := map Z.of_N (rev cs).
Definition st_of (cs : list N) (early : bool) : Interp.st := Interp.mkSt [] [] cs [] 0 0 early [].
Definition ctx_of (ag : bool) : Interp.ctx := Interp.mkCtx (if ag then 2 ^ Interp.F_GENESIS else 0)%N false 0 0 0 false.
Definition agree_thread_shouldExec (x : bool * list N * bool * N) : bool :=
  let '(ag, cs, early, v) := x in
  Bool.eqb (Interp.after_genesis (ctx_of ag)) ag
  && M_eq Bool.eqb (thread_shouldExec ag (go_cond_stack cs) early (Z.of_N v)) (Val (Interp.should_exec (ctx_of ag) (st_of cs early) v)).
Definition candidates_thread_shouldExec : list (bool * list N * bool * N) :=
  flat_map (fun ag => flat_map (fun early => flat_map (fun cs => map (fun v => (ag, cs, early, v)) [0; 105; 106; 107; 255]%N)
    (stacks [0; 1; 2]%N 5)) [false; true]) [true; false].
Definition show_thread_shouldExec (x : bool * list N * bool * N) : string :=
  let '(ag, cs, early, v) := x in
  ("afterGenesis=" ++ show_bool ag ++ ",condStack=" ++ show_Zs (go_cond_stack cs) ++ ",earlyReturnAfterGenesis=" ++ show_bool early ++ ",op=" ++ dec_N v)%string.

Definition first_disagreement_thread_shouldExec := find (fun x => negb (agree_thread_shouldExec x)) candidates_thread_shouldExec.

Eval vm_compute in (verdict "thread_shouldExec" show_thread_shouldExec agree_thread_shouldExec candidates_thread_shouldExec).
