(** Counterexample search for stack.PeekInt (bscript/interpreter/stack.go) (printed as [stack_PeekInt] in gen/Funcs.v) against its meaning in the model's order (the right-hand side of C05_go_source_stack_PeekInt_is_model, Properties/Gen_stack_PeekInt.v).
    NOT a proof and independent of proofs/GenFuncs_stack_PeekInt.v: it compiles whether or not the two sides agree and
    prints one line, "AGREE stack_PeekInt <candidates>" or "DISAGREE stack_PeekInt <input>" (see search/GenFuncsSearchLib.v,
    search/GenFuncsSearchInterp.v -- loaded textually below --, tools/gen_search.py).  Domain searched: the small interpreter states of search/GenFuncsSearchInterp.v (354 data stacks of 0..6 items over a 12-item alphabet x both eras x MINIMALDATA off / on) (the stack's maxNumLength / verifyMinimalData / afterGenesis as the engine sets them) x the arguments -1..7. *)
From Coq Require Import List ZArith NArith Bool String.
From Coq Require Import Strings.Byte.
From GoBT Require Import lib.Bytes lib.GoSem lib.GoInterp gen.Funcs search.GenFuncsSearchLib.
From GoBT Require model.Interp model.ScriptNum.
Import ListNotations.
Local Open Scope Z_scope.
Set Printing Width 1000000.
Load GenFuncsSearchInterp.

Definition agree_stack_PeekInt (x : si_state * Z) : bool :=
  let '((ag, md, d, a), n) := x in let c := si_ctx ag md in
  let mx := Interp.max_numlen c in let mn := Interp.has_flag c Interp.F_MINIMALDATA in
  (M_eq (pair_eqb Z.eqb Bool.eqb)) (stack_PeekInt n mx mn ag (rev d)) (Val (match peek_model n d with (x, false) => sn_make x mx mn ag | (_, true) => (sn_nil, true) end)).
Definition candidates_stack_PeekInt : list (si_state * Z) := si_states_idx.
Definition show_stack_PeekInt := si_show_state_idx.

Definition first_disagreement_stack_PeekInt := find (fun x => negb (agree_stack_PeekInt x)) candidates_stack_PeekInt.

Eval vm_compute in (verdict "stack_PeekInt" show_stack_PeekInt agree_stack_PeekInt candidates_stack_PeekInt).
