(** Counterexample search for stack.SwapN (bscript/interpreter/stack.go) (printed as [stack_SwapN] in gen/Funcs.v) against its meaning in the model's order (the right-hand side of C05_go_source_stack_SwapN_is_model, Properties/Gen_stack_SwapN.v for n = 1, 2, 3, and C05_go_source_stack_SwapN_is_spec_all_n, Properties/GenAll_stack_SwapN.v, for every n).
    NOT a proof and independent of proofs/GenFuncs_stack_SwapN.v: it compiles whether or not the two sides agree and
    prints one line, "AGREE stack_SwapN <candidates>" or "DISAGREE stack_SwapN <input>" (see search/GenFuncsSearchLib.v,
    search/GenFuncsSearchInterp.v -- loaded textually below --, tools/gen_search.py).  Domain searched: the 354 data stacks of search/GenFuncsSearchInterp.v (0..6 items over a 12-item alphabet) x the arguments -1..7. *)
From Coq Require Import List ZArith NArith Bool String.
From Coq Require Import Strings.Byte.
From GoBT Require Import lib.Bytes lib.GoSem lib.GoInterp gen.Funcs search.GenFuncsSearchLib.
From GoBT Require model.Interp model.ScriptNum.
Import ListNotations.
Local Open Scope Z_scope.
Set Printing Width 1000000.
Load GenFuncsSearchInterp.

Definition agree_stack_SwapN (x : list bytes * Z) : bool := let '(d, n) := x in (M_eq (si_option_eqb si_stack_eqb)) (st_view (stack_SwapN n (rev d))) (Val (si_counted Interp.swap_n n d)).
Definition candidates_stack_SwapN : list (list bytes * Z) := si_stacks_idx.
Definition show_stack_SwapN := si_show_stack_idx.

Definition first_disagreement_stack_SwapN := find (fun x => negb (agree_stack_SwapN x)) candidates_stack_SwapN.

Eval vm_compute in (verdict "stack_SwapN" show_stack_SwapN agree_stack_SwapN candidates_stack_SwapN).
