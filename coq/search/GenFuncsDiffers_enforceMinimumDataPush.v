(** A recorded difference between the printed Go function and the model OUTSIDE the domain of
    [ParsedOpcode_enforceMinimumDataPush_is_model] (proofs/GenFuncs_ParsedOpcode_enforceMinimumDataPush.v): not part of
    any obligation. *)
From Coq Require Import List ZArith NArith Bool.
From Coq Require Import Strings.Byte.
From GoBT Require Import lib.Bytes lib.GoSem gen.Funcs.
From GoBT Require model.Interp.
Import ListNotations.
Local Open Scope Z_scope.

(** the model inaccuracy outside the guarded domain (see the header) *)
Lemma enforceMinimumDataPush_differs_above_PUSHDATA4 :
  ParsedOpcode_enforceMinimumDataPush 85 [x05] = Val true /\ Interp.minimal_push_ok (Interp.mkPop 85 1 [x05] true) = true /\
  ParsedOpcode_enforceMinimumDataPush 79 [x81] = Val true /\ Interp.minimal_push_ok (Interp.mkPop 79 1 [x81] true) = true.
Proof. vm_compute. repeat split; reflexivity. Qed.
