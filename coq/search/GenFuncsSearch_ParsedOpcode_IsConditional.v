(** Counterexample search for ParsedOpcode.IsConditional (bscript/interpreter/opcodeparser.go) (printed as [ParsedOpcode_IsConditional] in gen/Funcs.v) against [is_conditional] of model/Interp.v.
    NOT a proof and independent of proofs/GenFuncs_ParsedOpcode_IsConditional.v: it compiles whether or not the two sides agree and
    prints one line, "AGREE ParsedOpcode_IsConditional <candidates>" or "DISAGREE ParsedOpcode_IsConditional <input>" (see search/GenFuncsSearchLib.v,
    tools/gen_search.py).  Domain searched: all 256 opcode values. *)
From Coq Require Import List ZArith NArith Bool String.
From Coq Require Import Strings.Byte.
From GoBT Require Import lib.Bytes lib.GoSem gen.Funcs search.GenFuncsSearchLib.
From GoBT Require model.Interp.
Import ListNotations.
Local Open Scope Z_scope.
Set Printing Width 1000000.

Definition agree_ParsedOpcode_IsConditional (v : N) : bool :=
  M_eq Bool.eqb (ParsedOpcode_IsConditional (Z.of_N v)) (Val (Interp.is_conditional v)).
Definition candidates_ParsedOpcode_IsConditional : list N := all_ops.
Definition show_ParsedOpcode_IsConditional (v : N) : string := dec_N v.

Definition first_disagreement_ParsedOpcode_IsConditional := find (fun x => negb (agree_ParsedOpcode_IsConditional x)) candidates_ParsedOpcode_IsConditional.

Eval vm_compute in (verdict "ParsedOpcode_IsConditional" show_ParsedOpcode_IsConditional agree_ParsedOpcode_IsConditional candidates_ParsedOpcode_IsConditional).
