(** Counterexample search for stack.PushBool (bscript/interpreter/stack.go) (printed as [stack_PushBool] in gen/Funcs.v) against its meaning in the model's order (the right-hand side of C05_go_source_stack_PushBool_is_model, Properties/Gen_stack_PushBool.v).
    NOT a proof and independent of proofs/GenFuncs_stack_PushBool.v: it compiles whether or not the two sides agree and
    prints one line, "AGREE stack_PushBool <candidates>" or "DISAGREE stack_PushBool <input>" (see search/GenFuncsSearchLib.v,
    search/GenFuncsSearchInterp.v -- loaded textually below --, tools/gen_search.py).  Domain searched: the 354 data stacks of search/GenFuncsSearchInterp.v (0..6 items over a 12-item alphabet) x the arguments -1..7. *)
From Coq Require Import List ZArith NArith Bool String.
From Coq Require Import Strings.Byte.
From GoBT Require Import lib.Bytes lib.GoSem lib.GoInterp gen.Funcs search.GenFuncsSearchLib.
From GoBT Require model.Interp model.ScriptNum.
Import ListNotations.
Local Open Scope Z_scope.
Set Printing Width 1000000.
Load GenFuncsSearchInterp.

Definition agree_stack_PushBool (x : list bytes * Z) : bool := let '(d, n) := x in (M_eq si_stack_eqb) (stack_PushBool (n <? 3) (rev d)) (Val (rev (ScriptNum.from_bool (n <? 3) :: d))).
Definition candidates_stack_PushBool : list (list bytes * Z) := si_stacks_idx.
Definition show_stack_PushBool := si_show_stack_idx.

Definition first_disagreement_stack_PushBool := find (fun x => negb (agree_stack_PushBool x)) candidates_stack_PushBool.

Eval vm_compute in (verdict "stack_PushBool" show_stack_PushBool agree_stack_PushBool candidates_stack_PushBool).
