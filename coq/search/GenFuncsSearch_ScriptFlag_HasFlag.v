(** Counterexample search for scriptflag.Flag.HasFlag (bscript/interpreter/scriptflag/scriptflag.go) (printed as [ScriptFlag_HasFlag] in gen/Funcs.v) against "every bit of the mask is set" and, on one-bit masks, [has_flag] of model/Interp.v.
    NOT a proof and independent of proofs/GenFuncs_ScriptFlag_HasFlag.v: it compiles whether or not the two sides agree and
    prints one line, "AGREE ScriptFlag_HasFlag <candidates>" or "DISAGREE ScriptFlag_HasFlag <input>" (see search/GenFuncsSearchLib.v,
    tools/gen_search.py).  Domain searched: flag words: 3000 words of a fixed LCG, all one- and two-bit words, 0, 2^32-1, against every one-bit mask; 100 LCG words and the one-bit words against every two-bit mask. *)
From Coq Require Import List ZArith NArith Bool String.
From Coq Require Import Strings.Byte.
From GoBT Require Import lib.Bytes lib.GoSem gen.Funcs search.GenFuncsSearchLib.
From GoBT Require model.Interp.
Import ListNotations.
Local Open Scope Z_scope.
Set Printing Width 1000000.

Definition ctx_of (s : N) : Interp.ctx := Interp.mkCtx s false 0 0 0 false.
Definition agree_ScriptFlag_HasFlag (x : N * N) : bool :=
  let s := fst x in let m := snd x in
  let r := ScriptFlag_HasFlag (Z.of_N s) (Z.of_N m) in
  M_eq Bool.eqb r (Val (N.land s m =? m)%N)
  && (if (2 ^ N.log2 m =? m)%N then M_eq Bool.eqb r (Val (Interp.has_flag (ctx_of s) (N.log2 m))) else true).
Definition words : list N := lcg 3000 1 ++ one_bit ++ two_bit ++ [0; 4294967295]%N.
Definition candidates_ScriptFlag_HasFlag : list (N * N) :=
  flat_map (fun s => map (fun m => (s, m)) one_bit) words
  ++ flat_map (fun s => map (fun m => (s, m)) two_bit) (lcg 100 7 ++ one_bit).
Definition show_ScriptFlag_HasFlag (x : N * N) : string := ("s=" ++ dec_N (fst x) ++ ",flag=" ++ dec_N (snd x))%string.

Definition first_disagreement_ScriptFlag_HasFlag := find (fun x => negb (agree_ScriptFlag_HasFlag x)) candidates_ScriptFlag_HasFlag.

Eval vm_compute in (verdict "ScriptFlag_HasFlag" show_ScriptFlag_HasFlag agree_ScriptFlag_HasFlag candidates_ScriptFlag_HasFlag).
