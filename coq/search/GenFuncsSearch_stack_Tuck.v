(** Counterexample search for stack.Tuck (bscript/interpreter/stack.go) (printed as [stack_Tuck] in gen/Funcs.v) against its meaning in the model's order (the right-hand side of C05_go_source_stack_Tuck_is_model, Properties/Gen_stack_Tuck.v).
    NOT a proof and independent of proofs/GenFuncs_stack_Tuck.v: it compiles whether or not the two sides agree and
    prints one line, "AGREE stack_Tuck <candidates>" or "DISAGREE stack_Tuck <input>" (see search/GenFuncsSearchLib.v,
    search/GenFuncsSearchInterp.v -- loaded textually below --, tools/gen_search.py).  Domain searched: the 354 data stacks of search/GenFuncsSearchInterp.v (0..6 items over a 12-item alphabet). *)
From Coq Require Import List ZArith NArith Bool String.
From Coq Require Import Strings.Byte.
From GoBT Require Import lib.Bytes lib.GoSem lib.GoInterp gen.Funcs search.GenFuncsSearchLib.
From GoBT Require model.Interp model.ScriptNum.
Import ListNotations.
Local Open Scope Z_scope.
Set Printing Width 1000000.
Load GenFuncsSearchInterp.

Definition agree_stack_Tuck (d : list bytes) : bool := (M_eq (si_option_eqb si_stack_eqb)) (st_view (stack_Tuck (rev d))) (Val (match d with x2 :: x1 :: r => Some (x2 :: x1 :: x2 :: r) | _ => None end)).
Definition candidates_stack_Tuck : list (list bytes) := si_stacks.
Definition show_stack_Tuck := si_show_stack_only.

Definition first_disagreement_stack_Tuck := find (fun x => negb (agree_stack_Tuck x)) candidates_stack_Tuck.

Eval vm_compute in (verdict "stack_Tuck" show_stack_Tuck agree_stack_Tuck candidates_stack_Tuck).
