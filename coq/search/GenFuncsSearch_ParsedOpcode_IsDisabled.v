(** Counterexample search for ParsedOpcode.IsDisabled (bscript/interpreter/opcodeparser.go) (printed as [ParsedOpcode_IsDisabled] in gen/Funcs.v) against [is_disabled] of model/Interp.v.
    NOT a proof and independent of proofs/GenFuncs_ParsedOpcode_IsDisabled.v: it compiles whether or not the two sides agree and
    prints one line, "AGREE ParsedOpcode_IsDisabled <candidates>" or "DISAGREE ParsedOpcode_IsDisabled <input>" (see search/GenFuncsSearchLib.v,
    tools/gen_search.py).  Domain searched: all 256 opcode values. *)
From Coq Require Import List ZArith NArith Bool String.
From Coq Require Import Strings.Byte.
From GoBT Require Import lib.Bytes lib.GoSem gen.Funcs search.GenFuncsSearchLib.
From GoBT Require model.Interp.
Import ListNotations.
Local Open Scope Z_scope.
Set Printing Width 1000000.

Definition agree_ParsedOpcode_IsDisabled (v : N) : bool :=
  M_eq Bool.eqb (ParsedOpcode_IsDisabled (Z.of_N v)) (Val (Interp.is_disabled v)).
Definition candidates_ParsedOpcode_IsDisabled : list N := all_ops.
Definition show_ParsedOpcode_IsDisabled (v : N) : string := dec_N v.

Definition first_disagreement_ParsedOpcode_IsDisabled := find (fun x => negb (agree_ParsedOpcode_IsDisabled x)) candidates_ParsedOpcode_IsDisabled.

Eval vm_compute in (verdict "ParsedOpcode_IsDisabled" show_ParsedOpcode_IsDisabled agree_ParsedOpcode_IsDisabled candidates_ParsedOpcode_IsDisabled).
