(** Counterexample search for Script.PublicKeyHash (bscript/script.go) (printed as [Script_PublicKeyHash] in gen/Funcs.v) against [public_key_hash] of model/Classify.v (outcome incl. panic).
    NOT a proof and independent of proofs/GenFuncs_Script_PublicKeyHash.v: it compiles whether or not the two sides agree and
    prints one line, "AGREE Script_PublicKeyHash <candidates>" or "DISAGREE Script_PublicKeyHash <input>" (see search/GenFuncsSearchLib.v,
    tools/gen_search.py).  Domain searched: every script of at most 2 bytes; the standard templates (P2PKH, P2PK 33 / 65, P2SH, multisig, inscription with and without a trailing OP_RETURN, data) with every byte position mutated through 27 values, every prefix of them, one byte appended; truncated, exact and over-long pushes in all four forms; pushes of 0, 1, 2, 75, 76, 77, 255, 256, 257 bytes. Also OP_DUP OP_HASH160 followed by each of the push cases. *)
From Coq Require Import List ZArith NArith Bool String.
From Coq Require Import Strings.Byte.
From GoBT Require Import lib.Bytes lib.GoSem lib.GoTx gen.Funcs search.GenFuncsSearchLib.
From GoBT Require lib.Checked model.Classify model.JsonScripts.
Import ListNotations.
Local Open Scope Z_scope.
Set Printing Width 1000000.

Definition outcome_eqb {A} (eqb : A -> A -> bool) (x y : Checked.outcome A) : bool :=
  match x, y with
  | Checked.Ok a, Checked.Ok b => eqb a b
  | Checked.Err, Checked.Err => true | Checked.Panic, Checked.Panic => true | Checked.Fuel, Checked.Fuel => true
  | _, _ => false
  end.
Definition to_outcome {A} (m : M A) : Checked.outcome A :=
  match m with Val a => Checked.Ok a | Panic => Checked.Panic | NoFuel => Checked.Fuel end.
Definition to_res (m : M (bytes * bool)) : Checked.outcome bytes :=
  Checked.obind (to_outcome m) (fun r => if snd r then Checked.Err else Checked.Ok (fst r)).
Definition agree_Script_PublicKeyHash (b : bytes) : bool :=
  outcome_eqb bytes_eqb (to_res (Script_PublicKeyHash (Some b))) (Classify.public_key_hash b)
  && M_eq (pair_eqb bytes_eqb Bool.eqb) (Script_PublicKeyHash None) (Val ([], true)).
Definition candidates_Script_PublicKeyHash : list bytes := script_candidates ++ map (fun s => [x76; xa9] ++ s) push_cases.
Definition show_Script_PublicKeyHash := show_script.

Definition first_disagreement_Script_PublicKeyHash := find (fun x => negb (agree_Script_PublicKeyHash x)) candidates_Script_PublicKeyHash.

Eval vm_compute in (verdict "Script_PublicKeyHash" show_Script_PublicKeyHash agree_Script_PublicKeyHash candidates_Script_PublicKeyHash).
