(** Counterexample search for abstractVerify (bscript/interpreter/operations.go) (printed as [abstractVerify] in gen/Funcs.v) against [verify_top] of model/Interp.v.
    NOT a proof and independent of proofs/GenFuncs_abstractVerify.v: it compiles whether or not the two sides agree and
    prints one line, "AGREE abstractVerify <candidates>" or "DISAGREE abstractVerify <input>" (see search/GenFuncsSearchLib.v,
    search/GenFuncsSearchInterp.v -- loaded textually below --, tools/gen_search.py).  Domain searched: the small interpreter states of search/GenFuncsSearchInterp.v (354 data stacks of 0..6 items over a 12-item alphabet x both eras x MINIMALDATA off / on) x two error codes. *)
From Coq Require Import List ZArith NArith Bool String.
From Coq Require Import Strings.Byte.
From GoBT Require Import lib.Bytes lib.GoSem lib.GoInterp gen.Funcs search.GenFuncsSearchLib.
From GoBT Require model.Interp model.ScriptNum.
Import ListNotations.
Local Open Scope Z_scope.
Set Printing Width 1000000.
Load GenFuncsSearchInterp.

Definition agree_abstractVerify (x : si_state * Z) : bool :=
  let '((ag, md, d, a), code) := x in
  let s := si_st d a in
  si_option_eqb si_outcome_eqb (h_view s (abstractVerify code (rev (Interp.ds s)))) (Some (Interp.verify_top s)).
Definition candidates_abstractVerify : list (si_state * Z) := flat_map (fun x => [(x, 0); (x, 17)]) si_states.
Definition show_abstractVerify (x : si_state * Z) : string := (si_show_state (fst x) ++ ",code=" ++ dec_Z (snd x))%string.

Definition first_disagreement_abstractVerify := find (fun x => negb (agree_abstractVerify x)) candidates_abstractVerify.

Eval vm_compute in (verdict "abstractVerify" show_abstractVerify agree_abstractVerify candidates_abstractVerify).
