(** Counterexample search for opcodeAnd (bscript/interpreter/operations.go) (printed as [opcodeAnd] in gen/Funcs.v) against the branch of [exec_handler] (model/Interp.v) for OP_AND.
    NOT a proof and independent of proofs/GenFuncs_opcodeAnd.v: it compiles whether or not the two sides agree and
    prints one line, "AGREE opcodeAnd <candidates>" or "DISAGREE opcodeAnd <input>" (see search/GenFuncsSearchLib.v,
    search/GenFuncsSearchInterp.v -- loaded textually below --, tools/gen_search.py).  Domain searched: the small interpreter states of search/GenFuncsSearchInterp.v (354 data stacks of 0..6 items over a 12-item alphabet x both eras x MINIMALDATA off / on). *)
From Coq Require Import List ZArith NArith Bool String.
From Coq Require Import Strings.Byte.
From GoBT Require Import lib.Bytes lib.GoSem lib.GoInterp gen.Funcs search.GenFuncsSearchLib.
From GoBT Require model.Interp model.ScriptNum.
Import ListNotations.
Local Open Scope Z_scope.
Set Printing Width 1000000.
Load GenFuncsSearchInterp.

Definition agree_opcodeAnd : si_state -> bool :=
  si_agree_handler Interp.OP_AND (fun c s => h_view s (opcodeAnd (rev (Interp.ds s)))).
Definition candidates_opcodeAnd : list si_state := si_states.
Definition show_opcodeAnd := si_show_state.

Definition first_disagreement_opcodeAnd := find (fun x => negb (agree_opcodeAnd x)) candidates_opcodeAnd.

Eval vm_compute in (verdict "opcodeAnd" show_opcodeAnd agree_opcodeAnd candidates_opcodeAnd).
