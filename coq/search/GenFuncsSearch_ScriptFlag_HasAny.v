(** Counterexample search for scriptflag.Flag.HasAny (bscript/interpreter/scriptflag/scriptflag.go) (printed as [ScriptFlag_HasAny] in gen/Funcs.v) against "for one of the masks every bit is set" (on one-bit masks: [existsb (has_flag c)], model/Interp.v).
    NOT a proof and independent of proofs/GenFuncs_ScriptFlag_HasAny.v: it compiles whether or not the two sides agree and
    prints one line, "AGREE ScriptFlag_HasAny <candidates>" or "DISAGREE ScriptFlag_HasAny <input>" (see search/GenFuncsSearchLib.v,
    tools/gen_search.py).  Domain searched: flag words: 200 words of a fixed LCG, the one-bit words, 0, 2^32-1; mask lists: empty, every one- and two-bit mask alone, every ordered pair of one-bit masks, triples. *)
From Coq Require Import List ZArith NArith Bool String.
From Coq Require Import Strings.Byte.
From GoBT Require Import lib.Bytes lib.GoSem gen.Funcs search.GenFuncsSearchLib.
From GoBT Require model.Interp.
Import ListNotations.
Local Open Scope Z_scope.
Set Printing Width 1000000.

Definition ctx_of (s : N) : Interp.ctx := Interp.mkCtx s false 0 0 0 false.
Definition is_one_bit (m : N) : bool := negb (m =? 0)%N && (2 ^ N.log2 m =? m)%N.
Definition agree_ScriptFlag_HasAny (x : N * list N) : bool :=
  let s := fst x in let ms := snd x in
  let r := ScriptFlag_HasAny (Z.of_N s) (map Z.of_N ms) in
  M_eq Bool.eqb r (Val (existsb (fun m => N.land s m =? m)%N ms))
  && (if forallb is_one_bit ms then M_eq Bool.eqb r (Val (existsb (Interp.has_flag (ctx_of s)) (map N.log2 ms))) else true).
Definition mask_lists : list (list N) :=
  [] :: map (fun m => [m]) (one_bit ++ two_bit)
  ++ flat_map (fun a => map (fun b => [a; b]) one_bit) one_bit
  ++ flat_map (fun a => map (fun b => [a; b; 2 ^ 6]%N) (firstn 8 one_bit)) one_bit.
Definition candidates_ScriptFlag_HasAny : list (N * list N) :=
  flat_map (fun s => map (fun ms => (s, ms)) mask_lists) (lcg 200 3 ++ one_bit ++ [0; 4294967295]%N).
Definition show_ScriptFlag_HasAny (x : N * list N) : string :=
  ("s=" ++ dec_N (fst x) ++ ",flags=" ++ show_Zs (map Z.of_N (snd x)))%string.

Definition first_disagreement_ScriptFlag_HasAny := find (fun x => negb (agree_ScriptFlag_HasAny x)) candidates_ScriptFlag_HasAny.

Eval vm_compute in (verdict "ScriptFlag_HasAny" show_ScriptFlag_HasAny agree_ScriptFlag_HasAny candidates_ScriptFlag_HasAny).
