(** Counterexample search for stack.Depth (bscript/interpreter/stack.go) (printed as [stack_Depth] in gen/Funcs.v) against its meaning in the model's order (the right-hand side of C05_go_source_stack_Depth_is_model, Properties/Gen_stack_Depth.v).
    NOT a proof and independent of proofs/GenFuncs_stack_Depth.v: it compiles whether or not the two sides agree and
    prints one line, "AGREE stack_Depth <candidates>" or "DISAGREE stack_Depth <input>" (see search/GenFuncsSearchLib.v,
    search/GenFuncsSearchInterp.v -- loaded textually below --, tools/gen_search.py).  Domain searched: the 354 data stacks of search/GenFuncsSearchInterp.v (0..6 items over a 12-item alphabet). *)
From Coq Require Import List ZArith NArith Bool String.
From Coq Require Import Strings.Byte.
From GoBT Require Import lib.Bytes lib.GoSem lib.GoInterp gen.Funcs search.GenFuncsSearchLib.
From GoBT Require model.Interp model.ScriptNum.
Import ListNotations.
Local Open Scope Z_scope.
Set Printing Width 1000000.
Load GenFuncsSearchInterp.

Definition agree_stack_Depth (d : list bytes) : bool := (M_eq Z.eqb) (stack_Depth (rev d)) (Val (Interp.lenZ d)).
Definition candidates_stack_Depth : list (list bytes) := si_stacks.
Definition show_stack_Depth := si_show_stack_only.

Definition first_disagreement_stack_Depth := find (fun x => negb (agree_stack_Depth x)) candidates_stack_Depth.

Eval vm_compute in (verdict "stack_Depth" show_stack_Depth agree_stack_Depth candidates_stack_Depth).
