(** Counterexample search for opcodeToAltStack (bscript/interpreter/operations.go) (printed as [opcodeToAltStack] in gen/Funcs.v) against the branch of [exec_handler] (model/Interp.v) for OP_TOALTSTACK.
    NOT a proof and independent of proofs/GenFuncs_opcodeToAltStack.v: it compiles whether or not the two sides agree and
    prints one line, "AGREE opcodeToAltStack <candidates>" or "DISAGREE opcodeToAltStack <input>" (see search/GenFuncsSearchLib.v,
    search/GenFuncsSearchInterp.v -- loaded textually below --, tools/gen_search.py).  Domain searched: the small interpreter states of search/GenFuncsSearchInterp.v (354 data stacks of 0..6 items over a 12-item alphabet x both eras x MINIMALDATA off / on) x alt stacks of 0..2 items. *)
From Coq Require Import List ZArith NArith Bool String.
From Coq Require Import Strings.Byte.
From GoBT Require Import lib.Bytes lib.GoSem lib.GoInterp gen.Funcs search.GenFuncsSearchLib.
From GoBT Require model.Interp model.ScriptNum.
Import ListNotations.
Local Open Scope Z_scope.
Set Printing Width 1000000.
Load GenFuncsSearchInterp.

Definition agree_opcodeToAltStack : si_state -> bool :=
  si_agree_handler Interp.OP_TOALTSTACK (fun c s => h_view2 s (opcodeToAltStack (rev (Interp.ds s)) (rev (Interp.als s)))).
Definition candidates_opcodeToAltStack : list si_state := si_states_alt.
Definition show_opcodeToAltStack := si_show_state.

Definition first_disagreement_opcodeToAltStack := find (fun x => negb (agree_opcodeToAltStack x)) candidates_opcodeToAltStack.

Eval vm_compute in (verdict "opcodeToAltStack" show_opcodeToAltStack agree_opcodeToAltStack candidates_opcodeToAltStack).
