(** Counterexample search for opcodeOr (bscript/interpreter/operations.go) (printed as [opcodeOr] in gen/Funcs.v) against the branch of [exec_handler] (model/Interp.v) for OP_OR.
    NOT a proof and independent of proofs/GenFuncs_opcodeOr.v: it compiles whether or not the two sides agree and
    prints one line, "AGREE opcodeOr <candidates>" or "DISAGREE opcodeOr <input>" (see search/GenFuncsSearchLib.v,
    search/GenFuncsSearchInterp.v -- loaded textually below --, tools/gen_search.py).  Domain searched: the small interpreter states of search/GenFuncsSearchInterp.v (354 data stacks of 0..6 items over a 12-item alphabet x both eras x MINIMALDATA off / on). *)
From Coq Require Import List ZArith NArith Bool String.
From Coq Require Import Strings.Byte.
From GoBT Require Import lib.Bytes lib.GoSem lib.GoInterp gen.Funcs search.GenFuncsSearchLib.
From GoBT Require model.Interp model.ScriptNum.
Import ListNotations.
Local Open Scope Z_scope.
Set Printing Width 1000000.
Load GenFuncsSearchInterp.

Definition agree_opcodeOr : si_state -> bool :=
  si_agree_handler Interp.OP_OR (fun c s => h_view s (opcodeOr (rev (Interp.ds s)))).
Definition candidates_opcodeOr : list si_state := si_states.
Definition show_opcodeOr := si_show_state.

Definition first_disagreement_opcodeOr := find (fun x => negb (agree_opcodeOr x)) candidates_opcodeOr.

Eval vm_compute in (verdict "opcodeOr" show_opcodeOr agree_opcodeOr candidates_opcodeOr).
