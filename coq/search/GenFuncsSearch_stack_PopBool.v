(** Counterexample search for stack.PopBool (bscript/interpreter/stack.go) (printed as [stack_PopBool] in gen/Funcs.v) against its meaning in the model's order (the right-hand side of C05_go_source_stack_PopBool_is_model, Properties/Gen_stack_PopBool.v).
    NOT a proof and independent of proofs/GenFuncs_stack_PopBool.v: it compiles whether or not the two sides agree and
    prints one line, "AGREE stack_PopBool <candidates>" or "DISAGREE stack_PopBool <input>" (see search/GenFuncsSearchLib.v,
    search/GenFuncsSearchInterp.v -- loaded textually below --, tools/gen_search.py).  Domain searched: the 354 data stacks of search/GenFuncsSearchInterp.v (0..6 items over a 12-item alphabet). *)
From Coq Require Import List ZArith NArith Bool String.
From Coq Require Import Strings.Byte.
From GoBT Require Import lib.Bytes lib.GoSem lib.GoInterp gen.Funcs search.GenFuncsSearchLib.
From GoBT Require model.Interp model.ScriptNum.
Import ListNotations.
Local Open Scope Z_scope.
Set Printing Width 1000000.
Load GenFuncsSearchInterp.

Definition agree_stack_PopBool (d : list bytes) : bool := (M_eq (pair_eqb si_stack_eqb (pair_eqb Bool.eqb Bool.eqb))) (stack_PopBool (rev d)) (match d with [] => Val (rev [], (false, true)) | x :: r => Val (rev r, (ScriptNum.as_bool x, false)) end).
Definition candidates_stack_PopBool : list (list bytes) := si_stacks.
Definition show_stack_PopBool := si_show_stack_only.

Definition first_disagreement_stack_PopBool := find (fun x => negb (agree_stack_PopBool x)) candidates_stack_PopBool.

Eval vm_compute in (verdict "stack_PopBool" show_stack_PopBool agree_stack_PopBool candidates_stack_PopBool).
