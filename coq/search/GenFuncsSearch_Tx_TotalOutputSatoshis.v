(** Counterexample search for Tx.TotalOutputSatoshis (txoutput.go) (printed as [Tx_TotalOutputSatoshis] in gen/Funcs.v) against [total_out] of model/Fees.v.
    NOT a proof and independent of proofs/GenFuncs_Tx_TotalOutputSatoshis.v: it compiles whether or not the two sides agree and prints one
    line, "AGREE Tx_TotalOutputSatoshis <candidates>" or "DISAGREE Tx_TotalOutputSatoshis <input>" (see search/GenFuncsSearchLib.v, tools/gen_search.py).
    Domain searched: 4902 small transactions: 0..2 inputs from a pool of 6 (nil / empty / long scripts, boundary integers, txids of length 0, 3, 32), 0..2 outputs from a pool of 7, two version / locktime pairs.  (Written by a generator; the candidate pools are repeated in every file of the
    family because tools/gen_search.py compiles a search file with GenFuncsSearchLib.v alone.) *)
From Coq Require Import List ZArith NArith Bool String.
From Coq Require Import Strings.Byte.
From GoBT Require Import lib.Bytes lib.GoSem lib.GoTx gen.Funcs search.GenFuncsSearchLib.
From GoBT Require Import lib.VarInt model.Tx model.Fees model.SigHash spec.FeeSpec.
Import ListNotations.
Local Open Scope Z_scope.
Set Printing Width 1000000.

(** Go values -> model records (as in proofs/GenFuncsTxTac.v) *)
Definition script_of (p : option bytes) : bytes := match p with Some s => s | None => [] end.
Definition input_of_go (g : go_Input) : input :=
  mkInput (Input_previousTxID g) (Z.to_N (Input_PreviousTxOutIndex g)) (script_of (Input_UnlockingScript g))
          (Z.to_N (Input_SequenceNumber g)) (Z.to_N (Input_PreviousTxSatoshis g)) (Input_PreviousTxScript g).
Definition output_of_go (g : go_Output) : output := mkOutput (Z.to_N (Output_Satoshis g)) (script_of (Output_LockingScript g)).
Definition tx_of_go (ins : list go_Input) (outs : list go_Output) (version locktime : Z) : tx :=
  mkTx (Z.to_N version) (map input_of_go ins) (map output_of_go outs) (Z.to_N locktime).

(** pools *)
Definition long_script : bytes := x6a :: repeat x51 252.          (* 253 bytes: the first three-byte varint *)
Definition in_pool : list go_Input :=
  [ mk_go_Input (repeat_byte 32 x11) 0 None None 0 4294967295;
    mk_go_Input (x01 :: repeat_byte 31 x00) 1 (Some []) (Some []) 1 0;
    mk_go_Input (repeat_byte 32 xab) 18446744073709551615 (Some [x76; xa9]) (Some [x51; x52]) 4294967295 4294967294;
    mk_go_Input [] 4294967296 (Some long_script) (Some [x00]) 255 256;
    mk_go_Input [x01; x02; x03] 255 None (Some long_script) 65536 1;
    mk_go_Input (repeat_byte 32 x00) 9223372036854775808 (Some [x6a]) None 16909060 67305985 ].
Definition out_pool : list go_Output :=
  [ mk_go_Output 0 (Some []); mk_go_Output 1 (Some [x6a]); mk_go_Output 18446744073709551615 (Some [x00; x6a; x01]);
    mk_go_Output 4294967296 (Some [x76; xa9; x14]); mk_go_Output 255 (Some long_script); mk_go_Output 9223372036854775808 (Some [x00]);
    mk_go_Output 72623859790382856 (Some [x51]) ].
Definition lists_of {A} (pool : list A) : list (list A) :=
  [] :: map (fun a => [a]) pool ++ flat_map (fun a => map (fun b => [a; b]) pool) pool.
Definition lists3_of {A} (pool : list A) : list (list A) :=
  lists_of pool ++ flat_map (fun a => flat_map (fun b => map (fun c => [a; b; c]) pool) pool) pool.
(** cross products for the one-object functions: every amount / index / sequence at its byte boundaries (each byte distinct,
    so that a byte order or a width slip shows), scripts at the compact-size boundaries *)
Definition sats_pool : list Z := [0; 1; 255; 256; 65535; 65536; 4294967295; 4294967296; 72623859790382856; 578437695752307201;
  9223372036854775807; 9223372036854775808; 18446744073709551615; 1099511627776; 16909060; 281474976710656].
Definition script_pool : list (option bytes) :=
  [Some []; Some [x6a]; Some [x00; x6a; x01]; Some [x76; xa9; x14]; Some (repeat x51 75); Some (repeat x52 76); Some (repeat x53 252);
   Some (x6a :: repeat x51 252); Some (repeat x54 254); Some (repeat x55 255); Some (repeat x56 256); Some (repeat x57 300);
   Some (repeat x58 65535); Some (repeat x59 65536)].
Definition out_cross : list go_Output := flat_map (fun v => map (fun sc => mk_go_Output v sc) script_pool) sats_pool.
Definition u32_pool : list Z := [0; 1; 255; 256; 65535; 65536; 16909060; 67305985; 4294967294; 4294967295].
Definition in_cross : list go_Input :=
  flat_map (fun id => flat_map (fun vout => flat_map (fun us => map (fun sq => mk_go_Input id 0 None us vout sq) [0; 16909060; 4294967295])
     [None; Some []; Some [x51]; Some (repeat x52 252); Some (repeat x53 253); Some (repeat x54 65536)]) u32_pool)
     [repeat_byte 32 x11; x01 :: repeat_byte 31 x00; (x01 :: x02 :: x03 :: x04 :: repeat_byte 27 xab) ++ [xff]].
Record cand := mkCand { c_ins : list go_Input; c_outs : list go_Output; c_ver : Z; c_lock : Z }.
Definition txs : list cand :=
  flat_map (fun i => flat_map (fun o => [mkCand i o 1 0; mkCand i o 4294967295 4009754624]) (lists_of out_pool)) (lists_of in_pool).
Definition c_tx (c : cand) : tx := tx_of_go (c_ins c) (c_outs c) (c_ver c) (c_lock c).
(** a candidate is shown as its extended serialisation (loadable with bt.NewTxFromBytes) *)
Definition show_cand (c : cand) : string := ("exthex:" ++ hex_bytes (tx_bytes true (c_tx c)))%string.
Definition opt_eqb {A} (e : A -> A -> bool) (x y : option A) : bool :=
  match x, y with Some a, Some b => e a b | None, None => true | _, _ => false end.

Definition agree_Tx_TotalOutputSatoshis (c : cand) : bool :=
  M_eq Z.eqb (Tx_TotalOutputSatoshis (map Some (c_outs c))) (Val (Z.of_N (total_out (c_tx c)))).

Eval vm_compute in (verdict "Tx_TotalOutputSatoshis" show_cand agree_Tx_TotalOutputSatoshis txs).
