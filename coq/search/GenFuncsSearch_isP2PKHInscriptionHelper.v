(** Counterexample search for isP2PKHInscriptionHelper (bscript/script.go) (printed as [isP2PKHInscriptionHelper] in gen/Funcs.v) against [inscription_helper] of model/Classify.v (outcome incl. panic).
    NOT a proof and independent of proofs/GenFuncs_isP2PKHInscriptionHelper.v: it compiles whether or not the two sides agree and
    prints one line, "AGREE isP2PKHInscriptionHelper <candidates>" or "DISAGREE isP2PKHInscriptionHelper <input>" (see search/GenFuncsSearchLib.v,
    tools/gen_search.py).  Domain searched: the decoded parts of the inscription / P2PKH / multisig templates with every byte position mutated, those part lists cut to 12, 13, 14 parts, with each part in turn emptied or its first byte changed; part lists of boundary lengths. *)
From Coq Require Import List ZArith NArith Bool String.
From Coq Require Import Strings.Byte.
From GoBT Require Import lib.Bytes lib.GoSem lib.GoTx gen.Funcs search.GenFuncsSearchLib.
From GoBT Require lib.Checked model.Classify model.JsonScripts.
Import ListNotations.
Local Open Scope Z_scope.
Set Printing Width 1000000.

Definition outcome_eqb {A} (eqb : A -> A -> bool) (x y : Checked.outcome A) : bool :=
  match x, y with
  | Checked.Ok a, Checked.Ok b => eqb a b
  | Checked.Err, Checked.Err => true | Checked.Panic, Checked.Panic => true | Checked.Fuel, Checked.Fuel => true
  | _, _ => false
  end.
Definition to_outcome {A} (m : M A) : Checked.outcome A :=
  match m with Val a => Checked.Ok a | Panic => Checked.Panic | NoFuel => Checked.Fuel end.
(** the parts of every script candidate that decodes, those lists truncated to 12, 13 and 14 parts, with one part
    emptied, and with one part's first byte changed *)
Definition parts_of (b : bytes) : list bytes := match DecodeParts b with Val (ps, _) => ps | _ => [] end.
Fixpoint empty_each (pre l : list bytes) : list (list bytes) :=
  match l with [] => [] | p :: r => (rev pre ++ [] :: r) :: (rev pre ++ (x00 :: tl p) :: r) :: (rev pre ++ [x6a] :: r) :: empty_each (p :: pre) r end.
Definition base_parts : list (list bytes) :=
  map parts_of (script_mutants [tpl_inscription; tpl_inscription ++ [x6a; x01; x02]; tpl_inscription ++ [x4c; x00]; tpl_p2pkh; tpl_multisig]).
Definition agree_isP2PKHInscriptionHelper (ps : list bytes) : bool :=
  outcome_eqb Bool.eqb (to_outcome (isP2PKHInscriptionHelper ps)) (Classify.inscription_helper ps).
Definition candidates_isP2PKHInscriptionHelper : list (list bytes) :=
  base_parts ++ flat_map (fun ps => [firstn 12 ps; firstn 13 ps; firstn 14 ps]) base_parts
  ++ flat_map (empty_each []) (map parts_of [tpl_inscription; tpl_inscription ++ [x6a; x01; x02]; tpl_inscription ++ [x4c; x00]])
  ++ part_lists.
Definition show_isP2PKHInscriptionHelper := show_parts.

Definition first_disagreement_isP2PKHInscriptionHelper := find (fun x => negb (agree_isP2PKHInscriptionHelper x)) candidates_isP2PKHInscriptionHelper.

Eval vm_compute in (verdict "isP2PKHInscriptionHelper" show_isP2PKHInscriptionHelper agree_isP2PKHInscriptionHelper candidates_isP2PKHInscriptionHelper).
