(** Counterexample search for Tx.InputIdx (tx.go) (printed as [Tx_InputIdx] in gen/Funcs.v) against [input_idx] of model/SigHash.v.
    NOT a proof and independent of proofs/GenFuncs_Tx_InputIdx.v: it compiles whether or not the two sides agree and prints one
    line, "AGREE Tx_InputIdx <candidates>" or "DISAGREE Tx_InputIdx <input>" (see search/GenFuncsSearchLib.v, tools/gen_search.py).
    Domain searched: 40 transactions of 0..3 inputs x 8 indices (every index, out of range, the ends of int32 / uint32).  (Written by a generator; the candidate pools are repeated in every file of the
    family because tools/gen_search.py compiles a search file with GenFuncsSearchLib.v alone.) *)
From Coq Require Import List ZArith NArith Bool String.
From Coq Require Import Strings.Byte.
From GoBT Require Import lib.Bytes lib.GoSem lib.GoTx gen.Funcs search.GenFuncsSearchLib.
From GoBT Require Import lib.VarInt model.Tx model.Fees model.SigHash spec.FeeSpec.
Import ListNotations.
Local Open Scope Z_scope.
Set Printing Width 1000000.

(** Go values -> model records (as in proofs/GenFuncsTxTac.v) *)
Definition script_of (p : option bytes) : bytes := match p with Some s => s | None => [] end.
Definition input_of_go (g : go_Input) : input :=
  mkInput (Input_previousTxID g) (Z.to_N (Input_PreviousTxOutIndex g)) (script_of (Input_UnlockingScript g))
          (Z.to_N (Input_SequenceNumber g)) (Z.to_N (Input_PreviousTxSatoshis g)) (Input_PreviousTxScript g).
Definition output_of_go (g : go_Output) : output := mkOutput (Z.to_N (Output_Satoshis g)) (script_of (Output_LockingScript g)).
Definition tx_of_go (ins : list go_Input) (outs : list go_Output) (version locktime : Z) : tx :=
  mkTx (Z.to_N version) (map input_of_go ins) (map output_of_go outs) (Z.to_N locktime).

(** pools *)
Definition long_script : bytes := x6a :: repeat x51 252.          (* 253 bytes: the first three-byte varint *)
Definition in_pool : list go_Input :=
  [ mk_go_Input (repeat_byte 32 x11) 0 None None 0 4294967295;
    mk_go_Input (x01 :: repeat_byte 31 x00) 1 (Some []) (Some []) 1 0;
    mk_go_Input (repeat_byte 32 xab) 18446744073709551615 (Some [x76; xa9]) (Some [x51; x52]) 4294967295 4294967294;
    mk_go_Input [] 4294967296 (Some long_script) (Some [x00]) 255 256;
    mk_go_Input [x01; x02; x03] 255 None (Some long_script) 65536 1;
    mk_go_Input (repeat_byte 32 x00) 9223372036854775808 (Some [x6a]) None 16909060 67305985 ].
Definition out_pool : list go_Output :=
  [ mk_go_Output 0 (Some []); mk_go_Output 1 (Some [x6a]); mk_go_Output 18446744073709551615 (Some [x00; x6a; x01]);
    mk_go_Output 4294967296 (Some [x76; xa9; x14]); mk_go_Output 255 (Some long_script); mk_go_Output 9223372036854775808 (Some [x00]);
    mk_go_Output 72623859790382856 (Some [x51]) ].
Definition lists_of {A} (pool : list A) : list (list A) :=
  [] :: map (fun a => [a]) pool ++ flat_map (fun a => map (fun b => [a; b]) pool) pool.
Definition lists3_of {A} (pool : list A) : list (list A) :=
  lists_of pool ++ flat_map (fun a => flat_map (fun b => map (fun c => [a; b; c]) pool) pool) pool.
(** cross products for the one-object functions: every amount / index / sequence at its byte boundaries (each byte distinct,
    so that a byte order or a width slip shows), scripts at the compact-size boundaries *)
Definition sats_pool : list Z := [0; 1; 255; 256; 65535; 65536; 4294967295; 4294967296; 72623859790382856; 578437695752307201;
  9223372036854775807; 9223372036854775808; 18446744073709551615; 1099511627776; 16909060; 281474976710656].
Definition script_pool : list (option bytes) :=
  [Some []; Some [x6a]; Some [x00; x6a; x01]; Some [x76; xa9; x14]; Some (repeat x51 75); Some (repeat x52 76); Some (repeat x53 252);
   Some (x6a :: repeat x51 252); Some (repeat x54 254); Some (repeat x55 255); Some (repeat x56 256); Some (repeat x57 300);
   Some (repeat x58 65535); Some (repeat x59 65536)].
Definition out_cross : list go_Output := flat_map (fun v => map (fun sc => mk_go_Output v sc) script_pool) sats_pool.
Definition u32_pool : list Z := [0; 1; 255; 256; 65535; 65536; 16909060; 67305985; 4294967294; 4294967295].
Definition in_cross : list go_Input :=
  flat_map (fun id => flat_map (fun vout => flat_map (fun us => map (fun sq => mk_go_Input id 0 None us vout sq) [0; 16909060; 4294967295])
     [None; Some []; Some [x51]; Some (repeat x52 252); Some (repeat x53 253); Some (repeat x54 65536)]) u32_pool)
     [repeat_byte 32 x11; x01 :: repeat_byte 31 x00; (x01 :: x02 :: x03 :: x04 :: repeat_byte 27 xab) ++ [xff]].
Record cand := mkCand { c_ins : list go_Input; c_outs : list go_Output; c_ver : Z; c_lock : Z }.
Definition txs : list cand :=
  flat_map (fun i => flat_map (fun o => [mkCand i o 1 0; mkCand i o 4294967295 4009754624]) (lists_of out_pool)) (lists_of in_pool).
Definition c_tx (c : cand) : tx := tx_of_go (c_ins c) (c_outs c) (c_ver c) (c_lock c).
(** a candidate is shown as its extended serialisation (loadable with bt.NewTxFromBytes) *)
Definition show_cand (c : cand) : string := ("exthex:" ++ hex_bytes (tx_bytes true (c_tx c)))%string.
Definition opt_eqb {A} (e : A -> A -> bool) (x y : option A) : bool :=
  match x, y with Some a, Some b => e a b | None, None => true | _, _ => false end.

(** transactions of 1..3 inputs / 0..3 outputs with small, pairwise distinct field values (a swapped field shows); nil and
    empty previous scripts, empty and short txids at the signed and at other positions *)
Definition sh_in (k : Z) : go_Input :=
  mk_go_Input (repeat_byte 32 (z2b (16 + k))) (1000 + k) (Some [z2b (80 + k); x51]) (Some [z2b (96 + k)]) (2 + k) (4294967280 + k).
Definition sh_in_nilscript (k : Z) : go_Input := mk_go_Input (repeat_byte 32 (z2b (16 + k))) (1000 + k) None (Some [x00]) (2 + k) (7 + k).
Definition sh_in_emptyscript (k : Z) : go_Input := mk_go_Input (repeat_byte 32 (z2b (16 + k))) (1000 + k) (Some []) None (2 + k) (7 + k).
Definition sh_in_notxid (k : Z) : go_Input := mk_go_Input [] (1000 + k) (Some [x51]) (Some []) (2 + k) (7 + k).
Definition sh_in_shorttxid (k : Z) : go_Input := mk_go_Input [x01; x02; x03] (1000 + k) (Some [x52]) (Some []) (2 + k) (7 + k).
Definition sh_out (k : Z) : go_Output := mk_go_Output (500 + k) (Some [x6a; z2b (112 + k)]).
Definition sh_ins : list (list go_Input) :=
  [ [sh_in 0]; [sh_in 0; sh_in 1]; [sh_in 0; sh_in 1; sh_in 2];
    [sh_in_nilscript 0]; [sh_in 0; sh_in_nilscript 1]; [sh_in_emptyscript 0; sh_in 1];
    [sh_in_notxid 0; sh_in 1]; [sh_in 0; sh_in_notxid 1; sh_in 2]; [sh_in_shorttxid 0]; [] ].
Definition sh_outs : list (list go_Output) :=
  [ []; [sh_out 0]; [sh_out 0; sh_out 1]; [sh_out 0; sh_out 1; mk_go_Output 18446744073709551615 (Some long_script)] ].
Definition sh_txs : list cand := flat_map (fun i => map (fun o => mkCand i o 2 (3 + go_len o)) sh_outs) sh_ins.
(** every index of a 3-input transaction, the first ones out of range, and the ends of uint32 / int32 *)
Definition sh_idx : list Z := [0; 1; 2; 3; 4; 2147483647; 2147483648; 4294967295].
(** 0x00..0x03, 0x41..0x43, 0x80..0x83, 0xc1..0xc3, undefined base types, every bit above the mask alone and with each base *)
Definition sh_hts : list Z :=
  flat_map (fun hi => map (fun lo => hi + lo) [0; 1; 2; 3; 4; 5; 18; 19; 30; 31]) [0; 32; 64; 96; 128; 160; 192; 224].
Definition sh_hts_sig : list Z := flat_map (fun hi => map (fun lo => hi + lo) [0; 1; 2; 3; 31]) [0; 32; 64; 96; 128; 160; 192; 224].
Record shc := mkShc { sh_c : cand; sh_i : Z; sh_ht : Z }.
Definition sh_cands (hts : list Z) : list shc :=
  flat_map (fun c => flat_map (fun i => map (fun h => mkShc c i h) hts) sh_idx) sh_txs.
Definition show_shc (x : shc) : string := ("input=" ++ dec_Z (sh_i x) ++ ",hashtype=" ++ dec_Z (sh_ht x) ++ "," ++ show_cand (sh_c x))%string.
Definition sres_outcome (r : sres) : M (bytes * bool) :=
  match r with SOk b => Val (b, false) | SErr _ => Val ([], true) | SPanic => Panic | SFatal => NoFuel | SFuel => NoFuel end.
Definition sh_eq : M (bytes * bool) -> M (bytes * bool) -> bool := M_eq (pair_eqb bytes_eqb Bool.eqb).
Definition agree_Tx_InputIdx (x : shc) : bool :=
  let c := sh_c x in
  M_eq (opt_eqb (fun a b : input => bytes_eqb (input_bytes true a) (input_bytes true b)))
       (bind (Tx_InputIdx (sh_i x) (map Some (c_ins c))) (fun p => Val (option_map input_of_go p))) (Val (input_idx (c_tx c) (Z.to_N (sh_i x)))).

Eval vm_compute in (verdict "Tx_InputIdx" show_shc agree_Tx_InputIdx (sh_cands [0])).
