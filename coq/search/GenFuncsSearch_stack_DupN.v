(** Counterexample search for stack.DupN (bscript/interpreter/stack.go) (printed as [stack_DupN] in gen/Funcs.v) against its meaning in the model's order (the right-hand side of C05_go_source_stack_DupN_is_model, Properties/Gen_stack_DupN.v for n = 1, 2, 3, and C05_go_source_stack_DupN_is_spec_all_n, Properties/GenAll_stack_DupN.v, for every n).
    NOT a proof and independent of proofs/GenFuncs_stack_DupN.v: it compiles whether or not the two sides agree and
    prints one line, "AGREE stack_DupN <candidates>" or "DISAGREE stack_DupN <input>" (see search/GenFuncsSearchLib.v,
    search/GenFuncsSearchInterp.v -- loaded textually below --, tools/gen_search.py).  Domain searched: the 354 data stacks of search/GenFuncsSearchInterp.v (0..6 items over a 12-item alphabet) x the arguments -1..7. *)
From Coq Require Import List ZArith NArith Bool String.
From Coq Require Import Strings.Byte.
From GoBT Require Import lib.Bytes lib.GoSem lib.GoInterp gen.Funcs search.GenFuncsSearchLib.
From GoBT Require model.Interp model.ScriptNum.
Import ListNotations.
Local Open Scope Z_scope.
Set Printing Width 1000000.
Load GenFuncsSearchInterp.

Definition agree_stack_DupN (x : list bytes * Z) : bool := let '(d, n) := x in (M_eq (si_option_eqb si_stack_eqb)) (st_view (stack_DupN n (rev d))) (Val (si_counted Interp.dup_n n d)).
Definition candidates_stack_DupN : list (list bytes * Z) := si_stacks_idx.
Definition show_stack_DupN := si_show_stack_idx.

Definition first_disagreement_stack_DupN := find (fun x => negb (agree_stack_DupN x)) candidates_stack_DupN.

Eval vm_compute in (verdict "stack_DupN" show_stack_DupN agree_stack_DupN candidates_stack_DupN).
