(** Counterexample search for opcodeFromAltStack (bscript/interpreter/operations.go) (printed as [opcodeFromAltStack] in gen/Funcs.v) against the branch of [exec_handler] (model/Interp.v) for OP_FROMALTSTACK.
    NOT a proof and independent of proofs/GenFuncs_opcodeFromAltStack.v: it compiles whether or not the two sides agree and
    prints one line, "AGREE opcodeFromAltStack <candidates>" or "DISAGREE opcodeFromAltStack <input>" (see search/GenFuncsSearchLib.v,
    search/GenFuncsSearchInterp.v -- loaded textually below --, tools/gen_search.py).  Domain searched: the small interpreter states of search/GenFuncsSearchInterp.v (354 data stacks of 0..6 items over a 12-item alphabet x both eras x MINIMALDATA off / on) x alt stacks of 0..2 items. *)
From Coq Require Import List ZArith NArith Bool String.
From Coq Require Import Strings.Byte.
From GoBT Require Import lib.Bytes lib.GoSem lib.GoInterp gen.Funcs search.GenFuncsSearchLib.
From GoBT Require model.Interp model.ScriptNum.
Import ListNotations.
Local Open Scope Z_scope.
Set Printing Width 1000000.
Load GenFuncsSearchInterp.

Definition agree_opcodeFromAltStack : si_state -> bool :=
  si_agree_handler Interp.OP_FROMALTSTACK (fun c s => h_view2 s (opcodeFromAltStack (rev (Interp.ds s)) (rev (Interp.als s)))).
Definition candidates_opcodeFromAltStack : list si_state := si_states_alt.
Definition show_opcodeFromAltStack := si_show_state.

Definition first_disagreement_opcodeFromAltStack := find (fun x => negb (agree_opcodeFromAltStack x)) candidates_opcodeFromAltStack.

Eval vm_compute in (verdict "opcodeFromAltStack" show_opcodeFromAltStack agree_opcodeFromAltStack candidates_opcodeFromAltStack).
