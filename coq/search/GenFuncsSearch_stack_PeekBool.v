(** Counterexample search for stack.PeekBool (bscript/interpreter/stack.go) (printed as [stack_PeekBool] in gen/Funcs.v) against its meaning in the model's order (the right-hand side of C05_go_source_stack_PeekBool_is_model, Properties/Gen_stack_PeekBool.v).
    NOT a proof and independent of proofs/GenFuncs_stack_PeekBool.v: it compiles whether or not the two sides agree and
    prints one line, "AGREE stack_PeekBool <candidates>" or "DISAGREE stack_PeekBool <input>" (see search/GenFuncsSearchLib.v,
    search/GenFuncsSearchInterp.v -- loaded textually below --, tools/gen_search.py).  Domain searched: the 354 data stacks of search/GenFuncsSearchInterp.v (0..6 items over a 12-item alphabet) x the arguments -1..7. *)
From Coq Require Import List ZArith NArith Bool String.
From Coq Require Import Strings.Byte.
From GoBT Require Import lib.Bytes lib.GoSem lib.GoInterp gen.Funcs search.GenFuncsSearchLib.
From GoBT Require model.Interp model.ScriptNum.
Import ListNotations.
Local Open Scope Z_scope.
Set Printing Width 1000000.
Load GenFuncsSearchInterp.

Definition agree_stack_PeekBool (x : list bytes * Z) : bool := let '(d, n) := x in (M_eq (pair_eqb Bool.eqb Bool.eqb)) (stack_PeekBool n (rev d)) (match peek_model n d with (x, false) => Val (ScriptNum.as_bool x, false) | (_, true) => Val (false, true) end).
Definition candidates_stack_PeekBool : list (list bytes * Z) := si_stacks_idx.
Definition show_stack_PeekBool := si_show_stack_idx.

Definition first_disagreement_stack_PeekBool := find (fun x => negb (agree_stack_PeekBool x)) candidates_stack_PeekBool.

Eval vm_compute in (verdict "stack_PeekBool" show_stack_PeekBool agree_stack_PeekBool candidates_stack_PeekBool).
