(** Counterexample search for VarInt.Length (varint.go) (printed as [VarInt_Length] in gen/Funcs.v) against [varint_len] of lib/VarInt.v.
    NOT a proof and independent of proofs/GenFuncs_VarInt_Length.v: it compiles whether or not the two sides agree and
    prints one line, "AGREE VarInt_Length <candidates>" or "DISAGREE VarInt_Length <input>" (see search/GenFuncsSearchLib.v,
    tools/gen_search.py).  Domain searched: 0..69999 and every boundary of a power of two / code constant below 2^64. *)
From Coq Require Import List ZArith NArith Bool String.
From Coq Require Import Strings.Byte.
From GoBT Require Import lib.Bytes lib.GoSem gen.Funcs search.GenFuncsSearchLib.
From GoBT Require Import lib.VarInt.
Import ListNotations.
Local Open Scope Z_scope.
Set Printing Width 1000000.

Definition agree_VarInt_Length (v : N) : bool :=
  M_eq Z.eqb (VarInt_Length (Z.of_N v)) (Val (Z.of_N (varint_len v))).
Definition candidates_VarInt_Length : list N :=
  map Z.to_N (range_Z 70000%N ++ boundaries_in 0 18446744073709551615).
Definition show_VarInt_Length (v : N) : string := dec_N v.

Definition first_disagreement_VarInt_Length := find (fun x => negb (agree_VarInt_Length x)) candidates_VarInt_Length.

Eval vm_compute in (verdict "VarInt_Length" show_VarInt_Length agree_VarInt_Length candidates_VarInt_Length).
