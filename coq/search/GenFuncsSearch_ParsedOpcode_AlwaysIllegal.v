(** Counterexample search for ParsedOpcode.AlwaysIllegal (bscript/interpreter/opcodeparser.go) (printed as [ParsedOpcode_AlwaysIllegal] in gen/Funcs.v) against [always_illegal] of model/Interp.v.
    NOT a proof and independent of proofs/GenFuncs_ParsedOpcode_AlwaysIllegal.v: it compiles whether or not the two sides agree and
    prints one line, "AGREE ParsedOpcode_AlwaysIllegal <candidates>" or "DISAGREE ParsedOpcode_AlwaysIllegal <input>" (see search/GenFuncsSearchLib.v,
    tools/gen_search.py).  Domain searched: all 256 opcode values. *)
From Coq Require Import List ZArith NArith Bool String.
From Coq Require Import Strings.Byte.
From GoBT Require Import lib.Bytes lib.GoSem gen.Funcs search.GenFuncsSearchLib.
From GoBT Require model.Interp.
Import ListNotations.
Local Open Scope Z_scope.
Set Printing Width 1000000.

Definition agree_ParsedOpcode_AlwaysIllegal (v : N) : bool :=
  M_eq Bool.eqb (ParsedOpcode_AlwaysIllegal (Z.of_N v)) (Val (Interp.always_illegal v)).
Definition candidates_ParsedOpcode_AlwaysIllegal : list N := all_ops.
Definition show_ParsedOpcode_AlwaysIllegal (v : N) : string := dec_N v.

Definition first_disagreement_ParsedOpcode_AlwaysIllegal := find (fun x => negb (agree_ParsedOpcode_AlwaysIllegal x)) candidates_ParsedOpcode_AlwaysIllegal.

Eval vm_compute in (verdict "ParsedOpcode_AlwaysIllegal" show_ParsedOpcode_AlwaysIllegal agree_ParsedOpcode_AlwaysIllegal candidates_ParsedOpcode_AlwaysIllegal).
