(** Counterexample search for Script.AppendOpcodes (bscript/script.go) (printed as [Script_AppendOpcodes] in gen/Funcs.v) against [append_opcodes] of model/Inscription.v.
    NOT a proof and independent of proofs/GenFuncs_Script_AppendOpcodes.v: it compiles whether or not the two sides agree and
    prints one line, "AGREE Script_AppendOpcodes <candidates>" or "DISAGREE Script_AppendOpcodes <input>" (see search/GenFuncsSearchLib.v,
    tools/gen_search.py).  Domain searched: three scripts x every opcode list of at most 2 opcodes and OP_1 OP_2 followed by every opcode. *)
From Coq Require Import List ZArith NArith Bool String.
From Coq Require Import Strings.Byte.
From GoBT Require Import lib.Bytes lib.GoSem gen.Funcs search.GenFuncsSearchLib.
From GoBT Require model.Push model.Inscription.
Import ListNotations.
Local Open Scope Z_scope.
Set Printing Width 1000000.

Definition of_append (s : bytes) (o : option bytes) : bytes * bool :=
  match o with Some s' => (s', false) | None => (s, true) end.
Definition scripts_before : list bytes := [[]; [x51]; [x76; xa9]].
Definition agree_Script_AppendOpcodes (x : bytes * bytes) : bool :=
  M_eq (pair_eqb bytes_eqb Bool.eqb) (Script_AppendOpcodes (snd x) (fst x)) (Val (of_append (fst x) (Inscription.append_opcodes (fst x) (snd x)))).
Definition candidates_Script_AppendOpcodes : list (bytes * bytes) :=
  flat_map (fun s => map (fun oo => (s, oo)) all_scripts_le2 ++ map (fun b => (s, [x51; x52; b])) all_bytes) scripts_before.
Definition show_Script_AppendOpcodes (x : bytes * bytes) : string := ("script=" ++ hex_bytes (fst x) ++ ",opcodes=" ++ hex_bytes (snd x))%string.

Definition first_disagreement_Script_AppendOpcodes := find (fun x => negb (agree_Script_AppendOpcodes x)) candidates_Script_AppendOpcodes.

Eval vm_compute in (verdict "Script_AppendOpcodes" show_Script_AppendOpcodes agree_Script_AppendOpcodes candidates_Script_AppendOpcodes).
