(** Counterexample search for ParsedOpcode.RequiresTx (bscript/interpreter/opcodeparser.go) (printed as [ParsedOpcode_RequiresTx] in gen/Funcs.v) against [requires_tx] of model/Interp.v and model/Parser.v.
    NOT a proof and independent of proofs/GenFuncs_ParsedOpcode_RequiresTx.v: it compiles whether or not the two sides agree and
    prints one line, "AGREE ParsedOpcode_RequiresTx <candidates>" or "DISAGREE ParsedOpcode_RequiresTx <input>" (see search/GenFuncsSearchLib.v,
    tools/gen_search.py).  Domain searched: all 256 opcode values. *)
From Coq Require Import List ZArith NArith Bool String.
From Coq Require Import Strings.Byte.
From GoBT Require Import lib.Bytes lib.GoSem gen.Funcs search.GenFuncsSearchLib.
From GoBT Require model.Interp model.Parser.
Import ListNotations.
Local Open Scope Z_scope.
Set Printing Width 1000000.

Definition agree_ParsedOpcode_RequiresTx (v : N) : bool :=
  M_eq Bool.eqb (ParsedOpcode_RequiresTx (Z.of_N v)) (Val (Interp.requires_tx v)) && M_eq Bool.eqb (ParsedOpcode_RequiresTx (Z.of_N v)) (Val (Parser.requires_tx v)).
Definition candidates_ParsedOpcode_RequiresTx : list N := all_ops.
Definition show_ParsedOpcode_RequiresTx (v : N) : string := dec_N v.

Definition first_disagreement_ParsedOpcode_RequiresTx := find (fun x => negb (agree_ParsedOpcode_RequiresTx x)) candidates_ParsedOpcode_RequiresTx.

Eval vm_compute in (verdict "ParsedOpcode_RequiresTx" show_ParsedOpcode_RequiresTx agree_ParsedOpcode_RequiresTx candidates_ParsedOpcode_RequiresTx).
