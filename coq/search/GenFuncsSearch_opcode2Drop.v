(** Counterexample search for opcode2Drop (bscript/interpreter/operations.go) (printed as [opcode2Drop] in gen/Funcs.v) against the branch of [exec_handler] (model/Interp.v) for OP_2DROP.
    NOT a proof and independent of proofs/GenFuncs_opcode2Drop.v: it compiles whether or not the two sides agree and
    prints one line, "AGREE opcode2Drop <candidates>" or "DISAGREE opcode2Drop <input>" (see search/GenFuncsSearchLib.v,
    search/GenFuncsSearchInterp.v -- loaded textually below --, tools/gen_search.py).  Domain searched: the small interpreter states of search/GenFuncsSearchInterp.v (354 data stacks of 0..6 items over a 12-item alphabet x both eras x MINIMALDATA off / on). *)
From Coq Require Import List ZArith NArith Bool String.
From Coq Require Import Strings.Byte.
From GoBT Require Import lib.Bytes lib.GoSem lib.GoInterp gen.Funcs search.GenFuncsSearchLib.
From GoBT Require model.Interp model.ScriptNum.
Import ListNotations.
Local Open Scope Z_scope.
Set Printing Width 1000000.
Load GenFuncsSearchInterp.

Definition agree_opcode2Drop : si_state -> bool :=
  si_agree_handler Interp.OP_2DROP (fun c s => h_view s (opcode2Drop (rev (Interp.ds s)))).
Definition candidates_opcode2Drop : list si_state := si_states.
Definition show_opcode2Drop := si_show_state.

Definition first_disagreement_opcode2Drop := find (fun x => negb (agree_opcode2Drop x)) candidates_opcode2Drop.

Eval vm_compute in (verdict "opcode2Drop" show_opcode2Drop agree_opcode2Drop candidates_opcode2Drop).
