(** Counterexample search for stack.PopByteArray (bscript/interpreter/stack.go) (printed as [stack_PopByteArray] in gen/Funcs.v) against its meaning in the model's order (the right-hand side of C05_go_source_stack_PopByteArray_is_model, Properties/Gen_stack_PopByteArray.v).
    NOT a proof and independent of proofs/GenFuncs_stack_PopByteArray.v: it compiles whether or not the two sides agree and
    prints one line, "AGREE stack_PopByteArray <candidates>" or "DISAGREE stack_PopByteArray <input>" (see search/GenFuncsSearchLib.v,
    search/GenFuncsSearchInterp.v -- loaded textually below --, tools/gen_search.py).  Domain searched: the 354 data stacks of search/GenFuncsSearchInterp.v (0..6 items over a 12-item alphabet). *)
From Coq Require Import List ZArith NArith Bool String.
From Coq Require Import Strings.Byte.
From GoBT Require Import lib.Bytes lib.GoSem lib.GoInterp gen.Funcs search.GenFuncsSearchLib.
From GoBT Require model.Interp model.ScriptNum.
Import ListNotations.
Local Open Scope Z_scope.
Set Printing Width 1000000.
Load GenFuncsSearchInterp.

Definition agree_stack_PopByteArray (d : list bytes) : bool := (M_eq (pair_eqb si_stack_eqb (pair_eqb si_bytes_eqb Bool.eqb))) (stack_PopByteArray (rev d)) (Val (go_st (pop_model d))).
Definition candidates_stack_PopByteArray : list (list bytes) := si_stacks.
Definition show_stack_PopByteArray := si_show_stack_only.

Definition first_disagreement_stack_PopByteArray := find (fun x => negb (agree_stack_PopByteArray x)) candidates_stack_PopByteArray.

Eval vm_compute in (verdict "stack_PopByteArray" show_stack_PopByteArray agree_stack_PopByteArray candidates_stack_PopByteArray).
