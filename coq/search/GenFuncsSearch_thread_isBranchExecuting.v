(** Counterexample search for thread.isBranchExecuting (bscript/interpreter/thread.go) (printed as [thread_isBranchExecuting] in gen/Funcs.v) against [branch_executing] of model/Interp.v.
    NOT a proof and independent of proofs/GenFuncs_thread_isBranchExecuting.v: it compiles whether or not the two sides agree and
    prints one line, "AGREE thread_isBranchExecuting <candidates>" or "DISAGREE thread_isBranchExecuting <input>" (see search/GenFuncsSearchLib.v,
    tools/gen_search.py).  Domain searched: every condition stack over the values 0..3 up to length 6 (printed as the Go slice, top last). *)
From Coq Require Import List ZArith NArith Bool String.
From Coq Require Import Strings.Byte.
From GoBT Require Import lib.Bytes lib.GoSem gen.Funcs search.GenFuncsSearchLib.
From GoBT Require model.Interp.
Import ListNotations.
Local Open Scope Z_scope.
Set Printing Width 1000000.

(** every condition stack (in the MODEL's order, top first) over the values [vals] up to length [n] *)
Fixpoint stacks (vals : list N) (n : nat) : list (list N) :=
  match n with
  | O => [[]]
  | S k => [] :: flat_map (fun v => map (cons v) (stacks vals k)) vals
  end.
Definition go_cond_stack (cs : list N) : list Z := map Z.of_N (rev cs).
Definition st_of (cs : list N) (early : bool) : Interp.st := Interp.mkSt [] [] cs [] 0 0 early [].
Definition agree_thread_isBranchExecuting (cs : list N) : bool :=
  M_eq Bool.eqb (thread_isBranchExecuting (go_cond_stack cs)) (Val (Interp.branch_executing (st_of cs false))).
Definition candidates_thread_isBranchExecuting : list (list N) := stacks [0; 1; 2; 3]%N 6.
Definition show_thread_isBranchExecuting (cs : list N) : string := ("condStack=" ++ show_Zs (go_cond_stack cs))%string.

Definition first_disagreement_thread_isBranchExecuting := find (fun x => negb (agree_thread_isBranchExecuting x)) candidates_thread_isBranchExecuting.

Eval vm_compute in (verdict "thread_isBranchExecuting" show_thread_isBranchExecuting agree_thread_isBranchExecuting candidates_thread_isBranchExecuting).
